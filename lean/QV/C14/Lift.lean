import QV.C14.Lemmas
import Mathlib.Data.Nat.Bitwise
import Mathlib.Data.Fintype.Card
import Mathlib.Data.Fintype.EquivFin
/-
C14 lifting theorem: `lifted_gate_matrix` (the swap network + conjugation by the permutation matrix) computes
`liftSpec` (the bit-manipulation specification), for EVERY matrix `M`, every number of qubits `n` and every
qubit list for which the sweep loop terminates; and it terminates on every injective placement into
`n ≤ 5` qubits (the property's quantifier), by exhaustive evaluation of a matrix-free shadow of the loop.
-/
namespace QV.C14
open Mat GateFns

set_option linter.unusedSectionVars false
set_option linter.unusedVariables false

/-! ## A. Bits -/

theorem testBit_false_of_lt {x n j : Nat} (h : x < 2 ^ n) (hj : n ≤ j) : x.testBit j = false :=
  Nat.testBit_lt_two_pow (lt_of_lt_of_le h (Nat.pow_le_pow_right (by norm_num) hj))

/-- two numbers below `2^n` are equal iff their low `n` bits agree -/
theorem eq_iff_testBit_lt {a b n : Nat} (ha : a < 2 ^ n) (hb : b < 2 ^ n) :
    a = b ↔ ∀ p, p < n → a.testBit p = b.testBit p := by
  constructor
  · rintro rfl _ _; rfl
  · intro h
    apply Nat.eq_of_testBit_eq
    intro p
    by_cases hp : p < n
    · exact h p hp
    · rw [testBit_false_of_lt ha (by omega), testBit_false_of_lt hb (by omega)]

theorem div_pow_eq_iff (a b m : Nat) :
    a / 2 ^ m = b / 2 ^ m ↔ ∀ q, m ≤ q → a.testBit q = b.testBit q := by
  constructor
  · intro h q hq
    have := congrArg (fun x => x.testBit (q - m)) h
    simp only [Nat.testBit_div_two_pow] at this
    rwa [Nat.sub_add_cancel hq] at this
  · intro h
    apply Nat.eq_of_testBit_eq
    intro i
    rw [Nat.testBit_div_two_pow, Nat.testBit_div_two_pow]
    exact h _ (by omega)

theorem mod_pow_eq_iff (a b m : Nat) :
    a % 2 ^ m = b % 2 ^ m ↔ ∀ q, q < m → a.testBit q = b.testBit q := by
  constructor
  · intro h q hq
    have := congrArg (fun x => x.testBit q) h
    simpa [Nat.testBit_mod_two_pow, hq] using this
  · intro h
    apply Nat.eq_of_testBit_eq
    intro i
    rw [Nat.testBit_mod_two_pow, Nat.testBit_mod_two_pow]
    by_cases hi : i < m
    · simp [hi, h i hi]
    · simp [hi]

/-- the `k`-bit field of `a` starting at bit `p` -/
def field (p k a : Nat) : Nat := a % 2 ^ (p + k) / 2 ^ p

theorem field_lt (p k a : Nat) : field p k a < 2 ^ k := by
  unfold field
  rw [Nat.div_lt_iff_lt_mul (by positivity), ← pow_add, Nat.add_comm k p]
  exact Nat.mod_lt _ (by positivity)

theorem testBit_field (p k a t : Nat) : (field p k a).testBit t = (decide (t < k) && a.testBit (p + t)) := by
  unfold field
  rw [Nat.testBit_div_two_pow, Nat.testBit_mod_two_pow, Nat.add_comm t p]
  congr 1
  simp

/-- index whose bit at position `q` is bit `arr[q]` of `x` (position 0 = head of `arr`) -/
def bitIdx : List Nat → Nat → Nat
  | [], _ => 0
  | q :: rest, x => (x.testBit q).toNat + 2 * bitIdx rest x

theorem bitIdx_lt (arr : List Nat) (x : Nat) : bitIdx arr x < 2 ^ arr.length := by
  induction arr with
  | nil => simp [bitIdx]
  | cons q rest ih =>
    simp only [bitIdx, List.length_cons, pow_succ]
    have : (x.testBit q).toNat ≤ 1 := Bool.toNat_le _
    omega

theorem testBit_bitIdx (arr : List Nat) (x p : Nat) :
    (bitIdx arr x).testBit p = (decide (p < arr.length) && x.testBit (arr.getD p 0)) := by
  induction arr generalizing p with
  | nil => simp [bitIdx]
  | cons q rest ih =>
    cases p with
    | zero =>
      simp only [bitIdx, Nat.testBit_zero, List.length_cons, List.getD_cons_zero]
      cases x.testBit q <;> simp <;> omega
    | succ p =>
      rw [Nat.testBit_succ]
      have : ((x.testBit q).toNat + 2 * bitIdx rest x) / 2 = bitIdx rest x := by
        have : (x.testBit q).toNat ≤ 1 := Bool.toNat_le _
        omega
      simp only [bitIdx, this, ih, List.length_cons, List.getD_cons_succ]
      congr 1
      simp

theorem bitIdx_range {n x : Nat} (hx : x < 2 ^ n) : bitIdx (List.range n) x = x := by
  have h1 := bitIdx_lt (List.range n) x
  rw [List.length_range] at h1
  rw [eq_iff_testBit_lt h1 hx]
  intro p hp
  rw [testBit_bitIdx]
  simp [hp, List.getD_eq_getElem?_getD]

theorem gateIndex_eq_bitIdx (qs : List Nat) (x : Nat) : gateIndex qs x = bitIdx qs.reverse x := by
  unfold gateIndex
  induction qs using List.reverseRecOn with
  | nil => simp [bitIdx]
  | append_singleton qs q ih =>
    rw [List.foldl_append, List.reverse_append]
    simp only [bit] at ih
    simp only [List.foldl_cons, List.foldl_nil, List.reverse_cons, List.reverse_nil, List.nil_append,
      List.singleton_append, bitIdx, bit]
    rw [ih]; omega

theorem gateIndex_lt (qs : List Nat) (x : Nat) : gateIndex qs x < 2 ^ qs.length := by
  rw [gateIndex_eq_bitIdx]
  simpa using bitIdx_lt qs.reverse x

theorem testBit_gateIndex (qs : List Nat) (x t : Nat) (ht : t < qs.length) :
    (gateIndex qs x).testBit t = x.testBit (qs.getD (qs.length - 1 - t) 0) := by
  rw [gateIndex_eq_bitIdx, testBit_bitIdx, List.getD_reverse _ ht]
  simp [ht]

/-! ## B. Permutation matrices of bit permutations, the adjacent lift, one swap -/
section
variable {K : Type} [CommRing K] [GateFns K]

/-- the permutation matrix of `x ↦ bitIdx arr x`: column `x` has its 1 in row `bitIdx arr x` -/
def permMat (n : Nat) (arr : List Nat) : Mat K :=
  build (2 ^ n) (2 ^ n) fun a x => if a = bitIdx arr x then 1 else 0

theorem eye_eq_permMat (n : Nat) : (eye (2 ^ n) : Mat K) = permMat n (List.range n) := by
  unfold eye permMat
  apply build_congr
  intro i j hi hj
  rw [bitIdx_range hj]

theorem get_permMat {n : Nat} {arr : List Nat} {a x : Nat} (ha : a < 2 ^ n) (hx : x < 2 ^ n) :
    (permMat n arr : Mat K).get a x = if a = bitIdx arr x then 1 else 0 := get_build ha hx

/-- multiplying by a bit-permutation matrix on the right re-indexes the columns -/
theorem get_mul_permMat {A : Mat K} {n : Nat} {arr : List Nat} (hlen : arr.length = n) (hA : A.c = 2 ^ n)
    {i x : Nat} (hi : i < A.r) (hx : x < 2 ^ n) :
    (mul A (permMat n arr)).get i x = A.get i (bitIdx arr x) := by
  rw [get_mul hi (by simpa [permMat] using hx), hA]
  have hy : bitIdx arr x < 2 ^ n := by have := bitIdx_lt arr x; rwa [hlen] at this
  rw [Finset.sum_eq_single (bitIdx arr x)]
  · rw [get_permMat hy hx]; simp
  · intro k hk hne
    rw [get_permMat (by simpa using hk) hx]; simp [hne]
  · intro h; simp at h; omega

theorem pow_split {n p k : Nat} (h : p + k ≤ n) : 2 ^ (n - p - k) * 2 ^ (p + k) = 2 ^ n := by
  rw [← pow_add]; congr 1; omega

/-- entries of `I ⊗ M ⊗ I` (what `qubit_adjacent_lifted_gate` builds) by bit fields -/
theorem get_adjLift {M : Mat K} {k p n : Nat} (hMr : M.r = 2 ^ k) (hMc : M.c = 2 ^ k) (hpn : p + k ≤ n)
    {a b : Nat} (ha : a < 2 ^ n) (hb : b < 2 ^ n) :
    (kron (eye (2 ^ (n - p - k))) (kron M (eye (2 ^ p)))).get a b =
      if a / 2 ^ (p + k) = b / 2 ^ (p + k) ∧ a % 2 ^ p = b % 2 ^ p then M.get (field p k a) (field p k b) else 0 := by
  have hkp : 2 ^ k * 2 ^ p = 2 ^ (p + k) := by rw [← pow_add, Nat.add_comm]
  have hdim := pow_split hpn
  have hpos : 0 < 2 ^ (p + k) := by positivity
  have hpos' : 0 < 2 ^ p := by positivity
  have hdvd : 2 ^ p ∣ 2 ^ (p + k) := pow_dvd_pow 2 (by omega)
  rw [get_kron (by simp only [eye_r, kron_r, hMr, hkp, hdim]; exact ha)
    (by simp only [eye_c, kron_c, hMc, hkp, hdim]; exact hb)]
  simp only [kron_r, kron_c, eye_r, eye_c, hMr, hMc, hkp]
  have ha1 : a / 2 ^ (p + k) < 2 ^ (n - p - k) := by rw [Nat.div_lt_iff_lt_mul hpos, hdim]; exact ha
  have hb1 : b / 2 ^ (p + k) < 2 ^ (n - p - k) := by rw [Nat.div_lt_iff_lt_mul hpos, hdim]; exact hb
  rw [get_eye ha1 hb1]
  rw [get_kron (by simp only [eye_r, hMr, hkp]; exact Nat.mod_lt _ hpos)
    (by simp only [eye_c, hMc, hkp]; exact Nat.mod_lt _ hpos)]
  simp only [eye_r, eye_c]
  rw [get_eye (Nat.mod_lt _ hpos') (Nat.mod_lt _ hpos'), Nat.mod_mod_of_dvd _ hdvd, Nat.mod_mod_of_dvd _ hdvd]
  unfold field
  by_cases h1 : a / 2 ^ (p + k) = b / 2 ^ (p + k) <;> by_cases h2 : a % 2 ^ p = b % 2 ^ p <;> simp [h1, h2]

theorem adjLift_dims {M : Mat K} {k p n : Nat} (hMr : M.r = 2 ^ k) (hMc : M.c = 2 ^ k) (hpn : p + k ≤ n) :
    (kron (eye (2 ^ (n - p - k))) (kron M (eye (2 ^ p)))).r = 2 ^ n ∧
    (kron (eye (2 ^ (n - p - k))) (kron M (eye (2 ^ p)))).c = 2 ^ n := by
  have hkp : 2 ^ k * 2 ^ p = 2 ^ (p + k) := by rw [← pow_add, Nat.add_comm]
  simp only [kron_r, kron_c, eye_r, eye_c, hMr, hMc, hkp, pow_split hpn, and_self]

/-- `qubit_adjacent_lifted_gate` succeeds iff the gate fits, and then is `I ⊗ M ⊗ I` -/
theorem qubitAdjacentLift_eq {M : Mat K} {k : Nat} (hMr : M.r = 2 ^ k) (p n : Nat) :
    qubitAdjacentLift p M n =
      if n < p + k then .crash "attempt to subtract with overflow"
      else .ok (kron (eye (2 ^ (n - p - k))) (kron M (eye (2 ^ p)))) := by
  unfold qubitAdjacentLift
  simp only [hMr, Nat.log2_two_pow]

/-- transposition of the adjacent positions `p`, `p+1` -/
def sw (p q : Nat) : Nat := if q = p then p + 1 else if q = p + 1 then p else q

/-- `qubit_map.swap(p, p+1)` -/
def swapList (arr : List Nat) (p : Nat) : List Nat := (arr.set p (arr.getD (p + 1) 0)).set (p + 1) (arr.getD p 0)

theorem swapAt_eq (arr : List Nat) (p : Nat) :
    swapAt arr p (p + 1) = if p + 1 < arr.length then .ok (swapList arr p) else .crash "index out of bounds" := by
  unfold swapAt swapList
  by_cases h : p + 1 < arr.length
  · have : p < arr.length := by omega
    simp [h, this]
  · have : ¬ (p < arr.length ∧ p + 1 < arr.length) := by omega
    simp [h, this]

@[simp] theorem length_swapList (arr : List Nat) (p : Nat) : (swapList arr p).length = arr.length := by
  simp [swapList]

theorem getD_swapList {arr : List Nat} {p : Nat} (h : p + 1 < arr.length) (q : Nat) :
    (swapList arr p).getD q 0 = arr.getD (sw p q) 0 := by
  unfold swapList sw
  simp only [List.getD_eq_getElem?_getD, List.getElem?_set, List.length_set]
  have hp0 : p < arr.length := by omega
  by_cases h1 : q = p
  · rw [h1]; simp [h, hp0]
  · by_cases h2 : q = p + 1
    · rw [h2]; simp [h, hp0]
    · have h3 : ¬ p + 1 = q := fun e => h2 e.symm
      have h4 : ¬ p = q := fun e => h1 e.symm
      simp [h1, h2, h3, h4]

theorem sw_lt {p q n : Nat} (hp : p + 2 ≤ n) (hq : q < n) : sw p q < n := by
  unfold sw; split_ifs <;> omega

theorem sw_sw (p q : Nat) : sw p (sw p q) = q := by
  unfold sw; split_ifs <;> omega

theorem swapMat_get {m m' : Nat} (hm : m < 4) (hm' : m' < 4) :
    (swapMat : Mat K).get m m' = if m.testBit 0 = m'.testBit 1 ∧ m.testBit 1 = m'.testBit 0 then 1 else 0 := by
  interval_cases m <;> interval_cases m' <;>
    simp [swapMat, Mat.ofRows, Mat.get_build', Nat.testBit_eq_decide_div_mod_eq]

/-- one step of the swap network: a lifted SWAP at `(p, p+1)` times the bit-permutation matrix of `arr` is the
bit-permutation matrix of `arr` with positions `p`, `p+1` exchanged -/
theorem swap_mul_permMat {n p : Nat} {arr : List Nat} (hlen : arr.length = n) (hp : p + 2 ≤ n) :
    mul (kron (eye (2 ^ (n - p - 2))) (kron (swapMat : Mat K) (eye (2 ^ p)))) (permMat n arr)
      = permMat n (swapList arr p) := by
  have hr : (swapMat : Mat K).r = 2 ^ 2 := rfl
  have hc : (swapMat : Mat K).c = 2 ^ 2 := rfl
  obtain ⟨d1, d2⟩ := adjLift_dims (K := K) hr hc hp
  refine Mat.ext' (wf_mul _ _) (wf_build _ _ _) ?_ rfl ?_
  · simp only [mul_r]; rw [d1]; rfl
  intro a x ha hx
  simp only [mul_r, mul_c] at ha hx
  rw [d1] at ha
  have hx' : x < 2 ^ n := hx
  rw [get_mul_permMat hlen d2 (by rw [d1]; exact ha) hx', get_permMat ha hx']
  have hy : bitIdx arr x < 2 ^ n := by have := bitIdx_lt arr x; rwa [hlen] at this
  have hy' : bitIdx (swapList arr p) x < 2 ^ n := by
    have := bitIdx_lt (swapList arr p) x; rwa [length_swapList, hlen] at this
  rw [get_adjLift hr hc hp ha hy, swapMat_get (field_lt _ _ _) (field_lt _ _ _)]
  have hbit : ∀ q, (bitIdx arr x).testBit q = (decide (q < n) && x.testBit (arr.getD q 0)) := by
    intro q; rw [testBit_bitIdx, hlen]
  have hbit' : ∀ q, q < n → (bitIdx (swapList arr p) x).testBit q = (bitIdx arr x).testBit (sw p q) := by
    intro q hq
    rw [testBit_bitIdx, hbit, length_swapList, hlen, getD_swapList (by omega)]
    simp [hq, sw_lt hp hq]
  have hsw1 : sw p p = p + 1 := by simp [sw]
  have hsw2 : sw p (p + 1) = p := by simp [sw]
  have hsw3 : ∀ q, q ≠ p → q ≠ p + 1 → sw p q = q := by intro q h1 h2; simp [sw, h1, h2]
  have key : ((a / 2 ^ (p + 2) = bitIdx arr x / 2 ^ (p + 2) ∧ a % 2 ^ p = bitIdx arr x % 2 ^ p) ∧
      ((field p 2 a).testBit 0 = (field p 2 (bitIdx arr x)).testBit 1 ∧
        (field p 2 a).testBit 1 = (field p 2 (bitIdx arr x)).testBit 0)) ↔ a = bitIdx (swapList arr p) x := by
    rw [eq_iff_testBit_lt ha hy', div_pow_eq_iff, mod_pow_eq_iff]
    simp only [testBit_field, Nat.add_zero, show (decide (0 < 2)) = true from rfl,
      show (decide (1 < 2)) = true from rfl, Bool.true_and]
    constructor
    · rintro ⟨⟨c1, c2⟩, c3, c4⟩ q hq
      rw [hbit' q hq]
      by_cases h1 : q = p
      · rw [h1, hsw1]; exact c3
      · by_cases h2 : q = p + 1
        · rw [h2, hsw2]; exact c4
        · rw [hsw3 q h1 h2]
          by_cases h3 : q < p
          · exact c2 q h3
          · exact c1 q (by omega)
    · intro hD
      refine ⟨⟨?_, ?_⟩, ?_, ?_⟩
      · intro q hq
        by_cases hqn : q < n
        · rw [hD q hqn, hbit' q hqn, hsw3 q (by omega) (by omega)]
        · rw [testBit_false_of_lt ha (by omega), testBit_false_of_lt hy (by omega)]
      · intro q hq
        rw [hD q (by omega), hbit' q (by omega), hsw3 q (by omega) (by omega)]
      · rw [hD p (by omega), hbit' p (by omega), hsw1]
      · rw [hD (p + 1) (by omega), hbit' (p + 1) (by omega), hsw2]
  by_cases h : a = bitIdx (swapList arr p) x
  · obtain ⟨h1, h2⟩ := key.mpr h
    rw [if_pos h1, if_pos h2, if_pos h]
  · rw [if_neg h]
    by_cases h1 : a / 2 ^ (p + 2) = bitIdx arr x / 2 ^ (p + 2) ∧ a % 2 ^ p = bitIdx arr x % 2 ^ p
    · rw [if_pos h1, if_neg (fun h2 => h (key.mp ⟨h1, h2⟩))]
    · rw [if_neg h1]

/-! ## C. The swap network keeps "perm = bit-permutation matrix of qubit_arr" -/

/-- `arr` lists `0..n-1` bijectively -/
structure Good (n : Nat) (arr : List Nat) : Prop where
  len : arr.length = n
  lt : ∀ q, q < n → arr.getD q 0 < n
  inj : ∀ q q', q < n → q' < n → arr.getD q 0 = arr.getD q' 0 → q = q'

theorem good_range (n : Nat) : Good n (List.range n) := by
  refine ⟨List.length_range, ?_, ?_⟩
  · intro q hq; simp [List.getD_eq_getElem?_getD, hq]
  · intro q q' hq hq' h; simpa [List.getD_eq_getElem?_getD, hq, hq'] using h

theorem good_swapList {n p : Nat} {arr : List Nat} (h : Good n arr) (hp : p + 2 ≤ n) : Good n (swapList arr p) := by
  have hl : p + 1 < arr.length := by rw [h.len]; omega
  refine ⟨by rw [length_swapList, h.len], ?_, ?_⟩
  · intro q hq; rw [getD_swapList hl]; exact h.lt _ (sw_lt hp hq)
  · intro q q' hq hq' e
    rw [getD_swapList hl, getD_swapList hl] at e
    have := h.inj _ _ (sw_lt hp hq) (sw_lt hp hq') e
    have := congrArg (sw p) this
    rwa [sw_sw, sw_sw] at this

theorem Good.surj {n : Nat} {arr : List Nat} (h : Good n arr) {v : Nat} (hv : v < n) :
    ∃ q, q < n ∧ arr.getD q 0 = v := by
  let f : Fin n → Fin n := fun q => ⟨arr.getD q.val 0, h.lt q.val q.isLt⟩
  have hf : Function.Injective f := by
    intro a b e
    have : arr.getD a.val 0 = arr.getD b.val 0 := congrArg Fin.val e
    exact Fin.ext (h.inj _ _ a.isLt b.isLt this)
  obtain ⟨q, hq⟩ := Finite.surjective_of_injective hf ⟨v, hv⟩
  exact ⟨q.val, q.isLt, congrArg Fin.val hq⟩

theorem wf_permMat (n : Nat) (arr : List Nat) : (permMat n arr : Mat K).WF := wf_build _ _ _

/-- the lifted SWAP at positions `(p, p+1)` -/
def liftedSwap (n p : Nat) : Mat K := kron (eye (2 ^ (n - p - 2))) (kron (swapMat : Mat K) (eye (2 ^ p)))

theorem liftedSwap_dims {n p : Nat} (hp : p + 2 ≤ n) :
    (liftedSwap n p : Mat K).r = 2 ^ n ∧ (liftedSwap n p : Mat K).c = 2 ^ n :=
  adjLift_dims (K := K) (M := swapMat) (k := 2) rfl rfl hp

theorem swapStep_ok {n p : Nat} {pm : Mat K} {a : List Nat} {r : Mat K × List Nat}
    (h : swapStep n (pm, a) p = .ok r) :
    p + 2 ≤ n ∧ p + 1 < a.length ∧ r = (mul (liftedSwap n p) pm, swapList a p) := by
  unfold swapStep at h
  rw [qubitAdjacentLift_eq (K := K) (M := swapMat) (k := 2) rfl, swapAt_eq] at h
  by_cases h1 : n < p + 2
  · simp [h1, Outcome.bind] at h
  · by_cases h2 : p + 1 < a.length
    · simp only [h1, h2, if_false, if_true, Outcome.bind] at h
      injection h with h
      exact ⟨by omega, h2, h.symm⟩
    · simp [h1, h2, Outcome.bind] at h

theorem swapSteps_inv {n : Nat} {arr0 : List Nat} (h0 : arr0.length = n) :
    ∀ (ps : List Nat) (pm : Mat K) (a : List Nat) (r : Mat K × List Nat),
      swapSteps n ps (pm, a) = .ok r → pm.r = 2 ^ n → pm.c = 2 ^ n → Good n a →
      mul pm (permMat n arr0) = permMat n a →
      r.1.r = 2 ^ n ∧ r.1.c = 2 ^ n ∧ Good n r.2 ∧ mul r.1 (permMat n arr0) = permMat n r.2 := by
  intro ps
  induction ps with
  | nil =>
    intro pm a r h hr hc hg hm
    simp only [swapSteps] at h
    injection h with h; subst h
    exact ⟨hr, hc, hg, hm⟩
  | cons p ps ih =>
    intro pm a r h hr hc hg hm
    simp only [swapSteps] at h
    cases hs : swapStep n (pm, a) p with
    | ok r1 =>
      rw [hs] at h
      simp only [Outcome.bind] at h
      obtain ⟨hp, hl, rfl⟩ := swapStep_ok hs
      obtain ⟨d1, d2⟩ := liftedSwap_dims (K := K) hp
      apply ih _ _ _ h
      · simp only [mul_r]; exact d1
      · simp only [mul_c]; exact hc
      · exact good_swapList hg hp
      · rw [Mat.mul_assoc' (by rw [d2, hr]) (by rw [hc]; rfl), hm]
        exact swap_mul_permMat hg.len hp
    | crash m => rw [hs] at h; simp [Outcome.bind] at h
    | outOfFuel => rw [hs] at h; simp [Outcome.bind] at h

theorem twoSwapHelper_inv {n j k : Nat} {arr : List Nat} {r : Mat K × List Nat}
    (h : twoSwapHelper j k n arr = .ok r) (hg : Good n arr) :
    r.1.r = 2 ^ n ∧ r.1.c = 2 ^ n ∧ Good n r.2 ∧ mul r.1 (permMat n arr) = permMat n r.2 := by
  unfold twoSwapHelper at h
  apply swapSteps_inv hg.len _ _ _ _ h rfl rfl hg
  have := eye_mul (wf_permMat (K := K) n arr)
  simpa [permMat] using this

/-- what the exit test establishes: position `f - i` holds the `i`-th listed qubit -/
theorem madeIt_true {arr : List Nat} : ∀ (qs : List Nat) (f : Nat), madeIt arr f qs = .ok true →
    ∀ i, i < qs.length → f - i < arr.length ∧ arr.getD (f - i) 0 = qs.getD i 0 := by
  intro qs
  induction qs with
  | nil => intro f _ i hi; simp at hi
  | cons q qs ih =>
    intro f h i hi
    simp only [madeIt] at h
    by_cases h1 : f < arr.length
    · by_cases h2 : arr.getD f 0 = q
      · rw [if_pos h1, if_pos h2] at h
        cases i with
        | zero => exact ⟨h1, by simpa using h2⟩
        | succ i =>
          have := ih (f - 1) h i (by simpa using hi)
          rw [Nat.sub_sub, Nat.add_comm 1 i] at this
          simpa using this
      · rw [if_pos h1, if_neg h2] at h; simp at h
    · rw [if_neg h1] at h; simp at h

theorem sweep_inv {qs : List Nat} {n start : Nat} :
    ∀ (is : List Nat) (perm : Mat K) (arr : List Nat) (r : Bool × Mat K × List Nat),
      sweep qs n start is perm arr = .ok r → Good n arr → perm = permMat n arr →
      Good n r.2.2 ∧ r.2.1 = permMat n r.2.2 ∧
        (r.1 = true → madeIt r.2.2 (start + qs.length - 1) qs = .ok true) := by
  intro is
  induction is with
  | nil =>
    intro perm arr r h hg hp
    simp only [sweep] at h
    injection h with h; subst h
    exact ⟨hg, hp, by simp⟩
  | cons i is ih =>
    intro perm arr r h hg hp
    simp only [sweep] at h
    cases hpos : position (qs.getD i 0) arr with
    | none => rw [hpos] at h; simp at h
    | some j =>
      rw [hpos] at h
      simp only at h
      cases ht : twoSwapHelper (K := K) j (start + qs.length - 1 - i) n arr with
      | ok r1 =>
        rw [ht] at h
        obtain ⟨pmod, arr'⟩ := r1
        simp only [Outcome.bind] at h
        obtain ⟨_, _, hg', hm⟩ := twoSwapHelper_inv ht hg
        simp only at hg' hm
        have hperm' : mul pmod perm = permMat n arr' := by rw [hp]; exact hm
        cases hmade : madeIt arr' (start + qs.length - 1) qs with
        | ok made =>
          rw [hmade] at h
          simp only [Outcome.bind] at h
          cases made with
          | true =>
            simp only [if_true] at h
            injection h with h; subst h
            exact ⟨hg', hperm', fun _ => hmade⟩
          | false =>
            simp only [Bool.false_eq_true, if_false] at h
            exact ih _ _ _ h hg' hperm'
        | crash m => rw [hmade] at h; simp [Outcome.bind] at h
        | outOfFuel => rw [hmade] at h; simp [Outcome.bind] at h
      | crash m => rw [ht] at h; simp [Outcome.bind] at h
      | outOfFuel => rw [ht] at h; simp [Outcome.bind] at h

theorem sweeps_inv {qs : List Nat} {n start : Nat} :
    ∀ (fuel : Nat) (right : Bool) (perm : Mat K) (arr : List Nat) (P : Mat K),
      sweeps qs n start fuel right perm arr = .ok P → Good n arr → perm = permMat n arr →
      ∃ arr', Good n arr' ∧ P = permMat n arr' ∧ madeIt arr' (start + qs.length - 1) qs = .ok true := by
  intro fuel
  induction fuel with
  | zero => intro right perm arr P h; simp [sweeps] at h
  | succ fuel ih =>
    intro right perm arr P h hg hp
    simp only [sweeps] at h
    cases hs : sweep (K := K) qs n start
        (if right = true then List.range qs.length else (List.range qs.length).reverse) perm arr with
    | ok r =>
      rw [hs] at h
      obtain ⟨made, perm', arr'⟩ := r
      simp only [Outcome.bind] at h
      obtain ⟨hg', hp', hm⟩ := sweep_inv _ _ _ _ hs hg hp
      simp only at hg' hp' hm
      cases made with
      | true =>
        simp only [if_true] at h
        injection h with h; subst h
        exact ⟨arr', hg', hp', hm rfl⟩
      | false =>
        simp only [Bool.false_eq_true, if_false] at h
        exact ih _ _ _ _ h hg' hp'
    | crash m => rw [hs] at h; simp [Outcome.bind] at h
    | outOfFuel => rw [hs] at h; simp [Outcome.bind] at h

/-- what `permutation_arbitrary` returns when it returns: the bit-permutation matrix of a bijective
arrangement `arr`; for two or more listed qubits the window `start … start+len-1` holds them, first
listed qubit at the top; for one listed qubit nothing moved and `start` is that qubit. -/
theorem permutationArbitrary_inv {qs : List Nat} {n fuel : Nat} {P : Mat K} {start : Nat}
    (h : permutationArbitrary qs n fuel = .ok (P, start)) :
    ∃ arr, Good n arr ∧ P = permMat n arr ∧
      ((1 < qs.length ∧ madeIt arr (start + qs.length - 1) qs = .ok true) ∨
       (qs.length = 1 ∧ arr = List.range n ∧ start = qs.getD 0 0)) := by
  unfold permutationArbitrary at h
  simp only at h
  by_cases h1 : qs.length / 2 < (sortNat qs).length
  · rw [if_pos h1] at h
    by_cases h2 : (sortNat qs).getD (qs.length / 2) 0 < qs.length / 2
    · rw [if_pos h2] at h; simp at h
    · rw [if_neg h2] at h
      by_cases h3 : qs.length > 1
      · rw [if_pos h3] at h
        cases hs : sweeps (K := K) qs n ((sortNat qs).getD (qs.length / 2) 0 - qs.length / 2) fuel true
            (eye (2 ^ n)) (List.range n) with
        | ok p =>
          rw [hs] at h
          simp only [Outcome.bind] at h
          injection h with h
          injection h with h1' h2'
          subst h1'; subst h2'
          obtain ⟨arr', hg, hp, hm⟩ := sweeps_inv _ _ _ _ _ hs (good_range n) (eye_eq_permMat n)
          exact ⟨arr', hg, hp, Or.inl ⟨h3, hm⟩⟩
        | crash m => rw [hs] at h; simp [Outcome.bind] at h
        | outOfFuel => rw [hs] at h; simp [Outcome.bind] at h
      · rw [if_neg h3] at h
        injection h with h
        injection h with h1' h2'
        subst h1'
        match qs, h1, h3, h2' with
        | [], h1, _, _ => simp [sortNat] at h1
        | [q], _, _, h2' =>
          refine ⟨List.range n, good_range n, eye_eq_permMat n, Or.inr ⟨rfl, rfl, ?_⟩⟩
          simpa [sortNat, insertSorted] using h2'.symm
        | _ :: _ :: _, _, h3, _ => simp at h3
  · rw [if_neg h1] at h; simp at h

end

/-! ## D. Conjugation by the permutation matrix and the final identification with `liftSpec` -/
section
variable {K : Type} [CommRing K] [StarRing K] [GateFns K] [GateLaws K]

theorem conj_zero : conj (0 : K) = 0 := by rw [GateLaws.conj_eq]; exact star_zero K
theorem conj_one : conj (1 : K) = 1 := by rw [GateLaws.conj_eq]; exact star_one K

/-- `Pᴴ · (V · P)` re-indexes `V` by the bit permutation -/
theorem conjugate_by_permMat {V : Mat K} {n : Nat} {arr : List Nat} (hlen : arr.length = n)
    (hVr : V.r = 2 ^ n) (hVc : V.c = 2 ^ n) {r c : Nat} (hr : r < 2 ^ n) (hc : c < 2 ^ n) :
    (mul (adjoint (permMat n arr)) (mul V (permMat n arr))).get r c = V.get (bitIdx arr r) (bitIdx arr c) := by
  have hy : bitIdx arr r < 2 ^ n := by have := bitIdx_lt arr r; rwa [hlen] at this
  rw [get_mul (by simpa [permMat] using hr) (by simpa [permMat] using hc)]
  simp only [adjoint_c]
  have hPr : (permMat n arr : Mat K).r = 2 ^ n := rfl
  rw [hPr, Finset.sum_eq_single (bitIdx arr r)]
  · rw [get_adjoint (by simpa [permMat] using hr) (by simpa [permMat] using hy), get_permMat hy hr,
      get_mul_permMat hlen hVc (by rw [hVr]; exact hy) hc]
    simp [conj_one]
  · intro a ha hne
    have ha' : a < 2 ^ n := by simpa using ha
    rw [get_adjoint (by simpa [permMat] using hr) (by simpa [permMat] using ha'), get_permMat ha' hr]
    simp [hne, conj_zero]
  · intro h; simp at h; omega

/-- positions `start … start+len-1` of `arr` hold the listed qubits, first listed qubit at the top -/
def Placed (arr : List Nat) (start : Nat) (qs : List Nat) : Prop :=
  ∀ i, i < qs.length →
    start + qs.length - 1 - i < arr.length ∧ arr.getD (start + qs.length - 1 - i) 0 = qs.getD i 0

theorem field_bitIdx_eq_gateIndex {arr qs : List Nat} {n start : Nat} (hlen : arr.length = n)
    (hfit : start + qs.length ≤ n) (hpl : Placed arr start qs) (x : Nat) :
    field start qs.length (bitIdx arr x) = gateIndex qs x := by
  rw [eq_iff_testBit_lt (field_lt _ _ _) (gateIndex_lt _ _)]
  intro t ht
  rw [testBit_field, testBit_bitIdx, testBit_gateIndex _ _ _ ht, hlen]
  have h1 : start + t < n := by omega
  obtain ⟨_, e⟩ := hpl (qs.length - 1 - t) (by omega)
  have : start + qs.length - 1 - (qs.length - 1 - t) = start + t := by omega
  rw [this] at e
  rw [e, decide_eq_true ht, decide_eq_true h1, Bool.true_and, Bool.true_and]

theorem agree_iff {arr qs : List Nat} {n start : Nat} (hg : Good n arr)
    (hfit : start + qs.length ≤ n) (hpl : Placed arr start qs) (r c : Nat) :
    (bitIdx arr r / 2 ^ (start + qs.length) = bitIdx arr c / 2 ^ (start + qs.length) ∧
      bitIdx arr r % 2 ^ start = bitIdx arr c % 2 ^ start) ↔ agreeOutside qs n r c = true := by
  rw [div_pow_eq_iff, mod_pow_eq_iff]
  have hbit : ∀ x q, (bitIdx arr x).testBit q = (decide (q < n) && x.testBit (arr.getD q 0)) := by
    intro x q; rw [testBit_bitIdx, hg.len]
  have hR : agreeOutside qs n r c = true ↔ ∀ p, p < n → p ∈ qs ∨ r.testBit p = c.testBit p := by
    unfold agreeOutside
    simp [List.all_eq_true]
  rw [hR]
  constructor
  · rintro ⟨h1, h2⟩ p hp
    by_cases hmem : p ∈ qs
    · exact Or.inl hmem
    · right
      obtain ⟨q, hq, rfl⟩ := hg.surj hp
      have hout : q < start ∨ start + qs.length ≤ q := by
        by_contra hcon
        have hin : start ≤ q ∧ q < start + qs.length := by omega
        obtain ⟨_, e⟩ := hpl (start + qs.length - 1 - q) (by omega)
        have : start + qs.length - 1 - (start + qs.length - 1 - q) = q := by omega
        rw [this] at e
        apply hmem
        rw [e, List.getD_eq_getElem _ _ (by omega)]
        exact List.getElem_mem _
      rcases hout with hlt | hge
      · have := h2 q hlt
        simpa [hbit, hq] using this
      · have := h1 q hge
        simpa [hbit, hq] using this
  · intro h
    have key : ∀ q, q < n → (q < start ∨ start + qs.length ≤ q) →
        r.testBit (arr.getD q 0) = c.testBit (arr.getD q 0) := by
      intro q hq hout
      rcases h _ (hg.lt q hq) with hmem | e
      · exfalso
        obtain ⟨i, hi, hi'⟩ := List.getElem_of_mem hmem
        obtain ⟨hb, e⟩ := hpl i hi
        rw [List.getD_eq_getElem _ _ hi, hi'] at e
        have := hg.inj _ _ (by rw [hg.len] at hb; exact hb) hq e
        omega
      · exact e
    constructor
    · intro q hq
      rw [hbit, hbit]
      by_cases hqn : q < n
      · rw [decide_eq_true hqn, Bool.true_and, Bool.true_and]; exact key q hqn (Or.inr hq)
      · rw [decide_eq_false hqn, Bool.false_and, Bool.false_and]
    · intro q hq
      rw [hbit, hbit]
      have hqn : q < n := by omega
      rw [decide_eq_true hqn, Bool.true_and, Bool.true_and]; exact key q hqn (Or.inl hq)

/-- **Lifting theorem (all `n`, all `M`, partial correctness).**  Whenever `lifted_gate_matrix` returns — on
any matrix `M` of size `2^len × 2^len`, any list of `len ≥ 1` qubits, any `n`, any fuel — what it returns is
exactly `liftSpec M qs n`. -/
theorem liftedGateMatrix_eq_liftSpec {M : Mat K} {qs : List Nat} {n fuel : Nat} {R : Mat K}
    (hMr : M.r = 2 ^ qs.length) (hMc : M.c = 2 ^ qs.length)
    (h : liftedGateMatrix M qs n fuel = .ok R) : R = liftSpec M qs n := by
  unfold liftedGateMatrix at h
  cases hp : permutationArbitrary (K := K) qs n fuel with
  | crash m => rw [hp] at h; simp [Outcome.bind] at h
  | outOfFuel => rw [hp] at h; simp [Outcome.bind] at h
  | ok ps =>
    obtain ⟨P, start⟩ := ps
    rw [hp] at h
    simp only [Outcome.bind] at h
    rw [qubitAdjacentLift_eq hMr] at h
    by_cases hfit' : n < start + qs.length
    · rw [if_pos hfit'] at h; simp [Outcome.bind] at h
    · rw [if_neg hfit'] at h
      simp only [Outcome.bind] at h
      injection h with h
      have hfit : start + qs.length ≤ n := by omega
      obtain ⟨arr, hg, hP, hcase⟩ := permutationArbitrary_inv hp
      have hpl : Placed arr start qs := by
        rcases hcase with ⟨_, hm⟩ | ⟨h1, harr, hs⟩
        · intro i hi
          have := madeIt_true qs _ hm i hi
          exact this
        · intro i hi
          have hi0 : i = 0 := by omega
          subst hi0
          rw [h1] at hfit ⊢
          have hs' : start + 1 - 1 - 0 = start := by omega
          rw [hs', harr, List.length_range]
          refine ⟨by omega, ?_⟩
          rw [← hs, List.getD_eq_getElem _ _ (by rw [List.length_range]; omega), List.getElem_range]
      obtain ⟨dV1, dV2⟩ := adjLift_dims (K := K) hMr hMc hfit
      subst hP
      rw [← h]
      refine Mat.ext' (wf_mul _ _) (wf_build _ _ _) rfl rfl ?_
      intro r c hr hc
      have hr' : r < 2 ^ n := hr
      have hc' : c < 2 ^ n := hc
      have hy1 : bitIdx arr r < 2 ^ n := by have := bitIdx_lt arr r; rwa [hg.len] at this
      have hy2 : bitIdx arr c < 2 ^ n := by have := bitIdx_lt arr c; rwa [hg.len] at this
      rw [conjugate_by_permMat hg.len dV1 dV2 hr' hc', get_adjLift hMr hMc hfit hy1 hy2]
      unfold liftSpec
      rw [get_build hr' hc', field_bitIdx_eq_gateIndex hg.len hfit hpl, field_bitIdx_eq_gateIndex hg.len hfit hpl]
      by_cases hA : agreeOutside qs n r c = true
      · rw [if_pos hA, if_pos ((agree_iff hg hfit hpl r c).mpr hA)]
      · rw [if_neg hA, if_neg (fun hh => hA ((agree_iff hg hfit hpl r c).mp hh))]

end

end QV.C14
