import QV.C14.Lemmas
import Mathlib.Data.Nat.Bitwise
import Mathlib.Data.Fintype.Card
/-
C14 lifting theorem: `lifted_gate_matrix` (the swap network + conjugation by the permutation matrix) computes
`liftSpec` (the bit-manipulation specification), for EVERY matrix `M`, every number of qubits `n` and every
qubit list for which the sweep loop terminates; and it terminates on every injective placement into
`n ≤ 5` qubits (the property's quantifier), by exhaustive evaluation of a matrix-free shadow of the loop.
-/
namespace QV.C14
open Mat GateFns

set_option linter.unusedSectionVars false
set_option linter.unusedVariables false

/-! ## A. Bits -/

theorem testBit_false_of_lt {x n j : Nat} (h : x < 2 ^ n) (hj : n ≤ j) : x.testBit j = false :=
  Nat.testBit_lt_two_pow (lt_of_lt_of_le h (Nat.pow_le_pow_right (by norm_num) hj))

/-- two numbers below `2^n` are equal iff their low `n` bits agree -/
theorem eq_iff_testBit_lt {a b n : Nat} (ha : a < 2 ^ n) (hb : b < 2 ^ n) :
    a = b ↔ ∀ p, p < n → a.testBit p = b.testBit p := by
  constructor
  · rintro rfl _ _; rfl
  · intro h
    apply Nat.eq_of_testBit_eq
    intro p
    by_cases hp : p < n
    · exact h p hp
    · rw [testBit_false_of_lt ha (by omega), testBit_false_of_lt hb (by omega)]

theorem div_pow_eq_iff (a b m : Nat) :
    a / 2 ^ m = b / 2 ^ m ↔ ∀ q, m ≤ q → a.testBit q = b.testBit q := by
  constructor
  · intro h q hq
    have := congrArg (fun x => x.testBit (q - m)) h
    simp only [Nat.testBit_div_two_pow] at this
    rwa [Nat.sub_add_cancel hq] at this
  · intro h
    apply Nat.eq_of_testBit_eq
    intro i
    rw [Nat.testBit_div_two_pow, Nat.testBit_div_two_pow]
    exact h _ (by omega)

theorem mod_pow_eq_iff (a b m : Nat) :
    a % 2 ^ m = b % 2 ^ m ↔ ∀ q, q < m → a.testBit q = b.testBit q := by
  constructor
  · intro h q hq
    have := congrArg (fun x => x.testBit q) h
    simpa [Nat.testBit_mod_two_pow, hq] using this
  · intro h
    apply Nat.eq_of_testBit_eq
    intro i
    rw [Nat.testBit_mod_two_pow, Nat.testBit_mod_two_pow]
    by_cases hi : i < m
    · simp [hi, h i hi]
    · simp [hi]

/-- the `k`-bit field of `a` starting at bit `p` -/
def field (p k a : Nat) : Nat := a % 2 ^ (p + k) / 2 ^ p

theorem field_lt (p k a : Nat) : field p k a < 2 ^ k := by
  unfold field
  rw [Nat.div_lt_iff_lt_mul (by positivity), ← pow_add, Nat.add_comm k p]
  exact Nat.mod_lt _ (by positivity)

theorem testBit_field (p k a t : Nat) : (field p k a).testBit t = (decide (t < k) && a.testBit (p + t)) := by
  unfold field
  rw [Nat.testBit_div_two_pow, Nat.testBit_mod_two_pow, Nat.add_comm t p]
  congr 1
  simp

/-- index whose bit at position `q` is bit `arr[q]` of `x` (position 0 = head of `arr`) -/
def bitIdx : List Nat → Nat → Nat
  | [], _ => 0
  | q :: rest, x => (x.testBit q).toNat + 2 * bitIdx rest x

theorem bitIdx_lt (arr : List Nat) (x : Nat) : bitIdx arr x < 2 ^ arr.length := by
  induction arr with
  | nil => simp [bitIdx]
  | cons q rest ih =>
    simp only [bitIdx, List.length_cons, pow_succ]
    have : (x.testBit q).toNat ≤ 1 := Bool.toNat_le _
    omega

theorem testBit_bitIdx (arr : List Nat) (x p : Nat) :
    (bitIdx arr x).testBit p = (decide (p < arr.length) && x.testBit (arr.getD p 0)) := by
  induction arr generalizing p with
  | nil => simp [bitIdx]
  | cons q rest ih =>
    cases p with
    | zero =>
      simp only [bitIdx, Nat.testBit_zero, List.length_cons, List.getD_cons_zero]
      cases x.testBit q <;> simp <;> omega
    | succ p =>
      rw [Nat.testBit_succ]
      have : ((x.testBit q).toNat + 2 * bitIdx rest x) / 2 = bitIdx rest x := by
        have : (x.testBit q).toNat ≤ 1 := Bool.toNat_le _
        omega
      simp only [bitIdx, this, ih, List.length_cons, List.getD_cons_succ]
      congr 1
      simp

theorem bitIdx_range {n x : Nat} (hx : x < 2 ^ n) : bitIdx (List.range n) x = x := by
  have h1 := bitIdx_lt (List.range n) x
  rw [List.length_range] at h1
  rw [eq_iff_testBit_lt h1 hx]
  intro p hp
  rw [testBit_bitIdx]
  simp [hp, List.getD_eq_getElem?_getD]

theorem gateIndex_eq_bitIdx (qs : List Nat) (x : Nat) : gateIndex qs x = bitIdx qs.reverse x := by
  unfold gateIndex
  induction qs using List.reverseRecOn with
  | nil => simp [bitIdx]
  | append_singleton qs q ih =>
    rw [List.foldl_append, List.reverse_append]
    simp only [bit] at ih
    simp only [List.foldl_cons, List.foldl_nil, List.reverse_cons, List.reverse_nil, List.nil_append,
      List.singleton_append, bitIdx, bit]
    rw [ih]; omega

theorem gateIndex_lt (qs : List Nat) (x : Nat) : gateIndex qs x < 2 ^ qs.length := by
  rw [gateIndex_eq_bitIdx]
  simpa using bitIdx_lt qs.reverse x

theorem testBit_gateIndex (qs : List Nat) (x t : Nat) (ht : t < qs.length) :
    (gateIndex qs x).testBit t = x.testBit (qs.getD (qs.length - 1 - t) 0) := by
  rw [gateIndex_eq_bitIdx, testBit_bitIdx, List.getD_reverse _ ht]
  simp [ht]

/-! ## B. Permutation matrices of bit permutations, the adjacent lift, one swap -/
section
variable {K : Type} [CommRing K] [GateFns K]

/-- the permutation matrix of `x ↦ bitIdx arr x`: column `x` has its 1 in row `bitIdx arr x` -/
def permMat (n : Nat) (arr : List Nat) : Mat K :=
  build (2 ^ n) (2 ^ n) fun a x => if a = bitIdx arr x then 1 else 0

theorem eye_eq_permMat (n : Nat) : (eye (2 ^ n) : Mat K) = permMat n (List.range n) := by
  unfold eye permMat
  apply build_congr
  intro i j hi hj
  rw [bitIdx_range hj]

theorem get_permMat {n : Nat} {arr : List Nat} {a x : Nat} (ha : a < 2 ^ n) (hx : x < 2 ^ n) :
    (permMat n arr : Mat K).get a x = if a = bitIdx arr x then 1 else 0 := get_build ha hx

/-- multiplying by a bit-permutation matrix on the right re-indexes the columns -/
theorem get_mul_permMat {A : Mat K} {n : Nat} {arr : List Nat} (hlen : arr.length = n) (hA : A.c = 2 ^ n)
    {i x : Nat} (hi : i < A.r) (hx : x < 2 ^ n) :
    (mul A (permMat n arr)).get i x = A.get i (bitIdx arr x) := by
  rw [get_mul hi (by simpa [permMat] using hx), hA]
  have hy : bitIdx arr x < 2 ^ n := by have := bitIdx_lt arr x; rwa [hlen] at this
  rw [Finset.sum_eq_single (bitIdx arr x)]
  · rw [get_permMat hy hx]; simp
  · intro k hk hne
    rw [get_permMat (by simpa using hk) hx]; simp [hne]
  · intro h; simp at h; omega

theorem pow_split {n p k : Nat} (h : p + k ≤ n) : 2 ^ (n - p - k) * 2 ^ (p + k) = 2 ^ n := by
  rw [← pow_add]; congr 1; omega

/-- entries of `I ⊗ M ⊗ I` (what `qubit_adjacent_lifted_gate` builds) by bit fields -/
theorem get_adjLift {M : Mat K} {k p n : Nat} (hMr : M.r = 2 ^ k) (hMc : M.c = 2 ^ k) (hpn : p + k ≤ n)
    {a b : Nat} (ha : a < 2 ^ n) (hb : b < 2 ^ n) :
    (kron (eye (2 ^ (n - p - k))) (kron M (eye (2 ^ p)))).get a b =
      if a / 2 ^ (p + k) = b / 2 ^ (p + k) ∧ a % 2 ^ p = b % 2 ^ p then M.get (field p k a) (field p k b) else 0 := by
  have hkp : 2 ^ k * 2 ^ p = 2 ^ (p + k) := by rw [← pow_add, Nat.add_comm]
  have hdim := pow_split hpn
  have hpos : 0 < 2 ^ (p + k) := by positivity
  have hpos' : 0 < 2 ^ p := by positivity
  have hdvd : 2 ^ p ∣ 2 ^ (p + k) := pow_dvd_pow 2 (by omega)
  rw [get_kron (by simp only [eye_r, kron_r, hMr, hkp, hdim]; exact ha)
    (by simp only [eye_c, kron_c, hMc, hkp, hdim]; exact hb)]
  simp only [kron_r, kron_c, eye_r, eye_c, hMr, hMc, hkp]
  have ha1 : a / 2 ^ (p + k) < 2 ^ (n - p - k) := by rw [Nat.div_lt_iff_lt_mul hpos, hdim]; exact ha
  have hb1 : b / 2 ^ (p + k) < 2 ^ (n - p - k) := by rw [Nat.div_lt_iff_lt_mul hpos, hdim]; exact hb
  rw [get_eye ha1 hb1]
  rw [get_kron (by simp only [eye_r, hMr, hkp]; exact Nat.mod_lt _ hpos)
    (by simp only [eye_c, hMc, hkp]; exact Nat.mod_lt _ hpos)]
  simp only [eye_r, eye_c]
  rw [get_eye (Nat.mod_lt _ hpos') (Nat.mod_lt _ hpos'), Nat.mod_mod_of_dvd _ hdvd, Nat.mod_mod_of_dvd _ hdvd]
  unfold field
  by_cases h1 : a / 2 ^ (p + k) = b / 2 ^ (p + k) <;> by_cases h2 : a % 2 ^ p = b % 2 ^ p <;> simp [h1, h2]

theorem adjLift_dims {M : Mat K} {k p n : Nat} (hMr : M.r = 2 ^ k) (hMc : M.c = 2 ^ k) (hpn : p + k ≤ n) :
    (kron (eye (2 ^ (n - p - k))) (kron M (eye (2 ^ p)))).r = 2 ^ n ∧
    (kron (eye (2 ^ (n - p - k))) (kron M (eye (2 ^ p)))).c = 2 ^ n := by
  have hkp : 2 ^ k * 2 ^ p = 2 ^ (p + k) := by rw [← pow_add, Nat.add_comm]
  simp only [kron_r, kron_c, eye_r, eye_c, hMr, hMc, hkp, pow_split hpn, and_self]

/-- `qubit_adjacent_lifted_gate` succeeds iff the gate fits, and then is `I ⊗ M ⊗ I` -/
theorem qubitAdjacentLift_eq {M : Mat K} {k : Nat} (hMr : M.r = 2 ^ k) (p n : Nat) :
    qubitAdjacentLift p M n =
      if n < p + k then .crash "attempt to subtract with overflow"
      else .ok (kron (eye (2 ^ (n - p - k))) (kron M (eye (2 ^ p)))) := by
  unfold qubitAdjacentLift
  simp only [hMr, Nat.log2_two_pow]

end

end QV.C14
