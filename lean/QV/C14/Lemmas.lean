import QV.C14.Model
import QV.C14.Spec
import Mathlib.Algebra.BigOperators.Group.Finset.Basic
import Mathlib.Algebra.BigOperators.Ring.Finset
import Mathlib.Algebra.BigOperators.Group.Finset.Sigma
import Mathlib.Algebra.Star.Basic
import Mathlib.Tactic.Ring
import Mathlib.Tactic.IntervalCases
/-
C14 lemmas (Mathlib allowed here).

Part 1: the matrix layer — every model operation is a `build`, characterised by dimensions and entries;
         extensionality; sums as `Finset.sum`; products with identity / permutation matrices; associativity.
Part 2: the scalar laws `GateLaws K` and the table theorem (every table entry = the specification matrix).
(The lifting theorem is in `QV/C14/Lift.lean`.)
-/
namespace QV.C14
open Mat GateFns

set_option linter.unusedSectionVars false
set_option linter.unusedVariables false

/-! ## Part 1: matrices -/
section MatBasics
variable {K : Type} [Zero K]

/-- Well-formed: the stored rows have the declared shape.  Every model operation returns a `build`, which is. -/
def Mat.WF (A : Mat K) : Prop := A.d.size = A.r ∧ ∀ i (h : i < A.d.size), (A.d[i]).size = A.c

@[simp] theorem Mat.build_r (r c : Nat) (f : Nat → Nat → K) : (build r c f).r = r := rfl
@[simp] theorem Mat.build_c (r c : Nat) (f : Nat → Nat → K) : (build r c f).c = c := rfl

theorem Mat.get_build {r c : Nat} {f : Nat → Nat → K} {i j : Nat} (hi : i < r) (hj : j < c) :
    (build r c f).get i j = f i j := by
  simp [build, get, Array.getD, hi, hj]

theorem Mat.get_build' (r c : Nat) (f : Nat → Nat → K) (i j : Nat) :
    (build r c f).get i j = if i < r ∧ j < c then f i j else 0 := by
  by_cases hi : i < r <;> by_cases hj : j < c <;> simp [build, get, Array.getD, hi, hj]

theorem Mat.wf_build (r c : Nat) (f : Nat → Nat → K) : (build r c f).WF := by
  simp [build, WF]

theorem Mat.get_of_not_lt {A : Mat K} (hA : A.WF) {i j : Nat} (h : ¬ (i < A.r ∧ j < A.c)) : A.get i j = 0 := by
  obtain ⟨h1, h2⟩ := hA
  unfold get
  by_cases hi : i < A.d.size
  · have hj : ¬ j < (A.d[i]).size := by rw [h2 i hi]; rw [h1] at hi; tauto
    simp [Array.getD, hi, hj]
  · simp [Array.getD, hi]

theorem Mat.ext' {A B : Mat K} (hA : A.WF) (hB : B.WF) (hr : A.r = B.r) (hc : A.c = B.c)
    (h : ∀ i j, i < A.r → j < A.c → A.get i j = B.get i j) : A = B := by
  obtain ⟨ar, ac, ad⟩ := A
  obtain ⟨br, bc, bd⟩ := B
  simp only [WF] at hA hB
  simp only at hr hc
  subst hr; subst hc
  congr 1
  apply Array.ext
  · rw [hA.1, hB.1]
  · intro i h1 h2
    apply Array.ext
    · rw [hA.2 i h1, hB.2 i h2]
    · intro j h3 h4
      have e1 := hA.1
      have := h i j (by simp only at e1 ⊢; omega) (by rw [hA.2 i h1] at h3; exact h3)
      simpa [get, Array.getD, h1, h2, h3, h4] using this

theorem Mat.build_congr {r c : Nat} {f g : Nat → Nat → K}
    (h : ∀ i j, i < r → j < c → f i j = g i j) : build r c f = build r c g := by
  apply Mat.ext' (wf_build r c f) (wf_build r c g) rfl rfl
  intro i j hi hj
  simp only [build_r, build_c] at hi hj
  rw [get_build hi hj, get_build hi hj, h i j hi hj]

/-- a well-formed matrix is the tabulation of its entries -/
theorem Mat.eq_build {A : Mat K} (hA : A.WF) : A = build A.r A.c A.get := by
  apply Mat.ext' hA (wf_build _ _ _) rfl rfl
  intro i j hi hj
  rw [get_build hi hj]

end MatBasics

section MatOps
variable {K : Type} [CommRing K] [GateFns K]

@[simp] theorem Mat.wf_ofRows (r c : Nat) (rows : List (List K)) : (ofRows r c rows).WF := wf_build _ _ _
@[simp] theorem Mat.wf_eye (n : Nat) : (eye n : Mat K).WF := wf_build _ _ _
@[simp] theorem Mat.wf_kron (A B : Mat K) : (kron A B).WF := wf_build _ _ _
@[simp] theorem Mat.wf_mul (A B : Mat K) : (mul A B).WF := wf_build _ _ _
@[simp] theorem Mat.wf_adjoint (A : Mat K) : (adjoint A).WF := wf_build _ _ _
@[simp] theorem Mat.wf_add (A B : Mat K) : (add A B).WF := wf_build _ _ _
@[simp] theorem Mat.wf_scale (A : Mat K) (s : K) : (scale A s).WF := wf_build _ _ _
@[simp] theorem Mat.wf_setEntry (A : Mat K) (i j : Nat) (v : K) : (setEntry A i j v).WF := wf_build _ _ _

@[simp] theorem Mat.eye_r (n : Nat) : (eye n : Mat K).r = n := rfl
@[simp] theorem Mat.eye_c (n : Nat) : (eye n : Mat K).c = n := rfl
@[simp] theorem Mat.kron_r (A B : Mat K) : (kron A B).r = A.r * B.r := rfl
@[simp] theorem Mat.kron_c (A B : Mat K) : (kron A B).c = A.c * B.c := rfl
@[simp] theorem Mat.mul_r (A B : Mat K) : (mul A B).r = A.r := rfl
@[simp] theorem Mat.mul_c (A B : Mat K) : (mul A B).c = B.c := rfl
@[simp] theorem Mat.adjoint_r (A : Mat K) : (adjoint A).r = A.c := rfl
@[simp] theorem Mat.adjoint_c (A : Mat K) : (adjoint A).c = A.r := rfl
@[simp] theorem Mat.add_r (A B : Mat K) : (add A B).r = A.r := rfl
@[simp] theorem Mat.add_c (A B : Mat K) : (add A B).c = A.c := rfl

theorem Mat.sumFrom_eq (f : Nat → K) (m k : Nat) (acc : K) :
    sumFrom f m k acc = acc + ∑ j ∈ Finset.range m, f (k + j) := by
  induction m generalizing k acc with
  | zero => simp [sumFrom]
  | succ m ih =>
    rw [sumFrom, ih, Finset.sum_range_succ']
    simp only [Nat.add_zero]
    have : ∀ j, f (k + 1 + j) = f (k + (j + 1)) := fun j => by congr 1; omega
    simp only [this]; ring

theorem Mat.sumTo_eq_sum (n : Nat) (f : Nat → K) : sumTo n f = ∑ k ∈ Finset.range n, f k := by
  unfold sumTo; rw [sumFrom_eq]; simp

theorem Mat.get_eye {n i j : Nat} (hi : i < n) (hj : j < n) : (eye n : Mat K).get i j = if i = j then 1 else 0 :=
  get_build hi hj

theorem Mat.get_mul {A B : Mat K} {i j : Nat} (hi : i < A.r) (hj : j < B.c) :
    (mul A B).get i j = ∑ k ∈ Finset.range A.c, A.get i k * B.get k j := by
  unfold mul; rw [get_build hi hj, sumTo_eq_sum]

theorem Mat.get_adjoint {A : Mat K} {i j : Nat} (hi : i < A.c) (hj : j < A.r) :
    (adjoint A).get i j = conj (A.get j i) := get_build hi hj

theorem Mat.get_kron {A B : Mat K} {i j : Nat} (hi : i < A.r * B.r) (hj : j < A.c * B.c) :
    (kron A B).get i j = A.get (i / B.r) (j / B.c) * B.get (i % B.r) (j % B.c) := get_build hi hj

theorem Mat.get_add {A B : Mat K} {i j : Nat} (hi : i < A.r) (hj : j < A.c) :
    (add A B).get i j = A.get i j + B.get i j := get_build hi hj

/-- `I · A = A` -/
theorem Mat.eye_mul {A : Mat K} (hA : A.WF) : mul (eye A.r) A = A := by
  refine Mat.ext' (A := mul (eye A.r) A) (B := A) (wf_mul _ _) hA rfl rfl ?_
  intro i j hi hj
  simp only [mul_r, eye_r, mul_c] at hi hj
  rw [get_mul (by simpa using hi) hj]
  simp only [eye_c]
  rw [Finset.sum_eq_single i]
  · rw [get_eye hi hi]; simp
  · intro k hk hne
    rw [get_eye hi (by simpa using hk)]; simp [Ne.symm hne]
  · intro h; simp at h; omega

/-- matrix product is associative (on well-formed factors of matching inner dimensions) -/
theorem Mat.mul_assoc' {A B C : Mat K} (hAB : A.c = B.r) (hBC : B.c = C.r) :
    mul (mul A B) C = mul A (mul B C) := by
  refine Mat.ext' (A := mul (mul A B) C) (B := mul A (mul B C)) (wf_mul _ _) (wf_mul _ _) rfl rfl ?_
  intro i j hi hj
  simp only [mul_r, mul_c] at hi hj
  rw [get_mul (by simpa using hi) hj, get_mul hi (by simpa using hj)]
  simp only [mul_c, mul_r]
  have e1 : ∀ k ∈ Finset.range B.c, (mul A B).get i k * C.get k j
      = ∑ l ∈ Finset.range A.c, A.get i l * B.get l k * C.get k j := by
    intro k hk
    rw [get_mul hi (by simpa using hk), Finset.sum_mul]
  have e2 : ∀ l ∈ Finset.range A.c, A.get i l * (mul B C).get l j
      = ∑ k ∈ Finset.range B.c, A.get i l * B.get l k * C.get k j := by
    intro l hl
    rw [get_mul (by rw [← hAB]; simpa using hl) hj, Finset.mul_sum]
    apply Finset.sum_congr rfl; intro k _; ring
  rw [Finset.sum_congr rfl e1, Finset.sum_congr rfl e2, Finset.sum_comm]

end MatOps

/-! ## Part 2: scalar laws and the tables -/

/-- The laws the theorems use: `K` is a commutative ring with a star (conjugation), `conj` is that star, and
`cos`, `sin`, `cis`, the constants satisfy the identities below — all true of `ℂ` with the complex
`cos`/`sin`/`exp` (see `QV/C14/Complex.lean`) — and all *false* in general of rounded floating point, which
is the declared partial part of C14/C15. -/
class GateLaws (K : Type) [CommRing K] [StarRing K] [GateFns K] : Prop where
  conj_eq : ∀ x : K, conj x = star x
  i_sq : (i : K) * i = -1
  star_i : star (i : K) = -i
  cis_eq : ∀ x : K, cis x = cos x + i * sin x
  cos_neg : ∀ x : K, cos (-x) = cos x
  sin_neg : ∀ x : K, sin (-x) = -sin x
  cos_sq_add_sin_sq : ∀ x : K, cos x * cos x + sin x * sin x = 1
  star_cos : ∀ x : K, star (cos x) = cos (star x)
  star_sin : ∀ x : K, star (sin x) = sin (star x)
  star_half : ∀ x : K, star (half x) = half (star x)
  invSqrt2_sq : (invSqrt2 : K) * invSqrt2 * 2 = 1
  star_invSqrt2 : star (invSqrt2 : K) = invSqrt2
  cisPi4_eq : (cisPi4 : K) = cis pi4
  star_pi4 : star (pi4 : K) = pi4

section Tables
variable {K : Type} [CommRing K] [StarRing K] [GateFns K] [GateLaws K]

/-- Close `A = B` for two explicitly tabulated matrices of size ≤ 8 by comparing all entries. -/
macro "mat_entries" " [" ls:Lean.Parser.Tactic.simpLemma,* "]" : tactic => `(tactic| (
  refine Mat.ext' ?_ ?_ rfl rfl ?_
  · exact Mat.wf_build _ _ _
  · exact Mat.wf_build _ _ _
  intro i j hi hj
  simp only [Mat.build_r, Mat.build_c, Mat.ofRows, Mat.eye, Mat.setEntry, Mat.scale, permGate, diagGate, phasedSwap,
    Nat.reducePow] at hi hj
  interval_cases i <;> interval_cases j <;>
    simp [Mat.ofRows, Mat.eye, Mat.setEntry, Mat.scale, permGate, diagGate, phasedSwap, Mat.get_build', bit,
      Nat.testBit_eq_decide_div_mod_eq, $ls,*]))

theorem specMatrix_two_params (name : String) (a b : K) (r : List K) : specMatrix name (a :: b :: r) = none := by
  unfold specMatrix
  split <;> simp_all

theorem constTable_eq_spec (name : String) : constTable (K := K) name = specMatrix name [] := by
  unfold constTable
  split
  all_goals simp only [specMatrix]
  all_goals try (first | rfl | (congr 1; done))
  · congr 1; mat_entries [mul_comm]
  · congr 1; mat_entries [GateLaws.cisPi4_eq]
  · split <;> simp_all

theorem paramTable_eq_spec (name : String) (θ : K) :
    (paramTable (K := K) name).map (· θ) = specMatrix name [θ] := by
  unfold paramTable
  split
  all_goals simp only [specMatrix, Option.map_some, Option.map_none]
  · congr 1
  · congr 1
  · congr 1; mat_entries [GateLaws.cis_eq, GateLaws.cos_neg, GateLaws.sin_neg, sub_eq_add_neg]
  · congr 1; mat_entries [GateLaws.cis_eq]
  · congr 1; mat_entries [GateLaws.cis_eq]
  · congr 1; mat_entries [GateLaws.cis_eq]
  · congr 1; mat_entries [GateLaws.cis_eq]
  · congr 1; mat_entries [GateLaws.cis_eq]
  · congr 1; mat_entries [GateLaws.cis_eq]
  · split <;> simp_all

theorem specMatrix_square {name : String} {θs : List K} {U : Mat K} (h : specMatrix name θs = some U) :
    U.WF ∧ U.r = U.c := by
  unfold specMatrix at h
  split at h
  all_goals first
    | (injection h with h; subst h; exact ⟨Mat.wf_build _ _ _, rfl⟩)
    | (simp at h)

/-- **Table theorem.**  For every name and every parameter list (any number, any values of `K`), the base
case of `gate_matrix` succeeds exactly when the Quil specification defines that gate with that many
parameters, and then returns the specification's matrix. -/
theorem baseMatrix_eq_spec (name : String) (θs : List K) :
    (baseMatrix name (θs.map Param.num)).toOption = specMatrix name θs := by
  match θs with
  | [] =>
    simp only [List.map_nil, baseMatrix]
    rw [← constTable_eq_spec]
    cases constTable (K := K) name <;> rfl
  | [θ] =>
    simp only [List.map_cons, List.map_nil, baseMatrix]
    rw [← paramTable_eq_spec]
    cases paramTable (K := K) name <;> rfl
  | a :: b :: r =>
    rw [specMatrix_two_params]
    simp [baseMatrix, Except.toOption]

end Tables
end QV.C14
