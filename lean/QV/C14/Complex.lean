import QV.C14.Lemmas
import Mathlib.Analysis.SpecialFunctions.Trigonometric.Basic
import Mathlib.Analysis.SpecialFunctions.Sqrt
/-
Non-vacuity of `GateLaws`: the complex numbers, with the complex `cos`, `sin`, `exp`, `conj = star`,
`half z = z / 2`, `invSqrt2 = 1/√2`, `cisPi4 = cos(π/4) + i sin(π/4)` (as `Complex64::cis` computes it),
`cis z = exp(z·I)`, satisfy every law.  So every theorem stated "for all `K` with `GateLaws K`" is in
particular a theorem about exact complex arithmetic.
-/
namespace QV.C14
open Complex

noncomputable instance instGateFnsComplex : GateFns ℂ where
  conj := star
  cos := Complex.cos
  sin := Complex.sin
  half z := z / 2
  i := Complex.I
  invSqrt2 := ((1 / Real.sqrt 2 : ℝ) : ℂ)
  cisPi4 := ⟨Real.cos (Real.pi / 4), Real.sin (Real.pi / 4)⟩
  cis z := Complex.exp (z * Complex.I)
  pi4 := ((Real.pi / 4 : ℝ) : ℂ)

instance instGateLawsComplex : GateLaws ℂ where
  conj_eq _ := rfl
  i_sq := Complex.I_mul_I
  star_i := Complex.conj_I
  cis_eq x := by
    show Complex.exp (x * I) = Complex.cos x + I * Complex.sin x
    rw [Complex.exp_mul_I]; ring
  cos_neg := Complex.cos_neg
  sin_neg := Complex.sin_neg
  cos_sq_add_sin_sq x := by
    have := Complex.cos_sq_add_sin_sq x
    show Complex.cos x * Complex.cos x + Complex.sin x * Complex.sin x = 1
    rw [← this]; ring
  star_cos x := (Complex.cos_conj x).symm
  star_sin x := (Complex.sin_conj x).symm
  star_half x := by
    show (starRingEnd ℂ) (x / 2) = (starRingEnd ℂ) x / 2
    rw [map_div₀, map_ofNat]
  invSqrt2_sq := by
    show ((1 / Real.sqrt 2 : ℝ) : ℂ) * ((1 / Real.sqrt 2 : ℝ) : ℂ) * 2 = 1
    have h : (1 / Real.sqrt 2) * (1 / Real.sqrt 2) * 2 = (1 : ℝ) := by
      have h2 : Real.sqrt 2 * Real.sqrt 2 = 2 := Real.mul_self_sqrt (by norm_num)
      have h0 : Real.sqrt 2 ≠ 0 := by
        intro h; rw [h] at h2; norm_num at h2
      field_simp
      nlinarith [h2]
    exact_mod_cast h
  star_invSqrt2 := Complex.conj_ofReal _
  cisPi4_eq := by
    show (⟨Real.cos (Real.pi / 4), Real.sin (Real.pi / 4)⟩ : ℂ) = Complex.exp (((Real.pi / 4 : ℝ) : ℂ) * I)
    rw [Complex.exp_mul_I, ← Complex.ofReal_cos, ← Complex.ofReal_sin]
    apply Complex.ext <;> simp
  star_pi4 := Complex.conj_ofReal _

end QV.C14
