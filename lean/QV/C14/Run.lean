import QV.Wire
import QV.Shared.GateWire
import QV.Shared.GateProgWire
import QV.C14.Model
import QV.C14.Spec
/-! Driver side of the C14 correspondence check (see docs/C14.md for the streams). -/
namespace QV.C14
open QV QV.GateWire

/-- tolerance for model-vs-implementation and for specification-vs-implementation (absolute, per component) -/
def tol : Float := 1e-12

private def placementTags (qs : List Nat) (n : Nat) : List String :=
  let k := qs.length
  let sorted := sortNat qs
  let lo := sorted.headD 0
  let hi := sorted.getLastD 0
  [s!"k{k}", s!"n{n}",
   (if hi + 1 - lo == k then "adjacent" else "spread"),
   (if k ≤ 1 then "single" else if qs == sorted.reverse then "descending" else if qs == sorted then "ascending" else "mixed")]

def handle0 (inp out : Sexp) : CaseResult :=
  match inp with
  | .list [.atom "gate", .str name, .list (.atom "params" :: ps), .list (.atom "qubits" :: qs), .atom n] =>
    match decodeAll decodeParam ps, decodeAll decodeQubit qs, n.toNat?, decodeRes out with
    | some ps, some qs, some n, some impl =>
      let model := resOfModel (toUnitary0 name ps qs n)
      let kinds := gateErrKinds ⟨name, ps, qs, []⟩
      let agree := resAgreeKinds tol kinds model impl
      -- specification, evaluated on the implementation's output: for a standard gate with real constant
      -- parameters on a valid placement the result is the lifted specification matrix
      let spec : Option M :=
        match fixedOnly qs, realNums ps with
        | some q, some θs =>
          (specMatrix name θs).bind fun U =>
            if validPlacement q n && 2 ^ q.length == U.r then some (liftSpec U q n) else none
        | _, _ => none
      let specOk := match spec, impl with
        | some s, .ok m => closeMat tol s m
        | some _, _ => false
        | none, _ => rejectedOk kinds model impl
      let tags := (match spec with | some _ => ["std", s!"g-{name}"] ++ placementTags ((fixedOnly qs).getD []) n
                                   | none => ["nonstd"]) ++
                  [match impl with | .ok _ => "ok" | .err k => s!"err-{k}" | .crash => "crash" | .timeout => "timeout"]
      { agree := agree, specOk := specOk, nontrivial := spec.isSome, tags := tags,
        detail := s!"model-vs-impl: {resDiff model impl}; spec-vs-impl: " ++
          (match spec, impl with | some s, .ok m => showDiff s m | some _, r => s!"spec defined, impl {resShow r}" | none, _ => "n/a") }
    | _, _, _, _ => .bad s!"undecodable gate case"
  | .list [.atom "lift", u, .list (.atom "qubits" :: qs), .atom n] =>
    match decodeMat u, decodeAll Sexp.asNat? qs, n.toNat?, decodeRes out with
    | some U, some qs, some n, some impl =>
      let model : Res := match liftedGateMatrix U qs n defaultFuel with
        | .ok m => .ok m | .crash _ => .crash | .outOfFuel => .timeout
      let agree := resAgree tol model impl
      let valid := validPlacement qs n && 2 ^ qs.length == U.r
      let specOk := if valid then (match impl with | .ok m => closeMat tol (liftSpec U qs n) m | _ => false) else true
      { agree := agree, specOk := specOk, nontrivial := valid,
        tags := ["lift"] ++ (if valid then placementTags qs n else ["invalid-placement"]) ++
                [match impl with | .ok _ => "ok" | .err k => s!"err-{k}" | .crash => "crash" | .timeout => "timeout"],
        detail := s!"model-vs-impl: {resDiff model impl}" }
    | _, _, _, _ => .bad s!"undecodable lift case"
  | .list [.atom "progu", .atom n, .list (.atom "instrs" :: is)] =>
    -- `Program::to_unitary` (C14's second observable): model = C15's `progUnitary`, specification = the ordered
    -- product of `liftSpec (specMatrix …)` (`progSpec`)
    match decodeAll decodeInstr is, n.toNat?, decodeRes out with
    | some is, some n, some impl =>
      let model := progRes (QV.C15.progUnitary is n)
      let kinds := progErrKinds is
      let agree := resAgreeKinds tol kinds model impl
      let spec := progSpec is n
      let specOk := match spec, impl with
        | some s, .ok m => closeMat 1e-10 s m
        | some _, _ => false
        | none, _ => rejectedOk kinds model impl
      let names := is.filterMap fun | .gate g => some s!"g-{g.name}" | _ => none
      { agree := agree, specOk := specOk, nontrivial := spec.isSome,
        tags := ["progu", s!"len{is.length}", s!"n{n}", if spec.isSome then "std" else "nonstd"] ++ names ++
                [match impl with | .ok _ => "ok" | .err k => s!"err-{k}" | .crash => "crash" | .timeout => "timeout"],
        detail := s!"model-vs-impl: {resDiff model impl}; spec-vs-impl: " ++
          (match spec, impl with | some s, .ok m => showDiff s m | some _, r => s!"spec defined, impl {resShow r}" | none, _ => "n/a") }
    | _, _, _ => .bad s!"undecodable program case"
  | _ => .bad s!"undecodable input"

/-- `handle0` plus the known-finding classifier tag -/
def handle (inp out : Sexp) : CaseResult :=
  let r := handle0 inp out
  { r with tags := r.tags ++ kfTags "C14" inp }

end QV.C14

def main : IO UInt32 := QV.runMain QV.C14.handle
