import QV.C14.Lift
/-
Termination of the sweep loop of `permutation_arbitrary` on every injective placement of up to 5 qubits into
`n ≤ 5` qubits (the quantifier of C14/C15), with the model's default fuel.

The loop's control flow depends only on `qubit_arr`, never on the matrices, so a matrix-free *shadow* of the
loop is defined, proved to predict the real model's outcome (for every scalar type and every matrix), and
evaluated exhaustively by the kernel (`decide +kernel`) — a finite proof for a finite quantifier.
-/
namespace QV.C14
open Mat GateFns

set_option linter.unusedSectionVars false
set_option linter.unusedVariables false

/-! ## Shadow (no matrices) -/

def swapStepsS (n : Nat) : List Nat → List Nat → Outcome (List Nat)
  | [], a => .ok a
  | p :: ps, a =>
    if n < p + 2 then .crash "attempt to subtract with overflow"
    else (swapAt a p (p + 1)).bind (swapStepsS n ps)

def sweepS (qs : List Nat) (n start : Nat) : List Nat → List Nat → Outcome (Bool × List Nat)
  | [], arr => .ok (false, arr)
  | i :: is, arr =>
    match position (qs.getD i 0) arr with
    | none => .crash "These arrays cover the same range."
    | some j =>
      (swapStepsS n (swapPositions j (start + qs.length - 1 - i)) arr).bind fun arr' =>
      (madeIt arr' (start + qs.length - 1) qs).bind fun made =>
      if made then .ok (true, arr') else sweepS qs n start is arr'

def sweepsS (qs : List Nat) (n start : Nat) : Nat → Bool → List Nat → Outcome Unit
  | 0, _, _ => .outOfFuel
  | fuel + 1, right, arr =>
    let order := if right then List.range qs.length else (List.range qs.length).reverse
    (sweepS qs n start order arr).bind fun (made, arr') =>
    if made then .ok () else sweepsS qs n start fuel (!right) arr'

/-- shadow of `permutation_arbitrary`: the `start` it returns -/
def permArbS (qs : List Nat) (n fuel : Nat) : Outcome Nat :=
  let sorted := sortNat qs
  let medI := qs.length / 2
  if medI < sorted.length then
    let med := sorted.getD medI 0
    if med < medI then .crash "attempt to subtract with overflow"
    else
      let start := med - medI
      if qs.length > 1 then
        (sweepsS qs n start fuel true (List.range n)).bind fun _ => .ok start
      else .ok start
  else .crash "index out of bounds"

/-- shadow of `lifted_gate_matrix` for a `2^k × 2^k` matrix -/
def liftS (k : Nat) (qs : List Nat) (n fuel : Nat) : Outcome Unit :=
  (permArbS qs n fuel).bind fun start =>
  if n < start + k then .crash "attempt to subtract with overflow" else .ok ()

/-! ## The shadow predicts the model -/
section
variable {K : Type} [CommRing K] [GateFns K]

theorem swapSteps_of_shadow {n : Nat} : ∀ (ps : List Nat) (a a' : List Nat) (pm : Mat K),
    swapStepsS n ps a = .ok a' → ∃ pm', swapSteps n ps (pm, a) = .ok (pm', a') := by
  intro ps
  induction ps with
  | nil =>
    intro a a' pm h
    simp only [swapStepsS] at h
    injection h with h; subst h
    exact ⟨pm, rfl⟩
  | cons p ps ih =>
    intro a a' pm h
    simp only [swapStepsS] at h
    by_cases h1 : n < p + 2
    · rw [if_pos h1] at h; simp at h
    · rw [if_neg h1] at h
      cases hs : swapAt a p (p + 1) with
      | ok a1 =>
        rw [hs] at h
        simp only [Outcome.bind] at h
        obtain ⟨pm', hpm⟩ := ih a1 a' (mul (liftedSwap n p) pm) h
        refine ⟨pm', ?_⟩
        simp only [swapSteps, swapStep]
        rw [qubitAdjacentLift_eq (K := K) (M := swapMat) (k := 2) rfl, if_neg h1, hs]
        simp only [Outcome.bind]
        exact hpm
      | crash m => rw [hs] at h; simp [Outcome.bind] at h
      | outOfFuel => rw [hs] at h; simp [Outcome.bind] at h

theorem sweep_of_shadow {qs : List Nat} {n start : Nat} : ∀ (is : List Nat) (arr : List Nat) (made : Bool)
    (arr' : List Nat) (perm : Mat K),
    sweepS qs n start is arr = .ok (made, arr') → ∃ perm', sweep qs n start is perm arr = .ok (made, perm', arr') := by
  intro is
  induction is with
  | nil =>
    intro arr made arr' perm h
    simp only [sweepS] at h
    injection h with h
    injection h with h1 h2
    subst h1; subst h2
    exact ⟨perm, rfl⟩
  | cons i is ih =>
    intro arr made arr' perm h
    simp only [sweepS] at h
    simp only [sweep]
    cases hpos : position (qs.getD i 0) arr with
    | none => rw [hpos] at h; simp at h
    | some j =>
      rw [hpos] at h
      simp only at h ⊢
      cases hs : swapStepsS n (swapPositions j (start + qs.length - 1 - i)) arr with
      | ok a1 =>
        rw [hs] at h
        simp only [Outcome.bind] at h
        obtain ⟨pmod, hpm⟩ := swapSteps_of_shadow (K := K) _ _ _ (eye (2 ^ n)) hs
        have ht : twoSwapHelper (K := K) j (start + qs.length - 1 - i) n arr = .ok (pmod, a1) := hpm
        rw [ht]
        simp only [Outcome.bind]
        cases hm : madeIt a1 (start + qs.length - 1) qs with
        | ok m =>
          rw [hm] at h
          simp only [Outcome.bind] at h ⊢
          cases m with
          | true =>
            simp only [if_true] at h ⊢
            injection h with h
            injection h with h1 h2
            subst h1; subst h2
            exact ⟨_, rfl⟩
          | false =>
            simp only [Bool.false_eq_true, if_false] at h ⊢
            exact ih _ _ _ _ h
        | crash m => rw [hm] at h; simp [Outcome.bind] at h
        | outOfFuel => rw [hm] at h; simp [Outcome.bind] at h
      | crash m => rw [hs] at h; simp [Outcome.bind] at h
      | outOfFuel => rw [hs] at h; simp [Outcome.bind] at h

theorem sweeps_of_shadow {qs : List Nat} {n start : Nat} : ∀ (fuel : Nat) (right : Bool) (arr : List Nat)
    (perm : Mat K), sweepsS qs n start fuel right arr = .ok () → ∃ P, sweeps qs n start fuel right perm arr = .ok P := by
  intro fuel
  induction fuel with
  | zero => intro right arr perm h; simp [sweepsS] at h
  | succ fuel ih =>
    intro right arr perm h
    simp only [sweepsS] at h
    simp only [sweeps]
    cases hs : sweepS qs n start
        (if right = true then List.range qs.length else (List.range qs.length).reverse) arr with
    | ok r =>
      obtain ⟨made, arr'⟩ := r
      rw [hs] at h
      simp only [Outcome.bind] at h
      obtain ⟨perm', hp⟩ := sweep_of_shadow (K := K) _ _ _ _ perm hs
      rw [hp]
      simp only [Outcome.bind]
      cases made with
      | true => simp only [if_true]; exact ⟨_, rfl⟩
      | false =>
        simp only [Bool.false_eq_true, if_false] at h ⊢
        exact ih _ _ _ h
    | crash m => rw [hs] at h; simp [Outcome.bind] at h
    | outOfFuel => rw [hs] at h; simp [Outcome.bind] at h

theorem permutationArbitrary_of_shadow {qs : List Nat} {n fuel start : Nat}
    (h : permArbS qs n fuel = .ok start) : ∃ P : Mat K, permutationArbitrary qs n fuel = .ok (P, start) := by
  unfold permArbS at h
  unfold permutationArbitrary
  simp only at h ⊢
  by_cases h1 : qs.length / 2 < (sortNat qs).length
  · rw [if_pos h1] at h ⊢
    by_cases h2 : (sortNat qs).getD (qs.length / 2) 0 < qs.length / 2
    · rw [if_pos h2] at h; simp at h
    · rw [if_neg h2] at h ⊢
      by_cases h3 : qs.length > 1
      · rw [if_pos h3] at h ⊢
        cases hs : sweepsS qs n ((sortNat qs).getD (qs.length / 2) 0 - qs.length / 2) fuel true (List.range n) with
        | ok u =>
          rw [hs] at h
          simp only [Outcome.bind] at h
          injection h with h
          obtain ⟨P, hP⟩ := sweeps_of_shadow (K := K) _ _ _ (eye (2 ^ n)) hs
          rw [hP]
          simp only [Outcome.bind]
          exact ⟨P, by rw [h]⟩
        | crash m => rw [hs] at h; simp [Outcome.bind] at h
        | outOfFuel => rw [hs] at h; simp [Outcome.bind] at h
      · rw [if_neg h3] at h ⊢
        injection h with h
        exact ⟨_, by rw [h]⟩
  · rw [if_neg h1] at h; simp at h

/-- if the shadow says the lifting returns, the model's `lifted_gate_matrix` returns, on every matrix of that size -/
theorem liftedGateMatrix_of_shadow {M : Mat K} {k : Nat} (hMr : M.r = 2 ^ k) {qs : List Nat} {n fuel : Nat}
    (h : (liftS k qs n fuel).isOk = true) : ∃ R, liftedGateMatrix M qs n fuel = .ok R := by
  unfold liftS at h
  cases hp : permArbS qs n fuel with
  | ok start =>
    rw [hp] at h
    simp only [Outcome.bind] at h
    obtain ⟨P, hP⟩ := permutationArbitrary_of_shadow (K := K) hp
    unfold liftedGateMatrix
    rw [hP]
    simp only [Outcome.bind]
    rw [qubitAdjacentLift_eq hMr]
    by_cases h1 : n < start + k
    · rw [if_pos h1] at h; simp [Outcome.isOk] at h
    · rw [if_neg h1]; exact ⟨_, rfl⟩
  | crash m => rw [hp] at h; simp [Outcome.bind, Outcome.isOk] at h
  | outOfFuel => rw [hp] at h; simp [Outcome.bind, Outcome.isOk] at h

end

/-! ## Exhaustive evaluation of the shadow: every injective placement of 1…5 qubits into n ≤ 5 -/

theorem shadow_ok_1 : ∀ n, n < 6 → ∀ a, a < n → (liftS 1 [a] n defaultFuel).isOk = true := by
  decide +kernel

theorem shadow_ok_2 : ∀ n, n < 6 → ∀ a, a < n → ∀ b, b < n → a ≠ b →
    (liftS 2 [a, b] n defaultFuel).isOk = true := by
  decide +kernel

/-- Bool form of the exhaustive check for 3, 4, 5 listed qubits (nested bounded quantifiers this deep are
not synthesised as `Decidable` instances, so they are spelled as `List.all` over `List.range`). -/
def check3 : Bool :=
  (List.range 6).all fun n => (List.range n).all fun a => (List.range n).all fun b => (List.range n).all fun c =>
    !nodupB [a, b, c] || (liftS 3 [a, b, c] n defaultFuel).isOk
def check4 : Bool :=
  (List.range 6).all fun n => (List.range n).all fun a => (List.range n).all fun b => (List.range n).all fun c =>
    (List.range n).all fun d => !nodupB [a, b, c, d] || (liftS 4 [a, b, c, d] n defaultFuel).isOk
def check5 : Bool :=
  (List.range 6).all fun n => (List.range n).all fun a => (List.range n).all fun b => (List.range n).all fun c =>
    (List.range n).all fun d => (List.range n).all fun e =>
      !nodupB [a, b, c, d, e] || (liftS 5 [a, b, c, d, e] n defaultFuel).isOk

theorem check3_true : check3 = true := by decide +kernel
theorem check4_true : check4 = true := by decide +kernel
theorem check5_true : check5 = true := by decide +kernel

theorem shadow_ok_3 {n a b c : Nat} (hn : n < 6) (ha : a < n) (hb : b < n) (hc : c < n)
    (hd : nodupB [a, b, c] = true) : (liftS 3 [a, b, c] n defaultFuel).isOk = true := by
  have := check3_true
  simp only [check3, List.all_eq_true, List.mem_range, Bool.or_eq_true, Bool.not_eq_true'] at this
  rcases this n hn a ha b hb c hc with h | h
  · rw [hd] at h; cases h
  · exact h

theorem shadow_ok_4 {n a b c d : Nat} (hn : n < 6) (ha : a < n) (hb : b < n) (hc : c < n) (hd' : d < n)
    (hd : nodupB [a, b, c, d] = true) : (liftS 4 [a, b, c, d] n defaultFuel).isOk = true := by
  have := check4_true
  simp only [check4, List.all_eq_true, List.mem_range, Bool.or_eq_true, Bool.not_eq_true'] at this
  rcases this n hn a ha b hb c hc d hd' with h | h
  · rw [hd] at h; cases h
  · exact h

theorem shadow_ok_5 {n a b c d e : Nat} (hn : n < 6) (ha : a < n) (hb : b < n) (hc : c < n) (hd' : d < n)
    (he : e < n) (hd : nodupB [a, b, c, d, e] = true) : (liftS 5 [a, b, c, d, e] n defaultFuel).isOk = true := by
  have := check5_true
  simp only [check5, List.all_eq_true, List.mem_range, Bool.or_eq_true, Bool.not_eq_true'] at this
  rcases this n hn a ha b hb c hc d hd' e he with h | h
  · rw [hd] at h; cases h
  · exact h

/-- **Termination on the property's quantifier.**  For every `n ≤ 5` and every valid placement (distinct
qubits `< n`, between 1 and 5 of them) the shadow of `lifted_gate_matrix` returns. -/
theorem shadow_ok_of_valid {qs : List Nat} {n : Nat} (hn : n ≤ 5) (hv : validPlacement qs n = true) :
    (liftS qs.length qs n defaultFuel).isOk = true := by
  unfold validPlacement at hv
  simp only [Bool.and_eq_true, Bool.not_eq_true', List.all_eq_true, decide_eq_true_eq] at hv
  obtain ⟨⟨hne, hlt⟩, hnd'⟩ := hv
  match qs, hne, hlt, hnd' with
  | [a], _, hlt, _ => exact shadow_ok_1 n (by omega) a (hlt a (by simp))
  | [a, b], _, hlt, hd =>
    refine shadow_ok_2 n (by omega) a (hlt a (by simp)) b (hlt b (by simp)) ?_
    intro e; subst e; simp [nodupB] at hd
  | [a, b, c], _, hlt, hd =>
    exact shadow_ok_3 (by omega) (hlt a (by simp)) (hlt b (by simp)) (hlt c (by simp)) hd
  | [a, b, c, d], _, hlt, hd =>
    exact shadow_ok_4 (by omega) (hlt a (by simp)) (hlt b (by simp)) (hlt c (by simp)) (hlt d (by simp)) hd
  | [a, b, c, d, e], _, hlt, hd =>
    exact shadow_ok_5 (by omega) (hlt a (by simp)) (hlt b (by simp)) (hlt c (by simp)) (hlt d (by simp))
      (hlt e (by simp)) hd
  | a :: b :: c :: d :: e :: f :: rest, _, hlt, hd =>
    -- six distinct numbers below n ≤ 5 do not exist
    exfalso
    have h6 : (a :: b :: c :: d :: e :: f :: rest).toFinset.card ≤ n := by
      calc (a :: b :: c :: d :: e :: f :: rest).toFinset.card
          ≤ (Finset.range n).card := Finset.card_le_card (by
            intro x hx
            simp only [List.mem_toFinset] at hx
            exact Finset.mem_range.mpr (hlt x hx))
        _ = n := Finset.card_range n
    have hnodup : (a :: b :: c :: d :: e :: f :: rest).Nodup := by
      have : ∀ l : List Nat, nodupB l = true → l.Nodup := by
        intro l
        induction l with
        | nil => intro _; exact List.nodup_nil
        | cons q qs ih =>
          intro h
          simp only [nodupB, Bool.and_eq_true, Bool.not_eq_true', List.contains_eq_mem,
            decide_eq_false_iff_not] at h
          exact List.nodup_cons.mpr ⟨h.1, ih h.2⟩
      exact this _ hd
    rw [List.toFinset_card_of_nodup hnodup] at h6
    simp only [List.length_cons] at h6
    omega

end QV.C14
