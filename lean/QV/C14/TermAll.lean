import QV.C14.Term
import Mathlib.Data.List.Sort
/-
Termination of `permutation_arbitrary`'s alternating sweep for ALL n (no bound): on every valid placement the
first (left-to-right) sweep followed by one right-to-left sweep puts every listed qubit on its slot, so two
sweeps of fuel suffice.

Why: in the left-to-right sweep qubit `i` is moved to its slot `T i = start+len-1-i` *below* all earlier ones;
a later qubit arriving from above pushes the earlier ones up by one, never down and never out of order. So
after the sweep the listed qubits sit in the right relative order, each at or above its slot (`Above`,
`Ordered`).  The right-to-left sweep then pulls them down one after the other, lowest slot first; each move
only displaces unlisted qubits (`Exact` grows from the bottom).  All of this is proved on the matrix-free
shadow of the loop (`Term.lean`), which predicts the model's control flow for every scalar type and matrix.
-/
namespace QV.C14

set_option linter.unusedSectionVars false
set_option linter.unusedVariables false

/-! ## Moving one element: `two_swap_helper` on `qubit_arr` -/

/-- where the element that ends at position `p` came from, when the element at `j` is moved to `k` -/
def pre (j k p : Nat) : Nat :=
  if j < k then (if p = k then j else if j ≤ p ∧ p < k then p + 1 else p)
  else if k < j then (if p = k then j else if k < p ∧ p ≤ j then p - 1 else p)
  else p

theorem pre_lt {j k p n : Nat} (hj : j < n) (hk : k < n) (hp : p < n) : pre j k p < n := by
  unfold pre; split_ifs <;> omega

theorem pre_eq_j {j k p : Nat} (h : pre j k p = j) : p = k := by
  unfold pre at h; split_ifs at h <;> omega

theorem pre_k (j k : Nat) : pre j k k = j := by
  unfold pre; split_ifs <;> omega

theorem moveUp {n : Nat} : ∀ (d j : Nat) (arr : List Nat), Good n arr → j + d < n →
    ∃ arr', swapStepsS n (List.range' j d) arr = .ok arr' ∧ Good n arr' ∧
      ∀ p, arr'.getD p 0 = arr.getD (pre j (j + d) p) 0 := by
  intro d
  induction d with
  | zero =>
    intro j arr hg _
    refine ⟨arr, rfl, hg, fun p => ?_⟩
    congr 1; unfold pre; split_ifs <;> omega
  | succ d ih =>
    intro j arr hg hjd
    have hl : j + 1 < arr.length := by rw [hg.len]; omega
    obtain ⟨arr', h1, h2, h3⟩ := ih (j + 1) (swapList arr j) (good_swapList hg (by omega)) (by omega)
    refine ⟨arr', ?_, h2, fun p => ?_⟩
    · rw [List.range'_succ]
      simp only [swapStepsS]
      rw [if_neg (by omega), swapAt_eq, if_pos hl]
      exact h1
    · rw [h3, getD_swapList hl]
      congr 1
      unfold pre sw; split_ifs <;> omega

theorem moveDown {n : Nat} : ∀ (d k : Nat) (arr : List Nat), Good n arr → k + d < n →
    ∃ arr', swapStepsS n (List.range' k d).reverse arr = .ok arr' ∧ Good n arr' ∧
      ∀ p, arr'.getD p 0 = arr.getD (pre (k + d) k p) 0 := by
  intro d
  induction d with
  | zero =>
    intro k arr hg _
    refine ⟨arr, rfl, hg, fun p => ?_⟩
    congr 1; unfold pre; split_ifs <;> omega
  | succ d ih =>
    intro k arr hg hkd
    have hl : k + d + 1 < arr.length := by rw [hg.len]; omega
    obtain ⟨arr', h1, h2, h3⟩ := ih k (swapList arr (k + d)) (good_swapList hg (by omega)) (by omega)
    refine ⟨arr', ?_, h2, fun p => ?_⟩
    · rw [List.range'_concat, List.reverse_append]
      simp only [List.reverse_cons, List.reverse_nil, List.nil_append, List.singleton_append, Nat.one_mul,
        swapStepsS]
      rw [if_neg (by omega), swapAt_eq, if_pos hl]
      exact h1
    · rw [h3, getD_swapList hl]
      congr 1
      unfold pre sw; split_ifs <;> omega

/-- `two_swap_helper(j, k, …)` on `qubit_arr`: never panics for positions in range, keeps the arrangement
bijective, and the new content of position `p` is the old content of `pre j k p`. -/
theorem moveS {n j k : Nat} {arr : List Nat} (hg : Good n arr) (hj : j < n) (hk : k < n) :
    ∃ arr', swapStepsS n (swapPositions j k) arr = .ok arr' ∧ Good n arr' ∧
      ∀ p, arr'.getD p 0 = arr.getD (pre j k p) 0 := by
  unfold swapPositions
  by_cases h1 : j = k
  · rw [if_pos h1]
    refine ⟨arr, rfl, hg, fun p => ?_⟩
    congr 1; unfold pre; split_ifs <;> omega
  · rw [if_neg h1]
    by_cases h2 : j > k
    · rw [if_pos h2]
      obtain ⟨arr', e1, e2, e3⟩ := moveDown (j - k) k arr hg (by omega)
      have : k + (j - k) = j := by omega
      rw [this] at e3
      exact ⟨arr', e1, e2, e3⟩
    · rw [if_neg h2]
      obtain ⟨arr', e1, e2, e3⟩ := moveUp (k - j) j arr hg (by omega)
      have : j + (k - j) = k := by omega
      rw [this] at e3
      exact ⟨arr', e1, e2, e3⟩

theorem position_of_mem : ∀ (arr : List Nat) (q : Nat), q ∈ arr →
    ∃ j, position q arr = some j ∧ j < arr.length ∧ arr.getD j 0 = q := by
  intro arr
  induction arr with
  | nil => intro q h; simp at h
  | cons y ys ih =>
    intro q h
    by_cases hy : y = q
    · exact ⟨0, by simp [position, hy], by simp, by simp [hy]⟩
    · have : q ∈ ys := by
        rcases List.mem_cons.mp h with h | h
        · exact absurd h.symm hy
        · exact h
      obtain ⟨j, h1, h2, h3⟩ := ih q this
      exact ⟨j + 1, by simp [position, hy, h1], by simpa using h2, by simpa using h3⟩

theorem position_good {n : Nat} {arr : List Nat} (hg : Good n arr) {q : Nat} (hq : q < n) :
    ∃ j, position q arr = some j ∧ j < n ∧ arr.getD j 0 = q := by
  obtain ⟨p, hp, e⟩ := hg.surj hq
  have hmem : q ∈ arr := by
    rw [← e, List.getD_eq_getElem _ _ (by rw [hg.len]; exact hp)]
    exact List.getElem_mem _
  obtain ⟨j, h1, h2, h3⟩ := position_of_mem arr q hmem
  exact ⟨j, h1, by rw [← hg.len]; exact h2, h3⟩

/-! ## The exit test -/

theorem madeIt_no_crash {arr : List Nat} : ∀ (qs : List Nat) (f : Nat), f < arr.length →
    ∃ b, madeIt arr f qs = .ok b := by
  intro qs
  induction qs with
  | nil => intro f _; exact ⟨true, rfl⟩
  | cons q qs ih =>
    intro f hf
    simp only [madeIt]
    rw [if_pos hf]
    by_cases h : arr.getD f 0 = q
    · rw [if_pos h]; exact ih (f - 1) (by omega)
    · rw [if_neg h]; exact ⟨false, rfl⟩

theorem madeIt_complete {arr : List Nat} : ∀ (qs : List Nat) (f : Nat),
    (∀ i, i < qs.length → f - i < arr.length ∧ arr.getD (f - i) 0 = qs.getD i 0) →
    madeIt arr f qs = .ok true := by
  intro qs
  induction qs with
  | nil => intro f _; rfl
  | cons q qs ih =>
    intro f h
    simp only [madeIt]
    have h0 := h 0 (by simp)
    simp only [Nat.sub_zero, List.getD_cons_zero] at h0
    rw [if_pos h0.1, if_pos h0.2]
    apply ih
    intro i hi
    have := h (i + 1) (by simpa using hi)
    rw [List.getD_cons_succ] at this
    have e : f - (i + 1) = f - 1 - i := by omega
    rw [e] at this
    exact this

/-! ## `sorted_inds.sort()`, the median and `start` -/

theorem insertSorted_eq (x : Nat) (l : List Nat) : insertSorted x l = l.orderedInsert (· ≤ ·) x := by
  induction l with
  | nil => rfl
  | cons y ys ih => simp only [insertSorted, List.orderedInsert_cons, ih]

theorem sortNat_eq (l : List Nat) : sortNat l = l.insertionSort (· ≤ ·) := by
  induction l with
  | nil => rfl
  | cons x xs ih => simp only [sortNat, List.insertionSort_cons, ih, insertSorted_eq]

/-- for distinct qubits `< n`, the element of rank `r` of the sorted list lies in `[r, n - (len - r)]` -/
theorem sorted_bounds {qs : List Nat} {n : Nat} (hlt : ∀ q ∈ qs, q < n) (hnd : qs.Nodup) :
    (sortNat qs).length = qs.length ∧
    ∀ r, r < qs.length → r ≤ (sortNat qs).getD r 0 ∧ (sortNat qs).getD r 0 + (qs.length - r) ≤ n := by
  rw [sortNat_eq]
  set s := qs.insertionSort (· ≤ ·) with hs
  have hperm : s.Perm qs := List.perm_insertionSort _ _
  have hlen : s.length = qs.length := hperm.length_eq
  have hpw : s.Pairwise (· ≤ ·) := List.pairwise_insertionSort _ _
  have hnd' : s.Nodup := hperm.nodup_iff.mpr hnd
  have hlt' : ∀ q ∈ s, q < n := fun q hq => hlt q (hperm.mem_iff.mp hq)
  have hstrict : ∀ (a b : Nat) (ha : a < s.length) (hb : b < s.length), a < b → s[a] < s[b] := by
    intro a b ha hb hab
    have hle := List.pairwise_iff_getElem.mp hpw a b ha hb hab
    have hne : s[a] ≠ s[b] := by
      intro e
      have := (List.Nodup.getElem_inj_iff hnd').mp e
      omega
    omega
  have hstep : ∀ t r (h : r + t < s.length), s[r]'(by omega) + t ≤ s[r + t] := by
    intro t
    induction t with
    | zero => intro r h; simp
    | succ t ih =>
      intro r h
      have h1 := ih r (by omega)
      have h2 := hstrict (r + t) (r + (t + 1)) (by omega) h (by omega)
      omega
  refine ⟨hlen, fun r hr => ?_⟩
  have hr' : r < s.length := by omega
  rw [List.getD_eq_getElem _ _ hr']
  constructor
  · have := hstep r 0 (by omega)
    simp only [Nat.zero_add] at this
    omega
  · have h1 := hstep (s.length - 1 - r) r (by omega)
    have e : r + (s.length - 1 - r) = s.length - 1 := by omega
    have h2 : s[s.length - 1]'(by omega) < n := hlt' _ (List.getElem_mem _)
    simp only [e] at h1
    omega

/-! ## One step of a sweep -/

/-- the slot of the `m`-th listed qubit: `final_map[m]` -/
def slot (qs : List Nat) (start m : Nat) : Nat := start + qs.length - 1 - m

/-- the listed qubits `m < i` sit at or above their slots -/
def Above (qs : List Nat) (n start i : Nat) (arr : List Nat) : Prop :=
  ∀ m p, m < i → p < n → arr.getD p 0 = qs.getD m 0 → slot qs start m ≤ p

/-- the listed qubits `m < i` sit in the right relative order (earlier listed = higher position) -/
def Ordered (qs : List Nat) (n i : Nat) (arr : List Nat) : Prop :=
  ∀ m m' p p', m < m' → m' < i → p < n → p' < n →
    arr.getD p 0 = qs.getD m 0 → arr.getD p' 0 = qs.getD m' 0 → p' < p

/-- the listed qubits `m ≥ i` sit exactly on their slots -/
def Exact (qs : List Nat) (start i : Nat) (arr : List Nat) : Prop :=
  ∀ m, i ≤ m → m < qs.length → arr.getD (slot qs start m) 0 = qs.getD m 0

theorem getD_inj_of_nodup {qs : List Nat} (hnd : qs.Nodup) {a b : Nat} (ha : a < qs.length) (hb : b < qs.length)
    (h : qs.getD a 0 = qs.getD b 0) : a = b := by
  rw [List.getD_eq_getElem _ _ ha, List.getD_eq_getElem _ _ hb] at h
  exact (List.Nodup.getElem_inj_iff hnd).mp h

/-- one iteration of the `for i in array` body up to the exit test: the qubit is found, moved to its slot
without a panic, and the exit test does not panic -/
theorem step_ok {qs : List Nat} {n start i : Nat} {arr : List Nat} (hlt : ∀ q ∈ qs, q < n)
    (hfit : start + qs.length ≤ n) (hg : Good n arr) (hi : i < qs.length) :
    ∃ j arr' b, position (qs.getD i 0) arr = some j ∧ j < n ∧ arr.getD j 0 = qs.getD i 0 ∧
      swapStepsS n (swapPositions j (slot qs start i)) arr = .ok arr' ∧ Good n arr' ∧
      (∀ p, arr'.getD p 0 = arr.getD (pre j (slot qs start i) p) 0) ∧
      madeIt arr' (start + qs.length - 1) qs = .ok b := by
  have hq : qs.getD i 0 < n := by
    rw [List.getD_eq_getElem _ _ hi]; exact hlt _ (List.getElem_mem _)
  obtain ⟨j, h1, h2, h3⟩ := position_good hg hq
  have hk : slot qs start i < n := by unfold slot; omega
  obtain ⟨arr', e1, e2, e3⟩ := moveS hg h2 hk
  obtain ⟨b, hb⟩ := madeIt_no_crash (arr := arr') qs (start + qs.length - 1) (by rw [e2.len]; omega)
  exact ⟨j, arr', b, h1, h2, h3, e1, e2, e3, hb⟩

theorem sweepS_cons {qs : List Nat} {n start i j : Nat} {is arr arr' : List Nat} {b : Bool}
    (h1 : position (qs.getD i 0) arr = some j)
    (h2 : swapStepsS n (swapPositions j (slot qs start i)) arr = .ok arr')
    (h3 : madeIt arr' (start + qs.length - 1) qs = .ok b) :
    sweepS qs n start (i :: is) arr = if b then .ok (true, arr') else sweepS qs n start is arr' := by
  simp only [sweepS, h1]
  unfold slot at h2
  rw [h2]
  simp only [Outcome.bind, h3]

/-- a sweep over any list of valid indices never panics, keeps the arrangement bijective, and reports
`made_it` only when the exit test held -/
theorem sweepS_no_crash {qs : List Nat} {n start : Nat} (hlt : ∀ q ∈ qs, q < n) (hfit : start + qs.length ≤ n) :
    ∀ (is : List Nat) (arr : List Nat), (∀ i ∈ is, i < qs.length) → Good n arr →
    ∃ made arr', sweepS qs n start is arr = .ok (made, arr') ∧ Good n arr' ∧
      (made = true → madeIt arr' (start + qs.length - 1) qs = .ok true) := by
  intro is
  induction is with
  | nil => intro arr _ hg; exact ⟨false, arr, rfl, hg, by simp⟩
  | cons i is ih =>
    intro arr his hg
    obtain ⟨j, arr', b, h1, _, _, h4, h5, _, h7⟩ := step_ok hlt hfit hg (his i List.mem_cons_self)
    rw [sweepS_cons h1 h4 h7]
    cases b with
    | true => exact ⟨true, arr', rfl, h5, fun _ => h7⟩
    | false => exact ih arr' (fun x hx => his x (List.mem_cons_of_mem _ hx)) h5

/-! ## The invariants of the two sweeps -/

theorem slot_lt_slot {qs : List Nat} {start m i : Nat} (hm : m < i) (hi : i < qs.length) :
    slot qs start i < slot qs start m := by
  unfold slot; omega

/-- left-to-right sweep, one step: qubit `i` lands on its slot below all earlier ones; the earlier ones are
pushed up at most, never reordered -/
theorem forward_step {qs : List Nat} {n start i j : Nat} {arr arr' : List Nat} (hnd : qs.Nodup)
    (hfit : start + qs.length ≤ n) (hg : Good n arr) (hi : i < qs.length) (hj : j < n)
    (hjq : arr.getD j 0 = qs.getD i 0)
    (hpre : ∀ p, arr'.getD p 0 = arr.getD (pre j (slot qs start i) p) 0)
    (hA : Above qs n start i arr) (hO : Ordered qs n i arr) :
    Above qs n start (i + 1) arr' ∧ Ordered qs n (i + 1) arr' := by
  have hk : slot qs start i < n := by unfold slot; omega
  -- facts about an earlier listed qubit `m < i` found at `q` in the old arrangement
  have early : ∀ m q, m < i → q < n → arr.getD q 0 = qs.getD m 0 →
      slot qs start i < q ∧ q ≠ j ∧ slot qs start m ≤ q := by
    intro m q hm hq h
    have h1 := hA m q hm hq h
    have h2 := slot_lt_slot (qs := qs) (start := start) hm hi
    refine ⟨by omega, ?_, h1⟩
    intro e
    rw [e, hjq] at h
    have := getD_inj_of_nodup hnd hi (by omega) h
    omega
  constructor
  · intro m p hm hp h
    rw [hpre] at h
    have hq := pre_lt hj hk hp
    by_cases hmi : m = i
    · subst hmi
      have := hg.inj _ _ hq hj (h.trans hjq.symm)
      rw [pre_eq_j this]
    · obtain ⟨e1, e2, e3⟩ := early m _ (by omega) hq h
      generalize hqd : pre j (slot qs start i) p = q at *
      unfold pre at hqd
      split_ifs at hqd <;> omega
  · intro m m' p p' hmm hm' hp hp' h h'
    rw [hpre] at h h'
    have hq := pre_lt hj hk hp
    have hq' := pre_lt hj hk hp'
    obtain ⟨e1, e2, e3⟩ := early m _ (by omega) hq h
    by_cases hmi : m' = i
    · subst hmi
      have := hg.inj _ _ hq' hj (h'.trans hjq.symm)
      rw [pre_eq_j this]
      generalize hqd : pre j (slot qs start m') p = q at *
      unfold pre at hqd
      split_ifs at hqd <;> omega
    · obtain ⟨f1, f2, f3⟩ := early m' _ (by omega) hq' h'
      have hlt := hO m m' _ _ hmm (by omega) hq hq' h h'
      generalize hqd : pre j (slot qs start i) p = q at *
      generalize hqd' : pre j (slot qs start i) p' = q' at *
      unfold pre at hqd hqd'
      split_ifs at hqd hqd' <;> omega

/-- right-to-left sweep, one step: qubit `i-1` comes down onto its slot; only unlisted qubits move -/
theorem backward_step {qs : List Nat} {n start i j : Nat} {arr arr' : List Nat}
    (hfit : start + qs.length ≤ n) (hi1 : 1 ≤ i) (hi : i ≤ qs.length) (hj : j < n)
    (hjq : arr.getD j 0 = qs.getD (i - 1) 0)
    (hpre : ∀ p, arr'.getD p 0 = arr.getD (pre j (slot qs start (i - 1)) p) 0)
    (hE : Exact qs start i arr) (hA : Above qs n start i arr) (hO : Ordered qs n i arr) :
    Exact qs start (i - 1) arr' ∧ Above qs n start (i - 1) arr' ∧ Ordered qs n (i - 1) arr' := by
  have hk : slot qs start (i - 1) < n := by unfold slot; omega
  have hkj : slot qs start (i - 1) ≤ j := hA (i - 1) j (by omega) hj hjq
  have upper : ∀ m q, m < i - 1 → q < n → arr.getD q 0 = qs.getD m 0 → j < q ∧ slot qs start m ≤ q := by
    intro m q hm hq h
    exact ⟨hO m (i - 1) q j hm (by omega) hq hj h hjq, hA m q (by omega) hq h⟩
  refine ⟨?_, ?_, ?_⟩
  · intro m hm hmL
    rw [hpre]
    by_cases hmi : m = i - 1
    · subst hmi; rw [pre_k]; exact hjq
    · have h1 : slot qs start m < slot qs start (i - 1) := slot_lt_slot (by omega) hmL
      have : pre j (slot qs start (i - 1)) (slot qs start m) = slot qs start m := by
        unfold pre; split_ifs <;> omega
      rw [this]
      exact hE m (by omega) hmL
  · intro m p hm hp h
    rw [hpre] at h
    have hq := pre_lt hj hk hp
    obtain ⟨e1, e2⟩ := upper m _ hm hq h
    generalize hqd : pre j (slot qs start (i - 1)) p = q at *
    unfold pre at hqd
    split_ifs at hqd <;> omega
  · intro m m' p p' hmm hm' hp hp' h h'
    rw [hpre] at h h'
    have hq := pre_lt hj hk hp
    have hq' := pre_lt hj hk hp'
    obtain ⟨e1, e2⟩ := upper m _ (by omega) hq h
    obtain ⟨f1, f2⟩ := upper m' _ hm' hq' h'
    have hlt := hO m m' _ _ hmm (by omega) hq hq' h h'
    generalize hqd : pre j (slot qs start (i - 1)) p = q at *
    generalize hqd' : pre j (slot qs start (i - 1)) p' = q' at *
    unfold pre at hqd hqd'
    split_ifs at hqd hqd' <;> omega

/-! ## The two sweeps -/

/-- the left-to-right sweep from index `i` on: either it exits with `made_it`, or it ends with every listed
qubit at or above its slot and in the right order -/
theorem forward_sweep {qs : List Nat} {n start : Nat} (hlt : ∀ q ∈ qs, q < n) (hnd : qs.Nodup)
    (hfit : start + qs.length ≤ n) :
    ∀ (d i : Nat) (arr : List Nat), i + d = qs.length → Good n arr →
      Above qs n start i arr → Ordered qs n i arr →
      ∃ made arr', sweepS qs n start (List.range' i d) arr = .ok (made, arr') ∧ Good n arr' ∧
        (made = true → madeIt arr' (start + qs.length - 1) qs = .ok true) ∧
        (made = false → Above qs n start qs.length arr' ∧ Ordered qs n qs.length arr') := by
  intro d
  induction d with
  | zero =>
    intro i arr hid hg hA hO
    have : i = qs.length := by omega
    subst this
    exact ⟨false, arr, rfl, hg, by simp, fun _ => ⟨hA, hO⟩⟩
  | succ d ih =>
    intro i arr hid hg hA hO
    have hi : i < qs.length := by omega
    obtain ⟨j, arr', b, h1, h2, h3, h4, h5, h6, h7⟩ := step_ok hlt hfit hg hi
    rw [List.range'_succ, sweepS_cons h1 h4 h7]
    cases b with
    | true => exact ⟨true, arr', rfl, h5, fun _ => h7, by simp⟩
    | false =>
      obtain ⟨hA', hO'⟩ := forward_step hnd hfit hg hi h2 h3 h6 hA hO
      exact ih (i + 1) arr' (by omega) h5 hA' hO'

/-- the right-to-left sweep over `i-1, …, 0` from a state in which the qubits `≥ i` are exactly placed and the
others are above their slots in the right order: it exits with `made_it` -/
theorem backward_sweep {qs : List Nat} {n start : Nat} (hlt : ∀ q ∈ qs, q < n)
    (hfit : start + qs.length ≤ n) :
    ∀ (i : Nat) (arr : List Nat), 1 ≤ i → i ≤ qs.length → Good n arr →
      Exact qs start i arr → Above qs n start i arr → Ordered qs n i arr →
      ∃ arr', sweepS qs n start (List.range i).reverse arr = .ok (true, arr') := by
  intro i
  induction i with
  | zero => intro arr h; omega
  | succ i ih =>
    intro arr _ hi hg hE hA hO
    have hi' : i < qs.length := by omega
    obtain ⟨j, arr', b, h1, h2, h3, h4, h5, h6, h7⟩ := step_ok hlt hfit hg hi'
    rw [List.range_succ, List.reverse_append, List.reverse_cons, List.reverse_nil, List.nil_append,
      List.singleton_append, sweepS_cons h1 h4 h7]
    cases b with
    | true => exact ⟨arr', rfl⟩
    | false =>
      obtain ⟨hE', hA', hO'⟩ := backward_step (i := i + 1) hfit (by omega) hi h2
        (by simpa using h3) (by simpa using h6) hE hA hO
      simp only [Nat.add_sub_cancel] at hE' hA' hO'
      by_cases h0 : i = 0
      · -- everything is placed, so the exit test cannot have failed
        exfalso
        subst h0
        have : madeIt arr' (start + qs.length - 1) qs = .ok true := by
          apply madeIt_complete
          intro m hm
          have := hE' m (by omega) hm
          unfold slot at this
          exact ⟨by rw [h5.len]; omega, this⟩
        rw [this] at h7
        injection h7 with h7
        cases h7
      · exact ih arr' (by omega) (by omega) h5 hE' hA' hO'

/-- **Two sweeps suffice, for every `n`.** -/
theorem sweepsS_terminates {qs : List Nat} {n start : Nat} (hlt : ∀ q ∈ qs, q < n) (hnd : qs.Nodup)
    (hfit : start + qs.length ≤ n) (hlen : 1 ≤ qs.length) (fuel : Nat) :
    sweepsS qs n start (fuel + 2) true (List.range n) = .ok () := by
  simp only [sweepsS, if_true]
  obtain ⟨made, arr1, h1, hg1, hm1, hf1⟩ := forward_sweep hlt hnd hfit qs.length 0 (List.range n)
    (by omega) (good_range n) (fun m p hm => by omega) (fun m m' p p' _ hm' => by omega)
  rw [List.range_eq_range', h1]
  simp only [Outcome.bind]
  cases made with
  | true => simp
  | false =>
    simp only [Bool.false_eq_true, if_false, Bool.not_true]
    obtain ⟨hA, hO⟩ := hf1 rfl
    obtain ⟨arr2, h2⟩ := backward_sweep hlt hfit qs.length arr1 hlen (le_refl _) hg1
      (fun m hm hmL => by omega) hA hO
    rw [← List.range_eq_range', h2]
    simp [Outcome.bind]

/-- the shadow of `lifted_gate_matrix` returns on every valid placement, for every `n`, with any fuel ≥ 2 -/
theorem shadow_ok_alln {qs : List Nat} {n : Nat} (hv : validPlacement qs n = true) (fuel : Nat) :
    (liftS qs.length qs n (fuel + 2)).isOk = true := by
  have hnd' : ∀ l : List Nat, nodupB l = true ↔ l.Nodup := by
    intro l
    induction l with
    | nil => simp [nodupB]
    | cons q qs ih => simp [nodupB, ih, List.nodup_cons]
  unfold validPlacement at hv
  simp only [Bool.and_eq_true, Bool.not_eq_true', List.all_eq_true, decide_eq_true_eq] at hv
  obtain ⟨⟨hne, hlt⟩, hnd⟩ := hv
  rw [hnd'] at hnd
  have hlen : 1 ≤ qs.length := by
    cases qs with
    | nil => simp at hne
    | cons _ _ => simp
  obtain ⟨hsl, hb⟩ := sorted_bounds hlt hnd
  obtain ⟨hb1, hb2⟩ := hb (qs.length / 2) (by omega)
  have hfit : (sortNat qs).getD (qs.length / 2) 0 - qs.length / 2 + qs.length ≤ n := by omega
  unfold liftS permArbS
  simp only
  rw [if_pos (by rw [hsl]; omega), if_neg (by omega)]
  by_cases h1 : qs.length > 1
  · rw [if_pos h1, sweepsS_terminates hlt hnd hfit hlen fuel]
    simp only [Outcome.bind]
    rw [if_neg (by omega)]
    rfl
  · rw [if_neg h1]
    simp only [Outcome.bind]
    rw [if_neg (by omega)]
    rfl

/-! ## Outside the property: a repeated qubit makes the sweep loop spin for ever -/
section
variable {K : Type} [CommRing K] [GateFns K]

/-- With a repeated qubit in the list (all qubits `< n`, window inside the register) the exit test can never
hold — two different slots would have to hold the same qubit of a bijective arrangement — and no step panics,
so the `while !made_it` loop never exits: the model runs out of any fuel. -/
theorem sweeps_diverges {qs : List Nat} {n start : Nat} (hlt : ∀ q ∈ qs, q < n)
    (hfit : start + qs.length ≤ n) (hdup : ¬ qs.Nodup) :
    ∀ (fuel : Nat) (right : Bool) (perm : Mat K) (arr : List Nat), Good n arr →
      sweeps qs n start fuel right perm arr = .outOfFuel := by
  have hab : ∃ a b, a < b ∧ b < qs.length ∧ qs.getD a 0 = qs.getD b 0 := by
    by_contra hcon
    apply hdup
    rw [List.Nodup, List.pairwise_iff_getElem]
    intro a b ha hb hlt' e
    apply hcon
    exact ⟨a, b, hlt', hb, by rw [List.getD_eq_getElem _ _ ha, List.getD_eq_getElem _ _ hb, e]⟩
  obtain ⟨a, b, hab1, hb, hq⟩ := hab
  intro fuel
  induction fuel with
  | zero => intro right perm arr _; rfl
  | succ fuel ih =>
    intro right perm arr hg
    simp only [sweeps]
    have hidx : ∀ i ∈ (if right = true then List.range qs.length else (List.range qs.length).reverse),
        i < qs.length := by
      intro i hi
      split_ifs at hi
      · exact List.mem_range.mp hi
      · exact List.mem_range.mp (List.mem_reverse.mp hi)
    obtain ⟨made, arr', h1, hg', hm⟩ := sweepS_no_crash hlt hfit _ arr hidx hg
    obtain ⟨perm', hp⟩ := sweep_of_shadow (K := K) _ _ _ _ perm h1
    rw [hp]
    simp only [Outcome.bind]
    cases made with
    | false => simp only [Bool.false_eq_true, if_false]; exact ih _ _ _ hg'
    | true =>
      exfalso
      have hmt := madeIt_true qs _ (hm rfl)
      obtain ⟨ha1, ha2⟩ := hmt a (by omega)
      obtain ⟨hb1, hb2⟩ := hmt b hb
      rw [hg'.len] at ha1 hb1
      have := hg'.inj _ _ ha1 hb1 (by rw [ha2, hb2, hq])
      omega

/-- `CNOT q q` (any 4×4 matrix on the qubit list `[q, q]`, `1 ≤ q < n`): `lifted_gate_matrix` never returns. -/
theorem liftedGateMatrix_repeated_diverges (M : Mat K) {q n : Nat} (h1 : 1 ≤ q) (hq : q < n) (fuel : Nat) :
    liftedGateMatrix M [q, q] n fuel = .outOfFuel := by
  have hs : sortNat [q, q] = [q, q] := by simp [sortNat, insertSorted]
  have hdup : ¬ [q, q].Nodup := by simp
  have hd := sweeps_diverges (K := K) (qs := [q, q]) (n := n) (start := q - 1)
    (by intro x hx; simp at hx; omega) (by simp; omega) hdup fuel true (Mat.eye (2 ^ n)) (List.range n)
    (good_range n)
  unfold liftedGateMatrix permutationArbitrary
  simp only [hs, List.length_cons, List.length_nil]
  have e1 : (0 + 1 + 1) / 2 = 1 := by norm_num
  have e2 : [q, q].getD 1 0 = q := rfl
  simp only [e1, e2]
  rw [if_pos (by norm_num), if_neg (by omega), if_pos (by norm_num), hd]
  rfl

end

end QV.C14
