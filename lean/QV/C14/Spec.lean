import QV.C14.Model
/-
C14 specification — written from the Quil specification's standard gate definitions (§ "Standard Gate
Definitions"), NOT from gate.rs, and independently of the lifting algorithm:

* `specMatrix name θs`: the gate's own matrix, given by the gate's action on computational basis states.
  The gate's first listed qubit is the most significant bit of the gate's own index (`CNOT c t` has index
  `2·c + t`).  Classical reversible gates (X, CNOT, CCNOT, SWAP, CSWAP) are permutation matrices of their
  truth table (column `c` has its 1 in row `f c`); diagonal gates (Z, S, T, PHASE, CZ, CPHASExx, RZ) are given
  by their phase function; ISWAP / PSWAP are SWAP with a phase on the two states that actually move; the
  remaining one-qubit gates (Y, H, RX, RY) are written out.  Exponentials are `cis x = e^{ix}`.
* `liftSpec U qs n`: the n-qubit operator that applies `U` to the listed qubits and leaves every other
  qubit alone, entry-wise by bit manipulation.  Qubit 0 is the least significant bit of an index.

Import-free (the driver evaluates it over `CFloat`).
-/
namespace QV.C14
section
variable {K : Type} [Zero K] [One K] [Add K] [Sub K] [Mul K] [Neg K] [GateFns K]
open Mat GateFns

/-- bit `p` of `x` as a `Nat` -/
def bit (x p : Nat) : Nat := (x.testBit p).toNat

/-- A classical reversible gate on `k` qubits with truth table `f`: `|c⟩ ↦ |f c⟩`. -/
def permGate (k : Nat) (f : Nat → Nat) : Mat K :=
  build (2 ^ k) (2 ^ k) fun r c => if r = f c then 1 else 0

/-- A diagonal gate: `|c⟩ ↦ ph c · |c⟩`. -/
def diagGate (k : Nat) (ph : Nat → K) : Mat K :=
  build (2 ^ k) (2 ^ k) fun r c => if r = c then ph c else 0

/-- SWAP with the phase `w` on the two states that move (`|01⟩ ↔ |10⟩`). -/
def phasedSwap (w : K) : Mat K :=
  build 4 4 fun r c =>
    if r = 2 * bit c 0 + bit c 1 then (if c.testBit 0 = c.testBit 1 then 1 else w) else 0

/-- The Quil specification's matrix of a standard gate with the given parameters (`none`: not a standard
gate, or wrong number of parameters).  In the comments `a b c` are the bits of the gate's own index, first
listed qubit first. -/
def specMatrix (name : String) (θs : List K) : Option (Mat K) :=
  match name, θs with
  | "I", [] => some (diagGate 1 fun _ => 1)
  | "X", [] => some (permGate 1 fun c => 1 - c)                                   -- |a⟩ ↦ |¬a⟩
  | "Y", [] => some (build 2 2 fun r c => if r = c then 0 else if r = 1 then i else -i)  -- |0⟩ ↦ i|1⟩, |1⟩ ↦ -i|0⟩
  | "Z", [] => some (diagGate 1 fun c => if c.testBit 0 then -1 else 1)
  | "H", [] => some (build 2 2 fun r c => invSqrt2 * (if r = 1 ∧ c = 1 then -1 else 1))
  | "S", [] => some (diagGate 1 fun c => if c.testBit 0 then i else 1)
  | "T", [] => some (diagGate 1 fun c => if c.testBit 0 then cis pi4 else 1)
  | "CNOT", [] => some (permGate 2 fun c => 2 * bit c 1 + (bit c 0 + bit c 1) % 2)          -- |a b⟩ ↦ |a, b⊕a⟩
  | "CCNOT", [] =>                                                                  -- |a b c⟩ ↦ |a, b, c⊕ab⟩
      some (permGate 3 fun c => 4 * bit c 2 + 2 * bit c 1 + (bit c 0 + bit c 2 * bit c 1) % 2)
  | "CZ", [] => some (diagGate 2 fun c => if c.testBit 1 ∧ c.testBit 0 then -1 else 1)
  | "SWAP", [] => some (permGate 2 fun c => 2 * bit c 0 + bit c 1)                         -- |a b⟩ ↦ |b a⟩
  | "CSWAP", [] =>                                                     -- |a b c⟩ ↦ a = 1 ? |a c b⟩ : |a b c⟩
      some (permGate 3 fun c => if c.testBit 2 then 4 + 2 * bit c 0 + bit c 1 else c)
  | "ISWAP", [] => some (phasedSwap i)
  | "RX", [θ] => some (build 2 2 fun r c => if r = c then cos (half θ) else -i * sin (half θ))
  | "RY", [θ] => some (build 2 2 fun r c =>
      if r = c then cos (half θ) else if r = 1 then sin (half θ) else -(sin (half θ)))
  | "RZ", [θ] => some (diagGate 1 fun c => if c.testBit 0 then cis (half θ) else cis (-(half θ)))
  | "PHASE", [α] => some (diagGate 1 fun c => if c.testBit 0 then cis α else 1)
  | "CPHASE00", [α] => some (diagGate 2 fun c => if ¬ c.testBit 1 ∧ ¬ c.testBit 0 then cis α else 1)
  | "CPHASE01", [α] => some (diagGate 2 fun c => if ¬ c.testBit 1 ∧ c.testBit 0 then cis α else 1)
  | "CPHASE10", [α] => some (diagGate 2 fun c => if c.testBit 1 ∧ ¬ c.testBit 0 then cis α else 1)
  | "CPHASE", [α] => some (diagGate 2 fun c => if c.testBit 1 ∧ c.testBit 0 then cis α else 1)
  | "PSWAP", [θ] => some (phasedSwap (cis θ))
  | _, _ => none

/-- The gate's own index of the basis state `x` of the big register: the bits of `x` at the listed
qubits, first listed qubit most significant. -/
def gateIndex (qs : List Nat) (x : Nat) : Nat :=
  qs.foldl (fun acc q => 2 * acc + bit x q) 0

/-- `r` and `c` agree on every qubit `< n` that is not listed. -/
def agreeOutside (qs : List Nat) (n r c : Nat) : Bool :=
  (List.range n).all fun p => qs.contains p || (r.testBit p == c.testBit p)

/-- `U` applied to the qubits `qs` (in that order) of an `n`-qubit register, identity elsewhere. -/
def liftSpec (U : Mat K) (qs : List Nat) (n : Nat) : Mat K :=
  build (2 ^ n) (2 ^ n) fun r c =>
    if agreeOutside qs n r c then U.get (gateIndex qs r) (gateIndex qs c) else 0

/-- A valid placement: distinct qubits, all `< n`, at least one. -/
def nodupB : List Nat → Bool
  | [] => true
  | q :: qs => !qs.contains q && nodupB qs
def validPlacement (qs : List Nat) (n : Nat) : Bool :=
  !qs.isEmpty && qs.all (· < n) && nodupB qs

/-- The specification of `Gate::to_unitary` on a standard gate without modifiers. -/
def specUnitary (name : String) (θs : List K) (qs : List Nat) (n : Nat) : Option (Mat K) :=
  (specMatrix name θs).map fun U => liftSpec U qs n

end
end QV.C14
