import QV.Shared.Sched
/-
C22 — Every block's dependency graph is a well-formed DAG.

  "For every program that schedules successfully, each basic block's dependency graph is acyclic, and every
   edge points from an earlier position to a later one (block start, then instructions in order, then block
   end). When every RF-control instruction matches at least one defined frame, every instruction node is
   also reachable from the block start and reaches the block end."
-/
namespace QV.C22
open QV.Sched

/-- a node that exists in a block of `L` instructions -/
def Valid (L : Nat) : Node → Prop
  | .start => True
  | .instr i => i < L
  | .stop => True

instance (L : Nat) (x : Node) : Decidable (Valid L x) := by
  cases x <;> simp only [Valid] <;> infer_instance

/-- a path with at least one edge -/
def Path1 (es : List Edge) (u v : Node) : Prop :=
  ∃ e ∈ es, e.src = u ∧ Reach es anyLabel e.dst v

/-- "every RF-control instruction matches at least one defined frame" -/
def RfMatches (b : Block) : Prop :=
  ∀ i ∈ b.instrs, i.role = .rf → frameAccesses i ≠ []

structure DagSpec (b : Block) (es : List Edge) : Prop where
  /-- endpoints are nodes of the block -/
  valid : ∀ e ∈ es, Valid b.instrs.length e.src ∧ Valid b.instrs.length e.dst
  /-- every edge points from an earlier position to a later one -/
  forward : ∀ e ∈ es, e.src.pos b.instrs.length < e.dst.pos b.instrs.length
  /-- under `RfMatches`, every instruction node is reachable from the start and reaches the end -/
  connected : RfMatches b → ∀ i, i < b.instrs.length →
    Reach es anyLabel .start (.instr i) ∧ Reach es anyLabel (.instr i) .stop

/-! Bool checker -/

def rfMatchesB (b : Block) : Bool :=
  b.instrs.all fun i => !(i.role = .rf) || !(frameAccesses i).isEmpty

def dagSpecB (b : Block) (es : List Edge) : Bool :=
  let L := b.instrs.length
  (es.all fun e => decide (Valid L e.src) && decide (Valid L e.dst) && decide (e.src.pos L < e.dst.pos L)) &&
  (!rfMatchesB b ||
    let fromStart := reachFrom es anyLabel .start
    (List.range L).all fun i =>
      fromStart.contains (.instr i) && (reachFrom es anyLabel (.instr i)).contains .stop)

/-- hypotheses of the theorem (as in C24): distinct frames per instruction, control-flow terminator -/
def hypB (b : Block) : Bool :=
  (b.items.all fun p => decide (((frameAccesses p.2).map (·.1)).Nodup)) &&
  (match b.term with | some t => t.role = .controlFlow | none => true)

end QV.C22
