import QV.Shared.Sched
/-!
C22 — the executable model is shared by C22, C23, C24 and C25 and lives in `QV/Shared/Sched.lean`
(`Queue.record`, `QMap`, `stepInstr`, `buildBlock`, `buildProgram`, `runHistory`, `asSchedule`,
`blockSchedule`, `instructionDuration`); invariants and structural lemmas are in
`QV/Shared/SchedLemmas.lean` and `QV/Shared/SchedFrames.lean`, the wire format in `QV/Shared/SchedWire.lean`.
This file only re-exports it so that the property directory has the usual shape.
-/
