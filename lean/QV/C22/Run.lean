import QV.Wire
import QV.Shared.SchedWire
import QV.Shared.HandlerWire
import QV.C22.Spec
/-! Driver side of the C22 correspondence check. -/
namespace QV.C22
open QV QV.Sched QV.Sched.Wire

/-- node set of the implementation's graph: start first, only nodes of the block, every edge endpoint present -/
def nodesOk (b : Block) (ns : List Nat) (es : List Edge) : Bool :=
  let L := b.instrs.length
  ns.contains 0 && ns.all (· ≤ L + 1) &&
  es.all fun e => ns.contains (encNode L e.src) && ns.contains (encNode L e.dst)

def tagsOf (b : Block) (es : List Edge) : List String :=
  (if hypB b then [] else ["hyp-violated"]) ++
  (if rfMatchesB b then ["rf-matches"] else ["rf-unmatched"]) ++
  (if b.term.isSome then ["term"] else ["no-term"]) ++
  (if b.instrs.any (fun i => i.reads.any fun r => i.captures.contains r) then ["self-read-capture"] else []) ++
  (if b.instrs.any (·.role == .classical) then ["classical"] else []) ++
  (if b.instrs.any (·.role == .rf) then ["rf"] else []) ++
  (if es.any (fun e => isAwait e.label) then ["edge-mem"] else []) ++
  (if es.any (fun e => e.label == .scheduled) then ["edge-S"] else []) ++
  (if es.any (fun e => e.src == .start && e.dst == .stop) then ["start-end"] else [])

def handleProgram (stream : String) (p out : Sexp) : CaseResult :=
  handleProgramWith stream p out
    (fun b ns es => nodesOk b ns es && (!hypB b || dagSpecB b es))
    (fun b => b.instrs.length ≥ 2) tagsOf

def handle (inp out : Sexp) : CaseResult :=
  match inp with
  | .list [.atom "corpus", p] => handleProgram "corpus" p out
  | .list [.atom "table", p] => handleProgram "table" p out
  | .list [.atom "random", p] => handleProgram "random" p out
  | .list [.atom "ast", instrs, sigs, real] =>
    HandlerWire.handleAst instrs sigs real out (fun _ _ b ns es => nodesOk b ns es && hypB b && dagSpecB b es)
      (fun b => b.instrs.length ≥ 2) tagsOf
  | _ => .bad s!"undecodable input {inp}"

end QV.C22

def main : IO UInt32 := QV.runMain QV.C22.handle
