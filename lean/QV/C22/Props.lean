import QV.Shared.SchedFrames
import QV.C22.Spec
import QV.Shared.HandlerLemmas
/-
C22 — Every block's dependency graph is a well-formed DAG.  Property theorems only.
-/
namespace QV.C22
open QV.Sched

def Hyp (b : Block) : Prop :=
  (∀ p ∈ b.items, ((frameAccesses p.2).map (·.1)).Nodup) ∧ (∀ t, b.term = some t → t.role = .controlFlow)

/-! ### helpers -/

private theorem item_cases (b : Block) (p : Node × Instr) (hp : p ∈ b.items) :
    (∃ i, p.1 = .instr i ∧ i < b.instrs.length ∧ b.instrs[i]? = some p.2) ∨ (p.1 = .stop ∧ b.term = some p.2) := by
  unfold Block.items at hp
  rcases List.mem_append.1 hp with hp | hp
  · obtain ⟨i, h1, _, h3, h4⟩ := mem_enumFrom _ _ p hp
    exact .inl ⟨i, h1, by omega, by simpa using h4⟩
  · cases ht : b.term with
    | none => simp [ht] at hp
    | some t =>
      simp only [ht, List.mem_singleton] at hp
      subst hp
      exact .inr ⟨rfl, rfl⟩

private theorem item_valid (b : Block) (p : Node × Instr) (hp : p ∈ b.items) : Valid b.instrs.length p.1 := by
  rcases item_cases b p hp with ⟨i, h1, h2, _⟩ | ⟨h1, _⟩
  · rw [h1]; exact h2
  · rw [h1]; trivial

private theorem log_item {P : List (Node × Instr)} {f : Instr → List (Nat × Kind)} {a : Access}
    (h : a ∈ P.flatMap fun p => (f p.2).map fun c => (⟨p.1, c.1, c.2⟩ : Access)) :
    ∃ p ∈ P, p.1 = a.node ∧ (a.res, a.kind) ∈ f p.2 := by
  simp only [List.mem_flatMap, List.mem_map] at h
  obtain ⟨p, hp, c, hc, rfl⟩ := h
  exact ⟨p, hp, rfl, hc⟩

private theorem mem_timedLog {P : List (Node × Instr)} {a : Access} (h : a ∈ timedLog P) :
    ∃ p ∈ P, p.1 = a.node ∧ (a.res, a.kind) ∈ frameAccesses p.2 := by
  simp only [timedLog, List.mem_flatMap] at h
  obtain ⟨p, hp, hin⟩ := h
  split at hin
  · simp only [List.mem_map] at hin
    obtain ⟨c, hc, rfl⟩ := hin
    exact ⟨p, hp, rfl, hc⟩
  · simp at hin

private theorem mem_classicalNodes {P : List (Node × Instr)} {x : Node} :
    x ∈ classicalNodes P ↔ ∃ p ∈ P, p.1 = x ∧ p.2.role = .classical := by
  simp only [classicalNodes, List.mem_flatMap]
  constructor
  · rintro ⟨p, hp, hin⟩
    split at hin
    · rename_i hr
      simp only [List.mem_singleton] at hin
      exact ⟨p, hp, hin.symm, hr⟩
    · simp at hin
  · rintro ⟨p, hp, h1, h2⟩
    exact ⟨p, hp, by simp [h2, h1]⟩

private theorem mem_pendingAll {m : QMap} {d : Dep} (h : d ∈ m.pendingAll) :
    ∃ r, r ∈ m.keys ∧ ((d.kind = .read ∧ d.node ∈ (m.get r).reads) ∨ (m.get r).write = some d) := by
  simp only [QMap.pendingAll, List.mem_flatMap, Queue.pending, List.mem_append, List.mem_map,
    Option.mem_toList] at h
  obtain ⟨r, hr, h | h⟩ := h
  · obtain ⟨x, hx, rfl⟩ := h
    exact ⟨r, hr, .inl ⟨rfl, hx⟩⟩
  · exact ⟨r, hr, .inr h⟩

private theorem pendingAll_of {m : QMap} {r : Nat} (hr : r ∈ m.keys) :
    (∀ w, (m.get r).write = some w → w ∈ m.pendingAll) ∧
    (∀ x ∈ (m.get r).reads, (⟨.read, x⟩ : Dep) ∈ m.pendingAll) := by
  constructor
  · intro w hw
    simp only [QMap.pendingAll, List.mem_flatMap]
    exact ⟨r, hr, by simp [Queue.pending, hw]⟩
  · intro x hx
    simp only [QMap.pendingAll, List.mem_flatMap]
    exact ⟨r, hr, by simp [Queue.pending, hx]⟩

private theorem pending_logged {m : QMap} {R : Node → Node → Prop} {log : List Access} {d : Dep}
    (hq : QInv Queue.frameInit m R log) (h : d ∈ m.pendingAll) :
    d.node = .start ∨ ∃ r k, (⟨d.node, r, k⟩ : Access) ∈ log := by
  obtain ⟨r, _, ⟨_, h⟩ | h⟩ := mem_pendingAll h
  · exact .inr ⟨r, .read, hq.jr r _ h⟩
  · rcases (hq.jw r d h).2 with h' | h'
    · exact .inr ⟨r, d.kind, h'⟩
    · simp only [Queue.frameInit, Option.some.injEq] at h'
      subst h'
      exact .inl rfl

private theorem finish_cases (b : Block) (st : St) (e : Edge) (he : e ∈ finish b st) :
    e ∈ st.edges ∨ (∃ t ∈ st.trailing, e = ⟨t, .stop, .stable⟩) ∨
    (∃ d ∈ st.timed.pendingAll, e = ⟨d.node, .stop, .scheduled⟩) ∨
    (∃ d ∈ st.ord.pendingAll, e = ⟨d.node, .stop, .stable⟩) ∨
    (b.instrs = [] ∧ e = ⟨.start, .stop, .stable⟩) := by
  simp only [finish, List.mem_append, List.mem_map] at he
  rcases he with (((he | ⟨t, ht, rfl⟩) | ⟨d, hd, rfl⟩) | ⟨d, hd, rfl⟩) | he
  · exact .inl he
  · exact .inr (.inl ⟨t, ht, rfl⟩)
  · exact .inr (.inr (.inl ⟨d, hd, rfl⟩))
  · exact .inr (.inr (.inr (.inl ⟨d, hd, rfl⟩)))
  · split at he
    · rename_i hemp
      simp only [List.mem_singleton] at he
      exact .inr (.inr (.inr (.inr ⟨by simpa using hemp, he⟩)))
    · simp at he

private theorem sub_finish (b : Block) (st : St) : ∀ e ∈ st.edges, e ∈ finish b st := by
  intro e he; simp [finish, he]

/-- a node carrying frame accesses or a classical role is a body instruction (given a control-flow terminator) -/
private theorem body_of {b : Block} (hterm : ∀ t, b.term = some t → t.role = .controlFlow)
    {p : Node × Instr} (hp : p ∈ b.items) (h : p.2.role ≠ .controlFlow) :
    ∃ i, p.1 = .instr i ∧ i < b.instrs.length ∧ b.instrs[i]? = some p.2 := by
  rcases item_cases b p hp with h1 | ⟨_, h2⟩
  · exact h1
  · exact absurd (hterm _ h2) h

private theorem frames_role {ins : Instr} {a : Nat × Kind} (h : a ∈ frameAccesses ins) : ins.role = .rf := by
  unfold frameAccesses at h
  split at h
  · assumption
  · simp at h

/-- edges that `FrameJustLog` justifies have valid endpoints -/
private theorem justLog_valid {b : Block} {log : List Access} {e : Edge}
    (hlog : ∀ a ∈ log, ∃ p ∈ b.items, p.1 = a.node) (h : FrameJustLog log e) :
    Valid b.instrs.length e.src ∧ Valid b.instrs.length e.dst := by
  obtain ⟨f, k1, k2, h1, h2, _⟩ := h
  constructor
  · rcases h1 with h1 | ⟨h1, _⟩
    · obtain ⟨p, hp, hp1⟩ := hlog _ h1
      simp only at hp1; rw [← hp1]; exact item_valid b p hp
    · rw [h1]; trivial
  · obtain ⟨p, hp, hp1⟩ := hlog _ h2
    simp only at hp1; rw [← hp1]; exact item_valid b p hp

/-! ### The theorems -/

/-- **C22 (a), all blocks.** Every edge of a successfully built graph joins nodes of the block and points from an
earlier position to a later one. -/
theorem C22_forward (b : Block) (es : List Edge) (h : buildBlock b = .ok es) (hyp : Hyp b) :
    (∀ e ∈ es, Valid b.instrs.length e.src ∧ Valid b.instrs.length e.dst) ∧
    (∀ e ∈ es, e.src.pos b.instrs.length < e.dst.pos b.instrs.length) := by
  obtain ⟨hnd, hterm⟩ := hyp
  obtain ⟨st, _, rfl, -, hmj, ho, hoj, ht, htj, htr⟩ := build_inv b es h hnd
  have hol : ∀ a ∈ ordLog b.items, ∃ p ∈ b.items, p.1 = a.node := fun a ha =>
    let ⟨p, hp, h1, _⟩ := log_item (f := frameAccesses) ha; ⟨p, hp, h1⟩
  have htl : ∀ a ∈ timedLog b.items, ∃ p ∈ b.items, p.1 = a.node := fun a ha =>
    let ⟨p, hp, h1, _⟩ := mem_timedLog ha; ⟨p, hp, h1⟩
  -- nodes pending in a frame queue are the start or body instructions
  have hpend : ∀ (m : QMap) (R : Node → Node → Prop) (log : List Access),
      QInv Queue.frameInit m R log → (∀ a ∈ log, ∃ p ∈ b.items, p.1 = a.node ∧ (a.res, a.kind) ∈ frameAccesses p.2) →
      ∀ d ∈ m.pendingAll, Valid b.instrs.length d.node ∧ d.node.pos b.instrs.length < b.instrs.length + 1 := by
    intro m R log hq hlog d hd
    rcases pending_logged hq hd with h0 | ⟨r, k, hin⟩
    · rw [h0]; exact ⟨trivial, by simp [Node.pos]⟩
    · obtain ⟨p, hp, hp1, hp2⟩ := hlog _ hin
      simp only at hp1 hp2
      obtain ⟨i, hi1, hi2, _⟩ := body_of hterm hp (by rw [frames_role hp2]; simp)
      rw [← hp1, hi1]
      exact ⟨hi2, by simp only [Node.pos]; omega⟩
  have hinner : ∀ e ∈ st.edges, (Valid b.instrs.length e.src ∧ Valid b.instrs.length e.dst) ∧
      e.src.pos b.instrs.length < e.dst.pos b.instrs.length := by
    intro e he
    cases hl : e.label with
    | await k =>
      obtain ⟨h1, r, k2, h2, h3, _⟩ := hmj e he k hl
      obtain ⟨p, hp, hp1, _⟩ := log_item (f := memAccesses) h2
      obtain ⟨q, hq, hq1, _⟩ := log_item (f := memAccesses) h3
      simp only at hp1 hq1
      exact ⟨⟨by rw [← hp1]; exact item_valid b p hp, by rw [← hq1]; exact item_valid b q hq⟩, h1⟩
    | scheduled =>
      obtain ⟨h1, h2⟩ := htj e he hl
      exact ⟨justLog_valid htl h2, h1⟩
    | stable =>
      obtain ⟨h1, h2⟩ := hoj e he hl
      refine ⟨?_, h1⟩
      rcases h2 with ⟨h3, h4⟩ | h2
      · obtain ⟨p, hp, hp1, _⟩ := mem_classicalNodes.1 h4
        exact ⟨by rw [h3]; trivial, by rw [← hp1]; exact item_valid b p hp⟩
      · exact justLog_valid hol h2
  have hall : ∀ e ∈ finish b st, (Valid b.instrs.length e.src ∧ Valid b.instrs.length e.dst) ∧
      e.src.pos b.instrs.length < e.dst.pos b.instrs.length := by
    intro e he
    rcases finish_cases b st e he with hin | ⟨t, htt, rfl⟩ | ⟨d, hd, rfl⟩ | ⟨d, hd, rfl⟩ | ⟨_, rfl⟩
    · exact hinner e hin
    · obtain ⟨p, hp, hp1, hp2⟩ := mem_classicalNodes.1 (htr t htt)
      obtain ⟨i, hi1, hi2, _⟩ := body_of hterm hp (by rw [hp2]; simp)
      rw [← hp1, hi1]
      exact ⟨⟨hi2, trivial⟩, by simp only [Node.pos]; omega⟩
    · have := hpend _ _ _ ht (fun a ha => mem_timedLog ha) d hd
      exact ⟨⟨this.1, trivial⟩, this.2⟩
    · have := hpend _ _ _ ho (fun a ha => log_item (f := frameAccesses) ha) d hd
      exact ⟨⟨this.1, trivial⟩, this.2⟩
    · exact ⟨⟨trivial, trivial⟩, by simp [Node.pos]⟩
  exact ⟨fun e he => (hall e he).1, fun e he => (hall e he).2⟩

/-- **C22 (b): acyclic.** In any graph whose edges all point forward, no node lies on a cycle. -/
theorem C22_acyclic_of_forward (L : Nat) (es : List Edge)
    (hf : ∀ e ∈ es, e.src.pos L < e.dst.pos L) (u : Node) : ¬ Path1 es u u := by
  rintro ⟨e, he, hsrc, hr⟩
  have h1 := hf e he
  rcases Reach.measure_le (Node.pos L) hf hr with h | h
  · rw [h, hsrc] at h1; exact Nat.lt_irrefl _ h1
  · rw [hsrc] at h1; exact Nat.lt_irrefl _ (Nat.lt_trans h1 h)

/-- **C22 (b), all blocks.** A successfully built graph is acyclic. -/
theorem C22_acyclic (b : Block) (es : List Edge) (h : buildBlock b = .ok es) (hyp : Hyp b) (u : Node) :
    ¬ Path1 es u u :=
  C22_acyclic_of_forward b.instrs.length es (C22_forward b es h hyp).2 u

/-- **C22 (c), all blocks.** When every RF-control instruction matches at least one frame, every instruction
node is reachable from the block start and reaches the block end. -/
theorem C22_connected (b : Block) (es : List Edge) (h : buildBlock b = .ok es) (hyp : Hyp b)
    (hrf : RfMatches b) (i : Nat) (hi : i < b.instrs.length) :
    Reach es anyLabel .start (.instr i) ∧ Reach es anyLabel (.instr i) .stop := by
  obtain ⟨hnd, hterm⟩ := hyp
  obtain ⟨st, hrun, rfl, hm, hmj, ho, hoj, ht, htj, htr⟩ := build_inv b es h hnd
  have hsub := sub_finish b st
  have hcl := runItems_classicalInv b.items St.init st [] hrun (by simp)
  simp only [List.nil_append] at hcl
  have hroles := runItems_roles b.items St.init st hrun
  have anyOf : ∀ (C : Label → Bool) {u v}, Reach (finish b st) C u v → Reach (finish b st) anyLabel u v :=
    fun C _ _ hr => hr.weaken fun _ _ => rfl
  -- a body item is classical or an RF instruction with at least one frame
  have good : ∀ p ∈ b.items, (∃ j, p.1 = .instr j) → p.2.role = .classical ∨ frameAccesses p.2 ≠ [] := by
    intro p hp ⟨j, hj⟩
    rcases hroles p hp with h1 | h1 | ⟨_, h1⟩
    · exact .inl h1
    · right
      rcases item_cases b p hp with ⟨i', _, _, hget⟩ | ⟨h2, _⟩
      · exact hrf p.2 (List.mem_of_getElem? hget) h1
      · rw [h2] at hj; cases hj
    · rw [h1] at hj; cases hj
  -- (1) from the start, by induction on the position
  have fromStart : ∀ k, ∀ p ∈ b.items, (∃ j, p.1 = .instr j) → p.1.pos b.instrs.length ≤ k →
      Reach (finish b st) anyLabel .start p.1 := by
    intro k
    induction k with
    | zero =>
      intro p hp _ hk
      have := items_pos b p hp
      omega
    | succ k ih =>
      intro p hp hj hk
      rcases good p hp hj with hc | hfr
      · obtain ⟨⟨e, he, hdst, hsrc⟩, _⟩ := hcl p.1 (mem_classicalNodes.2 ⟨p, hp, rfl, hc⟩)
        rcases hsrc with ⟨h1, _⟩ | hl
        · have : Reach (finish b st) anyLabel e.src e.dst := Reach.edge (l := e.label) (hsub _ he) rfl
          rw [h1, hdst] at this; exact this
        · cases hlab : e.label with
          | await kk =>
            obtain ⟨hlt, r, k2, h2, _, _⟩ := hmj e he kk hlab
            obtain ⟨q, hq, hq1, _⟩ := log_item (f := memAccesses) h2
            simp only at hq1
            rw [hdst] at hlt
            have hqj : ∃ j, q.1 = .instr j := by
              rcases item_cases b q hq with ⟨j, h1, _⟩ | ⟨h1, _⟩
              · exact ⟨j, h1⟩
              · exfalso
                rw [← hq1, h1] at hlt
                obtain ⟨j, hj⟩ := hj
                rcases item_cases b p hp with ⟨j', h3, h4, _⟩ | ⟨h3, _⟩
                · rw [h3] at hlt; simp only [Node.pos] at hlt; omega
                · rw [h3] at hj; cases hj
            have := ih q hq hqj (by rw [hq1]; omega)
            rw [hq1] at this
            have hedge : Reach (finish b st) anyLabel e.src e.dst := Reach.edge (l := e.label) (hsub _ he) rfl
            rw [hdst] at hedge
            exact this.trans hedge
          | scheduled => rw [hlab] at hl; cases hl
          | stable => rw [hlab] at hl; cases hl
      · obtain ⟨a, ha⟩ := List.exists_mem_of_ne_nil _ hfr
        have := ho.ini ⟨.write, .start⟩ rfl ⟨p.1, a.1, a.2⟩ (by
          simp only [ordLog, List.mem_flatMap, List.mem_map]
          exact ⟨p, hp, a, ha, rfl⟩)
        exact anyOf _ (this.mono hsub)
  -- (2) to the end, by induction on the distance to the end
  have toEnd : ∀ k, ∀ p ∈ b.items, (∃ j, p.1 = .instr j) → b.instrs.length + 1 - p.1.pos b.instrs.length ≤ k →
      Reach (finish b st) anyLabel p.1 .stop := by
    intro k
    induction k with
    | zero =>
      intro p hp ⟨j, hj⟩ hk
      rcases item_cases b p hp with ⟨j', h3, h4, _⟩ | ⟨h3, _⟩
      · rw [h3] at hk; simp only [Node.pos] at hk; omega
      · rw [h3] at hj; cases hj
    | succ k ih =>
      intro p hp hj hk
      rcases good p hp hj with hc | hfr
      · obtain ⟨_, hout⟩ := hcl p.1 (mem_classicalNodes.2 ⟨p, hp, rfl, hc⟩)
        rcases hout with htrail | ⟨e, he, hsrc, hl⟩
        · apply Reach.edge (l := .stable) _ rfl
          simp only [finish, List.mem_append, List.mem_map]
          exact .inl (.inl (.inl (.inr ⟨p.1, htrail, rfl⟩)))
        · cases hlab : e.label with
          | await kk =>
            obtain ⟨hlt, r, k2, _, h3, _⟩ := hmj e he kk hlab
            obtain ⟨q, hq, hq1, _⟩ := log_item (f := memAccesses) h3
            simp only at hq1
            rw [hsrc] at hlt
            have hedge : Reach (finish b st) anyLabel e.src e.dst := Reach.edge (l := e.label) (hsub _ he) rfl
            rw [hsrc] at hedge
            rcases item_cases b q hq with ⟨j', h1, _⟩ | ⟨h1, _⟩
            · have := ih q hq ⟨j', h1⟩ (by rw [hq1]; omega)
              rw [hq1] at this
              exact hedge.trans this
            · rw [← hq1, h1] at hedge; exact hedge
          | scheduled => rw [hlab] at hl; cases hl
          | stable => rw [hlab] at hl; cases hl
      · obtain ⟨a, ha⟩ := List.exists_mem_of_ne_nil _ hfr
        have hlog : (⟨p.1, a.1, a.2⟩ : Access) ∈ ordLog b.items := by
          simp only [ordLog, List.mem_flatMap, List.mem_map]
          exact ⟨p, hp, a, ha, rfl⟩
        have hkey : a.1 ∈ st.ord.keys := (ho.ks a.1).2 ⟨_, hlog, rfl⟩
        have toStop : ∀ d ∈ st.ord.pendingAll, Reach (finish b st) anyLabel d.node .stop := by
          intro d hd
          apply Reach.edge (l := .stable) _ rfl
          simp only [finish, List.mem_append, List.mem_map]
          exact .inl (.inr ⟨d, hd, rfl⟩)
        have viaWriter : (∃ w, (st.ord.get a.1).write = some w ∧ Reach st.edges isStable p.1 w.node) →
            Reach (finish b st) anyLabel p.1 .stop := by
          rintro ⟨w, hw, hr⟩
          exact (anyOf _ (hr.mono hsub)).trans (toStop w ((pendingAll_of hkey).1 w hw))
        by_cases hk' : a.2.isWrite = true
        · exact viaWriter (ho.wr _ hlog hk')
        · have hread : a.2 = .read := by cases hh : a.2 <;> simp_all [Kind.isWrite]
          rcases ho.rd _ hlog hread with hin | hw
          · exact toStop ⟨.read, p.1⟩ ((pendingAll_of hkey).2 _ hin)
          · exact viaWriter hw
  have hget : ∃ x, b.instrs[i]? = some x := ⟨b.instrs[i], by simp [hi]⟩
  obtain ⟨x, hx⟩ := hget
  have hitem : ((Node.instr i, x) : Node × Instr) ∈ b.items := by
    unfold Block.items
    apply List.mem_append_left
    have := mem_enumFrom_of_getElem b.instrs 0 i x hx
    simpa using this
  exact ⟨fromStart _ _ hitem ⟨i, rfl⟩ (Nat.le_refl _), toEnd _ _ hitem ⟨i, rfl⟩ (Nat.le_refl _)⟩

/-- **C22, all blocks**: the three clauses together. -/
theorem C22_build_dagSpec (b : Block) (es : List Edge) (h : buildBlock b = .ok es) (hyp : Hyp b) :
    DagSpec b es :=
  ⟨(C22_forward b es h hyp).1, (C22_forward b es h hyp).2, fun hrf i hi => C22_connected b es h hyp hrf i hi⟩

/-! ### Composition with C26/C27/C28: no hypothesis about the handler -/

open QV.HandlerFromAst in
/-- **C22 for every AST program and every block of its control-flow graph.** The handler's answers are computed
from the AST (C27's and C26's proved models, the role table), the blocks by C28's proved model; `Hyp` is a theorem
(`schedBlock_hyp`). Whenever `build` succeeds the graph is a well-formed DAG, and if every RF-control instruction
of the block uses or blocks at least one DEFINED frame — by C26's specification `UsedBy` / `BlockedBy` — every
instruction node is reachable from the start and reaches the end. -/
theorem C22_ast_dagSpec (p : AProgram) (ab : ABlock) (hab : ab ∈ astBlocks p) (es : List Edge)
    (h : buildBlock (schedBlock p ab) = .ok es) :
    (∀ e ∈ es, Valid ab.instrs.length e.src ∧ Valid ab.instrs.length e.dst) ∧
    (∀ e ∈ es, e.src.pos ab.instrs.length < e.dst.pos ab.instrs.length) ∧
    (∀ u, ¬ Path1 es u u) ∧
    ((∀ i ∈ ab.instrs, role i = .rf → ∃ f k, FrameAccessA p i f k) → ∀ n, n < ab.instrs.length →
      Reach es anyLabel .start (.instr n) ∧ Reach es anyLabel (.instr n) .stop) := by
  have hyp : Hyp (schedBlock p ab) := schedBlock_hyp p ab hab
  have hspec := C22_build_dagSpec _ es h hyp
  have hlen : (schedBlock p ab).instrs.length = ab.instrs.length := by simp [schedBlock]
  refine ⟨by rw [← hlen]; exact hspec.valid, by rw [← hlen]; exact hspec.forward, fun u => ?_, ?_⟩
  · have := C22_acyclic _ es h hyp u
    exact this
  · intro hrf n hn
    apply hspec.connected _ n (by rw [hlen]; exact hn)
    intro ins hins hr
    simp only [schedBlock, List.mem_map] at hins
    obtain ⟨i, hi, rfl⟩ := hins
    obtain ⟨f, k, hf⟩ := hrf i hi (by simpa [answersOf, answersWith] using hr)
    intro hnil
    have := (mem_frameAccesses_answers p i (frameId p f, k)).2 ⟨f, rfl, hf⟩
    rw [hnil] at this
    simp at this

/-! ### The Bool checker -/

theorem C22_checker_sound (b : Block) (es : List Edge) (h : dagSpecB b es = true) : DagSpec b es := by
  simp only [dagSpecB, Bool.and_eq_true, List.all_eq_true, decide_eq_true_eq, Bool.or_eq_true,
    Bool.not_eq_true'] at h
  refine ⟨fun e he => ⟨(h.1 e he).1.1, (h.1 e he).1.2⟩, fun e he => (h.1 e he).2, ?_⟩
  intro hrf i hi
  rcases h.2 with h2 | h2
  · exfalso
    simp only [rfMatchesB, List.all_eq_false, Bool.or_eq_true, Bool.not_eq_true', decide_eq_false_iff_not,
      not_or, Bool.not_eq_false, decide_eq_true_eq, List.isEmpty_iff] at h2
    obtain ⟨x, hx, h3, h4⟩ := h2
    exact hrf x hx (Decidable.not_not.1 h3) h4
  · have := h2 i (List.mem_range.2 hi)
    exact ⟨reachFrom_sound (by simpa using this.1), reachFrom_sound (by simpa using this.2)⟩

theorem C22_hyp_checker (b : Block) (h : hypB b = true) : Hyp b := by
  simp only [hypB, Bool.and_eq_true, List.all_eq_true, decide_eq_true_eq] at h
  refine ⟨h.1, ?_⟩
  intro t ht
  have := h.2
  rw [ht] at this
  simpa using this

/-! ### Non-vacuity -/

private def exBlock : Block :=
  { instrs := [
      ⟨.classical, false, false, [], [0], [], none⟩,
      ⟨.rf, true, false, [0], [], [], some ([0], [1])⟩,
      ⟨.classical, false, false, [0], [1], [], none⟩,
      ⟨.rf, false, false, [], [], [1], some ([1], [])⟩,
      ⟨.classical, false, false, [], [], [], none⟩],
    term := some ⟨.controlFlow, false, false, [1], [], [], none⟩ }

example : hypB exBlock = true ∧ rfMatchesB exBlock = true := by decide

set_option maxRecDepth 8192 in
example : ∃ es, buildBlock exBlock = .ok es ∧ dagSpecB exBlock es = true ∧
    (⟨.instr 3, .stop, .await .capture⟩ : Edge) ∈ es ∧ (⟨.instr 4, .stop, .stable⟩ : Edge) ∈ es :=
  ⟨_, rfl, by decide, by decide, by decide⟩

set_option maxRecDepth 8192 in
/-- the checker rejects a backward edge and a disconnected instruction -/
example : ∃ es, buildBlock exBlock = .ok es ∧ dagSpecB exBlock (⟨.instr 3, .instr 1, .stable⟩ :: es) = false ∧
    dagSpecB exBlock (es.filter fun e => e.src ≠ .instr 4) = false :=
  ⟨_, rfl, by decide, by decide⟩

/-- without the hypothesis of clause (c) the conclusion can fail: an RF instruction matching no frame is
an isolated node -/
example : ∃ es, buildBlock ⟨[⟨.rf, true, false, [], [], [], some ([], [])⟩], none⟩ = .ok es ∧ es = [] :=
  ⟨_, rfl, by decide⟩

end QV.C22
