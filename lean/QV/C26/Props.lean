import QV.C26.Lemmas
/-
C26 — Default frame matching follows the Quil-T frame rules.

Property theorems only.  All statements quantify over EVERY program (any number of frames, any frame
names, any qubit lists with repetitions / variables, any `add_instruction` history) and EVERY
instruction; nothing is bounded.  The specification (`Correct`, `UsedBy`, `BlockedBy` in Spec.lean) is a
per-frame reading of the property's sentences; the model (`matchingFrames`, Model.lean) mirrors the
Rust condition builder + condition evaluator + `filter`.
-/
namespace QV.C26

/-! ### the condition evaluator and `filter`, for arbitrary conditions -/

/-- `get_matching_keys_for_condition` returns exactly the defined frames that satisfy the condition,
for every condition form at any nesting (`And []` matches nothing, as in the code). -/
theorem C26_getMatching_iff (frames : List Frame) (c : Cond) (f : Frame) :
    f ∈ getMatching frames c ↔ f ∈ frames ∧ Sat c f :=
  mem_getMatching frames f c

example : getMatching [⟨"a", [.fixed 0]⟩, ⟨"b", [.fixed 0, .fixed 1]⟩, ⟨"a", [.fixed 1]⟩]
    (.and [.anyOfQubits [.fixed 0], .or [.anyOfNames ["b"], .specific ⟨"a", [.fixed 1]⟩]])
    = [⟨"b", [.fixed 0, .fixed 1]⟩] := by decide

theorem C26_filter_used (frames : List Frame) (c : Conds) (f : Frame) :
    f ∈ (filter frames c).used ↔ ∃ cu, c.used = some cu ∧ f ∈ frames ∧ Sat cu f := by
  cases hc : c.used with
  | none => simp [filter, hc]
  | some cu => simp [filter, hc, mem_getMatching]

/-- `filter` removes from `blocked` exactly what is in `used` (the `!used.is_empty()` test is only an
optimisation). -/
theorem C26_filter_blocked (frames : List Frame) (c : Conds) (f : Frame) :
    f ∈ (filter frames c).blocked ↔
      (∃ cb, c.blocked = some cb ∧ f ∈ frames ∧ Sat cb f) ∧ f ∉ (filter frames c).used := by
  cases hb : c.blocked with
  | none => simp [filter, hb]
  | some cb =>
    cases hu : c.used with
    | none => simp [filter, hb, hu, mem_getMatching]
    | some cu =>
      simp only [filter, hb, hu]
      split
      · simp [mem_getMatching]
      · rename_i h
        have he : getMatching frames cu = [] := by simpa using h
        simp [he, mem_getMatching]

/-- `filter` never reports a frame as both used and blocked, whatever the two conditions are. -/
theorem C26_filter_disjoint (frames : List Frame) (c : Conds) (f : Frame)
    (hu : f ∈ (filter frames c).used) : f ∉ (filter frames c).blocked := by
  intro hb
  exact ((C26_filter_blocked frames c f).1 hb).2 hu

/-- everything `filter` reports is a key of the frame set -/
theorem C26_filter_defined (frames : List Frame) (c : Conds) (f : Frame)
    (h : f ∈ (filter frames c).used ∨ f ∈ (filter frames c).blocked) : f ∈ frames := by
  rcases h with h | h
  · obtain ⟨_, _, hf, _⟩ := (C26_filter_used frames c f).1 h; exact hf
  · obtain ⟨⟨_, _, hf, _⟩, _⟩ := (C26_filter_blocked frames c f).1 h; exact hf

/-! ### the main theorem: the default handler's answer is the specified one -/

private theorem used_of_cond {p : Prog} {i : Instr} {cs : Conds} {cu : Cond}
    (hc : defaultFrameMatchCondition (usedQubits p) i = some cs) (hu : cs.used = some cu)
    (hsat : ∀ f, Sat cu f ↔ UsedBy (usedQubits p) i f) :
    ∀ m, matchingFrames p i = some m → ∀ f, f ∈ m.used ↔ f ∈ p.frames ∧ UsedBy (usedQubits p) i f := by
  intro m hm f
  simp only [matchingFrames, hc, Option.map_some, Option.some.injEq] at hm
  subst hm
  rw [C26_filter_used]
  simp [hu, hsat]

private theorem blocked_none {p : Prog} {i : Instr} {cs : Conds}
    (hc : defaultFrameMatchCondition (usedQubits p) i = some cs) (hb : cs.blocked = none)
    (hspec : ∀ f, ¬ BlockedBy (usedQubits p) i f) :
    ∀ m, matchingFrames p i = some m → ∀ f, f ∈ m.blocked ↔ f ∈ p.frames ∧ BlockedBy (usedQubits p) i f := by
  intro m hm f
  simp only [matchingFrames, hc, Option.map_some, Option.some.injEq] at hm
  subst hm
  rw [C26_filter_blocked]
  simp [hb, hspec]

private theorem blocked_some {p : Prog} {i : Instr} {cs : Conds} {cu cb : Cond}
    (hc : defaultFrameMatchCondition (usedQubits p) i = some cs) (hu : cs.used = some cu)
    (hb : cs.blocked = some cb)
    (hspec : ∀ f, (Sat cb f ∧ ¬ Sat cu f) ↔ BlockedBy (usedQubits p) i f) :
    ∀ m, matchingFrames p i = some m → ∀ f, f ∈ m.blocked ↔ f ∈ p.frames ∧ BlockedBy (usedQubits p) i f := by
  intro m hm f
  simp only [matchingFrames, hc, Option.map_some, Option.some.injEq] at hm
  subst hm
  rw [C26_filter_blocked, C26_filter_used]
  simp only [hb, hu, Option.some.injEq, exists_eq_left']
  rw [← hspec f]
  constructor
  · rintro ⟨⟨h1, h2⟩, h3⟩; exact ⟨h1, h2, fun h => h3 ⟨h1, h⟩⟩
  · rintro ⟨h1, h2, h3⟩; exact ⟨⟨h1, h2⟩, fun h => h3 h.2⟩

private theorem disjoint_all (p : Prog) (i : Instr) :
    ∀ m, matchingFrames p i = some m → ∀ f, f ∈ m.used → f ∉ m.blocked := by
  intro m hm f
  cases hc : defaultFrameMatchCondition (usedQubits p) i with
  | none => simp [matchingFrames, hc] at hm
  | some cs =>
    simp only [matchingFrames, hc, Option.map_some, Option.some.injEq] at hm
    subst hm
    exact C26_filter_disjoint _ _ _

private theorem sat_specific (fr f : Frame) : Sat (.specific fr) f ↔ f = fr := by simp [Sat]

private theorem pulseLike (p : Prog) (i : Instr) (blocking : Bool) (fr : Frame)
    (hc : defaultFrameMatchCondition (usedQubits p) i =
      some { blocked := if blocking then some (.anyOfQubits fr.qubits) else none, used := some (.specific fr) })
    (hU : ∀ f, UsedBy (usedQubits p) i f ↔ f = fr)
    (hB : ∀ f, BlockedBy (usedQubits p) i f ↔ (blocking = true ∧ f ≠ fr ∧ Touches f fr.qubits))
    (hF : IsFrameInstr i) : Correct p i (matchingFrames p i) := by
  refine ⟨?_, ?_, ?_, disjoint_all p i⟩
  · simp [matchingFrames, hc, hF]
  · exact used_of_cond hc rfl (fun f => by rw [sat_specific, hU])
  · cases blocking with
    | false => exact blocked_none hc rfl (fun f => by simp [hB])
    | true =>
      exact blocked_some hc rfl rfl (fun f => by
        rw [hB, sat_specific]; simp only [Sat, true_and]
        constructor
        · rintro ⟨h1, h2⟩; exact ⟨h2, h1⟩
        · rintro ⟨h1, h2⟩; exact ⟨h2, h1⟩)

private theorem updateLike (p : Prog) (i : Instr) (fr : Frame)
    (hc : defaultFrameMatchCondition (usedQubits p) i = some { used := some (.specific fr), blocked := none })
    (hU : ∀ f, UsedBy (usedQubits p) i f ↔ f = fr)
    (hB : ∀ f, ¬ BlockedBy (usedQubits p) i f)
    (hF : IsFrameInstr i) : Correct p i (matchingFrames p i) := by
  refine ⟨?_, ?_, ?_, disjoint_all p i⟩
  · simp [matchingFrames, hc, hF]
  · exact used_of_cond hc rfl (fun f => by rw [sat_specific, hU])
  · exact blocked_none hc rfl hB

private theorem noneLike (p : Prog) (i : Instr)
    (hc : defaultFrameMatchCondition (usedQubits p) i = none) (hF : ¬ IsFrameInstr i) :
    Correct p i (matchingFrames p i) := by
  refine ⟨?_, ?_, ?_, ?_⟩ <;> simp [matchingFrames, hc, hF]

private theorem resetLike (p : Prog) (i : Instr) (qs : List Qubit)
    (hc : defaultFrameMatchCondition (usedQubits p) i =
      some { used := some (.exactQubits qs), blocked := some (.anyOfQubits qs) })
    (hU : ∀ f, UsedBy (usedQubits p) i f ↔ OnExactly f qs)
    (hB : ∀ f, BlockedBy (usedQubits p) i f ↔ (Touches f qs ∧ ¬ OnExactly f qs))
    (hF : IsFrameInstr i) : Correct p i (matchingFrames p i) := by
  refine ⟨?_, ?_, ?_, disjoint_all p i⟩
  · simp [matchingFrames, hc, hF]
  · exact used_of_cond hc rfl (fun f => by rw [hU]; simp [Sat])
  · exact blocked_some hc rfl rfl (fun f => by rw [hB]; simp [Sat])

/-- **C26 (full statement).**  For every program and every instruction, what
`DefaultHandler::matching_frames` reports is exactly what the Quil-T frame rules prescribe: `None`
iff the instruction is not a frame instruction; otherwise `used` / `blocked` are exactly the defined
frames that the instruction uses / blocks (per `UsedBy` / `BlockedBy`), and the two never overlap. -/
theorem C26_matchingFrames_correct (p : Prog) (i : Instr) : Correct p i (matchingFrames p i) := by
  cases i with
  | pulse b fr =>
    exact pulseLike p _ b fr rfl (fun f => by simp [UsedBy]) (fun f => by cases b <;> simp [BlockedBy]) trivial
  | capture b fr =>
    exact pulseLike p _ b fr rfl (fun f => by simp [UsedBy]) (fun f => by cases b <;> simp [BlockedBy]) trivial
  | rawCapture b fr =>
    exact pulseLike p _ b fr rfl (fun f => by simp [UsedBy]) (fun f => by cases b <;> simp [BlockedBy]) trivial
  | setFrequency fr => exact updateLike p _ fr rfl (fun f => by simp [UsedBy]) (fun f => by simp [BlockedBy]) trivial
  | setPhase fr => exact updateLike p _ fr rfl (fun f => by simp [UsedBy]) (fun f => by simp [BlockedBy]) trivial
  | setScale fr => exact updateLike p _ fr rfl (fun f => by simp [UsedBy]) (fun f => by simp [BlockedBy]) trivial
  | shiftFrequency fr => exact updateLike p _ fr rfl (fun f => by simp [UsedBy]) (fun f => by simp [BlockedBy]) trivial
  | shiftPhase fr => exact updateLike p _ fr rfl (fun f => by simp [UsedBy]) (fun f => by simp [BlockedBy]) trivial
  | swapPhases f1 f2 =>
    refine ⟨by simp [matchingFrames, defaultFrameMatchCondition, IsFrameInstr], ?_, ?_, disjoint_all p _⟩
    · exact used_of_cond (cu := .or [.specific f1, .specific f2]) rfl rfl
        (fun f => by simp [Sat, SatAny, UsedBy])
    · exact blocked_none (cs := { used := some (.or [.specific f1, .specific f2]), blocked := none }) rfl rfl
        (fun f => by simp [BlockedBy])
  | fence qs =>
    refine ⟨by simp [matchingFrames, defaultFrameMatchCondition, IsFrameInstr], ?_, ?_, disjoint_all p _⟩
    · cases qs with
      | nil => exact used_of_cond (cu := .all) rfl rfl (fun f => by simp [Sat, UsedBy])
      | cons q qs =>
        exact used_of_cond (cu := .anyOfQubits (q :: qs)) rfl rfl (fun f => by simp [Sat, UsedBy])
    · exact blocked_none (cs := { used := some (if qs.isEmpty then .all else .anyOfQubits qs), blocked := none })
        rfl rfl (fun f => by simp [BlockedBy])
  | delay names qs =>
    refine ⟨by simp [matchingFrames, defaultFrameMatchCondition, IsFrameInstr], ?_, ?_, disjoint_all p _⟩
    · cases names with
      | nil => exact used_of_cond (cu := .exactQubits qs) rfl rfl (fun f => by simp [Sat, UsedBy])
      | cons n ns =>
        exact used_of_cond (cu := .and [.exactQubits qs, .anyOfNames (n :: ns)]) rfl rfl
          (fun f => by simp [Sat, SatAll, UsedBy])
    · exact blocked_none
        (cs := { used := some (if names.isEmpty then .exactQubits qs
                               else .and [.exactQubits qs, .anyOfNames names]), blocked := none })
        rfl rfl (fun f => by simp [BlockedBy])
  | reset q =>
    cases q with
    | some q =>
      exact resetLike p _ [q] rfl (fun f => by simp [UsedBy]) (fun f => by simp [BlockedBy]) trivial
    | none =>
      exact resetLike p _ (usedQubits p) rfl (fun f => by simp [UsedBy]) (fun f => by simp [BlockedBy]) trivial
  | gate qs => exact noneLike p _ rfl (by simp [IsFrameInstr])
  | measure q => exact noneLike p _ rfl (by simp [IsFrameInstr])
  | defcal qs body => exact noneLike p _ rfl (by simp [IsFrameInstr])
  | defcalMeasure q body => exact noneLike p _ rfl (by simp [IsFrameInstr])
  | other => exact noneLike p _ rfl (by simp [IsFrameInstr])

/-! ### the statement's first sentence, spelled out -/

/-- used and blocked frames never overlap -/
theorem C26_used_blocked_disjoint (p : Prog) (i : Instr) (m : Matched)
    (h : matchingFrames p i = some m) (f : Frame) : ¬ (f ∈ m.used ∧ f ∈ m.blocked) :=
  fun ⟨hu, hb⟩ => (C26_matchingFrames_correct p i).disjoint m h f hu hb

/-- used and blocked frames are defined in the program -/
theorem C26_reported_frames_defined (p : Prog) (i : Instr) (m : Matched)
    (h : matchingFrames p i = some m) (f : Frame) (hf : f ∈ m.used ∨ f ∈ m.blocked) : f ∈ p.frames := by
  rcases hf with hf | hf
  · exact (((C26_matchingFrames_correct p i).used m h f).1 hf).1
  · exact (((C26_matchingFrames_correct p i).blocked m h f).1 hf).1

private theorem nodup_ite {b : List Frame} (hb : b.Nodup) (c : Prop) [Decidable c] (q : Frame → Bool) :
    (if c then b.filter q else b).Nodup := by
  split
  · exact List.Nodup.sublist List.filter_sublist hb
  · exact hb

/-- the reported collections are sets (no repetitions) whenever the frame keys are (a `HashMap`'s are) -/
theorem C26_reported_nodup (p : Prog) (i : Instr) (m : Matched) (hn : p.frames.Nodup)
    (h : matchingFrames p i = some m) : m.used.Nodup ∧ m.blocked.Nodup := by
  cases hc : defaultFrameMatchCondition (usedQubits p) i with
  | none => simp [matchingFrames, hc] at h
  | some cs =>
    simp only [matchingFrames, hc, Option.map_some, Option.some.injEq] at h
    subst h
    constructor
    · simp only [filter]
      cases cs.used with
      | none => simp
      | some cu => exact nodup_getMatching _ hn cu
    · simp only [filter]
      cases cs.blocked with
      | none => simp
      | some cb =>
        exact nodup_ite (nodup_getMatching _ hn cb) _ _

/-- The specification determines the answer: any result satisfying `Correct` has the same used and
blocked *sets* as the model's (so the spec is neither weaker nor looser than the model). -/
theorem C26_correct_unique (p : Prog) (i : Instr) (r : Option Matched) (h : Correct p i r) :
    (r.isSome = (matchingFrames p i).isSome) ∧
    ∀ m m', r = some m → matchingFrames p i = some m' →
      (∀ f, f ∈ m.used ↔ f ∈ m'.used) ∧ (∀ f, f ∈ m.blocked ↔ f ∈ m'.blocked) := by
  have h' := C26_matchingFrames_correct p i
  constructor
  · have a := h.some_iff
    have b := h'.some_iff
    cases hr : r.isSome <;> cases hm : (matchingFrames p i).isSome <;> simp_all
  · intro m m' hr hm
    exact ⟨fun f => by rw [h.used m hr f, h'.used m' hm f],
           fun f => by rw [h.blocked m hr f, h'.blocked m' hm f]⟩

/-! ### the Bool checker run on the implementation's output is the specification -/

private theorem usedByB_iff (avail : List Qubit) (i : Instr) (f : Frame) :
    usedByB avail i f = true ↔ UsedBy avail i f := by
  cases i with
  | fence qs => cases qs <;> simp [usedByB, UsedBy, touchesB_iff]
  | delay names qs => cases names <;> simp [usedByB, UsedBy, onExactlyB_iff]
  | reset q => cases q <;> simp [usedByB, UsedBy, onExactlyB_iff]
  | _ => simp [usedByB, UsedBy]

private theorem onExactlyB_false_iff (f : Frame) (qs : List Qubit) :
    onExactlyB f qs = false ↔ ¬ OnExactly f qs := by
  rw [← onExactlyB_iff]; simp

private theorem blockedByB_iff (avail : List Qubit) (i : Instr) (f : Frame) :
    blockedByB avail i f = true ↔ BlockedBy avail i f := by
  cases i with
  | pulse b fr => cases b <;> simp [blockedByB, BlockedBy, touchesB_iff]
  | capture b fr => cases b <;> simp [blockedByB, BlockedBy, touchesB_iff]
  | rawCapture b fr => cases b <;> simp [blockedByB, BlockedBy, touchesB_iff]
  | reset q => cases q <;> simp [blockedByB, BlockedBy, touchesB_iff, onExactlyB_false_iff]
  | _ => simp [blockedByB, BlockedBy]

private theorem isFrameInstrB_iff (i : Instr) : isFrameInstrB i = true ↔ IsFrameInstr i := by
  cases i <;> simp [isFrameInstrB, IsFrameInstr]

private theorem exactlyB_iff (defined l : List Frame) (pb : Frame → Bool) (P : Frame → Prop)
    (hp : ∀ f, pb f = true ↔ P f) :
    exactlyB defined l pb = true ↔ ∀ f, f ∈ l ↔ f ∈ defined ∧ P f := by
  simp only [exactlyB, Bool.and_eq_true, List.all_eq_true, List.contains_iff_mem, Bool.or_eq_true,
    Bool.not_eq_true', decide_eq_true_eq]
  constructor
  · rintro ⟨h1, h2⟩ f
    constructor
    · intro hf; exact ⟨(h1 f hf).1, (hp f).1 (h1 f hf).2⟩
    · rintro ⟨hd, hP⟩
      rcases h2 f hd with h | h
      · rw [(hp f).2 hP] at h; cases h
      · exact h
  · intro h
    constructor
    · intro f hf; exact ⟨((h f).1 hf).1, (hp f).2 ((h f).1 hf).2⟩
    · intro f hd
      cases hb : pb f with
      | false => exact Or.inl rfl
      | true => exact Or.inr ((h f).2 ⟨hd, (hp f).1 hb⟩)

/-- `checkB` (evaluated by the driver on the IMPLEMENTATION's reported sets) decides `Correct`. -/
theorem C26_checkB_iff (p : Prog) (i : Instr) (r : Option Matched) :
    checkB p i r = true ↔ Correct p i r := by
  cases r with
  | none =>
    simp only [checkB, Option.isSome_none, Bool.and_true, beq_iff_eq]
    constructor
    · intro h
      refine ⟨?_, by simp, by simp, by simp⟩
      rw [← isFrameInstrB_iff, ← h]; simp
    · intro h
      have := h.some_iff
      rw [← isFrameInstrB_iff] at this
      cases hb : isFrameInstrB i <;> simp_all
  | some m =>
    simp only [checkB, Option.isSome_some, Bool.and_eq_true, beq_iff_eq,
      exactlyB_iff _ _ _ _ (usedByB_iff (usedQubits p) i),
      exactlyB_iff _ _ _ _ (blockedByB_iff (usedQubits p) i), List.all_eq_true,
      Bool.not_eq_true', List.contains_eq_mem, decide_eq_false_iff_not]
    constructor
    · rintro ⟨hs, ⟨hu, hb⟩, hd⟩
      refine ⟨?_, ?_, ?_, ?_⟩
      · rw [← isFrameInstrB_iff, ← hs]; simp
      · intro m' e; cases e; exact hu
      · intro m' e; cases e; exact hb
      · intro m' e; cases e; exact hd
    · intro h
      refine ⟨?_, ⟨h.used m rfl, h.blocked m rfl⟩, h.disjoint m rfl⟩
      have := h.some_iff
      rw [← isFrameInstrB_iff] at this
      cases hb : isFrameInstrB i <;> simp_all

/-- hence the model's own output always passes the checker -/
theorem C26_checkB_model (p : Prog) (i : Instr) : checkB p i (matchingFrames p i) = true :=
  (C26_checkB_iff p i _).2 (C26_matchingFrames_correct p i)

/-! ### the program's used qubits (what RESET without a qubit depends on) -/

/-- a qubit is "used by the program" iff some instruction ever added mentions it (directly, or — for
calibration definitions — in the header or anywhere in the body, at any nesting depth) -/
inductive Mentions : Instr → Qubit → Prop
  | gate {qs q} : q ∈ qs → Mentions (.gate qs) q
  | measure {q} : Mentions (.measure q) q
  | reset {q} : Mentions (.reset (some q)) q
  | delay {ns qs q} : q ∈ qs → Mentions (.delay ns qs) q
  | fence {qs q} : q ∈ qs → Mentions (.fence qs) q
  | pulse {b f q} : q ∈ f.qubits → Mentions (.pulse b f) q
  | capture {b f q} : q ∈ f.qubits → Mentions (.capture b f) q
  | rawCapture {b f q} : q ∈ f.qubits → Mentions (.rawCapture b f) q
  | setFrequency {f q} : q ∈ f.qubits → Mentions (.setFrequency f) q
  | setPhase {f q} : q ∈ f.qubits → Mentions (.setPhase f) q
  | setScale {f q} : q ∈ f.qubits → Mentions (.setScale f) q
  | shiftFrequency {f q} : q ∈ f.qubits → Mentions (.shiftFrequency f) q
  | shiftPhase {f q} : q ∈ f.qubits → Mentions (.shiftPhase f) q
  | swapPhases1 {f1 f2 q} : q ∈ f1.qubits → Mentions (.swapPhases f1 f2) q
  | swapPhases2 {f1 f2 q} : q ∈ f2.qubits → Mentions (.swapPhases f1 f2) q
  | defcalHead {qs body q} : q ∈ qs → Mentions (.defcal qs body) q
  | defcalBody {qs body j q} : j ∈ body → Mentions j q → Mentions (.defcal qs body) q
  | defcalMeasureHead {q body} : Mentions (.defcalMeasure q body) q
  | defcalMeasureBody {q' body j q} : j ∈ body → Mentions j q → Mentions (.defcalMeasure q' body) q

mutual
private theorem mem_getQubits : (i : Instr) → (q : Qubit) → (q ∈ getQubits i ↔ Mentions i q)
  | .gate qs, q => by simp only [getQubits]; exact ⟨.gate, fun h => by cases h; assumption⟩
  | .measure q', q => by
      simp only [getQubits, List.mem_singleton]
      exact ⟨fun h => h ▸ .measure, fun h => by cases h; rfl⟩
  | .reset (some q'), q => by
      simp only [getQubits, List.mem_singleton]
      exact ⟨fun h => h ▸ .reset, fun h => by cases h; rfl⟩
  | .reset none, q => by simp only [getQubits]; exact ⟨fun h => by simp at h, fun h => by cases h⟩
  | .delay ns qs, q => by simp only [getQubits]; exact ⟨.delay, fun h => by cases h; assumption⟩
  | .fence qs, q => by simp only [getQubits]; exact ⟨.fence, fun h => by cases h; assumption⟩
  | .pulse b f, q => by simp only [getQubits]; exact ⟨.pulse, fun h => by cases h; assumption⟩
  | .capture b f, q => by simp only [getQubits]; exact ⟨.capture, fun h => by cases h; assumption⟩
  | .rawCapture b f, q => by simp only [getQubits]; exact ⟨.rawCapture, fun h => by cases h; assumption⟩
  | .defcal qs body, q => by
      simp only [getQubits, List.mem_append, mem_getQubitsAll body q]
      constructor
      · rintro (h | ⟨j, hj, hm⟩)
        · exact .defcalHead h
        · exact .defcalBody hj hm
      · intro h
        cases h with
        | defcalHead h => exact Or.inl h
        | defcalBody hj hm => exact Or.inr ⟨_, hj, hm⟩
  | .defcalMeasure q' body, q => by
      simp only [getQubits, List.mem_cons, mem_getQubitsAll body q]
      constructor
      · rintro (h | ⟨j, hj, hm⟩)
        · exact h ▸ .defcalMeasureHead
        · exact .defcalMeasureBody hj hm
      · intro h
        cases h with
        | defcalMeasureHead => exact Or.inl rfl
        | defcalMeasureBody hj hm => exact Or.inr ⟨_, hj, hm⟩
  | .setFrequency f, q => by simp only [getQubits]; exact ⟨.setFrequency, fun h => by cases h; assumption⟩
  | .setPhase f, q => by simp only [getQubits]; exact ⟨.setPhase, fun h => by cases h; assumption⟩
  | .setScale f, q => by simp only [getQubits]; exact ⟨.setScale, fun h => by cases h; assumption⟩
  | .shiftFrequency f, q => by simp only [getQubits]; exact ⟨.shiftFrequency, fun h => by cases h; assumption⟩
  | .shiftPhase f, q => by simp only [getQubits]; exact ⟨.shiftPhase, fun h => by cases h; assumption⟩
  | .swapPhases f1 f2, q => by
      simp only [getQubits, List.mem_append]
      constructor
      · rintro (h | h)
        · exact .swapPhases1 h
        · exact .swapPhases2 h
      · intro h
        cases h with
        | swapPhases1 h => exact Or.inl h
        | swapPhases2 h => exact Or.inr h
  | .other, q => by
      simp only [getQubits]; exact ⟨fun h => by simp at h, fun h => by cases h⟩
private theorem mem_getQubitsAll : (is : List Instr) → (q : Qubit) →
    (q ∈ getQubitsAll is ↔ ∃ j, j ∈ is ∧ Mentions j q)
  | [], q => by simp [getQubitsAll]
  | i :: is, q => by
      simp only [getQubitsAll, List.mem_append, mem_getQubits i q, mem_getQubitsAll is q, List.mem_cons]
      constructor
      · rintro (h | ⟨j, hj, hm⟩)
        · exact ⟨i, Or.inl rfl, h⟩
        · exact ⟨j, Or.inr hj, hm⟩
      · rintro ⟨j, rfl | hj, hm⟩
        · exact Or.inl hm
        · exact Or.inr ⟨j, hj, hm⟩
end

/-- `get_used_qubits` of a program built through `add_instruction` = the qubits mentioned by what was
added (any number of instructions, calibration bodies of any depth). -/
theorem C26_usedQubits_iff (p : Prog) (q : Qubit) :
    q ∈ usedQubits p ↔ ∃ j, j ∈ p.added ∧ Mentions j q :=
  mem_getQubitsAll p.added q

/-! ### non-vacuity: concrete consequences on a three-frame program -/

private def fa0 : Frame := ⟨"a", [.fixed 0]⟩
private def fb01 : Frame := ⟨"b", [.fixed 0, .fixed 1]⟩
private def fa1 : Frame := ⟨"a", [.fixed 1]⟩
private def prog3 : Prog := { frames := [fa0, fb01, fa1], added := [.gate [.fixed 0], .gate [.fixed 1]] }

example : matchingFrames prog3 (.pulse true fa0) = some ⟨[fa0], [fb01]⟩ := by decide
example : matchingFrames prog3 (.pulse false fa0) = some ⟨[fa0], []⟩ := by decide
-- an undefined frame is not reported as used, but a blocking pulse on it still blocks its neighbours
example : matchingFrames prog3 (.pulse true ⟨"c", [.fixed 1]⟩) = some ⟨[], [fb01, fa1]⟩ := by decide
example : matchingFrames prog3 (.swapPhases fa0 fa1) = some ⟨[fa0, fa1], []⟩ := by decide
example : matchingFrames prog3 (.swapPhases fa0 fa0) = some ⟨[fa0], []⟩ := by decide
example : matchingFrames prog3 (.fence []) = some ⟨[fa0, fb01, fa1], []⟩ := by decide
example : matchingFrames prog3 (.fence [.fixed 1]) = some ⟨[fb01, fa1], []⟩ := by decide
example : matchingFrames prog3 (.delay [] [.fixed 1, .fixed 0]) = some ⟨[fb01], []⟩ := by decide
example : matchingFrames prog3 (.delay ["a"] [.fixed 0]) = some ⟨[fa0], []⟩ := by decide
example : matchingFrames prog3 (.delay ["b"] [.fixed 0]) = some ⟨[], []⟩ := by decide
example : matchingFrames prog3 (.reset (some (.fixed 0))) = some ⟨[fa0], [fb01]⟩ := by decide
-- RESET without a qubit: the program uses qubits {0,1}
example : matchingFrames prog3 (.reset none) = some ⟨[fb01], [fa0, fa1]⟩ := by decide
example : matchingFrames prog3 (.gate [.fixed 0]) = none := by decide
example : Correct prog3 (.reset none) (some ⟨[fb01], [fa1, fa0]⟩) := by
  rw [← C26_checkB_iff]; decide
example : ¬ Correct prog3 (.reset none) (some ⟨[fb01], [fa0]⟩) := by
  rw [← C26_checkB_iff]; decide

end QV.C26
