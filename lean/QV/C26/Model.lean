/-
C26 model: default frame matching.

  * `Instruction::default_frame_match_condition`  quil-rs/src/instruction/mod.rs:581-685
  * `FrameSet::filter`                            quil-rs/src/program/frame.rs:49-65
  * `FrameSet::get_matching_keys_for_condition`   quil-rs/src/program/frame.rs:70-106
  * `DefaultHandler::matching_frames`             quil-rs/src/instruction/mod.rs:977-985
  * `Instruction::get_qubits` + `Program::add_instruction`'s `used_qubits.extend(..)`
                                                  quil-rs/src/instruction/mod.rs:689-725, program/mod.rs:241

`HashSet`s / the `HashMap`'s key set are lists here; every comparison the Rust code makes between
sets is a set comparison (`sameSet`), every `collect::<HashSet<_>>()` of possibly repeated elements
is `dedup`.  The driver compares results as sorted lists.
-/
namespace QV.C26

/-- `Qubit` (quil-rs/src/instruction/qubit.rs).  A placeholder is identified by the address of its
`Arc` (`Eq`/`Hash`/`Ord` all go through `address()`); the harness numbers the distinct placeholders of a
case by first occurrence, so `ph k = ph k'` iff they are the same `Arc`. -/
inductive Qubit where
  | fixed (n : Nat)
  | var (s : String)
  | ph (k : Nat)
  deriving DecidableEq, Repr

/-- `FrameIdentifier { name, qubits }`: `Eq`/`Hash` are derived, so the qubit *list* (order,
repetitions) is part of the identity. -/
structure Frame where
  name : String
  qubits : List Qubit
  deriving DecidableEq, Repr

/-- `FrameMatchCondition` (frame.rs:188-209). -/
inductive Cond where
  | all
  | anyOfNames (names : List String)
  | anyOfQubits (qs : List Qubit)
  | exactQubits (qs : List Qubit)
  | specific (f : Frame)
  | and (cs : List Cond)
  | or (cs : List Cond)

/-- `FrameMatchConditions { used, blocked }` (frame.rs:216-231). -/
structure Conds where
  used : Option Cond
  blocked : Option Cond

/-- `MatchedFrames { blocked, used }` (frame.rs:238-248). -/
structure Matched where
  used : List Frame
  blocked : List Frame
  deriving DecidableEq, Repr

/-- list-as-set inclusion -/
def subset {α} [DecidableEq α] (a b : List α) : Bool := a.all (fun x => b.contains x)

/-- `HashSet == HashSet` -/
def sameSet {α} [DecidableEq α] (a b : List α) : Bool := subset a b && subset b a

/-- `collect::<HashSet<_>>()`: keep the first occurrence of each element. -/
def dedup {α} [DecidableEq α] : List α → List α
  | [] => []
  | x :: xs => if (dedup xs).contains x then dedup xs else x :: dedup xs

/-- `.reduce(|acc, el| acc.into_iter().filter(|&v| el.contains(v)).collect()).unwrap_or_default()`
(frame.rs:99-100): the empty conjunction matches NOTHING. -/
def reduceInter : List (List Frame) → List Frame
  | [] => []
  | s :: rest => rest.foldl (fun acc el => acc.filter (fun v => el.contains v)) s

mutual
/-- `FrameSet::get_matching_keys_for_condition` (frame.rs:70-106); `frames` = the key set. -/
def getMatching (frames : List Frame) : Cond → List Frame
  | .all => frames
  | .anyOfNames names => frames.filter (fun f => names.contains f.name)
  | .anyOfQubits qs => frames.filter (fun f => f.qubits.any (fun q => qs.contains q))
  | .exactQubits qs => frames.filter (fun f => sameSet f.qubits qs)
  | .specific fr => if frames.contains fr then [fr] else []
  | .and cs => reduceInter (getMatchingEach frames cs)
  | .or cs => dedup (getMatchingEach frames cs).flatten
/-- `conditions.into_iter().map(|c| self.get_matching_keys_for_condition(c))` -/
def getMatchingEach (frames : List Frame) : List Cond → List (List Frame)
  | [] => []
  | c :: cs => getMatching frames c :: getMatchingEach frames cs
end

/-- `FrameSet::filter` (frame.rs:49-65). -/
def filter (frames : List Frame) (c : Conds) : Matched :=
  let used := match c.used with
    | none => []
    | some cu => getMatching frames cu
  let blocked := match c.blocked with
    | none => []
    | some cb =>
      let b := getMatching frames cb
      if !used.isEmpty then b.filter (fun f => !used.contains f) else b
  { used := used, blocked := blocked }

/-- Instructions, projected to what frame matching and `get_qubits` look at.  `other` stands for every
instruction kind that neither matches frames nor carries qubits (classical, control flow,
declarations, DEFFRAME, DEFWAVEFORM, DEFGATE, DEFCIRCUIT, PRAGMA, …). -/
inductive Instr where
  | pulse (blocking : Bool) (f : Frame)
  | capture (blocking : Bool) (f : Frame)
  | rawCapture (blocking : Bool) (f : Frame)
  | delay (names : List String) (qs : List Qubit)
  | fence (qs : List Qubit)
  | reset (q : Option Qubit)
  | setFrequency (f : Frame)
  | setPhase (f : Frame)
  | setScale (f : Frame)
  | shiftFrequency (f : Frame)
  | shiftPhase (f : Frame)
  | swapPhases (f1 f2 : Frame)
  | gate (qs : List Qubit)
  | measure (q : Qubit)
  | defcal (qs : List Qubit) (body : List Instr)
  | defcalMeasure (q : Qubit) (body : List Instr)
  | other

/-- `Instruction::default_frame_match_condition` (mod.rs:581-685); `avail` = `qubits_available`. -/
def defaultFrameMatchCondition (avail : List Qubit) : Instr → Option Conds
  | .pulse blocking f | .capture blocking f | .rawCapture blocking f =>
    some { blocked := if blocking then some (.anyOfQubits f.qubits) else none,
           used := some (.specific f) }
  | .delay names qs =>
    some { used := some (if names.isEmpty then .exactQubits qs
                         else .and [.exactQubits qs, .anyOfNames names]),
           blocked := none }
  | .fence qs =>
    some { used := some (if qs.isEmpty then .all else .anyOfQubits qs), blocked := none }
  | .reset q =>
    let qubits := match q with
      | some q => [q]
      | none => avail
    some { used := some (.exactQubits qubits), blocked := some (.anyOfQubits qubits) }
  | .setFrequency f | .setPhase f | .setScale f | .shiftFrequency f | .shiftPhase f =>
    some { used := some (.specific f), blocked := none }
  | .swapPhases f1 f2 =>
    some { used := some (.or [.specific f1, .specific f2]), blocked := none }
  | .gate _ | .measure _ | .defcal _ _ | .defcalMeasure _ _ | .other => none

mutual
/-- `Instruction::get_qubits` (mod.rs:689-736; the frame-update and SWAP-PHASES arms were added by
`fix:` commit a86534e). -/
def getQubits : Instr → List Qubit
  | .gate qs => qs
  | .defcal qs body => qs ++ getQubitsAll body
  | .defcalMeasure q body => q :: getQubitsAll body
  | .measure q => [q]
  | .reset (some q) => [q]
  | .reset none => []
  | .delay _ qs => qs
  | .fence qs => qs
  | .capture _ f => f.qubits
  | .pulse _ f => f.qubits
  | .rawCapture _ f => f.qubits
  | .setFrequency f | .setPhase f | .setScale f | .shiftFrequency f | .shiftPhase f => f.qubits
  | .swapPhases f1 f2 => f1.qubits ++ f2.qubits
  | .other => []
/-- `instructions.iter().flat_map(|inst| inst.get_qubits())` -/
def getQubitsAll : List Instr → List Qubit
  | [] => []
  | i :: is => getQubits i ++ getQubitsAll is
end

/-- A program as far as frame matching is concerned: the DEFFRAME keys, and every instruction that
was ever passed to `add_instruction` (each one extends `used_qubits` by its `get_qubits`,
program/mod.rs:241-242). -/
structure Prog where
  frames : List Frame
  added : List Instr

/-- `Program::get_used_qubits` for a program built by `add_instruction` calls. -/
def usedQubits (p : Prog) : List Qubit := getQubitsAll p.added

/-- `DefaultHandler::matching_frames` (mod.rs:977-985). -/
def matchingFrames (p : Prog) (i : Instr) : Option Matched :=
  (defaultFrameMatchCondition (usedQubits p) i).map (filter p.frames)

end QV.C26
