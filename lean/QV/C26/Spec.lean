import QV.C26.Model
/-
C26 specification, written from the property's sentences and NOT from the match arms / condition
evaluator:

  "For every program and instruction, the frames the default handler reports as used and blocked are
   defined in the program and never overlap.  A pulse or capture uses exactly its own frame and, if
   blocking, blocks every other frame sharing a qubit with it; frame updates and SWAP-PHASES use
   exactly their frames.  FENCE uses all frames (or those on its qubits), DELAY uses frames on exactly
   its qubits (restricted to its frame names if given), and RESET of a qubit uses frames on exactly
   that qubit and blocks the others touching it."

Each sentence is a predicate on ONE frame `f` of the program ("`f` is used / blocked by `i`"); the
reported sets must be exactly the defined frames satisfying it.  RESET without a qubit is not
mentioned by the statement; the documented reading (Quil: "RESET resets all qubits"; quil-rs: the
qubits the program uses) is: it plays on the frames on exactly the program's used qubits and blocks
every other frame touching one of them.
-/
namespace QV.C26

/-- the frame's qubits, as a set, are exactly `qs` -/
def OnExactly (f : Frame) (qs : List Qubit) : Prop := ∀ q, q ∈ f.qubits ↔ q ∈ qs

/-- the frame involves at least one qubit of `qs` -/
def Touches (f : Frame) (qs : List Qubit) : Prop := ∃ q, q ∈ f.qubits ∧ q ∈ qs

/-- "frame `f` is used by instruction `i`" in a program whose used qubits are `avail`. -/
def UsedBy (avail : List Qubit) : Instr → Frame → Prop
  | .pulse _ fr, f | .capture _ fr, f | .rawCapture _ fr, f => f = fr
  | .setFrequency fr, f | .setPhase fr, f | .setScale fr, f
  | .shiftFrequency fr, f | .shiftPhase fr, f => f = fr
  | .swapPhases f1 f2, f => f = f1 ∨ f = f2
  | .fence [], _ => True
  | .fence (q :: qs), f => Touches f (q :: qs)
  | .delay [] qs, f => OnExactly f qs
  | .delay (n :: ns) qs, f => OnExactly f qs ∧ f.name ∈ n :: ns
  | .reset (some q), f => OnExactly f [q]
  | .reset none, f => OnExactly f avail
  | _, _ => False

/-- "frame `f` is blocked (but not used) by instruction `i`". -/
def BlockedBy (avail : List Qubit) : Instr → Frame → Prop
  | .pulse true fr, f | .capture true fr, f | .rawCapture true fr, f => f ≠ fr ∧ Touches f fr.qubits
  | .reset (some q), f => Touches f [q] ∧ ¬ OnExactly f [q]
  | .reset none, f => Touches f avail ∧ ¬ OnExactly f avail
  | _, _ => False

/-- the instruction kinds that execute in the context of frames (all others report `None`) -/
def IsFrameInstr : Instr → Prop
  | .gate _ | .measure _ | .defcal _ _ | .defcalMeasure _ _ | .other => False
  | _ => True

/-- The property for one program / instruction / reported result. -/
structure Correct (p : Prog) (i : Instr) (r : Option Matched) : Prop where
  /-- a result is reported exactly for frame instructions -/
  some_iff : r.isSome ↔ IsFrameInstr i
  /-- used = the defined frames the instruction uses -/
  used : ∀ m, r = some m → ∀ f, f ∈ m.used ↔ f ∈ p.frames ∧ UsedBy (usedQubits p) i f
  /-- blocked = the defined frames the instruction blocks -/
  blocked : ∀ m, r = some m → ∀ f, f ∈ m.blocked ↔ f ∈ p.frames ∧ BlockedBy (usedQubits p) i f
  /-- never overlap -/
  disjoint : ∀ m, r = some m → ∀ f, f ∈ m.used → f ∉ m.blocked

/-! ### Bool checker (what the driver evaluates on the implementation's output) -/

def onExactlyB (f : Frame) (qs : List Qubit) : Bool :=
  f.qubits.all (fun q => qs.contains q) && qs.all (fun q => f.qubits.contains q)

def touchesB (f : Frame) (qs : List Qubit) : Bool := f.qubits.any (fun q => qs.contains q)

def usedByB (avail : List Qubit) : Instr → Frame → Bool
  | .pulse _ fr, f | .capture _ fr, f | .rawCapture _ fr, f => f == fr
  | .setFrequency fr, f | .setPhase fr, f | .setScale fr, f
  | .shiftFrequency fr, f | .shiftPhase fr, f => f == fr
  | .swapPhases f1 f2, f => f == f1 || f == f2
  | .fence [], _ => true
  | .fence (q :: qs), f => touchesB f (q :: qs)
  | .delay [] qs, f => onExactlyB f qs
  | .delay (n :: ns) qs, f => onExactlyB f qs && (n :: ns).contains f.name
  | .reset (some q), f => onExactlyB f [q]
  | .reset none, f => onExactlyB f avail
  | _, _ => false

def blockedByB (avail : List Qubit) : Instr → Frame → Bool
  | .pulse true fr, f | .capture true fr, f | .rawCapture true fr, f => f != fr && touchesB f fr.qubits
  | .reset (some q), f => touchesB f [q] && !onExactlyB f [q]
  | .reset none, f => touchesB f avail && !onExactlyB f avail
  | _, _ => false

def isFrameInstrB : Instr → Bool
  | .gate _ | .measure _ | .defcal _ _ | .defcalMeasure _ _ | .other => false
  | _ => true

/-- `l` has exactly the elements of `defined` satisfying `p` (and nothing else). -/
def exactlyB (defined l : List Frame) (p : Frame → Bool) : Bool :=
  l.all (fun f => defined.contains f && p f) && defined.all (fun f => !p f || l.contains f)

def checkB (p : Prog) (i : Instr) (r : Option Matched) : Bool :=
  (r.isSome == isFrameInstrB i) &&
  match r with
  | none => true
  | some m =>
    exactlyB p.frames m.used (usedByB (usedQubits p) i) &&
    exactlyB p.frames m.blocked (blockedByB (usedQubits p) i) &&
    m.used.all (fun f => !m.blocked.contains f)

end QV.C26
