import QV.C26.Spec
/-
C26 helper lemmas: list-as-set facts, the declarative meaning `Sat` of every `FrameMatchCondition`
form, and `getMatching` = "defined frames satisfying the condition" (mutual structural induction over
the nested condition type — unbounded nesting depth and width).
-/
namespace QV.C26

theorem subset_iff {α} [DecidableEq α] (a b : List α) : subset a b = true ↔ ∀ x, x ∈ a → x ∈ b := by
  simp [subset]

theorem sameSet_iff {α} [DecidableEq α] (a b : List α) : sameSet a b = true ↔ ∀ x, x ∈ a ↔ x ∈ b := by
  simp only [sameSet, Bool.and_eq_true, subset_iff]
  constructor
  · intro h x; exact ⟨h.1 x, h.2 x⟩
  · intro h; exact ⟨fun x => (h x).1, fun x => (h x).2⟩

theorem mem_dedup {α} [DecidableEq α] (l : List α) (x : α) : x ∈ dedup l ↔ x ∈ l := by
  induction l generalizing x with
  | nil => simp [dedup]
  | cons y ys ih =>
    simp only [dedup]
    split
    · rename_i h
      have hy : y ∈ dedup ys := by simpa using h
      rw [ih, List.mem_cons]
      constructor
      · exact Or.inr
      · rintro (rfl | h)
        · exact (ih _).1 hy
        · exact h
    · simp [ih]

theorem nodup_dedup {α} [DecidableEq α] (l : List α) : (dedup l).Nodup := by
  induction l with
  | nil => simp [dedup]
  | cons y ys ih =>
    simp only [dedup]
    split
    · exact ih
    · rename_i h
      exact List.nodup_cons.2 ⟨by simpa using h, ih⟩

theorem mem_foldl_inter (rest : List (List Frame)) (s : List Frame) (f : Frame) :
    f ∈ rest.foldl (fun acc el => acc.filter (fun v => el.contains v)) s ↔
      f ∈ s ∧ ∀ el, el ∈ rest → f ∈ el := by
  induction rest generalizing s with
  | nil => simp
  | cons e es ih =>
    simp only [List.foldl_cons, ih, List.mem_filter, List.contains_iff_mem, List.mem_cons,
      forall_eq_or_imp]
    constructor
    · rintro ⟨⟨h1, h2⟩, h3⟩; exact ⟨h1, h2, h3⟩
    · rintro ⟨h1, h2, h3⟩; exact ⟨⟨h1, h2⟩, h3⟩

theorem mem_reduceInter (ss : List (List Frame)) (f : Frame) :
    f ∈ reduceInter ss ↔ ss ≠ [] ∧ ∀ s, s ∈ ss → f ∈ s := by
  cases ss with
  | nil => simp [reduceInter]
  | cons s rest =>
    simp only [reduceInter]
    rw [mem_foldl_inter]
    simp

theorem foldl_inter_sublist (rest : List (List Frame)) (s : List Frame) :
    (rest.foldl (fun acc el => acc.filter (fun v => el.contains v)) s).Sublist s := by
  induction rest generalizing s with
  | nil => simp
  | cons e es ih => exact (ih _).trans List.filter_sublist

/-! ### declarative meaning of a condition -/

mutual
/-- what it means for a frame to satisfy a `FrameMatchCondition` -/
def Sat : Cond → Frame → Prop
  | .all, _ => True
  | .anyOfNames names, f => f.name ∈ names
  | .anyOfQubits qs, f => Touches f qs
  | .exactQubits qs, f => OnExactly f qs
  | .specific fr, f => f = fr
  | .and cs, f => cs ≠ [] ∧ SatAll cs f
  | .or cs, f => SatAny cs f
def SatAll : List Cond → Frame → Prop
  | [], _ => True
  | c :: cs, f => Sat c f ∧ SatAll cs f
def SatAny : List Cond → Frame → Prop
  | [], _ => False
  | c :: cs, f => Sat c f ∨ SatAny cs f
end

theorem touchesB_iff (f : Frame) (qs : List Qubit) : touchesB f qs = true ↔ Touches f qs := by
  simp [touchesB, Touches]

theorem onExactlyB_iff (f : Frame) (qs : List Qubit) : onExactlyB f qs = true ↔ OnExactly f qs := by
  simp only [onExactlyB, OnExactly, Bool.and_eq_true, List.all_eq_true, List.contains_iff_mem]
  constructor
  · intro h q; exact ⟨h.1 q, h.2 q⟩
  · intro h; exact ⟨fun q => (h q).1, fun q => (h q).2⟩

mutual
theorem mem_getMatching (frames : List Frame) (f : Frame) :
    (c : Cond) → (f ∈ getMatching frames c ↔ f ∈ frames ∧ Sat c f)
  | .all => by simp [getMatching, Sat]
  | .anyOfNames names => by simp [getMatching, Sat]
  | .anyOfQubits qs => by simp [getMatching, Sat, Touches]
  | .exactQubits qs => by
      simp only [getMatching, Sat, List.mem_filter, sameSet_iff, OnExactly]
  | .specific fr => by
      simp only [getMatching, Sat]
      split
      · rename_i h
        have h' : fr ∈ frames := by simpa using h
        constructor
        · intro hf; have : f = fr := by simpa using hf
          subst this; exact ⟨h', rfl⟩
        · rintro ⟨_, rfl⟩; simp
      · rename_i h
        have h' : fr ∉ frames := by simpa using h
        constructor
        · intro hf; simp at hf
        · rintro ⟨hf, rfl⟩; exact absurd hf h'
  | .and cs => by
      simp only [getMatching, Sat, mem_reduceInter]
      have h := mem_getMatchingEach frames f cs
      constructor
      · rintro ⟨hne, hall⟩
        have hcs : cs ≠ [] := by
          intro e; subst e; simp [getMatchingEach] at hne
        obtain ⟨hfr, hsat⟩ := (h.1 hcs).1 hall
        exact ⟨hfr, hcs, hsat⟩
      · rintro ⟨hfr, hcs, hsat⟩
        refine ⟨?_, (h.1 hcs).2 ⟨hfr, hsat⟩⟩
        intro e; cases cs with
        | nil => exact hcs rfl
        | cons c cs => simp [getMatchingEach] at e
  | .or cs => by
      simp only [getMatching, Sat, mem_dedup]
      exact (mem_getMatchingEach frames f cs).2
/-- for the list of sub-results: (non-empty ⇒ "in all" ↔ defined ∧ all satisfied) and
("in some" ↔ defined ∧ some satisfied) -/
theorem mem_getMatchingEach (frames : List Frame) (f : Frame) :
    (cs : List Cond) →
      ((cs ≠ [] → ((∀ s, s ∈ getMatchingEach frames cs → f ∈ s) ↔ f ∈ frames ∧ SatAll cs f)) ∧
       (f ∈ (getMatchingEach frames cs).flatten ↔ f ∈ frames ∧ SatAny cs f))
  | [] => by simp [getMatchingEach, SatAny]
  | c :: cs => by
      have hc := mem_getMatching frames f c
      have hcs := mem_getMatchingEach frames f cs
      refine ⟨fun _ => ?_, ?_⟩
      · simp only [getMatchingEach, List.mem_cons, forall_eq_or_imp, SatAll, hc]
        cases cs with
        | nil => simp [getMatchingEach, SatAll]
        | cons d ds =>
          rw [hcs.1 (by simp)]
          constructor
          · rintro ⟨⟨h1, h2⟩, _, h3⟩; exact ⟨h1, h2, h3⟩
          · rintro ⟨h1, h2, h3⟩; exact ⟨⟨h1, h2⟩, h1, h3⟩
      · simp only [getMatchingEach, List.flatten_cons, List.mem_append, hc, hcs.2, SatAny]
        constructor
        · rintro (⟨h1, h2⟩ | ⟨h1, h2⟩)
          · exact ⟨h1, Or.inl h2⟩
          · exact ⟨h1, Or.inr h2⟩
        · rintro ⟨h1, h2 | h2⟩
          · exact Or.inl ⟨h1, h2⟩
          · exact Or.inr ⟨h1, h2⟩
end

/-- if the key list has no repetitions (it is a `HashMap`'s key set) neither has any result -/
theorem nodup_getMatching (frames : List Frame) (hn : frames.Nodup) :
    (c : Cond) → (getMatching frames c).Nodup
  | .all => by simpa [getMatching] using hn
  | .anyOfNames _ => by simp only [getMatching]; exact List.Nodup.sublist List.filter_sublist hn
  | .anyOfQubits _ => by simp only [getMatching]; exact List.Nodup.sublist List.filter_sublist hn
  | .exactQubits _ => by simp only [getMatching]; exact List.Nodup.sublist List.filter_sublist hn
  | .specific fr => by simp only [getMatching]; split <;> simp
  | .and cs => by
      simp only [getMatching]
      cases cs with
      | nil => simp [getMatchingEach, reduceInter]
      | cons c cs =>
        simp only [getMatchingEach, reduceInter]
        exact List.Nodup.sublist (foldl_inter_sublist _ _) (nodup_getMatching frames hn c)
  | .or cs => by simpa [getMatching] using nodup_dedup _

end QV.C26
