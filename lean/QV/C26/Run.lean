import QV.Wire
import QV.C26.Model
import QV.C26.Spec
/-! Driver side of the C26 correspondence check.

Case input:  `(mf (F…) (I…) I)` = the program's DEFFRAME keys (as held by the real `FrameSet`), the
projections of every instruction passed to `add_instruction`, and the queried instruction.
Output: `none` | `(m (F…) (F…))` = used, blocked (sorted by the harness).
`F = (f "name" Q…)`, `Q = n | (v "name")`. -/
namespace QV.C26
open QV

def decQubit : Sexp → Option Qubit
  | .atom a => a.toNat?.map .fixed
  | .list [.atom "v", .str s] => some (.var s)
  | .list [.atom "p", .atom k] => k.toNat?.map .ph
  | _ => none

def decFrame : Sexp → Option Frame
  | .list (.atom "f" :: .str n :: qs) => (qs.mapM decQubit).map fun q => ⟨n, q⟩
  | _ => none

def decBool : Sexp → Option Bool
  | .atom "t" => some true
  | .atom "f" => some false
  | _ => none

def decStr : Sexp → Option String
  | .str s => some s
  | _ => none

/-- returns the instruction and its variant tag -/
partial def decInstr : Sexp → Option (Instr × String)
  | .list [.atom "pulse", b, f] => do some (.pulse (← decBool b) (← decFrame f), "Pulse")
  | .list [.atom "capture", b, f] => do some (.capture (← decBool b) (← decFrame f), "Capture")
  | .list [.atom "rawcapture", b, f] => do some (.rawCapture (← decBool b) (← decFrame f), "RawCapture")
  | .list [.atom "delay", .list ns, .list qs] => do
      some (.delay (← ns.mapM decStr) (← qs.mapM decQubit), "Delay")
  | .list (.atom "fence" :: qs) => do some (.fence (← qs.mapM decQubit), "Fence")
  | .list [.atom "reset"] => some (.reset none, "Reset")
  | .list [.atom "reset", q] => do some (.reset (some (← decQubit q)), "Reset")
  | .list [.atom "setfreq", f] => do some (.setFrequency (← decFrame f), "SetFrequency")
  | .list [.atom "setphase", f] => do some (.setPhase (← decFrame f), "SetPhase")
  | .list [.atom "setscale", f] => do some (.setScale (← decFrame f), "SetScale")
  | .list [.atom "shiftfreq", f] => do some (.shiftFrequency (← decFrame f), "ShiftFrequency")
  | .list [.atom "shiftphase", f] => do some (.shiftPhase (← decFrame f), "ShiftPhase")
  | .list [.atom "swap", f1, f2] => do some (.swapPhases (← decFrame f1) (← decFrame f2), "SwapPhases")
  | .list (.atom "gate" :: qs) => do some (.gate (← qs.mapM decQubit), "Gate")
  | .list [.atom "measure", q] => do some (.measure (← decQubit q), "Measurement")
  | .list [.atom "defcal", .list qs, .list body] => do
      some (.defcal (← qs.mapM decQubit) ((← body.mapM decInstr).map (·.1)), "CalibrationDefinition")
  | .list [.atom "defcalm", q, .list body] => do
      some (.defcalMeasure (← decQubit q) ((← body.mapM decInstr).map (·.1)), "MeasureCalibrationDefinition")
  | .list [.atom "other", .atom k] => some (.other, k)
  | .list [.atom "defframe", _] => some (.other, "FrameDefinition")
  | _ => none

/-- the frame identifiers DEFINED by the content (DEFFRAME instructions / `FrameSet::insert` calls), computed
from the AST independently of the implementation's key set -/
def definedFrames (added : List Sexp) : List Frame :=
  dedup (added.filterMap fun
    | .list [.atom "defframe", f] => decFrame f
    | _ => none)

def decMatched : Sexp → Option (Option Matched)
  | .atom "none" => some none
  | .list [.atom "m", .list u, .list b] => do
      some (some ⟨← u.mapM decFrame, ← b.mapM decFrame⟩)
  | _ => none

/-- set equality + same length (the model's lists are repetition-free, so this forces the
implementation's sorted list to be the same set without repetitions) -/
def sameFrames (a b : List Frame) : Bool := sameSet a b && a.length == b.length

def agreeOut : Option Matched → Option Matched → Bool
  | none, none => true
  | some a, some b => sameFrames a.used b.used && sameFrames a.blocked b.blocked
  | _, _ => false

def bucket (n : Nat) : String := if n ≥ 4 then "4+" else toString n

def handle (inp out : Sexp) : CaseResult :=
  match inp with
  | .list [.atom "mf", .list fs, .list added, i] =>
    match fs.mapM decFrame, added.mapM decInstr, decInstr i, decMatched out with
    | some frames, some addedI, some (instr, kind), some o =>
      -- the program's frames are the identifiers its CONTENT defines (computed from the AST with the model's
      -- own equality); the implementation's key set must be exactly that
      let keysOk := sameFrames frames (definedFrames added)
      let p : Prog := { frames := definedFrames added, added := addedI.map (·.1) }
      let m := matchingFrames p instr
      let nUsed := match o with | some x => x.used.length | none => 0
      let nBlocked := match o with | some x => x.blocked.length | none => 0
      let varq := frames.any (fun f => f.qubits.any (fun q => match q with | .var _ => true | _ => false))
      { agree := agreeOut m o && keysOk
        specOk := checkB p instr o
        nontrivial := o.isSome && !frames.isEmpty
        tags := [s!"i-{kind}", s!"frames{bucket frames.length}", s!"used{bucket nUsed}",
                 s!"blocked{bucket nBlocked}", s!"usedq{bucket (dedup (usedQubits p)).length}"] ++
                (if o.isNone then ["none"] else []) ++
                (if varq then ["var-qubit"] else []) ++
                (if frames.any (fun f => f.qubits.any (fun q => q matches .ph _)) then ["placeholder-qubit"] else []) ++
                (if keysOk then [] else ["KEYS-DIFFER"]) ++
                (if kind == "Reset" && instr matches .reset none then ["reset-all"] else []) ++
                (addedI.map (fun x => s!"added-{x.2}")).eraseDups
        detail := s!"model={repr m} impl={out} keysOk={keysOk}" }
    | _, _, _, _ => .bad s!"undecodable case {inp} {out}"
  -- `Program::simplify` without calibrations: the frames kept are exactly those some body instruction uses
  | .list [.atom "simp", .list fs, .list added] =>
    match fs.mapM decFrame, added.mapM decInstr, out with
    | some frames, some addedI, .list (.atom "frames" :: kept) =>
      match kept.mapM decFrame with
      | some keptF =>
        let p : Prog := { frames := definedFrames added, added := addedI.map (·.1) }
        let usedOf (i : Instr) : List Frame := match matchingFrames p i with
          | some m => m.used
          | none => []
        let want := dedup ((addedI.map (·.1)).flatMap usedOf)
        let keysOk := sameFrames frames (definedFrames added)
        { agree := sameFrames want keptF && keysOk
          -- spec: kept ⊆ defined, and a defined frame is kept iff some instruction uses it (proved checker per instruction)
          specOk := keptF.all (fun f => frames.contains f) &&
            frames.all (fun f => keptF.contains f ==
              (addedI.map (·.1)).any (fun i => isFrameInstrB i && usedByB (usedQubits p) i f))
          nontrivial := !frames.isEmpty
          tags := ["simplify", s!"frames{bucket frames.length}", s!"kept{bucket keptF.length}"]
          detail := s!"model={repr want} impl={out}" }
      | none => .bad s!"undecodable output {out}"
    | _, _, _ => .bad s!"undecodable case {inp} {out}"
  | _ => .bad s!"undecodable input {inp}"

end QV.C26

def main : IO UInt32 := QV.runMain QV.C26.handle
