import QV.C15.Denote
/-
C15: "every computed unitary is unitary" — for real parameters, every denotation `denote n ms name θs qs`
(hence, by `C15_toUnitary_eq_denote`, every matrix `Gate::to_unitary` returns on such a gate for `n ≤ 5`) is
unitary, and so is every program unitary.

Route: `liftSpec` is multiplicative (a sum over the fibre of basis states that agree outside the listed
qubits, re-indexed by the gate's own index), commutes with adjoints and sends `I` to `I`, so it preserves
unitarity; the full-space CONTROLLED / FORKED select between operators that leave the control qubit alone,
so they preserve unitarity; adjoints and products do; the 22 specification matrices are unitary when the
parameters are real (`star θ = θ`).
-/
namespace QV.C15
open QV.C14 QV.C14.Mat GateFns

set_option linter.unusedSectionVars false
set_option linter.unusedVariables false

/-! ## The fibre of basis states agreeing with `r` outside `qs`, re-indexed by the gate's own index -/

/-- the basis state that has the bits of `r` outside `qs` and the bits of `g` (a gate index) on `qs` -/
def inject (qs : List Nat) (n r g : Nat) : Nat :=
  Nat.ofBits (n := n) fun p =>
    if p.val ∈ qs then g.testBit (qs.length - 1 - qs.idxOf p.val) else r.testBit p.val

theorem inject_lt (qs : List Nat) (n r g : Nat) : inject qs n r g < 2 ^ n := Nat.ofBits_lt_two_pow _

theorem testBit_inject {qs : List Nat} {n r g p : Nat} (hp : p < n) :
    (inject qs n r g).testBit p =
      if p ∈ qs then g.testBit (qs.length - 1 - qs.idxOf p) else r.testBit p := by
  unfold inject
  rw [Nat.testBit_ofBits_lt _ _ hp]

theorem agree_inject (qs : List Nat) (n r g : Nat) : agreeOutside qs n r (inject qs n r g) = true := by
  rw [agreeOutside_iff]
  intro p hp
  by_cases hm : p ∈ qs
  · exact Or.inl hm
  · right; rw [testBit_inject hp, if_neg hm]

theorem gateIndex_inject {qs : List Nat} {n r g : Nat} (hlt : ∀ q ∈ qs, q < n) (hnd : qs.Nodup)
    (hg : g < 2 ^ qs.length) : gateIndex qs (inject qs n r g) = g := by
  rw [eq_iff_testBit_lt (gateIndex_lt _ _) hg]
  intro t ht
  rw [testBit_gateIndex _ _ _ ht]
  have hi : qs.length - 1 - t < qs.length := by omega
  rw [List.getD_eq_getElem _ _ hi]
  have hmem : qs[qs.length - 1 - t] ∈ qs := List.getElem_mem _
  rw [testBit_inject (hlt _ hmem), if_pos hmem, hnd.idxOf_getElem _ hi]
  congr 1; omega

theorem inject_gateIndex {qs : List Nat} {n r a : Nat} (ha : a < 2 ^ n)
    (hagree : agreeOutside qs n r a = true) : inject qs n r (gateIndex qs a) = a := by
  rw [eq_iff_testBit_lt (inject_lt _ _ _ _) ha]
  intro p hp
  rw [testBit_inject hp]
  by_cases hm : p ∈ qs
  · rw [if_pos hm]
    have hi : qs.idxOf p < qs.length := List.idxOf_lt_length_iff.mpr hm
    rw [testBit_gateIndex _ _ _ (by omega)]
    have : qs.length - 1 - (qs.length - 1 - qs.idxOf p) = qs.idxOf p := by omega
    rw [this, List.getD_eq_getElem _ _ hi, List.getElem_idxOf hi]
  · rw [if_neg hm]
    rw [agreeOutside_iff] at hagree
    rcases hagree p hp with h | h
    · exact absurd h hm
    · exact h

section
variable {K : Type} [CommRing K] [StarRing K] [GateFns K] [GateLaws K]

/-- summing over the fibre = summing over gate indices -/
theorem fibre_sum {qs : List Nat} {n : Nat} (hlt : ∀ q ∈ qs, q < n) (hnd : qs.Nodup) (r : Nat) (F : Nat → K) :
    (∑ a ∈ Finset.range (2 ^ n), if agreeOutside qs n r a = true then F (gateIndex qs a) else 0)
      = ∑ g ∈ Finset.range (2 ^ qs.length), F g := by
  rw [← Finset.sum_filter]
  refine Finset.sum_nbij' (fun a => gateIndex qs a) (fun g => inject qs n r g) ?_ ?_ ?_ ?_ ?_
  · intro a _; exact Finset.mem_range.mpr (gateIndex_lt _ _)
  · intro g hg
    rw [Finset.mem_filter]
    exact ⟨Finset.mem_range.mpr (inject_lt _ _ _ _), agree_inject _ _ _ _⟩
  · intro a ha
    rw [Finset.mem_filter] at ha
    exact inject_gateIndex (Finset.mem_range.mp ha.1) ha.2
  · intro g hg
    exact gateIndex_inject hlt hnd (Finset.mem_range.mp hg)
  · intro a _; rfl

theorem agree_trans {qs : List Nat} {n r a c : Nat} (h1 : agreeOutside qs n r a = true)
    (h2 : agreeOutside qs n a c = true) : agreeOutside qs n r c = true := by
  rw [agreeOutside_iff] at *
  intro p hp
  rcases h1 p hp with h | h
  · exact Or.inl h
  · rcases h2 p hp with h' | h'
    · exact Or.inl h'
    · exact Or.inr (h.trans h')

/-- **`liftSpec` is multiplicative** -/
theorem liftSpec_mul {A B : Mat K} {qs : List Nat} {n : Nat} (hlt : ∀ q ∈ qs, q < n) (hnd : qs.Nodup)
    (hAr : A.r = 2 ^ qs.length) (hAc : A.c = 2 ^ qs.length) (hBr : B.r = 2 ^ qs.length) (hBc : B.c = 2 ^ qs.length) :
    mul (liftSpec A qs n) (liftSpec B qs n) = liftSpec (mul A B) qs n := by
  refine Mat.ext' (wf_mul _ _) (wf_build _ _ _) rfl rfl ?_
  intro r c hr hc
  have hr' : r < 2 ^ n := hr
  have hc' : c < 2 ^ n := hc
  rw [get_mul hr' hc']
  have hLc : (liftSpec A qs n).c = 2 ^ n := rfl
  rw [hLc]
  have hRHS : (liftSpec (mul A B) qs n).get r c =
      if agreeOutside qs n r c = true then ∑ g ∈ Finset.range (2 ^ qs.length),
        A.get (gateIndex qs r) g * B.get g (gateIndex qs c) else 0 := by
    unfold liftSpec
    rw [get_build hr' hc']
    by_cases hA : agreeOutside qs n r c = true
    · rw [if_pos hA, if_pos hA, get_mul (by rw [hAr]; exact gateIndex_lt _ _) (by rw [hBc]; exact gateIndex_lt _ _), hAc]
    · rw [if_neg hA, if_neg hA]
  rw [hRHS]
  have hterm : ∀ a ∈ Finset.range (2 ^ n), (liftSpec A qs n).get r a * (liftSpec B qs n).get a c =
      if agreeOutside qs n r a = true then
        (if agreeOutside qs n r c = true then A.get (gateIndex qs r) (gateIndex qs a) * B.get (gateIndex qs a) (gateIndex qs c) else 0)
      else 0 := by
    intro a ha
    have ha' : a < 2 ^ n := Finset.mem_range.mp ha
    unfold liftSpec
    rw [get_build hr' ha', get_build ha' hc']
    by_cases h1 : agreeOutside qs n r a = true
    · rw [if_pos h1, if_pos h1]
      by_cases h2 : agreeOutside qs n a c = true
      · rw [if_pos h2, if_pos (agree_trans h1 h2)]
      · have : ¬ agreeOutside qs n r c = true := by
          intro h3
          apply h2
          rw [agreeOutside_symm] at h1
          exact agree_trans h1 h3
        rw [if_neg h2, if_neg this, mul_zero]
    · rw [if_neg h1, if_neg h1, zero_mul]
  rw [Finset.sum_congr rfl hterm]
  by_cases hA : agreeOutside qs n r c = true
  · simp only [hA, if_true]
    exact fibre_sum hlt hnd r (fun g => A.get (gateIndex qs r) g * B.get g (gateIndex qs c))
  · simp only [hA, if_false]
    simp

end
end QV.C15
