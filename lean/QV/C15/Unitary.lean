import QV.C15.Denote
import Mathlib.Tactic.LinearCombination
/-
C15: "every computed unitary is unitary" — for real parameters, every denotation `denote n ms name θs qs`
(hence, by `C15_toUnitary_eq_denote`, every matrix `Gate::to_unitary` returns on such a gate for `n ≤ 5`) is
unitary, and so is every program unitary.

Route: `liftSpec` is multiplicative (a sum over the fibre of basis states that agree outside the listed
qubits, re-indexed by the gate's own index), commutes with adjoints and sends `I` to `I`, so it preserves
unitarity; the full-space CONTROLLED / FORKED select between operators that leave the control qubit alone,
so they preserve unitarity; adjoints and products do; the 22 specification matrices are unitary when the
parameters are real (`star θ = θ`).
-/
namespace QV.C15
open QV.C14 QV.C14.Mat GateFns

set_option linter.unusedSectionVars false
set_option linter.unusedVariables false

/-! ## The fibre of basis states agreeing with `r` outside `qs`, re-indexed by the gate's own index -/

/-- the basis state that has the bits of `r` outside `qs` and the bits of `g` (a gate index) on `qs` -/
def inject (qs : List Nat) (n r g : Nat) : Nat :=
  Nat.ofBits (n := n) fun p =>
    if p.val ∈ qs then g.testBit (qs.length - 1 - qs.idxOf p.val) else r.testBit p.val

theorem inject_lt (qs : List Nat) (n r g : Nat) : inject qs n r g < 2 ^ n := Nat.ofBits_lt_two_pow _

theorem testBit_inject {qs : List Nat} {n r g p : Nat} (hp : p < n) :
    (inject qs n r g).testBit p =
      if p ∈ qs then g.testBit (qs.length - 1 - qs.idxOf p) else r.testBit p := by
  unfold inject
  rw [Nat.testBit_ofBits_lt _ _ hp]

theorem agree_inject (qs : List Nat) (n r g : Nat) : agreeOutside qs n r (inject qs n r g) = true := by
  rw [agreeOutside_iff]
  intro p hp
  by_cases hm : p ∈ qs
  · exact Or.inl hm
  · right; rw [testBit_inject hp, if_neg hm]

theorem gateIndex_inject {qs : List Nat} {n r g : Nat} (hlt : ∀ q ∈ qs, q < n) (hnd : qs.Nodup)
    (hg : g < 2 ^ qs.length) : gateIndex qs (inject qs n r g) = g := by
  rw [eq_iff_testBit_lt (gateIndex_lt _ _) hg]
  intro t ht
  rw [testBit_gateIndex _ _ _ ht]
  have hi : qs.length - 1 - t < qs.length := by omega
  rw [List.getD_eq_getElem _ _ hi]
  have hmem : qs[qs.length - 1 - t] ∈ qs := List.getElem_mem _
  rw [testBit_inject (hlt _ hmem), if_pos hmem, hnd.idxOf_getElem _ hi]
  congr 1; omega

theorem inject_gateIndex {qs : List Nat} {n r a : Nat} (ha : a < 2 ^ n)
    (hagree : agreeOutside qs n r a = true) : inject qs n r (gateIndex qs a) = a := by
  rw [eq_iff_testBit_lt (inject_lt _ _ _ _) ha]
  intro p hp
  rw [testBit_inject hp]
  by_cases hm : p ∈ qs
  · rw [if_pos hm]
    have hi : qs.idxOf p < qs.length := List.idxOf_lt_length_iff.mpr hm
    rw [testBit_gateIndex _ _ _ (by omega)]
    have : qs.length - 1 - (qs.length - 1 - qs.idxOf p) = qs.idxOf p := by omega
    rw [this, List.getD_eq_getElem _ _ hi, List.getElem_idxOf hi]
  · rw [if_neg hm]
    rw [agreeOutside_iff] at hagree
    rcases hagree p hp with h | h
    · exact absurd h hm
    · exact h

section
variable {K : Type} [CommRing K] [StarRing K] [GateFns K] [GateLaws K]

/-- summing over the fibre = summing over gate indices -/
theorem fibre_sum {qs : List Nat} {n : Nat} (hlt : ∀ q ∈ qs, q < n) (hnd : qs.Nodup) (r : Nat) (F : Nat → K) :
    (∑ a ∈ Finset.range (2 ^ n), if agreeOutside qs n r a = true then F (gateIndex qs a) else 0)
      = ∑ g ∈ Finset.range (2 ^ qs.length), F g := by
  rw [← Finset.sum_filter]
  refine Finset.sum_nbij' (fun a => gateIndex qs a) (fun g => inject qs n r g) ?_ ?_ ?_ ?_ ?_
  · intro a _; exact Finset.mem_range.mpr (gateIndex_lt _ _)
  · intro g hg
    rw [Finset.mem_filter]
    exact ⟨Finset.mem_range.mpr (inject_lt _ _ _ _), agree_inject _ _ _ _⟩
  · intro a ha
    rw [Finset.mem_filter] at ha
    exact inject_gateIndex (Finset.mem_range.mp ha.1) ha.2
  · intro g hg
    exact gateIndex_inject hlt hnd (Finset.mem_range.mp hg)
  · intro a _; rfl

theorem agree_trans {qs : List Nat} {n r a c : Nat} (h1 : agreeOutside qs n r a = true)
    (h2 : agreeOutside qs n a c = true) : agreeOutside qs n r c = true := by
  rw [agreeOutside_iff] at *
  intro p hp
  rcases h1 p hp with h | h
  · exact Or.inl h
  · rcases h2 p hp with h' | h'
    · exact Or.inl h'
    · exact Or.inr (h.trans h')

/-- **`liftSpec` is multiplicative** -/
theorem liftSpec_mul {A B : Mat K} {qs : List Nat} {n : Nat} (hlt : ∀ q ∈ qs, q < n) (hnd : qs.Nodup)
    (hAr : A.r = 2 ^ qs.length) (hAc : A.c = 2 ^ qs.length) (hBr : B.r = 2 ^ qs.length) (hBc : B.c = 2 ^ qs.length) :
    mul (liftSpec A qs n) (liftSpec B qs n) = liftSpec (mul A B) qs n := by
  refine Mat.ext' (wf_mul _ _) (wf_build _ _ _) rfl rfl ?_
  intro r c hr hc
  have hr' : r < 2 ^ n := hr
  have hc' : c < 2 ^ n := hc
  rw [get_mul hr' hc']
  have hLc : (liftSpec A qs n).c = 2 ^ n := rfl
  rw [hLc]
  have hRHS : (liftSpec (mul A B) qs n).get r c =
      if agreeOutside qs n r c = true then ∑ g ∈ Finset.range (2 ^ qs.length),
        A.get (gateIndex qs r) g * B.get g (gateIndex qs c) else 0 := by
    unfold liftSpec
    rw [get_build hr' hc']
    by_cases hA : agreeOutside qs n r c = true
    · rw [if_pos hA, if_pos hA, get_mul (by rw [hAr]; exact gateIndex_lt _ _) (by rw [hBc]; exact gateIndex_lt _ _), hAc]
    · rw [if_neg hA, if_neg hA]
  rw [hRHS]
  have hterm : ∀ a ∈ Finset.range (2 ^ n), (liftSpec A qs n).get r a * (liftSpec B qs n).get a c =
      if agreeOutside qs n r a = true then
        (if agreeOutside qs n r c = true then A.get (gateIndex qs r) (gateIndex qs a) * B.get (gateIndex qs a) (gateIndex qs c) else 0)
      else 0 := by
    intro a ha
    have ha' : a < 2 ^ n := Finset.mem_range.mp ha
    unfold liftSpec
    rw [get_build hr' ha', get_build ha' hc']
    by_cases h1 : agreeOutside qs n r a = true
    · rw [if_pos h1, if_pos h1]
      by_cases h2 : agreeOutside qs n a c = true
      · rw [if_pos h2, if_pos (agree_trans h1 h2)]
      · have : ¬ agreeOutside qs n r c = true := by
          intro h3
          apply h2
          rw [agreeOutside_symm] at h1
          exact agree_trans h1 h3
        rw [if_neg h2, if_neg this, mul_zero]
    · rw [if_neg h1, if_neg h1, zero_mul]
  rw [Finset.sum_congr rfl hterm]
  by_cases hA : agreeOutside qs n r c = true
  · simp only [hA, if_true]
    exact fibre_sum hlt hnd r (fun g => A.get (gateIndex qs r) g * B.get g (gateIndex qs c))
  · simp only [hA, if_false]
    simp

/-! ## Unitarity and its closure properties -/

/-- a well-formed `2^n × 2^n` matrix with `DᴴD = I = DDᴴ` -/
def IsUnitary (n : Nat) (D : Mat K) : Prop :=
  Sq n D ∧ mul (adjoint D) D = eye (2 ^ n) ∧ mul D (adjoint D) = eye (2 ^ n)

theorem isUnitary_eye (n : Nat) : IsUnitary n (eye (2 ^ n) : Mat K) := by
  refine ⟨sq_eye n, ?_, ?_⟩
  · rw [adjoint_eye]; exact eye_mul (wf_eye _)
  · rw [adjoint_eye]; exact eye_mul (wf_eye _)

theorem IsUnitary.adjoint {n : Nat} {D : Mat K} (h : IsUnitary n D) : IsUnitary n (adjoint D) := by
  refine ⟨sq_adjoint h.1, ?_, ?_⟩
  · rw [adjoint_adjoint h.1.1]; exact h.2.2
  · rw [adjoint_adjoint h.1.1]; exact h.2.1

theorem IsUnitary.mul {n : Nat} {A B : Mat K} (hA : IsUnitary n A) (hB : IsUnitary n B) :
    IsUnitary n (mul A B) := by
  obtain ⟨sA, a1, a2⟩ := hA
  obtain ⟨sB, b1, b2⟩ := hB
  have sAh := sq_adjoint sA
  have sBh := sq_adjoint sB
  refine ⟨sq_mul sA sB, ?_, ?_⟩
  · rw [adjoint_mul _ _ (by rw [sA.2.2, sB.2.1])]
    -- (Bᴴ Aᴴ)(A B) = Bᴴ ((Aᴴ A) B)
    rw [Mat.mul_assoc' (by rw [sBh.2.2, sAh.2.1]) (by simp only [mul_r]; rw [sAh.2.2, sA.2.1]),
      ← Mat.mul_assoc' (A := A.adjoint) (B := A) (C := B) (by rw [sAh.2.2, sA.2.1]) (by rw [sA.2.2, sB.2.1]), a1]
    have := eye_mul sB.1
    rw [sB.2.1] at this
    rw [this, b1]
  · rw [adjoint_mul _ _ (by rw [sA.2.2, sB.2.1])]
    rw [Mat.mul_assoc' (by rw [sA.2.2, sB.2.1]) (by simp only [mul_r]; rw [sB.2.2, sBh.2.1]),
      ← Mat.mul_assoc' (A := B) (B := B.adjoint) (C := A.adjoint) (by rw [sB.2.2, sBh.2.1]) (by rw [sBh.2.2, sAh.2.1]), b2]
    have := eye_mul sAh.1
    rw [sAh.2.1] at this
    rw [this, a2]

/-- a unitary on the gate's own space (`2^k × 2^k`) -/
def IsUnitarySmall (k : Nat) (U : Mat K) : Prop :=
  U.WF ∧ U.r = 2 ^ k ∧ U.c = 2 ^ k ∧ mul (adjoint U) U = eye (2 ^ k) ∧ mul U (adjoint U) = eye (2 ^ k)

/-- **lifting preserves unitarity** -/
theorem isUnitary_liftSpec {U : Mat K} {qs : List Nat} {n : Nat} (hlt : ∀ q ∈ qs, q < n) (hnd : qs.Nodup)
    (hU : IsUnitarySmall qs.length U) : IsUnitary n (liftSpec U qs n) := by
  obtain ⟨wf, hr, hc, u1, u2⟩ := hU
  refine ⟨⟨wf_build _ _ _, rfl, rfl⟩, ?_, ?_⟩
  · rw [← liftSpec_adjoint hr hc, liftSpec_mul hlt hnd (by simp [hc]) (by simp [hr]) hr hc, u1, liftSpec_eye]
  · rw [← liftSpec_adjoint hr hc, liftSpec_mul hlt hnd hr hc (by simp [hc]) (by simp [hr]), u2, liftSpec_eye]

/-! ## CONTROLLED / FORKED preserve unitarity -/

/-- `D` never maps a basis state to one with a different value of qubit `c` -/
def Preserves (n c : Nat) (D : Mat K) : Prop :=
  ∀ r c', r < 2 ^ n → c' < 2 ^ n → r.testBit c ≠ c'.testBit c → D.get r c' = 0

theorem preserves_eye (n c : Nat) : Preserves n c (eye (2 ^ n) : Mat K) := by
  intro r c' hr hc' hne
  rw [get_eye hr hc']
  have : r ≠ c' := by rintro rfl; exact hne rfl
  simp [this]

theorem preserves_adjoint {n c : Nat} {D : Mat K} (hs : Sq n D) (h : Preserves n c D) : Preserves n c (adjoint D) := by
  intro r c' hr hc' hne
  rw [get_adjoint (by rw [hs.2.2]; exact hr) (by rw [hs.2.1]; exact hc'), h c' r hc' hr (Ne.symm hne), QV.C14.conj_zero]

theorem preserves_liftSpec {U : Mat K} {qs : List Nat} {n c : Nat} (hc : c < n) (hnot : c ∉ qs) :
    Preserves n c (liftSpec U qs n) := by
  intro r c' hr hc' hne
  unfold liftSpec
  rw [get_build hr hc']
  have : ¬ agreeOutside qs n r c' = true := by
    intro h
    rw [agreeOutside_iff] at h
    rcases h c hc with h | h
    · exact hnot h
    · exact hne h
  rw [if_neg this]

theorem get_forkSpec {n c : Nat} {D0 D1 : Mat K} (h0 : Sq n D0) {r c' : Nat} (hr : r < 2 ^ n) (hc' : c' < 2 ^ n) :
    (forkSpec c D0 D1).get r c' = if r.testBit c then D1.get r c' else D0.get r c' := by
  unfold forkSpec
  rw [get_build (by rw [h0.2.1]; exact hr) (by rw [h0.2.2]; exact hc')]

theorem sq_forkSpec {n c : Nat} {D0 D1 : Mat K} (h0 : Sq n D0) : Sq n (forkSpec c D0 D1) :=
  ⟨wf_build _ _ _, h0.2.1, h0.2.2⟩

theorem preserves_forkSpec {n c d : Nat} {D0 D1 : Mat K} (h0 : Sq n D0)
    (p0 : Preserves n d D0) (p1 : Preserves n d D1) : Preserves n d (forkSpec c D0 D1) := by
  intro r c' hr hc' hne
  rw [get_forkSpec h0 hr hc']
  split_ifs
  · exact p1 r c' hr hc' hne
  · exact p0 r c' hr hc' hne

/-- **the full-space selection between two unitaries that leave qubit `c` alone is unitary** -/
theorem isUnitary_forkSpec {n c : Nat} {D0 D1 : Mat K} (h0 : IsUnitary n D0) (h1 : IsUnitary n D1)
    (p0 : Preserves n c D0) (p1 : Preserves n c D1) : IsUnitary n (forkSpec c D0 D1) := by
  obtain ⟨s0, a0, b0⟩ := h0
  obtain ⟨s1, a1, b1⟩ := h1
  have sF := sq_forkSpec (c := c) (D1 := D1) s0
  have sFh := sq_adjoint sF
  -- entry forms of the hypotheses
  have ent : ∀ {D : Mat K}, Sq n D → ∀ {r c' : Nat}, r < 2 ^ n → c' < 2 ^ n →
      (mul (adjoint D) D).get r c' = ∑ a ∈ Finset.range (2 ^ n), conj (D.get a r) * D.get a c' := by
    intro D sD r c' hr hc'
    rw [get_mul (by simp only [adjoint_r]; rw [sD.2.2]; exact hr) (by rw [sD.2.2]; exact hc')]
    simp only [adjoint_c]; rw [sD.2.1]
    apply Finset.sum_congr rfl
    intro a ha
    rw [get_adjoint (by rw [sD.2.2]; exact hr) (by rw [sD.2.1]; exact Finset.mem_range.mp ha)]
  have ent' : ∀ {D : Mat K}, Sq n D → ∀ {r c' : Nat}, r < 2 ^ n → c' < 2 ^ n →
      (mul D (adjoint D)).get r c' = ∑ x ∈ Finset.range (2 ^ n), D.get r x * conj (D.get c' x) := by
    intro D sD r c' hr hc'
    rw [get_mul (by rw [sD.2.1]; exact hr) (by simp only [adjoint_c]; rw [sD.2.1]; exact hc')]
    rw [sD.2.2]
    apply Finset.sum_congr rfl
    intro x hx
    rw [get_adjoint (by rw [sD.2.2]; exact Finset.mem_range.mp hx) (by rw [sD.2.1]; exact hc')]
  refine ⟨sF, ?_, ?_⟩
  · refine Mat.ext' (wf_mul _ _) (wf_eye _) (by simp only [mul_r]; rw [sFh.2.1]; rfl)
      (by simp only [mul_c]; rw [sF.2.2]; rfl) ?_
    intro r c' hr hc'
    simp only [mul_r, mul_c] at hr hc'
    rw [sFh.2.1] at hr; rw [sF.2.2] at hc'
    rw [ent sF hr hc']
    -- every term equals the corresponding term for the branch selected by bit c of r
    cases hb : r.testBit c
    · have : ∀ a ∈ Finset.range (2 ^ n),
          conj ((forkSpec c D0 D1).get a r) * (forkSpec c D0 D1).get a c' = conj (D0.get a r) * D0.get a c' := by
        intro a ha
        have ha' := Finset.mem_range.mp ha
        rw [get_forkSpec s0 ha' hr, get_forkSpec s0 ha' hc']
        cases hab : a.testBit c
        · simp
        · have z1 : D1.get a r = 0 := p1 a r ha' hr (by rw [hab, hb]; simp)
          have z0 : D0.get a r = 0 := p0 a r ha' hr (by rw [hab, hb]; simp)
          simp [z1, z0, QV.C14.conj_zero]
      rw [Finset.sum_congr rfl this, ← ent s0 hr hc', a0]
    · have : ∀ a ∈ Finset.range (2 ^ n),
          conj ((forkSpec c D0 D1).get a r) * (forkSpec c D0 D1).get a c' = conj (D1.get a r) * D1.get a c' := by
        intro a ha
        have ha' := Finset.mem_range.mp ha
        rw [get_forkSpec s0 ha' hr, get_forkSpec s0 ha' hc']
        cases hab : a.testBit c
        · have z1 : D1.get a r = 0 := p1 a r ha' hr (by rw [hab, hb]; simp)
          have z0 : D0.get a r = 0 := p0 a r ha' hr (by rw [hab, hb]; simp)
          simp [z1, z0, QV.C14.conj_zero]
        · simp
      rw [Finset.sum_congr rfl this, ← ent s1 hr hc', a1]
  · refine Mat.ext' (wf_mul _ _) (wf_eye _) (by simp only [mul_r]; rw [sF.2.1]; rfl)
      (by simp only [mul_c, adjoint_c]; rw [sF.2.1]; rfl) ?_
    intro r c' hr hc'
    simp only [mul_r, mul_c, adjoint_c] at hr hc'
    rw [sF.2.1] at hr hc'
    rw [ent' sF hr hc']
    have hterm : ∀ x ∈ Finset.range (2 ^ n),
        (forkSpec c D0 D1).get r x * conj ((forkSpec c D0 D1).get c' x) =
          (if r.testBit c then D1.get r x else D0.get r x) *
            conj (if c'.testBit c then D1.get c' x else D0.get c' x) := by
      intro x hx
      have hx' := Finset.mem_range.mp hx
      rw [get_forkSpec s0 hr hx', get_forkSpec s0 hc' hx']
    rw [Finset.sum_congr rfl hterm]
    by_cases hbits : r.testBit c = c'.testBit c
    · rw [← hbits]
      cases hb : r.testBit c
      · simp only [Bool.false_eq_true, if_false]
        rw [← ent' s0 hr hc', b0]
      · simp only [if_true]
        rw [← ent' s1 hr hc', b1]
    · have hne : r ≠ c' := by rintro rfl; exact hbits rfl
      rw [get_eye hr hc', if_neg hne]
      apply Finset.sum_eq_zero
      intro x hx
      have hx' := Finset.mem_range.mp hx
      by_cases hxr : r.testBit c = x.testBit c
      · have hxc : c'.testBit c ≠ x.testBit c := fun h => hbits (hxr.trans h.symm)
        have z0 := p0 c' x hc' hx' hxc
        have z1 := p1 c' x hc' hx' hxc
        split_ifs <;> simp [z0, z1, QV.C14.conj_zero]
      · have z0 := p0 r x hr hx' hxr
        have z1 := p1 r x hr hx' hxr
        split_ifs <;> simp [z0, z1]

/-! ## The specification matrices are unitary for real parameters -/

/-- generalised permutation ("monomial") matrix: column `c` has the single entry `ph c` in row `f c` -/
def mono (k : Nat) (f : Nat → Nat) (ph : Nat → K) : Mat K :=
  build (2 ^ k) (2 ^ k) fun r c => if r = f c then ph c else 0

theorem isUnitarySmall_mono {k : Nat} {f : Nat → Nat} {ph : Nat → K}
    (hf : ∀ c, c < 2 ^ k → f c < 2 ^ k)
    (hinj : ∀ a, a < 2 ^ k → ∀ b, b < 2 ^ k → f a = f b → a = b)
    (hsurj : ∀ r, r < 2 ^ k → ∃ x, x < 2 ^ k ∧ f x = r)
    (hph : ∀ c, c < 2 ^ k → conj (ph c) * ph c = 1) : IsUnitarySmall k (mono k f ph) := by
  have hph' : ∀ c, c < 2 ^ k → ph c * conj (ph c) = 1 := fun c hc => by rw [mul_comm]; exact hph c hc
  refine ⟨wf_build _ _ _, rfl, rfl, ?_, ?_⟩
  · refine Mat.ext' (wf_mul _ _) (wf_eye _) rfl rfl ?_
    intro r c hr hc
    have hr' : r < 2 ^ k := hr
    have hc' : c < 2 ^ k := hc
    rw [get_mul hr' hc', get_eye hr' hc']
    have hcc : (adjoint (mono k f ph)).c = 2 ^ k := rfl
    rw [hcc, Finset.sum_eq_single (f r)]
    · rw [get_adjoint hr' (hf r hr'), mono, get_build (hf r hr') hr', get_build (hf r hr') hc', if_pos rfl]
      by_cases hrc : r = c
      · subst hrc; rw [if_pos rfl, if_pos rfl]; exact hph r hr'
      · have : ¬ f r = f c := fun h => hrc (hinj r hr' c hc' h)
        rw [if_neg this, if_neg hrc, mul_zero]
    · intro a ha hne
      have ha' := Finset.mem_range.mp ha
      rw [get_adjoint hr' ha', mono, get_build ha' hr', if_neg hne, QV.C14.conj_zero, zero_mul]
    · intro h; exact absurd (Finset.mem_range.mpr (hf r hr')) h
  · refine Mat.ext' (wf_mul _ _) (wf_eye _) rfl rfl ?_
    intro r c hr hc
    have hr' : r < 2 ^ k := hr
    have hc' : c < 2 ^ k := hc
    rw [get_mul hr' hc', get_eye hr' hc']
    have hcc : (mono k f ph).c = 2 ^ k := rfl
    rw [hcc]
    obtain ⟨x0, hx0, hfx0⟩ := hsurj r hr'
    rw [Finset.sum_eq_single x0]
    · rw [get_adjoint hx0 hc', mono, get_build hr' hx0, get_build hc' hx0, if_pos hfx0.symm]
      by_cases hrc : r = c
      · subst hrc; rw [if_pos hfx0.symm, if_pos rfl]; exact hph' x0 hx0
      · have : ¬ c = f x0 := fun h => hrc (by rw [h, hfx0])
        rw [if_neg this, if_neg hrc, QV.C14.conj_zero, mul_zero]
    · intro x hx hne
      have hx' := Finset.mem_range.mp hx
      have : ¬ r = f x := fun h => hne (hinj x hx' x0 hx0 (by rw [← h, hfx0]))
      rw [mono, get_build hr' hx', if_neg this, zero_mul]
    · intro h; exact absurd (Finset.mem_range.mpr hx0) h

/-- a `2 × 2` matrix with orthonormal columns and rows -/
theorem isUnitarySmall_two {U : Mat K} (wf : U.WF) (hr : U.r = 2) (hc : U.c = 2)
    (c00 : conj (U.get 0 0) * U.get 0 0 + conj (U.get 1 0) * U.get 1 0 = 1)
    (c01 : conj (U.get 0 0) * U.get 0 1 + conj (U.get 1 0) * U.get 1 1 = 0)
    (c10 : conj (U.get 0 1) * U.get 0 0 + conj (U.get 1 1) * U.get 1 0 = 0)
    (c11 : conj (U.get 0 1) * U.get 0 1 + conj (U.get 1 1) * U.get 1 1 = 1)
    (r00 : U.get 0 0 * conj (U.get 0 0) + U.get 0 1 * conj (U.get 0 1) = 1)
    (r01 : U.get 0 0 * conj (U.get 1 0) + U.get 0 1 * conj (U.get 1 1) = 0)
    (r10 : U.get 1 0 * conj (U.get 0 0) + U.get 1 1 * conj (U.get 0 1) = 0)
    (r11 : U.get 1 0 * conj (U.get 1 0) + U.get 1 1 * conj (U.get 1 1) = 1) : IsUnitarySmall 1 U := by
  have ga : ∀ i j, i < 2 → j < 2 → (adjoint U).get i j = conj (U.get j i) :=
    fun i j hi hj => get_adjoint (by rw [hc]; exact hi) (by rw [hr]; exact hj)
  have g00 := ga 0 0 (by norm_num) (by norm_num)
  have g01 := ga 0 1 (by norm_num) (by norm_num)
  have g10 := ga 1 0 (by norm_num) (by norm_num)
  have g11 := ga 1 1 (by norm_num) (by norm_num)
  have ge : ∀ i j, i < 2 → j < 2 → (eye (2 ^ 1) : Mat K).get i j = if i = j then 1 else 0 :=
    fun i j hi hj => get_eye (by simpa using hi) (by simpa using hj)
  have e00 := ge 0 0 (by norm_num) (by norm_num)
  have e01 := ge 0 1 (by norm_num) (by norm_num)
  have e10 := ge 1 0 (by norm_num) (by norm_num)
  have e11 := ge 1 1 (by norm_num) (by norm_num)
  refine ⟨wf, by simpa using hr, by simpa using hc, ?_, ?_⟩
  · refine Mat.ext' (wf_mul _ _) (wf_eye _) (by simp [hc]) (by simp [hc]) ?_
    intro i j hi hj
    simp only [mul_r, mul_c, adjoint_r, hc] at hi hj
    rw [get_mul (by simpa [hc] using hi) (by simpa [hc] using hj)]
    simp only [adjoint_c, hr, Finset.sum_range_succ, Finset.sum_range_zero, zero_add]
    interval_cases i <;> interval_cases j <;>
      simp only [g00, g01, g10, g11, e00, e01, e10, e11, c00, c01, c10, c11] <;> simp
  · refine Mat.ext' (wf_mul _ _) (wf_eye _) (by simp [hr]) (by simp [hr]) ?_
    intro i j hi hj
    simp only [mul_r, mul_c, adjoint_c, hr] at hi hj
    rw [get_mul (by simpa [hr] using hi) (by simpa [hr] using hj)]
    simp only [hc, Finset.sum_range_succ, Finset.sum_range_zero, zero_add]
    interval_cases i <;> interval_cases j <;>
      simp only [g00, g01, g10, g11, e00, e01, e10, e11, r00, r01, r10, r11] <;> simp

/-! ### scalar facts -/

theorem conj_mul' (a b : K) : conj (a * b) = conj a * conj b := by
  simp only [GateLaws.conj_eq, star_mul']
theorem conj_neg' (a : K) : conj (-a) = -conj a := by simp only [GateLaws.conj_eq, star_neg]
theorem conj_add' (a b : K) : conj (a + b) = conj a + conj b := by simp only [GateLaws.conj_eq, star_add]
theorem conj_i' : conj (i : K) = -i := by rw [GateLaws.conj_eq, GateLaws.star_i]
theorem conj_cos' {x : K} (hx : star x = x) : conj (cos x) = cos x := by
  rw [GateLaws.conj_eq, GateLaws.star_cos, hx]
theorem conj_sin' {x : K} (hx : star x = x) : conj (sin x) = sin x := by
  rw [GateLaws.conj_eq, GateLaws.star_sin, hx]
theorem real_half {x : K} (hx : star x = x) : star (half x) = half x := by rw [GateLaws.star_half, hx]
theorem real_neg {x : K} (hx : star x = x) : star (-x) = -x := by rw [star_neg, hx]

theorem unit_one : conj (1 : K) * 1 = 1 := by rw [QV.C14.conj_one, mul_one]
theorem unit_neg_one : conj (-1 : K) * (-1) = 1 := by rw [conj_neg', QV.C14.conj_one]; ring
theorem unit_i : conj (i : K) * i = 1 := by
  rw [conj_i']; linear_combination (-1 : K) * GateLaws.i_sq (K := K)
theorem unit_neg_i : conj (-i : K) * (-i) = 1 := by
  rw [conj_neg', conj_i']; linear_combination (-1 : K) * GateLaws.i_sq (K := K)
theorem unit_cis {x : K} (hx : star x = x) : conj (cis x) * cis x = 1 := by
  rw [GateLaws.cis_eq, conj_add', conj_mul', conj_i', conj_cos' hx, conj_sin' hx]
  linear_combination GateLaws.cos_sq_add_sin_sq x - sin x * sin x * GateLaws.i_sq (K := K)

theorem diagGate_eq_mono (k : Nat) (ph : Nat → K) : diagGate k ph = mono k (fun c => c) ph := rfl
theorem permGate_eq_mono (k : Nat) (f : Nat → Nat) : (permGate k f : Mat K) = mono k f (fun _ => 1) := rfl
theorem phasedSwap_eq_mono (w : K) :
    phasedSwap w = mono 2 (fun c => 2 * bit c 0 + bit c 1) (fun c => if c.testBit 0 = c.testBit 1 then 1 else w) := rfl

theorem isUnitarySmall_diag {k : Nat} {ph : Nat → K} (hph : ∀ c, c < 2 ^ k → conj (ph c) * ph c = 1) :
    IsUnitarySmall k (diagGate k ph) := by
  rw [diagGate_eq_mono]
  exact isUnitarySmall_mono (fun c hc => hc) (fun a _ b _ h => h) (fun r hr => ⟨r, hr, rfl⟩) hph

theorem isUnitarySmall_perm {k : Nat} {f : Nat → Nat}
    (hf : ∀ c, c < 2 ^ k → f c < 2 ^ k)
    (hinj : ∀ a, a < 2 ^ k → ∀ b, b < 2 ^ k → f a = f b → a = b)
    (hsurj : ∀ r, r < 2 ^ k → ∃ x, x < 2 ^ k ∧ f x = r) : IsUnitarySmall k (permGate k f : Mat K) := by
  rw [permGate_eq_mono]
  exact isUnitarySmall_mono hf hinj hsurj (fun _ _ => unit_one)

theorem isUnitarySmall_phasedSwap {w : K} (hw : conj w * w = 1) : IsUnitarySmall 2 (phasedSwap w) := by
  rw [phasedSwap_eq_mono]
  refine isUnitarySmall_mono (by decide) (by decide) (by decide) ?_
  intro c _
  split_ifs
  · exact unit_one
  · exact hw

/-- the three written-out one-qubit matrices -/
theorem isUnitarySmall_H : IsUnitarySmall 1 (build 2 2 fun r c => (invSqrt2 : K) * (if r = 1 ∧ c = 1 then -1 else 1)) := by
  have cs : conj (invSqrt2 : K) = invSqrt2 := by rw [GateLaws.conj_eq, GateLaws.star_invSqrt2]
  have law := GateLaws.invSqrt2_sq (K := K)
  have g00 : (build 2 2 fun r c => (invSqrt2 : K) * (if r = 1 ∧ c = 1 then -1 else 1)).get 0 0 = invSqrt2 := by
    simp [get_build']
  have g01 : (build 2 2 fun r c => (invSqrt2 : K) * (if r = 1 ∧ c = 1 then -1 else 1)).get 0 1 = invSqrt2 := by
    simp [get_build']
  have g10 : (build 2 2 fun r c => (invSqrt2 : K) * (if r = 1 ∧ c = 1 then -1 else 1)).get 1 0 = invSqrt2 := by
    simp [get_build']
  have g11 : (build 2 2 fun r c => (invSqrt2 : K) * (if r = 1 ∧ c = 1 then -1 else 1)).get 1 1 = -invSqrt2 := by
    simp [get_build']
  refine isUnitarySmall_two (wf_build _ _ _) rfl rfl ?_ ?_ ?_ ?_ ?_ ?_ ?_ ?_ <;>
    simp only [g00, g01, g10, g11, conj_neg', cs] <;> first | ring1 | linear_combination law

theorem isUnitarySmall_RX {t : K} (ht : star t = t) :
    IsUnitarySmall 1 (build 2 2 fun r c => if r = c then cos t else -i * sin t) := by
  have cc := conj_cos' ht
  have cs := conj_sin' ht
  have e1 := GateLaws.cos_sq_add_sin_sq t
  have e2 := GateLaws.i_sq (K := K)
  have g00 : (build 2 2 fun r c => if r = c then cos t else -i * sin t).get 0 0 = cos t := by simp [get_build']
  have g01 : (build 2 2 fun r c => if r = c then cos t else -i * sin t).get 0 1 = -i * sin t := by simp [get_build']
  have g10 : (build 2 2 fun r c => if r = c then cos t else -i * sin t).get 1 0 = -i * sin t := by simp [get_build']
  have g11 : (build 2 2 fun r c => if r = c then cos t else -i * sin t).get 1 1 = cos t := by simp [get_build']
  refine isUnitarySmall_two (wf_build _ _ _) rfl rfl ?_ ?_ ?_ ?_ ?_ ?_ ?_ ?_ <;>
    simp only [g00, g01, g10, g11, conj_neg', conj_mul', conj_i', cc, cs]
  · linear_combination e1 - sin t * sin t * e2
  · ring
  · ring
  · linear_combination e1 - sin t * sin t * e2
  · linear_combination e1 - sin t * sin t * e2
  · ring
  · ring
  · linear_combination e1 - sin t * sin t * e2

theorem isUnitarySmall_RY {t : K} (ht : star t = t) :
    IsUnitarySmall 1 (build 2 2 fun r c => if r = c then cos t else if r = 1 then sin t else -(sin t)) := by
  have cc := conj_cos' ht
  have cs := conj_sin' ht
  have e1 := GateLaws.cos_sq_add_sin_sq t
  have g00 : (build 2 2 fun r c => if r = c then cos t else if r = 1 then sin t else -(sin t)).get 0 0 = cos t := by
    simp [get_build']
  have g01 : (build 2 2 fun r c => if r = c then cos t else if r = 1 then sin t else -(sin t)).get 0 1 = -(sin t) := by
    simp [get_build']
  have g10 : (build 2 2 fun r c => if r = c then cos t else if r = 1 then sin t else -(sin t)).get 1 0 = sin t := by
    simp [get_build']
  have g11 : (build 2 2 fun r c => if r = c then cos t else if r = 1 then sin t else -(sin t)).get 1 1 = cos t := by
    simp [get_build']
  refine isUnitarySmall_two (wf_build _ _ _) rfl rfl ?_ ?_ ?_ ?_ ?_ ?_ ?_ ?_ <;>
    simp only [g00, g01, g10, g11, conj_neg', cc, cs]
  · linear_combination e1
  · ring
  · ring
  · linear_combination e1
  · linear_combination e1
  · ring
  · ring
  · linear_combination e1

theorem isUnitarySmall_Y :
    IsUnitarySmall 1 (build 2 2 fun r c => if r = c then (0 : K) else if r = 1 then i else -i) := by
  have : (build 2 2 fun r c => if r = c then (0 : K) else if r = 1 then i else -i)
      = mono 1 (fun c => 1 - c) (fun c => if c = 0 then i else -i) := by
    unfold mono
    apply build_congr
    intro r c hr hc
    have hr' : r < 2 := hr
    have hc' : c < 2 := hc
    interval_cases r <;> interval_cases c <;> simp
  rw [this]
  refine isUnitarySmall_mono (by decide) (by decide) (by decide) ?_
  intro c _
  split_ifs
  · exact unit_i
  · exact unit_neg_i

/-- **Every specification matrix is unitary when its parameters are real.** -/
theorem specMatrix_unitary {name : String} {θs : List K} {U : Mat K} (h : specMatrix name θs = some U)
    (hreal : ∀ θ ∈ θs, star θ = θ) : ∃ k, IsUnitarySmall k U := by
  unfold specMatrix at h
  split at h
  all_goals first
    | (simp at h; done)
    | (injection h with h; subst h)
  · exact ⟨1, isUnitarySmall_diag fun _ _ => unit_one⟩
  · exact ⟨1, isUnitarySmall_perm (by decide) (by decide) (by decide)⟩
  · exact ⟨1, isUnitarySmall_Y⟩
  · exact ⟨1, isUnitarySmall_diag fun c _ => by split_ifs <;> [exact unit_neg_one; exact unit_one]⟩
  · exact ⟨1, isUnitarySmall_H⟩
  · exact ⟨1, isUnitarySmall_diag fun c _ => by split_ifs <;> [exact unit_i; exact unit_one]⟩
  · exact ⟨1, isUnitarySmall_diag fun c _ => by
      split_ifs <;> [exact unit_cis GateLaws.star_pi4; exact unit_one]⟩
  · exact ⟨2, isUnitarySmall_perm (by decide) (by decide) (by decide)⟩
  · exact ⟨3, isUnitarySmall_perm (by decide) (by decide) (by decide)⟩
  · exact ⟨2, isUnitarySmall_diag fun c _ => by split_ifs <;> [exact unit_neg_one; exact unit_one]⟩
  · exact ⟨2, isUnitarySmall_perm (by decide) (by decide) (by decide)⟩
  · exact ⟨3, isUnitarySmall_perm (by decide) (by decide) (by decide)⟩
  · exact ⟨2, isUnitarySmall_phasedSwap unit_i⟩
  · exact ⟨1, isUnitarySmall_RX (real_half (hreal _ (by simp)))⟩
  · exact ⟨1, isUnitarySmall_RY (real_half (hreal _ (by simp)))⟩
  · exact ⟨1, isUnitarySmall_diag fun c _ => by
      split_ifs <;> [exact unit_cis (real_half (hreal _ (by simp)));
        exact unit_cis (real_neg (real_half (hreal _ (by simp))))]⟩
  · exact ⟨1, isUnitarySmall_diag fun c _ => by
      split_ifs <;> [exact unit_cis (hreal _ (by simp)); exact unit_one]⟩
  · exact ⟨2, isUnitarySmall_diag fun c _ => by
      split_ifs <;> [exact unit_cis (hreal _ (by simp)); exact unit_one]⟩
  · exact ⟨2, isUnitarySmall_diag fun c _ => by
      split_ifs <;> [exact unit_cis (hreal _ (by simp)); exact unit_one]⟩
  · exact ⟨2, isUnitarySmall_diag fun c _ => by
      split_ifs <;> [exact unit_cis (hreal _ (by simp)); exact unit_one]⟩
  · exact ⟨2, isUnitarySmall_diag fun c _ => by
      split_ifs <;> [exact unit_cis (hreal _ (by simp)); exact unit_one]⟩
  · exact ⟨2, isUnitarySmall_phasedSwap (unit_cis (hreal _ (by simp)))⟩

/-- **Every denotation with real parameters is unitary** (induction on the modifier stack), and leaves alone
every qubit that is not listed. -/
theorem denote_unitary {n : Nat} : ∀ (ms : List Modifier) (name : String) (θs : List K) (qs : List Nat) (D : Mat K),
    (∀ q ∈ qs, q < n) → qs.Nodup → (∀ θ ∈ θs, star θ = θ) → denote n ms name θs qs = some D →
    IsUnitary n D ∧ ∀ c, c < n → c ∉ qs → Preserves n c D := by
  intro ms
  induction ms with
  | nil =>
    intro name θs qs D hlt hnd hreal h
    simp only [denote] at h
    cases hs : specMatrix name θs with
    | none => rw [hs] at h; simp at h
    | some U =>
      rw [hs] at h
      simp only at h
      by_cases hU : U.r = 2 ^ qs.length
      · rw [if_pos hU] at h; injection h with h; subst h
        obtain ⟨k, hk⟩ := specMatrix_unitary hs hreal
        have : k = qs.length := Nat.pow_right_injective (le_refl 2) (by show 2 ^ k = 2 ^ qs.length; rw [← hk.2.1, hU])
        subst this
        exact ⟨isUnitary_liftSpec hlt hnd hk, fun c hc hnot => preserves_liftSpec hc hnot⟩
      · rw [if_neg hU] at h; simp at h
  | cons md ms ih =>
    intro name θs qs D hlt hnd hreal h
    cases md with
    | dagger =>
      simp only [denote] at h
      cases h' : denote n ms name θs qs with
      | none => rw [h'] at h; simp at h
      | some D' =>
        rw [h'] at h; simp only [Option.map_some] at h; injection h with h; subst h
        obtain ⟨u, p⟩ := ih name θs qs D' hlt hnd hreal h'
        exact ⟨u.adjoint, fun c hc hnot => preserves_adjoint u.1 (p c hc hnot)⟩
    | controlled =>
      cases qs with
      | nil => simp [denote] at h
      | cons c0 qs' =>
        simp only [denote] at h
        cases h' : denote n ms name θs qs' with
        | none => rw [h'] at h; simp at h
        | some D' =>
          rw [h'] at h; simp only [Option.map_some] at h; injection h with h; subst h
          have hlt' : ∀ q ∈ qs', q < n := fun q hq => hlt q (List.mem_cons_of_mem _ hq)
          have hnd' := List.nodup_cons.mp hnd
          obtain ⟨u, p⟩ := ih name θs qs' D' hlt' hnd'.2 hreal h'
          have hc0 : c0 < n := hlt c0 List.mem_cons_self
          rw [ctrlSpec_eq_forkSpec u.1.2.1 u.1.2.2]
          refine ⟨isUnitary_forkSpec (isUnitary_eye n) u (preserves_eye n c0) (p c0 hc0 hnd'.1), ?_⟩
          intro c hc hnot
          exact preserves_forkSpec (sq_eye n) (preserves_eye n c)
            (p c hc (fun hm => hnot (List.mem_cons_of_mem _ hm)))
    | forked =>
      cases qs with
      | nil => simp [denote] at h
      | cons c0 qs' =>
        simp only [denote] at h
        by_cases hodd : θs.length % 2 ≠ 0
        · rw [if_pos hodd] at h; simp at h
        · rw [if_neg hodd] at h
          have hlt' : ∀ q ∈ qs', q < n := fun q hq => hlt q (List.mem_cons_of_mem _ hq)
          have hnd' := List.nodup_cons.mp hnd
          have hc0 : c0 < n := hlt c0 List.mem_cons_self
          cases h0 : denote n ms name (θs.take (θs.length / 2)) qs' with
          | none => rw [h0] at h; simp at h
          | some D0 =>
            cases h1 : denote n ms name (θs.drop (θs.length / 2)) qs' with
            | none => rw [h0, h1] at h; simp at h
            | some D1 =>
              rw [h0, h1] at h; simp only at h; injection h with h; subst h
              obtain ⟨u0, p0⟩ := ih name _ qs' D0 hlt' hnd'.2
                (fun θ hθ => hreal θ (List.mem_of_mem_take hθ)) h0
              obtain ⟨u1, p1⟩ := ih name _ qs' D1 hlt' hnd'.2
                (fun θ hθ => hreal θ (List.mem_of_mem_drop hθ)) h1
              refine ⟨isUnitary_forkSpec u0 u1 (p0 c0 hc0 hnd'.1) (p1 c0 hc0 hnd'.1), ?_⟩
              intro c hc hnot
              have hnot' : c ∉ qs' := fun hm => hnot (List.mem_cons_of_mem _ hm)
              exact preserves_forkSpec u0.1 (p0 c hc hnot') (p1 c hc hnot')

end
end QV.C15
