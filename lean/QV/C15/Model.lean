import QV.C14.Model
/-
C15 model — the modifier recursion of `gate_matrix` (quil-rs/src/instruction/gate.rs:247-314),
`Gate::dagger / controlled / forked` (gate.rs:155-189), `Gate::to_unitary` (gate.rs:200),
`Program::to_unitary` (program/mod.rs:1025) and `Program::dagger` (program/mod.rs:314).
Import-free apart from the C14 model (tables, lifting, `Mat`, `Outcome`).
-/
namespace QV.C15
open QV.C14 QV.C14.Mat

/-- `GateModifier` -/
inductive Modifier where
  | controlled | dagger | forked
  deriving DecidableEq, Repr

/-- `Gate { name, parameters, qubits, modifiers }`; `modifiers` outermost first, as printed. -/
structure Gate (K : Type) where
  name : String
  params : List (Param K)
  qubits : List Qubit
  mods : List Modifier

section
variable {K : Type} [Zero K] [One K] [Add K] [Sub K] [Mul K] [Neg K] [GateFns K]

/-- `static ZERO` (gate.rs:248): |0⟩⟨0| -/
def projZero : Mat K := ofRows 2 2 [[1, 0], [0, 0]]
/-- `static ONE` (gate.rs:250): |1⟩⟨1| -/
def projOne : Mat K := ofRows 2 2 [[0, 0], [0, 1]]

/-- `kron(&ZERO, &m0) + kron(&ONE, &m1)` -/
def blockSelect (m0 m1 : Mat K) : Mat K := add (kron projZero m0) (kron projOne m1)

/-- `gate_matrix(gate)` (gate.rs:247).  The gate's fields are passed separately because the function
mutates them as it recurses: `modifiers.remove(0)` peels the outermost modifier, `CONTROLLED` / `FORKED`
drop the first remaining qubit (`gate.qubits[1..]` — a panic when no qubit is left), `FORKED` splits the
parameters into halves.  `Outcome.crash` = panic; `Except` = the returned `Result`. -/
def gateMatrix : List Modifier → String → List (Param K) → List Qubit → Outcome (Except GateErr (Mat K))
  | [], name, ps, _ => .ok (baseMatrix name ps)
  | .controlled :: ms, name, ps, qs =>
    match qs with
    | [] => .crash "range start index 1 out of range for slice of length 0"
    | _ :: qs' =>
      (gateMatrix ms name ps qs').bind fun
        | .error e => .ok (.error e)
        | .ok m => .ok (.ok (blockSelect (eye m.r) m))
  | .dagger :: ms, name, ps, qs =>
    (gateMatrix ms name ps qs).bind fun
      | .error e => .ok (.error e)
      | .ok m => .ok (.ok (adjoint m))
  | .forked :: ms, name, ps, qs =>
    if ps.length % 2 ≠ 0 then .ok (.error .forkedOdd)
    else
      match qs with
      | [] => .crash "range start index 1 out of range for slice of length 0"
      | _ :: qs' =>
        (gateMatrix ms name (ps.take (ps.length / 2)) qs').bind fun
          | .error e => .ok (.error e)
          | .ok m0 =>
            (gateMatrix ms name (ps.drop (ps.length / 2)) qs').bind fun
              | .error e => .ok (.error e)
              | .ok m1 => .ok (.ok (blockSelect m0 m1))

/-- `Gate::to_unitary(&mut self, n_qubits)` (gate.rs:200): the qubit check on the *full* qubit list, then
`gate_matrix`, then `lifted_gate_matrix` on the full qubit list. -/
def toUnitary (g : Gate K) (n : Nat) : Outcome (Except GateErr (Mat K)) :=
  match fixedQubits g.qubits with
  | .error e => .ok (.error e)
  | .ok qs =>
    (gateMatrix g.mods g.name g.params g.qubits).bind fun
      | .error e => .ok (.error e)
      | .ok m => (liftedGateMatrix m qs n defaultFuel).bind fun u => .ok (.ok u)

/-- What `Gate::to_unitary(&mut self)` leaves in `self` after a successful call: `gate_matrix` removed every
modifier, each `CONTROLLED` / `FORKED` dropped the first remaining qubit, each `FORKED` kept the second half of
the parameters (`gate.parameters = p1`).  A second call on the same value therefore computes this gate. -/
def consumeFields : List Modifier → List (Param K) → List Qubit → List (Param K) × List Qubit
  | [], ps, qs => (ps, qs)
  | .dagger :: ms, ps, qs => consumeFields ms ps qs
  | .controlled :: ms, ps, qs => consumeFields ms ps qs.tail
  | .forked :: ms, ps, qs => consumeFields ms (ps.drop (ps.length / 2)) qs.tail

def Gate.consumed (g : Gate K) : Gate K :=
  let r := consumeFields g.mods g.params g.qubits
  { name := g.name, params := r.1, qubits := r.2, mods := [] }

/-- `Gate::dagger` (gate.rs:155) -/
def Gate.dagger (g : Gate K) : Gate K := { g with mods := .dagger :: g.mods }
/-- `Gate::controlled` (gate.rs:162) -/
def Gate.controlled (g : Gate K) (c : Qubit) : Gate K :=
  { g with qubits := c :: g.qubits, mods := .controlled :: g.mods }
/-- `Gate::forked` (gate.rs:174): `none` = `ForkedParameterLength` error -/
def Gate.forked (g : Gate K) (c : Qubit) (alt : List (Param K)) : Option (Gate K) :=
  if alt.length ≠ g.params.length then none
  else some { g with mods := .forked :: g.mods, qubits := c :: g.qubits, params := g.params ++ alt }

/-- Projection of a body instruction: a gate, `HALT`, or anything else. -/
inductive Instr (K : Type) where
  | gate : Gate K → Instr K
  | halt : Instr K
  | other : Instr K

/-- errors of `Program::to_unitary` / `Program::dagger` -/
inductive ProgErr where
  | gate : GateErr → ProgErr
  | unsupported : ProgErr
  deriving DecidableEq, Repr

/-- `Program::to_unitary` (program/mod.rs:1025): `umat = U_k · umat` in body order, `HALT` skipped,
anything else an error. -/
def progUnitaryFrom (n : Nat) : List (Instr K) → Mat K → Outcome (Except ProgErr (Mat K))
  | [], umat => .ok (.ok umat)
  | .halt :: is, umat => progUnitaryFrom n is umat
  | .gate g :: is, umat =>
    (toUnitary g n).bind fun
      | .error e => .ok (.error (.gate e))
      | .ok u => progUnitaryFrom n is (mul u umat)
  | .other :: _, _ => .ok (.error .unsupported)

def progUnitary (is : List (Instr K)) (n : Nat) : Outcome (Except ProgErr (Mat K)) :=
  progUnitaryFrom n is (eye (2 ^ n))

/-- `Program::dagger` (program/mod.rs:314): `try_rfold` from the last instruction to the first, appending
`gate.dagger()`; the first non-gate met (from the back) is an error.  `acc` is the new body so far. -/
def progDaggerFrom : List (Instr K) → List (Instr K) → Except ProgErr (List (Instr K))
  | [], acc => .ok acc
  | .gate g :: rev, acc => progDaggerFrom rev (acc ++ [.gate g.dagger])
  | _ :: _, _ => .error .unsupported

def progDagger (is : List (Instr K)) : Except ProgErr (List (Instr K)) :=
  progDaggerFrom is.reverse []

end
end QV.C15
