import QV.C14.Spec
import QV.C15.Model
/-
C15 specification — what the modifiers *mean*, written on the full n-qubit space, entry-wise, with no
reference to Kronecker products, block matrices, swap networks or the order in which `gate_matrix` peels
modifiers:

* `DAGGER G`            = the adjoint of `G`'s operator;
* `CONTROLLED G` on `c q…` = on basis states whose qubit `c` is 0 the identity, on those whose qubit `c` is 1
                            `G`'s operator on `q…`;
* `FORKED G(p…,p'…)` on `c q…` = `G(p…)` on the states whose qubit `c` is 0, `G(p'…)` on those whose qubit `c` is 1.

Modifiers are read outermost-first (as written), each `CONTROLLED` / `FORKED` taking the first remaining
qubit.  The base case is C14's `liftSpec (specMatrix …)`.  Import-free.
-/
namespace QV.C15
open QV.C14 QV.C14.Mat
section
variable {K : Type} [Zero K] [One K] [Add K] [Sub K] [Mul K] [Neg K] [GateFns K]

/-- apply `M` where qubit `c` is 1, the identity where it is 0 -/
def ctrlSpec (c : Nat) (M : Mat K) : Mat K :=
  build M.r M.c fun r c' => if r.testBit c then M.get r c' else (if r = c' then 1 else 0)

/-- apply `M1` where qubit `c` is 1, `M0` where it is 0 -/
def forkSpec (c : Nat) (M0 M1 : Mat K) : Mat K :=
  build M0.r M0.c fun r c' => if r.testBit c then M1.get r c' else M0.get r c'

/-- The operator denoted by `mods name(θs) qs` on `n` qubits (`none`: not a well-formed standard gate
application). -/
def denote (n : Nat) : List Modifier → String → List K → List Nat → Option (Mat K)
  | [], name, θs, qs =>
    match specMatrix name θs with
    | some U => if U.r = 2 ^ qs.length then some (liftSpec U qs n) else none
    | none => none
  | .dagger :: ms, name, θs, qs => (denote n ms name θs qs).map adjoint
  | .controlled :: _, _, _, [] => none
  | .controlled :: ms, name, θs, c :: qs => (denote n ms name θs qs).map (ctrlSpec c)
  | .forked :: _, _, _, [] => none
  | .forked :: ms, name, θs, c :: qs =>
    if θs.length % 2 ≠ 0 then none
    else
      match denote n ms name (θs.take (θs.length / 2)) qs, denote n ms name (θs.drop (θs.length / 2)) qs with
      | some m0, some m1 => some (forkSpec c m0 m1)
      | _, _ => none

/-- A gate-only program denotes the product of its gates' operators, later gates on the left:
`U = U_m · … · U_2 · U_1`. -/
def denoteProg (n : Nat) : List (List Modifier × String × List K × List Nat) → Option (Mat K)
  | [] => some (eye (2 ^ n))
  | (ms, name, θs, qs) :: rest =>
    match denote n ms name θs qs, denoteProg n rest with
    | some u, some r => some (mul r u)
    | _, _ => none

end
end QV.C15
