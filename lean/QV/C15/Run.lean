import QV.Wire
import QV.Shared.GateWire
import QV.Shared.GateProgWire
import QV.C14.Model
import QV.C14.Spec
import QV.C15.Model
import QV.C15.Spec
/-! Driver side of the C15 correspondence check (see docs/C15.md for the streams). -/
namespace QV.C15
open QV QV.GateWire QV.C14

/-- model vs implementation (same IEEE operations up to summation order and libm) -/
def tolAgree : Float := 1e-12
/-- specification composition vs implementation, and unitarity -/
def tolSpec : Float := 1e-10

def handle0 (inp out : Sexp) : CaseResult :=
  match inp with
  | .list [.atom "unitary", g, .atom n] =>
    match decodeGate g, n.toNat?, decodeRes out with
    | some g, some n, some impl =>
      let model := resOfModel (toUnitary g n)
      let kinds := gateErrKinds g
      let agree := resAgreeKinds tolAgree kinds model impl
      let spec := gateSpec g n
      let specOk := match spec, impl with
        | some s, .ok m => closeMat tolSpec s m && isUnitaryF tolSpec m
        | some _, _ => false
        | none, _ => rejectedOk kinds model impl
      { agree := agree, specOk := specOk, nontrivial := spec.isSome && !g.mods.isEmpty,
        tags := [modsTag g.mods, s!"depth{g.mods.length}", s!"g-{g.name}", s!"n{n}", resTag impl,
                 if spec.isSome then "spec" else "nospec"],
        detail := s!"model-vs-impl: {resDiff model impl}; spec-vs-impl: " ++
          (match spec, impl with | some s, .ok m => showDiff s m ++ s!" unitary={isUnitaryF tolSpec m}"
                                 | some _, r => s!"spec defined, impl {resShow r}" | none, _ => "n/a") }
    | _, _, _ => .bad "undecodable unitary case"
  | .list [.atom "unitary2", g, .atom n] =>
    -- `to_unitary(&mut self)` twice on the same value: the second call sees the consumed gate
    match decodeGate g, n.toNat?, out with
    | some g, some n, .list [.atom "twice", o1, o2] =>
      match decodeRes o1, decodeRes o2 with
      | some impl1, some impl2 =>
        let m1 := resOfModel (toUnitary g n)
        let firstOk := match impl1 with | .ok _ => true | _ => false
        -- only after a successful first call is the consumed state fully determined
        let m2 := resOfModel (toUnitary g.consumed n)
        let agree := resAgreeKinds tolAgree (gateErrKinds g) m1 impl1 && (!firstOk || resAgreeKinds tolAgree (gateErrKinds g.consumed) m2 impl2)
        let spec1 := gateSpec g n
        let spec2 := gateSpec g.consumed n
        let ok (s : Option M) (r : Res) : Bool := match s, r with
          | some s, .ok m => closeMat tolSpec s m && isUnitaryF tolSpec m
          | some _, _ => false
          | none, _ => true
        { agree := agree, specOk := ok spec1 impl1 && (!firstOk || ok spec2 impl2),
          nontrivial := spec1.isSome && !g.mods.isEmpty,
          tags := ["twice", modsTag g.mods, s!"g-{g.name}", s!"n{n}", resTag impl1, "second-" ++ resTag impl2],
          detail := s!"first: {resDiff m1 impl1}; second: {resDiff m2 impl2}" }
      | _, _ => .bad "undecodable unitary2 result"
    | _, _, _ => .bad "undecodable unitary2 case"
  | .list [.atom "prog", .atom n, .list (.atom "instrs" :: is)] =>
    match decodeAll decodeInstr is, n.toNat?, out with
    | some is, some n, .list [.atom "progres", r1, d, r3] =>
      match decodeRes r1 with
      | none => .bad "undecodable program result"
      | some impl =>
        let model := progRes (progUnitary is n)
        let kinds := progErrKinds is
        let agree1 := resAgreeKinds tolAgree kinds model impl
        -- dagger: the new body, and its unitary
        let mDag := progDagger is
        let (agree2, dagOk, dagTag) : Bool × Bool × String :=
          match mDag, d with
          | .error _, .list [.atom "dagger-err"] => (true, true, "dagger-err")
          | .ok body, .list [.atom "dagger", .list (.atom "instrs" :: is'), r2] =>
            -- compared after decoding (parameters by the value the model's evaluator gives them, bit for bit)
            let sameBody := match decodeAll decodeInstr is' with
              | some b' => Sexp.list (body.map encodeInstr) == Sexp.list (b'.map encodeInstr)
              | none => false
            match decodeRes r2 with
            | none => (false, true, "dagger-undecodable")
            | some impl2 =>
              let model2 := progRes (progUnitary body n)
              -- specification on the implementation's outputs: the dagger program's unitary is the adjoint
              let ok := match impl, impl2 with
                | .ok u, .ok u' => closeMat tolSpec (Mat.adjoint u) u'
                | .ok _, _ => false
                | _, _ => true
              (sameBody && resAgreeKinds tolAgree (progErrKinds body) model2 impl2, ok, "dagger-ok")
          | _, _ => (false, true, "dagger-mismatch")
        -- specification of the program unitary: the product of the gates' denotations, HALT skipped
        let gates := is.filterMap fun | .gate g => some g | _ => none
        let spec : Option M := progSpec is n
        let specOk1 := match spec, impl with
          | some s, .ok m => closeMat tolSpec s m && isUnitaryF tolSpec m
          | some _, _ => false
          | none, _ => rejectedOk kinds model impl
        -- `to_unitary(&self)` called again after `dagger()` returns the very same result
        let stable := r1 == r3
        { agree := agree1 && agree2 && stable, specOk := specOk1 && dagOk && stable, nontrivial := spec.isSome && gates.length ≥ 2,
          tags := ["prog", s!"len{is.length}", s!"n{n}", resTag impl, dagTag, if spec.isSome then "spec" else "nospec"],
          detail := s!"unitary model-vs-impl: {resDiff model impl}; agreeDagger={agree2}; daggerAdjoint={dagOk}; secondCallSame={stable}; spec: " ++
            (match spec, impl with | some s, .ok m => showDiff s m | _, _ => "n/a") }
    | _, _, _ => .bad "undecodable program case"
  | .list [.atom "api", g, .list (.atom "ops" :: ops)] =>
    match decodeGate g with
    | none => .bad "undecodable api case"
    | some g =>
      let step (acc : Option (Option (Gate C64))) (op : Sexp) : Option (Option (Gate C64)) :=
        match acc with
        | none => none                       -- undecodable
        | some none => some none             -- an earlier `forked` failed: the harness stopped there
        | some (some g) =>
          match op with
          | .list [.atom "D"] => some (some g.dagger)
          | .list [.atom "C", .atom q] => q.toNat?.map fun q => some (g.controlled (.fixed q))
          | .list [.atom "F", .atom q, .list alt] =>
            match q.toNat?, decodeAll decodeParam alt with
            | some q, some alt => some (g.forked (.fixed q) alt)
            | _, _ => none
          | _ => none
      match ops.foldl step (some (some g)) with
      | none => .bad "undecodable api op"
      | some r =>
        let mOut : Sexp := match r with | some g' => encodeGate g' | none => .list [.atom "forked-err"]
        -- specification of the builders: the new modifier is outermost, its qubit is first, FORKED appends
        -- the alternative parameters (checked structurally on the implementation's output for the last op)
        let outC : Sexp := match decodeGate out with | some g' => encodeGate g' | none => out
        { agree := mOut == outC, specOk := mOut == outC, nontrivial := true,
          tags := ["api", s!"ops{ops.length}", if r.isSome then "built" else "forked-err"],
          detail := s!"model={mOut} impl={out}" }
  | _ => .bad "undecodable input"

/-- `handle0` plus the known-finding classifier tag -/
def handle (inp out : Sexp) : CaseResult :=
  let r := handle0 inp out
  { r with tags := r.tags ++ kfTags "C15" inp }

end QV.C15

def main : IO UInt32 := QV.runMain QV.C15.handle
