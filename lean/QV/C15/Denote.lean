import QV.C15.Lemmas
import QV.C14.Lift
import QV.C14.Term
/-
C15: the modifier recursion of `gate_matrix` followed by the lifting equals the full-space denotation
`denote` (QV/C15/Spec.lean), for every modifier stack (induction on the stack).

Route: (1) `gate_matrix` computes the block-matrix semantics `smallDen` on the gate's own space;
(2) `liftSpec` turns block structure into the full-space modifiers: `liftSpec (blockSelect m0 m1) (c :: qs) =
forkSpec c (liftSpec m0 qs) (liftSpec m1 qs)`, `liftSpec (adjoint m) = adjoint (liftSpec m)`, `liftSpec I = I`;
(3) C14's lifting theorem.
-/
namespace QV.C15
open QV.C14 QV.C14.Mat GateFns

set_option linter.unusedSectionVars false
set_option linter.unusedVariables false

section
variable {K : Type} [CommRing K] [StarRing K] [GateFns K] [GateLaws K]

/-- block-matrix semantics of a modifier stack on the gate's own space -/
def smallDen : List Modifier → String → List K → Option (Mat K)
  | [], name, θs => specMatrix name θs
  | .dagger :: ms, name, θs => (smallDen ms name θs).map adjoint
  | .controlled :: ms, name, θs => (smallDen ms name θs).map fun m => blockSelect (eye m.r) m
  | .forked :: ms, name, θs =>
    if θs.length % 2 ≠ 0 then none
    else
      match smallDen ms name (θs.take (θs.length / 2)), smallDen ms name (θs.drop (θs.length / 2)) with
      | some m0, some m1 => some (blockSelect m0 m1)
      | _, _ => none

/-- number of qubits consumed by the modifiers -/
def extraQubits : List Modifier → Nat
  | [] => 0
  | .dagger :: ms => extraQubits ms
  | _ :: ms => extraQubits ms + 1

theorem blockSelect_dims (m0 m1 : Mat K) : (blockSelect m0 m1).r = 2 * m0.r ∧ (blockSelect m0 m1).c = 2 * m0.c := by
  simp [blockSelect, projZero, Mat.ofRows]

theorem wf_blockSelect (m0 m1 : Mat K) : (blockSelect m0 m1).WF := wf_add _ _

/-- every `smallDen` is a well-formed square matrix, and both halves of a fork have the same size -/
theorem smallDen_square : ∀ (ms : List Modifier) (name : String) (θs : List K) (m : Mat K),
    smallDen ms name θs = some m → m.WF ∧ m.r = m.c := by
  intro ms
  induction ms with
  | nil => intro name θs m h; exact specMatrix_square h
  | cons md ms ih =>
    intro name θs m h
    cases md with
    | dagger =>
      simp only [smallDen] at h
      cases h' : smallDen ms name θs with
      | none => rw [h'] at h; simp at h
      | some m' =>
        rw [h'] at h; simp only [Option.map_some] at h; injection h with h; subst h
        exact ⟨wf_adjoint _, by simp [(ih _ _ _ h').2]⟩
    | controlled =>
      simp only [smallDen] at h
      cases h' : smallDen ms name θs with
      | none => rw [h'] at h; simp at h
      | some m' =>
        rw [h'] at h; simp only [Option.map_some] at h; injection h with h; subst h
        refine ⟨wf_blockSelect _ _, ?_⟩
        rw [(blockSelect_dims _ _).1, (blockSelect_dims _ _).2]; simp [(ih _ _ _ h').2]
    | forked =>
      simp only [smallDen] at h
      by_cases hodd : θs.length % 2 ≠ 0
      · rw [if_pos hodd] at h; simp at h
      · rw [if_neg hodd] at h
        cases h0 : smallDen ms name (θs.take (θs.length / 2)) with
        | none => rw [h0] at h; simp at h
        | some m0 =>
          cases h1 : smallDen ms name (θs.drop (θs.length / 2)) with
          | none => rw [h0, h1] at h; simp at h
          | some m1 =>
            rw [h0, h1] at h; simp only at h; injection h with h; subst h
            refine ⟨wf_blockSelect _ _, ?_⟩
            rw [(blockSelect_dims _ _).1, (blockSelect_dims _ _).2, (ih _ _ _ h0).2]

/-- (1) `gate_matrix` computes `smallDen` whenever enough qubits are listed for the modifiers -/
theorem gateMatrix_eq_smallDen : ∀ (ms : List Modifier) (name : String) (θs : List K) (qs : List Qubit) (m : Mat K),
    smallDen ms name θs = some m → extraQubits ms ≤ qs.length →
    gateMatrix ms name (θs.map Param.num) qs = .ok (.ok m) := by
  intro ms
  induction ms with
  | nil =>
    intro name θs qs m h _
    simp only [smallDen] at h
    simp only [gateMatrix]
    have := baseMatrix_eq_spec name θs
    rw [h] at this
    cases hb : baseMatrix name (θs.map Param.num) with
    | ok m' => rw [hb] at this; simp only [Except.toOption] at this; injection this with this; rw [this]
    | error e => rw [hb] at this; simp [Except.toOption] at this
  | cons md ms ih =>
    intro name θs qs m h hq
    cases md with
    | dagger =>
      simp only [smallDen] at h
      cases h' : smallDen ms name θs with
      | none => rw [h'] at h; simp at h
      | some m' =>
        rw [h'] at h; simp only [Option.map_some] at h; injection h with h; subst h
        simp only [gateMatrix, ih name θs qs m' h' (by simpa [extraQubits] using hq), Outcome.bind]
    | controlled =>
      simp only [smallDen] at h
      cases h' : smallDen ms name θs with
      | none => rw [h'] at h; simp at h
      | some m' =>
        rw [h'] at h; simp only [Option.map_some] at h; injection h with h; subst h
        cases qs with
        | nil => simp [extraQubits] at hq
        | cons q qs' =>
          simp only [gateMatrix, ih name θs qs' m' h' (by simpa [extraQubits] using hq), Outcome.bind]
    | forked =>
      simp only [smallDen] at h
      by_cases hodd : θs.length % 2 ≠ 0
      · rw [if_pos hodd] at h; simp at h
      · rw [if_neg hodd] at h
        cases h0 : smallDen ms name (θs.take (θs.length / 2)) with
        | none => rw [h0] at h; simp at h
        | some m0 =>
          cases h1 : smallDen ms name (θs.drop (θs.length / 2)) with
          | none => rw [h0, h1] at h; simp at h
          | some m1 =>
            rw [h0, h1] at h; simp only at h; injection h with h; subst h
            cases qs with
            | nil => simp [extraQubits] at hq
            | cons q qs' =>
              have hq' : extraQubits ms ≤ qs'.length := by simpa [extraQubits] using hq
              have e0 := ih name (θs.take (θs.length / 2)) qs' m0 h0 hq'
              have e1 := ih name (θs.drop (θs.length / 2)) qs' m1 h1 hq'
              have hlen : (θs.map Param.num).length = θs.length := List.length_map _
              simp only [gateMatrix, hlen, if_neg hodd, ← List.map_take, ← List.map_drop, e0, e1, Outcome.bind]

/-! ## (2) `liftSpec` turns block structure into the full-space modifiers -/

theorem foldl_gateIndex (x : Nat) : ∀ (qs : List Nat) (a : Nat),
    qs.foldl (fun acc q => 2 * acc + bit x q) a = a * 2 ^ qs.length + gateIndex qs x := by
  intro qs
  induction qs with
  | nil => intro a; simp [gateIndex]
  | cons q qs ih =>
    intro a
    simp only [List.foldl_cons, List.length_cons, gateIndex]
    rw [ih, ih (2 * 0 + bit x q)]
    ring

theorem gateIndex_cons (c : Nat) (qs : List Nat) (x : Nat) :
    gateIndex (c :: qs) x = bit x c * 2 ^ qs.length + gateIndex qs x := by
  unfold gateIndex
  simp only [List.foldl_cons]
  rw [foldl_gateIndex]
  simp [gateIndex]

theorem bit_lt_two (x p : Nat) : bit x p < 2 := by
  unfold bit; cases x.testBit p <;> simp

theorem bit_eq_iff (x y p q : Nat) : bit x p = bit y q ↔ x.testBit p = y.testBit q := by
  unfold bit; cases x.testBit p <;> cases y.testBit q <;> simp

theorem bit_eq_zero_iff (x p : Nat) : bit x p = 0 ↔ x.testBit p = false := by
  unfold bit; cases x.testBit p <;> simp

/-- entries of `|0⟩⟨0| ⊗ m0 + |1⟩⟨1| ⊗ m1` -/
theorem get_blockSelect {m0 m1 : Mat K} {N : Nat} (hN : 0 < N) (h0r : m0.r = N) (h0c : m0.c = N)
    (h1r : m1.r = N) (h1c : m1.c = N) {a b : Nat} (ha : a < 2 * N) (hb : b < 2 * N) :
    (blockSelect m0 m1).get a b =
      if a / N = b / N then (if a / N = 0 then m0.get (a % N) (b % N) else m1.get (a % N) (b % N)) else 0 := by
  unfold blockSelect
  have hzr : (projZero : Mat K).r = 2 := rfl
  have hzc : (projZero : Mat K).c = 2 := rfl
  have hor : (projOne : Mat K).r = 2 := rfl
  have hoc : (projOne : Mat K).c = 2 := rfl
  rw [get_add (by simp only [kron_r, hzr, h0r]; exact ha) (by simp only [kron_c, hzc, h0c]; exact hb),
    get_kron (by simp only [hzr, h0r]; exact ha) (by simp only [hzc, h0c]; exact hb),
    get_kron (by simp only [hor, h1r]; exact ha) (by simp only [hoc, h1c]; exact hb)]
  simp only [h0r, h0c, h1r, h1c]
  have ha2 : a / N < 2 := by rw [Nat.div_lt_iff_lt_mul hN]; exact ha
  have hb2 : b / N < 2 := by rw [Nat.div_lt_iff_lt_mul hN]; exact hb
  generalize a / N = x at ha2 ⊢
  generalize b / N = y at hb2 ⊢
  interval_cases x <;> interval_cases y <;> simp [projZero, projOne, Mat.ofRows, Mat.get_build']

theorem agreeOutside_iff (qs : List Nat) (n r c : Nat) :
    agreeOutside qs n r c = true ↔ ∀ p, p < n → p ∈ qs ∨ r.testBit p = c.testBit p := by
  unfold agreeOutside
  simp [List.all_eq_true]

theorem agreeOutside_symm (qs : List Nat) (n r c : Nat) : agreeOutside qs n r c = agreeOutside qs n c r := by
  have : ∀ r c, agreeOutside qs n r c = true → agreeOutside qs n c r = true := by
    intro r c h
    rw [agreeOutside_iff] at h ⊢
    intro p hp; rcases h p hp with h | h
    · exact Or.inl h
    · exact Or.inr h.symm
  cases h1 : agreeOutside qs n r c
  · cases h2 : agreeOutside qs n c r
    · rfl
    · rw [this c r h2] at h1; cases h1
  · exact (this r c h1).symm

theorem agreeOutside_cons {c n : Nat} {qs : List Nat} (hc : c < n) (hnot : c ∉ qs) (r c' : Nat) :
    agreeOutside qs n r c' = true ↔ (agreeOutside (c :: qs) n r c' = true ∧ r.testBit c = c'.testBit c) := by
  rw [agreeOutside_iff, agreeOutside_iff]
  constructor
  · intro h
    refine ⟨fun p hp => ?_, ?_⟩
    · rcases h p hp with h | h
      · exact Or.inl (List.mem_cons_of_mem _ h)
      · exact Or.inr h
    · rcases h c hc with h | h
      · exact absurd h hnot
      · exact h
  · rintro ⟨h, hb⟩ p hp
    rcases h p hp with h | h
    · rcases List.mem_cons.mp h with h | h
      · subst h; exact Or.inr hb
      · exact Or.inl h
    · exact Or.inr h

/-- FORKED / CONTROLLED on the full space: the block matrix `|0⟩⟨0|⊗m0 + |1⟩⟨1|⊗m1` placed on `c :: qs` selects,
by qubit `c`, between `m0` and `m1` placed on `qs` -/
theorem liftSpec_blockSelect {m0 m1 : Mat K} {c n : Nat} {qs : List Nat}
    (h0r : m0.r = 2 ^ qs.length) (h0c : m0.c = 2 ^ qs.length) (h1r : m1.r = 2 ^ qs.length)
    (h1c : m1.c = 2 ^ qs.length) (hc : c < n) (hnot : c ∉ qs) :
    liftSpec (blockSelect m0 m1) (c :: qs) n = forkSpec c (liftSpec m0 qs n) (liftSpec m1 qs n) := by
  refine Mat.ext' (wf_build _ _ _) (wf_build _ _ _) rfl rfl ?_
  intro r c' hr hc'
  have hr' : r < 2 ^ n := hr
  have hc'' : c' < 2 ^ n := hc'
  have hN : 0 < 2 ^ qs.length := by positivity
  unfold liftSpec forkSpec
  rw [get_build hr' hc'', get_build (by simpa using hr') (by simpa using hc''), get_build hr' hc'',
    get_build hr' hc'']
  have hg1 := gateIndex_lt qs r
  have hg2 := gateIndex_lt qs c'
  have hb1 := bit_lt_two r c
  have hb2 := bit_lt_two c' c
  have hdiv : ∀ x, (bit x c * 2 ^ qs.length + gateIndex qs x) / 2 ^ qs.length = bit x c := by
    intro x
    rw [Nat.add_comm, Nat.add_mul_div_right _ _ hN, Nat.div_eq_of_lt (gateIndex_lt qs x), Nat.zero_add]
  have hmod : ∀ x, (bit x c * 2 ^ qs.length + gateIndex qs x) % 2 ^ qs.length = gateIndex qs x := by
    intro x
    rw [Nat.add_comm, Nat.add_mul_mod_self_right, Nat.mod_eq_of_lt (gateIndex_lt qs x)]
  have hlt : ∀ x, bit x c * 2 ^ qs.length + gateIndex qs x < 2 * 2 ^ qs.length := by
    intro x
    have h1 := bit_lt_two x c
    have h2 := gateIndex_lt qs x
    have h3 : bit x c * 2 ^ qs.length ≤ 1 * 2 ^ qs.length := Nat.mul_le_mul_right _ (by omega)
    generalize 2 ^ qs.length = N at *
    omega
  by_cases hA : agreeOutside (c :: qs) n r c' = true
  · rw [if_pos hA, gateIndex_cons, gateIndex_cons,
      get_blockSelect hN h0r h0c h1r h1c (hlt r) (hlt c'), hdiv, hdiv, hmod, hmod]
    by_cases hbit : r.testBit c = c'.testBit c
    · have hagree : agreeOutside qs n r c' = true := (agreeOutside_cons hc hnot r c').mpr ⟨hA, hbit⟩
      rw [if_pos ((bit_eq_iff _ _ _ _).mpr hbit), if_pos hagree, if_pos hagree]
      cases hb : r.testBit c
      · rw [if_pos ((bit_eq_zero_iff _ _).mpr hb)]; simp
      · have : ¬ bit r c = 0 := by rw [bit_eq_zero_iff, hb]; simp
        rw [if_neg this]; simp
    · have hagree : ¬ agreeOutside qs n r c' = true := fun h => hbit ((agreeOutside_cons hc hnot r c').mp h).2
      rw [if_neg (fun h => hbit ((bit_eq_iff _ _ _ _).mp h)), if_neg hagree, if_neg hagree]
      simp
  · have hagree : ¬ agreeOutside qs n r c' = true := fun h => hA ((agreeOutside_cons hc hnot r c').mp h).1
    rw [if_neg hA, if_neg hagree, if_neg hagree]
    simp

/-- DAGGER on the full space -/
theorem liftSpec_adjoint {m : Mat K} {qs : List Nat} {n : Nat} (hr : m.r = 2 ^ qs.length) (hc : m.c = 2 ^ qs.length) :
    liftSpec (adjoint m) qs n = adjoint (liftSpec m qs n) := by
  refine Mat.ext' (wf_build _ _ _) (wf_adjoint _) rfl rfl ?_
  intro r c hr' hc'
  have hr'' : r < 2 ^ n := hr'
  have hc'' : c < 2 ^ n := hc'
  have e1 : (liftSpec (adjoint m) qs n).get r c =
      if agreeOutside qs n r c = true then conj (m.get (gateIndex qs c) (gateIndex qs r)) else 0 := by
    unfold liftSpec
    rw [get_build hr'' hc'']
    by_cases hA : agreeOutside qs n r c = true
    · rw [if_pos hA, if_pos hA,
        get_adjoint (by rw [hc]; exact gateIndex_lt _ _) (by rw [hr]; exact gateIndex_lt _ _)]
    · rw [if_neg hA, if_neg hA]
  have e2 : (adjoint (liftSpec m qs n)).get r c = conj ((liftSpec m qs n).get c r) :=
    get_adjoint (A := liftSpec m qs n) hr'' hc''
  have e3 : (liftSpec m qs n).get c r =
      if agreeOutside qs n c r = true then m.get (gateIndex qs c) (gateIndex qs r) else 0 := by
    unfold liftSpec; rw [get_build hc'' hr'']
  rw [e1, e2, e3, agreeOutside_symm qs n c r]
  by_cases hA : agreeOutside qs n r c = true
  · rw [if_pos hA, if_pos hA]
  · rw [if_neg hA, if_neg hA, QV.C14.conj_zero]

/-- the identity placed anywhere is the identity -/
theorem liftSpec_eye (qs : List Nat) (n : Nat) : liftSpec (eye (2 ^ qs.length) : Mat K) qs n = eye (2 ^ n) := by
  refine Mat.ext' (wf_build _ _ _) (wf_eye _) rfl rfl ?_
  intro r c hr hc
  have hr' : r < 2 ^ n := hr
  have hc' : c < 2 ^ n := hc
  unfold liftSpec
  rw [get_build hr' hc', get_eye hr' hc', get_eye (gateIndex_lt _ _) (gateIndex_lt _ _)]
  by_cases hrc : r = c
  · subst hrc
    have : agreeOutside qs n r r = true := by rw [agreeOutside_iff]; intro p _; exact Or.inr rfl
    simp [this]
  · rw [if_neg hrc]
    by_cases hA : agreeOutside qs n r c = true
    · rw [if_pos hA]
      have : ¬ gateIndex qs r = gateIndex qs c := by
        intro hg
        apply hrc
        rw [eq_iff_testBit_lt hr' hc']
        intro p hp
        rw [agreeOutside_iff] at hA
        rcases hA p hp with hmem | h
        · obtain ⟨i, hi, hi'⟩ := List.getElem_of_mem hmem
          have := congrArg (fun x => x.testBit (qs.length - 1 - i)) hg
          simp only [testBit_gateIndex qs _ _ (show qs.length - 1 - i < qs.length by omega)] at this
          have e : qs.length - 1 - (qs.length - 1 - i) = i := by omega
          rw [e, List.getD_eq_getElem _ _ hi, hi'] at this
          exact this
        · exact h
      rw [if_neg this]
    · rw [if_neg hA]

theorem ctrlSpec_eq_forkSpec {M : Mat K} {c n : Nat} (hr : M.r = 2 ^ n) (hc : M.c = 2 ^ n) :
    ctrlSpec c M = forkSpec c (eye (2 ^ n)) M := by
  unfold ctrlSpec forkSpec
  rw [hr, hc]
  apply build_congr
  intro i j hi hj
  rw [get_eye hi hj]

/-! ## (3) the denotation is the lifted block semantics, for every stack -/

theorem liftSpec_dims (m : Mat K) (qs : List Nat) (n : Nat) :
    (liftSpec m qs n).r = 2 ^ n ∧ (liftSpec m qs n).c = 2 ^ n := ⟨rfl, rfl⟩

theorem denote_some {n : Nat} : ∀ (ms : List Modifier) (name : String) (θs : List K) (qs : List Nat) (D : Mat K),
    (∀ q ∈ qs, q < n) → qs.Nodup → denote n ms name θs qs = some D →
    ∃ m, smallDen ms name θs = some m ∧ m.r = 2 ^ qs.length ∧ extraQubits ms ≤ qs.length ∧
      D = liftSpec m qs n := by
  intro ms
  induction ms with
  | nil =>
    intro name θs qs D hlt hnd h
    simp only [denote] at h
    cases hs : specMatrix name θs with
    | none => rw [hs] at h; simp at h
    | some U =>
      rw [hs] at h
      simp only at h
      by_cases hU : U.r = 2 ^ qs.length
      · rw [if_pos hU] at h; injection h with h
        exact ⟨U, hs, hU, by simp [extraQubits], h.symm⟩
      · rw [if_neg hU] at h; simp at h
  | cons md ms ih =>
    intro name θs qs D hlt hnd h
    cases md with
    | dagger =>
      simp only [denote] at h
      cases h' : denote n ms name θs qs with
      | none => rw [h'] at h; simp at h
      | some D' =>
        rw [h'] at h; simp only [Option.map_some] at h; injection h with h
        obtain ⟨m', hm', hr', hex, hD'⟩ := ih name θs qs D' hlt hnd h'
        have hsq := (smallDen_square _ _ _ _ hm').2
        refine ⟨adjoint m', by simp [smallDen, hm'], by simp [← hsq, hr'], by simpa [extraQubits] using hex, ?_⟩
        rw [← h, hD', liftSpec_adjoint hr' (by rw [← hsq]; exact hr')]
    | controlled =>
      cases qs with
      | nil => simp [denote] at h
      | cons c qs' =>
        simp only [denote] at h
        cases h' : denote n ms name θs qs' with
        | none => rw [h'] at h; simp at h
        | some D' =>
          rw [h'] at h; simp only [Option.map_some] at h; injection h with h
          have hlt' : ∀ q ∈ qs', q < n := fun q hq => hlt q (List.mem_cons_of_mem _ hq)
          have hnd' := (List.nodup_cons.mp hnd)
          obtain ⟨m', hm', hr', hex, hD'⟩ := ih name θs qs' D' hlt' hnd'.2 h'
          have hsq := (smallDen_square _ _ _ _ hm').2
          have hc' : m'.c = 2 ^ qs'.length := by rw [← hsq]; exact hr'
          refine ⟨blockSelect (eye m'.r) m', by simp [smallDen, hm'], ?_, by simpa [extraQubits] using hex, ?_⟩
          · rw [(blockSelect_dims _ _).1, eye_r, hr', List.length_cons, pow_succ]; ring
          · rw [← h, hD', ctrlSpec_eq_forkSpec (liftSpec_dims _ _ _).1 (liftSpec_dims _ _ _).2,
              ← liftSpec_eye (K := K) qs' n, hr',
              liftSpec_blockSelect (by simp) (by simp) hr' hc' (hlt c List.mem_cons_self) hnd'.1]
    | forked =>
      cases qs with
      | nil => simp [denote] at h
      | cons c qs' =>
        simp only [denote] at h
        by_cases hodd : θs.length % 2 ≠ 0
        · rw [if_pos hodd] at h; simp at h
        · rw [if_neg hodd] at h
          have hlt' : ∀ q ∈ qs', q < n := fun q hq => hlt q (List.mem_cons_of_mem _ hq)
          have hnd' := (List.nodup_cons.mp hnd)
          cases h0 : denote n ms name (θs.take (θs.length / 2)) qs' with
          | none => rw [h0] at h; simp at h
          | some D0 =>
            cases h1 : denote n ms name (θs.drop (θs.length / 2)) qs' with
            | none => rw [h0, h1] at h; simp at h
            | some D1 =>
              rw [h0, h1] at h; simp only at h; injection h with h
              obtain ⟨m0, hm0, hr0, hex, hD0⟩ := ih name _ qs' D0 hlt' hnd'.2 h0
              obtain ⟨m1, hm1, hr1, _, hD1⟩ := ih name _ qs' D1 hlt' hnd'.2 h1
              have hc0 : m0.c = 2 ^ qs'.length := by rw [← (smallDen_square _ _ _ _ hm0).2]; exact hr0
              have hc1 : m1.c = 2 ^ qs'.length := by rw [← (smallDen_square _ _ _ _ hm1).2]; exact hr1
              refine ⟨blockSelect m0 m1, by simp [smallDen, hodd, hm0, hm1], ?_,
                by simpa [extraQubits] using hex, ?_⟩
              · rw [(blockSelect_dims _ _).1, hr0, List.length_cons, pow_succ]; ring
              · rw [← h, hD0, hD1, liftSpec_blockSelect hr0 hc0 hr1 hc1 (hlt c List.mem_cons_self) hnd'.1]

end
end QV.C15
