import QV.C14.Lemmas
import QV.C15.Model
import QV.C15.Spec
import Mathlib.Algebra.Star.BigOperators
/-
C15 lemmas: algebra of `adjoint` and `mul` on `Mat K` (K a commutative star ring with `GateLaws`), and the
program-level folds.
-/
namespace QV.C15
open QV.C14 QV.C14.Mat GateFns

set_option linter.unusedSectionVars false
set_option linter.unusedVariables false

section
variable {K : Type} [CommRing K] [StarRing K] [GateFns K] [GateLaws K]

theorem conj_zero' : conj (0 : K) = 0 := by rw [GateLaws.conj_eq]; exact star_zero K
theorem conj_one' : conj (1 : K) = 1 := by rw [GateLaws.conj_eq]; exact star_one K

/-- `A · I = A` -/
theorem mul_eye {A : Mat K} (hA : A.WF) : mul A (eye A.c) = A := by
  refine Mat.ext' (A := mul A (eye A.c)) (B := A) (wf_mul _ _) hA rfl rfl ?_
  intro i j hi hj
  simp only [mul_r, mul_c, eye_c] at hi hj
  rw [get_mul hi (by simpa using hj)]
  rw [Finset.sum_eq_single j]
  · rw [get_eye hj hj]; simp
  · intro k hk hne
    rw [get_eye (by simpa using hk) hj]; simp [hne]
  · intro h; simp at h; omega

/-- `Iᴴ = I` -/
theorem adjoint_eye (n : Nat) : adjoint (eye n : Mat K) = eye n := by
  refine Mat.ext' (A := adjoint (eye n)) (B := eye n) (wf_adjoint _) (wf_eye _) rfl rfl ?_
  intro i j hi hj
  simp only [adjoint_r, adjoint_c, eye_r, eye_c] at hi hj
  rw [get_adjoint (by simpa using hi) (by simpa using hj), get_eye hj hi, get_eye hi hj]
  by_cases h : i = j
  · subst h; simp [conj_one']
  · have : ¬ j = i := fun e => h e.symm
    simp [h, this, conj_zero']

/-- `(A · B)ᴴ = Bᴴ · Aᴴ` -/
theorem adjoint_mul (A B : Mat K) (h : A.c = B.r) : adjoint (mul A B) = mul (adjoint B) (adjoint A) := by
  refine Mat.ext' (A := adjoint (mul A B)) (B := mul (adjoint B) (adjoint A)) (wf_adjoint _) (wf_mul _ _) rfl rfl ?_
  intro i j hi hj
  simp only [adjoint_r, adjoint_c, mul_r, mul_c] at hi hj
  rw [get_adjoint (by simpa using hi) (by simpa using hj), get_mul hj hi, get_mul (by simpa using hi) (by simpa using hj)]
  rw [GateLaws.conj_eq, star_sum]
  simp only [adjoint_c]
  rw [h]
  apply Finset.sum_congr rfl
  intro k hk
  have hk' : k < B.r := by simpa using hk
  rw [get_adjoint hi hk', get_adjoint (by rw [h]; exact hk') hj, star_mul', GateLaws.conj_eq, GateLaws.conj_eq, mul_comm]

/-- `Aᴴᴴ = A` -/
theorem adjoint_adjoint {A : Mat K} (hA : A.WF) : adjoint (adjoint A) = A := by
  refine Mat.ext' (A := adjoint (adjoint A)) (B := A) (wf_adjoint _) hA rfl rfl ?_
  intro i j hi hj
  simp only [adjoint_r, adjoint_c] at hi hj
  rw [get_adjoint (by simpa using hi) (by simpa using hj), get_adjoint hj hi, GateLaws.conj_eq, GateLaws.conj_eq, star_star]

/-! ## Programs -/

/-- `U_m · … · U_1` for the gate list `[g_1, …, g_m]` and a gate-to-matrix assignment `U` -/
def prodOf (U : Gate K → Mat K) (n : Nat) : List (Gate K) → Mat K
  | [] => eye (2 ^ n)
  | g :: gs => mul (prodOf U n gs) (U g)

/-- `U g` is a well-formed `2^n × 2^n` matrix -/
def Sq (n : Nat) (A : Mat K) : Prop := A.WF ∧ A.r = 2 ^ n ∧ A.c = 2 ^ n

theorem sq_eye (n : Nat) : Sq n (eye (2 ^ n) : Mat K) := ⟨wf_eye _, rfl, rfl⟩
theorem sq_mul {n : Nat} {A B : Mat K} (hA : Sq n A) (hB : Sq n B) : Sq n (mul A B) :=
  ⟨wf_mul _ _, hA.2.1, hB.2.2⟩
theorem sq_adjoint {n : Nat} {A : Mat K} (hA : Sq n A) : Sq n (adjoint A) :=
  ⟨wf_adjoint _, hA.2.2, hA.2.1⟩

theorem sq_prodOf (U : Gate K → Mat K) (n : Nat) (gs : List (Gate K)) (hU : ∀ g ∈ gs, Sq n (U g)) :
    Sq n (prodOf U n gs) := by
  induction gs with
  | nil => exact sq_eye n
  | cons g gs ih =>
    exact sq_mul (ih fun g' h => hU g' (List.mem_cons_of_mem _ h)) (hU g List.mem_cons_self)

theorem progUnitaryFrom_gates (U : Gate K → Mat K) (n : Nat) (gs : List (Gate K))
    (hU : ∀ g ∈ gs, toUnitary g n = .ok (.ok (U g)) ∧ Sq n (U g)) (acc : Mat K) (hacc : Sq n acc) :
    progUnitaryFrom n (gs.map Instr.gate) acc = .ok (.ok (mul (prodOf U n gs) acc)) := by
  induction gs generalizing acc with
  | nil =>
    simp only [List.map_nil, progUnitaryFrom, prodOf]
    have := eye_mul hacc.1
    rw [hacc.2.1] at this
    rw [this]
  | cons g gs ih =>
    have hg := hU g List.mem_cons_self
    have hrest : ∀ g' ∈ gs, toUnitary g' n = .ok (.ok (U g')) ∧ Sq n (U g') :=
      fun g' h => hU g' (List.mem_cons_of_mem _ h)
    simp only [List.map_cons, progUnitaryFrom, hg.1, Outcome.bind]
    rw [ih hrest _ (sq_mul hg.2 hacc)]
    simp only [prodOf]
    have hp := sq_prodOf U n gs (fun g' h => (hrest g' h).2)
    rw [Mat.mul_assoc' (by rw [hp.2.2, hg.2.2.1]) (by rw [hg.2.2.2, hacc.2.1])]

theorem prodOf_append (U : Gate K → Mat K) (n : Nat) (gs : List (Gate K)) (x : Gate K)
    (hU : ∀ g ∈ gs, Sq n (U g)) (hx : Sq n (U x)) :
    prodOf U n (gs ++ [x]) = mul (U x) (prodOf U n gs) := by
  induction gs with
  | nil =>
    simp only [List.nil_append, prodOf]
    have e1 := eye_mul hx.1
    have e2 := mul_eye hx.1
    rw [hx.2.1] at e1; rw [hx.2.2] at e2
    rw [e1, e2]
  | cons g gs ih =>
    have hg := hU g List.mem_cons_self
    have hrest : ∀ g' ∈ gs, Sq n (U g') := fun g' h => hU g' (List.mem_cons_of_mem _ h)
    have hp := sq_prodOf U n gs hrest
    simp only [List.cons_append, prodOf]
    rw [ih hrest, Mat.mul_assoc' (by rw [hx.2.2, hp.2.1]) (by rw [hp.2.2, hg.2.1])]

theorem progDaggerFrom_gates (gs : List (Gate K)) (acc : List (Instr K)) :
    progDaggerFrom (gs.map Instr.gate) acc = .ok (acc ++ gs.map fun g => Instr.gate g.dagger) := by
  induction gs generalizing acc with
  | nil => simp [progDaggerFrom]
  | cons g gs ih => simp [progDaggerFrom, ih]

/-- remove the outermost modifier (inverse of `Gate.dagger` on its range) -/
def undagger (g : Gate K) : Gate K := { g with mods := g.mods.tail }
theorem undagger_dagger (g : Gate K) : undagger g.dagger = g := by
  cases g; rfl

theorem prodOf_dagger (U : Gate K → Mat K) (n : Nat) (gs : List (Gate K)) (hU : ∀ g ∈ gs, Sq n (U g)) :
    prodOf (fun g' => adjoint (U (undagger g'))) n (gs.reverse.map Gate.dagger) = adjoint (prodOf U n gs) := by
  induction gs with
  | nil => simp only [List.reverse_nil, List.map_nil, prodOf, adjoint_eye]
  | cons g t ih =>
    have hg := hU g List.mem_cons_self
    have hrest : ∀ g' ∈ t, Sq n (U g') := fun g' h => hU g' (List.mem_cons_of_mem _ h)
    have hp := sq_prodOf U n t hrest
    rw [List.reverse_cons, List.map_append, List.map_cons, List.map_nil, prodOf_append]
    · rw [ih hrest]
      simp only [undagger_dagger, prodOf]
      rw [adjoint_mul _ _ (by rw [hp.2.2, hg.2.1])]
    · intro g' hg'
      simp only [List.mem_map, List.mem_reverse] at hg'
      obtain ⟨a, ha, rfl⟩ := hg'
      rw [undagger_dagger]; exact sq_adjoint (hrest a ha)
    · rw [undagger_dagger]; exact sq_adjoint hg

end
end QV.C15
