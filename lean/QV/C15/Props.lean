import QV.C15.Lemmas
import QV.C15.Denote
import QV.C15.Unitary
import QV.C14.Props
import QV.C14.Complex
/-
C15 — Gate modifiers, daggers and program unitaries compose correctly.
Property theorems only; `K` is any commutative star ring with `GateLaws K` (e.g. `ℂ`, QV/C14/Complex.lean).
-/
namespace QV.C15
open QV.C14 QV.C14.Mat GateFns

variable {K : Type} [CommRing K] [StarRing K] [GateFns K] [GateLaws K]

/-- **A program's unitary is the product of its gates' unitaries, in order** (any length): if every gate
`g` of the body has the `2^n × 2^n` unitary `U g`, `Program::to_unitary` returns `U_m · … · U_1`. -/
theorem C15_program_product (U : Gate K → Mat K) (n : Nat) (gs : List (Gate K))
    (hU : ∀ g ∈ gs, toUnitary g n = .ok (.ok (U g)) ∧ Sq n (U g)) :
    progUnitary (gs.map Instr.gate) n = .ok (.ok (prodOf U n gs)) := by
  unfold progUnitary
  rw [progUnitaryFrom_gates U n gs hU _ (sq_eye n)]
  have := mul_eye (sq_prodOf U n gs (fun g h => (hU g h).2)).1
  rw [(sq_prodOf U n gs (fun g h => (hU g h).2)).2.2] at this
  rw [this]

/-- **The unitary of the dagger program is the adjoint** (any length): `Program::dagger` succeeds on a
gate-only program, and if `DAGGER g` has the adjoint of `g`'s unitary for every gate of the body, the new
program's unitary is the adjoint of the old one's. -/
theorem C15_program_dagger (U : Gate K → Mat K) (n : Nat) (gs : List (Gate K))
    (hU : ∀ g ∈ gs, toUnitary g n = .ok (.ok (U g)) ∧ Sq n (U g))
    (hD : ∀ g ∈ gs, toUnitary g.dagger n = .ok (.ok (adjoint (U g)))) :
    ∃ body, progDagger (gs.map Instr.gate) = .ok body ∧
      progUnitary body n = .ok (.ok (adjoint (prodOf U n gs))) := by
  refine ⟨(gs.reverse.map Gate.dagger).map Instr.gate, ?_, ?_⟩
  · unfold progDagger
    rw [← List.map_reverse, progDaggerFrom_gates]
    simp
  · rw [C15_program_product (fun g' => adjoint (U (undagger g'))) n (gs.reverse.map Gate.dagger)]
    · rw [prodOf_dagger U n gs (fun g h => (hU g h).2)]
    · intro g' hg'
      simp only [List.mem_map, List.mem_reverse] at hg'
      obtain ⟨a, ha, rfl⟩ := hg'
      rw [undagger_dagger]
      exact ⟨hD a ha, sq_adjoint (hU a ha).2⟩

/-! ### Modifiers -/

/-- a gate application as the specification sees it: modifiers (outermost first), name, parameters, fixed qubits -/
abbrev SpecGate (K : Type) := List Modifier × String × List K × List Nat

/-- the `Gate` value of a `SpecGate` (constant parameters, fixed qubits) -/
def toGate (sg : SpecGate K) : Gate K := ⟨sg.2.1, sg.2.2.1.map Param.num, sg.2.2.2.map Qubit.fixed, sg.1⟩

private theorem fixedQubits_map_fixed (l : List Nat) : fixedQubits (l.map Qubit.fixed) = .ok l := by
  induction l with
  | nil => rfl
  | cons q l ih => simp only [List.map_cons, fixedQubits, ih]; rfl

/-- **Modifiers compose as written, for ALL stacks** (induction on the modifier list; no depth bound).
If the specification gives `ms name(θs) qs` a meaning `D` on `n ≤ 5` qubits (`denote`: DAGGER = adjoint;
CONTROLLED = identity where the first remaining qubit is 0, the rest of the stack where it is 1; FORKED =
the first / second half of the parameters where the first remaining qubit is 0 / 1; base = C14's lifted
specification matrix) and `qs` are distinct qubits `< n`, then `Gate::to_unitary` returns exactly `D` — no
error, no panic, modifiers applied outermost-first, each CONTROLLED/FORKED consuming the leading qubit. -/
theorem C15_toUnitary_eq_denote (ms : List Modifier) (name : String) (θs : List K) (qs : List Nat) (n : Nat)
    (D : Mat K) (hn : n ≤ 5) (hv : validPlacement qs n = true) (hD : denote n ms name θs qs = some D) :
    toUnitary (toGate (ms, name, θs, qs)) n = .ok (.ok D) := by
  obtain ⟨_, hlt, hnd⟩ := (C14_validPlacement_iff qs n).mp hv
  obtain ⟨m, hm, hr, hex, hDm⟩ := denote_some ms name θs qs D hlt hnd hD
  have hc : m.c = 2 ^ qs.length := by rw [← (smallDen_square _ _ _ _ hm).2]; exact hr
  unfold toUnitary toGate
  simp only
  rw [fixedQubits_map_fixed, gateMatrix_eq_smallDen ms name θs _ m hm (by simpa using hex)]
  simp only [Outcome.bind]
  rw [C14_lift_eq_spec hn hv hr hc, hDm]

/-- **DAGGER conjugate-transposes**: `Gate::dagger` of a gate with meaning `D` has meaning `Dᴴ`, and
`to_unitary` returns it. -/
theorem C15_dagger_adjoint (ms : List Modifier) (name : String) (θs : List K) (qs : List Nat) (n : Nat)
    (D : Mat K) (hn : n ≤ 5) (hv : validPlacement qs n = true) (hD : denote n ms name θs qs = some D) :
    toUnitary (toGate (ms, name, θs, qs)).dagger n = .ok (.ok (adjoint D)) :=
  C15_toUnitary_eq_denote (.dagger :: ms) name θs qs n (adjoint D) hn hv (by simp [denote, hD])

/-- **CONTROLLED adds a leading control qubit and applies the gate only when it is 1**: entry `(r, c')` of the
result is the base operator's entry when bit `c` of `r` is 1, and the identity's when it is 0. -/
theorem C15_controlled (ms : List Modifier) (name : String) (θs : List K) (c : Nat) (qs : List Nat) (n : Nat)
    (D : Mat K) (hn : n ≤ 5) (hv : validPlacement (c :: qs) n = true) (hD : denote n ms name θs qs = some D) :
    toUnitary ((toGate (ms, name, θs, qs)).controlled (.fixed c)) n = .ok (.ok (ctrlSpec c D)) ∧
    ∀ r c', r < 2 ^ n → c' < 2 ^ n →
      (ctrlSpec c D).get r c' = if r.testBit c then D.get r c' else (if r = c' then 1 else 0) := by
  have hdims : D.r = 2 ^ n ∧ D.c = 2 ^ n := by
    obtain ⟨_, hlt, hnd⟩ := (C14_validPlacement_iff (c :: qs) n).mp hv
    obtain ⟨m, _, _, _, hDm⟩ := denote_some ms name θs qs D
      (fun q hq => hlt q (List.mem_cons_of_mem _ hq)) (List.nodup_cons.mp hnd).2 hD
    rw [hDm]; exact liftSpec_dims _ _ _
  refine ⟨C15_toUnitary_eq_denote (.controlled :: ms) name θs (c :: qs) n _ hn hv (by simp [denote, hD]), ?_⟩
  intro r c' hr hc'
  unfold ctrlSpec
  rw [get_build (by rw [hdims.1]; exact hr) (by rw [hdims.2]; exact hc')]

/-- **FORKED on a leading qubit selects the first or second half of the parameters.** -/
theorem C15_forked (ms : List Modifier) (name : String) (θ0 θ1 : List K) (c : Nat) (qs : List Nat) (n : Nat)
    (D0 D1 : Mat K) (hn : n ≤ 5) (hv : validPlacement (c :: qs) n = true) (hlen : θ1.length = θ0.length)
    (hD0 : denote n ms name θ0 qs = some D0) (hD1 : denote n ms name θ1 qs = some D1) :
    (∃ g, (toGate (ms, name, θ0, qs)).forked (.fixed c) (θ1.map Param.num) = some g ∧
      toUnitary g n = .ok (.ok (forkSpec c D0 D1))) ∧
    ∀ r c', r < 2 ^ n → c' < 2 ^ n →
      (forkSpec c D0 D1).get r c' = if r.testBit c then D1.get r c' else D0.get r c' := by
  have hdims : D0.r = 2 ^ n ∧ D0.c = 2 ^ n := by
    obtain ⟨_, hlt, hnd⟩ := (C14_validPlacement_iff (c :: qs) n).mp hv
    obtain ⟨m, _, _, _, hDm⟩ := denote_some ms name θ0 qs D0
      (fun q hq => hlt q (List.mem_cons_of_mem _ hq)) (List.nodup_cons.mp hnd).2 hD0
    rw [hDm]; exact liftSpec_dims _ _ _
  have htake : (θ0 ++ θ1).take ((θ0 ++ θ1).length / 2) = θ0 := by
    have : (θ0 ++ θ1).length / 2 = θ0.length := by simp [hlen]; omega
    rw [this, List.take_left']
    rfl
  have hdrop : (θ0 ++ θ1).drop ((θ0 ++ θ1).length / 2) = θ1 := by
    have : (θ0 ++ θ1).length / 2 = θ0.length := by simp [hlen]; omega
    rw [this, List.drop_left']
    rfl
  have heven : ¬ (θ0 ++ θ1).length % 2 ≠ 0 := by simp [hlen]; omega
  refine ⟨⟨toGate (.forked :: ms, name, θ0 ++ θ1, c :: qs), ?_, ?_⟩, ?_⟩
  · simp [Gate.forked, toGate, hlen]
  · exact C15_toUnitary_eq_denote (.forked :: ms) name (θ0 ++ θ1) (c :: qs) n _ hn hv
      (by simp only [denote, if_neg heven, htake, hdrop, hD0, hD1])
  · intro r c' hr hc'
    unfold forkSpec
    rw [get_build (by rw [hdims.1]; exact hr) (by rw [hdims.2]; exact hc')]

/-! ### Programs, in terms of the specification -/

/-- the matrix `to_unitary` returns (the identity when it does not return one) -/
def unitaryOf (n : Nat) (g : Gate K) : Mat K :=
  match toUnitary g n with
  | .ok (.ok u) => u
  | _ => eye (2 ^ n)

private theorem denote_sq {n : Nat} {ms : List Modifier} {name : String} {θs : List K} {qs : List Nat} {D : Mat K}
    (hv : validPlacement qs n = true) (hD : denote n ms name θs qs = some D) : Sq n D := by
  obtain ⟨_, hlt, hnd⟩ := (C14_validPlacement_iff qs n).mp hv
  obtain ⟨m, _, _, _, hDm⟩ := denote_some ms name θs qs D hlt hnd hD
  rw [hDm]; exact ⟨wf_build _ _ _, rfl, rfl⟩

private theorem program_aux (n : Nat) (hn : n ≤ 5) : ∀ (sgs : List (SpecGate K)) (P : Mat K),
    (∀ sg ∈ sgs, validPlacement sg.2.2.2 n = true) → denoteProg n sgs = some P →
    (∀ g ∈ sgs.map toGate, (toUnitary g n = .ok (.ok (unitaryOf n g)) ∧ Sq n (unitaryOf n g)) ∧
        toUnitary g.dagger n = .ok (.ok (adjoint (unitaryOf n g)))) ∧
      prodOf (unitaryOf n) n (sgs.map toGate) = P := by
  intro sgs
  induction sgs with
  | nil =>
    intro P _ h
    simp only [denoteProg] at h
    injection h with h
    exact ⟨by simp, by simp [prodOf, h]⟩
  | cons sg rest ih =>
    intro P hv h
    obtain ⟨ms, name, θs, qs⟩ := sg
    simp only [denoteProg] at h
    cases hd : denote n ms name θs qs with
    | none => rw [hd] at h; simp at h
    | some D =>
      cases hr : denoteProg n rest with
      | none => rw [hd, hr] at h; simp at h
      | some R =>
        rw [hd, hr] at h; simp only at h; injection h with h
        have hv0 : validPlacement qs n = true := hv (ms, name, θs, qs) List.mem_cons_self
        obtain ⟨ih1, ih2⟩ := ih R (fun sg hsg => hv sg (List.mem_cons_of_mem _ hsg)) hr
        have e1 := C15_toUnitary_eq_denote ms name θs qs n D hn hv0 hd
        have e2 := C15_dagger_adjoint ms name θs qs n D hn hv0 hd
        have hU : unitaryOf n (toGate (ms, name, θs, qs)) = D := by unfold unitaryOf; rw [e1]
        refine ⟨?_, ?_⟩
        · intro g hg
          simp only [List.map_cons, List.mem_cons] at hg
          rcases hg with rfl | hg
          · rw [hU]; exact ⟨⟨e1, denote_sq hv0 hd⟩, e2⟩
          · exact ih1 g hg
        · simp only [List.map_cons, prodOf, ih2, hU, h]

/-- **Programs against the specification** (any length): for a gate-only program whose gates are well-formed
applications to distinct qubits `< n ≤ 5`, with `denoteProg` = the product `U_m · … · U_1` of the gates'
denotations: `Program::to_unitary` returns exactly that product, `Program::dagger` succeeds, and the dagger
program's `to_unitary` returns its adjoint. -/
theorem C15_program_eq_denote (n : Nat) (hn : n ≤ 5) (sgs : List (SpecGate K)) (P : Mat K)
    (hv : ∀ sg ∈ sgs, validPlacement sg.2.2.2 n = true) (hP : denoteProg n sgs = some P) :
    progUnitary ((sgs.map toGate).map Instr.gate) n = .ok (.ok P) ∧
    ∃ body, progDagger ((sgs.map toGate).map Instr.gate) = .ok body ∧
      progUnitary body n = .ok (.ok (adjoint P)) := by
  obtain ⟨h1, h2⟩ := program_aux n hn sgs P hv hP
  refine ⟨?_, ?_⟩
  · rw [C15_program_product (unitaryOf n) n _ (fun g hg => (h1 g hg).1), h2]
  · have := C15_program_dagger (unitaryOf n) n _ (fun g hg => (h1 g hg).1) (fun g hg => (h1 g hg).2)
    rw [h2] at this
    exact this

/-! ### Unitarity -/

/-- **Every computed gate unitary is unitary** (all stacks; real parameters): under the hypotheses of
`C15_toUnitary_eq_denote` and `star θ = θ` for every parameter, the matrix `D` that `Gate::to_unitary`
returns is a well-formed `2^n × 2^n` matrix with `Dᴴ·D = I` and `D·Dᴴ = I`. -/
theorem C15_gate_unitary (ms : List Modifier) (name : String) (θs : List K) (qs : List Nat) (n : Nat)
    (D : Mat K) (hn : n ≤ 5) (hv : validPlacement qs n = true) (hreal : ∀ θ ∈ θs, star θ = θ)
    (hD : denote n ms name θs qs = some D) :
    toUnitary (toGate (ms, name, θs, qs)) n = .ok (.ok D) ∧
      Sq n D ∧ mul (adjoint D) D = eye (2 ^ n) ∧ mul D (adjoint D) = eye (2 ^ n) := by
  obtain ⟨_, hlt, hnd⟩ := (C14_validPlacement_iff qs n).mp hv
  exact ⟨C15_toUnitary_eq_denote ms name θs qs n D hn hv hD, (denote_unitary ms name θs qs D hlt hnd hreal hD).1⟩

/-- **Every program unitary is unitary** (any length): the product denoted by a program of well-formed gate
applications with real parameters is unitary (and by `C15_program_eq_denote` it is what `Program::to_unitary`
returns for `n ≤ 5`). -/
theorem C15_program_unitary (n : Nat) : ∀ (sgs : List (SpecGate K)) (P : Mat K),
    (∀ sg ∈ sgs, validPlacement sg.2.2.2 n = true) → (∀ sg ∈ sgs, ∀ θ ∈ sg.2.2.1, star θ = θ) →
    denoteProg n sgs = some P →
    Sq n P ∧ mul (adjoint P) P = eye (2 ^ n) ∧ mul P (adjoint P) = eye (2 ^ n) := by
  intro sgs
  induction sgs with
  | nil =>
    intro P _ _ h
    simp only [denoteProg] at h
    injection h with h; subst h
    exact isUnitary_eye n
  | cons sg rest ih =>
    intro P hv hreal h
    obtain ⟨ms, name, θs, qs⟩ := sg
    simp only [denoteProg] at h
    cases hd : denote n ms name θs qs with
    | none => rw [hd] at h; simp at h
    | some D =>
      cases hr : denoteProg n rest with
      | none => rw [hd, hr] at h; simp at h
      | some R =>
        rw [hd, hr] at h; simp only at h; injection h with h; subst h
        have hv0 : validPlacement qs n = true := hv (ms, name, θs, qs) List.mem_cons_self
        obtain ⟨_, hlt, hnd⟩ := (C14_validPlacement_iff qs n).mp hv0
        have uD := (denote_unitary ms name θs qs D hlt hnd
          (hreal (ms, name, θs, qs) List.mem_cons_self) hd).1
        have uR := ih R (fun sg hsg => hv sg (List.mem_cons_of_mem _ hsg))
          (fun sg hsg => hreal sg (List.mem_cons_of_mem _ hsg)) hr
        exact IsUnitary.mul uR uD

/-- non-vacuity over `ℂ`: `FORKED CONTROLLED RX(a, b) 2 1 0` on 3 qubits has a denotation, so the theorems
above apply to it (this is the stack the unrepaired code got wrong). -/
example (a b : ℂ) : ∃ D, denote 3 [.forked, .controlled] "RX" [a, b] [2, 1, 0] = some D ∧
    toUnitary (toGate ([.forked, .controlled], "RX", [a, b], [2, 1, 0])) 3 = .ok (.ok D) := by
  have h : (denote 3 [.forked, .controlled] "RX" [a, b] [2, 1, 0]).isSome = true := by
    simp [denote, specMatrix]
  obtain ⟨D, hD⟩ := Option.isSome_iff_exists.mp h
  exact ⟨D, hD, C15_toUnitary_eq_denote _ _ _ _ 3 D (by norm_num) (by decide) hD⟩

/-! ### The same for ALL `n` (C14's variant proof of termination removes the bound) -/

/-- `C15_toUnitary_eq_denote` without the bound `n ≤ 5`. -/
theorem C15_toUnitary_eq_denote_alln (ms : List Modifier) (name : String) (θs : List K) (qs : List Nat) (n : Nat)
    (D : Mat K) (hv : validPlacement qs n = true) (hD : denote n ms name θs qs = some D) :
    toUnitary (toGate (ms, name, θs, qs)) n = .ok (.ok D) := by
  obtain ⟨_, hlt, hnd⟩ := (C14_validPlacement_iff qs n).mp hv
  obtain ⟨m, hm, hr, hex, hDm⟩ := denote_some ms name θs qs D hlt hnd hD
  have hc : m.c = 2 ^ qs.length := by rw [← (smallDen_square _ _ _ _ hm).2]; exact hr
  unfold toUnitary toGate
  simp only
  rw [fixedQubits_map_fixed, gateMatrix_eq_smallDen ms name θs _ m hm (by simpa using hex)]
  simp only [Outcome.bind]
  have := C14_lift_eq_spec_alln (K := K) 14 hv hr hc
  have hdf : defaultFuel = 14 + 2 := rfl
  rw [hdf, this, hDm]

/-- `C15_dagger_adjoint` for all `n`. -/
theorem C15_dagger_adjoint_alln (ms : List Modifier) (name : String) (θs : List K) (qs : List Nat) (n : Nat)
    (D : Mat K) (hv : validPlacement qs n = true) (hD : denote n ms name θs qs = some D) :
    toUnitary (toGate (ms, name, θs, qs)).dagger n = .ok (.ok (adjoint D)) :=
  C15_toUnitary_eq_denote_alln (.dagger :: ms) name θs qs n (adjoint D) hv (by simp [denote, hD])

/-- `C15_gate_unitary` for all `n`: every gate unitary computed from real parameters on distinct qubits is
what the specification says and is unitary. -/
theorem C15_gate_unitary_alln (ms : List Modifier) (name : String) (θs : List K) (qs : List Nat) (n : Nat)
    (D : Mat K) (hv : validPlacement qs n = true) (hreal : ∀ θ ∈ θs, star θ = θ)
    (hD : denote n ms name θs qs = some D) :
    toUnitary (toGate (ms, name, θs, qs)) n = .ok (.ok D) ∧
      Sq n D ∧ mul (adjoint D) D = eye (2 ^ n) ∧ mul D (adjoint D) = eye (2 ^ n) := by
  obtain ⟨_, hlt, hnd⟩ := (C14_validPlacement_iff qs n).mp hv
  exact ⟨C15_toUnitary_eq_denote_alln ms name θs qs n D hv hD, (denote_unitary ms name θs qs D hlt hnd hreal hD).1⟩

private theorem program_aux_alln (n : Nat) : ∀ (sgs : List (SpecGate K)) (P : Mat K),
    (∀ sg ∈ sgs, validPlacement sg.2.2.2 n = true) → denoteProg n sgs = some P →
    (∀ g ∈ sgs.map toGate, (toUnitary g n = .ok (.ok (unitaryOf n g)) ∧ Sq n (unitaryOf n g)) ∧
        toUnitary g.dagger n = .ok (.ok (adjoint (unitaryOf n g)))) ∧
      prodOf (unitaryOf n) n (sgs.map toGate) = P := by
  intro sgs
  induction sgs with
  | nil =>
    intro P _ h
    simp only [denoteProg] at h
    injection h with h
    exact ⟨by simp, by simp [prodOf, h]⟩
  | cons sg rest ih =>
    intro P hv h
    obtain ⟨ms, name, θs, qs⟩ := sg
    simp only [denoteProg] at h
    cases hd : denote n ms name θs qs with
    | none => rw [hd] at h; simp at h
    | some D =>
      cases hr : denoteProg n rest with
      | none => rw [hd, hr] at h; simp at h
      | some R =>
        rw [hd, hr] at h; simp only at h; injection h with h
        have hv0 : validPlacement qs n = true := hv (ms, name, θs, qs) List.mem_cons_self
        obtain ⟨ih1, ih2⟩ := ih R (fun sg hsg => hv sg (List.mem_cons_of_mem _ hsg)) hr
        have e1 := C15_toUnitary_eq_denote_alln ms name θs qs n D hv0 hd
        have e2 := C15_dagger_adjoint_alln ms name θs qs n D hv0 hd
        have hU : unitaryOf n (toGate (ms, name, θs, qs)) = D := by unfold unitaryOf; rw [e1]
        refine ⟨?_, ?_⟩
        · intro g hg
          simp only [List.map_cons, List.mem_cons] at hg
          rcases hg with rfl | hg
          · rw [hU]; exact ⟨⟨e1, denote_sq hv0 hd⟩, e2⟩
          · exact ih1 g hg
        · simp only [List.map_cons, prodOf, ih2, hU, h]

/-- `C15_program_eq_denote` for all `n` (and any program length). -/
theorem C15_program_eq_denote_alln (n : Nat) (sgs : List (SpecGate K)) (P : Mat K)
    (hv : ∀ sg ∈ sgs, validPlacement sg.2.2.2 n = true) (hP : denoteProg n sgs = some P) :
    progUnitary ((sgs.map toGate).map Instr.gate) n = .ok (.ok P) ∧
    ∃ body, progDagger ((sgs.map toGate).map Instr.gate) = .ok body ∧
      progUnitary body n = .ok (.ok (adjoint P)) := by
  obtain ⟨h1, h2⟩ := program_aux_alln n sgs P hv hP
  refine ⟨?_, ?_⟩
  · rw [C15_program_product (unitaryOf n) n _ (fun g hg => (h1 g hg).1), h2]
  · have := C15_program_dagger (unitaryOf n) n _ (fun g hg => (h1 g hg).1) (fun g hg => (h1 g hg).2)
    rw [h2] at this
    exact this

/-- non-vacuity of the unitarity theorem over `ℂ` with real angles -/
example (a b : ℝ) : ∃ D, toUnitary (toGate ([.forked, .controlled], "RX", [(a : ℂ), (b : ℂ)], [2, 1, 0])) 3 = .ok (.ok D) ∧
    mul (adjoint D) D = eye (2 ^ 3) := by
  have h : (denote 3 [.forked, .controlled] "RX" [(a : ℂ), (b : ℂ)] [2, 1, 0]).isSome = true := by
    simp [denote, specMatrix]
  obtain ⟨D, hD⟩ := Option.isSome_iff_exists.mp h
  have := C15_gate_unitary _ _ _ _ 3 D (by norm_num) (by decide)
    (by intro θ hθ; simp at hθ; rcases hθ with rfl | rfl <;> exact Complex.conj_ofReal _) hD
  exact ⟨D, this.1, this.2.2.1⟩

end QV.C15
