import QV.C15.Lemmas
import QV.C14.Complex
/-
C15 — Gate modifiers, daggers and program unitaries compose correctly.
Property theorems only; `K` is any commutative star ring with `GateLaws K` (e.g. `ℂ`, QV/C14/Complex.lean).
-/
namespace QV.C15
open QV.C14 QV.C14.Mat GateFns

variable {K : Type} [CommRing K] [StarRing K] [GateFns K] [GateLaws K]

/-- **A program's unitary is the product of its gates' unitaries, in order** (any length): if every gate
`g` of the body has the `2^n × 2^n` unitary `U g`, `Program::to_unitary` returns `U_m · … · U_1`. -/
theorem C15_program_product (U : Gate K → Mat K) (n : Nat) (gs : List (Gate K))
    (hU : ∀ g ∈ gs, toUnitary g n = .ok (.ok (U g)) ∧ Sq n (U g)) :
    progUnitary (gs.map Instr.gate) n = .ok (.ok (prodOf U n gs)) := by
  unfold progUnitary
  rw [progUnitaryFrom_gates U n gs hU _ (sq_eye n)]
  have := mul_eye (sq_prodOf U n gs (fun g h => (hU g h).2)).1
  rw [(sq_prodOf U n gs (fun g h => (hU g h).2)).2.2] at this
  rw [this]

/-- **The unitary of the dagger program is the adjoint** (any length): `Program::dagger` succeeds on a
gate-only program, and if `DAGGER g` has the adjoint of `g`'s unitary for every gate of the body, the new
program's unitary is the adjoint of the old one's. -/
theorem C15_program_dagger (U : Gate K → Mat K) (n : Nat) (gs : List (Gate K))
    (hU : ∀ g ∈ gs, toUnitary g n = .ok (.ok (U g)) ∧ Sq n (U g))
    (hD : ∀ g ∈ gs, toUnitary g.dagger n = .ok (.ok (adjoint (U g)))) :
    ∃ body, progDagger (gs.map Instr.gate) = .ok body ∧
      progUnitary body n = .ok (.ok (adjoint (prodOf U n gs))) := by
  refine ⟨(gs.reverse.map Gate.dagger).map Instr.gate, ?_, ?_⟩
  · unfold progDagger
    rw [← List.map_reverse, progDaggerFrom_gates]
    simp
  · rw [C15_program_product (fun g' => adjoint (U (undagger g'))) n (gs.reverse.map Gate.dagger)]
    · rw [prodOf_dagger U n gs (fun g h => (hU g h).2)]
    · intro g' hg'
      simp only [List.mem_map, List.mem_reverse] at hg'
      obtain ⟨a, ha, rfl⟩ := hg'
      rw [undagger_dagger]
      exact ⟨hD a ha, sq_adjoint (hU a ha).2⟩

end QV.C15
