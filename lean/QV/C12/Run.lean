import QV.Wire
import QV.Shared.ExprWire
import QV.C12.Model
import QV.C12.Spec
/-! Driver side of the C12 correspondence check.

input   `(c12 e (amb (c re im) …) std)`     e: expression; amb: numbers alive outside e; std: the table `stdEnvs`
output  `(out e' (vals xRE xIM xRE' xIM' …) [alt])`  e' = `e.into_simplified()`; per assignment the value of e and of
                                              e' as computed by the real `Expression::evaluate`
        `alt = (alt same u1 u2 mself mout mrev)`  the other entry points (see harness/src/bin/c12.rs): the in-place
                                              `simplify()`, `Gate::to_unitary` of `PHASE(e)`, `PHASE(e')`, and
                                              `CalibrationIdentifier::matches` for (e,e), (e,e'), (e',e)

`agree`  : the model's simplified tree equals e' (structure exactly; numeric leaves bit for bit or within 1e-12),
           and the shared evaluator (`QV.eval` over `CFloat`) reproduces the implementation's 16 values.
`specOk` : the Bool specification on the implementation's output e' — see `valueVerdict` and `structSpecB`.
-/
namespace QV.C12
open QV QV.ExprWire


/-! Float constants: a scientific literal inside a function is converted (`Float.ofScientific`, arbitrary-precision
arithmetic) every time it is evaluated; as top-level constants they are converted once. -/
def k1em6 : Float := 1e-6
def k1em9 : Float := 1e-9
def k1em12 : Float := 1e-12
def k1e150 : Float := 1e150
def kZero : Float := 0.0
def kOne : Float := 1.0

/-! ### assignments -/

structure Env where
  x : CFloat
  y : CFloat
  a0 : Float
  a1 : Float

private def fb (n : UInt64) : Float := Float.ofBits n

/-- The 8 assignments of `harness/src/bin/c12.rs` (`envs`), bit for bit: 4 generic (complex non-real variables),
then x = 0; x = 1; y = 0 ∧ a[0] = 0; y = 1 ∧ a[0] = 1. -/
def stdEnvs : List Env := [
  ⟨(fb 0x3FE76AE7D566CF42, fb 0x3FF3594AF4F0D845), (fb 0xBFF6A0902DE00D1B, fb 0x3FE2793DD97F62B7), fb 0x3FE62DE00D1B7176, fb 0xBFF531F8A0902DE0⟩,
  ⟨(fb 0xBFEAED916872B021, fb 0x3FE14A2339C0EBEE), (fb 0x3FD78BAC710CB296, fb 0xC001E3886594AF4F), fb 0xBFFC5C28F5C28F5C, fb 0x3FDECBFB15B573EB⟩,
  ⟨(fb 0x4000A29C779A6B51, fb 0xBFED18FC504816F0), (fb 0xBFDAA161E4F765FE, fb 0xBFE4EA4A8C154C98), fb 0x40026BB98C7E2824, fb 0x3FF193DD97F62B6B⟩,
  ⟨(fb 0xBFF20DED288CE704, fb 0xBFFA5182A9930BE1), (fb 0x3FF33BCD35A85879, fb 0x3FED4F0D844D013B), fb 0xBFE2786C226809D5, fb 0xC005521FF2E48E8A⟩,
  ⟨(fb 0x0000000000000000, fb 0x0000000000000000), (fb 0xBFF6A0902DE00D1B, fb 0x3FE2793DD97F62B7), fb 0x3FE62DE00D1B7176, fb 0xBFF531F8A0902DE0⟩,
  ⟨(fb 0x3FF0000000000000, fb 0x0000000000000000), (fb 0x3FD78BAC710CB296, fb 0xC001E3886594AF4F), fb 0xBFFC5C28F5C28F5C, fb 0x3FDECBFB15B573EB⟩,
  ⟨(fb 0x4000A29C779A6B51, fb 0xBFED18FC504816F0), (fb 0x0000000000000000, fb 0x0000000000000000), fb 0x0000000000000000, fb 0x3FF193DD97F62B6B⟩,
  ⟨(fb 0xBFF20DED288CE704, fb 0xBFFA5182A9930BE1), (fb 0x3FF0000000000000, fb 0x0000000000000000), fb 0x3FF0000000000000, fb 0xC005521FF2E48E8A⟩ ]

def Env.rho (ε : Env) : VarEnv CFloat := fun n => if n == "x" then some ε.x else if n == "y" then some ε.y else none
def Env.mu (ε : Env) : MemEnv CFloat := fun n =>
  if n == "a" then some [CFloat.ofReal ε.a0, CFloat.ofReal ε.a1] else none

/-! ### the evaluator of the value specification

The exact-field theorem does not see the sign of a zero; the code does: `0 - r` has imaginary part `+0`, the
simplified `-r` has `-0`, and `sqrt`/`ln` of a negative real then land on conjugate sides of their branch cut, the
negative real axis (and constant folding bakes that choice into a literal).  "Equal up to floating-point effects"
therefore has to mean: equal for *some* choice of the sign of the zero imaginary part at every `sqrt`/`^` whose
base lies exactly on the cut.  `evalS` is `QV.eval` (the model of `Expression::evaluate`) made set-valued in exactly
that way: at a base with `re < 0 ∧ im = ±0` it continues with both `im = +0` and `im = -0`.  It also records whether
some base is within rounding distance of the cut without being on it (then the branch is decided by rounding noise
and nothing is claimed; likewise `0^w` with `Re w ≈ 0`, and a sum that cancels to rounding noise without being an
exact zero), and the largest intermediate magnitude (the scale of cancellation errors). -/

structure Info where
  cutExact : Bool := false
  cutNear : Bool := false
  scale : Float := kZero

def mag (z : CFloat) : Float := if z.1.abs < z.2.abs then z.2.abs else z.1.abs
def fin (z : CFloat) : Bool := z.1.isFinite && z.2.isFinite

private def noteScale (i : Info) (z : CFloat) : Info :=
  if fin z && i.scale < mag z then { i with scale := mag z } else i

private def noteAll (i : Info) (zs : List CFloat) : Info := zs.foldl noteScale i

/-- at most 16 variants, bitwise distinct -/
private def dedupe (zs : List CFloat) : List CFloat :=
  (zs.foldl (fun acc z => if acc.any (CFloat.bitEq z) then acc else z :: acc) []).reverse.take 16

/-- the readings of a base of `sqrt` / `^` -/
private def base (z : CFloat) (i : Info) : List CFloat × Info :=
  if z.1 < kZero then
    if z.2 == kZero then ([(z.1, kZero), (z.1, -kZero)], { i with cutExact := true })
    else if z.2.abs ≤ k1em9 * z.1.abs then ([z], { i with cutNear := true })
    else ([z], i)
  else ([z], i)

private def bases (zs : List CFloat) (i : Info) : List CFloat × Info :=
  zs.foldl (fun (acc, i) z => let (bs, i) := base z i; (acc ++ bs, i)) ([], i)

def evalS (ε : Env) : Expr CFloat → Info → Option (List CFloat × Info)
  | .call f e, i =>
    match evalS ε e i with
    | none => none
    | some (vs, i) =>
      match f with
      | .sqrt =>
        let (bs, i) := bases vs i
        let rs := dedupe (bs.map CFloat.sqrt)
        some (rs, noteAll i rs)
      | .cis =>
        -- `cos z + i·sin z` (mod.rs:412) cancels catastrophically for `Im z ≫ 0`: both terms are ≈ e^{Im z}/2
        let noise := vs.any fun v =>
          let c := CFloat.cos v
          let sn := CFloat.sin v
          let r := CFloat.cis v
          fin r && fin c && fin sn && mag r ≤ k1em6 * (if mag c < mag sn then mag sn else mag c)
        let i := if noise then { i with cutNear := true } else i
        let rs := dedupe (vs.map CFloat.cis)
        some (rs, noteAll i rs)
      | _ => let rs := dedupe (vs.map (calcFn f)); some (rs, noteAll i rs)
  | .bin l op r, i =>
    match evalS ε l i with
    | none => none
    | some (as, i) =>
      match evalS ε r i with
      | none => none
      | some (bs, i) =>
        match op with
        | .caret =>
          let (as', i) := bases as i
          -- `0^w` is discontinuous in `w` across `Re w = 0` (0 on one side, infinite/NaN on the other)
          let singular := as'.any fun a => a.1 == kZero && a.2 == kZero &&
            bs.any fun b => !(b.1 == kZero && b.2 == kZero) && b.1.abs ≤ k1em9 * mag b
          let i := if singular then { i with cutNear := true } else i
          let rs := dedupe (as'.flatMap fun a => bs.map fun b => CFloat.pow a b)
          some (rs, noteAll i rs)
        | _ =>
          -- a sum/difference that loses 6 or more digits to cancellation (without being an exact 0) is noise:
          -- whatever is computed from it (a quotient by it, a root of it) is decided by rounding
          let noise := (op == .plus || op == .minus) && as.any fun a => bs.any fun b =>
            let r := calcInfix a op b
            !(r.1 == kZero && r.2 == kZero) && fin r && mag r ≤ k1em6 * (if mag a < mag b then mag b else mag a)
          let i := if noise then { i with cutNear := true } else i
          let rs := dedupe (as.flatMap fun a => bs.map fun b => calcInfix a op b)
          some (rs, noteAll i rs)
  | .pre op e, i =>
    match evalS ε e i with
    | none => none
    | some (vs, i) => match op with
      | .minus => some (vs.map (CFloat.sub (kZero, kZero)), i)   -- `negate` (mod.rs:424)
      | .plus => some (vs, i)
  | .var n, i => (ε.rho n).map fun v => ([v], noteScale i v)
  | .address r, i =>
    match ε.mu r.name with
    | none => none
    | some vs => (vs[r.index]?).map fun v => ([v], noteScale i v)
  | .pi, i => some ([CFloat.ofReal CFloat.piF], noteScale i (CFloat.ofReal CFloat.piF))
  | .number z, i => some ([z], noteScale i z)


/-- `evalS` when no base lies exactly on the cut: a single reading, no lists (the fast path; `none` as soon as a base
on the cut is met, and then `evalS` is used). Same flags, same scale. -/
def evalI (ε : Env) : Expr CFloat → Info → Option (CFloat × Info)
  | .call f e, i =>
    match evalI ε e i with
    | none => none
    | some (v, i) =>
      match f with
      | .sqrt =>
        match base v i with
        | ([b], i) => let r := CFloat.sqrt b; some (r, noteScale i r)
        | _ => none
      | .cis =>
        let c := CFloat.cos v
        let sn := CFloat.sin v
        let r := CFloat.cis v
        let noise := fin r && fin c && fin sn && mag r ≤ k1em6 * (if mag c < mag sn then mag sn else mag c)
        let i := if noise then { i with cutNear := true } else i
        some (r, noteScale i r)
      | _ => let r := calcFn f v; some (r, noteScale i r)
  | .bin l op r, i =>
    match evalI ε l i with
    | none => none
    | some (a, i) =>
      match evalI ε r i with
      | none => none
      | some (b, i) =>
        match op with
        | .caret =>
          match base a i with
          | ([a'], i) =>
            let singular := a'.1 == kZero && a'.2 == kZero && !(b.1 == kZero && b.2 == kZero) && b.1.abs ≤ k1em9 * mag b
            let i := if singular then { i with cutNear := true } else i
            let v := CFloat.pow a' b
            some (v, noteScale i v)
          | _ => none
        | _ =>
          let v := calcInfix a op b
          let noise := (op == .plus || op == .minus) &&
            !(v.1 == kZero && v.2 == kZero) && fin v && mag v ≤ k1em6 * (if mag a < mag b then mag b else mag a)
          let i := if noise then { i with cutNear := true } else i
          some (v, noteScale i v)
  | .pre op e, i =>
    match evalI ε e i with
    | none => none
    | some (v, i) => match op with
      | .minus => some (CFloat.sub (kZero, kZero) v, i)
      | .plus => some (v, i)
  | .var n, i => (ε.rho n).map fun v => (v, noteScale i v)
  | .address r, i =>
    match ε.mu r.name with
    | none => none
    | some vs => (vs[r.index]?).map fun v => (v, noteScale i v)
  | .pi, i => some (CFloat.ofReal CFloat.piF, noteScale i (CFloat.ofReal CFloat.piF))
  | .number z, i => some (z, noteScale i z)

/-- `evalS`, through the fast path when possible -/
def evalSF (ε : Env) (e : Expr CFloat) : Option (List CFloat × Info) :=
  match evalI ε e {} with
  | some (v, i) => some ([v], i)
  | none => evalS ε e {}

/-- `|a - b| ≤ 1e-9·max(|a|,|b|) + 1e-12·max(1, scale)`, both finite.  The second term is the absolute floor
(rounding noise around an exact 0, e.g. `sin(pi)`), proportional to the largest intermediate value of either
evaluation (cancellation after re-association). -/
def closeSpec (a b : CFloat) (scale : Float) : Bool :=
  fin a && fin b &&
    let d := mag (a.1 - b.1, a.2 - b.2)
    let m := if mag a < mag b then mag b else mag a
    d ≤ k1em9 * m + k1em12 * (if scale < kOne then kOne else scale)

inductive Verdict where
  | pass | passCut | passCutBranch | skipNonFinite | skipNear | skipOverflow | skipMissing | fail
  deriving DecidableEq

/-- The value clause at one assignment.  `vo`, `vs`: the implementation's values of e and e'.
* e not finite at this assignment: nothing is claimed;
* some base within rounding distance of the cut (not exactly on it), or `0^w` with `Re w` within rounding distance
  of 0: nothing is claimed (counted);
* an intermediate value beyond 1e150 in either evaluation: nothing is claimed (overflow; counted);
* no base on the cut: the implementation's two values must be close;
* a base exactly on the cut: some reading of e must be close to some reading of e' (counted; also counted:
  whether the implementation's raw values then differ, i.e. a conjugate-branch result). -/
def valueVerdict (ε : Env) (e out : Expr CFloat) (vo vs : Option CFloat) : Verdict :=
  match vo, vs, evalSF ε e, evalSF ε out with
  | some vo, some vs, some (os, io), some (ss, is) =>
    let scale := if io.scale < is.scale then is.scale else io.scale
    -- some reading of e agrees with some reading of e': close, or non-finite on both sides
    let anyClose := os.any fun o => ss.any fun s => closeSpec o s scale || (!fin o && !fin s)
    if !fin vo then .skipNonFinite
    else if io.cutNear || is.cutNear then .skipNear
    -- intermediates beyond 1e150: a re-associated product can overflow where the original does not
    -- (`-MAX * (-MAX * 0)` is 0, `(-MAX * -MAX) * 0` is NaN); the exact-field theorem knows no overflow
    else if scale > k1e150 then .skipOverflow
    else if io.cutExact || is.cutExact then
      if closeSpec vo vs scale then .passCut else if anyClose then .passCutBranch else .fail
    else if closeSpec vo vs scale then .pass else .fail
  | _, _, _, _ => .skipMissing

/-! ### the second model instance: exact `is_zero` / `is_one` (classifier of C12/is-zero-tolerance) -/

structure XF where
  v : CFloat

instance : SimpScalar XF where
  add a b := ⟨Scalar.add a.v b.v⟩
  sub a b := ⟨Scalar.sub a.v b.v⟩
  mul a b := ⟨Scalar.mul a.v b.v⟩
  div a b := ⟨Scalar.div a.v b.v⟩
  pow a b := ⟨Scalar.pow a.v b.v⟩
  neg a := ⟨Scalar.neg a.v⟩
  sin a := ⟨Scalar.sin a.v⟩
  cos a := ⟨Scalar.cos a.v⟩
  exp a := ⟨Scalar.exp a.v⟩
  sqrt a := ⟨Scalar.sqrt a.v⟩
  cis a := ⟨Scalar.cis a.v⟩
  pi := ⟨Scalar.pi⟩
  zero := ⟨Scalar.zero⟩
  one := ⟨Scalar.one⟩
  isZero a := a.v.1 == kZero && a.v.2 == kZero
  isOne a := a.v.1 == kOne && a.v.2 == kZero
  eqv a b := SimpScalar.eqv a.v b.v
  nan := ⟨SimpScalar.nan⟩
  two := ⟨SimpScalar.two⟩
  negOne := ⟨SimpScalar.negOne⟩

/-- the simplifier with exact zero/one tests -/
def simplifyExact (amb : List CFloat) (e : Expr CFloat) : Expr CFloat :=
  (simplifyTop (amb.map XF.mk) (e.mapNum XF.mk)).mapNum XF.v

/-- the simplifier without the arm `0^e => 0` -/
def simplifyNoZP (amb : List CFloat) (e : Expr CFloat) : Expr CFloat :=
  (simplifyTopWith armsNoPowZeroBase amb e).1

/-- both counterfactuals at once -/
def simplifyExactNoZP (amb : List CFloat) (e : Expr CFloat) : Expr CFloat :=
  ((simplifyTopWith armsNoPowZeroBase (amb.map XF.mk) (e.mapNum XF.mk)).1).mapNum XF.v

/-! ### comparison of trees -/

/-- 0 = different, 1 = same structure and numeric leaves within 1e-12, 2 = bit-identical -/
def cmpTree : Expr CFloat → Expr CFloat → Nat
  | .address a, .address b => if a == b then 2 else 0
  | .call f a, .call g b => if f == g then cmpTree a b else 0
  | .bin a o b, .bin c p d => if o == p then min (cmpTree a c) (cmpTree b d) else 0
  | .number x, .number y =>
    if CFloat.bitEq x y then 2 else if CFloat.close CFloat.tolLibm x y then 1
    -- both contain a NaN: which component carries it can depend on the NaN's sign bit (`sqrt` of `NaN ± 0i` tests
    -- `is_sign_positive`), which Lean's `Float.toBits` canonicalises away
    else if (x.1.isNaN || x.2.isNaN) && (y.1.isNaN || y.2.isNaN) then 1 else 0
  | .pi, .pi => 2
  | .pre o a, .pre p b => if o == p then cmpTree a b else 0
  | .var x, .var y => if x == y then 2 else 0
  | _, _ => 0

def decodeVals : List Sexp → Option (List (Option CFloat))
  | [] => some []
  | r :: i :: rest =>
    match decodeVals rest with
    | none => none
    | some t =>
      match decodeF64 r, decodeF64 i with
      | some r, some i => some (some (r, i) :: t)
      | _, _ => if r == .atom "e" then some (none :: t) else none
  | _ => none

/-- pair up the flat list: (value of e, value of e') per assignment -/
def pairUp : List (Option CFloat) → List (Option CFloat × Option CFloat)
  | a :: b :: rest => (a, b) :: pairUp rest
  | _ => []

/-- Prefix minus evaluates as `0 - v` (`negate`, mod.rs:424, since a634ce0).  Rewriting `-e` to `0 - e` before calling
the shared evaluator makes this driver independent of which negation `QV.Shared.CFloat.neg` currently implements. -/
def negToSub : Expr CFloat → Expr CFloat
  | .call f e => .call f (negToSub e)
  | .bin l o r => .bin (negToSub l) o (negToSub r)
  | .pre .minus e => .bin (.number (kZero, kZero)) .minus (negToSub e)
  | .pre .plus e => .pre .plus (negToSub e)
  | e => e

/-- the shared evaluator against the implementation's value: 0 different, 1 close, 2 bit-identical -/
def cmpVal (m : Except EvalError CFloat) (i : Option CFloat) : Nat :=
  match m, i with
  | .ok a, some b =>
    if CFloat.bitEq a b then 2
    else if CFloat.close k1em9 a b then 1
    else if !fin a && !fin b then 1   -- non-finite on both sides (inf vs NaN patterns of overflowing libm calls)
    else 0
  | .error _, none => 2
  | _, _ => 0


/-! ### the other entry points -/

/-- the numbers an (owned) expression keeps alive as interned nodes: all of them unless it is itself a number -/
def liveNumbers : Expr CFloat → List CFloat
  | .number _ => []
  | e => numbers e

def isNumber : Expr CFloat → Bool
  | .number _ => true
  | _ => false

def isVar : Expr CFloat → Bool
  | .var _ => true
  | _ => false

/-- `CalibrationIdentifier::matches` on one parameter (calibration.rs:173-186): both parameters are simplified, the
calibration's first (its result is alive while the gate's is simplified); a calibration variable matches anything,
otherwise `Expression`'s `==`.  `alive`: the numbers alive besides the two parameters themselves. -/
def matchesModel (alive : List CFloat) (a b : Expr CFloat) : Bool :=
  let r1 := simplifyTop (alive ++ liveNumbers b) a
  let r2 := simplifyTop (alive ++ liveNumbers a ++ liveNumbers r1) b
  isVar r1 || beqE r1 r2

inductive UOut where
  | ok : CFloat → UOut
  | err : UOut

def decodeU : Sexp → Option UOut
  | .list [.atom "ok", r, i] => match decodeF64 r, decodeF64 i with
    | some r, some i => some (.ok (r, i))
    | _, _ => none
  | .list [.atom "err"] => some .err
  | _ => none

def decodeBool : Sexp → Option Bool
  | .atom "true" => some true
  | .atom "false" => some false
  | _ => none

structure Alt where
  same : Bool
  u1 : UOut
  u2 : UOut
  mself : Bool
  mout : Bool
  mrev : Bool

def decodeAlt : Sexp → Option Alt
  | .list [.atom "alt", s, u1, u2, m1, m2, m3] =>
    match decodeBool s, decodeU u1, decodeU u2, decodeBool m1, decodeBool m2, decodeBool m3 with
    | some s, some u1, some u2, some m1, some m2, some m3 => some ⟨s, u1, u2, m1, m2, m3⟩
    | _, _, _, _, _, _ => none
  | _ => none

def verdictTag : Verdict → String
  | .pass => "v-pass" | .passCut => "v-pass-on-cut" | .passCutBranch => "v-pass-on-cut-conjugate-branch"
  | .skipNonFinite => "v-orig-nonfinite" | .skipNear => "v-skip-near-cut" | .skipOverflow => "v-skip-overflow"
  | .skipMissing => "v-missing"
  | .fail => "v-FAIL"

def handle (inp out : Sexp) : CaseResult :=
  match inp with
  | .list [.atom "c12", eS, .list (.atom "amb" :: ambS), .atom "std"] =>
    match decodeExpr eS, decodeAll decodeC ambS with
    | some e, some amb =>
      match out with
      | .list (.atom "out" :: oS :: .list (.atom "vals" :: valsS) :: rest) =>
        let altO : Option (Option Alt) := match rest with
          | [] => some none
          | [a] => (decodeAlt a).map some
          | _ => none
        match decodeExpr oS, decodeVals valsS, altO with
        | some o, some vals, some alt =>
          let envs := stdEnvs
          let pairs := pairUp vals
          if pairs.length != envs.length then .bad s!"expected {envs.length} value pairs"
          else
          -- the model
          let (mTree, log) : Expr CFloat × List Arm := simplifyTopWith arms amb e
          let c := cmpTree mTree o
          -- the shared evaluator reproduces the implementation's values
          let evs := (envs.zip pairs).map fun (ε, (vo, vs)) =>
            min (cmpVal (eval ε.rho ε.mu (negToSub e)) vo) (cmpVal (eval ε.rho ε.mu (negToSub o)) vs)
          let evalAgree := evs.all (· > 0)
          -- the other entry points: model predictions (agreement) and sibling consistency (specification)
          let alive := amb ++ liveNumbers o
          let (altAgree, altSpec, altTags) : Bool × Bool × List String := match alt with
            | none => (true, true, [])
            | some a =>
              let p1 := matchesModel (amb ++ liveNumbers o) e e
              let p2 := matchesModel amb e o
              let p3 := matchesModel amb o e
              let mAgree := p1 == a.mself && p2 == a.mout && p3 == a.mrev
              -- `Gate::to_unitary` has a matrix iff the simplified parameter is a number; then it is the matrix of
              -- that number (`PHASE(e')` with `e'` a number needs no simplification)
              let uSpec := match a.u1, a.u2 with
                | .ok x, .ok y => isNumber o && (CFloat.close k1em9 x y || (!fin x && !fin y))
                | .err, _ => !isNumber o
                | .ok _, .err => false
              (mAgree, a.same && uSpec,
                ["alt", if a.mself then "m-self-match" else "m-self-NOMATCH",
                 if a.mout then "m-out-match" else "m-out-nomatch",
                 match a.u1 with | .ok _ => "u-matrix" | .err => "u-nonconstant"] ++
                (if a.same then [] else ["inplace-DIFFERS"]) ++ (if uSpec then [] else ["unitary-FAIL"]) ++
                (if mAgree then [] else ["matches-DIFFERS"]))
          let _ := alive
          let agree := c > 0 && evalAgree && altAgree
          -- the specification on the implementation's output
          let verdicts := (envs.zip pairs).map fun (ε, (vo, vs)) => valueVerdict ε e o vo vs
          let valueOk := verdicts.all (· != .fail)
          let varsOk := o.vars.all (fun x => e.vars.contains x) && o.addrs.all (fun a => e.addrs.contains a)
          let piOk := !isPi o
          let specOk := valueOk && structSpecB e o && altSpec
          -- known-finding classifiers (only when every failing clause is explained by one finding)
          -- counterfactuals: the same simplifier without the arm `0^e => 0` / with exact `is_zero`, `is_one`
          let passesWith (x : Expr CFloat) : Bool := (envs.zip pairs).all fun (ε, (vo, _)) =>
            valueVerdict ε e x vo ((eval ε.rho ε.mu (negToSub x)).toOption) != .fail
          let kfZeroPow := !valueOk && c > 0 && log.contains .powZeroBase && passesWith (simplifyNoZP amb e)
          let kfTol := !valueOk && c > 0 && !kfZeroPow && passesWith (simplifyExact amb e)
          let kfBoth := !valueOk && c > 0 && !kfZeroPow && !kfTol && log.contains .powZeroBase &&
            passesWith (simplifyExactNoZP amb e)
          let kf : List String :=
            if specOk then []
            else if !altSpec then []
            else if !varsOk then []
            else if !valueOk && !piOk then []
            else if !piOk then []
            else if kfZeroPow then ["kf:C12/zero-pow-variable-exponent"]
            else if kfTol then ["kf:C12/is-zero-tolerance"]
            else if kfBoth then ["kf:C12/zero-pow-variable-exponent", "kf:C12/is-zero-tolerance"]
            else []
          let armTags := (log.map fun a => "arm:" ++ a.name).eraseDups
          let tags :=
            shapeTags e ++ armTags ++ (verdicts.map verdictTag).eraseDups ++
            [if c == 2 then "tree-bitexact" else if c == 1 then "tree-close" else "tree-DIFFERS",
             if evs.all (· == 2) then "eval-bitexact" else if evalAgree then "eval-close" else "eval-DIFFERS",
             if log.contains .limit0 then "limit-exhausted" else "limit-ok",
             if piFree o then "out-pifree" else "out-has-pi"] ++ altTags ++ kf
          { agree := agree, specOk := specOk,
            nontrivial := cmpTree e o != 2,
            tags := tags,
            detail := s!"spec[value={valueOk} vars/addrs={varsOk} notpi={piOk} alt={altSpec}] altAgree={altAgree} verdicts={verdicts.map verdictTag} " ++
              s!"model={encodeExpr mTree} impl={oS} arms={log.map Arm.name} evalcmp={evs}" }
        | _, _, _ => { agree := false, specOk := false, nontrivial := true, tags := ["impl-undecodable"], detail := s!"impl={out}" }
      | _ => { agree := false, specOk := false, nontrivial := true, tags := ["impl-crash-or-undecodable"],
               detail := s!"impl={out}" }
    | _, _ => .bad s!"undecodable input {inp}"
  | _ => .bad s!"undecodable input {inp}"

end QV.C12

def main : IO UInt32 := QV.runMain QV.C12.handle
