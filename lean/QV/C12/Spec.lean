import QV.Shared.Expr
/-
QV.C12.Spec — the structural clauses of C12 as a `Prop` and as the `Bool` checker the driver evaluates on the
implementation's output (the value clause is stated over an exact field in `Props.lean`; its sampled float
version lives in `Run.lean`).  Import-free apart from the shared expression model.

  "Simplification never introduces new variables or memory references, and never returns the symbolic
   constant pi."
-/
namespace QV.C12
open QV

/-- the structural clauses, declaratively -/
def StructSpec {K : Type} (e out : Expr K) : Prop :=
  (∀ x, x ∈ out.vars → x ∈ e.vars) ∧ (∀ a, a ∈ out.addrs → a ∈ e.addrs) ∧ out ≠ .pi

def isPi {K : Type} : Expr K → Bool
  | .pi => true
  | _ => false

/-- the checker run on the implementation's output -/
def structSpecB {K : Type} (e out : Expr K) : Bool :=
  out.vars.all (fun x => e.vars.contains x) && out.addrs.all (fun a => e.addrs.contains a) && !isPi out

/-- no `pi` anywhere in the tree -/
def piFree {K : Type} : Expr K → Bool
  | .pi => false
  | .call _ e => piFree e
  | .bin l _ r => piFree l && piFree r
  | .pre _ e => piFree e
  | _ => true

end QV.C12
