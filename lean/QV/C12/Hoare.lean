import QV.C12.Model
/-
QV.C12.Hoare — the generic half of the C12 proofs (no Mathlib, no algebra).

`Rel K bad` packages a relation `R o r` ("r may replace o") together with everything the simplifier needs of it:
reflexivity, transitivity, congruence, compatibility with the hash-consing equality, and one field per rewrite arm
(the arm's identity `R lhs rhs`).  For any such relation, `simplifyWith_sound` shows by induction on the limit that
every run of the model

  * keeps the memo table sound (`CacheOK R`: every cached pair `e ↦ r` satisfies `R e r`) and
  * returns an `r` with `R e r`,

unless an arm in `bad` fired during the run (the log says so).  The proof follows the code: one lemma per arm
(`arm…_sound`), the `match` (`firstArm_sound`), `simplify_infix`/`_prefix`/`_function_call`, the memo wrapper, and
the limit.  `Lemmas.lean` instantiates `R` three times: value preservation over an exact field, "no new variables
or memory references", and "no `pi`".
-/
namespace QV.C12
open QV

set_option linter.unusedSectionVars false

variable {K : Type} [SimpScalar K] {α β : Type}

/-! ### Hoare triples over the state-and-log monad -/

/-- From a state whose memo table satisfies `C`, the computation either logs a `bad` arm, or ends in a state whose
memo table satisfies `C` with a result satisfying `P`. -/
def Spec (bad : Arm → Prop) (C : List (Expr K × Expr K) → Prop) (m : M K α) (P : α → Prop) : Prop :=
  ∀ s, C s.cache → (∃ a ∈ (m s).2.2, bad a) ∨ (C (m s).2.1.cache ∧ P (m s).1)

section rules
variable {bad : Arm → Prop} {C : List (Expr K × Expr K) → Prop}

theorem Spec.pure {P : α → Prop} {a : α} (h : P a) : Spec bad C (pure a : M K α) P := by
  intro s hs; right; exact ⟨hs, h⟩

theorem Spec.bind {m : M K α} {f : α → M K β} {P : α → Prop} {Q : β → Prop}
    (h1 : Spec bad C m P) (h2 : ∀ a, P a → Spec bad C (f a) Q) : Spec bad C (m >>= f) Q := by
  intro s hs
  show (∃ a ∈ ((Bind.bind m f) s).2.2, bad a) ∨ _
  simp only [Bind.bind]
  rcases h1 s hs with ⟨a, ha, hb⟩ | ⟨hc, hp⟩
  · left; exact ⟨a, by simp [ha], hb⟩
  · rcases h2 _ hp _ hc with ⟨a, ha, hb⟩ | ⟨hc2, hq⟩
    · left; exact ⟨a, by simp [ha], hb⟩
    · right; exact ⟨hc2, hq⟩

theorem Spec.mono {m : M K α} {P Q : α → Prop} (h : Spec bad C m P) (hpq : ∀ a, P a → Q a) :
    Spec bad C m Q := by
  intro s hs
  rcases h s hs with h | ⟨hc, hp⟩
  · exact Or.inl h
  · exact Or.inr ⟨hc, hpq _ hp⟩

/-- `do tick a; m` -/
theorem Spec.tk {m : M K α} {P : α → Prop} (a : Arm) (h : Spec bad C m P) :
    Spec bad C (tick a >>= fun _ => m) P :=
  Spec.bind (P := fun _ => True) (fun _ hs => Or.inr ⟨hs, trivial⟩) (fun _ _ => h)

/-- a `bad` arm: nothing to prove about what follows -/
theorem Spec.tkBad {m : M K α} {P : α → Prop} (a : Arm) (h : bad a) :
    Spec bad C (tick a >>= fun _ => m) P := by
  intro s _
  left
  refine ⟨a, ?_, h⟩
  show a ∈ ((Bind.bind (tick a) fun _ => m) s).2.2
  simp [Bind.bind, QV.C12.tick]

end rules

/-! ### The interface a relation has to offer -/

/-- `inverse` of by_hand.rs:586-590 -/
def invOp (op : InfixOp) : InfixOp := if op == .minus then .plus else .star
/-- `rhs_operator` of by_hand.rs:616-620 -/
def rhsOp (op : InfixOp) : InfixOp :=
  match op with
  | .minus => .plus
  | .slash => .star
  | o => o

open Expr in
structure Rel (K : Type) [SimpScalar K] (bad : Arm → Prop) where
  R : Expr K → Expr K → Prop
  /-- A class of expressions closed under everything the simplifier does (sub-terms, constructors, numbers,
  `R`-successors).  The soundness theorem is about calls on expressions of this class; `fun _ => True` for the
  value and the variables relations, "contains no `pi`" for the third one. -/
  Pre : Expr K → Prop
  preBin : ∀ {a op b}, Pre (bin a op b) ↔ Pre a ∧ Pre b
  prePre : ∀ {op a}, Pre (pre op a) ↔ Pre a
  preCall : ∀ {f a}, Pre (call f a) ↔ Pre a
  preNum : ∀ z, Pre (number z)
  keep : ∀ {o r}, R o r → Pre o → Pre r
  refl : ∀ e, R e e
  trans : ∀ {a b c}, R a b → R b c → R a c
  /-- hash-consing equality, both directions -/
  beqL : ∀ {a b}, beqE a b = true → R a b
  beqR : ∀ {a b}, beqE a b = true → R b a
  congBin : ∀ {a a' b b'} (op), R a a' → R b b' → R (bin a op b) (bin a' op b')
  congPre : ∀ {a a'} (op), R a a' → R (pre op a) (pre op a')
  congCall : ∀ {a a'} (f), R a a' → R (call f a) (call f a')
  /-- `interned::number(v)` may return a live `Eq` number `u` -/
  numEqv : ∀ {u v : K}, SimpScalar.eqv u v = true → R (number v) (number u)
  -- leaves, function calls, prefix operators
  piNum : R pi (number Scalar.pi)
  callFold : ∀ f z, R (call f (number z)) (number (calcFn f z))
  prePlus : ∀ e, R (pre .plus e) e
  preNegNum : ∀ z, R (pre .minus (number z)) (number (Scalar.sub Scalar.zero z))
  preNegNeg : ∀ e, R (pre .minus (pre .minus e)) e
  -- the arms of `simplify_infix`
  addZeroL : ∀ {x} r, SimpScalar.isZero x = true → R (bin (number x) .plus r) r
  addZeroR : ∀ {x} l, SimpScalar.isZero x = true → R (bin l .plus (number x)) l
  subZeroL : ∀ {x} r, SimpScalar.isZero x = true → R (bin (number x) .minus r) (pre .minus r)
  subZeroR : ∀ {y} l, SimpScalar.isZero y = true → R (bin l .minus (number y)) l
  subSelf : ∀ {l r}, beqE l r = true → R (bin l .minus r) (number Scalar.zero)
  mulZeroL : ∀ {x} r, SimpScalar.isZero x = true → R (bin (number x) .star r) (number Scalar.zero)
  mulZeroR : ∀ {x} l, SimpScalar.isZero x = true → R (bin l .star (number x)) (number Scalar.zero)
  mulOneL : ∀ {x} r, SimpScalar.isOne x = true → R (bin (number x) .star r) r
  mulOneR : ∀ {x} l, SimpScalar.isOne x = true → R (bin l .star (number x)) l
  divZeroL : ∀ {x} r, SimpScalar.isZero x = true → R (bin (number x) .slash r) (number Scalar.zero)
  divByZero : ∀ {y} l, SimpScalar.isZero y = true → R (bin l .slash (number y)) (number SimpScalar.nan)
  divOne : ∀ {y} l, SimpScalar.isOne y = true → R (bin l .slash (number y)) l
  divSelf : ∀ {l r}, beqE l r = true → R (bin l .slash r) (number Scalar.one)
  powZeroExp : ∀ {y} l, SimpScalar.isZero y = true → R (bin l .caret (number y)) (number Scalar.one)
  powZeroBase : ¬ bad .powZeroBase → ∀ {x} r, SimpScalar.isZero x = true →
    R (bin (number x) .caret r) (number Scalar.zero)
  powOneBase : ∀ {x} r, SimpScalar.isOne x = true → R (bin (number x) .caret r) (number Scalar.one)
  powOneExp : ∀ {y} l, SimpScalar.isOne y = true → R (bin l .caret (number y)) l
  fold : ∀ x op y, R (bin (number x) op (number y)) (number (calcInfix x op y))
  addNegR : ∀ l e, R (bin l .plus (pre .minus e)) (bin l .minus e)
  addNegL : ∀ e r, R (bin (pre .minus e) .plus r) (bin r .minus e)
  subNegR : ∀ l e, R (bin l .minus (pre .minus e)) (bin l .plus e)
  subNegL : ∀ e r, R (bin (pre .minus e) .minus r) (pre .minus (bin e .plus r))
  negNeg : ∀ {op} a b, isMulDiv op = true → R (bin (pre .minus a) op (pre .minus b)) (bin a op b)
  divNegSelfR : ∀ {l e}, beqE l e = true → R (bin l .slash (pre .minus e)) (number SimpScalar.negOne)
  divNegSelfL : ∀ {e r}, beqE e r = true → R (bin (pre .minus e) .slash r) (number SimpScalar.negOne)
  negR : ∀ {op} l e, isMulDiv op = true → R (bin l op (pre .minus e)) (bin (pre .minus l) op e)
  negL : ∀ {op} e r, isMulDiv op = true → R (bin (pre .minus e) op r) (bin e op (pre .minus r))
  affine1 : ∀ {ll lr lb rl rr rb}, beqE ll rl = true →
    R (bin (bin (bin ll .star lr) .plus lb) .plus (bin (bin rl .star rr) .plus rb))
      (bin (bin (bin lr .plus rr) .star ll) .plus (bin lb .plus rb))
  affine2 : ∀ {ll lr lb rl rr rb}, beqE ll rr = true →
    R (bin (bin (bin ll .star lr) .plus lb) .plus (bin (bin rl .star rr) .plus rb))
      (bin (bin (bin lr .plus rl) .star ll) .plus (bin lb .plus rb))
  affine3 : ∀ {ll lr lb rl rr rb}, beqE lr rl = true →
    R (bin (bin (bin ll .star lr) .plus lb) .plus (bin (bin rl .star rr) .plus rb))
      (bin (bin (bin ll .plus rr) .star lr) .plus (bin lb .plus rb))
  affine4 : ∀ {ll lr lb rl rr rb}, beqE lr rr = true →
    R (bin (bin (bin ll .star lr) .plus lb) .plus (bin (bin rl .star rr) .plus rb))
      (bin (bin (bin ll .plus rl) .star rr) .plus (bin lb .plus rb))
  mulCommon : ∀ {la lx ra rx}, beqE lx rx = true →
    R (bin (bin la .star lx) .plus (bin ra .star rx)) (bin (bin la .plus ra) .star lx)
  addCommon : ∀ {lx lb rx rb}, beqE lx rx = true →
    R (bin (bin lx .plus lb) .plus (bin rx .plus rb))
      (bin (bin (number SimpScalar.two) .star lx) .plus (bin lb .plus rb))
  assocR : ∀ {op} l b c, isAddMul op = true → R (bin l op (bin b op c)) (bin (bin l op b) op c)
  pseudoAssocR : ∀ {op} l b c, isSubDiv op = true → R (bin l op (bin b op c)) (bin (bin l (invOp op) c) op b)
  assocL : ∀ {op} a b r, (isAddMul op || isSubDiv op) = true →
    R (bin (bin a op b) op r) (bin a op (bin b (rhsOp op) r))
  distR : ∀ l b c, R (bin l .star (bin b .plus c)) (bin (bin l .star b) .plus (bin l .star c))
  distL : ∀ a b r, R (bin (bin a .plus b) .star r) (bin (bin a .star r) .plus (bin b .star r))
  mulDivCancelL1 : ∀ {p q r}, beqE r p = true → R (bin (bin p .star q) .slash r) q
  mulDivCancelL2 : ∀ {p q r}, beqE r q = true → R (bin (bin p .star q) .slash r) p
  divMulCancelR1 : ∀ {l p q}, beqE l p = true →
    R (bin l .slash (bin p .star q)) (bin (number Scalar.one) .slash q)
  divMulCancelR2 : ∀ {l p q}, beqE l q = true →
    R (bin l .slash (bin p .star q)) (bin (number Scalar.one) .slash p)
  mulInDivL : ∀ m1 m2 r, R (bin (bin m1 .star m2) .slash r) (bin m1 .star (bin m2 .slash r))
  mulInDivR : ∀ l m1 m2, R (bin l .slash (bin m1 .star m2)) (bin (bin l .slash m1) .slash m2)
  divMulCancelL : ∀ {other same r}, beqE same r = true → R (bin (bin other .slash same) .star r) other
  mulDivCancelR : ∀ {l other same}, beqE l same = true → R (bin l .star (bin other .slash same)) other

section sound
variable {bad : Arm → Prop} (R : Rel K bad)

/-- every cached pair is related (and its value is of the class) -/
def CacheOK (c : List (Expr K × Expr K)) : Prop := ∀ k v, (k, v) ∈ c → R.Pre v ∧ R.R k v

/-- on an expression of the class, `S e` returns something of the class that may replace `e` -/
def RecSound (S : Expr K → M K (Expr K)) : Prop :=
  ∀ e, R.Pre e → Spec bad (CacheOK R) (S e) (fun r => R.R e r ∧ R.Pre r)

/-- an arm that matches returns something that may replace `left ∘ right` -/
def ArmSound (f : ArmFn K) : Prop :=
  ∀ l op r m, R.Pre l → R.Pre r → f l op r = some m →
    Spec bad (CacheOK R) m (fun res => R.R (.bin l op r) res)

theorem Rel.smaller {o a b : Expr K} (ha : R.R o a) (hb : R.R o b) : R.R o (smaller a b) := by
  unfold QV.C12.smaller; split <;> assumption

/-- `interned::number(v)` -/
theorem Spec.num (v : K) : Spec bad (CacheOK R) (mkNum v) (fun r => R.R (.number v) r) := by
  intro s hs
  right
  unfold QV.C12.mkNum
  split
  · next u hu =>
    refine ⟨hs, ?_⟩
    have := List.find?_some hu
    exact R.numEqv this
  · exact ⟨hs, R.refl _⟩

/-- `mkNum v` as the result of an arm whose identity is `R o (number v)` -/
theorem Spec.numOf {o : Expr K} {v : K} (h : R.R o (.number v)) :
    Spec bad (CacheOK R) (mkNum v) (fun r => R.R o r) :=
  Spec.mono (Spec.num R v) (fun _ hr => R.trans h hr)

/-- a recursive call on `e'` where `R o e'` -/
theorem RecSound.of {S : Expr K → M K (Expr K)} (hS : RecSound R S) {o e' : Expr K} (h : R.R o e')
    (hp : R.Pre e') : Spec bad (CacheOK R) (S e') (fun r => R.R o r) :=
  Spec.mono (hS e' hp) (fun _ hr => R.trans h hr.1)

/-- membership in the class, from the hypotheses in scope -/
macro "pre_tac" R:term : tactic => `(tactic| (
  simp only [($R).preBin, ($R).prePre, ($R).preCall] at *
  simp [*, ($R).preNum]))

/-! ### One lemma per arm -/

theorem armAddZeroL_sound : ArmSound R armAddZeroL := by
  intro l op r m hl hr h
  unfold armAddZeroL at h
  split at h
  · split at h
    · next hz => cases h; exact Spec.tk _ (Spec.pure (R.addZeroL _ hz))
    · cases h
  · cases h

theorem armAddZeroR_sound : ArmSound R armAddZeroR := by
  intro l op r m hl hr h
  unfold armAddZeroR at h
  split at h
  · split at h
    · next hz => cases h; exact Spec.tk _ (Spec.pure (R.addZeroR _ hz))
    · cases h
  · cases h

theorem armSubZeroL_sound {S} (hS : RecSound R S) : ArmSound R (armSubZeroL S) := by
  intro l op r m hl hr h
  unfold armSubZeroL at h
  split at h
  · split at h
    · next hz => cases h; exact Spec.tk _ (hS.of R (R.subZeroL _ hz) (by pre_tac R))
    · cases h
  · cases h

theorem armSubZeroR_sound : ArmSound R armSubZeroR := by
  intro l op r m hl hr h
  unfold armSubZeroR at h
  split at h
  · split at h
    · next hz => cases h; exact Spec.tk _ (Spec.pure (R.subZeroR _ hz))
    · cases h
  · cases h

theorem armSubSelf_sound : ArmSound R armSubSelf := by
  intro l op r m hl hr h
  unfold armSubSelf at h
  split at h
  · split at h
    · next hz => cases h; exact Spec.tk _ (Spec.numOf R (R.subSelf hz))
    · cases h
  · cases h

theorem armMulZero_sound : ArmSound R armMulZero := by
  intro l op r m hl hr h
  unfold armMulZero at h
  split at h
  · split at h
    · next hz =>
      cases h
      refine Spec.tk _ (Spec.numOf R ?_)
      rcases Bool.or_eq_true _ _ |>.mp hz with h1 | h1
      · cases l <;> simp only [numIsZero] at h1 <;> first | exact R.mulZeroL _ h1 | cases h1
      · cases r <;> simp only [numIsZero] at h1 <;> first | exact R.mulZeroR _ h1 | cases h1
    · cases h
  · cases h

theorem armMulOneL_sound : ArmSound R armMulOneL := by
  intro l op r m hl hr h
  unfold armMulOneL at h
  split at h
  · split at h
    · next hz => cases h; exact Spec.tk _ (Spec.pure (R.mulOneL _ hz))
    · cases h
  · cases h

theorem armMulOneR_sound : ArmSound R armMulOneR := by
  intro l op r m hl hr h
  unfold armMulOneR at h
  split at h
  · split at h
    · next hz => cases h; exact Spec.tk _ (Spec.pure (R.mulOneR _ hz))
    · cases h
  · cases h

theorem armDivZeroL_sound : ArmSound R armDivZeroL := by
  intro l op r m hl hr h
  unfold armDivZeroL at h
  split at h
  · split at h
    · next hz => cases h; exact Spec.tk _ (Spec.numOf R (R.divZeroL _ hz))
    · cases h
  · cases h

theorem armDivByZero_sound : ArmSound R armDivByZero := by
  intro l op r m hl hr h
  unfold armDivByZero at h
  split at h
  · split at h
    · next hz => cases h; exact Spec.tk _ (Spec.numOf R (R.divByZero _ hz))
    · cases h
  · cases h

theorem armDivOne_sound : ArmSound R armDivOne := by
  intro l op r m hl hr h
  unfold armDivOne at h
  split at h
  · split at h
    · next hz => cases h; exact Spec.tk _ (Spec.pure (R.divOne _ hz))
    · cases h
  · cases h

theorem armDivSelf_sound : ArmSound R armDivSelf := by
  intro l op r m hl hr h
  unfold armDivSelf at h
  split at h
  · split at h
    · next hz => cases h; exact Spec.tk _ (Spec.numOf R (R.divSelf hz))
    · cases h
  · cases h

theorem armPowZeroExp_sound : ArmSound R armPowZeroExp := by
  intro l op r m hl hr h
  unfold armPowZeroExp at h
  split at h
  · split at h
    · next hz => cases h; exact Spec.tk _ (Spec.numOf R (R.powZeroExp _ hz))
    · cases h
  · cases h

/-- the arm of the known finding: sound for `R` only if `R` says so; otherwise it is `bad` and the log shows it -/
theorem armPowZeroBase_sound : ArmSound R armPowZeroBase := by
  intro l op r m hl hr h
  unfold armPowZeroBase at h
  split at h
  · split at h
    · next hz =>
      cases h
      by_cases hb : bad .powZeroBase
      · exact Spec.tkBad _ hb
      · exact Spec.tk _ (Spec.numOf R (R.powZeroBase hb _ hz))
    · cases h
  · cases h

theorem armPowOneBase_sound : ArmSound R armPowOneBase := by
  intro l op r m hl hr h
  unfold armPowOneBase at h
  split at h
  · split at h
    · next hz => cases h; exact Spec.tk _ (Spec.numOf R (R.powOneBase _ hz))
    · cases h
  · cases h

theorem armPowOneExp_sound : ArmSound R armPowOneExp := by
  intro l op r m hl hr h
  unfold armPowOneExp at h
  split at h
  · split at h
    · next hz => cases h; exact Spec.tk _ (Spec.pure (R.powOneExp _ hz))
    · cases h
  · cases h

theorem armFold_sound : ArmSound R armFold := by
  intro l op r m hl hr h
  unfold armFold at h
  split at h
  · cases h; exact Spec.tk _ (Spec.numOf R (R.fold _ _ _))
  · cases h

theorem armAddNegR_sound {S} (hS : RecSound R S) : ArmSound R (armAddNegR S) := by
  intro l op r m hl hr h
  unfold armAddNegR at h
  split at h
  · cases h; exact Spec.tk _ (hS.of R (R.addNegR _ _) (by pre_tac R))
  · cases h

theorem armAddNegL_sound {S} (hS : RecSound R S) : ArmSound R (armAddNegL S) := by
  intro l op r m hl hr h
  unfold armAddNegL at h
  split at h
  · cases h; exact Spec.tk _ (hS.of R (R.addNegL _ _) (by pre_tac R))
  · cases h

theorem armSubNegR_sound {S} (hS : RecSound R S) : ArmSound R (armSubNegR S) := by
  intro l op r m hl hr h
  unfold armSubNegR at h
  split at h
  · cases h; exact Spec.tk _ (hS.of R (R.subNegR _ _) (by pre_tac R))
  · cases h

theorem armSubNegL_sound {S} (hS : RecSound R S) : ArmSound R (armSubNegL S) := by
  intro l op r m hl hr h
  unfold armSubNegL at h
  split at h
  · next e r =>
    cases h
    refine Spec.tk _ ?_
    refine Spec.bind (hS _ (by pre_tac R)) (fun inner ⟨hin, p_inner⟩ => ?_)
    refine Spec.bind (hS _ (by pre_tac R)) (fun outer ⟨hout, p_outer⟩ => ?_)
    refine Spec.pure (R.smaller (R.refl _) ?_)
    exact R.trans (R.subNegL _ _) (R.trans (R.congPre _ hin) hout)
  · cases h

theorem armNegNeg_sound {S} (hS : RecSound R S) : ArmSound R (armNegNeg S) := by
  intro l op r m hl hr h
  unfold armNegNeg at h
  split at h
  · split at h
    · next hz => cases h; exact Spec.tk _ (hS.of R (R.negNeg _ _ hz) (by pre_tac R))
    · cases h
  · cases h

theorem armDivNegSelfR_sound : ArmSound R armDivNegSelfR := by
  intro l op r m hl hr h
  unfold armDivNegSelfR at h
  split at h
  · split at h
    · next hz => cases h; exact Spec.tk _ (Spec.numOf R (R.divNegSelfR hz))
    · cases h
  · cases h

theorem armDivNegSelfL_sound : ArmSound R armDivNegSelfL := by
  intro l op r m hl hr h
  unfold armDivNegSelfL at h
  split at h
  · split at h
    · next hz => cases h; exact Spec.tk _ (Spec.numOf R (R.divNegSelfL hz))
    · cases h
  · cases h

theorem armNegR_sound {S} (hS : RecSound R S) : ArmSound R (armNegR S) := by
  intro l op r m hl hr h
  unfold armNegR at h
  split at h
  · split at h
    · next hz =>
      cases h
      refine Spec.tk _ ?_
      refine Spec.bind (hS _ (by pre_tac R)) (fun negLeft ⟨hnl, p_negLeft⟩ => ?_)
      refine Spec.bind (hS _ (by pre_tac R)) (fun new ⟨hnew, p_new⟩ => ?_)
      refine Spec.pure (R.smaller (R.refl _) ?_)
      exact R.trans (R.negR _ _ hz) (R.trans (R.congBin _ hnl (R.refl _)) hnew)
    · cases h
  · cases h

theorem armNegL_sound {S} (hS : RecSound R S) : ArmSound R (armNegL S) := by
  intro l op r m hl hr h
  unfold armNegL at h
  split at h
  · split at h
    · next hz =>
      cases h
      refine Spec.tk _ ?_
      refine Spec.bind (hS _ (by pre_tac R)) (fun negRight ⟨hnr, p_negRight⟩ => ?_)
      refine Spec.bind (hS _ (by pre_tac R)) (fun new ⟨hnew, p_new⟩ => ?_)
      refine Spec.pure (R.smaller (R.refl _) ?_)
      exact R.trans (R.negL _ _ hz) (R.trans (R.congBin _ (R.refl _) hnr) hnew)
    · cases h
  · cases h

theorem affineGo_sound {S} (hS : RecSound R S) {o la ra x lb rb : Expr K}
    (h : R.R o (.bin (.bin (.bin la .plus ra) .star x) .plus (.bin lb .plus rb)))
    (pla : R.Pre la) (pra : R.Pre ra) (px : R.Pre x) (plb : R.Pre lb) (prb : R.Pre rb) :
    Spec bad (CacheOK R) (affineGo S la ra x lb rb) (fun res => R.R o res) := by
  unfold affineGo
  refine Spec.tk _ ?_
  refine Spec.bind (hS _ (by pre_tac R)) (fun sumAs ⟨hA, p_sumAs⟩ => ?_)
  refine Spec.bind (hS _ (by pre_tac R)) (fun sumBs ⟨hB, p_sumBs⟩ => ?_)
  refine Spec.bind (hS _ (by pre_tac R)) (fun mulAsX ⟨hM, p_mulAsX⟩ => ?_)
  refine hS.of R ?_ (by pre_tac R)
  exact R.trans h (R.congBin _ (R.trans (R.congBin _ hA (R.refl _)) hM) hB)

theorem armAffine_sound {S} (hS : RecSound R S) : ArmSound R (armAffine S) := by
  intro l op r m hl hr h
  unfold armAffine at h
  split at h
  · split at h
    · next h1 => cases h; exact affineGo_sound R hS (R.affine1 h1) (by pre_tac R) (by pre_tac R) (by pre_tac R) (by pre_tac R) (by pre_tac R)
    · split at h
      · next h2 => cases h; exact affineGo_sound R hS (R.affine2 h2) (by pre_tac R) (by pre_tac R) (by pre_tac R) (by pre_tac R) (by pre_tac R)
      · split at h
        · next h3 => cases h; exact affineGo_sound R hS (R.affine3 h3) (by pre_tac R) (by pre_tac R) (by pre_tac R) (by pre_tac R) (by pre_tac R)
        · split at h
          · next h4 => cases h; exact affineGo_sound R hS (R.affine4 h4) (by pre_tac R) (by pre_tac R) (by pre_tac R) (by pre_tac R) (by pre_tac R)
          · cases h
  · cases h

theorem armMulCommon_sound {S} (hS : RecSound R S) : ArmSound R (armMulCommon S) := by
  intro l op r m hl hr h
  unfold armMulCommon at h
  split at h
  · split at h
    · next hz =>
      cases h
      refine Spec.tk _ ?_
      refine Spec.bind (hS _ (by pre_tac R)) (fun sumAs ⟨hA, p_sumAs⟩ => ?_)
      refine hS.of R ?_ (by pre_tac R)
      exact R.trans (R.mulCommon hz) (R.congBin _ hA (R.refl _))
    · cases h
  · cases h

theorem armAddCommon_sound {S} (hS : RecSound R S) : ArmSound R (armAddCommon S) := by
  intro l op r m hl hr h
  unfold armAddCommon at h
  split at h
  · split at h
    · next hz =>
      cases h
      refine Spec.tk _ ?_
      refine Spec.bind (Spec.num R _) (fun two h2 => ?_)
      have p_two := R.keep h2 (R.preNum _)
      refine Spec.bind (hS _ (by pre_tac R)) (fun twoX ⟨hX, p_twoX⟩ => ?_)
      refine Spec.bind (hS _ (by pre_tac R)) (fun sumBs ⟨hB, p_sumBs⟩ => ?_)
      refine hS.of R ?_ (by pre_tac R)
      exact R.trans (R.addCommon hz) (R.congBin _ (R.trans (R.congBin _ h2 (R.refl _)) hX) hB)
    · cases h
  · cases h

theorem armAssocR_sound {S} (hS : RecSound R S) : ArmSound R (armAssocR S) := by
  intro l op r m hl hr h
  unfold armAssocR at h
  split at h
  · split at h
    · next b op' c hz =>
      cases h
      have hz' := Bool.and_eq_true _ _ |>.mp hz
      have hop : op = op' := by simpa using hz'.2
      subst hop
      refine Spec.tk _ ?_
      refine Spec.bind (hS _ (by pre_tac R)) (fun ab ⟨hab, p_ab⟩ => ?_)
      refine Spec.bind (hS _ (by pre_tac R)) (fun new ⟨hnew, p_new⟩ => ?_)
      refine Spec.pure (R.smaller (R.refl _) ?_)
      exact R.trans (R.assocR _ _ _ hz'.1) (R.trans (R.congBin _ hab (R.refl _)) hnew)
    · cases h
  · cases h

theorem armPseudoAssocR_sound {S} (hS : RecSound R S) : ArmSound R (armPseudoAssocR S) := by
  intro l op r m hl hr h
  unfold armPseudoAssocR at h
  split at h
  · split at h
    · next b op' c hz =>
      cases h
      have hz' := Bool.and_eq_true _ _ |>.mp hz
      have hop : op = op' := by simpa using hz'.2
      subst hop
      refine Spec.tk _ ?_
      refine Spec.bind (hS _ (by pre_tac R)) (fun ac ⟨hac, p_ac⟩ => ?_)
      refine Spec.bind (hS _ (by pre_tac R)) (fun new ⟨hnew, p_new⟩ => ?_)
      refine Spec.pure (R.smaller (R.refl _) ?_)
      exact R.trans (R.pseudoAssocR _ _ _ hz'.1) (R.trans (R.congBin _ hac (R.refl _)) hnew)
    · cases h
  · cases h

theorem armAssocL_sound {S} (hS : RecSound R S) : ArmSound R (armAssocL S) := by
  intro l op r m hl hr h
  unfold armAssocL at h
  split at h
  · split at h
    · next a op' b hz =>
      cases h
      have hz' := Bool.and_eq_true _ _ |>.mp hz
      have hop : op = op' := by simpa using hz'.2
      subst hop
      refine Spec.tk _ ?_
      refine Spec.bind (hS _ (by pre_tac R)) (fun bc ⟨hbc, p_bc⟩ => ?_)
      refine Spec.bind (hS _ (by pre_tac R)) (fun new ⟨hnew, p_new⟩ => ?_)
      refine Spec.pure (R.smaller (R.refl _) ?_)
      exact R.trans (R.assocL _ _ _ hz'.1) (R.trans (R.congBin _ (R.refl _) hbc) hnew)
    · cases h
  · cases h

theorem armDistR_sound {S} (hS : RecSound R S) : ArmSound R (armDistR S) := by
  intro l op r m hl hr h
  unfold armDistR at h
  split at h
  · cases h
    refine Spec.tk _ ?_
    refine Spec.bind (hS _ (by pre_tac R)) (fun ab ⟨hab, p_ab⟩ => ?_)
    refine Spec.bind (hS _ (by pre_tac R)) (fun ac ⟨hac, p_ac⟩ => ?_)
    refine Spec.bind (hS _ (by pre_tac R)) (fun new ⟨hnew, p_new⟩ => ?_)
    refine Spec.pure (R.smaller (R.refl _) ?_)
    exact R.trans (R.distR _ _ _) (R.trans (R.congBin _ hab hac) hnew)
  · cases h

theorem armDistL_sound {S} (hS : RecSound R S) : ArmSound R (armDistL S) := by
  intro l op r m hl hr h
  unfold armDistL at h
  split at h
  · cases h
    refine Spec.tk _ ?_
    refine Spec.bind (hS _ (by pre_tac R)) (fun ac ⟨hac, p_ac⟩ => ?_)
    refine Spec.bind (hS _ (by pre_tac R)) (fun bc ⟨hbc, p_bc⟩ => ?_)
    refine Spec.bind (hS _ (by pre_tac R)) (fun new ⟨hnew, p_new⟩ => ?_)
    refine Spec.pure (R.smaller (R.refl _) ?_)
    exact R.trans (R.distL _ _ _) (R.trans (R.congBin _ hac hbc) hnew)
  · cases h

theorem armMulDivCancelL_sound : ArmSound R armMulDivCancelL := by
  intro l op r m hl hr h
  unfold armMulDivCancelL at h
  split at h
  · split at h
    · next h1 => cases h; exact Spec.tk _ (Spec.pure (R.mulDivCancelL1 h1))
    · split at h
      · next h2 => cases h; exact Spec.tk _ (Spec.pure (R.mulDivCancelL2 h2))
      · cases h
  · cases h

theorem armDivMulCancelR_sound {S} (hS : RecSound R S) : ArmSound R (armDivMulCancelR S) := by
  intro l op r m hl hr h
  unfold armDivMulCancelR at h
  split at h
  · split at h
    · next h1 =>
      cases h
      refine Spec.tk _ ?_
      refine Spec.bind (Spec.num R _) (fun one h1' => ?_)
      have p_one := R.keep h1' (R.preNum _)
      exact hS.of R (R.trans (R.divMulCancelR1 h1) (R.congBin _ h1' (R.refl _))) (by pre_tac R)
    · split at h
      · next h2 =>
        cases h
        refine Spec.tk _ ?_
        refine Spec.bind (Spec.num R _) (fun one h1' => ?_)
        have p_one := R.keep h1' (R.preNum _)
        exact hS.of R (R.trans (R.divMulCancelR2 h2) (R.congBin _ h1' (R.refl _))) (by pre_tac R)
      · cases h
  · cases h

theorem armMulInDivL_sound {S} (hS : RecSound R S) : ArmSound R (armMulInDivL S) := by
  intro l op r m hl hr h
  unfold armMulInDivL at h
  split at h
  · cases h
    refine Spec.tk _ ?_
    refine Spec.bind (hS _ (by pre_tac R)) (fun nm ⟨hnm, p_nm⟩ => ?_)
    refine Spec.bind (hS _ (by pre_tac R)) (fun new ⟨hnew, p_new⟩ => ?_)
    refine Spec.pure (R.smaller (R.refl _) ?_)
    exact R.trans (R.mulInDivL _ _ _) (R.trans (R.congBin _ (R.refl _) hnm) hnew)
  · cases h

theorem armMulInDivR_sound {S} (hS : RecSound R S) : ArmSound R (armMulInDivR S) := by
  intro l op r m hl hr h
  unfold armMulInDivR at h
  split at h
  · cases h
    refine Spec.tk _ ?_
    refine Spec.bind (hS _ (by pre_tac R)) (fun nm ⟨hnm, p_nm⟩ => ?_)
    refine Spec.bind (hS _ (by pre_tac R)) (fun new ⟨hnew, p_new⟩ => ?_)
    refine Spec.pure (R.smaller (R.refl _) ?_)
    exact R.trans (R.mulInDivR _ _ _) (R.trans (R.congBin _ hnm (R.refl _)) hnew)
  · cases h

theorem armDivMulCancelL_sound : ArmSound R armDivMulCancelL := by
  intro l op r m hl hr h
  unfold armDivMulCancelL at h
  split at h
  · split at h
    · next hz => cases h; exact Spec.tk _ (Spec.pure (R.divMulCancelL hz))
    · cases h
  · cases h

theorem armMulDivCancelR_sound : ArmSound R armMulDivCancelR := by
  intro l op r m hl hr h
  unfold armMulDivCancelR at h
  split at h
  · split at h
    · next hz => cases h; exact Spec.tk _ (Spec.pure (R.mulDivCancelR hz))
    · cases h
  · cases h

/-! ### The `match`, the three `simplify_*` functions, the memo table, the limit -/

/-- every arm of the table is sound, whatever sound function it is given for `self.simplify(_, limit - 1)` -/
def TableSound (T : ArmTable K) : Prop :=
  ∀ S, RecSound R S → ∀ f ∈ T S, ArmSound R f

theorem firstArm_sound {fs : List (ArmFn K)} (h : ∀ f ∈ fs, ArmSound R f) (l : Expr K) (op : InfixOp)
    (r : Expr K) (hl : R.Pre l) (hr : R.Pre r) :
    Spec bad (CacheOK R) (firstArm fs l op r) (fun res => R.R (.bin l op r) res) := by
  induction fs with
  | nil => exact Spec.tk _ (Spec.pure (R.refl _))
  | cons f fs ih =>
    unfold firstArm
    split
    · next m hm => exact h f (by simp) l op r m hl hr hm
    · exact ih (fun g hg => h g (by simp [hg]))

theorem arms_sound : TableSound R arms := by
  intro S hS f hf
  simp only [arms, List.mem_cons, List.mem_nil_iff, or_false] at hf
  rcases hf with rfl | rfl | rfl | rfl | rfl | rfl | rfl | rfl | rfl | rfl | rfl | rfl | rfl | rfl | rfl | rfl |
    rfl | rfl | rfl | rfl | rfl | rfl | rfl | rfl | rfl | rfl | rfl | rfl | rfl | rfl | rfl | rfl | rfl | rfl |
    rfl | rfl | rfl | rfl | rfl | rfl
  · exact armAddZeroL_sound R
  · exact armAddZeroR_sound R
  · exact armSubZeroL_sound R hS
  · exact armSubZeroR_sound R
  · exact armSubSelf_sound R
  · exact armMulZero_sound R
  · exact armMulOneL_sound R
  · exact armMulOneR_sound R
  · exact armDivZeroL_sound R
  · exact armDivByZero_sound R
  · exact armDivOne_sound R
  · exact armDivSelf_sound R
  · exact armPowZeroExp_sound R
  · exact armPowZeroBase_sound R
  · exact armPowOneBase_sound R
  · exact armPowOneExp_sound R
  · exact armFold_sound R
  · exact armAddNegR_sound R hS
  · exact armAddNegL_sound R hS
  · exact armSubNegR_sound R hS
  · exact armSubNegL_sound R hS
  · exact armNegNeg_sound R hS
  · exact armDivNegSelfR_sound R
  · exact armDivNegSelfL_sound R
  · exact armNegR_sound R hS
  · exact armNegL_sound R hS
  · exact armAffine_sound R hS
  · exact armMulCommon_sound R hS
  · exact armAddCommon_sound R hS
  · exact armAssocR_sound R hS
  · exact armPseudoAssocR_sound R hS
  · exact armAssocL_sound R hS
  · exact armDistR_sound R hS
  · exact armDistL_sound R hS
  · exact armMulDivCancelL_sound R
  · exact armDivMulCancelR_sound R hS
  · exact armMulInDivL_sound R hS
  · exact armMulInDivR_sound R hS
  · exact armDivMulCancelL_sound R
  · exact armMulDivCancelR_sound R

theorem simplifyInfix_sound {T : ArmTable K} (hT : TableSound R T) {S0 S1} (h0 : RecSound R S0)
    (h1 : RecSound R S1) (left : Expr K) (op : InfixOp) (right : Expr K) (hl : R.Pre left) (hr : R.Pre right) :
    Spec bad (CacheOK R) (simplifyInfix T S0 S1 left op right) (fun res => R.R (.bin left op right) res) := by
  unfold simplifyInfix
  refine Spec.bind (h0 _ hl) (fun l ⟨hl', pl⟩ => ?_)
  refine Spec.bind (h0 _ hr) (fun r ⟨hr', pr⟩ => ?_)
  exact Spec.mono (firstArm_sound R (hT S1 h1) l op r pl pr) (fun _ h => R.trans (R.congBin _ hl' hr') h)

theorem simplifyCall_sound {S0} (h0 : RecSound R S0) (f : ExprFn) (x : Expr K) (hx : R.Pre x) :
    Spec bad (CacheOK R) (simplifyCall S0 f x) (fun res => R.R (.call f x) res) := by
  unfold simplifyCall
  refine Spec.bind (h0 _ hx) (fun x' ⟨hx', _⟩ => ?_)
  split
  · exact Spec.tk _ (Spec.numOf R (R.trans (R.congCall _ hx') (R.callFold _ _)))
  · exact Spec.tk _ (Spec.pure (R.congCall _ hx'))

theorem simplifyPrefix_sound {S0} (h0 : RecSound R S0) (op : PrefixOp) (x : Expr K) (hx : R.Pre x) :
    Spec bad (CacheOK R) (simplifyPrefix S0 op x) (fun res => R.R (.pre op x) res) := by
  unfold simplifyPrefix
  refine Spec.bind (h0 _ hx) (fun x' ⟨hx', _⟩ => ?_)
  split
  · exact Spec.tk _ (Spec.pure (R.trans (R.congPre _ hx') (R.prePlus _)))
  · split
    · exact Spec.tk _ (Spec.numOf R (R.trans (R.congPre _ hx') (R.preNegNum _)))
    · exact Spec.tk _ (Spec.pure (R.trans (R.congPre _ hx') (R.preNegNeg _)))
    · exact Spec.tk _ (Spec.pure (R.congPre _ hx'))

theorem step0_sound (e : Expr K) : Spec bad (CacheOK R) (step0 e) (fun res => R.R e res) := by
  unfold step0
  split
  · exact Spec.tk _ (Spec.numOf R R.piNum)
  · exact Spec.tk _ (Spec.pure (R.refl _))

theorem step_sound {T : ArmTable K} (hT : TableSound R T) {S0 S1} (h0 : RecSound R S0) (h1 : RecSound R S1)
    (e : Expr K) (he : R.Pre e) : Spec bad (CacheOK R) (step T S0 S1 e) (fun res => R.R e res) := by
  unfold step
  split
  · exact Spec.tk _ (Spec.numOf R R.piNum)
  · exact Spec.tk _ (Spec.pure (R.refl _))
  · exact Spec.tk _ (Spec.pure (R.refl _))
  · exact Spec.tk _ (Spec.pure (R.refl _))
  · exact simplifyCall_sound R h0 _ _ (R.preCall.mp he)
  · exact simplifyInfix_sound R hT h0 h1 _ _ _ (R.preBin.mp he).1 (R.preBin.mp he).2
  · exact simplifyPrefix_sound R h0 _ _ (R.prePre.mp he)

theorem lookup_some {c : List (Expr K × Expr K)} {e v : Expr K} (h : lookup c e = some v) :
    ∃ k, (k, v) ∈ c ∧ beqE k e = true := by
  induction c with
  | nil => simp [lookup] at h
  | cons kv t ih =>
    obtain ⟨k, v'⟩ := kv
    unfold lookup at h
    split at h
    · next hb => cases h; exact ⟨k, by simp, hb⟩
    · obtain ⟨k', hk, hb⟩ := ih h
      exact ⟨k', by simp [hk], hb⟩

/-- the memo table: a hit returns a related expression; a miss runs the body and records a related pair -/
theorem memo_sound {e : Expr K} {body : M K (Expr K)} (he : R.Pre e)
    (h : Spec bad (CacheOK R) body (fun res => R.R e res)) :
    Spec bad (CacheOK R) (memo e body) (fun res => R.R e res ∧ R.Pre res) := by
  intro s hs
  unfold memo
  split
  · next v hv =>
    right
    obtain ⟨k, hk, hb⟩ := lookup_some hv
    have hev := R.trans (R.beqR hb) (hs k v hk).2
    exact ⟨hs, hev, R.keep hev he⟩
  · rcases h s hs with hbad | ⟨hc, hr⟩
    · left; exact hbad
    · right
      refine ⟨?_, hr, R.keep hr he⟩
      intro k v hkv
      simp only [List.mem_cons] at hkv
      rcases hkv with hkv | hkv
      · cases hkv; exact ⟨R.keep hr he, hr⟩
      · exact hc k v hkv

/-- **The induction on the limit.**  For every sound table of arms, every limit and every expression. -/
theorem simplifyWith_sound {T : ArmTable K} (hT : TableSound R T) :
    ∀ n, RecSound R (simplifyWith T n) := by
  have key : ∀ n, RecSound R (simplifyWith T n) ∧ RecSound R (simplifyWith T (n + 1)) := by
    intro n
    induction n with
    | zero =>
      have h0 : RecSound R (simplifyWith T 0) := fun e he => by
        unfold simplifyWith; exact memo_sound R he (step0_sound R e)
      exact ⟨h0, fun e he => by unfold simplifyWith; exact memo_sound R he (step_sound R hT h0 h0 e he)⟩
    | succ n ih =>
      exact ⟨ih.2, fun e he => by unfold simplifyWith; exact memo_sound R he (step_sound R hT ih.2 ih.1 e he)⟩
  exact fun n => (key n).1

theorem simplify_sound' : ∀ n, RecSound R (simplify (K := K) n) :=
  simplifyWith_sound R (arms_sound R)

end sound
end QV.C12
