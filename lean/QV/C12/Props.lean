import QV.C12.Lemmas
/-
C12 — Expression simplification preserves the expression's value.

  "For every expression e and every assignment where e evaluates to a finite value, the simplified form of e
   evaluates to the same value up to floating-point rounding.  Simplification never introduces new variables or
   memory references, and never returns the symbolic constant pi."

Property theorems only.  All of them quantify over every expression, every limit, every initial memo table that
satisfies the invariant, every set of live numbers — no size bound.  The model is `QV/C12/Model.lean`; the generic
induction over the limit and the per-arm lemmas are in `Hoare.lean`, the relations in `Lemmas.lean`.

* value clause: over any field `K` with `ScalarLaws` (exact arithmetic; `pow` opaque up to `x^0 = 1`, `1^y = 1`,
  `x^1 = x`; `sin cos exp sqrt cis` opaque).  PARTIAL in two declared ways: (a) the arm `0^e ⇒ 0` for non-constant
  `e` (known finding C12/zero-pow-variable-exponent) is excluded — the theorems hold for every run whose arm log
  does not contain `powZeroBase`, and `C12_value_full_counterexample` refutes the unrestricted statement;
  (b) IEEE effects (rounding, the 1e-10 tolerance of `is_zero`, signed zeros on branch cuts) are outside an exact
  field and are covered by the sampled correspondence check only.
* structural clauses: for every `SimpScalar` whatsoever, in particular the rounding `CFloat` the driver runs.
-/
namespace QV.C12
open QV Expr

section value
variable {K : Type} [Field K] [SimpScalar K]

/-- **Cache-soundness invariant**: every memoised pair `e ↦ r` is such that wherever `e` is defined, `r` is
defined with the same value. -/
def CacheSound (c : List (Expr K × Expr K)) : Prop := ∀ k v, (k, v) ∈ c → Refines k v

/-- **C12, value clause, the simplifier proper** (`Simplifier::simplify(e, Limit(n))`), partial as declared above.
For every limit `n`, expression `e` and state `s` (memo table — whatever earlier calls with *other limits* left in
it — and live numbers): if the memo table is sound, then either the run took the arm `0^e ⇒ 0`, or the memo table
it leaves is sound and the result refines `e`.  Induction on `n`, one lemma per arm. -/
theorem C12_simplify_sound_partial (L : ScalarLaws K) (n : Nat) (e : Expr K) (s : St K)
    (hc : CacheSound s.cache) :
    Arm.powZeroBase ∈ (simplify n e s).2.2 ∨
      (CacheSound (simplify n e s).2.1.cache ∧ Refines e (simplify n e s).1) := by
  rcases simplify_sound' (valueRel L) n e s hc with ⟨a, ha, rfl⟩ | h
  · exact Or.inl ha
  · exact Or.inr h

/- The full statement, which is FALSE of the code (and of the model):
     theorem C12_value_full (L : ScalarLaws K) (amb : List K) (e : Expr K) : Refines e (simplifyTop amb e)
   see `C12_value_full_counterexample`. -/

/-- **C12, value clause, at the entry point** (`Expression::simplify` / `into_simplified`): for every expression
and every set of live numbers, if the run did not take the arm `0^e ⇒ 0`, then at every assignment at which `e` is
defined (all variables and memory cells present, no division by zero) the simplified expression is defined and has
the same value. -/
theorem C12_value_partial (L : ScalarLaws K) (amb : List K) (e : Expr K)
    (hlog : Arm.powZeroBase ∉ (simplifyTopWith arms amb e).2) :
    ∀ ρ μ v, evalD ρ μ e = some v → evalD ρ μ (simplifyTop amb e) = some v := by
  have hrun : ∀ e : Expr K, Arm.powZeroBase ∉ (runWith arms amb e).2 → Refines e (runWith arms amb e).1 := by
    intro e hlog
    unfold runWith at hlog ⊢
    have h := C12_simplify_sound_partial L LIMIT e { cache := [], pool := numbers e ++ amb }
      (by intro k v hkv; simp at hkv)
    change Arm.powZeroBase ∈ (simplifyWith arms LIMIT e _).2.2 ∨
      (_ ∧ Refines e (simplifyWith arms LIMIT e _).1) at h
    generalize simplifyWith arms LIMIT e { cache := [], pool := numbers e ++ amb } = out at h hlog ⊢
    obtain ⟨r, s', w⟩ := out
    cases r <;> simp only at hlog ⊢ <;> rcases h with h | h
    all_goals first
      | exact absurd h hlog
      | exact h.2
      | exact Refines.trans' h.2 (id_piNum L)
  unfold simplifyTop
  cases e with
  | address r => exact fun _ _ _ h => h
  | number z => exact fun _ _ _ h => h
  | var x => exact fun _ _ _ h => h
  | pi => exact id_piNum L
  | call f x => exact hrun _ hlog
  | bin l op r => exact hrun _ hlog
  | pre op x => exact hrun _ hlog

/-- … and therefore the shared model of `Expression::evaluate` returns that value on the simplified expression. -/
theorem C12_value_partial_eval (L : ScalarLaws K) (amb : List K) (e : Expr K)
    (hlog : Arm.powZeroBase ∉ (simplifyTopWith arms amb e).2)
    (ρ : VarEnv K) (μ : MemEnv K) (v : K) (h : evalD ρ μ e = some v) :
    eval ρ μ (simplifyTop amb e) = .ok v :=
  evalD_eval ρ μ _ v (C12_value_partial L amb e hlog ρ μ v h)

end value

/-! ### Non-vacuity and the counterexample, over `ℚ` (`ratLaws : ScalarLaws ℚ`) -/

/-- the hypotheses of `C12_value_partial` are satisfiable on an expression that is really rewritten:
`(%x * %y) / %x ⇒ %y` -/
example : simplifyTop (K := ℚ) [] (.bin (.bin (.var "x") .star (.var "y")) .slash (.var "x")) = .var "y" ∧
    Arm.powZeroBase ∉
      (simplifyTopWith (K := ℚ) arms [] (.bin (.bin (.var "x") .star (.var "y")) .slash (.var "x"))).2 := by
  constructor
  · rfl
  · decide

/-- a sound, non-empty memo table -/
example : CacheSound (K := ℚ) [(.bin (.var "x") .plus (.number 0), .var "x")] := by
  intro k v h
  simp only [List.mem_singleton, Prod.mk.injEq] at h
  obtain ⟨rfl, rfl⟩ := h
  exact id_addZeroR ratLaws _ (by decide)

/-- **The unrestricted value statement is false** (known finding C12/zero-pow-variable-exponent): `0^%x`
simplifies to `0`, but at `%x = 0` it is defined and evaluates to `0^0 = 1`. -/
theorem C12_value_full_counterexample :
    ¬ (∀ (e : Expr ℚ), Refines e (simplifyTop [] e)) := by
  intro h
  have h0 := h (.bin (.number 0) .caret (.var "x"))
  have hs : simplifyTop (K := ℚ) [] (.bin (.number 0) .caret (.var "x")) = .number 0 := by rfl
  rw [hs] at h0
  exact powZeroBase_unsound ratLaws h0

/-! ### The structural clauses: every scalar, no laws -/

section structural
variable {K : Type} [SimpScalar K]

/-- **C12, "never introduces new variables or memory references"**, for the simplifier proper: every limit, every
expression, every state whose memo table has the property. -/
theorem C12_simplify_leaves (n : Nat) (e : Expr K) (s : St K)
    (hc : ∀ k v, (k, v) ∈ s.cache → SubLeaves k v) :
    (∀ k v, (k, v) ∈ (simplify n e s).2.1.cache → SubLeaves k v) ∧ SubLeaves e (simplify n e s).1 := by
  rcases simplify_sound' varsRel n e s hc with ⟨_, _, hf⟩ | h
  · exact absurd hf id
  · exact h

/-- **C12, structural clauses at the entry point**: for every expression and every set of live numbers, the result
of `Expression::simplify` mentions only variables and memory references of the input, and it is not the symbolic
constant `pi` (the latter since the repair 62718e2 of `run`; before it, `+(+(+(+(+(+(+(+(+((pi*%x)/%x)))))))))`
returned `pi`). -/
theorem C12_structural (amb : List K) (e : Expr K) : StructSpec e (simplifyTop amb e) := by
  have hrun : ∀ e : Expr K, SubLeaves e (runWith arms amb e).1 ∧ (runWith arms amb e).1 ≠ .pi := by
    intro e
    unfold runWith
    have h := (C12_simplify_leaves LIMIT e { cache := [], pool := numbers e ++ amb }
      (by intro k v hkv; simp at hkv)).2
    change SubLeaves e (simplifyWith arms LIMIT e _).1 at h
    generalize simplifyWith arms LIMIT e { cache := [], pool := numbers e ++ amb } = out at h ⊢
    obtain ⟨r, s', w⟩ := out
    cases r <;> simp only at h ⊢ <;> first
      | exact ⟨h, by simp⟩
      | exact ⟨⟨by simp [Expr.vars], by simp [Expr.addrs]⟩, by simp⟩
  have key : SubLeaves e (simplifyTop amb e) ∧ simplifyTop amb e ≠ .pi := by
    unfold simplifyTop simplifyTopWith
    cases e with
    | address r => exact ⟨⟨fun _ h => h, fun _ h => h⟩, by simp⟩
    | number z => exact ⟨⟨fun _ h => h, fun _ h => h⟩, by simp⟩
    | var x => exact ⟨⟨fun _ h => h, fun _ h => h⟩, by simp⟩
    | pi => exact ⟨⟨by simp [Expr.vars], by simp [Expr.addrs]⟩, by simp⟩
    | call f x => exact hrun _
    | bin l op r => exact hrun _
    | pre op x => exact hrun _
  exact ⟨key.1.1, key.1.2, key.2⟩

/-- the Bool checker the driver evaluates on the implementation's output decides the structural specification -/
theorem C12_structSpecB_iff (e out : Expr K) : structSpecB e out = true ↔ StructSpec e out := by
  unfold structSpecB StructSpec
  simp only [Bool.and_eq_true, List.all_eq_true, List.contains_iff_mem, Bool.not_eq_true']
  constructor
  · rintro ⟨⟨h1, h2⟩, h3⟩
    refine ⟨h1, h2, ?_⟩
    intro hp; subst hp; simp [isPi] at h3
  · rintro ⟨h1, h2, h3⟩
    refine ⟨⟨h1, h2⟩, ?_⟩
    cases out <;> simp_all [isPi]

end structural

/-- the structural clauses hold in particular for the floating-point model that the driver runs against the code -/
example (amb : List CFloat) (e : Expr CFloat) : StructSpec e (simplifyTop amb e) := C12_structural amb e

end QV.C12
