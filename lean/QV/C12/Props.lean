import QV.C12.Lemmas
/-
C12 — Expression simplification preserves the expression's value.

  "For every expression e and every assignment where e evaluates to a finite value, the simplified form of e
   evaluates to the same value up to floating-point rounding.  Simplification never introduces new variables or
   memory references, and never returns the symbolic constant pi."

Property theorems only.  All of them quantify over every expression, every limit, every initial memo table that
satisfies the invariant, every set of live numbers — no size bound.  The model is `QV/C12/Model.lean`; the generic
induction over the limit and the per-arm lemmas are in `Hoare.lean`, the relations in `Lemmas.lean`.

* value clause: over any field `K` with `ScalarLaws` (exact arithmetic; `pow` opaque up to `x^0 = 1`, `1^y = 1`,
  `x^1 = x`; `sin cos exp sqrt cis` opaque).  PARTIAL in two declared ways: (a) the arm `0^e ⇒ 0` for non-constant
  `e` (known finding C12/zero-pow-variable-exponent) is excluded — the theorems hold for every run whose arm log
  does not contain `powZeroBase`, and `C12_value_full_counterexample` refutes the unrestricted statement;
  (b) IEEE effects (rounding, the 1e-10 tolerance of `is_zero`, signed zeros on branch cuts) are outside an exact
  field and are covered by the sampled correspondence check only.
* structural clauses: for every `SimpScalar` whatsoever, in particular the rounding `CFloat` the driver runs.
-/
namespace QV.C12
open QV Expr

section value
variable {K : Type} [Field K] [SimpScalar K]

/-- **Cache-soundness invariant**: every memoised pair `e ↦ r` is such that wherever `e` is defined, `r` is
defined with the same value. -/
def CacheSound (c : List (Expr K × Expr K)) : Prop := ∀ k v, (k, v) ∈ c → Refines k v

/-- **C12, value clause, the simplifier proper** (`Simplifier::simplify(e, Limit(n))`), partial as declared above.
For every limit `n`, expression `e` and state `s` (memo table — whatever earlier calls with *other limits* left in
it — and live numbers): if the memo table is sound, then either the run took the arm `0^e ⇒ 0`, or the memo table
it leaves is sound and the result refines `e`.  Induction on `n`, one lemma per arm. -/
theorem C12_simplify_sound_partial (L : ScalarLaws K) (n : Nat) (e : Expr K) (s : St K)
    (hc : CacheSound s.cache) :
    Arm.powZeroBase ∈ (simplify n e s).2.2 ∨
      (CacheSound (simplify n e s).2.1.cache ∧ Refines e (simplify n e s).1) := by
  rcases simplify_sound' (valueRel L) n e trivial s (fun k v h => ⟨trivial, hc k v h⟩) with ⟨a, ha, rfl⟩ | h
  · exact Or.inl ha
  · exact Or.inr ⟨fun k v hkv => (h.1 k v hkv).2, h.2.1⟩

/- The full statement, which is FALSE of the code (and of the model):
     theorem C12_value_full (L : ScalarLaws K) (amb : List K) (e : Expr K) : Refines e (simplifyTop amb e)
   see `C12_value_full_counterexample`. -/

/-- **C12, value clause, at the entry point** (`Expression::simplify` / `into_simplified`): for every expression
and every set of live numbers, if the run did not take the arm `0^e ⇒ 0`, then at every assignment at which `e` is
defined (all variables and memory cells present, no division by zero) the simplified expression is defined and has
the same value. -/
theorem C12_value_partial (L : ScalarLaws K) (amb : List K) (e : Expr K)
    (hlog : Arm.powZeroBase ∉ (simplifyTopWith arms amb e).2) :
    ∀ ρ μ v, evalD ρ μ e = some v → evalD ρ μ (simplifyTop amb e) = some v := by
  have hrun : ∀ e : Expr K, Arm.powZeroBase ∉ (runWith arms amb e).2 → Refines e (runWith arms amb e).1 := by
    intro e hlog
    unfold runWith at hlog ⊢
    have h := C12_simplify_sound_partial L LIMIT e { cache := [], pool := numbers e ++ amb }
      (by intro k v hkv; simp at hkv)
    change Arm.powZeroBase ∈ (simplifyWith arms LIMIT e _).2.2 ∨
      (_ ∧ Refines e (simplifyWith arms LIMIT e _).1) at h
    generalize simplifyWith arms LIMIT e { cache := [], pool := numbers e ++ amb } = out at h hlog ⊢
    obtain ⟨r, s', w⟩ := out
    cases r <;> simp only at hlog ⊢ <;> rcases h with h | h
    all_goals first
      | exact absurd h hlog
      | exact h.2
      | exact Refines.trans' h.2 (id_piNum L)
  unfold simplifyTop
  cases e with
  | address r => exact fun _ _ _ h => h
  | number z => exact fun _ _ _ h => h
  | var x => exact fun _ _ _ h => h
  | pi => exact id_piNum L
  | call f x => exact hrun _ hlog
  | bin l op r => exact hrun _ hlog
  | pre op x => exact hrun _ hlog

/-- … and therefore the shared model of `Expression::evaluate` returns that value on the simplified expression. -/
theorem C12_value_partial_eval (L : ScalarLaws K) (amb : List K) (e : Expr K)
    (hlog : Arm.powZeroBase ∉ (simplifyTopWith arms amb e).2)
    (ρ : VarEnv K) (μ : MemEnv K) (v : K) (h : evalD ρ μ e = some v) :
    eval ρ μ (simplifyTop amb e) = .ok v :=
  evalD_eval ρ μ _ v (C12_value_partial L amb e hlog ρ μ v h)

end value

/-! ### Non-vacuity and the counterexample, over `ℚ` (`ratLaws : ScalarLaws ℚ`) -/

/-- the hypotheses of `C12_value_partial` are satisfiable on an expression that is really rewritten:
`(%x * %y) / %x ⇒ %y` -/
example : simplifyTop (K := ℚ) [] (.bin (.bin (.var "x") .star (.var "y")) .slash (.var "x")) = .var "y" ∧
    Arm.powZeroBase ∉
      (simplifyTopWith (K := ℚ) arms [] (.bin (.bin (.var "x") .star (.var "y")) .slash (.var "x"))).2 := by
  constructor
  · rfl
  · decide

/-- a sound, non-empty memo table -/
example : CacheSound (K := ℚ) [(.bin (.var "x") .plus (.number 0), .var "x")] := by
  intro k v h
  simp only [List.mem_singleton, Prod.mk.injEq] at h
  obtain ⟨rfl, rfl⟩ := h
  exact id_addZeroR ratLaws _ (by decide)

/-- The memo table ignores the limit, so the result depends on what was visited before: `%x + 0` simplifies to
`%x` from an empty table, but a visit with limit 0 leaves the entry `%x + 0 ↦ %x + 0`, and from that table the same
call (limit 10) returns `%x + 0`.  (Both results are sound; `C12_simplify_sound_partial` covers every such table.) -/
example :
    let e : Expr ℚ := .bin (.var "x") .plus (.number 0)
    (simplify 10 e { cache := [], pool := [] }).1 = .var "x" ∧
    (simplify 0 e { cache := [], pool := [] }).2.1.cache = [(e, e)] ∧
    (simplify 10 e { cache := [(e, e)], pool := [] }).1 = e := by
  refine ⟨by rfl, by rfl, by rfl⟩

/-- **The unrestricted value statement is false** (known finding C12/zero-pow-variable-exponent): `0^%x`
simplifies to `0`, but at `%x = 0` it is defined and evaluates to `0^0 = 1`. -/
theorem C12_value_full_counterexample :
    ¬ (∀ (e : Expr ℚ), Refines e (simplifyTop [] e)) := by
  intro h
  have h0 := h (.bin (.number 0) .caret (.var "x"))
  have hs : simplifyTop (K := ℚ) [] (.bin (.number 0) .caret (.var "x")) = .number 0 := by rfl
  rw [hs] at h0
  exact powZeroBase_unsound ratLaws h0

/-! ### The structural clauses: every scalar, no laws -/

section structural
variable {K : Type} [SimpScalar K]

/-- **C12, "never introduces new variables or memory references"**, for the simplifier proper: every limit, every
expression, every state whose memo table has the property. -/
theorem C12_simplify_leaves (n : Nat) (e : Expr K) (s : St K)
    (hc : ∀ k v, (k, v) ∈ s.cache → SubLeaves k v) :
    (∀ k v, (k, v) ∈ (simplify n e s).2.1.cache → SubLeaves k v) ∧ SubLeaves e (simplify n e s).1 := by
  rcases simplify_sound' varsRel n e trivial s (fun k v h => ⟨trivial, hc k v h⟩) with ⟨_, _, hf⟩ | h
  · exact absurd hf id
  · exact ⟨fun k v hkv => (h.1 k v hkv).2, h.2.1⟩

/-- **C12, structural clauses at the entry point**: for every expression and every set of live numbers, the result
of `Expression::simplify` mentions only variables and memory references of the input, and it is not the symbolic
constant `pi` (the latter since the repair 62718e2 of `run`; before it, `+(+(+(+(+(+(+(+(+((pi*%x)/%x)))))))))`
returned `pi`). -/
theorem C12_structural (amb : List K) (e : Expr K) : StructSpec e (simplifyTop amb e) := by
  have hrun : ∀ e : Expr K, SubLeaves e (runWith arms amb e).1 ∧ (runWith arms amb e).1 ≠ .pi := by
    intro e
    unfold runWith
    have h := (C12_simplify_leaves LIMIT e { cache := [], pool := numbers e ++ amb }
      (by intro k v hkv; simp at hkv)).2
    change SubLeaves e (simplifyWith arms LIMIT e _).1 at h
    generalize simplifyWith arms LIMIT e { cache := [], pool := numbers e ++ amb } = out at h ⊢
    obtain ⟨r, s', w⟩ := out
    cases r <;> simp only at h ⊢ <;> first
      | exact ⟨h, by simp⟩
      | exact ⟨⟨by simp [Expr.vars], by simp [Expr.addrs]⟩, by simp⟩
  have key : SubLeaves e (simplifyTop amb e) ∧ simplifyTop amb e ≠ .pi := by
    unfold simplifyTop simplifyTopWith
    cases e with
    | address r => exact ⟨⟨fun _ h => h, fun _ h => h⟩, by simp⟩
    | number z => exact ⟨⟨fun _ h => h, fun _ h => h⟩, by simp⟩
    | var x => exact ⟨⟨fun _ h => h, fun _ h => h⟩, by simp⟩
    | pi => exact ⟨⟨by simp [Expr.vars], by simp [Expr.addrs]⟩, by simp⟩
    | call f x => exact hrun _
    | bin l op r => exact hrun _
    | pre op x => exact hrun _
  exact ⟨key.1.1, key.1.2, key.2⟩

/-- the Bool checker the driver evaluates on the implementation's output decides the structural specification -/
theorem C12_structSpecB_iff (e out : Expr K) : structSpecB e out = true ↔ StructSpec e out := by
  unfold structSpecB StructSpec
  simp only [Bool.and_eq_true, List.all_eq_true, List.contains_iff_mem, Bool.not_eq_true']
  constructor
  · rintro ⟨⟨h1, h2⟩, h3⟩
    refine ⟨h1, h2, ?_⟩
    intro hp; subst hp; simp [isPi] at h3
  · rintro ⟨h1, h2, h3⟩
    refine ⟨⟨h1, h2⟩, ?_⟩
    cases out <;> simp_all [isPi]

end structural

/-! ### "No `pi` anywhere in the result" — an additional, PARTIAL result

The property's clause is about the result *being* `pi` (`C12_structural`, all expressions).  The stronger "the result
*contains* no `pi`" holds exactly up to the depth the recursion limit can reach: -/

section pifree
variable {K : Type} [SimpScalar K]

private abbrev PSpec (m : M K (Expr K)) : Prop :=
  Spec (fun _ => False) (CacheOK (piRel (K := K))) m (fun r => piFree r = true)

/-- calls on expressions no deeper than `n` return `pi`-free expressions (and keep all memoised values `pi`-free) -/
private def DSound (n : Nat) (S : Expr K → M K (Expr K)) : Prop := ∀ e, e.depth ≤ n → PSpec (S e)

private theorem memoD {e : Expr K} {body : M K (Expr K)} (h : PSpec body) : PSpec (memo e body) := by
  intro s hs
  unfold memo
  split
  · next v hv =>
    obtain ⟨k, hk, _⟩ := lookup_some hv
    exact Or.inr ⟨hs, (hs k v hk).1⟩
  · rcases h s hs with hbad | ⟨hc, hr⟩
    · exact Or.inl hbad
    · refine Or.inr ⟨?_, hr⟩
      intro k v hkv
      simp only [List.mem_cons] at hkv
      rcases hkv with hkv | hkv
      · cases hkv; exact ⟨hr, fun _ => hr⟩
      · exact hc k v hkv

private theorem numD (v : K) : PSpec (mkNum v) := Spec.mono (Spec.num piRel v) (fun _ h => h rfl)

private theorem step0D (e : Expr K) (hd : e.depth ≤ 0) : PSpec (step0 e) := by
  unfold step0
  split
  · exact Spec.tk _ (numD _)
  · refine Spec.tk _ (Spec.pure ?_)
    cases e <;> simp_all [Expr.depth, piFree]

private theorem stepD {T : ArmTable K} (hT : TableSound piRel T) {S0 S1 : Expr K → M K (Expr K)} {n : Nat}
    (h0 : DSound n S0) (h1 : RecSound piRel S1) (e : Expr K) (hd : e.depth ≤ n + 1) :
    PSpec (step T S0 S1 e) := by
  unfold step
  split
  · exact Spec.tk _ (numD _)
  · exact Spec.tk _ (Spec.pure rfl)
  · exact Spec.tk _ (Spec.pure rfl)
  · exact Spec.tk _ (Spec.pure rfl)
  · next f x =>
    have hx : x.depth ≤ n := by simp [Expr.depth] at hd; omega
    unfold simplifyCall
    refine Spec.bind (h0 x hx) (fun x' px => ?_)
    split
    · exact Spec.tk _ (numD _)
    · exact Spec.tk _ (Spec.pure (by simpa [piFree] using px))
  · next l op r =>
    have hl : l.depth ≤ n := by simp [Expr.depth] at hd; omega
    have hr : r.depth ≤ n := by simp [Expr.depth] at hd; omega
    unfold simplifyInfix
    refine Spec.bind (h0 l hl) (fun l' pl => ?_)
    refine Spec.bind (h0 r hr) (fun r' pr => ?_)
    exact Spec.mono (firstArm_sound piRel (hT S1 h1) l' op r' pl pr)
      (fun _ h => h (by simp [piFree, pl, pr]))
  · next op x =>
    have hx : x.depth ≤ n := by simp [Expr.depth] at hd; omega
    unfold simplifyPrefix
    refine Spec.bind (h0 x hx) (fun x' px => ?_)
    split
    · exact Spec.tk _ (Spec.pure px)
    · split
      · exact Spec.tk _ (numD _)
      · exact Spec.tk _ (Spec.pure (by simpa [piFree] using px))
      · exact Spec.tk _ (Spec.pure (by simpa [piFree] using px))

private theorem simplifyD : ∀ n : Nat, DSound (K := K) n (simplify (K := K) n) := by
  have key : ∀ n : Nat, DSound (K := K) n (simplify (K := K) n) ∧
      DSound (K := K) (n + 1) (simplify (K := K) (n + 1)) := by
    intro n
    induction n with
    | zero =>
      have h0 : DSound (K := K) 0 (simplify (K := K) 0) := fun e he => by
        unfold simplify simplifyWith; exact memoD (step0D e he)
      refine ⟨h0, fun e he => ?_⟩
      unfold simplify simplifyWith
      exact memoD (stepD (arms_sound piRel) h0 (simplify_sound' piRel 0) e he)
    | succ n ih =>
      refine ⟨ih.2, fun e he => ?_⟩
      unfold simplify simplifyWith
      exact memoD (stepD (arms_sound piRel) ih.2 (simplify_sound' piRel n) e he)
  exact fun n => (key n).1

/-- **No `pi` anywhere, up to the depth of the limit** (partial: `depth e ≤ LIMIT = 10`).  For every limit `n`,
every expression no deeper than `n` and every state whose memoised values are `pi`-free (whatever their keys and
whatever limits they were computed with), the result contains no `pi` and the memoised values stay `pi`-free. -/
theorem C12_piFree_simplify_partial (n : Nat) (e : Expr K) (s : St K) (hd : e.depth ≤ n)
    (hc : ∀ k v, (k, v) ∈ s.cache → piFree v = true) :
    (∀ k v, (k, v) ∈ (simplify n e s).2.1.cache → piFree v = true) ∧ piFree (simplify n e s).1 = true := by
  rcases simplifyD n e hd s (fun k v h => ⟨hc k v h, fun _ => hc k v h⟩) with ⟨_, _, hf⟩ | h
  · exact absurd hf id
  · exact ⟨fun k v hkv => (h.1 k v hkv).1, h.2⟩

/-- … at the entry point: an expression of depth at most 10 simplifies to an expression without `pi`. -/
theorem C12_piFree_partial (amb : List K) (e : Expr K) (hd : e.depth ≤ LIMIT) :
    piFree (simplifyTop amb e) = true := by
  have hrun : ∀ e : Expr K, e.depth ≤ LIMIT → piFree (runWith arms amb e).1 = true := by
    intro e hd
    unfold runWith
    have h := (C12_piFree_simplify_partial LIMIT e { cache := [], pool := numbers e ++ amb } hd
      (by intro k v hkv; simp at hkv)).2
    change piFree (simplifyWith arms LIMIT e _).1 = true at h
    generalize simplifyWith arms LIMIT e { cache := [], pool := numbers e ++ amb } = out at h ⊢
    obtain ⟨r, s', w⟩ := out
    cases r <;> first | exact h | rfl
  unfold simplifyTop simplifyTopWith
  cases e with
  | address r => rfl
  | number z => rfl
  | var x => rfl
  | pi => rfl
  | call f x => exact hrun _ hd
  | bin l op r => exact hrun _ hd
  | pre op x => exact hrun _ hd

end pifree

/-- the nine-fold `+(…)` of the repaired defect -/
def plus9 {K : Type} (e : Expr K) : Expr K :=
  .pre .plus (.pre .plus (.pre .plus (.pre .plus (.pre .plus (.pre .plus (.pre .plus (.pre .plus (.pre .plus e))))))))

/-- **The depth bound is tight, and this is outside the property's statement**: at depth 11 the limit is exhausted
inside; `sin(+(+(+(+(+(+(+(+((pi*%x)/%x)))))))))` simplifies to `sin(pi)` — an inner `pi` (value preserved), not a
`pi` result. -/
theorem C12_piFree_depth11_counterexample :
    ∃ e : Expr ℚ, e.depth = 11 ∧ piFree (simplifyTop [] e) = false := by
  refine ⟨.call .sin (.pre .plus (.pre .plus (.pre .plus (.pre .plus (.pre .plus (.pre .plus (.pre .plus (.pre .plus
    (.bin (.bin .pi .star (.var "x")) .slash (.var "x")))))))))), by decide, by rfl⟩

/-- the witness of the repaired defect 62718e2: the simplifier proper returns `pi` here (limit exhausted), the
patched `run` turns it into the number -/
example : (simplify (K := ℚ) LIMIT (plus9 (.bin (.bin .pi .star (.var "x")) .slash (.var "x")))
      { cache := [], pool := [] }).1 = .pi ∧
    simplifyTop (K := ℚ) [] (plus9 (.bin (.bin .pi .star (.var "x")) .slash (.var "x"))) = .number 3 := by
  constructor <;> rfl

/-- the structural clauses hold in particular for the floating-point model that the driver runs against the code -/
example (amb : List CFloat) (e : Expr CFloat) : StructSpec e (simplifyTop amb e) := C12_structural amb e

end QV.C12
