import QV.Shared.Expr
import QV.Shared.CFloat
/-
QV.C12.Model — executable model of the hand-written expression simplifier
(quil-rs/src/expression/simplification/by_hand.rs) and of its entry point `Expression::simplify`
(quil-rs/src/expression/mod.rs:440).  Generic in the scalar `K` (theorems: any field with `ScalarLaws`;
driver: `CFloat`).  Import-free apart from the shared expression model.

What is modelled, and how:

* `Simplifier { simplify_cache, size_cache }` (by_hand.rs:52).  `simplify_cache` is threaded as state
  (`St.cache`, an association list, newest binding first = `HashMap::insert` overwriting).  It is keyed by the
  expression only — the `limit` is NOT part of the key (by_hand.rs:156) — so a result computed with a small
  limit is returned later for a large one; the model does the same.  `size_cache` memoises a pure function of
  the structure and is not modelled (`Expr.size`).
* Hash-consing.  Every node is an `ArcIntern<Expression>`; `==` on them is pointer equality, which is
  `Expression`'s `Eq` (mod.rs:240): structural, numbers compared with `floating_point_eq` (`+0.0 = -0.0`, all
  NaNs equal).  Modelled by `beqE` (structural equality with the scalar's `eqv` on numeric leaves).  A second
  consequence is observable: `ArcIntern::new(Number(v))` returns the *already live* node that is `Eq` to it, so a
  freshly computed `-1-0i` becomes `-1+0i` if that number is alive anywhere in the process.  All numbers that
  the simplifier creates stay alive until it is dropped (they are keys or values of `simplify_cache`), as do the
  numbers of the input tree (held by the caller), so the set of live numbers only grows: `St.pool`, consulted by
  `mkNum` at every `interned::number(..)` site.  The harness reports the numbers that are alive outside the
  input tree (`ambient`).
* `limit` (by_hand.rs:27-49): `Limit(10)` at the top, `limit - 1` saturating.  `simplify n` is the function
  with `limit = n`; `simplify_infix(.., limit)` uses `self.simplify(.., limit)` for its operands and
  `self.simplify(.., limit - 1)` for the rewritten forms: the two function parameters `S0`, `S1` below.
* The result carries the list of arms taken (`Arm`), in order: the coverage tags of the correspondence check,
  and the handle by which the theorems exclude the one arm that is a known finding (`Arm.powZeroBase`).
-/
namespace QV.C12
open QV

/-- What the simplifier needs from `Complex64` beyond `Scalar`: the tolerance tests `is_zero` / `is_one`
(by_hand.rs:199-206), the equality used by `Expression`'s `Eq` on numeric leaves (`floating_point_eq::complex64::eq`),
and the constants `real!(f64::NAN)`, `TWO`, `-ONE` (`Complex64`'s own `Neg`: `-1-0i`; prefix minus is *not* that
operation since a634ce0: `negate(v) = 0 - v`, which is `Scalar.sub Scalar.zero v`). -/
class SimpScalar (K : Type) extends Scalar K where
  isZero : K → Bool
  isOne : K → Bool
  eqv : K → K → Bool
  nan : K
  two : K
  negOne : K

/-- Which branch was taken.  One constructor per match arm of `simplify` / `simplify_function_call` /
`simplify_prefix` / `simplify_infix`, in source order. -/
inductive Arm where
  -- `simplify` (by_hand.rs:155-190)
  | cacheHit | piConst | limit0 | atom
  -- `simplify_function_call` (229-244)
  | callFold | callKeep
  -- `simplify_prefix` (777-804)
  | prePlus | preNegNum | preNegNeg | preNeg
  -- `simplify_infix` (247-774)
  | addZeroL | addZeroR | subZeroL | subZeroR | subSelf | mulZero | mulOneL | mulOneR
  | divZeroL | divByZero | divOne | divSelf
  | powZeroExp | powZeroBase | powOneBase | powOneExp | fold
  | addNegR | addNegL | subNegR | subNegL | negNeg | divNegSelfR | divNegSelfL | negR | negL
  | affine | mulCommon | addCommon
  | assocR | pseudoAssocR | assocL | distR | distL
  | mulDivCancelL | divMulCancelR | mulInDivL | mulInDivR | divMulCancelL | mulDivCancelR
  | default
  deriving DecidableEq, Repr, Inhabited

def Arm.name : Arm → String
  | .cacheHit => "cacheHit" | .piConst => "piConst" | .limit0 => "limit0" | .atom => "atom"
  | .callFold => "callFold" | .callKeep => "callKeep"
  | .prePlus => "prePlus" | .preNegNum => "preNegNum" | .preNegNeg => "preNegNeg" | .preNeg => "preNeg"
  | .addZeroL => "addZeroL" | .addZeroR => "addZeroR" | .subZeroL => "subZeroL" | .subZeroR => "subZeroR"
  | .subSelf => "subSelf" | .mulZero => "mulZero" | .mulOneL => "mulOneL" | .mulOneR => "mulOneR"
  | .divZeroL => "divZeroL" | .divByZero => "divByZero" | .divOne => "divOne" | .divSelf => "divSelf"
  | .powZeroExp => "powZeroExp" | .powZeroBase => "powZeroBase" | .powOneBase => "powOneBase"
  | .powOneExp => "powOneExp" | .fold => "fold"
  | .addNegR => "addNegR" | .addNegL => "addNegL" | .subNegR => "subNegR" | .subNegL => "subNegL"
  | .negNeg => "negNeg" | .divNegSelfR => "divNegSelfR" | .divNegSelfL => "divNegSelfL"
  | .negR => "negR" | .negL => "negL"
  | .affine => "affine" | .mulCommon => "mulCommon" | .addCommon => "addCommon"
  | .assocR => "assocR" | .pseudoAssocR => "pseudoAssocR" | .assocL => "assocL"
  | .distR => "distR" | .distL => "distL"
  | .mulDivCancelL => "mulDivCancelL" | .divMulCancelR => "divMulCancelR"
  | .mulInDivL => "mulInDivL" | .mulInDivR => "mulInDivR"
  | .divMulCancelL => "divMulCancelL" | .mulDivCancelR => "mulDivCancelR"
  | .default => "default"

/-- The simplifier's state: the memo table and the live numbers (see the header). -/
structure St (K : Type) where
  cache : List (Expr K × Expr K)
  pool : List K

/-- State + arm log (a writer: logs are only ever appended). -/
def M (K : Type) (α : Type) : Type := St K → α × St K × List Arm

instance {K : Type} : Monad (M K) where
  pure a := fun s => (a, s, [])
  bind m f := fun s =>
    match m s with
    | (a, s1, w1) =>
      match f a s1 with
      | (b, s2, w2) => (b, s2, w1 ++ w2)

section
variable {K : Type} [SimpScalar K]

/-- `ArcIntern<Expression>` equality = `Expression`'s `Eq` (mod.rs:240-268). -/
def beqE (a b : Expr K) : Bool := Expr.beqWith SimpScalar.eqv a b

/-- record the arm taken -/
def tick (a : Arm) : M K Unit := fun s => ((), s, [a])

/-- `interned::number(v)` = `ArcIntern::new(Expression::Number(v))`: the live node `Eq` to it, if any. -/
def mkNum (v : K) : M K (Expr K) := fun s =>
  match s.pool.find? (fun u => SimpScalar.eqv u v) with
  | some u => (.number u, s, [])
  | none => (.number v, { s with pool := v :: s.pool }, [])

/-- `self.simplify_cache.get(&e)` -/
def lookup : List (Expr K × Expr K) → Expr K → Option (Expr K)
  | [], _ => none
  | (k, v) :: t, e => if beqE k e then some v else lookup t e

/-- The memoisation wrapper of `simplify` (by_hand.rs:156-158, 187). -/
def memo (e : Expr K) (body : M K (Expr K)) : M K (Expr K) := fun s =>
  match lookup s.cache e with
  | some r => (r, s, [Arm.cacheHit])
  | none =>
    match body s with
    | (r, s', w) => (r, { s' with cache := (e, r) :: s'.cache }, w)

/-- `Simplifier::smaller` (by_hand.rs:139): `min_by_key(expr1, expr2, size)` — the FIRST on a tie. -/
def smaller (e1 e2 : Expr K) : Expr K := if e2.size < e1.size then e2 else e1

/-- the numeric leaves, left to right (the numbers the input tree keeps alive) -/
def numbers : Expr K → List K
  | .call _ e => numbers e
  | .bin l _ r => numbers l ++ numbers r
  | .pre _ e => numbers e
  | .number z => [z]
  | _ => []

/-- `simplify_function_call` (by_hand.rs:229-244); `S0` = `self.simplify(_, limit)`. -/
def simplifyCall (S0 : Expr K → M K (Expr K)) (f : ExprFn) (x : Expr K) : M K (Expr K) := do
  let x' ← S0 x
  match x' with
  | .number z => do tick .callFold; mkNum (calcFn f z)
  | _ => do tick .callKeep; pure (.call f x')

/-- `simplify_prefix` (by_hand.rs:777-804). -/
def simplifyPrefix (S0 : Expr K → M K (Expr K)) (op : PrefixOp) (x : Expr K) : M K (Expr K) := do
  let x' ← S0 x
  match op with
  | .plus => do tick .prePlus; pure x'
  | .minus =>
    match x' with
    | .number z => do tick .preNegNum; mkNum (Scalar.sub Scalar.zero z)   -- `negate(*x)` (mod.rs:424)
    | .pre .minus inner => do tick .preNegNeg; pure inner
    | _ => do tick .preNeg; pure (.pre .minus x')

/-! ### The arms of `simplify_infix`, in source order

Each arm is a partial function of the (already simplified) `left`, the operator and the (already simplified)
`right`: `none` = the pattern or its guard does not match, fall through to the next arm.  `S` is
`self.simplify(_, limit - 1)`. -/

abbrev ArmFn (K : Type) := Expr K → InfixOp → Expr K → Option (M K (Expr K))

/-- by_hand.rs:267 `(Number(x), Plus, _) if is_zero(x) => right` -/
def armAddZeroL : ArmFn K
  | .number x, .plus, r => if SimpScalar.isZero x then some (do tick .addZeroL; pure r) else none
  | _, _, _ => none

/-- :268 `(_, Plus, Number(x)) if is_zero(x) => left` -/
def armAddZeroR : ArmFn K
  | l, .plus, .number x => if SimpScalar.isZero x then some (do tick .addZeroR; pure l) else none
  | _, _, _ => none

/-- :271 `(Number(x), Minus, _) if is_zero(x) => simplify(neg(right), limit - 1)` -/
def armSubZeroL (S : Expr K → M K (Expr K)) : ArmFn K
  | .number x, .minus, r => if SimpScalar.isZero x then some (do tick .subZeroL; S (.pre .minus r)) else none
  | _, _, _ => none

/-- :274 `(_, Minus, Number(y)) if is_zero(y) => left` -/
def armSubZeroR : ArmFn K
  | l, .minus, .number y => if SimpScalar.isZero y then some (do tick .subZeroR; pure l) else none
  | _, _, _ => none

/-- :277 `(_, Minus, _) if left == right => 0` -/
def armSubSelf : ArmFn K
  | l, .minus, r => if beqE l r then some (do tick .subSelf; mkNum Scalar.zero) else none
  | _, _, _ => none

/-- is the expression a number that `is_zero`? -/
def numIsZero : Expr K → Bool
  | .number x => SimpScalar.isZero x
  | _ => false

/-- :282-287 `(Number(x), Star, _) | (_, Star, Number(x)) if is_zero(x) => 0` (the guard is tried for each
alternative) -/
def armMulZero : ArmFn K
  | l, .star, r => if numIsZero l || numIsZero r then some (do tick .mulZero; mkNum Scalar.zero) else none
  | _, _, _ => none

/-- :290 `(Number(x), Star, _) if is_one(x) => right` -/
def armMulOneL : ArmFn K
  | .number x, .star, r => if SimpScalar.isOne x then some (do tick .mulOneL; pure r) else none
  | _, _, _ => none

/-- :291 `(_, Star, Number(x)) if is_one(x) => left` -/
def armMulOneR : ArmFn K
  | l, .star, .number x => if SimpScalar.isOne x then some (do tick .mulOneR; pure l) else none
  | _, _, _ => none

/-- :294 `(Number(x), Slash, _) if is_zero(x) => 0` -/
def armDivZeroL : ArmFn K
  | .number x, .slash, _ => if SimpScalar.isZero x then some (do tick .divZeroL; mkNum Scalar.zero) else none
  | _, _, _ => none

/-- :297 `(_, Slash, Number(y)) if is_zero(y) => NaN` -/
def armDivByZero : ArmFn K
  | _, .slash, .number y => if SimpScalar.isZero y then some (do tick .divByZero; mkNum SimpScalar.nan) else none
  | _, _, _ => none

/-- :302 `(_, Slash, Number(y)) if is_one(y) => left` -/
def armDivOne : ArmFn K
  | l, .slash, .number y => if SimpScalar.isOne y then some (do tick .divOne; pure l) else none
  | _, _, _ => none

/-- :305 `(_, Slash, _) if left == right => 1` -/
def armDivSelf : ArmFn K
  | l, .slash, r => if beqE l r then some (do tick .divSelf; mkNum Scalar.one) else none
  | _, _, _ => none

/-- :310 `(_, Caret, Number(y)) if is_zero(y) => 1` -/
def armPowZeroExp : ArmFn K
  | _, .caret, .number y => if SimpScalar.isZero y then some (do tick .powZeroExp; mkNum Scalar.one) else none
  | _, _, _ => none

/-- :313 `(Number(x), Caret, _) if is_zero(x) => 0` — KNOWN FINDING C12/zero-pow-variable-exponent: the
exponent is not a (zero) number here, but it may still evaluate to zero, and `0^0 = 1`. -/
def armPowZeroBase : ArmFn K
  | .number x, .caret, _ => if SimpScalar.isZero x then some (do tick .powZeroBase; mkNum Scalar.zero) else none
  | _, _, _ => none

/-- :318 `(Number(x), Caret, _) if is_one(x) => 1` -/
def armPowOneBase : ArmFn K
  | .number x, .caret, _ => if SimpScalar.isOne x then some (do tick .powOneBase; mkNum Scalar.one) else none
  | _, _, _ => none

/-- :319 `(_, Caret, Number(y)) if is_one(y) => left` -/
def armPowOneExp : ArmFn K
  | l, .caret, .number y => if SimpScalar.isOne y then some (do tick .powOneExp; pure l) else none
  | _, _, _ => none

/-- :325 `(Number(x), _, Number(y)) => calculate_infix(x, operator, y)` -/
def armFold : ArmFn K
  | .number x, op, .number y => some (do tick .fold; mkNum (calcInfix x op y))
  | _, _, _ => none

/-- :335-342 `a + (-b) => simplify(a - b)` -/
def armAddNegR (S : Expr K → M K (Expr K)) : ArmFn K
  | l, .plus, .pre .minus e => some (do tick .addNegR; S (.bin l .minus e))
  | _, _, _ => none

/-- :344-351 `(-b) + a => simplify(a - b)` -/
def armAddNegL (S : Expr K → M K (Expr K)) : ArmFn K
  | .pre .minus e, .plus, r => some (do tick .addNegL; S (.bin r .minus e))
  | _, _, _ => none

/-- :356-363 `a - (-b) => simplify(a + b)` -/
def armSubNegR (S : Expr K → M K (Expr K)) : ArmFn K
  | l, .minus, .pre .minus e => some (do tick .subNegR; S (.bin l .plus e))
  | _, _, _ => none

/-- :366-382 `(-e) - right => smaller((-e) - right, -(e + right))` -/
def armSubNegL (S : Expr K → M K (Expr K)) : ArmFn K
  | .pre .minus e, .minus, r => some (do
      tick .subNegL
      let inner ← S (.bin e .plus r)
      let outer ← S (.pre .minus inner)
      pure (smaller (.bin (.pre .minus e) .minus r) outer))
  | _, _, _ => none

/-- `InfixOperator::Star | InfixOperator::Slash` -/
def isMulDiv : InfixOp → Bool
  | .star => true
  | .slash => true
  | _ => false

/-- :387-397 `(-a) ⋇ (-b) => simplify(a ⋇ b)` -/
def armNegNeg (S : Expr K → M K (Expr K)) : ArmFn K
  | .pre .minus a, op, .pre .minus b =>
    if isMulDiv op then some (do tick .negNeg; S (.bin a op b)) else none
  | _, _, _ => none

/-- :400-407 `a / (-a) => -1` -/
def armDivNegSelfR : ArmFn K
  | l, .slash, .pre .minus e =>
    if beqE l e then some (do tick .divNegSelfR; mkNum SimpScalar.negOne) else none
  | _, _, _ => none

/-- :408-415 `(-a) / a => -1` -/
def armDivNegSelfL : ArmFn K
  | .pre .minus e, .slash, r =>
    if beqE e r then some (do tick .divNegSelfL; mkNum SimpScalar.negOne) else none
  | _, _, _ => none

/-- :418-433 `a ⋇ (-b)`: `smaller(a ⋇ (-b), simplify(simplify(-a) ⋇ b))` -/
def armNegR (S : Expr K → M K (Expr K)) : ArmFn K
  | l, op, .pre .minus e =>
    if isMulDiv op then some (do
      tick .negR
      let negLeft ← S (.pre .minus l)
      let new ← S (.bin negLeft op e)
      pure (smaller (.bin l op (.pre .minus e)) new))
    else none
  | _, _, _ => none

/-- :436-451 `(-a) ⋇ b`: `smaller((-a) ⋇ b, simplify(a ⋇ simplify(-b)))` -/
def armNegL (S : Expr K → M K (Expr K)) : ArmFn K
  | .pre .minus e, op, r =>
    if isMulDiv op then some (do
      tick .negL
      let negRight ← S (.pre .minus r)
      let new ← S (.bin e op negRight)
      pure (smaller (.bin (.pre .minus e) op r) new))
    else none
  | _, _, _ => none

/-- the body of the affine arm (by_hand.rs:500-505) once `(left_a, right_a, x)` have been chosen -/
def affineGo (S : Expr K → M K (Expr K)) (la ra x lb rb : Expr K) : M K (Expr K) := do
  tick .affine
  let sumAs ← S (.bin la .plus ra)
  let sumBs ← S (.bin lb .plus rb)
  let mulAsX ← S (.bin sumAs .star x)
  S (.bin mulAsX .plus sumBs)

/-- :461-506 `(a1*x + b1) + (a2*x + b2) => (a1 + a2)*x + (b1 + b2)`, `x` on either side of either product
(`mul_matches`, by_hand.rs:209-225, then the `if` chain 490-498) -/
def armAffine (S : Expr K → M K (Expr K)) : ArmFn K
  | .bin (.bin ll .star lr) .plus lb, .plus, .bin (.bin rl .star rr) .plus rb =>
    if beqE ll rl then some (affineGo S lr rr ll lb rb)
    else if beqE ll rr then some (affineGo S lr rl ll lb rb)
    else if beqE lr rl then some (affineGo S ll rr lr lb rb)
    else if beqE lr rr then some (affineGo S ll rl rr lb rb)
    else none
  | _, _, _ => none

/-- :509-525 `(a1 * x) + (a2 * x) => (a1 + a2) * x` (only `x` on the right of both) -/
def armMulCommon (S : Expr K → M K (Expr K)) : ArmFn K
  | .bin la .star lx, .plus, .bin ra .star rx =>
    if beqE lx rx then some (do
      tick .mulCommon
      let sumAs ← S (.bin la .plus ra)
      S (.bin sumAs .star lx))
    else none
  | _, _, _ => none

/-- :528-548 `(x + b1) + (x + b2) => 2*x + (b1 + b2)` -/
def armAddCommon (S : Expr K → M K (Expr K)) : ArmFn K
  | .bin lx .plus lb, .plus, .bin rx .plus rb =>
    if beqE lx rx then some (do
      tick .addCommon
      let two ← mkNum SimpScalar.two
      let twoX ← S (.bin two .star lx)
      let sumBs ← S (.bin lb .plus rb)
      S (.bin twoX .plus sumBs))
    else none
  | _, _, _ => none

/-- `InfixOperator::Plus | InfixOperator::Star` -/
def isAddMul : InfixOp → Bool
  | .plus => true
  | .star => true
  | _ => false

/-- `InfixOperator::Minus | InfixOperator::Slash` -/
def isSubDiv : InfixOp → Bool
  | .minus => true
  | .slash => true
  | _ => false

/-- :558-571 `a + (b + c)` / `a * (b * c)`: `smaller(original, simplify(simplify(a ∘ b) ∘ c))` -/
def armAssocR (S : Expr K → M K (Expr K)) : ArmFn K
  | l, op, .bin b op' c =>
    if isAddMul op && op == op' then some (do
      tick .assocR
      let ab ← S (.bin l op b)
      let new ← S (.bin ab op c)
      pure (smaller (.bin l op (.bin b op' c)) new))
    else none
  | _, _, _ => none

/-- :577-596 `a - (b - c) => (a + c) - b`, `a / (b / c) => (a * c) / b`, the smaller -/
def armPseudoAssocR (S : Expr K → M K (Expr K)) : ArmFn K
  | l, op, .bin b op' c =>
    if isSubDiv op && op == op' then some (do
      tick .pseudoAssocR
      let inverse : InfixOp := if op == .minus then .plus else .star
      let ac ← S (.bin l inverse c)
      let new ← S (.bin ac op b)
      pure (smaller (.bin l op (.bin b op' c)) new))
    else none
  | _, _, _ => none

/-- :604-626 `(a ∘ b) ∘ c => a ∘ (b ∘' c)` with `∘' = +` for `-`, `*` for `/`, the smaller -/
def armAssocL (S : Expr K → M K (Expr K)) : ArmFn K
  | .bin a op' b, op, r =>
    if (isAddMul op || isSubDiv op) && op == op' then some (do
      tick .assocL
      let rhsOp : InfixOp := match op with
        | .minus => .plus
        | .slash => .star
        | o => o
      let bc ← S (.bin b rhsOp r)
      let new ← S (.bin a op bc)
      pure (smaller (.bin (.bin a op' b) op r) new))
    else none
  | _, _, _ => none

/-- :629-643 `a * (b + c) => a*b + a*c`, the smaller -/
def armDistR (S : Expr K → M K (Expr K)) : ArmFn K
  | l, .star, .bin b .plus c => some (do
      tick .distR
      let ab ← S (.bin l .star b)
      let ac ← S (.bin l .star c)
      let new ← S (.bin ab .plus ac)
      pure (smaller (.bin l .star (.bin b .plus c)) new))
  | _, _, _ => none

/-- :646-660 `(a + b) * c => a*c + b*c`, the smaller -/
def armDistL (S : Expr K → M K (Expr K)) : ArmFn K
  | .bin a .plus b, .star, r => some (do
      tick .distL
      let ac ← S (.bin a .star r)
      let bc ← S (.bin b .star r)
      let new ← S (.bin ac .plus bc)
      pure (smaller (.bin (.bin a .plus b) .star r) new))
  | _, _, _ => none

/-- :667-682 `(a * b) / a => b`, `(b * a) / a => b` -/
def armMulDivCancelL : ArmFn K
  | .bin p .star q, .slash, r =>
    if beqE r p then some (do tick .mulDivCancelL; pure q)
    else if beqE r q then some (do tick .mulDivCancelL; pure p)
    else none
  | _, _, _ => none

/-- :685-705 `a / (a * b) => simplify(1 / b)`, `a / (b * a) => simplify(1 / b)` -/
def armDivMulCancelR (S : Expr K → M K (Expr K)) : ArmFn K
  | l, .slash, .bin p .star q =>
    if beqE l p then some (do tick .divMulCancelR; let one ← mkNum Scalar.one; S (.bin one .slash q))
    else if beqE l q then some (do tick .divMulCancelR; let one ← mkNum Scalar.one; S (.bin one .slash p))
    else none
  | _, _, _ => none

/-- :708-725 `(a * b) / c => a * (b / c)`, the smaller -/
def armMulInDivL (S : Expr K → M K (Expr K)) : ArmFn K
  | .bin m1 .star m2, .slash, r => some (do
      tick .mulInDivL
      let newMultiplicand ← S (.bin m2 .slash r)
      let new ← S (.bin m1 .star newMultiplicand)
      pure (smaller (.bin (.bin m1 .star m2) .slash r) new))
  | _, _, _ => none

/-- :728-745 `a / (b * c) => (a / b) / c`, the smaller -/
def armMulInDivR (S : Expr K → M K (Expr K)) : ArmFn K
  | l, .slash, .bin m1 .star m2 => some (do
      tick .mulInDivR
      let newMultiplier ← S (.bin l .slash m1)
      let new ← S (.bin newMultiplier .slash m2)
      pure (smaller (.bin l .slash (.bin m1 .star m2)) new))
  | _, _, _ => none

/-- :748-756 `(b / a) * a => b` -/
def armDivMulCancelL : ArmFn K
  | .bin other .slash same, .star, r =>
    if beqE same r then some (do tick .divMulCancelL; pure other) else none
  | _, _, _ => none

/-- :759-767 `a * (b / a) => b` -/
def armMulDivCancelR : ArmFn K
  | l, .star, .bin other .slash same =>
    if beqE l same then some (do tick .mulDivCancelR; pure other) else none
  | _, _, _ => none

/-- All arms of the big `match` of `simplify_infix`, in source order (the catch-all is `firstArm`'s default). -/
def arms (S : Expr K → M K (Expr K)) : List (ArmFn K) :=
  [ armAddZeroL, armAddZeroR, armSubZeroL S, armSubZeroR, armSubSelf,
    armMulZero, armMulOneL, armMulOneR, armDivZeroL, armDivByZero, armDivOne, armDivSelf,
    armPowZeroExp, armPowZeroBase, armPowOneBase, armPowOneExp, armFold,
    armAddNegR S, armAddNegL S, armSubNegR S, armSubNegL S, armNegNeg S, armDivNegSelfR, armDivNegSelfL,
    armNegR S, armNegL S,
    armAffine S, armMulCommon S, armAddCommon S,
    armAssocR S, armPseudoAssocR S, armAssocL S, armDistR S, armDistL S,
    armMulDivCancelL, armDivMulCancelR S, armMulInDivL S, armMulInDivR S, armDivMulCancelL, armMulDivCancelR ]

/-- Rust `match`: the first arm whose pattern and guard match; `:772 _ => infix(left, operator, right)`. -/
def firstArm : List (ArmFn K) → Expr K → InfixOp → Expr K → M K (Expr K)
  | [], l, op, r => do tick .default; pure (.bin l op r)
  | f :: fs, l, op, r =>
    match f l op r with
    | some m => m
    | none => firstArm fs l op r

/-- The table of arms as a function of `self.simplify(_, limit - 1)`.  The code's table is `arms`; the functions
below take the table as a parameter only so that the driver can also run the simplifier *without* one arm (the
counterfactual behind the classifier of the known finding C12/zero-pow-variable-exponent). -/
abbrev ArmTable (K : Type) := (Expr K → M K (Expr K)) → List (ArmFn K)

/-- `arms` without `armPowZeroBase` -/
def armsNoPowZeroBase : ArmTable K := fun S =>
  [ armAddZeroL, armAddZeroR, armSubZeroL S, armSubZeroR, armSubSelf,
    armMulZero, armMulOneL, armMulOneR, armDivZeroL, armDivByZero, armDivOne, armDivSelf,
    armPowZeroExp, armPowOneBase, armPowOneExp, armFold,
    armAddNegR S, armAddNegL S, armSubNegR S, armSubNegL S, armNegNeg S, armDivNegSelfR, armDivNegSelfL,
    armNegR S, armNegL S,
    armAffine S, armMulCommon S, armAddCommon S,
    armAssocR S, armPseudoAssocR S, armAssocL S, armDistR S, armDistL S,
    armMulDivCancelL, armDivMulCancelR S, armMulInDivL S, armMulInDivR S, armDivMulCancelL, armMulDivCancelR ]

/-- `simplify_infix` (by_hand.rs:247-774): `S0 = self.simplify(_, limit)`, `S1 = self.simplify(_, limit - 1)`. -/
def simplifyInfix (T : ArmTable K) (S0 S1 : Expr K → M K (Expr K)) (left : Expr K) (op : InfixOp)
    (right : Expr K) : M K (Expr K) := do
  let l ← S0 left
  let r ← S0 right
  firstArm (T S1) l op r

/-- the `match` of `simplify` for `limit = 0` (by_hand.rs:160-166) -/
def step0 (e : Expr K) : M K (Expr K) :=
  match e with
  | .pi => do tick .piConst; mkNum Scalar.pi
  | _ => do tick .limit0; pure e

/-- the `match` of `simplify` for `limit > 0` (by_hand.rs:160-185); `S0 = simplify(_, limit - 1)`,
`S1 = simplify(_, limit - 1 - 1)` -/
def step (T : ArmTable K) (S0 S1 : Expr K → M K (Expr K)) (e : Expr K) : M K (Expr K) :=
  match e with
  | .pi => do tick .piConst; mkNum Scalar.pi
  | .address _ => do tick .atom; pure e
  | .number _ => do tick .atom; pure e
  | .var _ => do tick .atom; pure e
  | .call f x => simplifyCall S0 f x
  | .bin l op r => simplifyInfix T S0 S1 l op r
  | .pre op x => simplifyPrefix S0 op x

/-- `Simplifier::simplify(e, Limit(n))` (by_hand.rs:155-190) over a table of arms.  Structural recursion on the
limit (`limit - 1` saturates at 0). -/
def simplifyWith (T : ArmTable K) : Nat → Expr K → M K (Expr K)
  | 0, e => memo e (step0 e)
  | 1, e => memo e (step T (simplifyWith T 0) (simplifyWith T 0) e)
  | n + 2, e => memo e (step T (simplifyWith T (n + 1)) (simplifyWith T n) e)

/-- `Simplifier::simplify(e, Limit(n))` (by_hand.rs:155-190): the code's table. -/
def simplify : Nat → Expr K → M K (Expr K) := simplifyWith arms

/-- `const LIMIT: Limit = Limit(10)` (by_hand.rs:27) -/
def LIMIT : Nat := 10

/-- `simplification::run` (by_hand.rs:13-21): a fresh `Simplifier`; alive are the numbers of the input tree and
whatever the rest of the process holds (`ambient`).  A `PiConstant()` result (possible once the limit is exhausted:
a rewrite such as `(a*b)/a => b` hands back a child that was never simplified) is replaced by the owned value
`Expression::Number(PI)` — not interned, hence no `mkNum`.  Returns the result and the arms taken. -/
def runWith (T : ArmTable K) (ambient : List K) (e : Expr K) : Expr K × List Arm :=
  match simplifyWith T LIMIT e { cache := [], pool := numbers e ++ ambient } with
  | (.pi, _, w) => (.number Scalar.pi, w)
  | (r, _, w) => (r, w)

def run (ambient : List K) (e : Expr K) : Expr K × List Arm := runWith arms ambient e

/-- `Expression::simplify` / `into_simplified` (mod.rs:440-466), with the arms taken. -/
def simplifyTopWith (T : ArmTable K) (ambient : List K) (e : Expr K) : Expr K × List Arm :=
  match e with
  | .address _ => (e, [])
  | .number _ => (e, [])
  | .var _ => (e, [])
  | .pi => (.number Scalar.pi, [])
  | _ => runWith T ambient e

/-- `Expression::simplify` / `into_simplified` (mod.rs:440-466). -/
def simplifyTop (ambient : List K) (e : Expr K) : Expr K := (simplifyTopWith arms ambient e).1

end

/-! ### The concrete scalar of the driver -/

namespace CFloatSimp
open CFloat

/-- `1e-10_f64` -/
def tol : Float := Float.ofBits 0x3DDB7CDFD9D7BDBB

/-- `f64` equality with all NaNs equal (`floating_point_eq::f64::eq`) -/
def feq (x y : Float) : Bool := x == y || (x.isNaN && y.isNaN)

end CFloatSimp

instance : SimpScalar CFloat where
  -- by_hand.rs:199 `x.norm() < 1e-10`
  isZero x := CFloat.norm x < CFloatSimp.tol
  -- by_hand.rs:204 `is_zero(x - 1.0)` (`Complex - f64` subtracts from the real part only)
  isOne x := CFloat.norm (x.1 - 1.0, x.2) < CFloatSimp.tol
  eqv a b := CFloatSimp.feq a.1 b.1 && CFloatSimp.feq a.2 b.2
  -- `real!(f64::NAN)`
  nan := (Float.ofBits 0x7FF8000000000000, 0.0)
  two := (2.0, 0.0)
  -- `-ONE` = `-real!(1.0)` (by_hand.rs:409)
  negOne := (-1.0, -0.0)

end QV.C12
