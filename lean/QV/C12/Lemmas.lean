import Mathlib.Tactic.Ring
import Mathlib.Tactic.FieldSimp
import Mathlib.Algebra.Field.Basic
import Mathlib.Algebra.Field.Rat
import QV.C12.Hoare
import QV.C12.Spec
/-
QV.C12.Lemmas — the relations the generic soundness proof (`Hoare.lean`) is instantiated with.

1. `valueRel L` — *value preservation over an exact field*.  `K` is any field whose `Scalar` operations are the
   field operations (`ScalarLaws`), with `is_zero x ↔ x = 0`, `is_one x ↔ x = 1`, number equality = equality, and
   exactly three facts about the otherwise opaque `pow`: `x^0 = 1`, `1^y = 1`, `x^1 = x`.  `sin cos exp sqrt cis`
   are arbitrary functions (the arms only ever fold them on constants).  `evalD` is `QV.eval` with definedness made
   explicit: `none` when a variable / memory cell is missing *or a divisor is 0* (in IEEE arithmetic: a non-finite
   value).  `Refines o r`: wherever `o` is defined, `r` is defined with the same value.  One lemma per arm; the arm
   `0^e ⇒ 0` is the only one that is not an identity (`powZeroBase_unsound`), and is excluded through `bad`.
2. `varsRel` — no new variables, no new memory references; needs no laws at all (holds for `CFloat` too).
3. `piRel` — no `pi`: a `pi`-free expression stays `pi`-free; no laws either.
4. `ScalarLaws ℚ` is inhabited (non-vacuity).
-/
namespace QV.C12
open QV Expr

set_option linter.unusedSimpArgs false
set_option linter.unusedVariables false

/-- What the theorems assume of the scalar: a field, the `Scalar` operations are its operations, the tests are
exact, and the three laws of `pow` that the arms `x^0`, `1^x`, `x^1` use. Nothing about `sin cos exp sqrt cis pi nan`. -/
structure ScalarLaws (K : Type) [Field K] [SimpScalar K] : Prop where
  add : ∀ a b : K, Scalar.add a b = a + b
  sub : ∀ a b : K, Scalar.sub a b = a - b
  mul : ∀ a b : K, Scalar.mul a b = a * b
  div : ∀ a b : K, Scalar.div a b = a / b
  neg : ∀ a : K, Scalar.neg a = -a
  zero : (Scalar.zero : K) = 0
  one : (Scalar.one : K) = 1
  two : (SimpScalar.two : K) = 2
  negOne : (SimpScalar.negOne : K) = -1
  isZero : ∀ x : K, SimpScalar.isZero x = true ↔ x = 0
  isOne : ∀ x : K, SimpScalar.isOne x = true ↔ x = 1
  eqv : ∀ x y : K, SimpScalar.eqv x y = true ↔ x = y
  pow_zero : ∀ x : K, Scalar.pow x 0 = 1
  one_pow : ∀ y : K, Scalar.pow 1 y = 1
  pow_one : ∀ x : K, Scalar.pow x 1 = x

section value
variable {K : Type} [Field K] [SimpScalar K]

open Classical

/-- Evaluation with explicit definedness: `QV.eval` (the model of `Expression::evaluate`), except that a division
by zero is `none` — over an exact field "the value is finite" means "no divisor was zero". -/
noncomputable def evalD (ρ : VarEnv K) (μ : MemEnv K) : Expr K → Option K
  | .call f e => (evalD ρ μ e).map (calcFn f)
  | .bin l op r =>
    (evalD ρ μ l).bind fun a => (evalD ρ μ r).bind fun b =>
      if op = .slash ∧ b = 0 then none else some (calcInfix a op b)
  | .pre op e => (evalD ρ μ e).map fun v => match op with
      | .minus => Scalar.neg v
      | .plus => v
  | .var x => ρ x
  | .address r => (μ r.name).bind fun vs => vs[r.index]?
  | .pi => some Scalar.pi
  | .number z => some z

/-- `evalD` only ever agrees with the shared evaluator `QV.eval`. -/
theorem evalD_eval (ρ : VarEnv K) (μ : MemEnv K) (e : Expr K) (v : K) (h : evalD ρ μ e = some v) :
    eval ρ μ e = .ok v := by
  induction e generalizing v with
  | address r =>
    simp only [evalD] at h
    simp only [eval]
    cases hm : μ r.name with
    | none => simp [hm] at h
    | some vs =>
      simp only [hm, Option.bind_some] at h
      simp [h]
  | call f e ih =>
    simp only [evalD, Option.map_eq_some_iff] at h
    obtain ⟨a, ha, rfl⟩ := h
    simp [eval, ih a ha]
  | bin l op r ihl ihr =>
    simp only [evalD] at h
    cases hl : evalD ρ μ l with
    | none => simp [hl] at h
    | some a =>
      cases hr : evalD ρ μ r with
      | none => simp [hl, hr] at h
      | some b =>
        simp only [hl, hr, Option.bind_some] at h
        split at h
        · cases h
        · cases h; simp [eval, ihl a hl, ihr b hr]
  | number z => simp only [evalD] at h; cases h; simp [eval]
  | pi => simp only [evalD] at h; cases h; simp [eval]
  | pre op e ih =>
    simp only [evalD, Option.map_eq_some_iff] at h
    obtain ⟨a, ha, rfl⟩ := h
    cases op <;> simp [eval, ih a ha]
  | var x => simp only [evalD] at h; simp [eval, h]

/-- `r` may replace `o`: wherever `o` is defined, `r` is defined and has the same value. -/
def Refines (o r : Expr K) : Prop := ∀ ρ μ v, evalD ρ μ o = some v → evalD ρ μ r = some v

theorem Refines.rfl' (e : Expr K) : Refines e e := fun _ _ _ h => h
theorem Refines.trans' {a b c : Expr K} (h1 : Refines a b) (h2 : Refines b c) : Refines a c :=
  fun ρ μ v h => h2 ρ μ v (h1 ρ μ v h)

theorem Refines.bin {a a' b b' : Expr K} (op : InfixOp) (h1 : Refines a a') (h2 : Refines b b') :
    Refines (.bin a op b) (.bin a' op b') := by
  intro ρ μ v h
  simp only [evalD] at h ⊢
  cases ha : evalD ρ μ a with
  | none => simp [ha] at h
  | some x =>
    cases hb : evalD ρ μ b with
    | none => simp [ha, hb] at h
    | some y =>
      rw [h1 _ _ _ ha, h2 _ _ _ hb]
      simpa [ha, hb] using h

theorem Refines.pre {a a' : Expr K} (op : PrefixOp) (h1 : Refines a a') : Refines (.pre op a) (.pre op a') := by
  intro ρ μ v h
  simp only [evalD, Option.map_eq_some_iff] at h ⊢
  obtain ⟨x, hx, rfl⟩ := h
  exact ⟨x, h1 _ _ _ hx, rfl⟩

theorem Refines.call {a a' : Expr K} (f : ExprFn) (h1 : Refines a a') : Refines (.call f a) (.call f a') := by
  intro ρ μ v h
  simp only [evalD, Option.map_eq_some_iff] at h ⊢
  obtain ⟨x, hx, rfl⟩ := h
  exact ⟨x, h1 _ _ _ hx, rfl⟩

/-- structural equality with a sound numeric equality is equality -/
theorem beqWith_eq {eq : K → K → Bool} (heq : ∀ x y, eq x y = true → x = y) :
    ∀ a b : Expr K, Expr.beqWith eq a b = true → a = b := by
  intro a
  induction a with
  | address r => intro b h; cases b <;> simp_all [Expr.beqWith]
  | call f e ih =>
    intro b h
    cases b with
    | call g e' =>
      simp only [Expr.beqWith, Bool.and_eq_true, beq_iff_eq] at h
      rw [h.1, ih _ h.2]
    | _ => simp [Expr.beqWith] at h
  | bin l o r ihl ihr =>
    intro b h
    cases b with
    | bin l' o' r' =>
      simp only [Expr.beqWith, Bool.and_eq_true, beq_iff_eq] at h
      rw [h.1.1, ihl _ h.1.2, ihr _ h.2]
    | _ => simp [Expr.beqWith] at h
  | number z =>
    intro b h
    cases b with
    | number z' => simp only [Expr.beqWith] at h; rw [heq _ _ h]
    | _ => simp [Expr.beqWith] at h
  | pi => intro b h; cases b <;> simp_all [Expr.beqWith]
  | pre o e ih =>
    intro b h
    cases b with
    | pre o' e' =>
      simp only [Expr.beqWith, Bool.and_eq_true, beq_iff_eq] at h
      rw [h.1, ih _ h.2]
    | _ => simp [Expr.beqWith] at h
  | var x => intro b h; cases b <;> simp_all [Expr.beqWith]

section laws
variable (L : ScalarLaws K)
include L

theorem beqE_eq {a b : Expr K} (h : beqE a b = true) : a = b :=
  beqWith_eq (fun x y h => (L.eqv x y).mp h) a b h

variable (ρ : VarEnv K) (μ : MemEnv K)

theorem evalD_plus (l r : Expr K) : evalD ρ μ (.bin l .plus r) =
    (evalD ρ μ l).bind fun a => (evalD ρ μ r).bind fun b => some (a + b) := by
  simp [evalD, calcInfix, L.add]
theorem evalD_minus (l r : Expr K) : evalD ρ μ (.bin l .minus r) =
    (evalD ρ μ l).bind fun a => (evalD ρ μ r).bind fun b => some (a - b) := by
  simp [evalD, calcInfix, L.sub]
theorem evalD_star (l r : Expr K) : evalD ρ μ (.bin l .star r) =
    (evalD ρ μ l).bind fun a => (evalD ρ μ r).bind fun b => some (a * b) := by
  simp [evalD, calcInfix, L.mul]
theorem evalD_slash (l r : Expr K) : evalD ρ μ (.bin l .slash r) =
    (evalD ρ μ l).bind fun a => (evalD ρ μ r).bind fun b => if b = 0 then none else some (a / b) := by
  simp [evalD, calcInfix, L.div]
theorem evalD_caret (l r : Expr K) : evalD ρ μ (.bin l .caret r) =
    (evalD ρ μ l).bind fun a => (evalD ρ μ r).bind fun b => some (Scalar.pow a b) := by
  simp [evalD, calcInfix]
theorem evalD_neg (e : Expr K) : evalD ρ μ (.pre .minus e) = (evalD ρ μ e).map fun v => -v := by
  simp [evalD, L.neg]
omit L in
theorem evalD_pos (e : Expr K) : evalD ρ μ (.pre .plus e) = evalD ρ μ e := by
  simp [evalD]
omit L in
theorem evalD_num (z : K) : evalD ρ μ (.number z) = some z := by simp [evalD]

end laws

/-- finishing move of the identity lemmas: case-split the `if divisor = 0`, then field arithmetic -/
macro "fin_id" : tactic => `(tactic| (
  (try split_ifs at *) <;> (try simp_all) <;> (try subst_vars) <;> (try field_simp) <;> (try ring)))

/-- An identity `Refines lhs rhs` between two concrete shapes: unfold the evaluation of both, case-split the
evaluation of every subexpression variable, finish by field arithmetic under the definedness facts. -/
macro "eval_id" L:term : tactic => `(tactic| (
  intro ρ μ v h
  simp only [evalD_plus $L, evalD_minus $L, evalD_star $L, evalD_slash $L, evalD_caret $L, evalD_neg $L, evalD_pos,
    evalD_num, ($L).zero, ($L).one, ($L).two, ($L).negOne, ($L).neg] at h ⊢
  repeat' (generalize hg : evalD ρ μ _ = o at h ⊢; cases o <;>
    simp only [Option.bind_some, Option.bind_none, Option.map_some, Option.map_none] at h ⊢)
  all_goals fin_id))

section arms
variable (L : ScalarLaws K)
include L

theorem id_piNum : Refines (.pi : Expr K) (.number Scalar.pi) := fun _ _ _ h => by simpa [evalD] using h
theorem id_callFold (f : ExprFn) (z : K) : Refines (.call f (.number z)) (.number (calcFn f z)) :=
  fun _ _ _ h => by simpa [evalD] using h
theorem id_prePlus (e : Expr K) : Refines (.pre .plus e) e := by eval_id L
theorem id_preNegNum (z : K) : Refines (.pre .minus (.number z)) (.number (Scalar.sub Scalar.zero z)) :=
  fun _ _ _ h => by simpa [evalD, L.neg, L.sub, L.zero] using h
theorem id_preNegNeg (e : Expr K) : Refines (.pre .minus (.pre .minus e)) e := by eval_id L

theorem id_addZeroL {x : K} (r : Expr K) (hz : SimpScalar.isZero x = true) :
    Refines (.bin (.number x) .plus r) r := by
  cases (L.isZero x).mp hz; eval_id L
theorem id_addZeroR {x : K} (l : Expr K) (hz : SimpScalar.isZero x = true) :
    Refines (.bin l .plus (.number x)) l := by
  cases (L.isZero x).mp hz; eval_id L
theorem id_subZeroL {x : K} (r : Expr K) (hz : SimpScalar.isZero x = true) :
    Refines (.bin (.number x) .minus r) (.pre .minus r) := by
  cases (L.isZero x).mp hz; eval_id L
theorem id_subZeroR {y : K} (l : Expr K) (hz : SimpScalar.isZero y = true) :
    Refines (.bin l .minus (.number y)) l := by
  cases (L.isZero y).mp hz; eval_id L
theorem id_subSelf {l r : Expr K} (hb : beqE l r = true) : Refines (.bin l .minus r) (.number Scalar.zero) := by
  cases beqE_eq L hb; eval_id L
theorem id_mulZeroL {x : K} (r : Expr K) (hz : SimpScalar.isZero x = true) :
    Refines (.bin (.number x) .star r) (.number Scalar.zero) := by
  cases (L.isZero x).mp hz; eval_id L
theorem id_mulZeroR {x : K} (l : Expr K) (hz : SimpScalar.isZero x = true) :
    Refines (.bin l .star (.number x)) (.number Scalar.zero) := by
  cases (L.isZero x).mp hz; eval_id L
theorem id_mulOneL {x : K} (r : Expr K) (hz : SimpScalar.isOne x = true) :
    Refines (.bin (.number x) .star r) r := by
  cases (L.isOne x).mp hz; eval_id L
theorem id_mulOneR {x : K} (l : Expr K) (hz : SimpScalar.isOne x = true) :
    Refines (.bin l .star (.number x)) l := by
  cases (L.isOne x).mp hz; eval_id L
theorem id_divZeroL {x : K} (r : Expr K) (hz : SimpScalar.isZero x = true) :
    Refines (.bin (.number x) .slash r) (.number Scalar.zero) := by
  cases (L.isZero x).mp hz; eval_id L
/-- `x / 0 ⇒ NaN`: the left-hand side is never defined -/
theorem id_divByZero {y : K} (l : Expr K) (hz : SimpScalar.isZero y = true) :
    Refines (.bin l .slash (.number y)) (.number SimpScalar.nan) := by
  cases (L.isZero y).mp hz; eval_id L
theorem id_divOne {y : K} (l : Expr K) (hz : SimpScalar.isOne y = true) :
    Refines (.bin l .slash (.number y)) l := by
  cases (L.isOne y).mp hz; eval_id L
/-- `a / a ⇒ 1`: sound because `a / a` is only defined where `a ≠ 0` -/
theorem id_divSelf {l r : Expr K} (hb : beqE l r = true) : Refines (.bin l .slash r) (.number Scalar.one) := by
  cases beqE_eq L hb; eval_id L
theorem id_powZeroExp {y : K} (l : Expr K) (hz : SimpScalar.isZero y = true) :
    Refines (.bin l .caret (.number y)) (.number Scalar.one) := by
  cases (L.isZero y).mp hz; eval_id L; exact (L.pow_zero _).symm
theorem id_powOneBase {x : K} (r : Expr K) (hz : SimpScalar.isOne x = true) :
    Refines (.bin (.number x) .caret r) (.number Scalar.one) := by
  cases (L.isOne x).mp hz; eval_id L; exact (L.one_pow _).symm
theorem id_powOneExp {y : K} (l : Expr K) (hz : SimpScalar.isOne y = true) :
    Refines (.bin l .caret (.number y)) l := by
  cases (L.isOne y).mp hz; eval_id L; exact (L.pow_one _).symm
theorem id_fold (x : K) (op : InfixOp) (y : K) :
    Refines (.bin (.number x) op (.number y)) (.number (calcInfix x op y)) := by
  intro ρ μ v h
  simp only [evalD, Option.bind_some] at h ⊢
  split at h
  · cases h
  · exact h
theorem id_addNegR (l e : Expr K) : Refines (.bin l .plus (.pre .minus e)) (.bin l .minus e) := by eval_id L
theorem id_addNegL (e r : Expr K) : Refines (.bin (.pre .minus e) .plus r) (.bin r .minus e) := by eval_id L
theorem id_subNegR (l e : Expr K) : Refines (.bin l .minus (.pre .minus e)) (.bin l .plus e) := by eval_id L
theorem id_subNegL (e r : Expr K) :
    Refines (.bin (.pre .minus e) .minus r) (.pre .minus (.bin e .plus r)) := by eval_id L
theorem id_negNeg {op : InfixOp} (a b : Expr K) (h : isMulDiv op = true) :
    Refines (.bin (.pre .minus a) op (.pre .minus b)) (.bin a op b) := by
  cases op <;> simp [isMulDiv] at h <;> eval_id L
theorem id_divNegSelfR {l e : Expr K} (hb : beqE l e = true) :
    Refines (.bin l .slash (.pre .minus e)) (.number SimpScalar.negOne) := by
  cases beqE_eq L hb; eval_id L
theorem id_divNegSelfL {e r : Expr K} (hb : beqE e r = true) :
    Refines (.bin (.pre .minus e) .slash r) (.number SimpScalar.negOne) := by
  cases beqE_eq L hb; eval_id L
theorem id_negR {op : InfixOp} (l e : Expr K) (h : isMulDiv op = true) :
    Refines (.bin l op (.pre .minus e)) (.bin (.pre .minus l) op e) := by
  cases op <;> simp [isMulDiv] at h <;> eval_id L
theorem id_negL {op : InfixOp} (e r : Expr K) (h : isMulDiv op = true) :
    Refines (.bin (.pre .minus e) op r) (.bin e op (.pre .minus r)) := by
  cases op <;> simp [isMulDiv] at h <;> eval_id L
theorem id_affine1 {ll lr lb rl rr rb : Expr K} (hb : beqE ll rl = true) :
    Refines (.bin (.bin (.bin ll .star lr) .plus lb) .plus (.bin (.bin rl .star rr) .plus rb))
      (.bin (.bin (.bin lr .plus rr) .star ll) .plus (.bin lb .plus rb)) := by
  cases beqE_eq L hb; eval_id L
theorem id_affine2 {ll lr lb rl rr rb : Expr K} (hb : beqE ll rr = true) :
    Refines (.bin (.bin (.bin ll .star lr) .plus lb) .plus (.bin (.bin rl .star rr) .plus rb))
      (.bin (.bin (.bin lr .plus rl) .star ll) .plus (.bin lb .plus rb)) := by
  cases beqE_eq L hb; eval_id L
theorem id_affine3 {ll lr lb rl rr rb : Expr K} (hb : beqE lr rl = true) :
    Refines (.bin (.bin (.bin ll .star lr) .plus lb) .plus (.bin (.bin rl .star rr) .plus rb))
      (.bin (.bin (.bin ll .plus rr) .star lr) .plus (.bin lb .plus rb)) := by
  cases beqE_eq L hb; eval_id L
theorem id_affine4 {ll lr lb rl rr rb : Expr K} (hb : beqE lr rr = true) :
    Refines (.bin (.bin (.bin ll .star lr) .plus lb) .plus (.bin (.bin rl .star rr) .plus rb))
      (.bin (.bin (.bin ll .plus rl) .star rr) .plus (.bin lb .plus rb)) := by
  cases beqE_eq L hb; eval_id L
theorem id_mulCommon {la lx ra rx : Expr K} (hb : beqE lx rx = true) :
    Refines (.bin (.bin la .star lx) .plus (.bin ra .star rx)) (.bin (.bin la .plus ra) .star lx) := by
  cases beqE_eq L hb; eval_id L
theorem id_addCommon {lx lb rx rb : Expr K} (hb : beqE lx rx = true) :
    Refines (.bin (.bin lx .plus lb) .plus (.bin rx .plus rb))
      (.bin (.bin (.number SimpScalar.two) .star lx) .plus (.bin lb .plus rb)) := by
  cases beqE_eq L hb; eval_id L
theorem id_assocR {op : InfixOp} (l b c : Expr K) (h : isAddMul op = true) :
    Refines (.bin l op (.bin b op c)) (.bin (.bin l op b) op c) := by
  cases op <;> simp [isAddMul] at h <;> eval_id L
/-- `a - (b - c) ⇒ (a + c) - b`, `a / (b / c) ⇒ (a * c) / b` (where the left side is defined, `c ≠ 0` and `b ≠ 0`) -/
theorem id_pseudoAssocR {op : InfixOp} (l b c : Expr K) (h : isSubDiv op = true) :
    Refines (.bin l op (.bin b op c)) (.bin (.bin l (invOp op) c) op b) := by
  have h1 : invOp .minus = .plus := rfl
  have h2 : invOp .slash = .star := rfl
  cases op <;> simp [isSubDiv] at h <;> simp only [h1, h2] <;> eval_id L
/-- `(a - b) - c ⇒ a - (b + c)`, `(a / b) / c ⇒ a / (b * c)` (as repaired by 00d94e8) -/
theorem id_assocL {op : InfixOp} (a b r : Expr K) (h : (isAddMul op || isSubDiv op) = true) :
    Refines (.bin (.bin a op b) op r) (.bin a op (.bin b (rhsOp op) r)) := by
  cases op <;> simp [isAddMul, isSubDiv] at h <;> simp only [rhsOp] <;> eval_id L
theorem id_distR (l b c : Expr K) :
    Refines (.bin l .star (.bin b .plus c)) (.bin (.bin l .star b) .plus (.bin l .star c)) := by eval_id L
theorem id_distL (a b r : Expr K) :
    Refines (.bin (.bin a .plus b) .star r) (.bin (.bin a .star r) .plus (.bin b .star r)) := by eval_id L
theorem id_mulDivCancelL1 {p q r : Expr K} (hb : beqE r p = true) :
    Refines (.bin (.bin p .star q) .slash r) q := by
  cases beqE_eq L hb; eval_id L
theorem id_mulDivCancelL2 {p q r : Expr K} (hb : beqE r q = true) :
    Refines (.bin (.bin p .star q) .slash r) p := by
  cases beqE_eq L hb; eval_id L
theorem id_divMulCancelR1 {l p q : Expr K} (hb : beqE l p = true) :
    Refines (.bin l .slash (.bin p .star q)) (.bin (.number Scalar.one) .slash q) := by
  cases beqE_eq L hb; eval_id L
theorem id_divMulCancelR2 {l p q : Expr K} (hb : beqE l q = true) :
    Refines (.bin l .slash (.bin p .star q)) (.bin (.number Scalar.one) .slash p) := by
  cases beqE_eq L hb; eval_id L
theorem id_mulInDivL (m1 m2 r : Expr K) :
    Refines (.bin (.bin m1 .star m2) .slash r) (.bin m1 .star (.bin m2 .slash r)) := by eval_id L
theorem id_mulInDivR (l m1 m2 : Expr K) :
    Refines (.bin l .slash (.bin m1 .star m2)) (.bin (.bin l .slash m1) .slash m2) := by eval_id L
theorem id_divMulCancelL {other same r : Expr K} (hb : beqE same r = true) :
    Refines (.bin (.bin other .slash same) .star r) other := by
  cases beqE_eq L hb; eval_id L
theorem id_mulDivCancelR {l other same : Expr K} (hb : beqE l same = true) :
    Refines (.bin l .star (.bin other .slash same)) other := by
  cases beqE_eq L hb; eval_id L

/-- **The relation of the value theorem**: `Refines`, with the arm `0^e ⇒ 0` declared `bad`. -/
def valueRel : Rel K (fun a => a = Arm.powZeroBase) where
  R := Refines
  Pre := fun _ => True
  preBin := by simp
  prePre := by simp
  preCall := by simp
  preNum := fun _ => trivial
  keep := fun _ _ => trivial
  refl := Refines.rfl'
  trans := Refines.trans'
  beqL := fun h => by cases beqE_eq L h; exact Refines.rfl' _
  beqR := fun h => by cases beqE_eq L h; exact Refines.rfl' _
  congBin := fun op h1 h2 => Refines.bin op h1 h2
  congPre := fun op h => Refines.pre op h
  congCall := fun f h => Refines.call f h
  numEqv := fun h => by cases (L.eqv _ _).mp h; exact Refines.rfl' _
  piNum := id_piNum L
  callFold := id_callFold L
  prePlus := id_prePlus L
  preNegNum := id_preNegNum L
  preNegNeg := id_preNegNeg L
  addZeroL := id_addZeroL L
  addZeroR := id_addZeroR L
  subZeroL := id_subZeroL L
  subZeroR := id_subZeroR L
  subSelf := id_subSelf L
  mulZeroL := id_mulZeroL L
  mulZeroR := id_mulZeroR L
  mulOneL := id_mulOneL L
  mulOneR := id_mulOneR L
  divZeroL := id_divZeroL L
  divByZero := id_divByZero L
  divOne := id_divOne L
  divSelf := id_divSelf L
  powZeroExp := id_powZeroExp L
  powZeroBase := fun h => absurd rfl h
  powOneBase := id_powOneBase L
  powOneExp := id_powOneExp L
  fold := id_fold L
  addNegR := id_addNegR L
  addNegL := id_addNegL L
  subNegR := id_subNegR L
  subNegL := id_subNegL L
  negNeg := id_negNeg L
  divNegSelfR := id_divNegSelfR L
  divNegSelfL := id_divNegSelfL L
  negR := id_negR L
  negL := id_negL L
  affine1 := id_affine1 L
  affine2 := id_affine2 L
  affine3 := id_affine3 L
  affine4 := id_affine4 L
  mulCommon := id_mulCommon L
  addCommon := id_addCommon L
  assocR := id_assocR L
  pseudoAssocR := id_pseudoAssocR L
  assocL := id_assocL L
  distR := id_distR L
  distL := id_distL L
  mulDivCancelL1 := id_mulDivCancelL1 L
  mulDivCancelL2 := id_mulDivCancelL2 L
  divMulCancelR1 := id_divMulCancelR1 L
  divMulCancelR2 := id_divMulCancelR2 L
  mulInDivL := id_mulInDivL L
  mulInDivR := id_mulInDivR L
  divMulCancelL := id_divMulCancelL L
  mulDivCancelR := id_mulDivCancelR L

/-- The excluded arm really is not an identity: `0^%x ⇒ 0`, but at `%x = 0` the left side is `0^0 = 1`. -/
theorem powZeroBase_unsound :
    ¬ Refines (.bin (.number (0 : K)) .caret (.var "x")) (.number Scalar.zero) := by
  intro h
  have := h (fun _ => some 0) (fun _ => none) 1 (by simp [evalD, calcInfix, L.pow_zero])
  simp [evalD, L.zero] at this

end arms
end value

/-! ### No new variables, no new memory references (no laws needed) -/

section vars
variable {K : Type} [SimpScalar K]

/-- `r` mentions only variables and memory references of `o` -/
def SubLeaves (o r : Expr K) : Prop :=
  (∀ x, x ∈ r.vars → x ∈ o.vars) ∧ (∀ a, a ∈ r.addrs → a ∈ o.addrs)

theorem beqWith_leaves {eq : K → K → Bool} :
    ∀ a b : Expr K, Expr.beqWith eq a b = true → a.vars = b.vars ∧ a.addrs = b.addrs := by
  intro a
  induction a with
  | address r => intro b h; cases b <;> simp_all [Expr.beqWith, Expr.vars, Expr.addrs]
  | call f e ih =>
    intro b h
    cases b with
    | call g e' =>
      simp only [Expr.beqWith, Bool.and_eq_true] at h
      simpa [Expr.vars, Expr.addrs] using ih _ h.2
    | _ => simp [Expr.beqWith] at h
  | bin l o r ihl ihr =>
    intro b h
    cases b with
    | bin l' o' r' =>
      simp only [Expr.beqWith, Bool.and_eq_true] at h
      have h1 := ihl _ h.1.2
      have h2 := ihr _ h.2
      simp [Expr.vars, Expr.addrs, h1.1, h1.2, h2.1, h2.2]
    | _ => simp [Expr.beqWith] at h
  | number z => intro b h; cases b <;> simp_all [Expr.beqWith, Expr.vars, Expr.addrs]
  | pi => intro b h; cases b <;> simp_all [Expr.beqWith, Expr.vars, Expr.addrs]
  | pre o e ih =>
    intro b h
    cases b with
    | pre o' e' =>
      simp only [Expr.beqWith, Bool.and_eq_true] at h
      simpa [Expr.vars, Expr.addrs] using ih _ h.2
    | _ => simp [Expr.beqWith] at h
  | var x => intro b h; cases b <;> simp_all [Expr.beqWith, Expr.vars, Expr.addrs]

theorem beqE_leaves {a b : Expr K} (h : beqE a b = true) : a.vars = b.vars ∧ a.addrs = b.addrs :=
  beqWith_leaves a b h

/-- a rewrite whose right side is built from subterms of the left side -/
macro "leaves_id" : tactic => `(tactic| (
  intros
  refine ⟨?_, ?_⟩ <;>
    (intro z hz
     simp only [Expr.vars, Expr.addrs, List.mem_append, List.not_mem_nil, or_false, false_or] at hz ⊢ <;>
     tauto)))

/-- the same with a hash-consing equality between two of the subterms -/
macro "leaves_beq" h:term : tactic => `(tactic| (
  have hh := beqE_leaves $h
  refine ⟨?_, ?_⟩ <;>
    (intro z hz
     simp only [Expr.vars, Expr.addrs, List.mem_append, List.not_mem_nil, or_false, false_or, hh.1, hh.2] at hz ⊢ <;>
     tauto)))

/-- **The relation of "no new variables or memory references"**; no arm is excluded. -/
def varsRel : Rel K (fun _ => False) where
  R := SubLeaves
  Pre := fun _ => True
  preBin := by simp
  prePre := by simp
  preCall := by simp
  preNum := fun _ => trivial
  keep := fun _ _ => trivial
  refl := fun e => ⟨fun _ h => h, fun _ h => h⟩
  trans := fun h1 h2 => ⟨fun x hx => h1.1 x (h2.1 x hx), fun a ha => h1.2 a (h2.2 a ha)⟩
  beqL := fun h => by have hh := beqE_leaves h; exact ⟨fun x hx => hh.1 ▸ hx, fun a ha => hh.2 ▸ ha⟩
  beqR := fun h => by have hh := beqE_leaves h; exact ⟨fun x hx => hh.1 ▸ hx, fun a ha => hh.2 ▸ ha⟩
  congBin := fun op h1 h2 => by
    refine ⟨?_, ?_⟩ <;> intro z hz <;>
      simp only [Expr.vars, Expr.addrs, List.mem_append] at hz ⊢
    · exact hz.imp (h1.1 z) (h2.1 z)
    · exact hz.imp (h1.2 z) (h2.2 z)
  congPre := fun op h => by simpa [SubLeaves, Expr.vars, Expr.addrs] using h
  congCall := fun f h => by simpa [SubLeaves, Expr.vars, Expr.addrs] using h
  numEqv := fun _ => by leaves_id
  piNum := by leaves_id
  callFold := by leaves_id
  prePlus := by leaves_id
  preNegNum := by leaves_id
  preNegNeg := by leaves_id
  addZeroL := by leaves_id
  addZeroR := by leaves_id
  subZeroL := by leaves_id
  subZeroR := by leaves_id
  subSelf := fun h => by leaves_beq h
  mulZeroL := by leaves_id
  mulZeroR := by leaves_id
  mulOneL := by leaves_id
  mulOneR := by leaves_id
  divZeroL := by leaves_id
  divByZero := by leaves_id
  divOne := by leaves_id
  divSelf := fun h => by leaves_beq h
  powZeroExp := by leaves_id
  powZeroBase := by leaves_id
  powOneBase := by leaves_id
  powOneExp := by leaves_id
  fold := by leaves_id
  addNegR := by leaves_id
  addNegL := by leaves_id
  subNegR := by leaves_id
  subNegL := by leaves_id
  negNeg := by leaves_id
  divNegSelfR := fun h => by leaves_beq h
  divNegSelfL := fun h => by leaves_beq h
  negR := by leaves_id
  negL := by leaves_id
  affine1 := fun h => by leaves_beq h
  affine2 := fun h => by leaves_beq h
  affine3 := fun h => by leaves_beq h
  affine4 := fun h => by leaves_beq h
  mulCommon := fun h => by leaves_beq h
  addCommon := fun h => by leaves_beq h
  assocR := by leaves_id
  pseudoAssocR := by leaves_id
  assocL := by leaves_id
  distR := by leaves_id
  distL := by leaves_id
  mulDivCancelL1 := fun h => by leaves_beq h
  mulDivCancelL2 := fun h => by leaves_beq h
  divMulCancelR1 := fun h => by leaves_beq h
  divMulCancelR2 := fun h => by leaves_beq h
  mulInDivL := by leaves_id
  mulInDivR := by leaves_id
  divMulCancelL := fun h => by leaves_beq h
  mulDivCancelR := fun h => by leaves_beq h

end vars


/-! ### No `pi` (no laws needed) -/

section pifree
variable {K : Type} [SimpScalar K]

theorem beqWith_piFree {eq : K → K → Bool} :
    ∀ a b : Expr K, Expr.beqWith eq a b = true → piFree a = piFree b := by
  intro a
  induction a with
  | address r => intro b h; cases b <;> simp_all [Expr.beqWith, piFree]
  | call f e ih =>
    intro b h
    cases b with
    | call g e' => simp only [Expr.beqWith, Bool.and_eq_true] at h; simpa [piFree] using ih _ h.2
    | _ => simp [Expr.beqWith] at h
  | bin l o r ihl ihr =>
    intro b h
    cases b with
    | bin l' o' r' =>
      simp only [Expr.beqWith, Bool.and_eq_true] at h
      simp [piFree, ihl _ h.1.2, ihr _ h.2]
    | _ => simp [Expr.beqWith] at h
  | number z => intro b h; cases b <;> simp_all [Expr.beqWith, piFree]
  | pi => intro b h; cases b <;> simp_all [Expr.beqWith, piFree]
  | pre o e ih =>
    intro b h
    cases b with
    | pre o' e' => simp only [Expr.beqWith, Bool.and_eq_true] at h; simpa [piFree] using ih _ h.2
    | _ => simp [Expr.beqWith] at h
  | var x => intro b h; cases b <;> simp_all [Expr.beqWith, piFree]

theorem beqE_piFree {a b : Expr K} (h : beqE a b = true) : piFree a = piFree b := beqWith_piFree a b h

macro "pi_id" : tactic => `(tactic| (
  intros
  simp only [piFree, Bool.and_eq_true, Bool.true_and, Bool.and_true] at * <;> tauto))

macro "pi_beq" h:term : tactic => `(tactic| (
  have hh := beqE_piFree $h
  simp only [piFree, Bool.and_eq_true, Bool.true_and, Bool.and_true, hh] at * <;> tauto))

/-- **The relation of "no `pi`"**: if the original contains no `pi`, neither does the replacement; the class of
expressions is "contains no `pi`".  No arm is excluded. -/
def piRel : Rel K (fun _ => False) where
  R := fun o r => piFree o = true → piFree r = true
  Pre := fun e => piFree e = true
  preBin := by simp [piFree]
  prePre := by simp [piFree]
  preCall := by simp [piFree]
  preNum := fun _ => rfl
  keep := fun h hp => h hp
  refl := fun _ h => h
  trans := fun h1 h2 h => h2 (h1 h)
  beqL := fun h => by rw [beqE_piFree h]; exact id
  beqR := fun h => by rw [beqE_piFree h]; exact id
  congBin := fun op h1 h2 => by simp only [piFree, Bool.and_eq_true]; exact fun h => ⟨h1 h.1, h2 h.2⟩
  congPre := fun op h => by simpa [piFree] using h
  congCall := fun f h => by simpa [piFree] using h
  numEqv := fun _ => by pi_id
  piNum := by pi_id
  callFold := by pi_id
  prePlus := by pi_id
  preNegNum := by pi_id
  preNegNeg := by pi_id
  addZeroL := by pi_id
  addZeroR := by pi_id
  subZeroL := by pi_id
  subZeroR := by pi_id
  subSelf := fun h => by pi_id
  mulZeroL := by pi_id
  mulZeroR := by pi_id
  mulOneL := by pi_id
  mulOneR := by pi_id
  divZeroL := by pi_id
  divByZero := by pi_id
  divOne := by pi_id
  divSelf := fun h => by pi_id
  powZeroExp := by pi_id
  powZeroBase := by pi_id
  powOneBase := by pi_id
  powOneExp := by pi_id
  fold := by pi_id
  addNegR := by pi_id
  addNegL := by pi_id
  subNegR := by pi_id
  subNegL := by pi_id
  negNeg := by pi_id
  divNegSelfR := fun h => by pi_id
  divNegSelfL := fun h => by pi_id
  negR := by pi_id
  negL := by pi_id
  affine1 := fun h => by pi_beq h
  affine2 := fun h => by pi_beq h
  affine3 := fun h => by pi_beq h
  affine4 := fun h => by pi_beq h
  mulCommon := fun h => by pi_beq h
  addCommon := fun h => by pi_beq h
  assocR := by pi_id
  pseudoAssocR := by pi_id
  assocL := by pi_id
  distR := by pi_id
  distL := by pi_id
  mulDivCancelL1 := fun h => by pi_beq h
  mulDivCancelL2 := fun h => by pi_beq h
  divMulCancelR1 := fun h => by pi_beq h
  divMulCancelR2 := fun h => by pi_beq h
  mulInDivL := by pi_id
  mulInDivR := by pi_id
  divMulCancelL := fun h => by pi_beq h
  mulDivCancelR := fun h => by pi_beq h

end pifree

/-! ### `ScalarLaws` is inhabited: the rationals, with `pow` any function satisfying the three laws -/

instance ratSimpScalar : SimpScalar ℚ where
  add := (· + ·)
  sub := (· - ·)
  mul := (· * ·)
  div := (· / ·)
  pow x y := if y = 0 then 1 else if y = 1 then x else if x = 1 then 1 else 0
  neg := fun x => -x
  sin := id
  cos := id
  exp := id
  sqrt := id
  cis := id
  pi := 3
  zero := 0
  one := 1
  isZero x := decide (x = 0)
  isOne x := decide (x = 1)
  eqv x y := decide (x = y)
  nan := 0
  two := 2
  negOne := -1

theorem ratLaws : ScalarLaws ℚ where
  add := fun _ _ => rfl
  sub := fun _ _ => rfl
  mul := fun _ _ => rfl
  div := fun _ _ => rfl
  neg := fun _ => rfl
  zero := rfl
  one := rfl
  two := rfl
  negOne := rfl
  isZero := fun x => by simp [SimpScalar.isZero]
  isOne := fun x => by simp [SimpScalar.isOne]
  eqv := fun x y => by simp [SimpScalar.eqv]
  pow_zero := fun x => by simp [Scalar.pow]
  one_pow := fun y => by simp [Scalar.pow]
  pow_one := fun x => by simp [Scalar.pow]

end QV.C12
