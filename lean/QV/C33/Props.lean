import QV.C33.Lemmas
import QV.C33.Spec
/-
C33 — Wrapping a program in a loop repeats its body exactly n times.

Statement (properties.jsonl): "For every program and every n of at least 2, running the wrapped
program executes the original body exactly n times in order and then stops. This holds with a
counter region and start label not otherwise used. For n = 1 the program is unchanged, for n = 0
only the body is removed, and every definition is preserved in all cases."

Semantics = the small-step relation `Steps` over `step` (Model.lean / Lemmas.lean); "executes the
body" = the body, run on its own from the current memory, runs past its last instruction
(`BodyRuns`).  All theorems quantify over every body, every `n`, every initial memory.
-/
namespace QV.C33

/-- The body, executed on its own from memory `m`, finishes (runs past its end) having produced
the events `tr` and the memory `m'`.  Bodies may contain their own labels and jumps. -/
def BodyRuns (body : List Instr) (m : Mem) (tr : List Instr) (m' : Mem) : Prop :=
  Steps body 0 m tr body.length m'

/-- `k` consecutive executions of the body, each starting from the memory the previous one left,
each followed by the decrement of the counter `c0`.  This is the specification of "the body is
executed exactly k times in order"; it does not mention labels, jumps or program counters of
the wrapped program. -/
inductive Iter (body : List Instr) (c0 : MemRef) : Nat → Mem → List Instr → Mem → Prop where
  | zero (m : Mem) : Iter body c0 0 m [] m
  | succ {k : Nat} {m m' m'' : Mem} {tr trs : List Instr} :
      BodyRuns body m tr m' → Iter body c0 k (m'.set c0 (m' c0 - 1)) trs m'' →
      Iter body c0 (k + 1) m (tr ++ .sub c0 1 :: trs) m''

/-- the body never writes the counter word -/
def NoWrite (r : MemRef) (body : List Instr) : Prop :=
  ∀ x ∈ body, ∀ d v, (x = .move d v ∨ x = .sub d v) → d ≠ r

theorem noWrite_of_counterFresh {r : MemRef} {body : List Instr} (h : counterFresh r.name body = true) :
    NoWrite r body := by
  intro x hx d v hxd hdr
  have := List.all_eq_true.mp h x hx
  rcases hxd with rfl | rfl <;> simp [Instr.avoids, hdr] at this

private theorem wrap_at_sub (body : List Instr) (c : MemRef) (s : Target) (n : Nat) :
    (wrapBody body c s n)[2 + body.length]? = some (.sub c 1) := by
  simp only [wrapBody]
  rw [List.getElem?_append_right (by simp; omega)]
  simp
  rw [show 2 + body.length - (body.length + 2) = 0 by omega]; rfl

private theorem wrap_at_jump (body : List Instr) (c : MemRef) (s : Target) (n : Nat) :
    (wrapBody body c s n)[3 + body.length]? = some (.jumpWhen s c) := by
  simp only [wrapBody]
  rw [List.getElem?_append_right (by simp; omega)]
  simp
  rw [show 3 + body.length - (body.length + 2) = 1 by omega]; rfl

private theorem wrap_at_end (body : List Instr) (c : MemRef) (s : Target) (n : Nat) :
    (wrapBody body c s n)[4 + body.length]? = none := by
  simp [wrapBody]; omega

/-- **Loop invariant.**  At the top of the loop body (pc 2) with `k + 1` in the counter, if the
body can be executed `k + 1` times in a row (`Iter`), the wrapped program performs exactly those
executions and then runs past its end, with the counter at 0. -/
theorem loop_from_top {body : List Instr} {c : MemRef} {s : Target} {n : Nat}
    (hfresh : labelFresh s body = true) (hw : NoWrite c body) :
    ∀ (k : Nat) (m : Mem) (T : List Instr) (mf : Mem),
      m c = Int.ofNat (k + 1) → Iter body c (k + 1) m T mf →
      Steps (wrapBody body c s n) 2 m T (4 + body.length) mf ∧ mf c = 0 := by
  intro k
  induction k with
  | zero =>
    intro m T mf hm hit
    cases hit with
    | succ hb hrest =>
      rename_i m' tr trs
      cases hrest
      have hpres : m' c = m c := steps_preserve hw hb
      have h1 := embed_steps (c := c) (n := n) hfresh hb
      -- SUB
      have hsub : step (wrapBody body c s n) (2 + body.length) m' =
          .next (3 + body.length) (m'.set c (m' c - 1)) (some (.sub c 1)) := by
        simp only [step, wrap_at_sub]
        simp only [Step.next.injEq, and_true]; omega
      -- JUMP-WHEN falls through (counter is 0)
      have hval : (m'.set c (m' c - 1)) c = 0 := by
        simp [Mem.set, hpres, hm]
      have hjw : step (wrapBody body c s n) (3 + body.length) (m'.set c (m' c - 1)) =
          .next (4 + body.length) (m'.set c (m' c - 1)) none := by
        simp only [step, wrap_at_jump]
        rw [if_neg (by simp [hval])]
        simp only [Step.next.injEq, and_true]; omega
      refine ⟨?_, hval⟩
      have := (h1.trans (Steps.single hsub)).trans (Steps.single hjw)
      simpa [evs] using this
  | succ k ih =>
    intro m T mf hm hit
    cases hit with
    | succ hb hrest =>
      rename_i m' tr trs
      have hpres : m' c = m c := steps_preserve hw hb
      have h1 := embed_steps (c := c) (n := n) hfresh hb
      have hsub : step (wrapBody body c s n) (2 + body.length) m' =
          .next (3 + body.length) (m'.set c (m' c - 1)) (some (.sub c 1)) := by
        simp only [step, wrap_at_sub]
        simp only [Step.next.injEq, and_true]; omega
      have hval : (m'.set c (m' c - 1)) c = Int.ofNat (k + 1) := by
        simp [Mem.set, hpres, hm]
      -- JUMP-WHEN jumps back to the start label (index 1), LABEL is skipped
      have hjw : step (wrapBody body c s n) (3 + body.length) (m'.set c (m' c - 1)) =
          .next 1 (m'.set c (m' c - 1)) none := by
        simp only [step, wrap_at_jump]
        rw [if_pos (by rw [hval]; simp; omega)]
        simp [jumpTo, findLabel_wrapBody_start]
      have hlab : step (wrapBody body c s n) 1 (m'.set c (m' c - 1)) =
          .next 2 (m'.set c (m' c - 1)) none := by
        simp [step, wrapBody]
      obtain ⟨hrec, hz⟩ := ih _ _ _ hval hrest
      refine ⟨?_, hz⟩
      have := (((h1.trans (Steps.single hsub)).trans (Steps.single hjw)).trans (Steps.single hlab)).trans hrec
      simpa [evs] using this

/-- **C33, main theorem (any body, any n ≥ 1, any initial memory).**
Let the counter reference have index 0, the start label occur nowhere in the body, and the body
never write the counter.  If the body can be executed `n` times in a row starting from the memory
in which the counter holds `n` — `Iter` — then the wrapped program, started at its first
instruction, executes MOVE counter n, then exactly those n body executions (each followed by the
SUB), and then stops by running past its last instruction with the counter at 0. -/
theorem C33_loop_general {body : List Instr} {c : MemRef} {s : Target} {n : Nat} (hn : 1 ≤ n)
    (hfresh : labelFresh s body = true) (hw : NoWrite c body)
    {m0 mf : Mem} {T : List Instr}
    (hit : Iter body c n (m0.set c (Int.ofNat n)) T mf) :
    Finishes (wrapBody body c s n) 0 m0 (.move c (Int.ofNat n) :: T) mf ∧ mf c = 0 := by
  obtain ⟨k, rfl⟩ : ∃ k, n = k + 1 := ⟨n - 1, by omega⟩
  have hmove : step (wrapBody body c s (k + 1)) 0 m0 =
      .next 1 (m0.set c (Int.ofNat (k + 1))) (some (.move c (Int.ofNat (k + 1)))) := by
    simp [step, wrapBody]
  have hlab : step (wrapBody body c s (k + 1)) 1 (m0.set c (Int.ofNat (k + 1))) =
      .next 2 (m0.set c (Int.ofNat (k + 1))) none := by
    simp [step, wrapBody]
  obtain ⟨hloop, hz⟩ := loop_from_top (n := k + 1) hfresh hw k _ _ _ (by simp [Mem.set]) hit
  refine ⟨⟨4 + body.length, ?_, ?_⟩, hz⟩
  · have := ((Steps.single hmove).trans (Steps.single hlab)).trans hloop
    simpa [evs] using this
  · simp [step, wrap_at_end]

/-! ### Straight-line bodies: the trace is literally the body repeated n times -/

private theorem straight_suffix (xs : List Instr) : ∀ (ys : List Instr) (m : Mem),
    straightLine ys = true → ∀ pre, xs = pre ++ ys →
    ∃ m', Steps xs pre.length m ys xs.length m' := by
  intro ys
  induction ys with
  | nil =>
    intro m _ pre hx
    refine ⟨m, ?_⟩
    subst hx; simpa using Steps.refl _ _
  | cons y ys ih =>
    intro m hs pre hx
    have hy : y.isControl = false := by
      have := List.all_eq_true.mp hs y (by simp); simpa using this
    have hys : straightLine ys = true := by
      simp only [straightLine, List.all_cons, Bool.and_eq_true] at hs; exact hs.2
    have hget : xs[pre.length]? = some y := by subst hx; simp
    have hstep : ∃ m1, step xs pre.length m = .next (pre.length + 1) m1 (some y) := by
      cases y <;> simp [Instr.isControl] at hy <;> simp [step, hget]
    obtain ⟨m1, hm1⟩ := hstep
    obtain ⟨m', hm'⟩ := ih m1 hys (pre ++ [y]) (by simp [hx])
    refine ⟨m', ?_⟩
    have := Steps.cons hm1 (by simpa using hm')
    simpa [evs] using this

/-- a body without control flow always runs to its end and its events are the body itself -/
theorem bodyRuns_straight {body : List Instr} (h : straightLine body = true) (m : Mem) :
    ∃ m', BodyRuns body m body m' := by
  simpa [BodyRuns] using straight_suffix body body m h [] rfl

theorem iter_straight {body : List Instr} (h : straightLine body = true) (c0 : MemRef) :
    ∀ (k : Nat) (m : Mem), ∃ mf, Iter body c0 k m (repeatList (body ++ [.sub c0 1]) k) mf := by
  intro k
  induction k with
  | zero => intro m; exact ⟨m, by simpa [repeatList] using Iter.zero m⟩
  | succ k ih =>
    intro m
    obtain ⟨m', hb⟩ := bodyRuns_straight h m
    obtain ⟨mf, hi⟩ := ih (m'.set c0 (m' c0 - 1))
    refine ⟨mf, ?_⟩
    have := Iter.succ hb hi
    simpa [repeatList] using this

/-- **C33 for straight-line bodies** (gates, pragmas, pulses, classical instructions — anything
but LABEL/JUMP*/HALT): for every n ≥ 1, every body that does not access the counter region, and
every initial memory, the wrapped program halts (runs past its end) and its event trace is
MOVE counter n followed by (body, SUB counter 1) repeated exactly n times; the counter ends at 0. -/
theorem C33_loop_straight {body : List Instr} {c : MemRef} {s : Target} {n : Nat} (hn : 1 ≤ n)
    (hs : straightLine body = true) (hcf : counterFresh c.name body = true)
    (m0 : Mem) :
    ∃ mf, Finishes (wrapBody body c s n) 0 m0
        (.move c (Int.ofNat n) :: repeatList (body ++ [.sub c 1]) n) mf ∧ mf c = 0 := by
  have hfresh : labelFresh s body = true := by
    apply List.all_eq_true.mpr
    intro x hx
    have := List.all_eq_true.mp hs x hx
    cases x <;> simp [Instr.isControl] at this <;> simp [Instr.targets]
  obtain ⟨mf, hi⟩ := iter_straight hs c n (m0.set c (Int.ofNat n))
  exact ⟨mf, C33_loop_general hn hfresh (noWrite_of_counterFresh hcf) hi⟩

/-- the same, for the executable interpreter: with enough fuel `run` reports `done` and that trace -/
theorem C33_run_straight {body : List Instr} {c : MemRef} {s : Target} {n : Nat} (hn : 1 ≤ n)
    (hs : straightLine body = true) (hcf : counterFresh c.name body = true)
    (m0 : Mem) :
    ∃ fuel mf, ∀ extra, run (wrapBody body c s n) (fuel + extra) 0 m0 [] =
      .done mf (.move c (Int.ofNat n) :: repeatList (body ++ [.sub c 1]) n) := by
  obtain ⟨mf, ⟨pc', hst, hd⟩, _⟩ := C33_loop_straight (s := s) hn hs hcf m0
  obtain ⟨fuel, hf⟩ := run_of_steps hst hd
  exact ⟨fuel, mf, fun extra => by simpa using hf extra []⟩

/-- Observed through the events that do not access the counter region, the trace is the body
repeated exactly n times. -/
theorem C33_trace_filter {body : List Instr} {c : MemRef} (n : Nat) (hc : c.index = 0)
    (hcf : counterFresh c.name body = true) :
    ((Instr.move c (Int.ofNat n) :: repeatList (body ++ [.sub c 1]) n).filter (Instr.avoids c.name))
      = repeatList body n := by
  have hb : body.filter (Instr.avoids c.name) = body := by
    apply List.filter_eq_self.mpr
    intro x hx; exact List.all_eq_true.mp hcf x hx
  have hrep : ∀ k, (repeatList (body ++ [.sub c 1]) k).filter (Instr.avoids c.name) = repeatList body k := by
    intro k
    induction k with
    | zero => simp [repeatList]
    | succ k ih => simp [repeatList, List.filter_append, hb, ih, Instr.avoids]
  simp [List.filter_cons, Instr.avoids, hrep]

/-- The interpreter only ever reports `done` for genuine terminating executions (soundness of the
Bool check evaluated by the driver on the implementation's output). -/
theorem C33_run_sound (P : List Instr) (fuel : Nat) (m0 mf : Mem) (T : List Instr)
    (h : run P fuel 0 m0 [] = .done mf T) : Finishes P 0 m0 T mf := by
  obtain ⟨tr, hT, hfin⟩ := steps_of_run fuel 0 m0 [] T mf h
  simp at hT; subst hT; exact hfin

/-- Execution is deterministic: a program that finishes does so with one trace only, so the
trace in the theorems above is *the* behaviour ("exactly n times"). -/
theorem C33_finishes_unique {P : List Instr} {pc : Nat} {m mf mf' : Mem} {T T' : List Instr}
    (h : Finishes P pc m T mf) (h' : Finishes P pc m T' mf') : T = T' := by
  obtain ⟨_, hs, hd⟩ := h
  obtain ⟨_, hs', hd'⟩ := h'
  obtain ⟨f, hf⟩ := run_of_steps hs hd
  obtain ⟨f', hf'⟩ := run_of_steps hs' hd'
  have e1 := hf f' []
  have e2 := hf' f []
  rw [Nat.add_comm f' f] at e2
  rw [e1] at e2
  simp only [List.nil_append, Outcome.done.injEq] at e2
  exact e2.2

private theorem step_pc_le {P : List Instr} {pc pc' : Nat} {m m' : Mem} {ev : Option Instr}
    (h : step P pc m = .next pc' m' ev) : pc' ≤ P.length := by
  cases hx : P[pc]? with
  | none => simp [step, hx] at h
  | some x =>
    have hlt : pc < P.length := by
      by_cases hl : pc < P.length
      · exact hl
      · have : P[pc]? = none := by simp; omega
        rw [this] at hx; simp at hx
    have hjump : ∀ t, jumpTo P t m = .next pc' m' ev → pc' ≤ P.length := by
      intro t hj
      simp only [jumpTo] at hj
      cases hf : findLabel t P with
      | none => rw [hf] at hj; simp at hj
      | some j =>
        rw [hf] at hj; simp only [Step.next.injEq] at hj
        have := findLabel_lt hf; omega
    cases x <;> simp only [step, hx] at h
    case move d v => simp only [Step.next.injEq] at h; omega
    case sub d v => simp only [Step.next.injEq] at h; omega
    case label t => simp only [Step.next.injEq] at h; omega
    case other e r => simp only [Step.next.injEq] at h; omega
    case halt => simp at h
    case jump t => exact hjump t h
    case jumpWhen t cc =>
      by_cases hc : m cc ≠ 0
      · rw [if_pos hc] at h; exact hjump t h
      · rw [if_neg hc] at h; simp only [Step.next.injEq] at h; omega
    case jumpUnless t cc =>
      by_cases hc : m cc = 0
      · rw [if_pos hc] at h; exact hjump t h
      · rw [if_neg hc] at h; simp only [Step.next.injEq] at h; omega

private theorem steps_pc_le {P : List Instr} {pc pc' : Nat} {m m' : Mem} {tr : List Instr}
    (h : Steps P pc m tr pc' m') (h0 : pc ≤ P.length) : pc' ≤ P.length := by
  induction h with
  | refl => exact h0
  | cons hs _ ih => exact ih (step_pc_le hs)

/-- a finishing run of the body from its first instruction ends exactly at `body.length` -/
theorem bodyRuns_of_finishes {body : List Instr} {m m' : Mem} {tr : List Instr}
    (h : Finishes body 0 m tr m') : BodyRuns body m tr m' := by
  obtain ⟨pc', hs, hd⟩ := h
  have hle := steps_pc_le hs (Nat.zero_le _)
  have hjd : ∀ t, jumpTo body t m' ≠ .done := by
    intro t; simp only [jumpTo]; split <;> simp
  have hge : body.length ≤ pc' := by
    by_cases hl : pc' < body.length
    · exfalso
      have hx : body[pc']? = some body[pc'] := by simp [hl]
      generalize body[pc'] = x at hx
      cases x <;> simp only [step, hx] at hd <;> (try simp at hd)
      case jump t => exact hjd t hd
      case jumpWhen t cc => split at hd <;> first | exact hjd t hd | simp at hd
      case jumpUnless t cc => split at hd <;> first | exact hjd t hd | simp at hd
    · omega
  have : pc' = body.length := by omega
  subst this; exact hs

/-- The driver's executable `iterTrace` (Spec.lean) is sound for the relation `Iter`: whatever it
returns is the trace of `k` genuine consecutive executions of the body. -/
theorem C33_iterTrace_sound (body : List Instr) (c0 : MemRef) (fuel : Nat) :
    ∀ (k : Nat) (m : Mem) (T : List Instr), iterTrace body c0 fuel k m = some T →
      ∃ mf, Iter body c0 k m T mf := by
  intro k
  induction k with
  | zero => intro m T h; simp [iterTrace] at h; subst h; exact ⟨m, Iter.zero m⟩
  | succ k ih =>
    intro m T h
    simp only [iterTrace] at h
    cases hr : run body fuel 0 m [] with
    | done m' tr =>
      simp only [hr] at h
      cases hi : iterTrace body c0 fuel k (m'.set c0 (m' c0 - 1)) with
      | none => rw [hi] at h; simp at h
      | some trs =>
        rw [hi] at h; simp at h; subst h
        obtain ⟨mf, hmf⟩ := ih _ _ hi
        obtain ⟨tr', hT, hfin⟩ := steps_of_run fuel 0 m [] tr m' hr
        simp at hT; subst hT
        exact ⟨mf, Iter.succ (bodyRuns_of_finishes hfin) hmf⟩
    | halted tr => rw [hr] at h; simp at h
    | stuck tr => rw [hr] at h; simp at h
    | outOfFuel tr => rw [hr] at h; simp at h

/-- **The driver's behavioural check means what it says.**  If, for an arbitrary program body `P`
(in the check: the body returned by the real `wrap_in_loop`), the interpreter reports `done` with
trace `MOVE c n :: T` where `T = iterTrace body …`, then `P` really finishes with exactly the
events of `n` consecutive executions of `body`. -/
theorem C33_checker_sound (P body : List Instr) (c : MemRef) (n fuel fuel' : Nat) (m0 mf : Mem)
    (T tr : List Instr)
    (hT : iterTrace body c fuel n (m0.set c (Int.ofNat n)) = some T)
    (hrun : run P fuel' 0 m0 [] = .done mf tr) (htr : tr = .move c (Int.ofNat n) :: T) :
    Finishes P 0 m0 (.move c (Int.ofNat n) :: T) mf ∧
    ∃ mi, Iter body c n (m0.set c (Int.ofNat n)) T mi := by
  subst htr
  exact ⟨C33_run_sound P fuel' m0 mf _ hrun, C33_iterTrace_sound body c fuel n _ T hT⟩

/-! ### What `wrap_in_loop` returns -/

private theorem addInstructions_instrs (p : Program) (is : List Instr) :
    addInstructions p (is.map .instr) = { p with body := p.body ++ is } := by
  induction is generalizing p with
  | nil => simp [addInstructions]
  | cons i is ih =>
    simp only [addInstructions, List.map_cons, List.foldl_cons] at ih ⊢
    rw [ih]; simp [addInstruction]

/-- **Shape for n ≥ 2**: the body is exactly `wrapBody`, the counter region is declared
INTEGER[1] (IndexMap insert), every other definition is untouched. -/
theorem C33_shape (p : Program) (c : MemRef) (t : Target) (n : Nat) (hn : 2 ≤ n) :
    wrapInLoop p c t n =
      { regions := insertRegion c.name { ty := "INTEGER", len := counterLen c, sharing := none } p.regions,
        defs := p.defs,
        body := wrapBody p.body c t n } := by
  obtain ⟨k, rfl⟩ : ∃ k, n = k + 2 := ⟨n - 2, by omega⟩
  simp only [wrapInLoop, loopInstructions]
  have : ([Added.declare c.name { ty := "INTEGER", len := counterLen c, sharing := none },
        Added.instr (Instr.move c (Int.ofNat (k + 2))), Added.instr (Instr.label t)] ++
        List.map Added.instr p.body ++
        [Added.instr (Instr.sub c 1), Added.instr (Instr.jumpWhen t c)])
      = Added.declare c.name { ty := "INTEGER", len := counterLen c, sharing := none } ::
        (([Instr.move c (Int.ofNat (k + 2)), Instr.label t] ++ p.body ++
          [Instr.sub c 1, Instr.jumpWhen t c]).map Added.instr) := by
    simp
  rw [this]
  simp only [addInstructions, List.foldl_cons]
  have h2 := addInstructions_instrs (addInstruction (cloneWithoutBody p)
    (Added.declare c.name { ty := "INTEGER", len := counterLen c, sharing := none }))
    ([Instr.move c (Int.ofNat (k + 2)), Instr.label t] ++ p.body ++
          [Instr.sub c 1, Instr.jumpWhen t c])
  simp only [addInstructions] at h2
  rw [h2]
  simp [addInstruction, cloneWithoutBody, wrapBody]

/-- `lookup` in an IndexMap-like association list -/
def lookupRegion (k : String) : List (String × Region) → Option Region
  | [] => none
  | (k', v) :: rest => if k' = k then some v else lookupRegion k rest

/-- **Definitions are preserved**: every region other than the counter keeps its descriptor,
in every case (n = 0, 1, ≥ 2), and all other definitions are identical. -/
theorem C33_definitions_preserved (p : Program) (c : MemRef) (t : Target) (n : Nat) :
    (wrapInLoop p c t n).defs = p.defs ∧
    ∀ k, k ≠ c.name → lookupRegion k (wrapInLoop p c t n).regions = lookupRegion k p.regions := by
  have hins : ∀ (rs : List (String × Region)) (v : Region) (k : String), k ≠ c.name →
      lookupRegion k (insertRegion c.name v rs) = lookupRegion k rs := by
    intro rs v k hk
    induction rs with
    | nil => simp [insertRegion, lookupRegion]; intro h; exact absurd h.symm hk
    | cons kv rest ih =>
      obtain ⟨k', v'⟩ := kv
      by_cases h : k' = c.name
      · subst h
        have hk' : ¬ (c.name = k) := fun h' => hk h'.symm
        simp [insertRegion, lookupRegion, hk']
      · simp only [insertRegion, h, if_false, lookupRegion, ih]
  match n with
  | 0 => simp [wrapInLoop, cloneWithoutBody]
  | 1 => simp [wrapInLoop]
  | n + 2 =>
    rw [C33_shape p c t (n + 2) (by omega)]
    exact ⟨rfl, fun k hk => hins _ _ k hk⟩

/-- a counter region that the program does not declare yet is appended after the existing ones,
which all keep their place -/
theorem C33_fresh_region_appended (p : Program) (c : MemRef) (t : Target) (n : Nat) (hn : 2 ≤ n)
    (hfresh : lookupRegion c.name p.regions = none) :
    (wrapInLoop p c t n).regions = p.regions ++ [(c.name, { ty := "INTEGER", len := counterLen c, sharing := none })] := by
  rw [C33_shape p c t n hn]
  simp only
  generalize p.regions = rs at hfresh
  induction rs with
  | nil => simp [insertRegion]
  | cons kv rest ih =>
    obtain ⟨k', v'⟩ := kv
    simp only [lookupRegion] at hfresh
    by_cases h : k' = c.name
    · simp [h] at hfresh
    · simp only [h, if_false] at hfresh
      simp [insertRegion, h, ih hfresh]

/-- **n = 1**: the program is unchanged. -/
theorem C33_one (p : Program) (c : MemRef) (t : Target) : wrapInLoop p c t 1 = p := rfl

/-- **n = 0**: only the body is removed. -/
theorem C33_zero (p : Program) (c : MemRef) (t : Target) :
    wrapInLoop p c t 0 = { p with body := [] } := rfl

/-- **C33 end to end**: for n ≥ 2, a straight-line body that does not access the counter region,
and an index-0 counter reference, the body of the program returned by `wrap_in_loop` halts from
any initial memory with trace MOVE, then (body, SUB) n times. -/
theorem C33_wrapInLoop_runs (p : Program) (c : MemRef) (t : Target) (n : Nat) (hn : 2 ≤ n)
    (hs : straightLine p.body = true) (hcf : counterFresh c.name p.body = true)
    (m0 : Mem) :
    ∃ mf, Finishes (wrapInLoop p c t n).body 0 m0
        (.move c (Int.ofNat n) :: repeatList (p.body ++ [.sub c 1]) n) mf ∧ mf c = 0 := by
  rw [C33_shape p c t n hn]
  exact C33_loop_straight (by omega) hs hcf m0

/-! ### A counter reference with a non-zero index

Before /repo 0cfdaad the code emitted `MOVE cnt[1] n … SUB cnt[0] 1; JUMP-WHEN @s cnt[1]` for
`loop_count_reference = cnt[1]`: the tested word was never decremented and the wrapped program never terminated
(the earlier version of this file proved that divergence as `C33_nonzero_index_diverges`). With the repair the
theorems above hold for every index; the concrete former witness now terminates after exactly n rounds. -/

/-- the former divergence witness (empty body, `cnt[1]`, n = 2) now finishes with the expected trace -/
theorem C33_nonzero_index_terminates :
    (match run (wrapBody [] ⟨"cnt", 1⟩ (.fixed "s") 2) 100 0 zeroMem [] with
     | .done _ tr => tr == [.move ⟨"cnt", 1⟩ 2, .sub ⟨"cnt", 1⟩ 1, .sub ⟨"cnt", 1⟩ 1]
     | _ => false) = true := by
  decide

/-- the declared counter region is large enough for the given reference -/
theorem C33_counter_region_holds_reference (c : MemRef) (h : c.index < 18446744073709551615) :
    c.index < counterLen c := by
  unfold counterLen; omega

/-! ### Non-vacuity -/

private def exBody : List Instr :=
  [.other "X 0" [], .move ⟨"ro", 0⟩ 5, .other "MEASURE 0 ro[0]" ["ro"]]

example : straightLine exBody = true ∧ counterFresh "cnt" exBody = true ∧
    labelFresh (.placeholder 0) exBody = true := by decide

/-- the interpreter really produces the trace of the theorem on a concrete instance (n = 3) -/
example :
    (match run (wrapBody exBody ⟨"cnt", 0⟩ (.placeholder 0) 3) 100 0 zeroMem [] with
     | .done _ tr => tr == .move ⟨"cnt", 0⟩ 3 :: repeatList (exBody ++ [.sub ⟨"cnt", 0⟩ 1]) 3
     | _ => false) = true := by decide

/-- `Iter` is satisfiable for a body with its own control flow (a forward jump over an event) -/
example : ∃ m', BodyRuns [.jump (.fixed "a"), .other "X 0" [], .label (.fixed "a"), .other "Y 0" []]
    zeroMem [.other "Y 0" []] m' := by
  refine ⟨zeroMem, ?_⟩
  have s1 : step [.jump (.fixed "a"), .other "X 0" [], .label (.fixed "a"), .other "Y 0" []] 0 zeroMem
      = .next 2 zeroMem none := by simp [step, jumpTo, findLabel]
  have s2 : step [.jump (.fixed "a"), .other "X 0" [], .label (.fixed "a"), .other "Y 0" []] 2 zeroMem
      = .next 3 zeroMem none := by simp [step]
  have s3 : step [.jump (.fixed "a"), .other "X 0" [], .label (.fixed "a"), .other "Y 0" []] 3 zeroMem
      = .next 4 zeroMem (some (.other "Y 0" [])) := by simp [step]
  have := ((Steps.single s1).trans (Steps.single s2)).trans (Steps.single s3)
  simpa [BodyRuns, evs] using this

end QV.C33
