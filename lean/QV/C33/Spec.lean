import QV.C33.Model
/-
C33 Bool checkers evaluated by the driver on the implementation's output.  `iterTrace` is the
executable form of the relation `Iter` of Props.lean (proved sound there: `C33_iterTrace_sound`).
-/
namespace QV.C33

/-- Executable version of `Iter` (Props.lean): run the body on its own `k` times in a row, each
run followed by the counter decrement; `none` if some run does not finish within the fuel. -/
def iterTrace (body : List Instr) (c0 : MemRef) (fuel : Nat) : Nat → Mem → Option (List Instr)
  | 0, _ => some []
  | k + 1, m =>
    match run body fuel 0 m [] with
    | .done m' tr =>
      match iterTrace body c0 fuel k (m'.set c0 (m' c0 - 1)) with
      | some trs => some (tr ++ .sub c0 1 :: trs)
      | none => none
    | _ => none

def lookupR (k : String) : List (String × Region) → Option Region
  | [] => none
  | (k', v) :: rest => if k' = k then some v else lookupR k rest

/-- structural clauses of the statement, evaluated on the implementation's output -/
def structureOk (p : Program) (c : MemRef) (n : Nat) (o : Program) : Bool :=
  o.defs == p.defs &&
  (match n with
   | 0 => o.regions == p.regions && o.body.isEmpty
   | 1 => o.regions == p.regions && o.body == p.body
   | _ =>
     -- every other region keeps its descriptor and its relative order; the counter is an unshared INTEGER region
     -- long enough to hold the referenced element (u64::MAX cannot be exceeded: the length saturates there)
     (o.regions.filter (fun r => r.1 != c.name)) == (p.regions.filter (fun r => r.1 != c.name)) &&
     (match lookupR c.name o.regions with
      | some r => r.ty == "INTEGER" && r.sharing.isNone &&
          (decide (c.index < r.len) || decide (18446744073709551615 ≤ c.index))
      | none => false))

end QV.C33
