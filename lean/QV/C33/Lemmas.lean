import QV.C33.Model
/-
C33 helper definitions and lemmas: the declarative small-step relation `Steps`, its link to the
fuel-bounded interpreter `run`, and the embedding of a body's execution into the wrapped program.
-/
namespace QV.C33

def evs : Option Instr → List Instr
  | none => []
  | some e => [e]

theorem consEv_eq (ev : Option Instr) (tr : List Instr) : consEv ev tr = tr ++ evs ev := by
  cases ev <;> simp [consEv, evs]

/-- Reflexive-transitive closure of `step`, collecting the events in order. -/
inductive Steps (P : List Instr) : Nat → Mem → List Instr → Nat → Mem → Prop where
  | refl (pc : Nat) (m : Mem) : Steps P pc m [] pc m
  | cons {pc pc' pc'' : Nat} {m m' m'' : Mem} {ev : Option Instr} {tr : List Instr} :
      step P pc m = .next pc' m' ev → Steps P pc' m' tr pc'' m'' →
      Steps P pc m (evs ev ++ tr) pc'' m''

theorem Steps.trans {P : List Instr} {a b c : Nat} {m1 m2 m3 : Mem} {t1 t2 : List Instr}
    (h1 : Steps P a m1 t1 b m2) (h2 : Steps P b m2 t2 c m3) : Steps P a m1 (t1 ++ t2) c m3 := by
  induction h1 with
  | refl => simpa using h2
  | cons hs _ ih =>
    rw [List.append_assoc]
    exact Steps.cons hs (ih h2)

theorem Steps.single {P : List Instr} {pc pc' : Nat} {m m' : Mem} {ev : Option Instr}
    (h : step P pc m = .next pc' m' ev) : Steps P pc m (evs ev) pc' m' := by
  have := Steps.cons h (Steps.refl pc' m')
  simpa using this

/-- The program, started at `(pc, m)`, finishes by running past its last instruction with events
`tr` and final memory `m'`. -/
def Finishes (P : List Instr) (pc : Nat) (m : Mem) (tr : List Instr) (m' : Mem) : Prop :=
  ∃ pc', Steps P pc m tr pc' m' ∧ step P pc' m' = .done

/-- completeness of the fuel-bounded interpreter w.r.t. the relation -/
theorem run_of_steps {P : List Instr} {pc pc' : Nat} {m m' : Mem} {tr : List Instr}
    (h : Steps P pc m tr pc' m') (hd : step P pc' m' = .done) :
    ∃ fuel, ∀ extra tr0, run P (fuel + extra) pc m tr0 = .done m' (tr0 ++ tr) := by
  induction h with
  | refl pc m =>
    refine ⟨1, fun extra tr0 => ?_⟩
    rw [show 1 + extra = extra + 1 by omega]
    simp [run, hd]
  | cons hs _ ih =>
    obtain ⟨fuel, hf⟩ := ih hd
    refine ⟨fuel + 1, fun extra tr0 => ?_⟩
    rw [show fuel + 1 + extra = (fuel + extra) + 1 by omega]
    simp only [run, hs]
    rw [hf, consEv_eq, List.append_assoc]

/-- soundness of the fuel-bounded interpreter w.r.t. the relation -/
theorem steps_of_run {P : List Instr} : ∀ (fuel pc : Nat) (m : Mem) (tr0 T : List Instr) (m' : Mem),
    run P fuel pc m tr0 = .done m' T → ∃ tr, T = tr0 ++ tr ∧ Finishes P pc m tr m' := by
  intro fuel
  induction fuel with
  | zero => intro pc m tr0 T m' h; simp [run] at h
  | succ fuel ih =>
    intro pc m tr0 T m' h
    simp only [run] at h
    cases hs : step P pc m with
    | next pc1 m1 ev =>
      rw [hs] at h
      obtain ⟨tr, hT, pc', hst, hd⟩ := ih _ _ _ _ _ h
      refine ⟨evs ev ++ tr, ?_, pc', Steps.cons hs hst, hd⟩
      rw [hT, consEv_eq, List.append_assoc]
    | done =>
      rw [hs] at h
      simp only [Outcome.done.injEq] at h
      obtain ⟨rfl, rfl⟩ := h
      exact ⟨[], by simp, pc, Steps.refl _ _, hs⟩
    | haltInstr => rw [hs] at h; simp at h
    | stuck => rw [hs] at h; simp at h

/-! ### findLabel over concatenation -/

theorem findLabel_append (t : Target) (xs ys : List Instr) :
    findLabel t (xs ++ ys) =
      match findLabel t xs with
      | some i => some i
      | none => (findLabel t ys).map (· + xs.length) := by
  induction xs with
  | nil => simp [findLabel]
  | cons x xs ih =>
    simp only [List.cons_append, findLabel]
    by_cases hx : x = .label t
    · simp [hx]
    · simp only [hx, if_false, ih]
      cases h1 : findLabel t xs with
      | some i => simp
      | none =>
        cases h2 : findLabel t ys with
        | some j => simp; omega
        | none => simp

theorem findLabel_lt {t : Target} {P : List Instr} {i : Nat} (h : findLabel t P = some i) :
    i < P.length := by
  induction P generalizing i with
  | nil => simp [findLabel] at h
  | cons x xs ih =>
    simp only [findLabel] at h
    by_cases hx : x = .label t
    · simp [hx] at h; subst h; simp
    · simp only [hx, if_false] at h
      cases h1 : findLabel t xs with
      | some j => rw [h1] at h; simp at h; subst h; have := ih h1; simp; omega
      | none => rw [h1] at h; simp at h


/-! ### The wrapped body and the embedding of the body's execution -/

/-- the body of the looped program for `iterations ≥ 2` -/
def wrapBody (body : List Instr) (c : MemRef) (t : Target) (n : Nat) : List Instr :=
  [.move c (Int.ofNat n), .label t] ++ body ++ [.sub c 1, .jumpWhen t c]

theorem wrapBody_length (body : List Instr) (c : MemRef) (t : Target) (n : Nat) :
    (wrapBody body c t n).length = body.length + 4 := by
  simp [wrapBody]

theorem wrapBody_get_body (body : List Instr) (c : MemRef) (t : Target) (n i : Nat) (h : i < body.length) :
    (wrapBody body c t n)[2 + i]? = body[i]? := by
  simp only [wrapBody]
  rw [List.append_assoc, List.getElem?_append_right (by simp)]
  simp only [List.length_cons, List.length_nil]
  rw [show 2 + i - (0 + 1 + 1) = i by omega, List.getElem?_append_left h]

theorem findLabel_wrapBody_body {body : List Instr} {c : MemRef} {s t : Target} {n j : Nat}
    (hts : t ≠ s) (h : findLabel t body = some j) :
    findLabel t (wrapBody body c s n) = some (2 + j) := by
  simp only [wrapBody]
  rw [List.append_assoc, findLabel_append]
  have h0 : findLabel t [Instr.move c (Int.ofNat n), Instr.label s] = none := by
    simp [findLabel]
    intro h; exact hts h.symm
  rw [h0]
  simp only
  rw [findLabel_append, h]
  simp; omega

theorem findLabel_wrapBody_start (body : List Instr) (c : MemRef) (s : Target) (n : Nat) :
    findLabel s (wrapBody body c s n) = some 1 := by
  simp [wrapBody, findLabel]

theorem mem_of_getElem? {body : List Instr} {i : Nat} {x : Instr} (h : body[i]? = some x) : x ∈ body :=
  List.mem_of_getElem? h

/-- every step the body takes on its own is taken, shifted by 2, inside the wrapped program -/
theorem embed_step {body : List Instr} {c : MemRef} {s : Target} {n : Nat}
    (hfresh : labelFresh s body = true) {i i' : Nat} {m m' : Mem} {ev : Option Instr}
    (h : step body i m = .next i' m' ev) :
    step (wrapBody body c s n) (2 + i) m = .next (2 + i') m' ev := by
  have hi : i < body.length := by
    by_cases hlt : i < body.length
    · exact hlt
    · have : body[i]? = none := by simp; omega
      simp [step, this] at h
  obtain ⟨x, hx⟩ : ∃ x, body[i]? = some x := ⟨body[i], by simp [hi]⟩
  have hP : (wrapBody body c s n)[2 + i]? = some x := by rw [wrapBody_get_body _ _ _ _ _ hi, hx]
  have hxm : x ∈ body := mem_of_getElem? hx
  have hxs : ∀ t ∈ x.targets, t ≠ s := by
    intro t ht hts
    have := List.all_eq_true.mp hfresh x hxm
    simp at this
    exact this (hts ▸ ht)
  -- jumps
  have hjump : ∀ t, t ∈ x.targets → jumpTo body t m = .next i' m' ev →
      jumpTo (wrapBody body c s n) t m = .next (2 + i') m' ev := by
    intro t ht hj
    simp only [jumpTo] at hj ⊢
    cases hf : findLabel t body with
    | none => rw [hf] at hj; simp at hj
    | some j =>
      rw [hf] at hj
      rw [findLabel_wrapBody_body (hxs t ht) hf]
      simp only [Step.next.injEq] at hj ⊢
      obtain ⟨rfl, rfl, rfl⟩ := hj
      exact ⟨rfl, rfl, rfl⟩
  cases x <;> simp only [step, hx] at h <;> simp only [step, hP]
  case move d v => simp only [Step.next.injEq] at h ⊢; obtain ⟨rfl, rfl, rfl⟩ := h; exact ⟨by omega, rfl, rfl⟩
  case sub d v => simp only [Step.next.injEq] at h ⊢; obtain ⟨rfl, rfl, rfl⟩ := h; exact ⟨by omega, rfl, rfl⟩
  case label t => simp only [Step.next.injEq] at h ⊢; obtain ⟨rfl, rfl, rfl⟩ := h; exact ⟨by omega, rfl, rfl⟩
  case other e r => simp only [Step.next.injEq] at h ⊢; obtain ⟨rfl, rfl, rfl⟩ := h; exact ⟨by omega, rfl, rfl⟩
  case halt => simp at h
  case jump t => exact hjump t (by simp [Instr.targets]) h
  case jumpWhen t cc =>
    by_cases hc : m cc ≠ 0
    · rw [if_pos hc] at h ⊢; exact hjump t (by simp [Instr.targets]) h
    · rw [if_neg hc] at h ⊢; simp only [Step.next.injEq] at h ⊢; obtain ⟨rfl, rfl, rfl⟩ := h; exact ⟨by omega, rfl, rfl⟩
  case jumpUnless t cc =>
    by_cases hc : m cc = 0
    · rw [if_pos hc] at h ⊢; exact hjump t (by simp [Instr.targets]) h
    · rw [if_neg hc] at h ⊢; simp only [Step.next.injEq] at h ⊢; obtain ⟨rfl, rfl, rfl⟩ := h; exact ⟨by omega, rfl, rfl⟩

theorem embed_steps {body : List Instr} {c : MemRef} {s : Target} {n : Nat}
    (hfresh : labelFresh s body = true) {i i' : Nat} {m m' : Mem} {tr : List Instr}
    (h : Steps body i m tr i' m') : Steps (wrapBody body c s n) (2 + i) m tr (2 + i') m' := by
  induction h with
  | refl => exact Steps.refl _ _
  | cons hs _ ih => exact Steps.cons (embed_step hfresh hs) ih

/-- a body that never writes `r` leaves `m r` alone -/
theorem step_preserves {body : List Instr} {r : MemRef}
    (hw : ∀ x ∈ body, ∀ d v, (x = .move d v ∨ x = .sub d v) → d ≠ r)
    {i i' : Nat} {m m' : Mem} {ev : Option Instr} (h : step body i m = .next i' m' ev) : m' r = m r := by
  cases hx : body[i]? with
  | none => simp [step, hx] at h
  | some x =>
    have hxm : x ∈ body := mem_of_getElem? hx
    have hjump : ∀ t, jumpTo body t m = .next i' m' ev → m' r = m r := by
      intro t hj
      simp only [jumpTo] at hj
      cases hf : findLabel t body with
      | none => rw [hf] at hj; simp at hj
      | some j => rw [hf] at hj; simp only [Step.next.injEq] at hj; rw [← hj.2.1]
    cases x <;> simp only [step, hx] at h
    case move d v =>
      simp only [Step.next.injEq] at h
      have hd := hw _ hxm d v (Or.inl rfl)
      rw [← h.2.1]; simp [Mem.set]; intro h'; exact absurd h'.symm hd
    case sub d v =>
      simp only [Step.next.injEq] at h
      have hd := hw _ hxm d v (Or.inr rfl)
      rw [← h.2.1]; simp [Mem.set]; intro h'; exact absurd h'.symm hd
    case label t => simp only [Step.next.injEq] at h; rw [← h.2.1]
    case other e rr => simp only [Step.next.injEq] at h; rw [← h.2.1]
    case halt => simp at h
    case jump t => exact hjump t h
    case jumpWhen t cc =>
      by_cases hc : m cc ≠ 0
      · rw [if_pos hc] at h; exact hjump t h
      · rw [if_neg hc] at h; simp only [Step.next.injEq] at h; rw [← h.2.1]
    case jumpUnless t cc =>
      by_cases hc : m cc = 0
      · rw [if_pos hc] at h; exact hjump t h
      · rw [if_neg hc] at h; simp only [Step.next.injEq] at h; rw [← h.2.1]

theorem steps_preserve {body : List Instr} {r : MemRef}
    (hw : ∀ x ∈ body, ∀ d v, (x = .move d v ∨ x = .sub d v) → d ≠ r)
    {i i' : Nat} {m m' : Mem} {tr : List Instr} (h : Steps body i m tr i' m') : m' r = m r := by
  induction h with
  | refl => rfl
  | cons hs _ ih => rw [ih, step_preserves hw hs]

end QV.C33
