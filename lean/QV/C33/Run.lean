import QV.Wire
import QV.C33.Model
import QV.C33.Spec
/-! Driver side of the C33 correspondence check. -/
namespace QV.C33
open QV

def decTarget : Sexp → Option Target
  | .list [.atom "fixed", .str s] => some (.fixed s)
  | .list [.atom "ph", .atom k] => k.toNat?.map .placeholder
  | _ => none

def decInstr : Sexp → Option Instr
  | .list [.atom "move", .str n, .atom i, .atom v] => do
      some (.move ⟨n, ← i.toNat?⟩ (← v.toInt?))
  | .list [.atom "sub", .str n, .atom i, .atom v] => do
      some (.sub ⟨n, ← i.toNat?⟩ (← v.toInt?))
  | .list [.atom "label", t] => (decTarget t).map .label
  | .list [.atom "jump", t] => (decTarget t).map .jump
  | .list [.atom "jumpWhen", t, .str n, .atom i] => do
      some (.jumpWhen (← decTarget t) ⟨n, ← i.toNat?⟩)
  | .list [.atom "jumpUnless", t, .str n, .atom i] => do
      some (.jumpUnless (← decTarget t) ⟨n, ← i.toNat?⟩)
  | .list [.atom "halt"] => some .halt
  | .list [.atom "other", .str ev, .list regs] => do
      some (.other ev (← regs.mapM Sexp.asStr?))
  | _ => none

def decRegion : Sexp → Option (String × Region)
  | .list [.atom "r", .str n, .str ty, .atom len, .list [.atom "none"]] => do
      some (n, ⟨ty, ← len.toNat?, none⟩)
  | .list [.atom "r", .str n, .str ty, .atom len, .list [.atom "some", .str sh]] => do
      some (n, ⟨ty, ← len.toNat?, some sh⟩)
  | _ => none

def decProgram : Sexp → Option Program
  | .list [.atom "prog", .list (.atom "regions" :: rs), .list (.atom "defs" :: ds),
      .list (.atom "body" :: is)] => do
      some ⟨← rs.mapM decRegion, ← ds.mapM Sexp.asStr?, ← is.mapM decInstr⟩
  | _ => none

def encTarget : Target → Sexp
  | .fixed s => .list [.atom "fixed", .str s]
  | .placeholder k => .list [.atom "ph", .atom (toString k)]

def encInstr : Instr → Sexp
  | .move d v => .list [.atom "move", .str d.name, .atom (toString d.index), .atom (toString v)]
  | .sub d v => .list [.atom "sub", .str d.name, .atom (toString d.index), .atom (toString v)]
  | .label t => .list [.atom "label", encTarget t]
  | .jump t => .list [.atom "jump", encTarget t]
  | .jumpWhen t c => .list [.atom "jumpWhen", encTarget t, .str c.name, .atom (toString c.index)]
  | .jumpUnless t c => .list [.atom "jumpUnless", encTarget t, .str c.name, .atom (toString c.index)]
  | .halt => .list [.atom "halt"]
  | .other ev regs => .list [.atom "other", .str ev, .list (regs.map .str)]

def encRegion (r : String × Region) : Sexp :=
  .list [.atom "r", .str r.1, .str r.2.ty, .atom (toString r.2.len),
    match r.2.sharing with
    | none => .list [.atom "none"]
    | some s => .list [.atom "some", .str s]]

def encProgram (p : Program) : Sexp :=
  .list [.atom "prog", .list (.atom "regions" :: p.regions.map encRegion),
    .list (.atom "defs" :: p.defs.map .str), .list (.atom "body" :: p.body.map encInstr)]

def FUEL : Nat := 4000

def handle (inp out : Sexp) : CaseResult :=
  match inp with
  | .list [.atom "wrap", ps, .list [.atom "ref", .str cn, .atom ci], ts, .atom ns,
      .list (.atom "usedin" :: usedIn), .list (.atom "bodyq" :: bodyQ)] =>
    match decProgram ps, ci.toNat?, decTarget ts, ns.toNat?, out with
    | some p, some ci, some t, some n, .list [.atom "result", out, .list (.atom "used" :: usedOut),
        .list (.atom "listq" :: listQ)] =>
      let c : MemRef := ⟨cn, ci⟩
      let mOut := encProgram (wrapInLoop p c t n)
      let agree := mOut == out
      let premise := labelFresh t p.body && counterFresh cn p.body
      -- the interpreter is only run for moderate n (boundary values 2^16 … u32::MAX are checked structurally
      -- and against the model)
      let bodyFinishes := if n ≤ 64 then iterTrace p.body c FUEL n (zeroMem.set c (Int.ofNat n)) else none
      -- used-qubit cache of the result: ∅ for n = 0 (clone_without_body_instructions), the input's cache
      -- for n = 1 (clone), the qubits of the re-added body instructions for n ≥ 2 (mod.rs:213-225, 238)
      let mUsed : List Sexp := match n with | 0 => [] | 1 => usedIn | _ => bodyQ
      let usedAgree := mUsed == usedOut
      let cacheIsListing := usedOut == listQ
      match decProgram out with
      | none => { agree := false, specOk := false, nontrivial := false, tags := ["impl-output-undecodable"],
                  detail := s!"model={mOut} impl={out}" }
      | some o =>
        let st := structureOk p c n o
        -- behavioural clause: interpret the IMPLEMENTATION's body
        let (beh, btag) :=
          if n < 2 then (true, "n<2")
          else if n > 64 then
            -- boundary iteration counts: the counter must be initialised to exactly n, and the same body with
            -- that literal replaced by 3 must behave as the 3-fold loop (the behaviour depends on n only
            -- through the MOVE literal)
            (match o.body with
             | .move d v :: rest =>
               let okInit := d == c && v == Int.ofNat n
               if !premise then (okInit, "n-large-premise-violated")
               else match iterTrace p.body c FUEL 3 (zeroMem.set c 3) with
                 | none => (okInit, "n-large-body-does-not-finish")
                 | some T3 =>
                   (match run (.move c 3 :: rest) (16 * (T3.length + 4 * (p.body.length + 4)) + 100) 0 zeroMem [] with
                    | .done mf tr => (okInit && tr == .move c 3 :: T3 && mf c == 0, "n-large-checked-via-3")
                    | _ => (false, "n-large-impl-does-not-finish"))
             | _ => (false, "n-large-no-move"))
          else if !premise then (true, "premise-violated")
          else match bodyFinishes with
            | none => (true, "body-does-not-finish")
            | some T =>
              -- enough for every terminating wrapped run of the generated bodies (inner loops ≤ 3 rounds),
              -- small enough that a diverging output is diagnosed quickly
              match run o.body (min (FUEL * (n + 1)) (16 * (T.length + (n + 1) * (p.body.length + 4)) + 100)) 0 zeroMem [] with
              | .done mf tr =>
                (tr == .move c (Int.ofNat n) :: T && mf c == 0 &&
                  (!straightLine p.body ||
                    tr.filter (Instr.avoids cn) == repeatList p.body n),
                 "ran")
              | .halted _ => (false, "impl-halted")
              | .stuck _ => (false, "impl-stuck")
              | .outOfFuel _ => (false, "impl-out-of-fuel")
        let ntags := [s!"n{min n 7}", btag, s!"len{min p.body.length 12}",
          (if straightLine p.body then "straight" else "controlflow"),
          (match t with | .fixed _ => "target-fixed" | .placeholder _ => "target-placeholder"),
          (if ci == 0 then "idx0" else "idx-nonzero"),
          (if (lookupR cn p.regions).isSome then "counter-predeclared" else "counter-new"),
          s!"defs{min p.defs.length 6}", s!"regions{min p.regions.length 4}",
          -- Program::is_empty() holds although the program has definitions (len() ignores calibrations)
          (if p.regions.isEmpty && p.body.isEmpty && !p.defs.isEmpty && p.defs.all (fun d => d.startsWith "DEFCAL")
           then "calibrations-only-program" else "not-calibrations-only")]
          ++ (if !st then ["STRUCTURE-FAIL"] else [])
          ++ (if !usedAgree then ["USED-CACHE-DISAGREE"] else [])
          -- known finding C10/clone-without-body-resets-cache: reported by C10, only tagged here
          ++ (if !cacheIsListing then ["cache-not-listing(C10-known)"] else ["cache-is-listing"])
          ++ (if p.body.any (fun i => match i with | .jumpWhen _ r => r.name.startsWith "c1" | _ => false)
              then ["nested-wrap"] else [])
          ++ (if ci > 2 then ["idx-huge"] else [])
        { agree := agree && usedAgree, specOk := st && beh,
          nontrivial := n ≥ 2 && btag == "ran" && !p.body.isEmpty,
          tags := ntags, detail := s!"model={mOut} impl={out}" }
    | _, _, _, _, .list [.atom "crash", .str msg] =>
      { agree := false, specOk := false, nontrivial := true, tags := ["crash"], detail := msg }
    | _, _, _, _, _ => .bad s!"undecodable input/output {inp} {out}"
  | _ => .bad s!"undecodable input {inp}"

end QV.C33

def main : IO UInt32 := QV.runMain QV.C33.handle
