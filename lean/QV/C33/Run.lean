import QV.Wire
import QV.C33.Model
import QV.C33.Spec
/-! Driver side of the C33 correspondence check. -/
namespace QV.C33
open QV

def decTarget : Sexp → Option Target
  | .list [.atom "fixed", .str s] => some (.fixed s)
  | .list [.atom "ph", .atom k] => k.toNat?.map .placeholder
  | _ => none

def decInstr : Sexp → Option Instr
  | .list [.atom "move", .str n, .atom i, .atom v] => do
      some (.move ⟨n, ← i.toNat?⟩ (← v.toInt?))
  | .list [.atom "sub", .str n, .atom i, .atom v] => do
      some (.sub ⟨n, ← i.toNat?⟩ (← v.toInt?))
  | .list [.atom "label", t] => (decTarget t).map .label
  | .list [.atom "jump", t] => (decTarget t).map .jump
  | .list [.atom "jumpWhen", t, .str n, .atom i] => do
      some (.jumpWhen (← decTarget t) ⟨n, ← i.toNat?⟩)
  | .list [.atom "jumpUnless", t, .str n, .atom i] => do
      some (.jumpUnless (← decTarget t) ⟨n, ← i.toNat?⟩)
  | .list [.atom "halt"] => some .halt
  | .list [.atom "other", .str ev, .list regs] => do
      some (.other ev (← regs.mapM Sexp.asStr?))
  | _ => none

def decRegion : Sexp → Option (String × Region)
  | .list [.atom "r", .str n, .str ty, .atom len, .list [.atom "none"]] => do
      some (n, ⟨ty, ← len.toNat?, none⟩)
  | .list [.atom "r", .str n, .str ty, .atom len, .list [.atom "some", .str sh]] => do
      some (n, ⟨ty, ← len.toNat?, some sh⟩)
  | _ => none

def decProgram : Sexp → Option Program
  | .list [.atom "prog", .list (.atom "regions" :: rs), .list (.atom "defs" :: ds),
      .list (.atom "body" :: is)] => do
      some ⟨← rs.mapM decRegion, ← ds.mapM Sexp.asStr?, ← is.mapM decInstr⟩
  | _ => none

def encTarget : Target → Sexp
  | .fixed s => .list [.atom "fixed", .str s]
  | .placeholder k => .list [.atom "ph", .atom (toString k)]

def encInstr : Instr → Sexp
  | .move d v => .list [.atom "move", .str d.name, .atom (toString d.index), .atom (toString v)]
  | .sub d v => .list [.atom "sub", .str d.name, .atom (toString d.index), .atom (toString v)]
  | .label t => .list [.atom "label", encTarget t]
  | .jump t => .list [.atom "jump", encTarget t]
  | .jumpWhen t c => .list [.atom "jumpWhen", encTarget t, .str c.name, .atom (toString c.index)]
  | .jumpUnless t c => .list [.atom "jumpUnless", encTarget t, .str c.name, .atom (toString c.index)]
  | .halt => .list [.atom "halt"]
  | .other ev regs => .list [.atom "other", .str ev, .list (regs.map .str)]

def encRegion (r : String × Region) : Sexp :=
  .list [.atom "r", .str r.1, .str r.2.ty, .atom (toString r.2.len),
    match r.2.sharing with
    | none => .list [.atom "none"]
    | some s => .list [.atom "some", .str s]]

def encProgram (p : Program) : Sexp :=
  .list [.atom "prog", .list (.atom "regions" :: p.regions.map encRegion),
    .list (.atom "defs" :: p.defs.map .str), .list (.atom "body" :: p.body.map encInstr)]

def FUEL : Nat := 4000

def handle (inp out : Sexp) : CaseResult :=
  match inp with
  | .list [.atom "wrap", ps, .list [.atom "ref", .str cn, .atom ci], ts, .atom ns] =>
    match decProgram ps, ci.toNat?, decTarget ts, ns.toNat? with
    | some p, some ci, some t, some n =>
      let c : MemRef := ⟨cn, ci⟩
      let mOut := encProgram (wrapInLoop p c t n)
      let agree := mOut == out
      let premise := ci == 0 && labelFresh t p.body && counterFresh cn p.body
      let bodyFinishes := (iterTrace p.body c FUEL n (zeroMem.set c (Int.ofNat n)))
      match decProgram out with
      | none => { agree := false, specOk := false, nontrivial := false, tags := ["impl-output-undecodable"],
                  detail := s!"model={mOut} impl={out}" }
      | some o =>
        let st := structureOk p c n o
        -- behavioural clause: interpret the IMPLEMENTATION's body
        let (beh, btag) :=
          if n < 2 then (true, "n<2")
          else if !premise then (true, "premise-violated")
          else match bodyFinishes with
            | none => (true, "body-does-not-finish")
            | some T =>
              -- enough for every terminating wrapped run of the generated bodies (inner loops ≤ 3 rounds),
              -- small enough that a diverging output is diagnosed quickly
              match run o.body (min (FUEL * (n + 1)) (16 * (T.length + (n + 1) * (p.body.length + 4)) + 100)) 0 zeroMem [] with
              | .done mf tr =>
                (tr == .move c (Int.ofNat n) :: T && mf c == 0 &&
                  (!straightLine p.body ||
                    tr.filter (Instr.avoids cn) == repeatList p.body n),
                 "ran")
              | .halted _ => (false, "impl-halted")
              | .stuck _ => (false, "impl-stuck")
              | .outOfFuel _ => (false, "impl-out-of-fuel")
        let ntags := [s!"n{min n 7}", btag, s!"len{min p.body.length 12}",
          (if straightLine p.body then "straight" else "controlflow"),
          (match t with | .fixed _ => "target-fixed" | .placeholder _ => "target-placeholder"),
          (if ci == 0 then "idx0" else "idx-nonzero"),
          (if (lookupR cn p.regions).isSome then "counter-predeclared" else "counter-new"),
          s!"defs{min p.defs.length 6}", s!"regions{min p.regions.length 4}",
          -- Program::is_empty() holds although the program has definitions (len() ignores calibrations)
          (if p.regions.isEmpty && p.body.isEmpty && !p.defs.isEmpty && p.defs.all (fun d => d.startsWith "DEFCAL")
           then "calibrations-only-program" else "not-calibrations-only")]
          ++ (if !st then ["STRUCTURE-FAIL"] else [])
        { agree := agree, specOk := st && beh,
          nontrivial := n ≥ 2 && btag == "ran" && !p.body.isEmpty,
          tags := ntags, detail := s!"model={mOut} impl={out}" }
    | _, _, _, _ => .bad s!"undecodable input {inp}"
  | _ => .bad s!"undecodable input {inp}"

end QV.C33

def main : IO UInt32 := QV.runMain QV.C33.handle
