/-
C33 model: `Program::wrap_in_loop` (quil-rs/src/program/mod.rs:361-421) together with the part of
`Program::add_instruction` it relies on (mod.rs:229-302: a DECLARE goes to `memory_regions` with
IndexMap `insert` semantics, everything else that can be in a body is pushed on the body), and a
small-step interpreter for the classical control skeleton of Quil
(MOVE / SUB with literal operands, LABEL, JUMP, JUMP-WHEN, JUMP-UNLESS, HALT; every other
instruction is an opaque event).

Projection (done by the harness, see meta/C33.json): an instruction is
  `move d v`       MOVE d v          with an integer literal source
  `sub d v`        SUB d v           with an integer literal source
  `label/jump/jumpWhen/jumpUnless/halt`
  `other ev regs`  anything else; `ev` is its printed text, `regs` the memory regions it accesses
Label targets are `fixed name` or `placeholder k` (Arc identities numbered by first occurrence).
-/
namespace QV.C33

structure MemRef where
  name : String
  index : Nat
  deriving DecidableEq, Repr, Inhabited

inductive Target where
  | fixed (s : String)
  | placeholder (k : Nat)
  deriving DecidableEq, Repr, Inhabited

inductive Instr where
  | move (d : MemRef) (v : Int)
  | sub (d : MemRef) (v : Int)
  | label (t : Target)
  | jump (t : Target)
  | jumpWhen (t : Target) (c : MemRef)
  | jumpUnless (t : Target) (c : MemRef)
  | halt
  | other (ev : String) (regs : List String)
  deriving DecidableEq, Repr, Inhabited

/-- `MemoryRegion` as it is printed by DECLARE: scalar type, length, sharing clause (opaque). -/
structure Region where
  ty : String
  len : Nat
  sharing : Option String
  deriving DecidableEq, Repr, Inhabited

/-- The program as far as `wrap_in_loop` can tell its parts apart: `memory_regions`
(an IndexMap = ordered association list), all other definitions (calibrations, frames, waveforms,
gate definitions, circuits, extern pragmas: cloned untouched by
`clone_without_body_instructions`, mod.rs:212-224; kept opaque), and the body. -/
structure Program where
  regions : List (String × Region)
  defs : List String
  body : List Instr
  deriving DecidableEq, Repr, Inhabited

/-- `IndexMap::insert`: replace the value in place if the key exists, else append. -/
def insertRegion (k : String) (v : Region) : List (String × Region) → List (String × Region)
  | [] => [(k, v)]
  | (k', v') :: rest => if k' = k then (k', v) :: rest else (k', v') :: insertRegion k v rest

/-- What `wrap_in_loop` hands to `add_instructions`: body-kind instructions, or the DECLARE. -/
inductive Added where
  | declare (name : String) (r : Region)
  | instr (i : Instr)

/-- `Program::add_instruction` restricted to the instructions `wrap_in_loop` adds
(mod.rs:229-302). -/
def addInstruction (p : Program) : Added → Program
  | .declare name r => { p with regions := insertRegion name r p.regions }
  | .instr i => { p with body := p.body ++ [i] }

def addInstructions (p : Program) (is : List Added) : Program := is.foldl addInstruction p

/-- `clone_without_body_instructions` (mod.rs:212-224), minus the `used_qubits` cache (C10). -/
def cloneWithoutBody (p : Program) : Program := { p with body := [] }

/-- Declared length of the counter region: `loop_count_reference.index.saturating_add(1)` (u64). -/
def counterLen (c : MemRef) : Nat := min (c.index + 1) 18446744073709551615

/-- The instruction list built inside `wrap_in_loop` for `iterations ≥ 2` (mod.rs:381-416).
MOVE, SUB and JUMP-WHEN all use the caller's reference (since /repo 0cfdaad; before that fix SUB was
hard-coded to index 0 of the region, so a reference with a non-zero index never terminated). -/
def loopInstructions (body : List Instr) (c : MemRef) (t : Target) (n : Nat) : List Added :=
  [ .declare c.name { ty := "INTEGER", len := counterLen c, sharing := none },
    .instr (.move c (Int.ofNat n)),
    .instr (.label t) ]
  ++ body.map .instr
  ++ [ .instr (.sub c 1),
       .instr (.jumpWhen t c) ]

/-- `Program::wrap_in_loop` (mod.rs:361-421). -/
def wrapInLoop (p : Program) (c : MemRef) (t : Target) : Nat → Program
  | 0 => cloneWithoutBody p
  | 1 => p
  | n => addInstructions (cloneWithoutBody p) (loopInstructions p.body c t n)

/-! ## The classical control skeleton: small-step semantics -/

abbrev Mem := MemRef → Int

def Mem.set (m : Mem) (r : MemRef) (v : Int) : Mem := fun x => if x = r then v else m x

/-- index of the first `LABEL t` -/
def findLabel (t : Target) : List Instr → Option Nat
  | [] => none
  | i :: rest => if i = .label t then some 0 else (findLabel t rest).map (· + 1)

/-- Result of one step at a configuration `(pc, mem)`. -/
inductive Step where
  /-- continue at `pc` with `mem`; `ev` is the executed instruction if it is not control flow -/
  | next (pc : Nat) (mem : Mem) (ev : Option Instr)
  /-- pc ran past the last instruction: the program is finished -/
  | done
  /-- a HALT instruction was executed -/
  | haltInstr
  /-- jump to a target that has no LABEL -/
  | stuck

def jumpTo (P : List Instr) (t : Target) (m : Mem) : Step :=
  match findLabel t P with
  | some i => .next i m none
  | none => .stuck

/-- One step of the interpreter.  JUMP-WHEN jumps when the condition word is non-zero,
JUMP-UNLESS when it is zero; an `other` instruction is an event and leaves the modelled memory
alone (sound for the counter as long as the instruction does not access the counter region). -/
def step (P : List Instr) (pc : Nat) (m : Mem) : Step :=
  match P[pc]? with
  | none => .done
  | some (.move d v) => .next (pc + 1) (m.set d v) (some (.move d v))
  | some (.sub d v) => .next (pc + 1) (m.set d (m d - v)) (some (.sub d v))
  | some (.label _) => .next (pc + 1) m none
  | some (.jump t) => jumpTo P t m
  | some (.jumpWhen t c) => if m c ≠ 0 then jumpTo P t m else .next (pc + 1) m none
  | some (.jumpUnless t c) => if m c = 0 then jumpTo P t m else .next (pc + 1) m none
  | some .halt => .haltInstr
  | some (.other ev regs) => .next (pc + 1) m (some (.other ev regs))

inductive Outcome where
  | done (mem : Mem) (trace : List Instr)
  | halted (trace : List Instr)
  | stuck (trace : List Instr)
  | outOfFuel (trace : List Instr)

def consEv : Option Instr → List Instr → List Instr
  | none, tr => tr
  | some e, tr => tr ++ [e]

/-- Fuel-bounded execution; `tr` accumulates the events executed so far. -/
def run (P : List Instr) : Nat → Nat → Mem → List Instr → Outcome
  | 0, _, _, tr => .outOfFuel tr
  | fuel + 1, pc, m, tr =>
    match step P pc m with
    | .next pc' m' ev => run P fuel pc' m' (consEv ev tr)
    | .done => .done m tr
    | .haltInstr => .halted tr
    | .stuck => .stuck tr

def zeroMem : Mem := fun _ => 0

/-- `xs` repeated `n` times. -/
def repeatList (xs : List Instr) : Nat → List Instr
  | 0 => []
  | n + 1 => xs ++ repeatList xs n

/-! ## Decidable side conditions of the theorems -/

def Instr.isControl : Instr → Bool
  | .label _ | .jump _ | .jumpWhen _ _ | .jumpUnless _ _ | .halt => true
  | _ => false

/-- targets mentioned by an instruction (label or jump) -/
def Instr.targets : Instr → List Target
  | .label t | .jump t | .jumpWhen t _ | .jumpUnless t _ => [t]
  | _ => []

/-- the instruction neither reads nor writes region `r` -/
def Instr.avoids (r : String) : Instr → Bool
  | .move d _ | .sub d _ => d.name != r
  | .jumpWhen _ c | .jumpUnless _ c => c.name != r
  | .other _ regs => !regs.contains r
  | _ => true

def straightLine (body : List Instr) : Bool := body.all (fun i => !i.isControl)
def labelFresh (t : Target) (body : List Instr) : Bool := body.all (fun i => !i.targets.contains t)
def counterFresh (r : String) (body : List Instr) : Bool := body.all (Instr.avoids r)

end QV.C33
