import QV.Wire
import QV.C07.Model
/-! Driver side of the C07 correspondence check. -/
namespace QV.C07
open QV

def posOfName : String → Option Pos
  | "pragmaData" => some .pragmaData
  | "includeFile" => some .includeFile
  | "frameIdent" => some .frameIdent
  | "delayFrame" => some .delayFrame
  | "frameAttr" => some .frameAttr
  | _ => none

def placeOfName : String → Option Place
  | "top" => some .top
  | "defcal" => some .defcal
  | "defcalMeasure" => some .defcalMeasure
  | "defcircuit" => some .defcircuit
  | _ => none

private def strTags (s : String) : List String :=
  (if s.toList.contains '"' then ["quote"] else []) ++
  (if s.toList.contains '\\' then ["backslash"] else []) ++
  (if s.toList.contains '\n' then ["newline"] else []) ++
  (if s.toList.any (fun c => c.toNat > 127) then ["nonascii"] else []) ++
  [s!"len{min s.length 8}"]

private def special (s : String) : Bool := s.toList.contains '"' || s.toList.contains '\\'

private def posCase (pl pn : String) (s : String) (out : Sexp) : CaseResult :=
  match placeOfName pl, posOfName pn with
  | some place, some p =>
    let t := template place p
    let text := t.print s.toList
    let back := t.read text
    let mOut : Sexp := .list [.atom "printed", .str (String.ofList text),
      match back with
      | some b => .list [.atom "reparsed", .str (String.ofList b)]
      | none => .list [.atom "err"]]
    -- spec: the implementation re-parsed its own text to the original string
    let specOk := match out with
      | .list [.atom "printed", _, .list [.atom "reparsed", .str b]] => b == s
      | _ => false
    { agree := mOut == out, specOk := specOk, nontrivial := special s,
      tags := s!"pos-{pn}" :: s!"place-{pl}" :: strTags s, detail := s!"model={mOut} impl={out}" }
  | _, _ => .bad s!"unknown position {pl}/{pn}"

def handle (inp out : Sexp) : CaseResult :=
  match inp with
  | .list [.atom "lex", .str t] =>
    let m := lexString t.toList
    let mOut : Sexp := match m with
      | some (a, r) => .list [.atom "ok", .str (String.ofList a), .str (String.ofList r)]
      | none => .list [.atom "err"]
    { agree := mOut == out, specOk := true, nontrivial := special t,
      tags := "lex" :: (if m.isSome then "lex-ok" else "lex-err") :: strTags t,
      detail := s!"model={mOut} impl={out}" }
  | .list [.atom "quote", .str s] =>
    let mOut : Sexp := .list [.atom "str", .str (String.ofList (quote s.toList))]
    -- spec on the implementation's output: lexing it (with the model lexer, proved correct for
    -- `quote`) gives s back
    let specOk := match out with
      | .list [.atom "str", .str q] => lexString q.toList == some (s.toList, [])
      | _ => false
    { agree := mOut == out, specOk := specOk, nontrivial := special s,
      tags := "quote" :: strTags s, detail := s!"model={mOut} impl={out}" }
  | .list [.atom "pos", .atom pn, .str s] => posCase "top" pn s out
  | .list [.atom "placed", .atom pl, .atom pn, .str s] => posCase pl pn s out
  | .list [.atom "tmpl", .atom name, .str pre, .str post, .str s] =>
    -- template taken from the implementation's output for a sentinel string
    let t : Template := { pre := pre.toList, post := post.toList }
    let text := t.print s.toList
    let back := t.read text
    let mOut : Sexp := .list [.atom "printed", .str (String.ofList text),
      match back with
      | some b => .list [.atom "reparsed", .str (String.ofList b)]
      | none => .list [.atom "err"]]
    let specOk := match out with
      | .list [.atom "printed", _, .list [.atom "reparsed", .str b]] => b == s
      | _ => false
    { agree := mOut == out, specOk := specOk, nontrivial := special s,
      tags := s!"tmpl-{name}" :: strTags s, detail := s!"model={mOut} impl={out}" }
  | _ => .bad s!"undecodable input {inp}"

end QV.C07

def main : IO UInt32 := QV.runMain QV.C07.handle
