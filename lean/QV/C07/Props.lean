import QV.C07.Model
/-
C07 — Quoted strings survive printing and parsing unchanged.
Property theorems only (helper lemmas are local `private theorem`s up front and are
not weakened: every public statement quantifies over *all* `List Char`).
-/
namespace QV.C07

/-- intermediate string: every `\` doubled, quotes bare (what `replQ (escape s)` is) -/
def half : List Char → List Char
  | [] => []
  | c :: cs => if c = '\\' then '\\' :: '\\' :: half cs else c :: half cs

private theorem replQ_cons_ne (c : Char) (cs : List Char) (h : c ≠ '\\') :
    replQ (c :: cs) = c :: replQ cs := by
  cases cs with
  | nil => simp [replQ]
  | cons d ds => simp [replQ, h]

private theorem replB_cons_ne (c : Char) (cs : List Char) (h : c ≠ '\\') :
    replB (c :: cs) = c :: replB cs := by
  cases cs with
  | nil => simp [replB]
  | cons d ds => simp [replB, h]

private theorem escape_head (s : List Char) : (escape s).head? ≠ some '"' := by
  cases s with
  | nil => simp [escape]
  | cons c cs =>
    by_cases h1 : c = '"'
    · subst h1; simp [escape]
    · by_cases h2 : c = '\\'
      · subst h2; simp [escape]
      · simp [escape, h1, h2]

private theorem replQ_bs (t : List Char) (h : t.head? ≠ some '"') :
    replQ ('\\' :: t) = '\\' :: replQ t := by
  cases t with
  | nil => simp [replQ]
  | cons d ds =>
    have hd : d ≠ '"' := by simpa using h
    simp [replQ, hd]

theorem replQ_escape (s : List Char) : replQ (escape s) = half s := by
  induction s with
  | nil => simp [escape, replQ, half]
  | cons c cs ih =>
    by_cases h1 : c = '"'
    · subst h1; simp [escape, replQ, half, ih]
    · by_cases h2 : c = '\\'
      · subst h2
        have e : escape ('\\' :: cs) = '\\' :: '\\' :: escape cs := by simp [escape]
        have hh : half ('\\' :: cs) = '\\' :: '\\' :: half cs := by simp [half]
        rw [e, hh, replQ_bs _ (by simp), replQ_bs _ (escape_head cs), ih]
      · simp only [escape, half, h1, h2, if_false]
        rw [replQ_cons_ne _ _ h2, ih]

theorem replB_half (s : List Char) : replB (half s) = s := by
  induction s with
  | nil => simp [half, replB]
  | cons c cs ih =>
    by_cases h2 : c = '\\'
    · subst h2; simp [half, replB, ih]
    · simp only [half, h2, if_false]; rw [replB_cons_ne _ _ h2, ih]

/-- **C07 (a)**: un-escaping the escaped form gives the string back, for every string. -/
theorem unescape_escape (s : List Char) : unescape (escape s) = s := by
  simp [unescape, replQ_escape, replB_half]

/-- **C07 (b)**: scanning the escaped form followed by a closing quote stops exactly at that
quote, whatever follows. -/
theorem scan_escape (s rest : List Char) :
    scan false (escape s ++ '"' :: rest) = some (escape s, rest) := by
  induction s with
  | nil => simp [escape, scan]
  | cons c cs ih =>
    by_cases h1 : c = '"'
    · subst h1
      simp [escape, scan, ih]
    · by_cases h2 : c = '\\'
      · subst h2
        simp [escape, scan, ih]
      · simp [escape, scan, h1, h2, ih]

/-- **C07**: lexing the printer's quoted form of `s`, followed by anything, yields exactly `s`
and leaves exactly the rest — for all strings (any Unicode, newlines, `#`, `;`, quotes, backslashes). -/
theorem C07_lex_quote (s rest : List Char) : lexString (quote s ++ rest) = some (s, rest) := by
  simp [lexString, quote, surrounded, scan_escape, unescape_escape]

/-- **C07, for every template**: whatever fixed text surrounds the quoted string (any prefix, any
suffix — in particular the header and indentation of an enclosing DEFCAL / DEFCAL MEASURE /
DEFCIRCUIT body), the string is read back unchanged. -/
theorem C07_template (t : Template) (s : List Char) : t.read (t.print s) = some s := by
  have h : (t.print s).drop t.pre.length = quote s ++ t.post := by
    simp [Template.print]
  simp [Template.read, h, C07_lex_quote]

/-- **C07, per position and placement**. -/
theorem C07_position_placed (pl : Place) (p : Pos) (s : List Char) :
    (template pl p).read ((template pl p).print s) = some s := C07_template _ s

/-- **C07, per position** (top level). -/
theorem C07_position (p : Pos) (s : List Char) : readAt p (printAt p s) = some s :=
  C07_template _ s

/-- the printed form is injective: distinct strings never print alike -/
theorem C07_quote_injective (s t : List Char) (h : quote s = quote t) : s = t := by
  have h1 := C07_lex_quote s []
  have h2 := C07_lex_quote t []
  rw [h] at h1
  simp_all

/-- non-vacuity / sanity: a string made of the awkward characters round-trips by evaluation too -/
example : lexString (quote "a\"b\\\\\"\n# ;\\".toList ++ " tail".toList)
    = some ("a\"b\\\\\"\n# ;\\".toList, " tail".toList) := by decide

end QV.C07
