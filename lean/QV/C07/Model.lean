/-
C07 model: string quoting in the printer (`QuotedString`'s `Display`,
quil-rs/src/instruction/mod.rs) and the lexer's quoted-string parser
(`surrounded('"','"',true)` followed by two sequential `str::replace`s,
quil-rs/src/parser/lexer/quoted_strings.rs).  Strings are `List Char`.
-/
namespace QV.C07

/-- `QuotedString::fmt` without the surrounding quotes: `"` ↦ `\"`, `\` ↦ `\\`. -/
def escape : List Char → List Char
  | [] => []
  | c :: cs =>
    if c = '"' then '\\' :: '"' :: escape cs
    else if c = '\\' then '\\' :: '\\' :: escape cs
    else c :: escape cs

/-- `QuotedString::fmt`. -/
def quote (s : List Char) : List Char := '"' :: (escape s ++ ['"'])

/-- The `for (i, c) in iter` loop of `surrounded` with `allow_escaping = true`, after the opening
quote has been consumed: returns (inner, remaining) at the first unescaped `"`.
`esc` is the `is_escaped` flag. -/
def scan : Bool → List Char → Option (List Char × List Char)
  | _, [] => none
  | esc, c :: cs =>
    if c = '\\' then (scan (!esc) cs).map fun (a, r) => (c :: a, r)
    else if esc then (scan false cs).map fun (a, r) => (c :: a, r)
    else if c = '"' then some ([], cs)
    else (scan false cs).map fun (a, r) => (c :: a, r)

/-- `surrounded('"', '"', true)`. -/
def surrounded : List Char → Option (List Char × List Char)
  | [] => none
  | c :: cs => if c = '"' then scan false cs else none

/-- `str::replace("\\\"", "\"")`: non-overlapping, left to right. -/
def replQ : List Char → List Char
  | [] => []
  | [c] => [c]
  | c :: d :: cs =>
    if c = '\\' ∧ d = '"' then '"' :: replQ cs else c :: replQ (d :: cs)

/-- `str::replace("\\\\", "\\")`: non-overlapping, left to right. -/
def replB : List Char → List Char
  | [] => []
  | [c] => [c]
  | c :: d :: cs =>
    if c = '\\' ∧ d = '\\' then '\\' :: replB cs else c :: replB (d :: cs)

def unescape (s : List Char) : List Char := replB (replQ s)

/-- `unescaped_quoted_string`. -/
def lexString (inp : List Char) : Option (List Char × List Char) :=
  (surrounded inp).map fun (a, r) => (unescape a, r)

/-! String-bearing positions of a program, as the printer writes them. Each template is
`pre ++ quote s ++ post` for a fixed prefix and suffix; a position may be placed at top level or inside
the body of a DEFCAL, DEFCAL MEASURE or DEFCIRCUIT definition (the definition's header and the body
indentation then belong to the prefix, its trailing newline(s) to the suffix). -/

inductive Pos where
  | pragmaData        -- PRAGMA NAME "s"
  | includeFile       -- INCLUDE "s"
  | frameIdent        -- PULSE 0 "s" w   (frame identifier name)
  | delayFrame        -- DELAY 0 "s" 1
  | frameAttr         -- DEFFRAME 0 "f":\n    DIRECTION: "s"
  deriving DecidableEq, Repr

/-- Where the string-bearing instruction sits. -/
inductive Place where
  | top
  | defcal            -- DEFCAL X 0:\n    <instruction>
  | defcalMeasure     -- DEFCAL MEASURE 0 addr:\n\t<instruction>\n
  | defcircuit        -- DEFCIRCUIT C:\n    <instruction>\n
  deriving DecidableEq, Repr

def Pos.pre : Pos → List Char
  | .pragmaData => "PRAGMA NAME ".toList
  | .includeFile => "INCLUDE ".toList
  | .frameIdent => "PULSE 0 ".toList
  | .delayFrame => "DELAY 0 ".toList
  | .frameAttr => "DEFFRAME 0 \"f\":\n    DIRECTION: ".toList

def Pos.post : Pos → List Char
  | .pragmaData => []
  | .includeFile => []
  | .frameIdent => " w".toList
  | .delayFrame => " 1".toList
  | .frameAttr => []

def Place.pre : Place → List Char
  | .top => []
  | .defcal => "DEFCAL X 0:\n    ".toList
  | .defcalMeasure => "DEFCAL MEASURE 0 addr:\n\t".toList
  | .defcircuit => "DEFCIRCUIT C:\n    ".toList

def Place.post : Place → List Char
  | .top => []
  | .defcal => []
  | .defcalMeasure => "\n".toList
  | .defcircuit => "\n".toList

/-- A printing template: fixed text before and after the quoted string. -/
structure Template where
  pre : List Char
  post : List Char

def template (pl : Place) (p : Pos) : Template :=
  { pre := pl.pre ++ p.pre, post := p.post ++ pl.post }

/-- What the printer writes for a string `s` in template `t`. -/
def Template.print (t : Template) (s : List Char) : List Char := t.pre ++ quote s ++ t.post

/-- Read the string back: skip the fixed prefix, lex a string, require the fixed suffix. -/
def Template.read (t : Template) (text : List Char) : Option (List Char) :=
  match lexString (text.drop t.pre.length) with
  | some (s, rest) => if rest = t.post then some s else none
  | none => none

/-- What the printer writes for a program holding `s` at position `p` (top level). -/
def printAt (p : Pos) (s : List Char) : List Char := (template .top p).print s

def readAt (p : Pos) (text : List Char) : Option (List Char) := (template .top p).read text

end QV.C07
