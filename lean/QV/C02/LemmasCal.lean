import QV.C02.LemmasSubset
import QV.C02.LemmasDefs
/-!
C02 lemmas, part 9 (core Lean only): DEFCAL — a calibration definition whose body instructions each round-trip
(strongly: whatever follows their newline) round-trips at top level.
-/
namespace QV.C02
open QV QV.Tok QV.Ast QV.Parse QV.Print QV.ExprPrint QV.ExprRoundTrip

theorem canonInstrs_eq_map (l : List Instruction) : canonInstrs l = l.map canonInstr := by
  induction l with
  | nil => simp [canonInstrs]
  | cons i l ih => simp [canonInstrs, ih]

theorem parsedInstrs_eq_all (l : List Instruction) : parsedInstrs l = l.all parsedInstr := by
  induction l with
  | nil => simp [parsedInstrs]
  | cons i l ih => simp [parsedInstrs, ih]

theorem numTokInstrs_eq_all (F : NumFmt) (l : List Instruction) : numTokInstrs F l = l.all (numTokInstr F) := by
  induction l with
  | nil => simp [numTokInstrs]
  | cons i l ih => simp [numTokInstrs, ih]

/-- one instruction of a DEFCAL body: `"\n" INDENT instruction` -/
def calItemToks (F : NumFmt) (i : Instruction) : List Token := .newLine :: .indentation :: toks F i

theorem calBodyToks_eq (F : NumFmt) (body : List Instruction) :
    calBodyToks F body = body.flatMap (calItemToks F) := by
  induction body with
  | nil => rfl
  | cons i l ih => simp [calBodyToks, calItemToks, ih]

theorem lparen_qubits' (qs : List Qubit) (t : Token) (rest : List Token) (ht : t ≠ .lParenthesis) :
    tok .lParenthesis (qubitsToks qs ++ t :: rest) = .err := by
  cases qs with
  | nil => simp [qubitsToks, tok, ht]
  | cons q qs =>
    cases q with
    | fixed n => simp [qubitsToks, qubitToks, tok]
    | placeholder k => simp [qubitsToks, qubitToks, tok, phName]
    | «variable» s => simp [qubitsToks, qubitToks, tok, (nameTok_not_punct s).2.1]

theorem parseBlockInstruction_stop (pi : Parser Instruction) (rest : List Token) (hr : restOk rest = true) :
    parseBlockInstruction pi (.newLine :: rest) = .err := by
  cases rest with
  | nil => simp [parseBlockInstruction, preceded, Parser.bind, tok]
  | cons t r =>
    have : t ≠ .indentation := by intro h; subst h; simp [restOk, startTok] at hr
    simp [parseBlockInstruction, preceded, Parser.bind, tok, this]

theorem opt_measure_modifiers (ms : List GateModifier) (name : String) (r : List Token) :
    opt (tok (.command .measure)) (ms.map modifierTok ++ identTok name :: r) =
      .ok none (ms.map modifierTok ++ identTok name :: r) := by
  cases ms with
  | nil => simp [opt, tok, identTok]
  | cons m ms => cases m <;> simp [opt, tok, modifierTok]

theorem length_calBody_mem (F : NumFmt) (body : List Instruction) (i : Instruction) (hi : i ∈ body) :
    (toks F i).length + 2 ≤ (calBodyToks F body).length := by
  rw [calBodyToks_eq]
  have := length_flatMap_mem (calItemToks F) body i hi
  simp only [calItemToks, List.length_cons] at this
  omega

/-- the body of a definition reads back: `parse_block` on the printed body lines, followed by a newline that does
not continue the block, returns `body.map g` -/
def BlockRT (F : NumFmt) (d : Nat) (body : List Instruction) (g : Instruction → Instruction) : Prop :=
  ∀ rest, restOk rest = true →
    parseBlock (parseInstructionAt (d + 1)) (body.flatMap (calItemToks F) ++ .newLine :: rest) =
      .ok (body.map g) (.newLine :: rest)

theorem parseBlockInstruction_item (F : NumFmt) (d : Nat) (y : Instruction) (gy : Instruction)
    (h : ∀ rest, parseInstructionAt (d + 1) (toks F y ++ .newLine :: rest) = .ok gy (.newLine :: rest))
    (r : List Token) (hr : startsNL r = true) :
    parseBlockInstruction (parseInstructionAt (d + 1)) (calItemToks F y ++ r) = .ok gy r := by
  cases r with
  | nil => simp [startsNL] at hr
  | cons t r' =>
    cases t <;> simp [startsNL] at hr
    simp only [parseBlockInstruction, preceded, bind_eq, Parser.bind, calItemToks, List.cons_append, tok,
      if_true, h r', pure_eq, Parser.pure]

/-- every body instruction round-trips strongly (one-line kinds) -/
theorem blockRT_of_RT (F : NumFmt) (d : Nat) (body : List Instruction) (g : Instruction → Instruction)
    (hne : body ≠ []) (hbody : ∀ i ∈ body, RT F d i (g i)) : BlockRT F d body g := by
  intro rest hrest
  cases hb : body with
  | nil => exact absurd hb hne
  | cons b bs =>
    subst hb
    have hm := many1_items_ok (parseBlockInstruction (parseInstructionAt (d + 1))) (calItemToks F) g startsNL
      b bs (.newLine :: rest)
      (fun y hy r hr => parseBlockInstruction_item F d y (g y) (fun r' => (hbody y hy r').1) r hr)
      (fun y _ => by simp [calItemToks])
      (fun y _ r => by simp [calItemToks, startsNL]) rfl (parseBlockInstruction_stop _ rest hrest)
    simp only [parseBlock, List.flatMap_cons, List.append_assoc]
    exact hm

/-- the LAST body instruction may be a definition: it only needs the top-level round trip (what follows its
newline is the end of the enclosing block) -/
theorem blockRT_last (F : NumFmt) (d : Nat) (ls : List Instruction) (t : Instruction)
    (g : Instruction → Instruction) (hls : ∀ i ∈ ls, RT F d i (g i)) (ht : RTtop F d t (g t)) :
    BlockRT F d (ls ++ [t]) g := by
  intro rest hrest
  have hz : parseBlockInstruction (parseInstructionAt (d + 1)) (calItemToks F t ++ .newLine :: rest) =
      .ok (g t) (.newLine :: rest) := by
    simp only [parseBlockInstruction, preceded, bind_eq, Parser.bind, calItemToks, List.cons_append, tok,
      if_true, (ht rest hrest).1, pure_eq, Parser.pure]
  have hm := many1_items_last (parseBlockInstruction (parseInstructionAt (d + 1))) (calItemToks F) g startsNL
    ls t (.newLine :: rest)
    (fun y hy r hr => parseBlockInstruction_item F d y (g y) (fun r' => (hls y hy r').1) r hr)
    (fun y _ => by simp [calItemToks]) (by simp [calItemToks])
    (fun y r => by simp [calItemToks, startsNL]) hz (parseBlockInstruction_stop _ rest hrest)
  simp only [parseBlock]
  exact hm

theorem rt_calibrationDefinition_blk (F : NumFmt) (d : Nat) (id : CalibrationIdentifier)
    (body : List Instruction) (g : Instruction → Instruction)
    (hfin : id.parameters.all finiteLits = true) (hq : id.qubits.all noPlaceholder = true)
    (hn : id.parameters.all (numTokOk F) = true)
    (hbody : BlockRT F d body g)
    (hd : (toks F (.calibrationDefinition id body)).length ≤ d + 1) :
    RTtop F (d + 1) (.calibrationDefinition id body)
      (.calibrationDefinition { id with parameters := id.parameters.map norm } (body.map g)) := by
  obtain ⟨ms, name, ps, qs⟩ := id
  simp only at hfin hq hn
  have htoks : toks F (.calibrationDefinition ⟨ms, name, ps, qs⟩ body) =
      cmd .defCal :: (ms.map modifierTok ++ identTok name ::
        (paramsToks F ps ++ qubitsToks qs ++ .colon :: calBodyToks F body)) := by
    simp only [toks]
  apply rttop_of_command F (d + 1) _ _ .defCal _ htoks
  intro rest hrest
  have hlenp : ∀ e ∈ ps, (printTop F e).length < d + 1 + 1 := by
    intro e he
    have := length_paramsToks_ge F ps e he
    rw [htoks] at hd
    simp only [List.length_append, List.length_cons, List.length_map] at hd
    omega
  have hpe : ∀ x ∈ ps, ∀ r, endOk r = true →
      parseExpressionAt (d + 1 + 1) (printTop F x ++ r) = .ok (norm x) r := by
    intro x hx r hr
    exact parseExpressionAt_printTop F x (List.all_eq_true.mp hfin x hx) (List.all_eq_true.mp hn x hx) _ r
      (hlenp x hx) hr
  have hm := hbody rest hrest
  rw [calBodyToks_eq]
  simp only [parseCommand, parseDefcal, bind_eq, Parser.bind, List.append_assoc, List.cons_append,
    opt_measure_modifiers, parseDefcalGate, many0_modifiers]
  simp only [identTok, tokIdentifier, str_toList]
  rw [parseParameters_toks F norm _ ps _ hpe (lparen_qubits' qs .colon _ (by simp))]
  simp only [many0_parseQubit qs hq _ (show notQubit (.colon :: _) = true from rfl), tok, if_true]
  erw [hm]
  simp only [pure_eq, Parser.pure]

theorem rt_calibrationDefinition_norm (F : NumFmt) (d : Nat) (id : CalibrationIdentifier)
    (body : List Instruction) (g : Instruction → Instruction)
    (hfin : id.parameters.all finiteLits = true) (hq : id.qubits.all noPlaceholder = true)
    (hn : id.parameters.all (numTokOk F) = true) (hne : body ≠ [])
    (hbody : ∀ i ∈ body, RT F d i (g i))
    (hd : (toks F (.calibrationDefinition id body)).length ≤ d + 1) :
    RTtop F (d + 1) (.calibrationDefinition id body)
      (.calibrationDefinition { id with parameters := id.parameters.map norm } (body.map g)) :=
  rt_calibrationDefinition_blk F d id body g hfin hq hn (blockRT_of_RT F d body g hne hbody) hd

/-- DEFCAL whose body reads back (`BlockRT`) at every fuel sufficient for its instructions -/
theorem rt_cal_of_blk (F : NumFmt) (d : Nat) (id : CalibrationIdentifier) (body : List Instruction)
    (g : Instruction → Instruction)
    (hfin : id.parameters.all finiteLits = true) (hq : id.qubits.all noPlaceholder = true)
    (hn : id.parameters.all (numTokOk F) = true)
    (hbody : ∀ d', (∀ i ∈ body, (toks F i).length ≤ d') → BlockRT F d' body g)
    (hd : (toks F (.calibrationDefinition id body)).length ≤ d) :
    RTtop F d (.calibrationDefinition id body)
      (.calibrationDefinition { id with parameters := id.parameters.map norm } (body.map g)) := by
  cases d with
  | zero => simp [toks] at hd
  | succ d =>
    have hlen : ∀ i ∈ body, (toks F i).length ≤ d := by
      intro i hi
      have := length_calBody_mem F body i hi
      simp only [toks, List.length_append, List.length_cons, List.length_map] at hd
      omega
    exact rt_calibrationDefinition_blk F d id body g hfin hq hn (hbody d hlen) hd

/-- DEFCAL whose body instructions round-trip (to `g i`) at every sufficient fuel -/
theorem rt_cal_of (F : NumFmt) (d : Nat) (id : CalibrationIdentifier) (body : List Instruction)
    (g : Instruction → Instruction)
    (hfin : id.parameters.all finiteLits = true) (hq : id.qubits.all noPlaceholder = true)
    (hn : id.parameters.all (numTokOk F) = true) (hne : body ≠ [])
    (hbody : ∀ d', ∀ i ∈ body, (toks F i).length ≤ d' → RT F d' i (g i))
    (hd : (toks F (.calibrationDefinition id body)).length ≤ d) :
    RTtop F d (.calibrationDefinition id body)
      (.calibrationDefinition { id with parameters := id.parameters.map norm } (body.map g)) :=
  rt_cal_of_blk F d id body g hfin hq hn
    (fun d' hl => blockRT_of_RT F d' body g hne (fun i hi => hbody d' i hi (hl i hi))) hd

/-- DEFCAL with a `Parsed` body of one-line kinds -/
theorem rt_calibrationDefinition (F : NumFmt) (d : Nat) (id : CalibrationIdentifier) (body : List Instruction)
    (hp : parsedInstr (.calibrationDefinition id body) = true) (hk : body.all lineKind = true)
    (hn : numTokInstr F (.calibrationDefinition id body) = true)
    (hd : (toks F (.calibrationDefinition id body)).length ≤ d) :
    RTtop F d (.calibrationDefinition id body) (.calibrationDefinition id (body.map canonInstr)) := by
  simp only [parsedInstr, Bool.and_eq_true, Bool.not_eq_true', List.isEmpty_eq_false_iff, parsedInstrs_eq_all] at hp
  simp only [numTokInstr, Bool.and_eq_true, numTokInstrs_eq_all] at hn
  have hfin : id.parameters.all finiteLits = true := by
    rw [List.all_eq_true]
    intro e he
    exact finiteLits_parsedExpr e (List.all_eq_true.mp hp.1.1.1 e he)
  cases d with
  | zero => simp [toks] at hd
  | succ d =>
    have hlen : ∀ i ∈ body, (toks F i).length ≤ d := by
      intro i hi
      have := length_calBody_mem F body i hi
      simp only [toks, List.length_append, List.length_cons, List.length_map] at hd
      omega
    have := rt_calibrationDefinition_norm F d id body canonInstr hfin hp.1.1.2 hn.1 hp.1.2
      (fun i hi => rt_of_lineKind F d i (List.all_eq_true.mp hp.2 i hi) (List.all_eq_true.mp hk i hi)
        (List.all_eq_true.mp hn.2 i hi) (hlen i hi)) hd
    rw [map_norm_parsed _ hp.1.1.1] at this
    exact this

end QV.C02
