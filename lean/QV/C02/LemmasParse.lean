import QV.C02.Spec
/-!
C02 lemmas, part 2 (core Lean only): what the token-level parser model returns on printed pieces.
-/
namespace QV.C02
open QV QV.Tok QV.Ast QV.Parse QV.Print QV.ExprPrint

/-! ## the monad -/

@[simp] theorem bind_eq {α β : Type} (p : Parser α) (f : α → Parser β) : (p >>= f) = Parser.bind p f := rfl
@[simp] theorem pure_eq {α : Type} (a : α) : (Pure.pure a : Parser α) = Parser.pure a := rfl
@[simp] theorem seq_unit_eq {β : Type} (p : Parser Unit) (q : Parser β) :
    (do p; q) = Parser.bind p (fun _ => q) := rfl

@[simp] theorem str_toList (s : String) : Parse.str s.toList = s := by simp [Parse.str]

/-! ## `many0` over printed items -/

theorem length_flatMap_ge {α : Type} (enc : α → List Token) (xs : List α) (hne : ∀ x ∈ xs, enc x ≠ []) :
    xs.length ≤ (xs.flatMap enc).length := by
  induction xs with
  | nil => simp
  | cons x xs ih =>
    have h1 : 0 < (enc x).length := List.length_pos_iff.mpr (hne x (by simp))
    have h2 := ih (fun y hy => hne y (by simp [hy]))
    simp only [List.flatMap_cons, List.length_append, List.length_cons]
    omega

theorem many0Fuel_items {α : Type} (p : Parser α) (enc : α → List Token) (xs : List α) (rest : List Token)
    (hp : ∀ x ∈ xs, ∀ r, p (enc x ++ r) = .ok x r) (hne : ∀ x ∈ xs, enc x ≠ []) (hstop : p rest = .err)
    (k : Nat) (hk : xs.length < k) : many0Fuel p k (xs.flatMap enc ++ rest) = .ok xs rest := by
  induction xs generalizing k with
  | nil =>
    cases k with
    | zero => omega
    | succ k => simp [many0Fuel, hstop]
  | cons x xs ih =>
    cases k with
    | zero => omega
    | succ k =>
      have hx := hp x (by simp) (xs.flatMap enc ++ rest)
      have hlen : 0 < (enc x).length := List.length_pos_iff.mpr (hne x (by simp))
      simp only [List.flatMap_cons, List.append_assoc, many0Fuel, hx]
      have : ¬ ((xs.flatMap enc ++ rest).length == (enc x ++ (xs.flatMap enc ++ rest)).length) = true := by
        simp only [List.length_append, beq_iff_eq]; omega
      simp only [this, if_false]
      rw [ih (fun y hy => hp y (by simp [hy])) (fun y hy => hne y (by simp [hy])) k (by simp at hk; omega)]
      rfl

theorem many0_items {α : Type} (p : Parser α) (enc : α → List Token) (xs : List α) (rest : List Token)
    (hp : ∀ x ∈ xs, ∀ r, p (enc x ++ r) = .ok x r) (hne : ∀ x ∈ xs, enc x ≠ []) (hstop : p rest = .err) :
    many0 p (xs.flatMap enc ++ rest) = .ok xs rest := by
  unfold many0
  apply many0Fuel_items p enc xs rest hp hne hstop
  have := length_flatMap_ge enc xs hne
  simp only [List.length_append]; omega

/-! ## memory references, operands -/

@[simp] theorem parseMemoryReference_toks (r : MemRef) (rest : List Token) :
    parseMemoryReference (memRefToks r ++ rest) = .ok r rest := by
  simp [parseMemoryReference, memRefToks, identTok, Parser.bind, tokIdentifier, opt, delimited, tok,
    tokInteger, Parser.pure]

@[simp] theorem parseMemoryReference_toks' (r : MemRef) (rest : List Token) :
    parseMemoryReference (identTok r.name :: .lBracket :: .integer r.index :: .rBracket :: rest) = .ok r rest :=
  parseMemoryReference_toks r rest

theorem negBits_sub (b : Nat) (h1 : two63 ≤ b) (h2 : b < two64) : QV.DecF64.negBits (b - two63) = b := by
  unfold QV.DecF64.negBits
  have e1 : QV.DecF64.two63 = 9223372036854775808 := rfl
  have e2 : two63 = 9223372036854775808 := rfl
  have e3 : two64 = 18446744073709551616 := rfl
  rw [e1]; rw [e2] at h1 ⊢; rw [e3] at h2
  split <;> omega

theorem signedInteger_neg (v : Int) (h : i64Ok v = true) (hv : v < 0) :
    signedInteger true v.natAbs = some v := by
  simp only [i64Ok, Bool.and_eq_true, decide_eq_true_eq] at h
  unfold signedInteger
  have : v.natAbs ≤ 9223372036854775808 := by omega
  simp only [if_true, this]
  congr 1; omega

theorem signedInteger_pos (v : Int) (h : i64Ok v = true) (hv : ¬ v < 0) :
    signedInteger false v.toNat = some v := by
  simp only [i64Ok, Bool.and_eq_true, decide_eq_true_eq] at h
  unfold signedInteger
  have : v.toNat < 9223372036854775808 := by omega
  simp only [this, if_true]
  simp only [Bool.false_eq_true, if_false]
  congr 1; omega

theorem applySign_real (b : Nat) (h : realLitOk b = true) :
    (if fSign b = true then applySign true (b - two63) else applySign false b) = b := by
  simp only [realLitOk, Bool.and_eq_true, decide_eq_true_eq] at h
  unfold applySign fSign
  by_cases hs : two63 ≤ b
  · simp [hs, negBits_sub b hs h.1]
  · simp [hs]

theorem realLit_finite {b : Nat} (h : realLitOk b = true) :
    ¬ (b % two63 > infBits) ∧ ¬ (b % two63 = infBits) := by
  simp only [realLitOk, Bool.and_eq_true, decide_eq_true_eq] at h
  omega

@[simp] theorem parseArithmeticOperand_toks (src : ArithmeticOperand) (h : arithOperandOk src = true)
    (rest : List Token) : parseArithmeticOperand (arithOperandToks src ++ rest) = .ok src rest := by
  cases src with
  | literalInteger v =>
    simp only [arithOperandOk] at h
    unfold arithOperandToks intToks parseArithmeticOperand
    by_cases hv : v < 0
    · simp [hv, alt, optMinus, opt, tok, Parser.bind, Parser.pure, tokFloat, mapRes, pair, tokInteger,
        signedInteger_neg v h hv]
    · simp [hv, alt, optMinus, opt, tok, Parser.bind, Parser.pure, tokFloat, mapRes, pair, tokInteger,
        signedInteger_pos v h hv]
  | literalReal b =>
    simp only [arithOperandOk] at h
    have hf := realLit_finite h
    have ha := applySign_real b h
    unfold arithOperandToks realLitToks parseArithmeticOperand
    by_cases hs : fSign b = true
    · simp [hf.1, hf.2, hs, alt, optMinus, opt, tok, Parser.bind, Parser.pure, tokFloat] at ha ⊢
      exact ha
    · simp [hf.1, hf.2, hs, alt, optMinus, opt, tok, Parser.bind, Parser.pure, tokFloat] at ha ⊢
      exact ha
  | memoryReference r =>
    simp [arithOperandToks, parseArithmeticOperand, memRefToks, identTok, alt, optMinus, opt, tok, Parser.bind,
      Parser.pure, tokFloat, mapRes, pair, tokInteger, pmap, Outcome.map, parseMemoryReference, tokIdentifier,
      delimited]

end QV.C02
