import QV.C02.LemmasTop
import QV.C02.LemmasKinds2
/-!
# C02 — parsed programs print to text that re-parses to the same program

Statement (properties.jsonl): *If a text parses as a program P, then serializing P succeeds, the output parses
to a program equal to P, and serializing that program gives byte-identical text.  This holds for every
instruction kind, including definitions, calibrations, frames, waveforms and control flow.*

Everything here is at TOKEN level (`QV.Shared.Print`: the tokens the printed text lexes to; `QV.Shared.Parse`:
the token-level parser) and holds for programs of ANY size.

## The full statement (kept visible; NOT proved for all kinds, and FALSE of the code for three classes)

    theorem C02_full (is : List Instruction) (h : ∀ i ∈ is, parsedInstr i = true) (hF : NumTok hypothesis) :
      ∃ ts is', printProgramTokens F (build is).listing = .ok ts ∧ parseProgram ts = .ok is' [] ∧
        build is' ≈ build is ∧ printProgramTokens F (build is').listing = .ok ts

where `parsedInstr` ("Parsed", `QV.C02.Spec`) is the decidable predicate the parser's outputs satisfy and `≈`
is equality up to the order of waveform-invocation parameters (`canonInstr`).  It is false of the current
code for (see `docs/C02.md`, known findings): a RAW-CAPTURE into a region named `i` whose printed duration
ends in a number (`C02_counterexample_rawCapture`), a multi-line definition nested in a DEFCIRCUIT body
(`C02_counterexample_nestedCircuit`), and — for the used-qubit cache only — a redefined calibration.

## What is proved

`C02_roundtrip_partial`: the statement for every program whose instructions all satisfy the explicit
decidable predicate `provedKind` (22 of the 40 printable kinds: all classical instructions with literal
operands, DECLARE with SHARING/OFFSET, control flow, MEASURE, RESET, FENCE, PRAGMA (incl. EXTERN), INCLUDE,
HALT/NOP/WAIT), with `≈` being plain equality.  The remaining kinds are covered by the correspondence check
only (every accepted text is run through the real pipeline AND the model, which must agree).
-/
namespace QV.C02
open QV QV.Tok QV.Ast QV.Parse QV.Print QV.ExprPrint

/-- the per-kind round-trip lemmas, dispatched: every `Parsed` instruction of a proved kind round-trips to
itself at every depth budget -/
theorem rt_of_provedKind (F : NumFmt) (d : Nat) (i : Instruction) (hp : parsedInstr i = true)
    (hk : provedKind i = true) : RT F d i i := by
  cases i with
  | arithmetic a => exact rt_arithmetic F d a hp
  | binaryLogic a => exact rt_binaryLogic F d a hp
  | comparison a => exact rt_comparison F d a hp
  | convert a => exact rt_convert F d a
  | exchange a => exact rt_exchange F d a
  | move a => exact rt_move F d a hp
  | load a => exact rt_load F d a
  | store a => exact rt_store F d a hp
  | unaryLogic a => exact rt_unaryLogic F d a
  | halt => exact rt_halt F d
  | nop => exact rt_nop F d
  | wait => exact rt_wait F d
  | jump a => exact rt_jump F d a hp
  | jumpWhen a => exact rt_jumpWhen F d a hp
  | jumpUnless a => exact rt_jumpUnless F d a hp
  | label a => exact rt_label F d a hp
  | «include» a => exact rt_include F d a
  | declaration a => exact rt_declaration F d a
  | fence a => exact rt_fence F d a hp
  | reset a => exact rt_reset F d a hp
  | measurement a => exact rt_measurement F d a hp
  | pragma a => exact rt_pragma F d a
  | _ => simp [provedKind] at hk

end QV.C02
