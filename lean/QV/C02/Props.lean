import QV.C02.LemmasSubset3
import QV.Shared.RenderLemmas
/-!
# C02 — parsed programs print to text that re-parses to the same program

Statement (properties.jsonl): *If a text parses as a program P, then serializing P succeeds, the output parses
to a program equal to P, and serializing that program gives byte-identical text.  This holds for every
instruction kind, including definitions, calibrations, frames, waveforms and control flow.*

Everything here is at TOKEN level (`QV.Shared.Print`: the tokens the printed text lexes to; `QV.Shared.Parse`:
the token-level parser) and holds for programs of ANY size.

## The full statement (kept visible; NOT proved for all kinds, and FALSE of the code for three classes)

    theorem C02_full (is : List Instruction) (h : ∀ i ∈ is, parsedInstr i = true) (hF : NumTok hypothesis) :
      ∃ ts is', printProgramTokens F (build is).listing = .ok ts ∧ parseProgram ts = .ok is' [] ∧
        build is' ≈ build is ∧ printProgramTokens F (build is').listing = .ok ts

where `parsedInstr` ("Parsed", `QV.C02.Spec`) is the decidable predicate the parser's outputs satisfy and `≈`
is equality up to the order of waveform-invocation parameters (`canonInstr`).  It is false of the current
code for (see `docs/C02.md`, known findings): a RAW-CAPTURE into a region named `i` whose printed duration
ends in a number (`C02_counterexample_rawCapture`), a qubit variable named like a reserved word
(`C02_counterexample_keywordQubit`), and — for the used-qubit cache only — a redefined calibration.  (A
fourth class, definitions nested in DEFCIRCUIT bodies, was repaired in /repo by b8ed6d0:
`C02_regression_nestedCircuit`.)

## What is proved

`C02_roundtrip_partial`: the statement for every program whose instructions all satisfy the explicit
decidable predicate `provedKind` (`QV.C02.Spec`), which covers ALL 40 printable instruction kinds:

* the 34 one-line kinds (`lineKind`): all classical instructions with literal operands, DECLARE with
  SHARING/OFFSET, control flow, MEASURE, RESET, FENCE, PRAGMA (incl. EXTERN), INCLUDE, HALT/NOP/WAIT, gate
  applications with modifiers and expression parameters, SET-FREQUENCY, SHIFT-FREQUENCY, SET-PHASE, SHIFT-PHASE, SET-SCALE, SWAP-PHASES,
  DELAY with and without frame names, RAW-CAPTURE into a region not named `i`, CAPTURE and PULSE with waveform
  invocations, CALL where no real immediate is directly followed by an argument named `i`;
* DEFWAVEFORM, DEFFRAME (string and expression attributes);
* DEFGATE with all four specifications (MATRIX — empty rows included —, PERMUTATION, PAULI-SUM, SEQUENCE whose
  qubit variables are not reserved words);
* DEFCAL, DEFCAL MEASURE and DEFCIRCUIT whose body consists of one-line kinds and — as its LAST instruction only,
  which is the only place where the parser ever returns one: a nested definition swallows the rest of the
  enclosing body — possibly a definition among DEFWAVEFORM, DEFFRAME, DEFCAL with a body of one-line kinds
  (`bodyOk1`; round 4).  Deeper nesting and DEFCAL MEASURE / DEFCIRCUIT / DEFGATE inside a body are outside the
  proved subset; they are covered by the correspondence check.

`≈` is equality up to the order of waveform parameters (`mapProg canonInstr`).  The equality is that of the
instruction containers `Prog`; the used-qubit CACHE of the real `Program` is not part of `Prog` — for a
redefined DEFCAL it differs after the round trip (`C02_counterexample_redefinedCalibration`, known finding).
DEFCAL MEASURE, DEFCIRCUIT and DEFGATE print a trailing newline which the lexer merges with the program
writer's own newline (`collapseNL`); the proof goes through `lineToks` (`QV.C02.LemmasLines`).  Everything
outside `provedKind` is covered by the correspondence check (every accepted text is run through the real
pipeline AND the model, which must agree).
-/
namespace QV.C02
open QV QV.Tok QV.Ast QV.Parse QV.Print QV.ExprPrint

/-- **C02, proved part.**  For every list of `Parsed` instructions of the proved kinds — of any length, in any
order, with redefinitions — the program `P = build is` serializes without error to tokens that parse back to
a list `is'` such that `build is'` is `P` with every instruction in canonical form (`canonInstr`: the parameters of
a waveform invocation sorted by key — an `IndexMap`, which `Program ==` compares as a map, so this is the
reparsed program being EQUAL to `P`; for programs without CAPTURE / PULSE it is `P` itself,
`C02_roundtrip_exact`), and serializing THAT program gives the identical token list. -/
theorem C02_roundtrip_partial (F : NumFmt) (is : List Instruction)
    (hp : ∀ i ∈ is, parsedInstr i = true) (hk : ∀ i ∈ is, provedKind i = true)
    (hn : ∀ i ∈ is, numTokInstr F i = true) :
    ∃ ts, printProgramTokens F (build is).listing = .ok ts ∧
      ∃ is', parseProgram ts = .ok is' [] ∧ build is' = mapProg canonInstr (build is) ∧
        printProgramTokens F (build is').listing = .ok ts := by
  have hL : ∀ i ∈ (build is).listing, i ∈ is := fun i hi => mem_listing_build hi
  have herr : firstErrList (build is).listing = none :=
    firstErrList_none _ (fun i hi => firstErr_none_of_provedKind i (hp i (hL i hi)) (hk i (hL i hi)))
  have hblock : ∀ i ∈ (build is).listing, blockOk (stripNL (toks F i)) = true :=
    fun i hi => blockOk_lineToks F i (hp i (hL i hi)) (hk i (hL i hi)) (hn i (hL i hi))
  -- a definition's trailing newline and the program writer's newline are ONE token
  have hcollapse : collapseNL (programRaw F (build is).listing) = progOf (lineToks F) (build is).listing :=
    (collapse_progOf (toks F) _ hblock).1
  have hprint : printProgramTokens F (build is).listing = .ok (progOf (lineToks F) (build is).listing) := by
    simp [printProgramTokens, herr, hcollapse]
  have hbuild : build ((build is).listing.map canonInstr) = mapProg canonInstr (build is) := by
    rw [build_map canonInstr slotOf_canonInstr, build_listing_build]
  refine ⟨_, hprint, (build is).listing.map canonInstr, ?_, hbuild, ?_⟩
  · exact parseProgram_progOf (lineToks F) canonInstr (build is).listing
      (fun i hi => lineToks_head F i (hp i (hL i hi)) (hk i (hL i hi)) (hn i (hL i hi)))
      (fun i hi => rt_of_provedKind F _ i (hp i (hL i hi)) (hk i (hL i hi)) (hn i (hL i hi))
        (length_e_le_progOf (lineToks F) _ i hi))
  · rw [hbuild, listing_mapProg]
    have herr' : firstErrList ((build is).listing.map canonInstr) = none :=
      firstErrList_none _ (fun j hj => by
        obtain ⟨i, hi, rfl⟩ := List.mem_map.mp hj
        rw [firstErr_canonInstr'' i (hk i (hL i hi))]
        exact firstErr_none_of_provedKind i (hp i (hL i hi)) (hk i (hL i hi)))
    have hraw := programRaw_map_canon'' F (build is).listing (fun i hi => hp i (hL i hi)) (fun i hi => hk i (hL i hi))
    simp [printProgramTokens, herr', hraw, hcollapse]

/-- when no instruction is changed by canonicalisation (in particular: no CAPTURE / PULSE with unsorted
parameters), the reparsed list builds exactly the same program -/
theorem C02_roundtrip_exact (F : NumFmt) (is : List Instruction)
    (hp : ∀ i ∈ is, parsedInstr i = true) (hk : ∀ i ∈ is, provedKind i = true)
    (hn : ∀ i ∈ is, numTokInstr F i = true) (hc : ∀ i ∈ is, canonInstr i = i) :
    ∃ ts, printProgramTokens F (build is).listing = .ok ts ∧
      ∃ is', parseProgram ts = .ok is' [] ∧ build is' = build is ∧
        printProgramTokens F (build is').listing = .ok ts := by
  obtain ⟨ts, h1, is', h2, h3, h4⟩ := C02_roundtrip_partial F is hp hk hn
  exact ⟨ts, h1, is', h2, by rw [h3, mapProg_eq_self canonInstr is hc], h4⟩

/-- **C02 at TEXT level, for the canonical layout.**  Under the hypotheses of `C02_roundtrip_partial`, if the
printed tokens are spellable (`allTokOk`: identifiers valid and not reserved, integers `< 2^64`, no comments —
decidable) and the float spelling satisfies the NumTok hypothesis `FmtOk` (the spelling of a double lexes back to
the same bits), then the TEXT `render st ts` — the printed tokens laid out with a blank exactly where two tokens
would otherwise glue (bP1's `QV.Render`, the lexer model `QV.Lex.lex` on characters) — lexes to exactly the
printed tokens, which parse back to a list building the same program up to canonical form.  (quil-rs's own
text differs from this canonical layout by optional blanks only; that its text lexes to the same tokens is what
the correspondence observes through the real lexer on every case.) -/
theorem C02_roundtrip_text (st : QV.Render.Style) (F : NumFmt) (is : List Instruction)
    (hp : ∀ i ∈ is, parsedInstr i = true) (hk : ∀ i ∈ is, provedKind i = true)
    (hn : ∀ i ∈ is, numTokInstr F i = true) :
    ∃ ts, printProgramTokens F (build is).listing = .ok ts ∧
      (QV.Render.allTokOk ts = true → (∀ b, Token.float b ∈ ts → QV.Render.FmtOk st.fmt b) →
        QV.Lex.lex (QV.Render.render st ts) = some ts ∧
        ∃ is', parseProgram ts = .ok is' [] ∧ build is' = mapProg canonInstr (build is)) := by
  obtain ⟨ts, h1, is', h2, h3, _⟩ := C02_roundtrip_partial F is hp hk hn
  exact ⟨ts, h1, fun hall hfl => ⟨QV.Render.lex_render st ts hall hfl, is', h2, h3⟩⟩

/-- non-vacuity: a program with a redefinition, reordering, negative and real literal operands -/
example : ∃ ts, printProgramTokens stdFmt (build
      [.move ⟨⟨"ro", 0⟩, .literalReal 0x3FF0000000000000⟩,
       .declaration ⟨"ro", ⟨.bit, 1⟩, none⟩,
       .arithmetic ⟨.add, ⟨"a", 1⟩, .literalInteger (-2)⟩,
       .declaration ⟨"ro", ⟨.real, 2⟩, some ⟨"x", [⟨1, .bit⟩]⟩⟩,
       .measurement ⟨none, .fixed 0, some ⟨"ro", 0⟩⟩]).listing = .ok ts ∧
    ∃ is', parseProgram ts = .ok is' [] :=
  let ⟨ts, h1, is', h2, _⟩ := C02_roundtrip_partial stdFmt _ (by decide) (by decide) (by decide)
  ⟨ts, h1, is', h2⟩

/-- non-vacuity for the definition kinds: a DEFWAVEFORM with a parameter and two entries, a redefined DEFFRAME
with a string and an expression attribute -/
example : ∃ ts, printProgramTokens stdFmt (build
      [.frameDefinition ⟨⟨"xy", [.fixed 0]⟩, [("DIRECTION", .string "rx")]⟩,
       .waveformDefinition ⟨"w/a", ⟨[.var "t", .number ⟨0x3FF0000000000000, 0⟩], ["t"]⟩⟩,
       .frameDefinition ⟨⟨"xy", [.fixed 0]⟩,
         [("DIRECTION", .string "tx"), ("INITIAL-FREQUENCY", .expression (.number ⟨0x4000000000000000, 0⟩))]⟩,
       .nop]).listing = .ok ts ∧
    ∃ is', parseProgram ts = .ok is' [] :=
  let ⟨ts, h1, is', h2, _⟩ := C02_roundtrip_partial stdFmt _ (by decide) (by decide) (by decide)
  ⟨ts, h1, is', h2⟩

/-- non-vacuity for the kinds with bodies and for DEFGATE: DEFCAL (redefined), DEFCAL MEASURE, DEFCIRCUIT, and the
four DEFGATE specifications -/
example : ∃ ts, printProgramTokens stdFmt (build
      [.calibrationDefinition ⟨[], "X", [], [.fixed 0]⟩ [.gate ⟨"Y", [], [.fixed 5], []⟩, .nop],
       .measureCalibrationDefinition ⟨some "m", .variable "q", some "dest"⟩ [.wait, .nop],
       .circuitDefinition "C" ["a"] ["q", "r"] [.gate ⟨"RX", [.var "a"], [.variable "q"], []⟩, .halt],
       .gateDefinition ⟨"M", [], .matrix [[.number ⟨0, 0⟩, .pi], [.var "t", .number ⟨0x3FF0000000000000, 0⟩]]⟩,
       .gateDefinition ⟨"E", [], .matrix [[], [.pi], []]⟩,
       .gateDefinition ⟨"P", [], .permutation [0, 1, 3, 2]⟩,
       .gateDefinition ⟨"S", ["t"], .pauliSum ⟨["p", "q"], [⟨[(.x, "p"), (.z, "q")], .var "t"⟩]⟩⟩,
       .gateDefinition ⟨"Q", [], .sequence ⟨["a", "b"], [⟨"H", [], [.variable "a"], []⟩,
          ⟨"CNOT", [], [.variable "a", .variable "b"], []⟩]⟩⟩,
       .calibrationDefinition ⟨[], "X", [], [.fixed 0]⟩ [.gate ⟨"Y", [], [.fixed 6], []⟩]]).listing = .ok ts ∧
    ∃ is', parseProgram ts = .ok is' [] :=
  let ⟨ts, h1, is', h2, _⟩ := C02_roundtrip_partial stdFmt _ (by decide) (by decide) (by decide)
  ⟨ts, h1, is', h2⟩

/-- non-vacuity for definitions nested in bodies (round 4): the class repaired by b8ed6d0 (a DEFCAL at the end of a
DEFCIRCUIT body), a DEFFRAME at the end of a DEFCAL body after one-line instructions, a DEFWAVEFORM at the end of a
DEFCAL MEASURE body -/
example : ∃ ts, printProgramTokens stdFmt (build
      [.circuitDefinition "C" [] ["q"] [.nop, .calibrationDefinition ⟨[], "X", [], [.variable "q"]⟩ [.nop, .wait]],
       .calibrationDefinition ⟨[], "Y", [], [.fixed 0]⟩
         [.gate ⟨"Z", [], [.fixed 0], []⟩, .halt, .frameDefinition ⟨⟨"xy", [.fixed 0]⟩, [("DIRECTION", .string "tx")]⟩],
       .measureCalibrationDefinition ⟨none, .fixed 1, none⟩
         [.wait, .waveformDefinition ⟨"w", ⟨[.pi, .var "t"], ["t"]⟩⟩],
       .nop]).listing = .ok ts ∧
    ∃ is', parseProgram ts = .ok is' [] :=
  let ⟨ts, h1, is', h2, _⟩ := C02_roundtrip_partial stdFmt _ (by decide) (by decide) (by decide)
  ⟨ts, h1, is', h2⟩

/-! ## the three classes for which the full statement is false of the code (known findings)

Each witness is in the image of the parser (`…_parsed`: the tokens of the quoted text parse to it) and
satisfies `Parsed`; the tokens of its printed form do not parse back (`printsAndReparses = false`), resp. the
used-qubit cache of the reparsed program differs. -/

/-- `RAW-CAPTURE 0 "ro" (2) i[0]` -/
def rawCaptureWitness : Instruction :=
  .rawCapture ⟨true, ⟨"ro", [.fixed 0]⟩, .number ⟨0x4000000000000000, 0⟩, ⟨"i", 0⟩⟩

/-- `DEFCIRCUIT C q:\n    DEFCAL X q:\n    NOP\n    WAIT` -/
def nestedCircuitWitness : Instruction :=
  .circuitDefinition "C" [] ["q"] [.calibrationDefinition ⟨[], "X", [], [.variable "q"]⟩ [.nop, .wait]]

/-- `DEFCAL X 0:\n    Y 5\nDEFCAL X 0:\n    Y 6` -/
def redefinedCalibrationWitness : List Instruction :=
  [.calibrationDefinition ⟨[], "X", [], [.fixed 0]⟩ [.gate ⟨"Y", [], [.fixed 5], []⟩],
   .calibrationDefinition ⟨[], "X", [], [.fixed 0]⟩ [.gate ⟨"Y", [], [.fixed 6], []⟩]]

/-- `H %LT` -/
def keywordQubitWitness : Instruction := .gate ⟨"H", [], [.variable "LT"], []⟩

/-- does the listing print, and do the printed tokens parse? -/
def printsAndReparses (L : List Instruction) : Bool :=
  match printProgramTokens stdFmt L with
  | .ok ts => (parseProgram ts).isOk
  | .error _ => false

theorem rawCaptureWitness_parsed :
    (match parseProgram [.command .rawCapture, .integer 0, .string "ro".toList, .lParenthesis, .integer 2,
        .rParenthesis, .identifier "i".toList, .lBracket, .integer 0, .rBracket] with
      | .ok [.rawCapture r] [] =>
        decide (r = ⟨true, ⟨"ro", [.fixed 0]⟩, .number ⟨0x4000000000000000, 0⟩, ⟨"i", 0⟩⟩)
      | _ => false) = true := by decide

/-- known finding C02/raw-capture-region-named-i: the printed `RAW-CAPTURE 0 "ro" 2 i[0]` does not parse -/
theorem C02_counterexample_rawCapture :
    parsedInstr rawCaptureWitness = true ∧ printsAndReparses [rawCaptureWitness] = false := by
  decide

/-- FIXED by /repo b8ed6d0 (was the known finding C02/nested-definition-in-defcircuit: `CircuitDefinition::write`
re-indented every line of the nested DEFCAL, which then did not parse): the nested definition now prints and
re-parses — kept as a regression witness -/
theorem C02_regression_nestedCircuit :
    parsedInstr nestedCircuitWitness = true ∧ printsAndReparses [nestedCircuitWitness] = true := by
  decide

/-- known finding C02/reparsed-unequal-after-redefined-calibration: the text round-trips, but qubit 5 is in
the used-qubit cache of the parsed program and not in that of the reparsed one -/
theorem C02_counterexample_redefinedCalibration :
    printsAndReparses (build redefinedCalibrationWitness).listing = true ∧
      Qubit.fixed 5 ∈ usedQubits redefinedCalibrationWitness ∧
      Qubit.fixed 5 ∉ usedQubits (build redefinedCalibrationWitness).listing := by
  decide

/-- known finding C02/qubit-variable-named-like-keyword: `H %LT` parses to the witness, whose printed form
`H LT` (`LT` lexes as a command) does not parse -/
theorem C02_counterexample_keywordQubit :
    (match parseProgram [.identifier "H".toList, .variable "LT".toList] with
      | .ok [.gate g] [] => decide (g = ⟨"H", [], [.variable "LT"], []⟩)
      | _ => false) = true ∧ printsAndReparses [keywordQubitWitness] = false := by
  decide

end QV.C02
