import QV.Shared.Ast
import QV.Shared.Parse
import QV.Shared.ExprPrint
import QV.Shared.Print
import QV.C02.Model
/-
QV.C02.Spec — the vocabulary of the C02 statement (import-free apart from QV model files; used by the driver):

* `tokensOkB`     the lexer invariants the token-level theorems assume of the parser's INPUT
                  (evaluated by the driver on every accepted text);
* `parsedInstr`   "`Parsed`": a decidable predicate satisfied by every instruction the parser returns on such
                  tokens (evaluated by the driver on every accepted text; proved for the kinds listed in
                  `QV.C02.Props`), and sufficient for the round trip;
* `canonInstr`    the canonical form modulo which `Program == Program` compares instructions: waveform
                  invocation parameters are an `IndexMap` (order-insensitive `==`) that the printer writes
                  sorted by key;
* `provedKind`    the instruction kinds for which the round trip is PROVED (the rest is covered by the
                  correspondence only).
-/
namespace QV.C02
open QV QV.Tok QV.Ast QV.ExprPrint QV.Print

/-! ## lexer invariants -/

/-- bits of a finite, non-negative double (what `Token::Float` carries, lexer/mod.rs:383) -/
def finiteNonneg (b : Nat) : Bool := decide (b < infBits)

def identOk (s : List Char) : Bool := !s.isEmpty && !s.contains '/'

def tokenOk : Token → Bool
  | .float b => finiteNonneg b
  | .integer n => decide (n < two64)
  | .identifier s => identOk s
  | _ => true

def tokensOkB (ts : List Token) : Bool := ts.all tokenOk

/-! ## what the parser returns -/

/-- a literal as `parse_immediate_value` builds it: `real!(x)` or `imag!(x)`, `x` finite and non-negative -/
def parsedLit (z : CBits) : Bool :=
  (z.im == 0 && finiteNonneg z.re) || (z.re == 0 && finiteNonneg z.im)

/-- an expression as the parser builds it: no prefix plus, literals as above -/
def parsedExpr : PExpr → Bool
  | .call _ e => parsedExpr e
  | .bin l _ r => parsedExpr l && parsedExpr r
  | .number z => parsedLit z
  | .pre .plus _ => false
  | .pre .minus e => parsedExpr e
  | _ => true

/-- a qubit the parser returns AND whose printed form reads back: no placeholder, and a variable whose name
is not a reserved word (`%NOT` is accepted as a qubit variable but printed `NOT`: known finding
C02/qubit-variable-named-like-keyword) -/
def noPlaceholder : Qubit → Bool
  | .placeholder _ => false
  | .variable s => !isReservedWord s.toList
  | .fixed _ => true

def fixedTarget : Target → Bool
  | .fixed _ => true
  | _ => false

/-- `signed_integer` (common.rs:47) only returns values of an `i64` -/
def i64Ok (v : Int) : Bool := decide (-9223372036854775808 ≤ v) && decide (v < 9223372036854775808)

/-- a real literal operand: `sign * finite non-negative` -/
def realLitOk (b : Nat) : Bool := decide (b < two64) && decide (b % two63 < infBits)

def arithOperandOk : ArithmeticOperand → Bool
  | .literalInteger v => i64Ok v
  | .literalReal b => realLitOk b
  | .memoryReference _ => true

def compOperandOk : ComparisonOperand → Bool
  | .literalInteger v => i64Ok v
  | .literalReal b => realLitOk b
  | .memoryReference _ => true

def binOperandOk : BinaryOperand → Bool
  | .literalInteger v => i64Ok v
  | .memoryReference _ => true

/-- a raw name split at its first `/` -/
def splitAtSlash : List Char → List Char × Option (List Char)
  | [] => ([], none)
  | c :: cs => if c = '/' then ([], some cs) else ((splitAtSlash cs).1.cons c, (splitAtSlash cs).2)

/-- `name` or `name/extension` with slash-free, non-empty parts (`parse_waveform_name`) -/
def wfNameOk (s : String) : Bool :=
  match splitAtSlash s.toList with
  | (a, none) => !a.isEmpty
  | (a, some b) => !a.isEmpty && !b.isEmpty && !b.contains '/'

def distinctKeys {V : Type} (m : List (String × V)) : Bool := (m.map (·.1)).Nodup

def frameOk (f : FrameIdentifier) : Bool := !f.qubits.isEmpty && f.qubits.all noPlaceholder

def invocationOk (w : WaveformInvocation) : Bool :=
  wfNameOk w.name && distinctKeys w.parameters && w.parameters.all fun kv => parsedExpr kv.2

def gateOk (g : Gate) : Bool := g.parameters.all parsedExpr && g.qubits.all noPlaceholder

def attributeOk : AttributeValue → Bool
  | .string _ => true
  | .expression e => parsedExpr e

def pauliTermOk (args : List String) (t : PauliTerm) : Bool :=
  !t.arguments.isEmpty && parsedExpr t.expression && t.arguments.all fun ga => args.contains ga.2

def specOk : GateSpecification → Bool
  | .matrix rows => !rows.isEmpty && rows.all fun r => r.all parsedExpr
  | .permutation p => !p.isEmpty
  | .pauliSum s => !s.terms.isEmpty && s.terms.all (pauliTermOk s.arguments)
  | .sequence s =>
    !s.qubits.isEmpty && !s.gates.isEmpty && s.gates.all fun g =>
      g.parameters.all parsedExpr && g.qubits.all fun q =>
        match q with
        | .variable a => s.qubits.contains a
        | _ => false

/-- an immediate CALL argument as `parse_call_immediate` builds it: finite components of either sign, never
`-0.0` (negation is `0 - x`, and sums of zeros of mixed sign are `+0.0`) -/
def callArgOk : UnresolvedCallArgument → Bool
  | .immediate z => plainBits z.re && plainBits z.im
  | _ => true

mutual
/-- `Parsed`: satisfied by every instruction the parser returns (on tokens satisfying `tokensOkB`) -/
def parsedInstr : Instruction → Bool
  | .arithmetic a => arithOperandOk a.source
  | .binaryLogic b => binOperandOk b.source
  | .calibrationDefinition id body =>
    id.parameters.all parsedExpr && id.qubits.all noPlaceholder && !body.isEmpty && parsedInstrs body
  | .call c => c.arguments.all callArgOk
  | .capture c => frameOk c.frame && invocationOk c.waveform
  | .circuitDefinition _ _ qvs body =>
    qvs.all (fun s => !isReservedWord s.toList) && !body.isEmpty && parsedInstrs body
  | .comparison c => compOperandOk c.rhs
  | .delay d => parsedExpr d.duration && d.qubits.all noPlaceholder
  | .fence f => f.qubits.all noPlaceholder
  | .frameDefinition f =>
    frameOk f.identifier && !f.attributes.isEmpty && distinctKeys f.attributes &&
      f.attributes.all fun kv => attributeOk kv.2
  | .gate g => gateOk g
  | .gateDefinition g => specOk g.specification
  | .jump j => fixedTarget j.target
  | .jumpUnless j => fixedTarget j.target
  | .jumpWhen j => fixedTarget j.target
  | .label l => fixedTarget l.target
  | .measureCalibrationDefinition id body => noPlaceholder id.qubit && !body.isEmpty && parsedInstrs body
  | .measurement m => noPlaceholder m.qubit
  | .move m => arithOperandOk m.source
  | .pulse p => frameOk p.frame && invocationOk p.waveform
  | .rawCapture r => frameOk r.frame && parsedExpr r.duration
  | .reset r => (match r.qubit with | some q => noPlaceholder q | none => true)
  | .setFrequency s => frameOk s.frame && parsedExpr s.frequency
  | .setPhase s => frameOk s.frame && parsedExpr s.phase
  | .setScale s => frameOk s.frame && parsedExpr s.scale
  | .shiftFrequency s => frameOk s.frame && parsedExpr s.frequency
  | .shiftPhase s => frameOk s.frame && parsedExpr s.phase
  | .store s => arithOperandOk s.source
  | .swapPhases s => frameOk s.frame1 && frameOk s.frame2
  | .waveformDefinition w =>
    wfNameOk w.name && !w.definition.matrix.isEmpty && w.definition.matrix.all parsedExpr
  | _ => true
def parsedInstrs : List Instruction → Bool
  | [] => true
  | i :: rest => parsedInstr i && parsedInstrs rest
end

/-! ## the NumTok hypothesis, for every numeric leaf of an instruction -/

def numTokSpec (F : NumFmt) : GateSpecification → Bool
  | .matrix rows => rows.all fun r => r.all (numTokOk F)
  | .permutation _ => true
  | .pauliSum s => s.terms.all fun t => numTokOk F t.expression
  | .sequence s => s.gates.all fun g => g.parameters.all (numTokOk F)

/-- the extra NumTok fact DELAY needs: a purely imaginary literal is written with a `Float` token (the real
printer never trims the imaginary part: `FORMAT_IMAGINARY_OPTIONS`), so it cannot be taken for a qubit -/
def delayImagOk (F : NumFmt) : PExpr → Bool
  | .number z => !(fZero z.re && !fZero z.im) || (match F.imag (fAbs z.im) with | .float _ => true | _ => false)
  | _ => true

mutual
/-- every expression leaf (and every CALL immediate) of the instruction satisfies the NumTok hypothesis of
`QV.ExprPrint`: the token written for the magnitude of a literal denotes that magnitude bit for bit -/
def numTokInstr (F : NumFmt) : Instruction → Bool
  | .calibrationDefinition id body => id.parameters.all (numTokOk F) && numTokInstrs F body
  | .call c => c.arguments.all fun a => match a with | .immediate z => numTokOkAt F z | _ => true
  | .capture c => c.waveform.parameters.all fun kv => numTokOk F kv.2
  | .circuitDefinition _ _ _ body => numTokInstrs F body
  | .delay d => numTokOk F d.duration && delayImagOk F d.duration
  | .frameDefinition f =>
    f.attributes.all fun kv => match kv.2 with | .expression e => numTokOk F e | .string _ => true
  | .gate g => g.parameters.all (numTokOk F)
  | .gateDefinition g => numTokSpec F g.specification
  | .measureCalibrationDefinition _ body => numTokInstrs F body
  | .pulse p => p.waveform.parameters.all fun kv => numTokOk F kv.2
  | .rawCapture r => numTokOk F r.duration
  | .setFrequency s => numTokOk F s.frequency
  | .setPhase s => numTokOk F s.phase
  | .setScale s => numTokOk F s.scale
  | .shiftFrequency s => numTokOk F s.frequency
  | .shiftPhase s => numTokOk F s.phase
  | .waveformDefinition w => w.definition.matrix.all (numTokOk F)
  | _ => true
def numTokInstrs (F : NumFmt) : List Instruction → Bool
  | [] => true
  | i :: rest => numTokInstr F i && numTokInstrs F rest
end

/-! ## canonical form modulo `==` -/

def canonInvocation (w : WaveformInvocation) : WaveformInvocation := { w with parameters := sortKV w.parameters }

mutual
/-- waveform invocation parameters sorted by key, everywhere -/
def canonInstr : Instruction → Instruction
  | .capture c => .capture { c with waveform := canonInvocation c.waveform }
  | .pulse p => .pulse { p with waveform := canonInvocation p.waveform }
  | .calibrationDefinition id body => .calibrationDefinition id (canonInstrs body)
  | .measureCalibrationDefinition id body => .measureCalibrationDefinition id (canonInstrs body)
  | .circuitDefinition n ps qs body => .circuitDefinition n ps qs (canonInstrs body)
  | i => i
def canonInstrs : List Instruction → List Instruction
  | [] => []
  | i :: rest => canonInstr i :: canonInstrs rest
end

/-! ## CALL: no real immediate directly followed by an argument named `i` -/

/-- is the previous argument a real-valued immediate (printed ending in a number token)? -/
def isRealImm : Option UnresolvedCallArgument → Bool
  | some (.immediate p) => fZero p.im
  | _ => false

/-- an identifier / memory reference argument named `i` -/
def namedI : UnresolvedCallArgument → Bool
  | .identifier s => s == "i"
  | .memoryReference r => r.name == "i"
  | _ => false

/-- no real-valued immediate is directly followed by an argument named `i` (known finding
C02/number-then-name-i: `2.5 i` would be read back as `2.5i`) -/
def chainOk : Option UnresolvedCallArgument → List UnresolvedCallArgument → Bool
  | _, [] => true
  | prev, a :: rest => !(isRealImm prev && namedI a) && chainOk (some a) rest

/-! ## the proved subset -/

/-- the proved kinds that print on ONE line (everything but the six definition kinds) -/
def lineKind : Instruction → Bool
  | .arithmetic _ | .binaryLogic _ | .comparison _ | .convert _ | .exchange _ | .move _ | .load _
  | .store _ | .unaryLogic _ | .halt | .nop | .wait | .jump _ | .jumpWhen _ | .jumpUnless _ | .label _
  | .include _ | .declaration _ | .fence _ | .reset _ | .measurement _ | .pragma _ => true
  | .gate _ | .setFrequency _ | .setPhase _ | .setScale _ | .shiftFrequency _ | .shiftPhase _
  | .swapPhases _ | .delay _ | .capture _ | .pulse _ => true
  | .rawCapture r => r.memoryReference.name != "i"
  | .call c => chainOk none c.arguments
  | _ => false

/-- the definition kinds whose text does not end in a newline: DEFWAVEFORM, DEFFRAME, DEFCAL (with a body of
one-line kinds) -/
def defKind : Instruction → Bool
  | .waveformDefinition _ | .frameDefinition _ => true
  | .calibrationDefinition _ body => body.all lineKind
  | _ => false

/-- the kinds whose text is a block not ending in a newline -/
def blockKind (i : Instruction) : Bool := lineKind i || defKind i

/-- the DEFGATE specifications of the proved subset: all, except that in a SEQUENCE no qubit variable may be
named like a reserved word (known finding C02/qubit-variable-named-like-keyword) -/
def gateSpecKind : GateSpecification → Bool
  | .sequence s => s.gates.all fun g => g.qubits.all noPlaceholder
  | _ => true

/-- the bodies of the proved subset: one-line kinds, and — as the LAST instruction only — possibly a definition
of `defKind` (DEFWAVEFORM, DEFFRAME, DEFCAL with a body of one-line kinds).  (A definition in a body swallows
every following line of the enclosing body when the text is read back, so the parser never returns one anywhere
else.) -/
def bodyOk1 (body : List Instruction) : Bool :=
  body.dropLast.all lineKind &&
    (match body.getLast? with
     | some t => lineKind t || defKind t
     | none => true)

/-- the definition kinds handled through their line tokens: DEFCAL MEASURE, DEFCIRCUIT and DEFGATE (their text ends
in a newline, which the lexer merges with the program writer's own newline), and DEFCAL — all bodies `bodyOk1` -/
def nlKind : Instruction → Bool
  | .calibrationDefinition _ body => bodyOk1 body
  | .measureCalibrationDefinition _ body => bodyOk1 body
  | .circuitDefinition _ _ _ body => bodyOk1 body
  | .gateDefinition g => gateSpecKind g.specification
  | _ => false

/-- instruction kinds whose round trip is proved in `QV.C02.Props` (`C02_roundtrip_partial`): the 34 one-line
kinds, DEFWAVEFORM, DEFFRAME, DEFGATE (`gateSpecKind`), and DEFCAL / DEFCAL MEASURE / DEFCIRCUIT with a body of
one-line kinds possibly ending in a definition (`bodyOk1`) — all 40 kinds -/
def provedKind (i : Instruction) : Bool := blockKind i || nlKind i

end QV.C02
