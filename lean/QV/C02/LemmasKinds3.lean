import QV.C02.LemmasExpr
import QV.C02.LemmasKinds2
/-!
C02 lemmas, part 8 (core Lean only): frames, comma-separated expression lists, and the per-kind lemmas for the
frame instructions that end in an expression, SWAP-PHASES and gate applications.
-/
set_option maxRecDepth 2000
namespace QV.C02
open QV QV.Tok QV.Ast QV.Parse QV.Print QV.ExprPrint QV.ExprRoundTrip

/-! ## frames -/

theorem parseFrameIdentifier_toks (f : FrameIdentifier) (h : frameOk f = true) (rest : List Token) :
    parseFrameIdentifier (frameToks f ++ rest) = .ok f rest := by
  obtain ⟨name, qs⟩ := f
  simp only [frameOk, Bool.and_eq_true, Bool.not_eq_true', List.isEmpty_eq_false_iff] at h
  cases qs with
  | nil => simp at h
  | cons q qs =>
    have hall : ∀ y ∈ q :: qs, noPlaceholder y = true := fun y hy => List.all_eq_true.mp h.2 y hy
    have hm := many1_items parseQubit qubitToks q qs (strTok name :: rest)
      (fun y hy r => parseQubit_toks y (hall y hy) r) (fun y _ => qubitToks_ne_nil y)
      (parseQubit_stop _ rfl)
    simp only [parseFrameIdentifier, bind_eq, Parser.bind, frameToks, qubitsToks, List.flatMap_cons,
      List.append_assoc, List.singleton_append, hm]
    simp [tokString, strTok, Parser.pure]

/-! ## comma-separated expression lists -/

theorem sepBy_cons (sep : List Token) (x : List Token) (xs : List (List Token)) :
    sepBy sep (x :: xs) = x ++ xs.flatMap (fun y => sep ++ y) := by
  induction xs generalizing x with
  | nil => simp [sepBy]
  | cons y ys ih => simp [sepBy, ih]

/-- what may follow a comma-separated list: not a comma -/
def notComma : List Token → Bool
  | .comma :: _ => false
  | _ => true

theorem sepLoop_exprs (F : NumFmt) (g : PExpr → PExpr) (pe : Parser PExpr) (es : List PExpr) (rest : List Token)
    (hpe : ∀ e ∈ es, ∀ r, endOk r = true → pe (printTop F e ++ r) = .ok (g e) r)
    (hc : notComma rest = true) (he : endOk rest = true) (k : Nat) (hk : es.length < k) :
    sepLoopFuel (tok .comma) pe k (es.flatMap (fun e => [Token.comma] ++ printTop F e) ++ rest) =
      .ok (es.map g) rest := by
  induction es generalizing k with
  | nil =>
    cases k with
    | zero => omega
    | succ k =>
      cases rest with
      | nil => simp [sepLoopFuel, tok]
      | cons t r =>
        have : t ≠ .comma := by intro h; subst h; simp [notComma] at hc
        simp [sepLoopFuel, tok, this]
  | cons e es ih =>
    cases k with
    | zero => omega
    | succ k =>
      have hnext : endOk (es.flatMap (fun e => [Token.comma] ++ printTop F e) ++ rest) = true := by
        cases es with
        | nil => simpa using he
        | cons e' es' => simp [endOk]
      have h1 := hpe e (by simp) _ hnext
      have ih' := ih (fun e' he' => hpe e' (by simp [he'])) k (by simp at hk; omega)
      simp only [List.flatMap_cons, List.append_assoc, List.singleton_append, List.cons_append, List.nil_append]
        at h1 ih' ⊢
      simp only [sepLoopFuel, tok, if_true]
      simp only [List.length_cons, Nat.add_right_cancel_iff, beq_iff_eq]
      have hl : ¬ (printTop F e ++ (List.flatMap (fun e => Token.comma :: printTop F e) es ++ rest)).length =
          (printTop F e ++ (List.flatMap (fun e => Token.comma :: printTop F e) es ++ rest)).length + 1 := by omega
      simp only [hl, if_false, h1, ih', Outcome.map, List.map_cons]

theorem separatedList0_exprs (F : NumFmt) (g : PExpr → PExpr) (pe : Parser PExpr) (e : PExpr) (es : List PExpr)
    (rest : List Token)
    (hpe : ∀ x ∈ e :: es, ∀ r, endOk r = true → pe (printTop F x ++ r) = .ok (g x) r)
    (hc : notComma rest = true) (he : endOk rest = true) :
    separatedList0 (tok .comma) pe (sepBy [.comma] ((e :: es).map (printTop F)) ++ rest) =
      .ok ((e :: es).map g) rest := by
  have hnext : endOk (es.flatMap (fun e => [Token.comma] ++ printTop F e) ++ rest) = true := by
    cases es with
    | nil => simpa using he
    | cons e' es' => simp [endOk]
  have h1 := hpe e (by simp) _ hnext
  have hflat : (es.map (printTop F)).flatMap (fun y => [Token.comma] ++ y) =
      es.flatMap (fun e => [Token.comma] ++ printTop F e) := by
    simp [List.flatMap_map]
  simp only [List.map_cons, sepBy_cons, hflat, List.append_assoc, separatedList0, h1]
  rw [sepLoop_exprs F g pe es rest (fun x hx => hpe x (by simp [hx])) hc he]
  · rfl
  · have : es.length ≤ (es.flatMap (fun e => [Token.comma] ++ printTop F e)).length :=
      length_flatMap_ge _ es (fun _ _ => by simp)
    simp only [List.length_append]; omega

/-- the frame-then-expression instructions -/
theorem rt_frameExpr (F : NumFmt) (d : Nat) (c : Command) (mk : FrameIdentifier → PExpr → Instruction)
    (f : FrameIdentifier) (e : PExpr)
    (hparse : ∀ pe pi, parseCommand pe pi c = (do let fr ← parseFrameIdentifier; let x ← pe; pure (mk fr x)))
    (ht : toks F (mk f e) = cmd c :: (frameToks f ++ printTop F e))
    (hf : frameOk f = true) (he : finiteLits e = true) (hn : numTokOk F e = true)
    (hd : (toks F (mk f e)).length ≤ d) : RT F d (mk f e) (mk f (norm e)) := by
  apply rt_of_command F d _ _ c (frameToks f ++ printTop F e) ht
  intro rest
  have hlen : (printTop F e).length < d + 1 := by
    rw [ht] at hd; simp only [List.length_cons, List.length_append] at hd; omega
  have hx := parseExpressionAt_printTop F e he hn (d + 1) (.newLine :: rest) hlen rfl
  simp only [hparse, bind_eq, Parser.bind, List.append_assoc, parseFrameIdentifier_toks f hf, hx, pure_eq, Parser.pure]

/-- API form: any finite-literal expression, read back as its normal form -/
theorem rt_setFrequency_norm (F : NumFmt) (d : Nat) (f : FrameIdentifier) (e : PExpr) (hf : frameOk f = true)
    (he : finiteLits e = true) (hn : numTokOk F e = true) (hd : (toks F (.setFrequency ⟨f, e⟩)).length ≤ d) :
    RT F d (.setFrequency ⟨f, e⟩) (.setFrequency ⟨f, norm e⟩) :=
  rt_frameExpr F d .setFrequency (fun f e => .setFrequency ⟨f, e⟩) f e (fun _ _ => rfl) (by simp [toks]) hf he hn hd

theorem rt_setFrequency (F : NumFmt) (d : Nat) (s : SetFrequency) (hp : parsedInstr (.setFrequency s) = true)
    (hn : numTokInstr F (.setFrequency s) = true) (hd : (toks F (.setFrequency s)).length ≤ d) :
    RT F d (.setFrequency s) (.setFrequency s) := by
  obtain ⟨f, e⟩ := s
  simp only [parsedInstr, Bool.and_eq_true] at hp
  simp only [numTokInstr] at hn
  have := rt_setFrequency_norm F d f e hp.1 (finiteLits_parsedExpr e hp.2) hn hd
  rwa [norm_parsedExpr e hp.2] at this


/-- API form: any finite-literal expression, read back as its normal form -/
theorem rt_setPhase_norm (F : NumFmt) (d : Nat) (f : FrameIdentifier) (e : PExpr) (hf : frameOk f = true)
    (he : finiteLits e = true) (hn : numTokOk F e = true) (hd : (toks F (.setPhase ⟨f, e⟩)).length ≤ d) :
    RT F d (.setPhase ⟨f, e⟩) (.setPhase ⟨f, norm e⟩) :=
  rt_frameExpr F d .setPhase (fun f e => .setPhase ⟨f, e⟩) f e (fun _ _ => rfl) (by simp [toks]) hf he hn hd

theorem rt_setPhase (F : NumFmt) (d : Nat) (s : SetPhase) (hp : parsedInstr (.setPhase s) = true)
    (hn : numTokInstr F (.setPhase s) = true) (hd : (toks F (.setPhase s)).length ≤ d) :
    RT F d (.setPhase s) (.setPhase s) := by
  obtain ⟨f, e⟩ := s
  simp only [parsedInstr, Bool.and_eq_true] at hp
  simp only [numTokInstr] at hn
  have := rt_setPhase_norm F d f e hp.1 (finiteLits_parsedExpr e hp.2) hn hd
  rwa [norm_parsedExpr e hp.2] at this

/-- API form: any finite-literal expression, read back as its normal form -/
theorem rt_setScale_norm (F : NumFmt) (d : Nat) (f : FrameIdentifier) (e : PExpr) (hf : frameOk f = true)
    (he : finiteLits e = true) (hn : numTokOk F e = true) (hd : (toks F (.setScale ⟨f, e⟩)).length ≤ d) :
    RT F d (.setScale ⟨f, e⟩) (.setScale ⟨f, norm e⟩) :=
  rt_frameExpr F d .setScale (fun f e => .setScale ⟨f, e⟩) f e (fun _ _ => rfl) (by simp [toks]) hf he hn hd

theorem rt_setScale (F : NumFmt) (d : Nat) (s : SetScale) (hp : parsedInstr (.setScale s) = true)
    (hn : numTokInstr F (.setScale s) = true) (hd : (toks F (.setScale s)).length ≤ d) :
    RT F d (.setScale s) (.setScale s) := by
  obtain ⟨f, e⟩ := s
  simp only [parsedInstr, Bool.and_eq_true] at hp
  simp only [numTokInstr] at hn
  have := rt_setScale_norm F d f e hp.1 (finiteLits_parsedExpr e hp.2) hn hd
  rwa [norm_parsedExpr e hp.2] at this

/-- API form: any finite-literal expression, read back as its normal form -/
theorem rt_shiftFrequency_norm (F : NumFmt) (d : Nat) (f : FrameIdentifier) (e : PExpr) (hf : frameOk f = true)
    (he : finiteLits e = true) (hn : numTokOk F e = true) (hd : (toks F (.shiftFrequency ⟨f, e⟩)).length ≤ d) :
    RT F d (.shiftFrequency ⟨f, e⟩) (.shiftFrequency ⟨f, norm e⟩) :=
  rt_frameExpr F d .shiftFrequency (fun f e => .shiftFrequency ⟨f, e⟩) f e (fun _ _ => rfl) (by simp [toks]) hf he hn hd

theorem rt_shiftFrequency (F : NumFmt) (d : Nat) (s : ShiftFrequency) (hp : parsedInstr (.shiftFrequency s) = true)
    (hn : numTokInstr F (.shiftFrequency s) = true) (hd : (toks F (.shiftFrequency s)).length ≤ d) :
    RT F d (.shiftFrequency s) (.shiftFrequency s) := by
  obtain ⟨f, e⟩ := s
  simp only [parsedInstr, Bool.and_eq_true] at hp
  simp only [numTokInstr] at hn
  have := rt_shiftFrequency_norm F d f e hp.1 (finiteLits_parsedExpr e hp.2) hn hd
  rwa [norm_parsedExpr e hp.2] at this

/-- API form: any finite-literal expression, read back as its normal form -/
theorem rt_shiftPhase_norm (F : NumFmt) (d : Nat) (f : FrameIdentifier) (e : PExpr) (hf : frameOk f = true)
    (he : finiteLits e = true) (hn : numTokOk F e = true) (hd : (toks F (.shiftPhase ⟨f, e⟩)).length ≤ d) :
    RT F d (.shiftPhase ⟨f, e⟩) (.shiftPhase ⟨f, norm e⟩) :=
  rt_frameExpr F d .shiftPhase (fun f e => .shiftPhase ⟨f, e⟩) f e (fun _ _ => rfl) (by simp [toks]) hf he hn hd

theorem rt_shiftPhase (F : NumFmt) (d : Nat) (s : ShiftPhase) (hp : parsedInstr (.shiftPhase s) = true)
    (hn : numTokInstr F (.shiftPhase s) = true) (hd : (toks F (.shiftPhase s)).length ≤ d) :
    RT F d (.shiftPhase s) (.shiftPhase s) := by
  obtain ⟨f, e⟩ := s
  simp only [parsedInstr, Bool.and_eq_true] at hp
  simp only [numTokInstr] at hn
  have := rt_shiftPhase_norm F d f e hp.1 (finiteLits_parsedExpr e hp.2) hn hd
  rwa [norm_parsedExpr e hp.2] at this

theorem rt_swapPhases (F : NumFmt) (d : Nat) (s : SwapPhases) (hp : parsedInstr (.swapPhases s) = true) :
    RT F d (.swapPhases s) (.swapPhases s) := by
  obtain ⟨f1, f2⟩ := s
  simp only [parsedInstr, Bool.and_eq_true] at hp
  apply rt_of_command F d _ _ .swapPhases (frameToks f1 ++ frameToks f2) (by simp [toks])
  intro rest
  simp only [parseCommand, parseSwapPhases, bind_eq, Parser.bind, List.append_assoc,
    parseFrameIdentifier_toks f1 hp.1, parseFrameIdentifier_toks f2 hp.2, pure_eq, Parser.pure]

/-! ## gate applications -/

theorem body_gate (pe : Parser PExpr) (pi : Parser Instruction) (t : Token) (r : List Token)
    (ht : (∃ s, t = .identifier s) ∨ (∃ m, t = .modifier m)) :
    parseInstructionBody pe pi (t :: r) = parseGate pe (t :: r) ∧
      parseInstructionBody pe pi (.newLine :: t :: r) = parseGate pe (t :: r) := by
  rcases ht with ⟨s, rfl⟩ | ⟨m, rfl⟩
  · exact ⟨by simp [parseInstructionBody, skip_start _ _ (show startTok (.identifier s) = true from rfl)],
      by simp [parseInstructionBody, skip_newLine_start _ _ (show startTok (.identifier s) = true from rfl)]⟩
  · exact ⟨by simp [parseInstructionBody, skip_start _ _ (show startTok (.modifier m) = true from rfl)],
      by simp [parseInstructionBody, skip_newLine_start _ _ (show startTok (.modifier m) = true from rfl)]⟩

theorem parseGateModifier_toks (m : GateModifier) (r : List Token) :
    parseGateModifier ([modifierTok m] ++ r) = .ok m r := by
  cases m <;> simp [parseGateModifier, modifierTok, tokModifier, Parser.bind, Parser.pure]

theorem many0_modifiers (ms : List GateModifier) (name : String) (r : List Token) :
    many0 parseGateModifier (ms.map modifierTok ++ identTok name :: r) = .ok ms (identTok name :: r) := by
  have hflat : ms.flatMap (fun m => [modifierTok m]) = ms.map modifierTok := by
    induction ms with
    | nil => rfl
    | cons x xs ih => simp [List.flatMap_cons, ih]
  rw [← hflat]
  exact many0_items parseGateModifier (fun m => [modifierTok m]) ms _ (fun m _ r => parseGateModifier_toks m r)
    (fun _ _ => by simp) (by simp [parseGateModifier, identTok, tokModifier, Parser.bind])

theorem lparen_qubits (qs : List Qubit) (rest : List Token) :
    tok .lParenthesis (qubitsToks qs ++ .newLine :: rest) = .err := by
  cases qs with
  | nil => simp [qubitsToks, tok]
  | cons q qs =>
    cases q with
    | fixed n => simp [qubitsToks, qubitToks, tok]
    | placeholder k => simp [qubitsToks, qubitToks, tok, phName]
    | «variable» s => simp [qubitsToks, qubitToks, tok, (nameTok_not_punct s).2.1]

/-- `parse_parameters` (the optional parenthesised expression list) on a printed parameter list followed by
something that is not an opening parenthesis -/
theorem parseParameters_toks (F : NumFmt) (g : PExpr → PExpr) (pe : Parser PExpr) (ps : List PExpr)
    (rest : List Token)
    (hpe : ∀ x ∈ ps, ∀ r, endOk r = true → pe (printTop F x ++ r) = .ok (g x) r)
    (hrest : tok .lParenthesis rest = .err) :
    parseParameters pe (paramsToks F ps ++ rest) = .ok (ps.map g) rest := by
  cases ps with
  | nil => simp [parseParameters, paramsToks, opt, delimited, Parser.bind, hrest, Parser.pure]
  | cons e es =>
    have hs := separatedList0_exprs F g pe e es (.rParenthesis :: rest) hpe rfl rfl
    simp only [List.map_cons] at hs
    simp only [parseParameters, paramsToks, List.isEmpty_cons, Bool.false_eq_true, if_false, bind_eq, Parser.bind,
      opt, delimited, List.cons_append, List.append_assoc, List.singleton_append, pure_eq,
      Parser.pure]
    simp only [tok, if_true]
    erw [hs]
    simp

theorem length_sepBy_ge (sep : List Token) (x : List Token) (xs : List (List Token)) (hx : x ∈ xs) :
    x.length ≤ (sepBy sep xs).length := by
  induction xs with
  | nil => simp at hx
  | cons y ys ih =>
    cases ys with
    | nil => simp at hx; subst hx; simp [sepBy]
    | cons z zs =>
      simp only [sepBy, List.length_append]
      simp only [List.mem_cons] at hx
      rcases hx with rfl | hx
      · omega
      · have := ih (by simpa using hx)
        omega

theorem length_paramsToks_ge (F : NumFmt) (ps : List PExpr) (e : PExpr) (he : e ∈ ps) :
    (printTop F e).length < (paramsToks F ps).length := by
  cases ps with
  | nil => simp at he
  | cons p ps =>
    have := length_sepBy_ge [.comma] (printTop F e) ((p :: ps).map (printTop F)) (List.mem_map_of_mem he)
    simp only [paramsToks, List.isEmpty_cons, Bool.false_eq_true, if_false, List.length_cons, List.length_append,
      List.length_nil]
    omega

/-- API form: parameters with finite literals are read back as their normal forms -/
theorem rt_gate_norm (F : NumFmt) (d : Nat) (g : Gate) (hfin : g.parameters.all finiteLits = true)
    (hq : g.qubits.all noPlaceholder = true) (hn : g.parameters.all (numTokOk F) = true)
    (hd : (toks F (.gate g)).length ≤ d) :
    RT F d (.gate g) (.gate { g with parameters := g.parameters.map norm }) := by
  obtain ⟨name, ps, qs, ms⟩ := g
  have hlenp : ∀ e ∈ ps, (printTop F e).length < d + 1 := by
    intro e he
    have := length_paramsToks_ge F ps e he
    simp only [toks, gateToks, List.length_append, List.length_cons, List.length_map] at hd
    omega
  have hpe : ∀ x ∈ ps, ∀ r, endOk r = true →
      parseExpressionAt (d + 1) (printTop F x ++ r) = .ok (norm x) r := by
    intro x hx r hr
    exact parseExpressionAt_printTop F x (List.all_eq_true.mp hfin x hx) (List.all_eq_true.mp hn x hx) (d + 1) r
      (hlenp x hx) hr
  have hgate : ∀ rest, parseGate (parseExpressionAt (d + 1))
      (ms.map modifierTok ++ identTok name :: (paramsToks F ps ++ (qubitsToks qs ++ .newLine :: rest))) =
        .ok (.gate ⟨name, ps.map norm, qs, ms⟩) (.newLine :: rest) := by
    intro rest
    simp only [parseGate, bind_eq, Parser.bind, many0_modifiers]
    simp only [identTok, tokIdentifier, str_toList,
      parseParameters_toks F norm _ ps _ hpe (lparen_qubits qs rest),
      many0_parseQubit qs hq _ (show notQubit (.newLine :: rest) = true from rfl), pure_eq, Parser.pure]
  intro rest
  have htoks : toks F (.gate ⟨name, ps, qs, ms⟩) ++ .newLine :: rest =
      ms.map modifierTok ++ identTok name :: (paramsToks F ps ++ (qubitsToks qs ++ .newLine :: rest)) := by
    simp [toks, gateToks]
  rw [htoks]
  simp only [parseInstructionAt]
  cases ms with
  | nil =>
    have hb := body_gate (parseExpressionAt (d + 1)) (parseInstructionAt d) (identTok name)
      (paramsToks F ps ++ (qubitsToks qs ++ .newLine :: rest)) (Or.inl ⟨_, rfl⟩)
    have hg := hgate rest
    simp only [List.map_nil, List.nil_append] at hg ⊢
    exact ⟨hb.1.trans hg, hb.2.trans hg⟩
  | cons m ms =>
    have hb := body_gate (parseExpressionAt (d + 1)) (parseInstructionAt d) (modifierTok m)
      (ms.map modifierTok ++ identTok name :: (paramsToks F ps ++ (qubitsToks qs ++ .newLine :: rest)))
      (Or.inr (by cases m <;> exact ⟨_, rfl⟩))
    have hg := hgate rest
    simp only [List.map_cons, List.cons_append] at hg ⊢
    exact ⟨hb.1.trans hg, hb.2.trans hg⟩

theorem map_norm_parsed (ps : List PExpr) (h : ps.all parsedExpr = true) : ps.map norm = ps := by
  induction ps with
  | nil => rfl
  | cons e es ih =>
    simp only [List.all_cons, Bool.and_eq_true] at h
    simp [norm_parsedExpr e h.1, ih h.2]

theorem rt_gate (F : NumFmt) (d : Nat) (g : Gate) (hp : parsedInstr (.gate g) = true)
    (hn : numTokInstr F (.gate g) = true) (hd : (toks F (.gate g)).length ≤ d) : RT F d (.gate g) (.gate g) := by
  simp only [parsedInstr, gateOk, Bool.and_eq_true] at hp
  simp only [numTokInstr] at hn
  have hfin : g.parameters.all finiteLits = true := by
    rw [List.all_eq_true]
    intro e he
    exact finiteLits_parsedExpr e (List.all_eq_true.mp hp.1 e he)
  have := rt_gate_norm F d g hfin hp.2 hn hd
  rwa [map_norm_parsed _ hp.1] at this

end QV.C02
