import QV.Shared.Ast
import QV.Shared.Parse
import QV.Shared.Print
/-
QV.C02.Model — `Program` as a container of AST instructions (import-free apart from QV model files).

`QV.Shared.Program` models the same container over PROJECTED instructions (kind, key, identity); C02 / C04
need the instructions themselves (they are printed and re-parsed), so the routing of
`Program::add_instruction` (program/mod.rs:233-306) is restated here over `QV.Ast.Instruction`, with the key
of every definition container as data (`Slot`):

  extern pragma map   IndexMap<Option<String>, Pragma>      key = first argument if it is an identifier (extern_call.rs:338)
  memory_regions      IndexMap<String, MemoryRegion>        key = region name
  frames              IndexMap<FrameIdentifier, attributes> key = the frame identifier
  waveforms           IndexMap<String, Waveform>            key = waveform name
  calibrations        CalibrationSet (Vec, `replace`)       key = the whole CalibrationIdentifier (its signature)
  measure calibrations                                      key = the whole MeasureCalibrationIdentifier
  gate_definitions    IndexMap<String, GateDefinition>      key = gate name
  circuits            IndexMap<String, CircuitDefinition>   key = circuit name
  instructions        Vec                                   everything else, in order

`IndexMap::insert` / `CalibrationSet::replace` = `upsert` (replace the first element with an equal key in
place, else append); `to_instructions` (program/mod.rs:441) = `listing`.  Keys are compared structurally
(bit patterns for numbers); quil-rs compares numbers inside calibration identifiers with an equality that
identifies `+0.0`/`-0.0` — the parser only produces non-negative finite literals, for which the two agree.
-/
namespace QV.C02
open QV QV.Tok QV.Ast

inductive Slot where
  | extern (name : Option String)
  | decl (name : String)
  | frame (f : FrameIdentifier)
  | waveform (name : String)
  | cal (id : CalibrationIdentifier)
  | mcal (id : MeasureCalibrationIdentifier)
  | gateDef (name : String)
  | circuit (name : String)
  | body
  deriving DecidableEq, Repr

/-- which arm of `Program::add_instruction` an instruction takes, with its key -/
def slotOf : Instruction → Slot
  | .calibrationDefinition id _ => .cal id
  | .circuitDefinition name _ _ _ => .circuit name
  | .frameDefinition f => .frame f.identifier
  | .declaration d => .decl d.name
  | .gateDefinition g => .gateDef g.name
  | .measureCalibrationDefinition id _ => .mcal id
  | .waveformDefinition w => .waveform w.name
  | .pragma p =>
    if p.name = "EXTERN" then
      .extern (match p.arguments with
        | .identifier n :: _ => some n
        | _ => none)
    else .body
  | _ => .body

/-- position of a container in `to_instructions` -/
def Slot.rank : Slot → Nat
  | .extern _ => 0 | .decl _ => 1 | .frame _ => 2 | .waveform _ => 3 | .cal _ => 4 | .mcal _ => 5
  | .gateDef _ => 6 | .circuit _ => 7 | .body => 8

/-- `IndexMap::insert` / `CalibrationSet::replace` -/
def upsert : List Instruction → Instruction → List Instruction
  | [], i => [i]
  | x :: xs, i => if slotOf x = slotOf i then i :: xs else x :: upsert xs i

/-- the nine containers of a `Program`, indexed by `Slot.rank` (0 extern pragmas, 1 memory regions, 2 frames,
3 waveforms, 4 calibrations, 5 measure calibrations, 6 gate definitions, 7 circuits, 8 body) -/
def Prog : Type := Nat → List Instruction

/-- `Program::new()` -/
def Prog.empty : Prog := fun _ => []

/-- what `add_instruction` does to the container an instruction is routed to: `push` for the body,
`IndexMap::insert` / `CalibrationSet::replace` for a definition container -/
def addAt (r : Nat) (l : List Instruction) (i : Instruction) : List Instruction :=
  if r = 8 then l ++ [i] else upsert l i

/-- `Program::add_instruction` (without the used-qubit cache, see `usedQubits`) -/
def Prog.add (p : Prog) (i : Instruction) : Prog :=
  fun r => if r = (slotOf i).rank then addAt r (p r) i else p r

/-- `Program::from_instructions` / what `FromStr` does with the parsed instructions -/
def build (is : List Instruction) : Prog := is.foldl Prog.add Prog.empty

/-- `Program::to_instructions` (program/mod.rs:441): the containers in rank order -/
def Prog.listing (p : Prog) : List Instruction :=
  p 0 ++ (p 1 ++ (p 2 ++ (p 3 ++ (p 4 ++ (p 5 ++ (p 6 ++ (p 7 ++ p 8)))))))

mutual
/-- `Instruction::get_qubits` (instruction/mod.rs:689) -/
def getQubits : Instruction → List Qubit
  | .gate g => g.qubits
  | .calibrationDefinition id body => id.qubits ++ getQubitsList body
  | .measureCalibrationDefinition id body => id.qubit :: getQubitsList body
  | .measurement m => [m.qubit]
  | .reset r => (match r.qubit with | some q => [q] | none => [])
  | .delay d => d.qubits
  | .fence f => f.qubits
  | .capture c => c.frame.qubits
  | .pulse p => p.frame.qubits
  | .rawCapture r => r.frame.qubits
  | .setFrequency s => s.frame.qubits
  | .setPhase s => s.frame.qubits
  | .setScale s => s.frame.qubits
  | .shiftFrequency s => s.frame.qubits
  | .shiftPhase s => s.frame.qubits
  | .swapPhases s => s.frame1.qubits ++ s.frame2.qubits
  | _ => []
def getQubitsList : List Instruction → List Qubit
  | [] => []
  | i :: rest => getQubits i ++ getQubitsList rest
end

/-- the `used_qubits` cache of a program built by `add_instructions`: the qubits of EVERY instruction ever
added, replaced ones included (the cache is only ever extended: known finding
C10/redefined-calibration-leaves-stale-qubits) — read as a set -/
def usedQubits (is : List Instruction) : List Qubit := getQubitsList is

end QV.C02
