import QV.C02.LemmasInstr
/-!
C02 lemmas, part 4 (core Lean only): the per-kind round-trip lemmas `rt_<kind>` for the kinds that contain
no expression and no nested block.
-/
namespace QV.C02
open QV QV.Tok QV.Ast QV.Parse QV.Print QV.ExprPrint

/-- round trip of one instruction at depth budget `d+1`: the printed tokens of `i`, followed by the newline
`Program::write` adds, parse back to `i'` and leave that newline — with or without the newline that ended the
previous instruction in front -/
def RT (F : NumFmt) (d : Nat) (i i' : Instruction) : Prop :=
  ∀ rest, parseInstructionAt (d + 1) (toks F i ++ .newLine :: rest) = .ok i' (.newLine :: rest) ∧
    parseInstructionAt (d + 1) (.newLine :: (toks F i ++ .newLine :: rest)) = .ok i' (.newLine :: rest)

/-- what follows a top-level instruction's newline: nothing, or the first token of the next instruction — in
particular NOT an indentation (which would continue the block of a definition) -/
def restOk : List Token → Bool
  | [] => true
  | t :: _ => startTok t

/-- the round trip of a top-level instruction (definitions: their block must not be continued by `rest`) -/
def RTtop (F : NumFmt) (d : Nat) (i i' : Instruction) : Prop :=
  ∀ rest, restOk rest = true →
    parseInstructionAt (d + 1) (toks F i ++ .newLine :: rest) = .ok i' (.newLine :: rest) ∧
    parseInstructionAt (d + 1) (.newLine :: (toks F i ++ .newLine :: rest)) = .ok i' (.newLine :: rest)

theorem RT.top {F : NumFmt} {d : Nat} {i i' : Instruction} (h : RT F d i i') : RTtop F d i i' :=
  fun rest _ => h rest

theorem rttop_of_command (F : NumFmt) (d : Nat) (i i' : Instruction) (c : Command) (payload : List Token)
    (ht : toks F i = cmd c :: payload)
    (h : ∀ rest, restOk rest = true →
      parseCommand (parseExpressionAt (d + 1)) (parseInstructionAt d) c (payload ++ .newLine :: rest)
        = .ok i' (.newLine :: rest)) : RTtop F d i i' := by
  intro rest hr
  simp only [parseInstructionAt, ht, cmd, List.cons_append]
  exact ⟨body_command _ _ _ _ _ _ (h rest hr), body_command_nl _ _ _ _ _ _ (h rest hr)⟩

theorem rt_of_command (F : NumFmt) (d : Nat) (i i' : Instruction) (c : Command) (payload : List Token)
    (ht : toks F i = cmd c :: payload)
    (h : ∀ rest, parseCommand (parseExpressionAt (d + 1)) (parseInstructionAt d) c (payload ++ .newLine :: rest)
      = .ok i' (.newLine :: rest)) : RT F d i i' := by
  intro rest
  simp only [parseInstructionAt, ht, cmd, List.cons_append]
  exact ⟨body_command _ _ _ _ _ _ (h rest), body_command_nl _ _ _ _ _ _ (h rest)⟩

/-! ## operands -/

@[simp] theorem parseComparisonOperand_toks (src : ComparisonOperand) (h : compOperandOk src = true)
    (rest : List Token) : parseComparisonOperand (compOperandToks src ++ rest) = .ok src rest := by
  cases src with
  | literalInteger v =>
    simp only [compOperandOk] at h
    unfold compOperandToks intToks parseComparisonOperand
    by_cases hv : v < 0
    · simp [hv, alt, optMinus, opt, tok, Parser.bind, Parser.pure, tokFloat, mapRes, pair, tokInteger,
        signedInteger_neg v h hv]
    · simp [hv, alt, optMinus, opt, tok, Parser.bind, Parser.pure, tokFloat, mapRes, pair, tokInteger,
        signedInteger_pos v h hv]
  | literalReal b =>
    simp only [compOperandOk] at h
    have hf := realLit_finite h
    have ha := applySign_real b h
    unfold compOperandToks realLitToks parseComparisonOperand
    by_cases hs : fSign b = true
    · simp [hf.1, hf.2, hs, alt, optMinus, opt, tok, Parser.bind, Parser.pure, tokFloat] at ha ⊢
      exact ha
    · simp [hf.1, hf.2, hs, alt, optMinus, opt, tok, Parser.bind, Parser.pure, tokFloat] at ha ⊢
      exact ha
  | memoryReference r =>
    simp [compOperandToks, parseComparisonOperand, memRefToks, identTok, alt, optMinus, opt, tok, Parser.bind,
      Parser.pure, tokFloat, mapRes, pair, tokInteger, pmap, Outcome.map, parseMemoryReference, tokIdentifier,
      delimited]

@[simp] theorem parseBinaryLogicOperand_toks (src : BinaryOperand) (h : binOperandOk src = true)
    (rest : List Token) : parseBinaryLogicOperand (binOperandToks src ++ rest) = .ok src rest := by
  cases src with
  | literalInteger v =>
    simp only [binOperandOk] at h
    unfold binOperandToks intToks parseBinaryLogicOperand
    by_cases hv : v < 0
    · simp [hv, alt, optMinus, opt, tok, Parser.bind, Parser.pure, mapRes, pair, tokInteger,
        signedInteger_neg v h hv]
    · simp [hv, alt, optMinus, opt, tok, Parser.bind, Parser.pure, mapRes, pair, tokInteger,
        signedInteger_pos v h hv]
  | memoryReference r =>
    simp [binOperandToks, parseBinaryLogicOperand, memRefToks, identTok, alt, optMinus, opt, tok, Parser.bind,
      Parser.pure, mapRes, pair, tokInteger, pmap, Outcome.map, parseMemoryReference, tokIdentifier,
      delimited]

/-! ## qubits -/

theorem keywordOrIdentifier_of_not_reserved (s : List Char) (h : isReservedWord s = false) :
    keywordOrIdentifier s = .identifier s := by
  simp only [isReservedWord, Bool.or_eq_false_iff, Option.isSome_eq_false_iff, Option.isNone_iff_eq_none] at h
  obtain ⟨⟨⟨h1, h2⟩, h3⟩, h4⟩ := h
  simp [keywordOrIdentifier, h1, h2, h3, h4]

/-- the tokens of a qubit that is not a placeholder and not named like a keyword -/
theorem qubitToks_ok (q : Qubit) (h : noPlaceholder q = true) :
    qubitToks q = match q with
      | .fixed n => [.integer n]
      | .variable s => [identTok s]
      | .placeholder _ => [] := by
  cases q with
  | fixed n => rfl
  | placeholder k => simp [noPlaceholder] at h
  | «variable» s =>
    simp only [noPlaceholder, Bool.not_eq_true'] at h
    simp [qubitToks, nameTok, identTok, keywordOrIdentifier_of_not_reserved _ h]

theorem parseQubit_toks (q : Qubit) (h : noPlaceholder q = true) (rest : List Token) :
    parseQubit (qubitToks q ++ rest) = .ok q rest := by
  rw [qubitToks_ok q h]
  cases q with
  | fixed n => simp [parseQubit]
  | placeholder k => simp [noPlaceholder] at h
  | «variable» s => simp [parseQubit, identTok]

/-- a token that cannot start a qubit -/
def notQubit : List Token → Bool
  | .integer _ :: _ | .variable _ :: _ | .identifier _ :: _ => false
  | _ => true

theorem parseQubit_stop (rest : List Token) (h : notQubit rest = true) : parseQubit rest = .err := by
  unfold parseQubit
  split <;> simp_all [notQubit]

theorem qubitToks_ne_nil (q : Qubit) : qubitToks q ≠ [] := by cases q <;> simp [qubitToks]

theorem many0_parseQubit (qs : List Qubit) (h : qs.all noPlaceholder = true) (rest : List Token)
    (hr : notQubit rest = true) : many0 parseQubit (qubitsToks qs ++ rest) = .ok qs rest := by
  unfold qubitsToks
  apply many0_items parseQubit qubitToks qs rest
  · intro q hq r
    exact parseQubit_toks q (List.all_eq_true.mp h q hq) r
  · intro q _; exact qubitToks_ne_nil q
  · exact parseQubit_stop rest hr

/-! ## classical instructions -/

theorem rt_arithmetic (F : NumFmt) (d : Nat) (a : Arithmetic) (h : parsedInstr (.arithmetic a) = true) :
    RT F d (.arithmetic a) (.arithmetic a) := by
  apply rt_of_command F d _ _ (arithCmd a.operator) (memRefToks a.destination ++ arithOperandToks a.source)
  · simp [toks]
  · intro rest
    simp only [parsedInstr] at h
    cases a with
    | mk op dest src =>
      cases op <;> simp [arithCmd, parseCommand, parseArithmetic, Parser.bind, Parser.pure, h]

theorem rt_binaryLogic (F : NumFmt) (d : Nat) (a : BinaryLogic) (h : parsedInstr (.binaryLogic a) = true) :
    RT F d (.binaryLogic a) (.binaryLogic a) := by
  apply rt_of_command F d _ _ (binCmd a.operator) (memRefToks a.destination ++ binOperandToks a.source)
  · simp [toks]
  · intro rest
    simp only [parsedInstr] at h
    cases a with
    | mk op dest src =>
      cases op <;> simp [binCmd, parseCommand, parseLogicalBinary, Parser.bind, Parser.pure, h]

theorem rt_comparison (F : NumFmt) (d : Nat) (a : Comparison) (h : parsedInstr (.comparison a) = true) :
    RT F d (.comparison a) (.comparison a) := by
  apply rt_of_command F d _ _ (compCmd a.operator)
    (memRefToks a.destination ++ memRefToks a.lhs ++ compOperandToks a.rhs)
  · simp [toks]
  · intro rest
    simp only [parsedInstr] at h
    cases a with
    | mk op dest lhs rhs =>
      cases op <;> simp [compCmd, parseCommand, parseComparison, Parser.bind, Parser.pure, h]

theorem rt_unaryLogic (F : NumFmt) (d : Nat) (a : UnaryLogic) :
    RT F d (.unaryLogic a) (.unaryLogic a) := by
  apply rt_of_command F d _ _ (unaryCmd a.operator) (memRefToks a.operand)
  · simp [toks]
  · intro rest
    cases a with
    | mk op operand =>
      cases op <;> simp [unaryCmd, parseCommand, parseLogicalUnary, Parser.bind, Parser.pure]

theorem rt_convert (F : NumFmt) (d : Nat) (a : Convert) : RT F d (.convert a) (.convert a) := by
  apply rt_of_command F d _ _ .convert (memRefToks a.destination ++ memRefToks a.source)
  · simp [toks]
  · intro rest
    simp [parseCommand, parseConvert, Parser.bind, Parser.pure]

theorem rt_exchange (F : NumFmt) (d : Nat) (a : Exchange) : RT F d (.exchange a) (.exchange a) := by
  apply rt_of_command F d _ _ .exchange (memRefToks a.left ++ memRefToks a.right)
  · simp [toks]
  · intro rest
    simp [parseCommand, parseExchange, Parser.bind, Parser.pure]

theorem rt_move (F : NumFmt) (d : Nat) (a : Move) (h : parsedInstr (.move a) = true) :
    RT F d (.move a) (.move a) := by
  apply rt_of_command F d _ _ .move (memRefToks a.destination ++ arithOperandToks a.source)
  · simp [toks]
  · intro rest
    simp only [parsedInstr] at h
    simp [parseCommand, parseMove, Parser.bind, Parser.pure, h]

theorem rt_load (F : NumFmt) (d : Nat) (a : Load) : RT F d (.load a) (.load a) := by
  apply rt_of_command F d _ _ .load (memRefToks a.destination ++ identTok a.source :: memRefToks a.offset)
  · simp [toks]
  · intro rest
    simp [parseCommand, parseLoad, Parser.bind, Parser.pure, tokIdentifier, identTok]

theorem rt_store (F : NumFmt) (d : Nat) (a : Store) (h : parsedInstr (.store a) = true) :
    RT F d (.store a) (.store a) := by
  apply rt_of_command F d _ _ .store (identTok a.destination :: (memRefToks a.offset ++ arithOperandToks a.source))
  · simp [toks]
  · intro rest
    simp only [parsedInstr] at h
    simp [parseCommand, parseStore, Parser.bind, Parser.pure, tokIdentifier, identTok, h]

/-! ## HALT, NOP, WAIT, control flow, INCLUDE -/

theorem rt_halt (F : NumFmt) (d : Nat) : RT F d .halt .halt := by
  apply rt_of_command F d _ _ .halt []
  · simp [toks]
  · intro rest; simp [parseCommand, Parser.pure]

theorem rt_nop (F : NumFmt) (d : Nat) : RT F d .nop .nop := by
  apply rt_of_command F d _ _ .nop []
  · simp [toks]
  · intro rest; simp [parseCommand, Parser.pure]

theorem rt_wait (F : NumFmt) (d : Nat) : RT F d .wait .wait := by
  apply rt_of_command F d _ _ .wait []
  · simp [toks]
  · intro rest; simp [parseCommand, Parser.pure]

theorem rt_jump (F : NumFmt) (d : Nat) (j : Jump) (h : parsedInstr (.jump j) = true) :
    RT F d (.jump j) (.jump j) := by
  obtain ⟨t⟩ := j
  cases t with
  | placeholder k b => simp [parsedInstr, fixedTarget] at h
  | fixed s =>
    apply rt_of_command F d _ _ .jump [.target s.toList]
    · simp [toks, targetToks]
    · intro rest; simp [parseCommand, parseJump, Parser.bind, Parser.pure, tokTarget]

theorem rt_label (F : NumFmt) (d : Nat) (j : Label) (h : parsedInstr (.label j) = true) :
    RT F d (.label j) (.label j) := by
  obtain ⟨t⟩ := j
  cases t with
  | placeholder k b => simp [parsedInstr, fixedTarget] at h
  | fixed s =>
    apply rt_of_command F d _ _ .label [.target s.toList]
    · simp [toks, targetToks]
    · intro rest; simp [parseCommand, parseLabel, Parser.bind, Parser.pure, tokTarget]

theorem rt_jumpWhen (F : NumFmt) (d : Nat) (j : JumpWhen) (h : parsedInstr (.jumpWhen j) = true) :
    RT F d (.jumpWhen j) (.jumpWhen j) := by
  obtain ⟨t, c⟩ := j
  cases t with
  | placeholder k b => simp [parsedInstr, fixedTarget] at h
  | fixed s =>
    apply rt_of_command F d _ _ .jumpWhen (.target s.toList :: memRefToks c)
    · simp [toks, targetToks]
    · intro rest; simp [parseCommand, parseJumpWhen, Parser.bind, Parser.pure, tokTarget]

theorem rt_jumpUnless (F : NumFmt) (d : Nat) (j : JumpUnless) (h : parsedInstr (.jumpUnless j) = true) :
    RT F d (.jumpUnless j) (.jumpUnless j) := by
  obtain ⟨t, c⟩ := j
  cases t with
  | placeholder k b => simp [parsedInstr, fixedTarget] at h
  | fixed s =>
    apply rt_of_command F d _ _ .jumpUnless (.target s.toList :: memRefToks c)
    · simp [toks, targetToks]
    · intro rest; simp [parseCommand, parseJumpUnless, Parser.bind, Parser.pure, tokTarget]

theorem rt_include (F : NumFmt) (d : Nat) (a : Include) : RT F d (.include a) (.include a) := by
  apply rt_of_command F d _ _ .include [strTok a.filename]
  · simp [toks]
  · intro rest; simp [parseCommand, parseInclude, Parser.bind, Parser.pure, tokString, strTok]

/-! ## FENCE, RESET, MEASURE -/

theorem rt_fence (F : NumFmt) (d : Nat) (a : Fence) (h : parsedInstr (.fence a) = true) :
    RT F d (.fence a) (.fence a) := by
  apply rt_of_command F d _ _ .fence (qubitsToks a.qubits)
  · simp [toks]
  · intro rest
    simp only [parsedInstr] at h
    simp [parseCommand, parseFence, Parser.bind, Parser.pure, many0_parseQubit a.qubits h _ (show notQubit (.newLine :: rest) = true from rfl)]

theorem rt_reset (F : NumFmt) (d : Nat) (a : Reset) (h : parsedInstr (.reset a) = true) :
    RT F d (.reset a) (.reset a) := by
  obtain ⟨q⟩ := a
  cases q with
  | none =>
    apply rt_of_command F d _ _ .reset []
    · simp [toks]
    · intro rest; simp [parseCommand, parseReset, Parser.bind, Parser.pure, opt, parseQubit]
  | some q =>
    apply rt_of_command F d _ _ .reset (qubitToks q)
    · simp [toks]
    · intro rest
      simp only [parsedInstr] at h
      simp [parseCommand, parseReset, Parser.bind, Parser.pure, opt, parseQubit_toks q h]

/-- a re-classified name is a word token, never punctuation -/
theorem nameTok_not_punct (s : String) :
    nameTok s ≠ .bang ∧ nameTok s ≠ .lParenthesis ∧ nameTok s ≠ .newLine := by
  simp only [nameTok, keywordOrIdentifier]
  split
  · rename_i k _; cases k <;> simp [KeywordToken.toToken]
  · split
    · simp
    · split
      · simp
      · split <;> simp

theorem nameTok_ne_bang (s : String) : nameTok s ≠ .bang := (nameTok_not_punct s).1

theorem parseMeasureName_toks (n : Option String) (q : Qubit) (r : List Token) :
    parseMeasureName (measureNameToks n ++ qubitToks q ++ r) = .ok n (qubitToks q ++ r) := by
  cases n with
  | none =>
    have hq : ∃ t r', qubitToks q = t :: r' ∧ t ≠ .bang := by
      cases q with
      | fixed n => exact ⟨_, _, rfl, by simp⟩
      | placeholder k => exact ⟨_, _, rfl, by simp⟩
      | «variable» s =>
        exact ⟨nameTok s, [], rfl, nameTok_ne_bang s⟩
    obtain ⟨t, r', hq, hne⟩ := hq
    simp [measureNameToks, parseMeasureName, Parser.bind, Parser.pure, opt, preceded, tok, hq, hne]
  | some n =>
    simp [measureNameToks, parseMeasureName, Parser.bind, Parser.pure, opt, preceded, tok, tokIdentifier, identTok]

theorem rt_measurement (F : NumFmt) (d : Nat) (a : Measurement) (h : parsedInstr (.measurement a) = true) :
    RT F d (.measurement a) (.measurement a) := by
  obtain ⟨n, q, t⟩ := a
  simp only [parsedInstr] at h
  cases t with
  | none =>
    apply rt_of_command F d _ _ .measure (measureNameToks n ++ qubitToks q)
    · simp [toks]
    · intro rest
      simp only [parseCommand, parseMeasurement, bind_eq, Parser.bind, List.append_assoc]
      rw [show measureNameToks n ++ (qubitToks q ++ .newLine :: rest) = measureNameToks n ++ qubitToks q ++ (.newLine :: rest) by simp]
      rw [parseMeasureName_toks]
      simp [parseQubit_toks q h, parseMemoryReference, Parser.bind, tokIdentifier, Parser.pure, Bind.bind]
  | some t =>
    apply rt_of_command F d _ _ .measure (measureNameToks n ++ qubitToks q ++ memRefToks t)
    · simp [toks]
    · intro rest
      simp only [parseCommand, parseMeasurement, bind_eq, Parser.bind, List.append_assoc]
      rw [show measureNameToks n ++ (qubitToks q ++ (memRefToks t ++ .newLine :: rest)) =
        measureNameToks n ++ qubitToks q ++ (memRefToks t ++ .newLine :: rest) by simp]
      rw [parseMeasureName_toks]
      simp [parseQubit_toks q h, Parser.pure, Bind.bind, Parser.bind]

end QV.C02
