import QV.C02.LemmasTop
import QV.C02.LemmasKinds2
/-!
C02 lemmas, part 6 (core Lean only): the proved subset `provedKind` — dispatch of the per-kind lemmas, "prints
on one line", "prints without error".
-/
namespace QV.C02
open QV QV.Tok QV.Ast QV.Parse QV.Print QV.ExprPrint

/-- the per-kind round-trip lemmas, dispatched: every `Parsed` instruction of a proved kind round-trips to
itself at every depth budget -/
theorem rt_of_provedKind (F : NumFmt) (d : Nat) (i : Instruction) (hp : parsedInstr i = true)
    (hk : provedKind i = true) : RT F d i i := by
  cases i with
  | arithmetic a => exact rt_arithmetic F d a hp
  | binaryLogic a => exact rt_binaryLogic F d a hp
  | comparison a => exact rt_comparison F d a hp
  | convert a => exact rt_convert F d a
  | exchange a => exact rt_exchange F d a
  | move a => exact rt_move F d a hp
  | load a => exact rt_load F d a
  | store a => exact rt_store F d a hp
  | unaryLogic a => exact rt_unaryLogic F d a
  | halt => exact rt_halt F d
  | nop => exact rt_nop F d
  | wait => exact rt_wait F d
  | jump a => exact rt_jump F d a hp
  | jumpWhen a => exact rt_jumpWhen F d a hp
  | jumpUnless a => exact rt_jumpUnless F d a hp
  | label a => exact rt_label F d a hp
  | «include» a => exact rt_include F d a
  | declaration a => exact rt_declaration F d a
  | fence a => exact rt_fence F d a hp
  | reset a => exact rt_reset F d a hp
  | measurement a => exact rt_measurement F d a hp
  | pragma a => exact rt_pragma F d a
  | _ => simp [provedKind] at hk

theorem nl_intToks (v : Int) : Token.newLine ∉ intToks v := by
  unfold intToks; split <;> simp
theorem nl_realLitToks (b : Nat) : Token.newLine ∉ realLitToks b := by
  unfold realLitToks; split <;> (try split) <;> (try split) <;> simp [identTok]
theorem nl_memRefToks (r : MemRef) : Token.newLine ∉ memRefToks r := by simp [memRefToks, identTok]
theorem nl_arith (o : ArithmeticOperand) : Token.newLine ∉ arithOperandToks o := by
  cases o <;> simp [arithOperandToks, nl_intToks, nl_realLitToks, nl_memRefToks]
theorem nl_comp (o : ComparisonOperand) : Token.newLine ∉ compOperandToks o := by
  cases o <;> simp [compOperandToks, nl_intToks, nl_realLitToks, nl_memRefToks]
theorem nl_bin (o : BinaryOperand) : Token.newLine ∉ binOperandToks o := by
  cases o <;> simp [binOperandToks, nl_intToks, nl_memRefToks]
theorem nl_qubit (q : Qubit) : Token.newLine ∉ qubitToks q := by cases q <;> simp [qubitToks, identTok]
theorem nl_qubits (qs : List Qubit) : Token.newLine ∉ qubitsToks qs := by
  simp only [qubitsToks, List.mem_flatMap, not_exists, not_and]
  intro q _; exact nl_qubit q
theorem nl_target (t : Target) : Token.newLine ∉ targetToks t := by cases t <;> simp [targetToks]
theorem nl_scalar (t : ScalarType) : scalarTok t ≠ Token.newLine := by cases t <;> simp [scalarTok]
theorem nl_measureName (n : Option String) : Token.newLine ∉ measureNameToks n := by
  cases n <;> simp [measureNameToks, identTok]
theorem nl_pragmaArg (a : PragmaArgument) : pragmaArgTok a ≠ Token.newLine := by
  cases a <;> simp [pragmaArgTok, identTok]

/-- instructions of the proved kinds print on one line: no `newLine` among their raw tokens -/
theorem noNL_of_provedKind (F : NumFmt) (i : Instruction) (hk : provedKind i = true) :
    Token.newLine ∉ toks F i := by
  cases i with
  | declaration a =>
    obtain ⟨name, ⟨ty, len⟩, sharing⟩ := a
    have h1 : ¬ Token.newLine = scalarTok ty := fun h => nl_scalar ty h.symm
    cases sharing with
    | none => simp [toks, cmd, identTok, vectorToks, h1]
    | some s =>
      obtain ⟨sn, offs⟩ := s
      by_cases ho : offs = []
      · simp [toks, cmd, identTok, vectorToks, h1, ho]
      · have h2 : Token.newLine ∉ offs.flatMap (fun o => [Token.integer o.offset, scalarTok o.dataType]) := by
          simp only [List.mem_flatMap, not_exists, not_and]
          intro o _
          have := nl_scalar o.dataType
          simp [Ne.symm this]
        simp [toks, cmd, identTok, vectorToks, h1, ho, h2]
  | measurement a =>
    obtain ⟨n, q, t⟩ := a
    cases t <;> simp [toks, cmd, nl_memRefToks, nl_qubit, nl_measureName]
  | pragma a =>
    obtain ⟨n, args, data⟩ := a
    cases data <;> simp [toks, cmd, identTok, strTok, nl_pragmaArg]
  | reset a =>
    obtain ⟨q⟩ := a
    cases q <;> simp [toks, cmd, nl_qubit]
  | _ =>
    simp [provedKind] at hk <;>
    simp [toks, cmd, nl_memRefToks, nl_arith, nl_comp, nl_bin, nl_qubits, nl_qubit, nl_target, nl_measureName,
      identTok, strTok, vectorToks]


theorem firstSome_none {α : Type} (l : List (Option α)) (h : ∀ x ∈ l, x = none) : firstSome l = none := by
  induction l with
  | nil => rfl
  | cons x xs ih =>
    have hx := h x (by simp)
    subst hx
    simp [firstSome, ih (fun y hy => h y (by simp [hy]))]

theorem qubitsErr_none (qs : List Qubit) (h : qs.all noPlaceholder = true) : qubitsErr qs = none := by
  apply firstSome_none
  intro x hx
  simp only [List.mem_map] at hx
  obtain ⟨q, hq, rfl⟩ := hx
  have := List.all_eq_true.mp h q hq
  cases q <;> simp_all [noPlaceholder, qubitErr]

/-- printing a `Parsed` instruction of a proved kind meets no placeholder -/
theorem firstErr_none_of_provedKind (i : Instruction) (hp : parsedInstr i = true) (hk : provedKind i = true) :
    firstErr i = none := by
  cases i with
  | fence a => simp only [parsedInstr] at hp; simp [firstErr, qubitsErr_none _ hp]
  | jump a => obtain ⟨t⟩ := a; cases t <;> simp_all [parsedInstr, fixedTarget, firstErr, targetErr]
  | jumpWhen a => obtain ⟨t, c⟩ := a; cases t <;> simp_all [parsedInstr, fixedTarget, firstErr, targetErr]
  | jumpUnless a => obtain ⟨t, c⟩ := a; cases t <;> simp_all [parsedInstr, fixedTarget, firstErr, targetErr]
  | label a => obtain ⟨t⟩ := a; cases t <;> simp_all [parsedInstr, fixedTarget, firstErr, targetErr]
  | measurement a =>
    obtain ⟨n, q, t⟩ := a
    cases q <;> simp_all [parsedInstr, noPlaceholder, firstErr, qubitErr]
  | reset a =>
    obtain ⟨q⟩ := a
    cases q with
    | none => simp [firstErr]
    | some q => cases q <;> simp_all [parsedInstr, noPlaceholder, firstErr, qubitErr]
  | _ => first | rfl | (simp [provedKind] at hk)

theorem firstErrList_none (L : List Instruction) (h : ∀ i ∈ L, firstErr i = none) : firstErrList L = none := by
  induction L with
  | nil => rfl
  | cons i L ih =>
    simp [firstErrList, firstSome, h i (by simp), ih (fun j hj => h j (by simp [hj]))]

end QV.C02
