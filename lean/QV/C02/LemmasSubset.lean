import QV.C02.LemmasTop
import QV.C02.LemmasDelay
import QV.C02.LemmasWave
import QV.C02.LemmasCall
/-!
C02 lemmas, part 6 (core Lean only): the proved subset `lineKind` — dispatch of the per-kind lemmas, "prints
on one line", "prints without error".
-/
namespace QV.C02
open QV QV.Tok QV.Ast QV.Parse QV.Print QV.ExprPrint QV.ExprRoundTrip

/-- the per-kind round-trip lemmas, dispatched: every `Parsed` instruction of a proved kind round-trips to
itself at every depth budget -/
theorem rt_of_lineKind (F : NumFmt) (d : Nat) (i : Instruction) (hp : parsedInstr i = true)
    (hk : lineKind i = true) (hn : numTokInstr F i = true) (hd : (toks F i).length ≤ d) :
    RT F d i (canonInstr i) := by
  cases i with
  | capture a => exact rt_capture F d a hp hn hd
  | call c =>
    have hok : c.arguments.all (callArgOkP F) = true := by
      simp only [parsedInstr] at hp
      simp only [numTokInstr] at hn
      rw [List.all_eq_true] at hp hn ⊢
      intro a ha
      have h1 := hp a ha
      have h2 := hn a ha
      cases a with
      | immediate z =>
        simp only [callArgOk, Bool.and_eq_true] at h1
        simp only at h2
        simp [callArgOkP, immOk, h1.1, h1.2, h2]
      | _ => rfl
    have := rt_call F d c hok (by simpa [lineKind] using hk)
    simpa [canonInstr] using this
  | pulse a => exact rt_pulse F d a hp hn hd
  | arithmetic a => exact rt_arithmetic F d a hp
  | binaryLogic a => exact rt_binaryLogic F d a hp
  | comparison a => exact rt_comparison F d a hp
  | convert a => exact rt_convert F d a
  | exchange a => exact rt_exchange F d a
  | move a => exact rt_move F d a hp
  | load a => exact rt_load F d a
  | store a => exact rt_store F d a hp
  | unaryLogic a => exact rt_unaryLogic F d a
  | halt => exact rt_halt F d
  | nop => exact rt_nop F d
  | wait => exact rt_wait F d
  | jump a => exact rt_jump F d a hp
  | jumpWhen a => exact rt_jumpWhen F d a hp
  | jumpUnless a => exact rt_jumpUnless F d a hp
  | label a => exact rt_label F d a hp
  | «include» a => exact rt_include F d a
  | declaration a => exact rt_declaration F d a
  | fence a => exact rt_fence F d a hp
  | reset a => exact rt_reset F d a hp
  | measurement a => exact rt_measurement F d a hp
  | pragma a => exact rt_pragma F d a
  | gate a => exact rt_gate F d a hp hn hd
  | setFrequency a => exact rt_setFrequency F d a hp hn hd
  | setPhase a => exact rt_setPhase F d a hp hn hd
  | setScale a => exact rt_setScale F d a hp hn hd
  | shiftFrequency a => exact rt_shiftFrequency F d a hp hn hd
  | shiftPhase a => exact rt_shiftPhase F d a hp hn hd
  | swapPhases a => exact rt_swapPhases F d a hp
  | delay a => exact rt_delay F d a hp hn hd
  | rawCapture a => exact rt_rawCapture F d a hp hn (by simpa [lineKind] using hk) hd
  | _ => simp [lineKind] at hk

theorem nl_intToks (v : Int) : Token.newLine ∉ intToks v := by
  unfold intToks; split <;> simp
theorem nl_realLitToks (b : Nat) : Token.newLine ∉ realLitToks b := by
  unfold realLitToks; split <;> (try split) <;> (try split) <;> simp [identTok]
theorem nl_memRefToks (r : MemRef) : Token.newLine ∉ memRefToks r := by simp [memRefToks, identTok]
theorem nl_arith (o : ArithmeticOperand) : Token.newLine ∉ arithOperandToks o := by
  cases o <;> simp [arithOperandToks, nl_intToks, nl_realLitToks, nl_memRefToks]
theorem nl_comp (o : ComparisonOperand) : Token.newLine ∉ compOperandToks o := by
  cases o <;> simp [compOperandToks, nl_intToks, nl_realLitToks, nl_memRefToks]
theorem nl_bin (o : BinaryOperand) : Token.newLine ∉ binOperandToks o := by
  cases o <;> simp [binOperandToks, nl_intToks, nl_memRefToks]
theorem nl_qubit (q : Qubit) : Token.newLine ∉ qubitToks q := by
  cases q with
  | fixed n => simp [qubitToks]
  | placeholder k => simp [qubitToks]
  | «variable» s => simp [qubitToks, Ne.symm (nameTok_not_punct s).2.2]
theorem nl_qubits (qs : List Qubit) : Token.newLine ∉ qubitsToks qs := by
  simp only [qubitsToks, List.mem_flatMap, not_exists, not_and]
  intro q _; exact nl_qubit q
theorem nl_target (t : Target) : Token.newLine ∉ targetToks t := by cases t <;> simp [targetToks]
theorem nl_scalar (t : ScalarType) : scalarTok t ≠ Token.newLine := by cases t <;> simp [scalarTok]
theorem nl_measureName (n : Option String) : Token.newLine ∉ measureNameToks n := by
  cases n <;> simp [measureNameToks, identTok]
theorem nl_pragmaArg (a : PragmaArgument) : pragmaArgTok a ≠ Token.newLine := by
  cases a <;> simp [pragmaArgTok, identTok]

theorem tokBits_ne_nl {t : Token} {m : Nat} (h : tokBits t = some m) : t ≠ .newLine := by
  intro h'; subst h'; simp [tokBits] at h

theorem nl_signedToks (f : Nat → Token) (b : Nat) (h : tokBits (f (fAbs b)) = some (fAbs b)) :
    Token.newLine ∉ signedToks f b := by
  unfold signedToks
  by_cases hs : fSign b = true
  · have : fAbs b = b - two63 := by
      unfold fAbs; simp only [fSign, decide_eq_true_eq] at hs; simp [hs]
    rw [this] at h
    simp [hs, Ne.symm (tokBits_ne_nl h)]
  · have : fAbs b = b := by
      unfold fAbs; simp only [fSign, decide_eq_true_eq] at hs; simp [hs]
    rw [this] at h
    simp [hs, Ne.symm (tokBits_ne_nl h)]

theorem nl_complexToks (F : NumFmt) (z : CBits) (h : numTokOkAt F z = true) :
    Token.newLine ∉ complexToks F z := by
  simp only [numTokOkAt, Bool.and_eq_true, beq_iff_eq] at h
  have h1 := nl_signedToks F.real z.re h.1
  have h2 := nl_signedToks F.imag z.im h.2
  unfold complexToks
  split
  · simp
  · split
    · exact h1
    · split
      · simp [h2, tokI]
      · split <;> simp [h1, h2, tokI]

theorem nl_wrapIf (b : Bool) (ts : List Token) (h : Token.newLine ∉ ts) : Token.newLine ∉ wrapIf b ts := by
  unfold wrapIf; split <;> simp [h]

theorem nl_printTop (F : NumFmt) (e : PExpr) (h : numTokOk F e = true) : Token.newLine ∉ printTop F e := by
  unfold numTokOk at h
  induction e with
  | address r => simp [printTop]
  | call f e ih =>
    simp only [allLits] at h
    simp [printTop, ih h]
  | bin l o r ihl ihr =>
    simp only [allLits, Bool.and_eq_true] at h
    simp only [printTop, List.mem_append, List.mem_cons, not_or]
    exact ⟨nl_wrapIf _ _ (ihl h.1), by simp, nl_wrapIf _ _ (ihr h.2)⟩
  | number z => simp only [allLits] at h; simp only [printTop]; exact nl_complexToks F z h
  | pi => simp [printTop, tokPi]
  | pre o e ih =>
    simp only [allLits] at h
    simp only [printTop, List.mem_append, not_or]
    refine ⟨by cases o <;> simp [prefixToks], nl_wrapIf _ _ (nl_wrapIf _ _ (ih h))⟩
  | var x => simp [printTop]


theorem nl_frame (f : FrameIdentifier) : Token.newLine ∉ frameToks f := by
  simp [frameToks, nl_qubits, strTok]

theorem nl_sepBy (xs : List (List Token)) (h : ∀ x ∈ xs, Token.newLine ∉ x) :
    Token.newLine ∉ sepBy [.comma] xs := by
  induction xs with
  | nil => simp [sepBy]
  | cons x xs ih =>
    cases xs with
    | nil => simpa [sepBy] using h x (by simp)
    | cons y ys =>
      simp only [sepBy, List.mem_append, not_or]
      exact ⟨⟨h x (by simp), by simp⟩, ih (fun z hz => h z (by simp [hz]))⟩

theorem nl_slashNameAux (acc cs : List Char) : Token.newLine ∉ slashNameAux acc cs := by
  induction cs generalizing acc with
  | nil => simp [slashNameAux]
  | cons c cs ih =>
    simp only [slashNameAux]
    split
    · simp [ih]
    · exact ih _

theorem nl_invocation (F : NumFmt) (w : WaveformInvocation)
    (hn : (w.parameters.all fun kv => numTokOk F kv.2) = true) : Token.newLine ∉ invocationToks F w := by
  simp only [invocationToks, slashNameToks, List.mem_append, not_or]
  refine ⟨nl_slashNameAux _ _, ?_⟩
  split
  · simp
  · simp only [List.mem_cons, List.mem_append, not_or]
    refine ⟨by simp, nl_sepBy _ ?_, by simp⟩
    intro x hx
    simp only [List.mem_map] at hx
    obtain ⟨kv, hkv, rfl⟩ := hx
    have := nl_printTop F kv.2 (List.all_eq_true.mp hn kv (mem_sortKV.mp hkv))
    simp [identTok, this]

theorem nl_params (F : NumFmt) (ps : List PExpr) (h : ps.all (numTokOk F) = true) :
    Token.newLine ∉ paramsToks F ps := by
  unfold paramsToks
  split
  · simp
  · simp only [List.mem_cons, List.mem_append, not_or]
    refine ⟨by simp, nl_sepBy _ ?_, by simp⟩
    intro x hx
    simp only [List.mem_map] at hx
    obtain ⟨e, he, rfl⟩ := hx
    exact nl_printTop F e (List.all_eq_true.mp h e he)

/-- instructions of the proved kinds print on one line: no `newLine` among their raw tokens -/
theorem noNL_of_lineKind (F : NumFmt) (i : Instruction) (hk : lineKind i = true)
    (hn : numTokInstr F i = true) : Token.newLine ∉ toks F i := by
  cases i with
  | gate g =>
    obtain ⟨name, ps, qs, ms⟩ := g
    simp only [numTokInstr] at hn
    simp only [toks, gateToks, List.mem_append, List.mem_cons, List.mem_map, not_or, not_exists, not_and]
    refine ⟨fun m _ => by cases m <;> simp [modifierTok], by simp [identTok], nl_params F ps hn, nl_qubits qs⟩
  | setFrequency a => simp only [numTokInstr] at hn; simp [toks, cmd, nl_frame, nl_printTop F _ hn]
  | setPhase a => simp only [numTokInstr] at hn; simp [toks, cmd, nl_frame, nl_printTop F _ hn]
  | setScale a => simp only [numTokInstr] at hn; simp [toks, cmd, nl_frame, nl_printTop F _ hn]
  | shiftFrequency a => simp only [numTokInstr] at hn; simp [toks, cmd, nl_frame, nl_printTop F _ hn]
  | shiftPhase a => simp only [numTokInstr] at hn; simp [toks, cmd, nl_frame, nl_printTop F _ hn]
  | swapPhases a => simp [toks, cmd, nl_frame]
  | delay a =>
    simp only [numTokInstr, Bool.and_eq_true] at hn
    simp only [toks, delayToks, cmd, List.mem_cons, List.mem_append, List.mem_map, not_or, not_exists, not_and]
    refine ⟨by simp, ⟨nl_qubits _, fun s _ => by simp [strTok]⟩, nl_wrapIf _ _ (nl_printTop F _ hn.1)⟩
  | rawCapture a =>
    simp only [numTokInstr] at hn
    by_cases hb : a.blocking = true <;>
      simp [toks, cmd, hb, nl_frame, nl_printTop F _ hn, nl_memRefToks]
  | capture a =>
    simp only [numTokInstr] at hn
    by_cases hb : a.blocking = true <;>
      simp [toks, cmd, hb, nl_frame, nl_invocation F _ hn, nl_memRefToks]
  | call c =>
    simp only [numTokInstr] at hn
    have hargs : ∀ (args : List UnresolvedCallArgument) (prev : Option UnresolvedCallArgument),
        (args.all fun a => match a with | .immediate z => numTokOkAt F z | _ => true) = true →
        Token.newLine ∉ callArgsToks F prev args := by
      intro args
      induction args with
      | nil => intro _ _; simp [callArgsToks]
      | cons a args ih =>
        intro prev hall
        simp only [List.all_cons, Bool.and_eq_true] at hall
        have hz : Token.newLine ∉ callZeroPrefix prev a := by
          unfold callZeroPrefix
          split
          · split <;> simp
          · simp
        have ha : Token.newLine ∉ callArgToks F a := by
          cases a with
          | identifier s => simp [callArgToks, identTok]
          | memoryReference r => simp [callArgToks, nl_memRefToks]
          | immediate z => exact nl_complexToks F z hall.1
        simp only [callArgsToks, List.mem_append, not_or]
        exact ⟨⟨hz, ha⟩, ih _ hall.2⟩
    simp [toks, cmd, identTok, hargs _ _ hn]
  | pulse a =>
    simp only [numTokInstr] at hn
    by_cases hb : a.blocking = true <;>
      simp [toks, cmd, hb, nl_frame, nl_invocation F _ hn]
  | declaration a =>
    obtain ⟨name, ⟨ty, len⟩, sharing⟩ := a
    have h1 : ¬ Token.newLine = scalarTok ty := fun h => nl_scalar ty h.symm
    cases sharing with
    | none => simp [toks, cmd, identTok, vectorToks, h1]
    | some s =>
      obtain ⟨sn, offs⟩ := s
      by_cases ho : offs = []
      · simp [toks, cmd, identTok, vectorToks, h1, ho]
      · have h2 : Token.newLine ∉ offs.flatMap (fun o => [Token.integer o.offset, scalarTok o.dataType]) := by
          simp only [List.mem_flatMap, not_exists, not_and]
          intro o _
          have := nl_scalar o.dataType
          simp [Ne.symm this]
        simp [toks, cmd, identTok, vectorToks, h1, ho, h2]
  | measurement a =>
    obtain ⟨n, q, t⟩ := a
    cases t <;> simp [toks, cmd, nl_memRefToks, nl_qubit, nl_measureName]
  | pragma a =>
    obtain ⟨n, args, data⟩ := a
    cases data <;> simp [toks, cmd, identTok, strTok, nl_pragmaArg]
  | reset a =>
    obtain ⟨q⟩ := a
    cases q <;> simp [toks, cmd, nl_qubit]
  | _ =>
    simp [lineKind] at hk <;>
    simp [toks, cmd, nl_memRefToks, nl_arith, nl_comp, nl_bin, nl_qubits, nl_qubit, nl_target, nl_measureName,
      identTok, strTok, vectorToks]


theorem firstSome_none {α : Type} (l : List (Option α)) (h : ∀ x ∈ l, x = none) : firstSome l = none := by
  induction l with
  | nil => rfl
  | cons x xs ih =>
    have hx := h x (by simp)
    subst hx
    simp [firstSome, ih (fun y hy => h y (by simp [hy]))]

theorem qubitsErr_none (qs : List Qubit) (h : qs.all noPlaceholder = true) : qubitsErr qs = none := by
  apply firstSome_none
  intro x hx
  simp only [List.mem_map] at hx
  obtain ⟨q, hq, rfl⟩ := hx
  have := List.all_eq_true.mp h q hq
  cases q <;> simp_all [noPlaceholder, qubitErr]

/-- printing a `Parsed` instruction of a proved kind meets no placeholder -/
theorem firstErr_none_of_lineKind (i : Instruction) (hp : parsedInstr i = true) (hk : lineKind i = true) :
    firstErr i = none := by
  cases i with
  | fence a => simp only [parsedInstr] at hp; simp [firstErr, qubitsErr_none _ hp]
  | jump a => obtain ⟨t⟩ := a; cases t <;> simp_all [parsedInstr, fixedTarget, firstErr, targetErr]
  | jumpWhen a => obtain ⟨t, c⟩ := a; cases t <;> simp_all [parsedInstr, fixedTarget, firstErr, targetErr]
  | jumpUnless a => obtain ⟨t, c⟩ := a; cases t <;> simp_all [parsedInstr, fixedTarget, firstErr, targetErr]
  | label a => obtain ⟨t⟩ := a; cases t <;> simp_all [parsedInstr, fixedTarget, firstErr, targetErr]
  | measurement a =>
    obtain ⟨n, q, t⟩ := a
    cases q <;> simp_all [parsedInstr, noPlaceholder, firstErr, qubitErr]
  | reset a =>
    obtain ⟨q⟩ := a
    cases q with
    | none => simp [firstErr]
    | some q => cases q <;> simp_all [parsedInstr, noPlaceholder, firstErr, qubitErr]
  | gate a =>
    simp only [parsedInstr, gateOk, Bool.and_eq_true] at hp
    simp [firstErr, gateErr, qubitsErr_none _ hp.2]
  | setFrequency a => simp only [parsedInstr, frameOk, Bool.and_eq_true] at hp; simp [firstErr, frameErr, qubitsErr_none _ hp.1.2]
  | setPhase a => simp only [parsedInstr, frameOk, Bool.and_eq_true] at hp; simp [firstErr, frameErr, qubitsErr_none _ hp.1.2]
  | setScale a => simp only [parsedInstr, frameOk, Bool.and_eq_true] at hp; simp [firstErr, frameErr, qubitsErr_none _ hp.1.2]
  | shiftFrequency a => simp only [parsedInstr, frameOk, Bool.and_eq_true] at hp; simp [firstErr, frameErr, qubitsErr_none _ hp.1.2]
  | shiftPhase a => simp only [parsedInstr, frameOk, Bool.and_eq_true] at hp; simp [firstErr, frameErr, qubitsErr_none _ hp.1.2]
  | swapPhases a =>
    simp only [parsedInstr, frameOk, Bool.and_eq_true] at hp
    simp [firstErr, frameErr, firstSome, qubitsErr_none _ hp.1.2, qubitsErr_none _ hp.2.2]
  | delay a => simp only [parsedInstr, Bool.and_eq_true] at hp; simp [firstErr, qubitsErr_none _ hp.2]
  | capture a =>
    simp only [parsedInstr, frameOk, Bool.and_eq_true] at hp; simp [firstErr, frameErr, qubitsErr_none _ hp.1.2]
  | pulse a =>
    simp only [parsedInstr, frameOk, Bool.and_eq_true] at hp; simp [firstErr, frameErr, qubitsErr_none _ hp.1.2]
  | rawCapture a =>
    simp only [parsedInstr, frameOk, Bool.and_eq_true] at hp; simp [firstErr, frameErr, qubitsErr_none _ hp.1.2]
  | _ => first | rfl | (simp [lineKind] at hk)

theorem length_toks_le_programRaw (F : NumFmt) (L : List Instruction) (i : Instruction) (hi : i ∈ L) :
    (toks F i).length ≤ (programRaw F L).length := by
  induction L with
  | nil => simp at hi
  | cons j L ih =>
    have e : programRaw F (j :: L) = toks F j ++ .newLine :: programRaw F L := by simp [programRaw]
    rw [e]
    simp only [List.mem_cons] at hi
    simp only [List.length_append, List.length_cons]
    rcases hi with rfl | hi
    · omega
    · have := ih hi; omega

theorem firstErrList_none (L : List Instruction) (h : ∀ i ∈ L, firstErr i = none) : firstErrList L = none := by
  induction L with
  | nil => rfl
  | cons i L ih =>
    simp [firstErrList, firstSome, h i (by simp), ih (fun j hj => h j (by simp [hj]))]

/-- the canonical form prints like the original (the printer sorts anyway) -/
theorem toks_canonInstr (F : NumFmt) (i : Instruction) (hp : parsedInstr i = true) (hk : lineKind i = true) :
    toks F (canonInstr i) = toks F i := by
  have hinv : ∀ w : WaveformInvocation, invocationOk w = true →
      invocationToks F (canonInvocation w) = invocationToks F w := by
    intro w hw
    simp only [invocationOk, Bool.and_eq_true, distinctKeys, decide_eq_true_eq] at hw
    have hidem := sortKV_idem w.parameters hw.1.2
    have hemp : (sortKV w.parameters).isEmpty = w.parameters.isEmpty := by
      cases hps : w.parameters with
      | nil => rfl
      | cons x xs =>
        have : x ∈ sortKV (x :: xs) := mem_sortKV.mpr (by simp)
        cases hs : sortKV (x :: xs) with
        | nil => rw [hs] at this; simp at this
        | cons a b => rfl
    simp only [invocationToks, canonInvocation, hidem, hemp]
  cases i with
  | capture c =>
    simp only [parsedInstr, Bool.and_eq_true] at hp
    simp [canonInstr, toks, hinv _ hp.2]
  | pulse c =>
    simp only [parsedInstr, Bool.and_eq_true] at hp
    simp [canonInstr, toks, hinv _ hp.2]
  | calibrationDefinition _ _ => simp [lineKind] at hk
  | measureCalibrationDefinition _ _ => simp [lineKind] at hk
  | circuitDefinition _ _ _ _ => simp [lineKind] at hk
  | _ => simp [canonInstr]

theorem firstErr_canonInstr (i : Instruction) (hk : lineKind i = true) : firstErr (canonInstr i) = firstErr i := by
  cases i with
  | calibrationDefinition _ _ => simp [lineKind] at hk
  | measureCalibrationDefinition _ _ => simp [lineKind] at hk
  | circuitDefinition _ _ _ _ => simp [lineKind] at hk
  | _ => simp [canonInstr, firstErr, canonInvocation]

theorem programRaw_map_canon (F : NumFmt) (L : List Instruction) (hp : ∀ i ∈ L, parsedInstr i = true)
    (hk : ∀ i ∈ L, lineKind i = true) : programRaw F (L.map canonInstr) = programRaw F L := by
  induction L with
  | nil => rfl
  | cons i L ih =>
    simp only [programRaw, List.map_cons, List.flatMap_cons] at ih ⊢
    rw [toks_canonInstr F i (hp i (by simp)) (hk i (by simp)),
      ih (fun j hj => hp j (by simp [hj])) (fun j hj => hk j (by simp [hj]))]

theorem blockOk_of_lineKind (F : NumFmt) (i : Instruction) (hk : lineKind i = true)
    (hn : numTokInstr F i = true) : blockOk (toks F i) = true := by
  obtain ⟨t, r, ht, _⟩ := toks_head F i
  exact blockOk_of_noNL _ (by rw [ht]; simp) (fun t ht h => noNL_of_lineKind F i hk hn (h ▸ ht))

end QV.C02
