import QV.C02.LemmasKinds3
/-!
C02 lemmas, part 11 (core Lean only): CALL.  `parse_call_argument` = memory reference with brackets | identifier |
immediate; `parse_call_immediate` reads `[-] value`, then LOOKS AHEAD for `(+|-) value` and merges the two when the
first is real and the second purely imaginary and non-zero.  The printer writes a complex immediate as
`[-]re(+|-)im i` (merged back), and puts a `0` before a negative imaginary immediate that follows a real one (so
that it is not merged into its predecessor).
-/
set_option maxRecDepth 4000
namespace QV.C02
open QV QV.Tok QV.Ast QV.Parse QV.Print QV.ExprPrint QV.ExprRoundTrip

/-! ## the pieces of `parse_call_immediate` -/

/-- the look-ahead of `parse_call_immediate` (command.rs:159), after the first value -/
def callLook (first : CBits) : Parser CBits := fun input =>
  match opt (alt (preceded (tok (.operator .plus)) parseImmediateValue)
      (pmap cNegate (preceded (tok (.operator .minus)) parseImmediateValue))) input with
  | .ok (some second) rest =>
    if Parse.fIsZero first.im && Parse.fIsZero second.re && !Parse.fIsZero second.im then
      .ok (cAddGuarded first second) rest
    else .ok first input
  | .ok none _ => .ok first input
  | .err => .err | .fail => .fail | .crash w => .crash w

theorem parseCallImmediate_eq (input : List Token) :
    parseCallImmediate input =
      match opt (tok (.operator .minus)) input with
      | .ok m r1 =>
        match parseImmediateValue r1 with
        | .ok f r2 => callLook (if m.isSome then cNegate f else f) r2
        | .err => .err | .fail => .fail | .crash w => .crash w
      | .err => .err | .fail => .fail | .crash w => .crash w := by
  unfold parseCallImmediate callLook
  cases h1 : opt (tok (.operator .minus)) input with
  | ok m r1 =>
    cases h2 : parseImmediateValue r1 <;> simp only [Bind.bind, Parser.bind, h1, h2] <;> rfl
  | err => simp [Bind.bind, Parser.bind, h1]
  | fail => simp [Bind.bind, Parser.bind, h1]
  | crash w => simp [Bind.bind, Parser.bind, h1]

/-- the next token is not the identifier `i` -/
def notI : List Token → Bool
  | .identifier s :: _ => s != ['i']
  | _ => true

/-- a number token followed by something that is not `i` is a real value -/
theorem imm_real (t : Token) (m : Nat) (next : List Token) (ht : tokBits t = some m) (hn : notI next = true) :
    parseImmediateValue (t :: next) = .ok ⟨m, 0⟩ next := by
  have hI : opt parseI next = .ok none next := by
    cases next with
    | nil => rfl
    | cons u r =>
      cases u <;> simp_all [opt, parseI, notI]
  cases t <;> simp_all [tokBits, parseImmediateValue, CBits.real, zeroBits, u64ToF64]

/-- a number token followed by `i` is an imaginary value -/
theorem imm_imag (t : Token) (m : Nat) (next : List Token) (ht : tokBits t = some m) :
    parseImmediateValue (t :: tokI :: next) = .ok ⟨0, m⟩ next := by
  have hI : opt parseI (tokI :: next) = .ok (some ()) next := rfl
  cases t <;> simp_all [tokBits, parseImmediateValue, CBits.imag, zeroBits, u64ToF64]

theorem imm_err (t : Token) (next : List Token) (ht : tokBits t = none) :
    parseImmediateValue (t :: next) = .err := by
  cases t <;> simp_all [tokBits, parseImmediateValue]

theorem optParseI_cases (r : List Token) : (∃ v r', opt parseI r = .ok v r') := by
  cases r with
  | nil => exact ⟨none, [], rfl⟩
  | cons u r' =>
    cases u with
    | identifier s =>
      by_cases hs : s = ['i']
      · exact ⟨some (), r', by simp [opt, parseI, hs]⟩
      · exact ⟨none, .identifier s :: r', by simp [opt, parseI, hs]⟩
    | _ => exact ⟨none, _, rfl⟩

/-- `parse_immediate_value` returns a value or a recoverable error, nothing else -/
theorem imm_cases (r : List Token) : (∃ v r', parseImmediateValue r = .ok v r') ∨ parseImmediateValue r = .err := by
  cases r with
  | nil => exact Or.inr rfl
  | cons t r' =>
    obtain ⟨v, r'', hv⟩ := optParseI_cases r'
    cases t with
    | integer n =>
      cases v with
      | none => exact Or.inl ⟨CBits.real (u64ToF64 n), r'', by simp [parseImmediateValue, hv]⟩
      | some u => exact Or.inl ⟨CBits.imag (u64ToF64 n), r'', by simp [parseImmediateValue, hv]⟩
    | float b =>
      cases v with
      | none => exact Or.inl ⟨CBits.real b, r'', by simp [parseImmediateValue, hv]⟩
      | some u => exact Or.inl ⟨CBits.imag b, r'', by simp [parseImmediateValue, hv]⟩
    | _ => exact Or.inr rfl

/-- what may follow a REAL immediate without being merged into it: not `+ …`, not `- number i` -/
def noMerge : List Token → Bool
  | .operator .plus :: _ => false
  | .operator .minus :: t :: r => !((tokBits t).isSome && !notI r)
  | _ => true

theorem fIsZero_zero : Parse.fIsZero 0 = true := by decide

theorem callLook_keep (first : CBits) (next : List Token)
    (h : Parse.fIsZero first.im = false ∨ noMerge next = true) : callLook first next = .ok first next := by
  unfold callLook
  cases next with
  | nil => simp [opt, alt, preceded, pmap, tok, Parser.bind, Outcome.map]
  | cons u r =>
    by_cases hp : u = .operator .plus
    · subst hp
      rcases h with h | h
      · rcases imm_cases r with ⟨v, r', hv⟩ | hv <;>
          simp [opt, alt, preceded, pmap, tok, Parser.bind, Outcome.map, hv, h]
      · simp [noMerge] at h
    · by_cases hm : u = .operator .minus
      · subst hm
        cases r with
        | nil => simp [opt, alt, preceded, pmap, tok, Parser.bind, Outcome.map, parseImmediateValue]
        | cons t r' =>
          cases htb : tokBits t with
          | none =>
            simp [opt, alt, preceded, pmap, tok, Parser.bind, Outcome.map, imm_err t r' htb]
          | some m =>
            rcases h with h | h
            · rcases imm_cases (t :: r') with ⟨v, r'', hv⟩ | hv <;>
                simp [opt, alt, preceded, pmap, tok, Parser.bind, Outcome.map, hv, h]
            · have hni : notI r' = true := by simpa [noMerge, htb] using h
              have hv := imm_real t m r' htb hni
              simp [opt, alt, preceded, pmap, tok, Parser.bind, Outcome.map, hv, cNegate, fZeroMinus, fIsZero_zero]
      · simp [opt, alt, preceded, pmap, tok, Parser.bind, Outcome.map, hp, hm]

/-! ## bit-level facts -/

theorem fIsZero_eq (b : Nat) : Parse.fIsZero b = fZero b := rfl

theorem two63_val : two63 = 9223372036854775808 := rfl

/-- a plain (finite, not `-0.0`) non-zero double: its sign, magnitude, and what negating the magnitude gives -/
theorem plain_sign (b : Nat) (h : plainBits b = true) (h0 : b ≠ 0) :
    fZero b = false ∧ fZero (fAbs b) = false ∧
      ((fSign b = false ∧ fAbs b = b) ∨ (fSign b = true ∧ fAbs b = b - two63 ∧ fZeroMinus (fAbs b) = b)) := by
  have hb : b < two64 ∧ b % two63 < infBits ∧ b ≠ two63 := by
    have : (b < two64 ∧ b % two63 < infBits) ∧ ¬b = two63 := by simpa [plainBits] using h
    exact ⟨this.1.1, this.1.2, this.2⟩
  have e64 : two64 = 18446744073709551616 := rfl
  have einf : infBits = 9218868437227405312 := rfl
  rw [e64, two63_val, einf] at hb
  by_cases hs : two63 ≤ b
  · rw [two63_val] at hs
    have habs : fAbs b = b - two63 := by unfold fAbs; rw [two63_val]; simp [hs]
    refine ⟨by simp [fZero, two63_val, h0, hb.2.2], ?_, Or.inr ⟨by simp [fSign, two63_val, hs], habs, ?_⟩⟩
    · rw [habs]; simp only [fZero, two63_val, Bool.or_eq_false_iff, beq_eq_false_iff_ne, ne_eq]; omega
    · rw [habs]
      have hz : Parse.fIsZero (b - two63) = false := by
        simp only [Parse.fIsZero, negZeroBits, two63_val, Bool.or_eq_false_iff, beq_eq_false_iff_ne, ne_eq]; omega
      simp only [fZeroMinus, hz, Bool.false_eq_true, if_false, QV.DecF64.negBits]
      have e : QV.DecF64.two63 = 9223372036854775808 := rfl
      rw [e, two63_val]
      split <;> omega
  · rw [two63_val] at hs
    have habs : fAbs b = b := by unfold fAbs; rw [two63_val]; simp [hs]
    refine ⟨by simp [fZero, two63_val, h0, hb.2.2], ?_, Or.inl ⟨by simp [fSign, two63_val, hs], habs⟩⟩
    rw [habs]; simp [fZero, two63_val, h0, hb.2.2]

theorem plain_zero_of_fZero (b : Nat) (h : plainBits b = true) (hz : fZero b = true) : b = 0 := by
  have hb : b ≠ two63 := by
    have : (b < two64 ∧ b % two63 < infBits) ∧ ¬b = two63 := by simpa [plainBits] using h
    exact this.2
  simp only [fZero, Bool.or_eq_true, beq_iff_eq] at hz
  rcases hz with h | h
  · exact h
  · exact absurd h hb

/-- a signed component: the tokens `[-] T` and what they denote -/
theorem signed_parse (f : Nat → Token) (b : Nat) (h : plainBits b = true) (h0 : b ≠ 0)
    (ht : tokBits (f (fAbs b)) = some (fAbs b)) :
    ∃ T, tokBits T = some (fAbs b) ∧
      ((fSign b = false ∧ signedToks f b = [T] ∧ fAbs b = b) ∨
       (fSign b = true ∧ signedToks f b = [.operator .minus, T] ∧ fZeroMinus (fAbs b) = b)) := by
  obtain ⟨_, _, hcase⟩ := plain_sign b h h0
  rcases hcase with ⟨hs, habs⟩ | ⟨hs, habs, hneg⟩
  · refine ⟨f b, by rw [habs] at ht; rw [habs]; exact ht, Or.inl ⟨hs, by simp [signedToks, hs], habs⟩⟩
  · refine ⟨f (b - two63), by rw [habs] at ht; rw [habs]; exact ht, Or.inr ⟨hs, by simp [signedToks, hs], hneg⟩⟩

/-! ## merging `re (+|-) im i` -/

theorem callLook_plus (first : CBits) (Q : Token) (m : Nat) (next : List Token) (hq : tokBits Q = some m)
    (hf : Parse.fIsZero first.im = true) (hm : Parse.fIsZero m = false) :
    callLook first (.operator .plus :: Q :: tokI :: next) = .ok (cAddGuarded first ⟨0, m⟩) next := by
  unfold callLook
  simp [opt, alt, preceded, pmap, tok, Parser.bind, Outcome.map, imm_imag Q m next hq, hf, hm, fIsZero_zero]

theorem callLook_minus (first : CBits) (Q : Token) (m : Nat) (next : List Token) (hq : tokBits Q = some m)
    (hf : Parse.fIsZero first.im = true) (hm : Parse.fIsZero (fZeroMinus m) = false) :
    callLook first (.operator .minus :: Q :: tokI :: next) = .ok (cAddGuarded first ⟨0, fZeroMinus m⟩) next := by
  unfold callLook
  have hz : fZeroMinus 0 = 0 := by decide
  simp [opt, alt, preceded, pmap, tok, Parser.bind, Outcome.map, imm_imag Q m next hq, hf, hm, fIsZero_zero,
    cNegate, hz]

theorem fAddZero_left (x : Nat) (h : Parse.fIsZero x = false) : fAddZero x 0 = x := by
  simp [fAddZero, h]

theorem fAddZero_right (y : Nat) (h : Parse.fIsZero y = false) : fAddZero 0 y = y := by
  simp [fAddZero, fIsZero_zero, h]

theorem fAddZero_zero : fAddZero 0 0 = 0 := by decide

theorem fGtZero_plain (b : Nat) (h : plainBits b = true) (h0 : b ≠ 0) : fGtZero b = !fSign b := by
  have hb : (b < two64 ∧ b % two63 < infBits) ∧ ¬b = two63 := by simpa [plainBits] using h
  have e64 : two64 = 18446744073709551616 := rfl
  have einf : infBits = 9218868437227405312 := rfl
  rw [e64, two63_val, einf] at hb
  by_cases hs : two63 ≤ b
  · rw [two63_val] at hs
    have : ¬ b ≤ infBits := by rw [einf]; omega
    simp [fGtZero, fSign, two63_val, hs, this]
  · rw [two63_val] at hs
    have h1 : b ≤ infBits := by rw [einf]; omega
    have h2 : 0 < b := by omega
    simp [fGtZero, fSign, two63_val, hs, h1, h2]

theorem fZeroMinus_zero : fZeroMinus 0 = 0 := by decide

/-! ## one immediate argument -/

/-- the `0` prefix is written only before a negative purely imaginary immediate -/
def zeroPrefixOk (zp : Bool) (z : CBits) : Bool := !zp || (fZero z.re && fLtZero z.im)

/-- `parse_call_immediate` on a printed immediate (with or without the `0` prefix), followed by `next`:
`next` must not start with `i` / be mergeable when the immediate is real-valued (`fZero z.im`) -/
theorem parseCallImmediate_toks (F : NumFmt) (z : CBits) (hre : plainBits z.re = true)
    (him : plainBits z.im = true) (hn : numTokOkAt F z = true) (zp : Bool) (hzp : zeroPrefixOk zp z = true)
    (next : List Token) (hnext : fZero z.im = true → notI next = true ∧ noMerge next = true) :
    parseCallImmediate ((if zp then [Token.integer 0] else []) ++ complexToks F z ++ next) = .ok z next := by
  obtain ⟨re, im⟩ := z
  simp only [numTokOkAt, Bool.and_eq_true, beq_iff_eq] at hn
  simp only at hre him hnext hzp
  by_cases hzr : fZero re = true
  · have hre0 : re = 0 := plain_zero_of_fZero re hre hzr
    subst hre0
    by_cases hzi : fZero im = true
    · -- zero
      have him0 : im = 0 := plain_zero_of_fZero im him hzi
      subst him0
      have hzp' : zp = false := by
        cases zp
        · rfl
        · simp [zeroPrefixOk, fLtZero] at hzp
      subst hzp'
      obtain ⟨h1, h2⟩ := hnext hzi
      rw [parseCallImmediate_eq]
      simp only [complexToks, hzr, Bool.and_self, if_true, Bool.false_eq_true, if_false, List.nil_append,
        List.singleton_append]
      simp only [opt, tok, reduceCtorEq, if_false, Option.isSome_none, Bool.false_eq_true]
      rw [imm_real (.integer 0) 0 next (by simp [tokBits, ofNat_zero]) h1]
      simp only
      exact callLook_keep _ _ (Or.inr h2)
    · -- purely imaginary
      have hzi' : fZero im = false := by simpa using hzi
      have him0 : im ≠ 0 := by intro h; subst h; simp [fZero] at hzi'
      obtain ⟨Q, hQ, hcase⟩ := signed_parse F.imag im him him0 hn.2
      obtain ⟨_, hzabs, _⟩ := plain_sign im him him0
      have htoks : complexToks F ⟨0, im⟩ = signedToks F.imag im ++ [tokI] := by
        simp [complexToks, hzr, hzi']
      rw [htoks]
      rcases hcase with ⟨hs, hst, habs⟩ | ⟨hs, hst, hneg⟩
      · -- positive
        have hzp' : zp = false := by
          cases zp
          · rfl
          · have : fLtZero im = false := by
              simp only [fSign, decide_eq_false_iff_not, Nat.not_le] at hs
              simp [fLtZero]; omega
            simp [zeroPrefixOk, this] at hzp
        subst hzp'
        rw [hst, parseCallImmediate_eq]
        have hQm : Q ≠ .operator .minus := by intro h; subst h; simp [tokBits] at hQ
        simp only [Bool.false_eq_true, if_false, List.nil_append, List.singleton_append, List.cons_append, opt, tok,
          hQm, Option.isSome_none]
        rw [imm_imag Q _ next hQ]
        simp only
        rw [habs]
        exact callLook_keep _ _ (Or.inl (by rw [fIsZero_eq]; exact hzi'))
      · -- negative
        have hfz : Parse.fIsZero (fZeroMinus (fAbs im)) = false := by rw [hneg, fIsZero_eq]; exact hzi'
        cases zp with
        | false =>
          rw [hst, parseCallImmediate_eq]
          simp only [Bool.false_eq_true, if_false, List.nil_append, List.cons_append, opt, tok, if_true,
            Option.isSome_some]
          rw [imm_imag Q _ next hQ]
          simp only [if_true, cNegate, fZeroMinus, fIsZero_zero]
          rw [show (if Parse.fIsZero (fAbs im) = true then 0 else QV.DecF64.negBits (fAbs im)) = im from hneg]
          exact callLook_keep _ _ (Or.inl (by rw [fIsZero_eq]; exact hzi'))
        | true =>
          rw [hst, parseCallImmediate_eq]
          simp only [if_true, List.singleton_append, List.cons_append, List.nil_append, opt, tok, reduceCtorEq,
            if_false, Option.isSome_none, Bool.false_eq_true]
          rw [imm_real (.integer 0) 0 _ (by simp [tokBits, ofNat_zero]) rfl]
          simp only
          rw [callLook_minus ⟨0, 0⟩ Q (fAbs im) next hQ fIsZero_zero hfz]
          have hfi : Parse.fIsZero im = false := by rw [fIsZero_eq]; exact hzi'
          simp [cAddGuarded, fAddZero_zero, hneg, fAddZero_right im hfi]
  · -- the real part is not zero
    have hzr' : fZero re = false := by simpa using hzr
    have hre0 : re ≠ 0 := by intro h; subst h; simp [fZero] at hzr'
    have hzp' : zp = false := by
      cases zp
      · rfl
      · simp [zeroPrefixOk, hzr'] at hzp
    subst hzp'
    obtain ⟨P, hP, hcaseR⟩ := signed_parse F.real re hre hre0 hn.1
    have hfr : Parse.fIsZero re = false := by rw [fIsZero_eq]; exact hzr'
    have hPm : P ≠ .operator .minus := by intro h; subst h; simp [tokBits] at hP
    -- the real part, followed by `after` (which does not start with `i`), then the look-ahead
    have hreal : ∀ after, notI after = true →
        parseCallImmediate (signedToks F.real re ++ after) = callLook ⟨re, 0⟩ after := by
      intro after hni
      rw [parseCallImmediate_eq]
      rcases hcaseR with ⟨hs, hst, habs⟩ | ⟨hs, hst, hneg⟩
      · rw [hst]
        simp only [List.singleton_append, opt, tok, hPm, if_false, Option.isSome_none, Bool.false_eq_true]
        rw [imm_real P _ after hP hni, habs]
      · rw [hst]
        simp only [List.cons_append, List.nil_append, opt, tok, if_true, Option.isSome_some]
        rw [imm_real P _ after hP hni]
        simp only [if_true, cNegate, hneg, fZeroMinus_zero]
    by_cases hzi : fZero im = true
    · have him0 : im = 0 := plain_zero_of_fZero im him hzi
      subst him0
      obtain ⟨h1, h2⟩ := hnext hzi
      have htoks : complexToks F ⟨re, 0⟩ = signedToks F.real re := by simp [complexToks, hzr', hzi]
      simp only [Bool.false_eq_true, if_false, List.nil_append, htoks]
      rw [hreal next h1]
      exact callLook_keep _ _ (Or.inr h2)
    · have hzi' : fZero im = false := by simpa using hzi
      have him0 : im ≠ 0 := by intro h; subst h; simp [fZero] at hzi'
      obtain ⟨Q, hQ, hcaseI⟩ := signed_parse F.imag im him him0 hn.2
      have hfi : Parse.fIsZero im = false := by rw [fIsZero_eq]; exact hzi'
      have hgt := fGtZero_plain im him him0
      rcases hcaseI with ⟨hs, hst, habs⟩ | ⟨hs, hst, hneg⟩
      · have htoks : complexToks F ⟨re, im⟩ ++ next =
            signedToks F.real re ++ (.operator .plus :: Q :: tokI :: next) := by
          simp [complexToks, hzr', hzi', hgt, hs, hst]
        simp only [Bool.false_eq_true, if_false, List.nil_append, htoks]
        rw [hreal _ rfl, callLook_plus ⟨re, 0⟩ Q _ next hQ fIsZero_zero (by rw [habs]; exact hfi)]
        simp [cAddGuarded, habs, fAddZero_left re hfr, fAddZero_right im hfi]
      · have htoks : complexToks F ⟨re, im⟩ ++ next =
            signedToks F.real re ++ (.operator .minus :: Q :: tokI :: next) := by
          simp [complexToks, hzr', hzi', hgt, hs, hst]
        simp only [Bool.false_eq_true, if_false, List.nil_append, htoks]
        rw [hreal _ rfl, callLook_minus ⟨re, 0⟩ Q _ next hQ fIsZero_zero (by rw [hneg]; exact hfi)]
        simp [cAddGuarded, hneg, fAddZero_left re hfr, fAddZero_right im hfi]

/-! ## the argument list -/

theorem fLtZero_plain (b : Nat) (h : plainBits b = true) (hs : fSign b = true) : fLtZero b = true := by
  have hb : (b < two64 ∧ b % two63 < infBits) ∧ ¬b = two63 := by simpa [plainBits] using h
  have e64 : two64 = 18446744073709551616 := rfl
  have einf : infBits = 9218868437227405312 := rfl
  have eninf : negInfBits = 18442240474082181120 := rfl
  rw [e64, two63_val, einf] at hb
  have hs' : 9223372036854775808 ≤ b := by
    have : two63 ≤ b := by simpa [fSign] using hs
    rwa [two63_val] at this
  simp only [fLtZero, two63_val, eninf, Bool.and_eq_true, decide_eq_true_eq]
  obtain ⟨⟨h1, h2⟩, h3⟩ := hb
  obtain ⟨c, rfl⟩ := Nat.exists_eq_add_of_le hs'
  have hc : c < 9223372036854775808 := by omega
  rw [Nat.add_mod_left, Nat.mod_eq_of_lt hc] at h2
  exact ⟨decide_eq_true (by omega), by omega⟩

/-- a number token or a minus sign: what a printed immediate begins with -/
def numOrMinus : Token → Bool
  | .operator .minus => true
  | t => (tokBits t).isSome

/-- an immediate argument the lemmas can handle: plain components, NumTok hypothesis -/
def immOk (F : NumFmt) (z : CBits) : Bool := plainBits z.re && plainBits z.im && numTokOkAt F z

/-- the shape of a printed immediate: its first token, and — when it is real-valued and negative — that the
token after `- P` is the first token of what follows -/
theorem complexToks_shape (F : NumFmt) (z : CBits) (h : immOk F z = true) :
    ∃ t r, complexToks F z = t :: r ∧ numOrMinus t = true ∧
      (t = .operator .minus → ∃ P r', r = P :: r' ∧ (tokBits P).isSome = true ∧
        (fZero z.im = true → r' = []) ∧ (fZero z.im = false → fZero z.re = false → notI r' = true ∧ r' ≠ []) ∧
        (fZero z.re = true → fLtZero z.im = true)) := by
  obtain ⟨re, im⟩ := z
  simp only [immOk, numTokOkAt, Bool.and_eq_true, beq_iff_eq] at h
  obtain ⟨⟨hre, him⟩, hnr, hni⟩ := h
  by_cases hzr : fZero re = true
  · by_cases hzi : fZero im = true
    · exact ⟨.integer 0, [], by simp [complexToks, hzr, hzi], rfl, by simp⟩
    · have hzi' : fZero im = false := by simpa using hzi
      have him0 : im ≠ 0 := by intro h; subst h; simp [fZero] at hzi'
      obtain ⟨Q, hQ, hc⟩ := signed_parse F.imag im him him0 hni
      have htoks : complexToks F ⟨re, im⟩ = signedToks F.imag im ++ [tokI] := by
        simp [complexToks, hzr, hzi']
      rcases hc with ⟨_, hst, _⟩ | ⟨hsgn, hst, _⟩
      · refine ⟨Q, [tokI], by rw [htoks, hst]; rfl, by
          cases Q <;> simp_all [numOrMinus, tokBits], ?_⟩
        intro hq; subst hq; simp [tokBits] at hQ
      · refine ⟨.operator .minus, [Q, tokI], by rw [htoks, hst]; rfl, rfl, ?_⟩
        intro _
        exact ⟨Q, [tokI], rfl, by simp [hQ], by simp [hzi'], by simp [hzr], fun _ => fLtZero_plain im him hsgn⟩
  · have hzr' : fZero re = false := by simpa using hzr
    have hre0 : re ≠ 0 := by intro h; subst h; simp [fZero] at hzr'
    obtain ⟨P, hP, hc⟩ := signed_parse F.real re hre hre0 hnr
    have hPn : numOrMinus P = true := by cases P <;> simp_all [numOrMinus, tokBits]
    have hPm : P ≠ .operator .minus := by intro h; subst h; simp [tokBits] at hP
    by_cases hzi : fZero im = true
    · have htoks : complexToks F ⟨re, im⟩ = signedToks F.real re := by simp [complexToks, hzr', hzi]
      rcases hc with ⟨_, hst, _⟩ | ⟨_, hst, _⟩
      · exact ⟨P, [], by rw [htoks, hst], hPn, fun h => absurd h hPm⟩
      · refine ⟨.operator .minus, [P], by rw [htoks, hst], rfl, fun _ => ⟨P, [], rfl, by simp [hP], by simp, ?_, ?_⟩⟩
        · intro h; simp [hzi] at h
        · intro h; simp [hzr'] at h
    · have hzi' : fZero im = false := by simpa using hzi
      have htoks : complexToks F ⟨re, im⟩ = signedToks F.real re ++
          ((if fGtZero im then [Token.operator .plus] else []) ++ signedToks F.imag im ++ [tokI]) := by
        simp [complexToks, hzr', hzi']
      have htail : ∃ o r'', ((if fGtZero im then [Token.operator .plus] else []) ++ signedToks F.imag im ++ [tokI]) =
          .operator o :: r'' := by
        by_cases hg : fGtZero im = true
        · exact ⟨.plus, signedToks F.imag im ++ [tokI], by simp [hg]⟩
        · have him0 : im ≠ 0 := by intro h; subst h; simp [fZero] at hzi'
          have hgt := fGtZero_plain im him him0
          have hs : fSign im = true := by
            cases hsv : fSign im
            · rw [hsv] at hgt; simp at hgt; exact absurd hgt hg
            · rfl
          exact ⟨.minus, [F.imag (im - two63), tokI], by simp [hg, signedToks, hs]⟩
      obtain ⟨o, r'', htl⟩ := htail
      rcases hc with ⟨_, hst, _⟩ | ⟨_, hst, _⟩
      · exact ⟨P, _, by rw [htoks, hst]; rfl, hPn, fun h => absurd h hPm⟩
      · refine ⟨.operator .minus, _, by rw [htoks, hst]; rfl, rfl, fun _ => ⟨P, _, rfl, by simp [hP], ?_, ?_, ?_⟩⟩
        · intro h; simp [hzi'] at h
        · intro _ _; rw [htl]; exact ⟨rfl, by simp⟩
        · intro h; simp [hzr'] at h

def callArgOkP (F : NumFmt) : UnresolvedCallArgument → Bool
  | .immediate z => immOk F z
  | _ => true

/-- does the list NOT begin with `[`? -/
def notBracket : List Token → Bool
  | .lBracket :: _ => false
  | _ => true

theorem notI_append (a b : List Token) (h : notI a = true) (hne : a ≠ []) : notI (a ++ b) = true := by
  cases a with
  | nil => exact absurd rfl hne
  | cons t r => cases t <;> simp_all [notI]

theorem name_ne_i (s : String) (h : (s == "i") = false) : (s.toList != ['i']) = true := by
  simp only [bne_iff_ne, ne_eq]
  intro hs
  have : s = "i" := by
    have : s = String.ofList s.toList := by simp
    rw [this, hs]
  simp [this] at h

/-- what the printed arguments after `prev` begin with -/
theorem stream_head (F : NumFmt) (rest : List Token) :
    ∀ (args : List UnresolvedCallArgument) (prev : Option UnresolvedCallArgument),
      args.all (callArgOkP F) = true → chainOk prev args = true →
      notBracket (callArgsToks F prev args ++ .newLine :: rest) = true ∧
        (isRealImm prev = true →
          notI (callArgsToks F prev args ++ .newLine :: rest) = true ∧
          noMerge (callArgsToks F prev args ++ .newLine :: rest) = true) := by
  intro args
  induction args with
  | nil => intro prev _ _; exact ⟨rfl, fun _ => ⟨rfl, rfl⟩⟩
  | cons a args ih =>
    intro prev hok hch
    simp only [List.all_cons, Bool.and_eq_true] at hok
    simp only [chainOk, Bool.and_eq_true, Bool.not_eq_true', Bool.and_eq_false_iff] at hch
    have ih' := ih (some a) hok.2 hch.2
    cases a with
    | identifier s =>
      have hz : callZeroPrefix prev (.identifier s) = [] := by
        cases prev with
        | none => rfl
        | some q => cases q <;> rfl
      simp only [callArgsToks, hz, callArgToks, identTok, List.nil_append, List.singleton_append, List.cons_append]
      refine ⟨rfl, fun hr => ⟨?_, rfl⟩⟩
      rcases hch.1 with h | h
      · rw [hr] at h; cases h
      · exact name_ne_i s (by simpa [namedI] using h)
    | memoryReference r =>
      have hz : callZeroPrefix prev (.memoryReference r) = [] := by
        cases prev with
        | none => rfl
        | some q => cases q <;> rfl
      simp only [callArgsToks, hz, callArgToks, memRefToks, identTok, List.nil_append, List.cons_append]
      refine ⟨rfl, fun hr => ⟨?_, rfl⟩⟩
      rcases hch.1 with h | h
      · rw [hr] at h; cases h
      · exact name_ne_i r.name (by simpa [namedI] using h)
    | immediate w =>
      have hw : immOk F w = true := hok.1
      obtain ⟨t, r, htoks, hnm, hminus⟩ := complexToks_shape F w hw
      simp only [callArgsToks, callArgToks, htoks, List.append_assoc, List.cons_append]
      by_cases hzp : callZeroPrefix prev (.immediate w) = [.integer 0]
      · rw [hzp]; exact ⟨rfl, fun _ => ⟨rfl, rfl⟩⟩
      · have hzp' : callZeroPrefix prev (.immediate w) = [] := by
          unfold callZeroPrefix at hzp ⊢
          split
          · split <;> simp_all
          · rfl
        rw [hzp']
        simp only [List.nil_append]
        have hnb : notBracket (t :: (r ++ (callArgsToks F (some (.immediate w)) args ++ .newLine :: rest))) = true := by
          cases t <;> simp_all [numOrMinus, tokBits, notBracket]
        refine ⟨hnb, fun hr => ?_⟩
        by_cases htm : t = .operator .minus
        · subst htm
          obtain ⟨P, r', hr', hP, h1, h2, h3⟩ := hminus rfl
          subst hr'
          refine ⟨rfl, ?_⟩
          simp only [List.cons_append, noMerge, hP, Bool.true_and, Bool.not_not]
          by_cases hzi : fZero w.im = true
          · rw [h1 hzi]; exact (ih'.2 (by simpa [isRealImm] using hzi)).1
          · have hzi' : fZero w.im = false := by simpa using hzi
            by_cases hzr : fZero w.re = true
            · -- a negative purely imaginary immediate after a real one gets the `0` prefix
              exfalso
              have hlt := h3 hzr
              obtain ⟨p, hp⟩ : ∃ p, prev = some (.immediate p) ∧ fZero p.im = true := by
                cases prev with
                | none => simp [isRealImm] at hr
                | some q =>
                  cases q with
                  | immediate p => exact ⟨p, rfl, by simpa [isRealImm] using hr⟩
                  | _ => simp [isRealImm] at hr
              apply hzp
              rw [hp.1]
              simp [callZeroPrefix, hp.2, hzr, hlt]
            · have hzr' : fZero w.re = false := by simpa using hzr
              obtain ⟨hni, hne⟩ := h2 hzi' hzr'
              exact notI_append _ _ hni hne
        · have hts : (tokBits t).isSome = true := by
            cases t with
            | operator o => cases o <;> simp_all [numOrMinus, tokBits]
            | _ => simp_all [numOrMinus, tokBits]
          constructor
          · cases t <;> simp_all [notI, tokBits]
          · cases t <;> simp_all [noMerge, tokBits]

theorem tok_lBracket_err (S : List Token) (h : notBracket S = true) : tok .lBracket S = .err := by
  cases S with
  | nil => rfl
  | cons t r => cases t <;> simp_all [tok, notBracket]

/-- one printed argument (with its `0` prefix, if any), followed by the rest of the printed arguments -/
theorem parseCallArgument_toks (F : NumFmt) (rest : List Token) (prev : Option UnresolvedCallArgument)
    (a : UnresolvedCallArgument) (args : List UnresolvedCallArgument)
    (hok : (a :: args).all (callArgOkP F) = true) (hch : chainOk prev (a :: args) = true) :
    parseCallArgument (callArgsToks F prev (a :: args) ++ .newLine :: rest) =
      .ok a (callArgsToks F (some a) args ++ .newLine :: rest) := by
  have hok' := hok
  simp only [List.all_cons, Bool.and_eq_true] at hok'
  have hch' := hch
  simp only [chainOk, Bool.and_eq_true] at hch'
  have hS := stream_head F rest args (some a) hok'.2 hch'.2
  cases a with
  | identifier s =>
    have hz : callZeroPrefix prev (.identifier s) = [] := by
      cases prev with
      | none => rfl
      | some q => cases q <;> rfl
    simp only [callArgsToks, hz, callArgToks, identTok, List.nil_append, List.singleton_append, List.cons_append]
    simp only [parseCallArgument, alt, pmap, parseMemoryReferenceWithBrackets, bind_eq, Parser.bind, tokIdentifier,
      delimited, tok_lBracket_err _ hS.1, Outcome.map, str_toList]
  | memoryReference r =>
    have hz : callZeroPrefix prev (.memoryReference r) = [] := by
      cases prev with
      | none => rfl
      | some q => cases q <;> rfl
    simp only [callArgsToks, hz, callArgToks, memRefToks, identTok, List.nil_append, List.cons_append]
    simp [parseCallArgument, alt, pmap, parseMemoryReferenceWithBrackets, Parser.bind, tokIdentifier,
      delimited, tok, tokInteger, Parser.pure, Outcome.map]
  | immediate w =>
    have hw : immOk F w = true := hok'.1
    have hw' := hw
    simp only [immOk, Bool.and_eq_true] at hw'
    obtain ⟨t, r, htoks, hnm, _⟩ := complexToks_shape F w hw
    -- the prefix as a flag
    have hzp : ∃ zp : Bool, callZeroPrefix prev (.immediate w) = (if zp then [Token.integer 0] else []) ∧
        zeroPrefixOk zp w = true := by
      cases prev with
      | none => exact ⟨false, rfl, by simp [zeroPrefixOk]⟩
      | some q =>
        cases q with
        | identifier s => exact ⟨false, rfl, by simp [zeroPrefixOk]⟩
        | memoryReference m => exact ⟨false, rfl, by simp [zeroPrefixOk]⟩
        | immediate p =>
          by_cases hc : (fZero p.im && fZero w.re && fLtZero w.im) = true
          · refine ⟨true, by simp [callZeroPrefix, hc], ?_⟩
            simp only [Bool.and_eq_true] at hc
            simp [zeroPrefixOk, hc.1.2, hc.2]
          · exact ⟨false, by simp [callZeroPrefix, hc], by simp [zeroPrefixOk]⟩
    obtain ⟨zp, hzpe, hzpo⟩ := hzp
    have himm := parseCallImmediate_toks F w hw'.1.1 hw'.1.2 hw'.2 zp hzpo
      (callArgsToks F (some (.immediate w)) args ++ .newLine :: rest)
      (fun hz => hS.2 (by simpa [isRealImm] using hz))
    have hlist : callArgsToks F prev (.immediate w :: args) ++ .newLine :: rest =
        (if zp then [Token.integer 0] else []) ++ complexToks F w ++
          (callArgsToks F (some (.immediate w)) args ++ .newLine :: rest) := by
      simp [callArgsToks, callArgToks, hzpe]
    -- the first token is a number or a minus sign: the first two alternatives fail
    have hhead : ∃ u rr, (if zp then [Token.integer 0] else []) ++ complexToks F w ++
        (callArgsToks F (some (.immediate w)) args ++ .newLine :: rest) = u :: rr ∧ numOrMinus u = true := by
      cases zp
      · exact ⟨t, r ++ (callArgsToks F (some (.immediate w)) args ++ .newLine :: rest), by simp [htoks], hnm⟩
      · exact ⟨.integer 0, complexToks F w ++ (callArgsToks F (some (.immediate w)) args ++ .newLine :: rest),
          by simp, rfl⟩
    obtain ⟨u, rr, hu, hun⟩ := hhead
    rw [hlist]
    rw [hu] at himm ⊢
    have hnid : tokIdentifier (u :: rr) = .err := by
      cases u <;> simp_all [numOrMinus, tokBits, tokIdentifier]
    simp only [parseCallArgument, alt, pmap, parseMemoryReferenceWithBrackets, bind_eq, Parser.bind, hnid,
      Outcome.map, himm]

theorem callArgToks_ne_nil (F : NumFmt) (a : UnresolvedCallArgument) (h : callArgOkP F a = true) :
    callArgToks F a ≠ [] := by
  cases a with
  | identifier s => simp [callArgToks]
  | memoryReference r => simp [callArgToks, memRefToks]
  | immediate w =>
    obtain ⟨t, r, htoks, _, _⟩ := complexToks_shape F w h
    simp [callArgToks, htoks]

theorem many0Fuel_callArgs (F : NumFmt) (rest : List Token) :
    ∀ (args : List UnresolvedCallArgument) (prev : Option UnresolvedCallArgument) (k : Nat),
      args.all (callArgOkP F) = true → chainOk prev args = true → args.length < k →
      many0Fuel parseCallArgument k (callArgsToks F prev args ++ .newLine :: rest) = .ok args (.newLine :: rest) := by
  intro args
  induction args with
  | nil =>
    intro prev k _ _ hk
    cases k with
    | zero => omega
    | succ k =>
      simp [many0Fuel, callArgsToks, parseCallArgument, alt, pmap, parseMemoryReferenceWithBrackets, Parser.bind,
        tokIdentifier, Outcome.map, parseCallImmediate_eq, opt, tok, parseImmediateValue]
  | cons a args ih =>
    intro prev k hok hch hk
    cases k with
    | zero => omega
    | succ k =>
      have h1 := parseCallArgument_toks F rest prev a args hok hch
      have hok' := hok
      simp only [List.all_cons, Bool.and_eq_true] at hok'
      have hch' := hch
      simp only [chainOk, Bool.and_eq_true] at hch'
      have hne := callArgToks_ne_nil F a hok'.1
      simp only [many0Fuel, h1]
      have hlen : ¬ ((callArgsToks F (some a) args ++ .newLine :: rest).length ==
          (callArgsToks F prev (a :: args) ++ .newLine :: rest).length) = true := by
        have : 0 < (callArgToks F a).length := List.length_pos_iff.mpr hne
        simp only [callArgsToks, List.length_append, List.length_cons, beq_iff_eq]
        omega
      simp only [hlen, if_false]
      rw [ih (some a) k hok'.2 hch'.2 (by simp at hk; omega)]
      rfl

theorem length_callArgsToks_ge (F : NumFmt) (args : List UnresolvedCallArgument) (prev : Option UnresolvedCallArgument)
    (hok : args.all (callArgOkP F) = true) : args.length ≤ (callArgsToks F prev args).length := by
  induction args generalizing prev with
  | nil => simp
  | cons a args ih =>
    simp only [List.all_cons, Bool.and_eq_true] at hok
    have : 0 < (callArgToks F a).length := List.length_pos_iff.mpr (callArgToks_ne_nil F a hok.1)
    have := ih (some a) hok.2
    simp only [callArgsToks, List.length_append, List.length_cons]
    omega

/-- CALL: the printed instruction reads back exactly -/
theorem rt_call (F : NumFmt) (d : Nat) (c : Call) (hok : c.arguments.all (callArgOkP F) = true)
    (hch : chainOk none c.arguments = true) : RT F d (.call c) (.call c) := by
  obtain ⟨name, args⟩ := c
  apply rt_of_command F d _ _ .call (identTok name :: callArgsToks F none args)
  · simp [toks]
  · intro rest
    have hm : many0 parseCallArgument (callArgsToks F none args ++ .newLine :: rest) = .ok args (.newLine :: rest) := by
      unfold many0
      apply many0Fuel_callArgs F rest args none _ hok hch
      have := length_callArgsToks_ge F args none hok
      simp only [List.length_append, List.length_cons]; omega
    simp only [parseCommand, parseCall, bind_eq, Parser.bind, identTok, tokIdentifier, List.cons_append, hm,
      pure_eq, Parser.pure, str_toList]

end QV.C02
