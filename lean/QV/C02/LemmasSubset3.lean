import QV.C02.LemmasSubset2
import QV.C02.LemmasCal2
import QV.C02.LemmasGate2
/-!
C02 lemmas, part 12 (core Lean only): the proved subset `provedKind` = `blockKind` and the kinds handled through
their line tokens (`nlKind`: DEFCAL, DEFCAL MEASURE, DEFCIRCUIT with bodies `bodyOk1` — one-line kinds, possibly
ending in a definition —, DEFGATE) — everything in terms of `lineToks`.
-/
namespace QV.C02
open QV QV.Tok QV.Ast QV.Parse QV.Print QV.ExprPrint QV.ExprRoundTrip

theorem provedKind_of_lineKind {i : Instruction} (h : lineKind i = true) : provedKind i = true := by
  simp [provedKind, blockKind, h]

theorem provedKind_cases {i : Instruction} (h : provedKind i = true) : blockKind i = true ∨ nlKind i = true := by
  simpa [provedKind] using h

theorem lineToks_of_blockKind (F : NumFmt) (i : Instruction) (hk : blockKind i = true)
    (hn : numTokInstr F i = true) : lineToks F i = toks F i :=
  stripNL_of_blockOk _ (blockOk_of_blockKind F i hk hn)

/-! ## bodies -/

/-- a body of the proved subset: one-line kinds, then one instruction of a block kind -/
theorem bodyOk1_split {body : List Instruction} (h : bodyOk1 body = true) (hne : body ≠ []) :
    ∃ ls t, body = ls ++ [t] ∧ (∀ i ∈ ls, lineKind i = true) ∧ blockKind t = true := by
  cases hl : body.getLast? with
  | none => simp [List.getLast?_eq_none_iff] at hl; exact absurd hl hne
  | some t =>
    simp only [bodyOk1, hl, Bool.and_eq_true] at h
    exact ⟨body.dropLast, t, eq_dropLast_snoc body t hl, fun i hi => List.all_eq_true.mp h.1 i hi, by
      simpa [blockKind] using h.2⟩

theorem bodyOk1_of_all_lineKind {body : List Instruction} (h : body.all lineKind = true) : bodyOk1 body = true := by
  simp only [bodyOk1, Bool.and_eq_true]
  constructor
  · rw [List.all_eq_true] at h ⊢
    exact fun i hi => h i ((List.dropLast_sublist _).subset hi)
  · cases hl : body.getLast? with
    | none => rfl
    | some t =>
      have := List.all_eq_true.mp h t (List.mem_of_getLast? hl)
      simp [this]

theorem bodyOk1_mem {body : List Instruction} (h : bodyOk1 body = true) : ∀ i ∈ body, blockKind i = true := by
  intro i hi
  have hne : body ≠ [] := by intro e; subst e; simp at hi
  obtain ⟨ls, t, rfl, hls, ht⟩ := bodyOk1_split h hne
  simp only [List.mem_append, List.mem_cons, List.not_mem_nil, or_false] at hi
  rcases hi with hi | rfl
  · simp [blockKind, hls i hi]
  · exact ht

theorem blockOk_cons_indent (b : List Token) (h : blockOk b = true) : blockOk (.indentation :: b) = true := by
  simp only [blockOk, Bool.and_eq_true] at h ⊢
  cases b with
  | nil => simp at h
  | cons t r =>
    refine ⟨by simp, ?_⟩
    simp only [List.cons_append]
    rw [noAdjNL_cons2]
    exact ⟨fun h' => Token.noConfusion h'.1, by simpa using h.2⟩

/-- the block of a definition with a body: header line, then the indented body blocks -/
theorem blockOk_header_body (F : NumFmt) (hdr : List Token) (body : List Instruction) (hne : hdr ≠ [])
    (hnl : Token.newLine ∉ hdr) (hk : ∀ i ∈ body, blockOk (toks F i) = true) :
    blockOk (hdr ++ body.flatMap (calItemToks F)) = true := by
  have e : hdr ++ body.flatMap (calItemToks F) = joinNL (hdr :: body.map (fun i => .indentation :: toks F i)) := by
    rw [← flatMap_joinNL]; rfl
  rw [e]
  apply blockOk_joinNL' _ (by simp)
  intro l hl
  simp only [List.mem_cons, List.mem_map] at hl
  rcases hl with rfl | ⟨i, hi, rfl⟩
  · exact blockOk_of_noNL _ hne (fun t ht e => hnl (e ▸ ht))
  · exact blockOk_cons_indent _ (hk i hi)

theorem blockOk_body (F : NumFmt) (body : List Instruction) (hk : bodyOk1 body = true)
    (hn : body.all (numTokInstr F) = true) : ∀ i ∈ body, blockOk (toks F i) = true :=
  fun i hi => blockOk_of_blockKind F i (bodyOk1_mem hk i hi) (List.all_eq_true.mp hn i hi)

theorem nl_names (qvs : List String) : Token.newLine ∉ qvs.map nameTok := by
  simp only [List.mem_map, not_exists, not_and]
  intro s _ h
  exact (nameTok_not_punct s).2.2 h

/-- the lists whose emptiness would make a definition's text end right after the colon: non-empty -/
def shapeOk (F : NumFmt) : Instruction → Bool
  | .calibrationDefinition _ body => !body.isEmpty
  | .measureCalibrationDefinition _ body => !body.isEmpty
  | .circuitDefinition _ _ _ body => !body.isEmpty
  | .gateDefinition g => !(specLineList F g.specification).isEmpty
  | _ => true

theorem shapeOk_of_parsed (F : NumFmt) (i : Instruction) (hp : parsedInstr i = true) : shapeOk F i = true := by
  cases i with
  | calibrationDefinition id body =>
    simp only [parsedInstr, Bool.and_eq_true] at hp; exact hp.1.2
  | measureCalibrationDefinition id body =>
    simp only [parsedInstr, Bool.and_eq_true] at hp; exact hp.1.2
  | circuitDefinition name ps qvs body =>
    simp only [parsedInstr, Bool.and_eq_true] at hp; exact hp.1.2
  | gateDefinition g =>
    simp only [parsedInstr] at hp
    have := specLineList_ne F g.specification hp
    simpa [shapeOk] using this
  | _ => rfl

theorem toks_calibrationDefinition (F : NumFmt) (id : CalibrationIdentifier) (body : List Instruction) :
    toks F (.calibrationDefinition id body) =
      (cmd .defCal :: (id.modifiers.map modifierTok ++ identTok id.name ::
        (paramsToks F id.parameters ++ qubitsToks id.qubits ++ [.colon]))) ++ body.flatMap (calItemToks F) := by
  simp [toks, calBodyToks_eq]

theorem nl_calHeader (F : NumFmt) (id : CalibrationIdentifier) (hn : id.parameters.all (numTokOk F) = true) :
    Token.newLine ∉ (cmd .defCal :: (id.modifiers.map modifierTok ++ identTok id.name ::
      (paramsToks F id.parameters ++ qubitsToks id.qubits ++ [.colon]))) := by
  simp only [List.mem_cons, List.mem_append, List.mem_map, not_or, List.not_mem_nil, or_false, not_exists,
    not_and]
  exact ⟨by simp [cmd], fun m _ => by cases m <;> simp [modifierTok], by simp [identTok],
    ⟨nl_params F _ hn, nl_qubits _⟩, by simp⟩

theorem blockOk_calibrationDefinition (F : NumFmt) (id : CalibrationIdentifier) (body : List Instruction)
    (hk : bodyOk1 body = true) (hn : numTokInstr F (.calibrationDefinition id body) = true) :
    blockOk (toks F (.calibrationDefinition id body)) = true := by
  simp only [numTokInstr, Bool.and_eq_true, numTokInstrs_eq_all] at hn
  rw [toks_calibrationDefinition]
  exact blockOk_header_body F _ body (by simp) (nl_calHeader F id hn.1) (blockOk_body F body hk hn.2)

theorem lineToks_calibrationDefinition (F : NumFmt) (id : CalibrationIdentifier) (body : List Instruction)
    (hk : bodyOk1 body = true) (hn : numTokInstr F (.calibrationDefinition id body) = true) :
    lineToks F (.calibrationDefinition id body) = toks F (.calibrationDefinition id body) :=
  stripNL_of_blockOk _ (blockOk_calibrationDefinition F id body hk hn)

theorem blockOk_of_nlKind (F : NumFmt) (i : Instruction) (hp : shapeOk F i = true) (hk : nlKind i = true)
    (hn : numTokInstr F i = true) : blockOk (lineToks F i) = true := by
  cases i with
  | calibrationDefinition id body =>
    simp only [nlKind] at hk
    rw [lineToks_calibrationDefinition F id body hk hn]
    exact blockOk_calibrationDefinition F id body hk hn
  | measureCalibrationDefinition id body =>
    simp only [shapeOk, Bool.not_eq_true', List.isEmpty_eq_false_iff] at hp
    simp only [numTokInstr, numTokInstrs_eq_all] at hn
    simp only [nlKind] at hk
    cases hb : body with
    | nil => exact absurd hb hp
    | cons b bs =>
      rw [hb] at hk hn
      rw [lineToks_measureCal]
      have := blockOk_header_body F (cmd .defCal :: cmd .measure :: (measureNameToks id.name ++ qubitToks id.qubit ++
        (targetToks' id.target ++ [.colon]))) (b :: bs) (by simp) (by
          simp only [List.mem_cons, List.mem_append, not_or, List.not_mem_nil, or_false]
          refine ⟨by simp [cmd], by simp [cmd], ⟨nl_measureName _, nl_qubit _⟩, ?_, by simp⟩
          cases id.target <;> simp [targetToks', identTok]) (blockOk_body F _ hk hn)
      simpa using this
  | circuitDefinition name ps qvs body =>
    simp only [shapeOk, Bool.not_eq_true', List.isEmpty_eq_false_iff] at hp
    simp only [numTokInstr, numTokInstrs_eq_all] at hn
    simp only [nlKind] at hk
    cases hb : body with
    | nil => exact absurd hb hp
    | cons b bs =>
      rw [hb] at hk hn
      rw [lineToks_circuit]
      have := blockOk_header_body F (cmd .defCircuit :: identTok name :: (varParamsToks ps ++ (qvs.map nameTok ++
        [.colon]))) (b :: bs) (by simp) (by
          simp only [List.mem_cons, List.mem_append, not_or, List.not_mem_nil, or_false]
          exact ⟨by simp [cmd], by simp [identTok], nl_varParams _, nl_names _, by simp⟩) (blockOk_body F _ hk hn)
      simpa using this
  | gateDefinition g =>
    simp only [shapeOk, Bool.not_eq_true', List.isEmpty_eq_false_iff] at hp
    simp only [numTokInstr] at hn
    exact blockOk_gateDefinition' F g hp hn
  | _ => simp [nlKind] at hk

theorem blockOk_lineToks' (F : NumFmt) (i : Instruction) (hp : shapeOk F i = true) (hk : provedKind i = true)
    (hn : numTokInstr F i = true) : blockOk (lineToks F i) = true := by
  rcases provedKind_cases hk with h | h
  · rw [lineToks_of_blockKind F i h hn]; exact blockOk_of_blockKind F i h hn
  · exact blockOk_of_nlKind F i hp h hn

theorem blockOk_lineToks (F : NumFmt) (i : Instruction) (hp : parsedInstr i = true) (hk : provedKind i = true)
    (hn : numTokInstr F i = true) : blockOk (lineToks F i) = true :=
  blockOk_lineToks' F i (shapeOk_of_parsed F i hp) hk hn

theorem lineToks_head' (F : NumFmt) (i : Instruction) (hp : shapeOk F i = true) (hk : provedKind i = true)
    (hn : numTokInstr F i = true) : ∃ t r, lineToks F i = t :: r ∧ startTok t = true := by
  rcases provedKind_cases hk with h | h
  · rw [lineToks_of_blockKind F i h hn]; exact toks_head F i
  · cases i with
    | calibrationDefinition id body =>
      simp only [nlKind] at h
      rw [lineToks_calibrationDefinition F id body h hn]
      exact toks_head F _
    | measureCalibrationDefinition id body =>
      simp only [shapeOk, Bool.not_eq_true', List.isEmpty_eq_false_iff] at hp
      cases hb : body with
      | nil => exact absurd hb hp
      | cons b bs => rw [lineToks_measureCal]; exact ⟨_, _, rfl, rfl⟩
    | circuitDefinition name ps qvs body =>
      simp only [shapeOk, Bool.not_eq_true', List.isEmpty_eq_false_iff] at hp
      cases hb : body with
      | nil => exact absurd hb hp
      | cons b bs => rw [lineToks_circuit]; exact ⟨_, _, rfl, rfl⟩
    | gateDefinition g =>
      simp only [shapeOk, Bool.not_eq_true', List.isEmpty_eq_false_iff] at hp
      exact lineToks_gateDefinition_head' F g hp
    | _ => simp [nlKind] at h

theorem lineToks_head (F : NumFmt) (i : Instruction) (hp : parsedInstr i = true) (hk : provedKind i = true)
    (hn : numTokInstr F i = true) : ∃ t r, lineToks F i = t :: r ∧ startTok t = true :=
  lineToks_head' F i (shapeOk_of_parsed F i hp) hk hn

theorem length_stripNL_le (ts : List Token) : (stripNL ts).length ≤ ts.length := by
  unfold stripNL; split <;> simp

/-! ## errors, canonical forms -/

theorem firstErrList_body (body : List Instruction) (hp : body.all parsedInstr = true)
    (hk : bodyOk1 body = true) : firstErrList body = none :=
  firstErrList_none _ (fun i hi =>
    firstErr_none_of_blockKind i (List.all_eq_true.mp hp i hi) (bodyOk1_mem hk i hi))

theorem firstErr_none_of_provedKind (i : Instruction) (hp : parsedInstr i = true) (hk : provedKind i = true) :
    firstErr i = none := by
  rcases provedKind_cases hk with h | h
  · exact firstErr_none_of_blockKind i hp h
  · cases i with
    | calibrationDefinition id body =>
      simp only [parsedInstr, Bool.and_eq_true, parsedInstrs_eq_all] at hp
      simp only [nlKind] at h
      simp [firstErr, firstSome, qubitsErr_none _ hp.1.1.2, firstErrList_body body hp.2 h]
    | measureCalibrationDefinition id body =>
      simp only [parsedInstr, Bool.and_eq_true, parsedInstrs_eq_all] at hp
      simp only [nlKind] at h
      have hq : qubitErr id.qubit = none := by
        have := hp.1.1
        cases hq : id.qubit <;> simp_all [noPlaceholder, qubitErr]
      simp [firstErr, firstSome, hq, firstErrList_body body hp.2 h]
    | circuitDefinition name ps qvs body =>
      simp only [parsedInstr, Bool.and_eq_true, parsedInstrs_eq_all] at hp
      simp only [nlKind] at h
      exact firstErrList_body body hp.2 h
    | gateDefinition g => exact firstErr_gateDefinition g h
    | _ => simp [nlKind] at h

theorem calBodyToks_map_canon' (F : NumFmt) (body : List Instruction)
    (h : ∀ i ∈ body, toks F (canonInstr i) = toks F i) :
    calBodyToks F (body.map canonInstr) = calBodyToks F body := by
  induction body with
  | nil => rfl
  | cons i l ih =>
    simp only [List.map_cons, calBodyToks]
    rw [h i (by simp), ih (fun k hk => h k (by simp [hk]))]

theorem mcalBodyToks_map_canon (F : NumFmt) (body : List Instruction)
    (h : ∀ i ∈ body, toks F (canonInstr i) = toks F i) :
    mcalBodyToks F (body.map canonInstr) = mcalBodyToks F body := by
  induction body with
  | nil => rfl
  | cons i l ih =>
    cases l with
    | nil => simp [mcalBodyToks, h i (by simp)]
    | cons j l =>
      have := ih (fun k hk => h k (by simp [hk]))
      simp only [List.map_cons, mcalBodyToks] at this ⊢
      rw [h i (by simp), this]

theorem circuitBodyToks_map_canon (F : NumFmt) (body : List Instruction)
    (h : ∀ i ∈ body, toks F (canonInstr i) = toks F i) :
    circuitBodyToks F (body.map canonInstr) = circuitBodyToks F body := by
  induction body with
  | nil => rfl
  | cons i l ih =>
    simp only [List.map_cons, circuitBodyToks]
    rw [h i (by simp), ih (fun k hk => h k (by simp [hk]))]

theorem firstErrList_map_canon' (body : List Instruction)
    (h : ∀ i ∈ body, firstErr (canonInstr i) = firstErr i) :
    firstErrList (body.map canonInstr) = firstErrList body := by
  induction body with
  | nil => rfl
  | cons i l ih =>
    simp only [List.map_cons, firstErrList]
    rw [h i (by simp), ih (fun j hj => h j (by simp [hj]))]

theorem toks_canon_body (F : NumFmt) (body : List Instruction) (hp : body.all parsedInstr = true)
    (hk : bodyOk1 body = true) : ∀ i ∈ body, toks F (canonInstr i) = toks F i :=
  fun i hi => toks_canonInstr' F i (List.all_eq_true.mp hp i hi) (bodyOk1_mem hk i hi)

theorem firstErr_canon_body (body : List Instruction) (hk : bodyOk1 body = true) :
    ∀ i ∈ body, firstErr (canonInstr i) = firstErr i :=
  fun i hi => firstErr_canonInstr' i (bodyOk1_mem hk i hi)

theorem toks_canonInstr'' (F : NumFmt) (i : Instruction) (hp : parsedInstr i = true) (hk : provedKind i = true) :
    toks F (canonInstr i) = toks F i := by
  rcases provedKind_cases hk with h | h
  · exact toks_canonInstr' F i hp h
  · cases i with
    | calibrationDefinition id body =>
      simp only [parsedInstr, Bool.and_eq_true, parsedInstrs_eq_all] at hp
      simp only [nlKind] at h
      simp only [canonInstr, canonInstrs_eq_map, toks]
      rw [calBodyToks_map_canon' F body (toks_canon_body F body hp.2 h)]
    | measureCalibrationDefinition id body =>
      simp only [parsedInstr, Bool.and_eq_true, parsedInstrs_eq_all] at hp
      simp only [nlKind] at h
      simp only [canonInstr, canonInstrs_eq_map, toks]
      rw [mcalBodyToks_map_canon F body (toks_canon_body F body hp.2 h)]
    | circuitDefinition name ps qvs body =>
      simp only [parsedInstr, Bool.and_eq_true, parsedInstrs_eq_all] at hp
      simp only [nlKind] at h
      simp only [canonInstr, canonInstrs_eq_map, toks]
      rw [circuitBodyToks_map_canon F body (toks_canon_body F body hp.2 h)]
    | gateDefinition g => rfl
    | _ => simp [nlKind] at h

theorem firstErr_canonInstr'' (i : Instruction) (hk : provedKind i = true) :
    firstErr (canonInstr i) = firstErr i := by
  rcases provedKind_cases hk with h | h
  · exact firstErr_canonInstr' i h
  · cases i with
    | calibrationDefinition id body =>
      simp only [nlKind] at h
      simp only [canonInstr, canonInstrs_eq_map, firstErr]
      rw [firstErrList_map_canon' body (firstErr_canon_body body h)]
    | measureCalibrationDefinition id body =>
      simp only [nlKind] at h
      simp only [canonInstr, canonInstrs_eq_map, firstErr]
      rw [firstErrList_map_canon' body (firstErr_canon_body body h)]
    | circuitDefinition name ps qvs body =>
      simp only [nlKind] at h
      simp only [canonInstr, canonInstrs_eq_map, firstErr]
      rw [firstErrList_map_canon' body (firstErr_canon_body body h)]
    | gateDefinition g => rfl
    | _ => simp [nlKind] at h

theorem programRaw_map_canon'' (F : NumFmt) (L : List Instruction) (hp : ∀ i ∈ L, parsedInstr i = true)
    (hk : ∀ i ∈ L, provedKind i = true) : programRaw F (L.map canonInstr) = programRaw F L := by
  induction L with
  | nil => rfl
  | cons i L ih =>
    simp only [programRaw, List.map_cons, List.flatMap_cons] at ih ⊢
    rw [toks_canonInstr'' F i (hp i (by simp)) (hk i (by simp)),
      ih (fun j hj => hp j (by simp [hj])) (fun j hj => hk j (by simp [hj]))]

/-! ## round trips -/

theorem length_body_le (F : NumFmt) (body : List Instruction) (i : Instruction) (hi : i ∈ body) :
    (toks F i).length + 2 ≤ (body.flatMap (calItemToks F)).length := by
  have := length_flatMap_mem (calItemToks F) body i hi
  simp only [calItemToks, List.length_cons] at this
  omega

/-- DEFCAL MEASURE whose body reads back (`BlockRT`) at every fuel sufficient for its instructions -/
theorem rt_measureCal_of_blk (F : NumFmt) (d : Nat) (id : MeasureCalibrationIdentifier) (body : List Instruction)
    (g : Instruction → Instruction) (hq : noPlaceholder id.qubit = true) (hne : body ≠ [])
    (hbody : ∀ d', (∀ i ∈ body, (toks F i).length ≤ d') → BlockRT F d' body g)
    (hd : (lineToks F (.measureCalibrationDefinition id body)).length ≤ d) :
    RTtopL (lineToks F (.measureCalibrationDefinition id body)) d
      (.measureCalibrationDefinition id (body.map g)) := by
  cases hb : body with
  | nil => exact absurd hb hne
  | cons b bs =>
    subst hb
    cases d with
    | zero => rw [lineToks_measureCal] at hd; simp at hd
    | succ d =>
      apply rt_measureCal_blk F d id (b :: bs) g hq hne
      apply hbody d
      intro i hi
      rw [lineToks_measureCal] at hd
      have := length_body_le F (b :: bs) i hi
      simp only [List.length_append, List.length_cons] at hd
      omega

theorem rt_measureCal_of (F : NumFmt) (d : Nat) (id : MeasureCalibrationIdentifier) (body : List Instruction)
    (g : Instruction → Instruction) (hq : noPlaceholder id.qubit = true) (hne : body ≠ [])
    (hbody : ∀ d', ∀ i ∈ body, (toks F i).length ≤ d' → RT F d' i (g i))
    (hd : (lineToks F (.measureCalibrationDefinition id body)).length ≤ d) :
    RTtopL (lineToks F (.measureCalibrationDefinition id body)) d
      (.measureCalibrationDefinition id (body.map g)) :=
  rt_measureCal_of_blk F d id body g hq hne
    (fun d' hl => blockRT_of_RT F d' body g hne (fun i hi => hbody d' i hi (hl i hi))) hd

/-- DEFCIRCUIT whose body reads back (`BlockRT`) at every fuel sufficient for its instructions -/
theorem rt_circuit_of_blk (F : NumFmt) (d : Nat) (name : String) (ps qvs : List String) (body : List Instruction)
    (g : Instruction → Instruction) (hqv : qvs.all (fun s => !isReservedWord s.toList) = true)
    (hne : body ≠ []) (hbody : ∀ d', (∀ i ∈ body, (toks F i).length ≤ d') → BlockRT F d' body g)
    (hd : (lineToks F (.circuitDefinition name ps qvs body)).length ≤ d) :
    RTtopL (lineToks F (.circuitDefinition name ps qvs body)) d (.circuitDefinition name ps qvs (body.map g)) := by
  cases hb : body with
  | nil => exact absurd hb hne
  | cons b bs =>
    subst hb
    cases d with
    | zero => rw [lineToks_circuit] at hd; simp at hd
    | succ d =>
      apply rt_circuit_blk F d name ps qvs (b :: bs) g hqv hne
      apply hbody d
      intro i hi
      rw [lineToks_circuit] at hd
      have := length_body_le F (b :: bs) i hi
      simp only [List.length_append, List.length_cons] at hd
      omega

theorem rt_circuit_of (F : NumFmt) (d : Nat) (name : String) (ps qvs : List String) (body : List Instruction)
    (g : Instruction → Instruction) (hqv : qvs.all (fun s => !isReservedWord s.toList) = true)
    (hne : body ≠ []) (hbody : ∀ d', ∀ i ∈ body, (toks F i).length ≤ d' → RT F d' i (g i))
    (hd : (lineToks F (.circuitDefinition name ps qvs body)).length ≤ d) :
    RTtopL (lineToks F (.circuitDefinition name ps qvs body)) d (.circuitDefinition name ps qvs (body.map g)) :=
  rt_circuit_of_blk F d name ps qvs body g hqv hne
    (fun d' hl => blockRT_of_RT F d' body g hne (fun i hi => hbody d' i hi (hl i hi))) hd

/-- a `Parsed` body of the proved subset reads back to its canonical form: the one-line kinds by their strong
round trips, the definition at the end (if any) by its top-level round trip -/
theorem blockRT_body (F : NumFmt) (d : Nat) (body : List Instruction) (hne : body ≠ [])
    (hp : body.all parsedInstr = true) (hk : bodyOk1 body = true) (hn : body.all (numTokInstr F) = true)
    (hl : ∀ i ∈ body, (toks F i).length ≤ d) : BlockRT F d body canonInstr := by
  obtain ⟨ls, t, rfl, hls, ht⟩ := bodyOk1_split hk hne
  apply blockRT_last F d ls t canonInstr
  · intro i hi
    have hm : i ∈ ls ++ [t] := by simp [hi]
    exact rt_of_lineKind F d i (List.all_eq_true.mp hp i hm) (hls i hi) (List.all_eq_true.mp hn i hm) (hl i hm)
  · have hm : t ∈ ls ++ [t] := by simp
    exact rt_of_blockKind F d t (List.all_eq_true.mp hp t hm) ht (List.all_eq_true.mp hn t hm) (hl t hm)

/-- the per-kind lemmas for every proved kind, for the line tokens -/
theorem rt_of_provedKind (F : NumFmt) (d : Nat) (i : Instruction) (hp : parsedInstr i = true)
    (hk : provedKind i = true) (hn : numTokInstr F i = true) (hd : (lineToks F i).length ≤ d) :
    RTtopL (lineToks F i) d (canonInstr i) := by
  rcases provedKind_cases hk with h | h
  · have e := lineToks_of_blockKind F i h hn
    rw [e] at hd ⊢
    exact (rt_of_blockKind F d i hp h hn hd).toL
  · cases i with
    | calibrationDefinition id body =>
      simp only [nlKind] at h
      have e := lineToks_calibrationDefinition F id body h hn
      rw [e] at hd ⊢
      simp only [parsedInstr, Bool.and_eq_true, Bool.not_eq_true', List.isEmpty_eq_false_iff,
        parsedInstrs_eq_all] at hp
      simp only [numTokInstr, Bool.and_eq_true, numTokInstrs_eq_all] at hn
      simp only [canonInstr, canonInstrs_eq_map]
      have hfin : id.parameters.all finiteLits = true := by
        rw [List.all_eq_true]
        intro e he
        exact finiteLits_parsedExpr e (List.all_eq_true.mp hp.1.1.1 e he)
      have := rt_cal_of_blk F d id body canonInstr hfin hp.1.1.2 hn.1
        (fun d' hl => blockRT_body F d' body hp.1.2 hp.2 h hn.2 hl) hd
      rw [map_norm_parsed _ hp.1.1.1] at this
      exact this.toL
    | measureCalibrationDefinition id body =>
      simp only [parsedInstr, Bool.and_eq_true, Bool.not_eq_true', List.isEmpty_eq_false_iff,
        parsedInstrs_eq_all] at hp
      simp only [numTokInstr, numTokInstrs_eq_all] at hn
      simp only [nlKind] at h
      simp only [canonInstr, canonInstrs_eq_map]
      exact rt_measureCal_of_blk F d id body canonInstr hp.1.1 hp.1.2
        (fun d' hl => blockRT_body F d' body hp.1.2 hp.2 h hn hl) hd
    | circuitDefinition name ps qvs body =>
      simp only [parsedInstr, Bool.and_eq_true, Bool.not_eq_true', List.isEmpty_eq_false_iff,
        parsedInstrs_eq_all] at hp
      simp only [numTokInstr, numTokInstrs_eq_all] at hn
      simp only [nlKind] at h
      simp only [canonInstr, canonInstrs_eq_map]
      exact rt_circuit_of_blk F d name ps qvs body canonInstr hp.1.1 hp.1.2
        (fun d' hl => blockRT_body F d' body hp.1.2 hp.2 h hn hl) hd
    | gateDefinition g => exact rt_gateDefinition F d g hp h hn hd
    | _ => simp [nlKind] at h

theorem length_e_le_progOf (e : Instruction → List Token) (L : List Instruction) (i : Instruction) (hi : i ∈ L) :
    (e i).length ≤ (progOf e L).length := by
  induction L with
  | nil => simp at hi
  | cons j L ih =>
    rw [progOf_cons]
    simp only [List.mem_cons] at hi
    simp only [List.length_append, List.length_cons]
    rcases hi with rfl | hi
    · omega
    · have := ih hi; omega

end QV.C02
