import QV.C02.LemmasSubset2
import QV.C02.LemmasCal2
import QV.C02.LemmasGate2
/-!
C02 lemmas, part 12 (core Lean only): the proved subset `provedKind` = `blockKind` and the two kinds whose text
ends in a newline (`nlKind`: DEFCAL MEASURE, DEFCIRCUIT) — everything in terms of `lineToks`.
-/
namespace QV.C02
open QV QV.Tok QV.Ast QV.Parse QV.Print QV.ExprPrint QV.ExprRoundTrip

theorem provedKind_of_lineKind {i : Instruction} (h : lineKind i = true) : provedKind i = true := by
  simp [provedKind, blockKind, h]

theorem provedKind_cases {i : Instruction} (h : provedKind i = true) : blockKind i = true ∨ nlKind i = true := by
  simpa [provedKind] using h

theorem lineToks_of_blockKind (F : NumFmt) (i : Instruction) (hk : blockKind i = true)
    (hn : numTokInstr F i = true) : lineToks F i = toks F i :=
  stripNL_of_blockOk _ (blockOk_of_blockKind F i hk hn)

/-- the block of a definition with a body: header line, then the indented body lines -/
theorem blockOk_header_body (F : NumFmt) (hdr : List Token) (body : List Instruction) (hne : hdr ≠ [])
    (hnl : Token.newLine ∉ hdr) (hk : body.all lineKind = true) (hn : body.all (numTokInstr F) = true) :
    blockOk (hdr ++ body.flatMap (calItemToks F)) = true := by
  have e : hdr ++ body.flatMap (calItemToks F) = joinNL (hdr :: body.map (fun i => .indentation :: toks F i)) := by
    rw [← flatMap_joinNL]; rfl
  rw [e]
  apply blockOk_joinNL _ (by simp)
  intro l hl
  simp only [List.mem_cons, List.mem_map] at hl
  rcases hl with rfl | ⟨i, hi, rfl⟩
  · exact ⟨hne, hnl⟩
  · refine ⟨by simp, ?_⟩
    simp only [List.mem_cons, not_or]
    exact ⟨by simp, noNL_of_lineKind F i (List.all_eq_true.mp hk i hi) (List.all_eq_true.mp hn i hi)⟩

theorem nl_names (qvs : List String) : Token.newLine ∉ qvs.map nameTok := by
  simp only [List.mem_map, not_exists, not_and]
  intro s _ h
  exact (nameTok_not_punct s).2.2 h

/-- the lists whose emptiness would make a definition's text end right after the colon: non-empty -/
def shapeOk (F : NumFmt) : Instruction → Bool
  | .measureCalibrationDefinition _ body => !body.isEmpty
  | .circuitDefinition _ _ _ body => !body.isEmpty
  | .gateDefinition g => !(specLineList F g.specification).isEmpty
  | _ => true

theorem shapeOk_of_parsed (F : NumFmt) (i : Instruction) (hp : parsedInstr i = true) : shapeOk F i = true := by
  cases i with
  | measureCalibrationDefinition id body =>
    simp only [parsedInstr, Bool.and_eq_true] at hp; exact hp.1.2
  | circuitDefinition name ps qvs body =>
    simp only [parsedInstr, Bool.and_eq_true] at hp; exact hp.1.2
  | gateDefinition g =>
    simp only [parsedInstr] at hp
    have := specLineList_ne F g.specification hp
    simpa [shapeOk] using this
  | _ => rfl

theorem blockOk_of_nlKind (F : NumFmt) (i : Instruction) (hp : shapeOk F i = true) (hk : nlKind i = true)
    (hn : numTokInstr F i = true) : blockOk (lineToks F i) = true := by
  cases i with
  | measureCalibrationDefinition id body =>
    simp only [shapeOk, Bool.not_eq_true', List.isEmpty_eq_false_iff] at hp
    simp only [numTokInstr, numTokInstrs_eq_all] at hn
    simp only [nlKind] at hk
    cases hb : body with
    | nil => exact absurd hb hp
    | cons b bs =>
      subst hb
      rw [lineToks_measureCal]
      have := blockOk_header_body F (cmd .defCal :: cmd .measure :: (measureNameToks id.name ++ qubitToks id.qubit ++
        (targetToks' id.target ++ [.colon]))) (b :: bs) (by simp) (by
          simp only [List.mem_cons, List.mem_append, not_or, List.not_mem_nil, or_false]
          refine ⟨by simp [cmd], by simp [cmd], ⟨nl_measureName _, nl_qubit _⟩, ?_, by simp⟩
          cases id.target <;> simp [targetToks', identTok]) hk hn
      simpa using this
  | circuitDefinition name ps qvs body =>
    simp only [shapeOk, Bool.not_eq_true', List.isEmpty_eq_false_iff] at hp
    simp only [numTokInstr, numTokInstrs_eq_all] at hn
    simp only [nlKind] at hk
    cases hb : body with
    | nil => exact absurd hb hp
    | cons b bs =>
      subst hb
      rw [lineToks_circuit]
      have := blockOk_header_body F (cmd .defCircuit :: identTok name :: (varParamsToks ps ++ (qvs.map nameTok ++
        [.colon]))) (b :: bs) (by simp) (by
          simp only [List.mem_cons, List.mem_append, not_or, List.not_mem_nil, or_false]
          exact ⟨by simp [cmd], by simp [identTok], nl_varParams _, nl_names _, by simp⟩) hk hn
      simpa using this
  | gateDefinition g =>
    simp only [shapeOk, Bool.not_eq_true', List.isEmpty_eq_false_iff] at hp
    simp only [numTokInstr] at hn
    exact blockOk_gateDefinition' F g hp hn
  | _ => simp [nlKind] at hk

theorem blockOk_lineToks' (F : NumFmt) (i : Instruction) (hp : shapeOk F i = true) (hk : provedKind i = true)
    (hn : numTokInstr F i = true) : blockOk (lineToks F i) = true := by
  rcases provedKind_cases hk with h | h
  · rw [lineToks_of_blockKind F i h hn]; exact blockOk_of_blockKind F i h hn
  · exact blockOk_of_nlKind F i hp h hn

theorem blockOk_lineToks (F : NumFmt) (i : Instruction) (hp : parsedInstr i = true) (hk : provedKind i = true)
    (hn : numTokInstr F i = true) : blockOk (lineToks F i) = true :=
  blockOk_lineToks' F i (shapeOk_of_parsed F i hp) hk hn

theorem lineToks_head' (F : NumFmt) (i : Instruction) (hp : shapeOk F i = true) (hk : provedKind i = true)
    (hn : numTokInstr F i = true) : ∃ t r, lineToks F i = t :: r ∧ startTok t = true := by
  rcases provedKind_cases hk with h | h
  · rw [lineToks_of_blockKind F i h hn]; exact toks_head F i
  · cases i with
    | measureCalibrationDefinition id body =>
      simp only [shapeOk, Bool.not_eq_true', List.isEmpty_eq_false_iff] at hp
      cases hb : body with
      | nil => exact absurd hb hp
      | cons b bs => rw [lineToks_measureCal]; exact ⟨_, _, rfl, rfl⟩
    | circuitDefinition name ps qvs body =>
      simp only [shapeOk, Bool.not_eq_true', List.isEmpty_eq_false_iff] at hp
      cases hb : body with
      | nil => exact absurd hb hp
      | cons b bs => rw [lineToks_circuit]; exact ⟨_, _, rfl, rfl⟩
    | gateDefinition g =>
      simp only [shapeOk, Bool.not_eq_true', List.isEmpty_eq_false_iff] at hp
      exact lineToks_gateDefinition_head' F g hp
    | _ => simp [nlKind] at h

theorem lineToks_head (F : NumFmt) (i : Instruction) (hp : parsedInstr i = true) (hk : provedKind i = true)
    (hn : numTokInstr F i = true) : ∃ t r, lineToks F i = t :: r ∧ startTok t = true :=
  lineToks_head' F i (shapeOk_of_parsed F i hp) hk hn

theorem length_stripNL_le (ts : List Token) : (stripNL ts).length ≤ ts.length := by
  unfold stripNL; split <;> simp

theorem firstErr_none_of_provedKind (i : Instruction) (hp : parsedInstr i = true) (hk : provedKind i = true) :
    firstErr i = none := by
  rcases provedKind_cases hk with h | h
  · exact firstErr_none_of_blockKind i hp h
  · cases i with
    | measureCalibrationDefinition id body =>
      simp only [parsedInstr, Bool.and_eq_true, parsedInstrs_eq_all] at hp
      simp only [nlKind] at h
      have hb : firstErrList body = none := firstErrList_none _ (fun i hi =>
        firstErr_none_of_lineKind i (List.all_eq_true.mp hp.2 i hi) (List.all_eq_true.mp h i hi))
      have hq : qubitErr id.qubit = none := by
        have := hp.1.1
        cases hq : id.qubit <;> simp_all [noPlaceholder, qubitErr]
      simp [firstErr, firstSome, hq, hb]
    | circuitDefinition name ps qvs body =>
      simp only [parsedInstr, Bool.and_eq_true, parsedInstrs_eq_all] at hp
      simp only [nlKind] at h
      exact firstErrList_none _ (fun i hi =>
        firstErr_none_of_lineKind i (List.all_eq_true.mp hp.2 i hi) (List.all_eq_true.mp h i hi))
    | gateDefinition g => exact firstErr_gateDefinition g h
    | _ => simp [nlKind] at h

theorem mcalBodyToks_map_canon (F : NumFmt) (body : List Instruction)
    (h : ∀ i ∈ body, toks F (canonInstr i) = toks F i) :
    mcalBodyToks F (body.map canonInstr) = mcalBodyToks F body := by
  induction body with
  | nil => rfl
  | cons i l ih =>
    cases l with
    | nil => simp [mcalBodyToks, h i (by simp)]
    | cons j l =>
      have := ih (fun k hk => h k (by simp [hk]))
      simp only [List.map_cons, mcalBodyToks] at this ⊢
      rw [h i (by simp), this]

theorem circuitBodyToks_map_canon (F : NumFmt) (body : List Instruction)
    (h : ∀ i ∈ body, toks F (canonInstr i) = toks F i) :
    circuitBodyToks F (body.map canonInstr) = circuitBodyToks F body := by
  induction body with
  | nil => rfl
  | cons i l ih =>
    simp only [List.map_cons, circuitBodyToks]
    rw [h i (by simp), ih (fun k hk => h k (by simp [hk]))]

theorem toks_canonInstr'' (F : NumFmt) (i : Instruction) (hp : parsedInstr i = true) (hk : provedKind i = true) :
    toks F (canonInstr i) = toks F i := by
  rcases provedKind_cases hk with h | h
  · exact toks_canonInstr' F i hp h
  · cases i with
    | measureCalibrationDefinition id body =>
      simp only [parsedInstr, Bool.and_eq_true, parsedInstrs_eq_all] at hp
      simp only [nlKind] at h
      simp only [canonInstr, canonInstrs_eq_map, toks]
      rw [mcalBodyToks_map_canon F body (fun i hi =>
        toks_canonInstr F i (List.all_eq_true.mp hp.2 i hi) (List.all_eq_true.mp h i hi))]
    | circuitDefinition name ps qvs body =>
      simp only [parsedInstr, Bool.and_eq_true, parsedInstrs_eq_all] at hp
      simp only [nlKind] at h
      simp only [canonInstr, canonInstrs_eq_map, toks]
      rw [circuitBodyToks_map_canon F body (fun i hi =>
        toks_canonInstr F i (List.all_eq_true.mp hp.2 i hi) (List.all_eq_true.mp h i hi))]
    | gateDefinition g => rfl
    | _ => simp [nlKind] at h

theorem firstErr_canonInstr'' (i : Instruction) (hk : provedKind i = true) :
    firstErr (canonInstr i) = firstErr i := by
  rcases provedKind_cases hk with h | h
  · exact firstErr_canonInstr' i h
  · cases i with
    | measureCalibrationDefinition id body =>
      simp only [nlKind] at h
      simp only [canonInstr, canonInstrs_eq_map, firstErr]
      rw [firstErrList_map_canon body (fun i hi => List.all_eq_true.mp h i hi)]
    | circuitDefinition name ps qvs body =>
      simp only [nlKind] at h
      simp only [canonInstr, canonInstrs_eq_map, firstErr]
      rw [firstErrList_map_canon body (fun i hi => List.all_eq_true.mp h i hi)]
    | gateDefinition g => rfl
    | _ => simp [nlKind] at h

theorem programRaw_map_canon'' (F : NumFmt) (L : List Instruction) (hp : ∀ i ∈ L, parsedInstr i = true)
    (hk : ∀ i ∈ L, provedKind i = true) : programRaw F (L.map canonInstr) = programRaw F L := by
  induction L with
  | nil => rfl
  | cons i L ih =>
    simp only [programRaw, List.map_cons, List.flatMap_cons] at ih ⊢
    rw [toks_canonInstr'' F i (hp i (by simp)) (hk i (by simp)),
      ih (fun j hj => hp j (by simp [hj])) (fun j hj => hk j (by simp [hj]))]

theorem length_body_le (F : NumFmt) (body : List Instruction) (i : Instruction) (hi : i ∈ body) :
    (toks F i).length + 2 ≤ (body.flatMap (calItemToks F)).length := by
  have := length_flatMap_mem (calItemToks F) body i hi
  simp only [calItemToks, List.length_cons] at this
  omega

/-- DEFCAL MEASURE whose body instructions round-trip (to `g i`) at every sufficient fuel -/
theorem rt_measureCal_of (F : NumFmt) (d : Nat) (id : MeasureCalibrationIdentifier) (body : List Instruction)
    (g : Instruction → Instruction) (hq : noPlaceholder id.qubit = true) (hne : body ≠ [])
    (hbody : ∀ d', ∀ i ∈ body, (toks F i).length ≤ d' → RT F d' i (g i))
    (hd : (lineToks F (.measureCalibrationDefinition id body)).length ≤ d) :
    RTtopL (lineToks F (.measureCalibrationDefinition id body)) d
      (.measureCalibrationDefinition id (body.map g)) := by
  cases hb : body with
  | nil => exact absurd hb hne
  | cons b bs =>
    subst hb
    cases d with
    | zero => rw [lineToks_measureCal] at hd; simp at hd
    | succ d =>
      apply rt_measureCal_gen F d id (b :: bs) g hq hne
      intro i hi
      apply hbody d i hi
      rw [lineToks_measureCal] at hd
      have := length_body_le F (b :: bs) i hi
      simp only [List.length_append, List.length_cons] at hd
      omega

/-- DEFCIRCUIT whose body instructions round-trip (to `g i`) at every sufficient fuel -/
theorem rt_circuit_of (F : NumFmt) (d : Nat) (name : String) (ps qvs : List String) (body : List Instruction)
    (g : Instruction → Instruction) (hqv : qvs.all (fun s => !isReservedWord s.toList) = true)
    (hne : body ≠ []) (hbody : ∀ d', ∀ i ∈ body, (toks F i).length ≤ d' → RT F d' i (g i))
    (hd : (lineToks F (.circuitDefinition name ps qvs body)).length ≤ d) :
    RTtopL (lineToks F (.circuitDefinition name ps qvs body)) d (.circuitDefinition name ps qvs (body.map g)) := by
  cases hb : body with
  | nil => exact absurd hb hne
  | cons b bs =>
    subst hb
    cases d with
    | zero => rw [lineToks_circuit] at hd; simp at hd
    | succ d =>
      apply rt_circuit_gen F d name ps qvs (b :: bs) g hqv hne
      intro i hi
      apply hbody d i hi
      rw [lineToks_circuit] at hd
      have := length_body_le F (b :: bs) i hi
      simp only [List.length_append, List.length_cons] at hd
      omega

/-- the per-kind lemmas for every proved kind, for the line tokens -/
theorem rt_of_provedKind (F : NumFmt) (d : Nat) (i : Instruction) (hp : parsedInstr i = true)
    (hk : provedKind i = true) (hn : numTokInstr F i = true) (hd : (lineToks F i).length ≤ d) :
    RTtopL (lineToks F i) d (canonInstr i) := by
  rcases provedKind_cases hk with h | h
  · have e := lineToks_of_blockKind F i h hn
    rw [e] at hd ⊢
    exact (rt_of_blockKind F d i hp h hn hd).toL
  · cases i with
    | measureCalibrationDefinition id body =>
      simp only [parsedInstr, Bool.and_eq_true, Bool.not_eq_true', List.isEmpty_eq_false_iff,
        parsedInstrs_eq_all] at hp
      simp only [numTokInstr, numTokInstrs_eq_all] at hn
      simp only [nlKind] at h
      simp only [canonInstr, canonInstrs_eq_map]
      cases d with
      | zero =>
        cases hb : body with
        | nil => exact absurd hb hp.1.2
        | cons b bs => rw [hb, lineToks_measureCal] at hd; simp at hd
      | succ d =>
        apply rt_measureCal_gen F d id body canonInstr hp.1.1 hp.1.2
        intro i hi
        apply rt_of_lineKind F d i (List.all_eq_true.mp hp.2 i hi) (List.all_eq_true.mp h i hi)
          (List.all_eq_true.mp hn i hi)
        cases hb : body with
        | nil => exact absurd hb hp.1.2
        | cons b bs =>
          rw [hb, lineToks_measureCal] at hd
          have := length_body_le F (b :: bs) i (hb ▸ hi)
          simp only [List.length_append, List.length_cons] at hd
          omega
    | circuitDefinition name ps qvs body =>
      simp only [parsedInstr, Bool.and_eq_true, Bool.not_eq_true', List.isEmpty_eq_false_iff,
        parsedInstrs_eq_all] at hp
      simp only [numTokInstr, numTokInstrs_eq_all] at hn
      simp only [nlKind] at h
      simp only [canonInstr, canonInstrs_eq_map]
      cases d with
      | zero =>
        cases hb : body with
        | nil => exact absurd hb hp.1.2
        | cons b bs => rw [hb, lineToks_circuit] at hd; simp at hd
      | succ d =>
        apply rt_circuit_gen F d name ps qvs body canonInstr hp.1.1 hp.1.2
        intro i hi
        apply rt_of_lineKind F d i (List.all_eq_true.mp hp.2 i hi) (List.all_eq_true.mp h i hi)
          (List.all_eq_true.mp hn i hi)
        cases hb : body with
        | nil => exact absurd hb hp.1.2
        | cons b bs =>
          rw [hb, lineToks_circuit] at hd
          have := length_body_le F (b :: bs) i (hb ▸ hi)
          simp only [List.length_append, List.length_cons] at hd
          omega
    | gateDefinition g => exact rt_gateDefinition F d g hp h hn hd
    | _ => simp [nlKind] at h

theorem length_e_le_progOf (e : Instruction → List Token) (L : List Instruction) (i : Instruction) (hi : i ∈ L) :
    (e i).length ≤ (progOf e L).length := by
  induction L with
  | nil => simp at hi
  | cons j L ih =>
    rw [progOf_cons]
    simp only [List.mem_cons] at hi
    simp only [List.length_append, List.length_cons]
    rcases hi with rfl | hi
    · omega
    · have := ih hi; omega

end QV.C02
