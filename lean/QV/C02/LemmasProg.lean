import QV.C02.Spec
/-!
C02 lemmas, part 1 (core Lean only): the program container.  `build (listing (build is)) = build is`:
re-adding the listing of a built program reproduces every container (the key lemma behind "the reparsed
program equals P"), and every listed instruction is one of the added ones.
-/
namespace QV.C02
open QV QV.Ast

theorem rank_lt (s : Slot) : s.rank ≤ 8 := by cases s <;> simp [Slot.rank]

theorem rank_eq_8 {s : Slot} : s.rank = 8 ↔ s = .body := by cases s <;> simp [Slot.rank]

/-! ### `upsert` -/

theorem upsert_of_not_mem {l : List Instruction} {i : Instruction}
    (h : ∀ x ∈ l, slotOf x ≠ slotOf i) : upsert l i = l ++ [i] := by
  induction l with
  | nil => rfl
  | cons x xs ih =>
    have hx : slotOf x ≠ slotOf i := h x (by simp)
    simp [upsert, hx, ih (fun y hy => h y (by simp [hy]))]

theorem slots_upsert (l : List Instruction) (i : Instruction) :
    (upsert l i).map slotOf = if slotOf i ∈ l.map slotOf then l.map slotOf else l.map slotOf ++ [slotOf i] := by
  induction l with
  | nil => simp [upsert]
  | cons x xs ih =>
    by_cases hx : slotOf x = slotOf i
    · simp [upsert, hx]
    · have hx' : ¬ slotOf i = slotOf x := fun h => hx h.symm
      simp only [upsert, hx, if_false, List.map_cons, ih, List.mem_cons, hx', false_or]
      split <;> simp

theorem nodup_upsert {l : List Instruction} (i : Instruction) (h : (l.map slotOf).Nodup) :
    ((upsert l i).map slotOf).Nodup := by
  rw [slots_upsert]
  split
  · exact h
  · rename_i hni
    exact List.nodup_append.mpr ⟨h, by simp, by
      intro a ha b hb
      simp at hb
      subst hb
      intro hab
      subst hab
      exact hni ha⟩

theorem mem_upsert {l : List Instruction} {i y : Instruction} (h : y ∈ upsert l i) : y = i ∨ y ∈ l := by
  induction l with
  | nil => simp [upsert] at h; exact Or.inl h
  | cons x xs ih =>
    by_cases hx : slotOf x = slotOf i
    · simp [upsert, hx] at h
      rcases h with h | h
      · exact Or.inl h
      · exact Or.inr (by simp [h])
    · simp [upsert, hx] at h
      rcases h with h | h
      · exact Or.inr (by simp [h])
      · rcases ih h with h' | h'
        · exact Or.inl h'
        · exact Or.inr (by simp [h'])

theorem rank_upsert {l : List Instruction} {i : Instruction} {r : Nat}
    (hl : ∀ x ∈ l, (slotOf x).rank = r) (hi : (slotOf i).rank = r) :
    ∀ x ∈ upsert l i, (slotOf x).rank = r := by
  intro x hx
  rcases mem_upsert hx with h | h
  · subst h; exact hi
  · exact hl x h

/-! ### well-formed programs -/

/-- every container holds only instructions routed to it; definition containers have distinct keys -/
structure WF (p : Prog) : Prop where
  ranks : ∀ r, ∀ x ∈ p r, (slotOf x).rank = r
  nodup : ∀ r, r ≠ 8 → ((p r).map slotOf).Nodup

theorem wf_empty : WF Prog.empty := ⟨by intro r x hx; simp [Prog.empty] at hx, by intro r _; simp [Prog.empty]⟩

theorem wf_add {p : Prog} (h : WF p) (i : Instruction) : WF (p.add i) := by
  constructor
  · intro r x hx
    by_cases hr : r = (slotOf i).rank
    · simp only [Prog.add, hr, if_true] at hx
      by_cases h8 : (slotOf i).rank = 8
      · simp only [addAt, h8, if_true, List.mem_append, List.mem_singleton] at hx
        rcases hx with hx | hx
        · rw [hr, h8]; exact h.ranks 8 x hx
        · subst hx; exact hr.symm
      · simp only [addAt, h8, if_false] at hx
        rw [hr]
        exact rank_upsert (h.ranks _) rfl x hx
    · simp only [Prog.add, hr, if_false] at hx
      exact h.ranks r x hx
  · intro r h8
    by_cases hr : r = (slotOf i).rank
    · simp only [Prog.add, hr, if_true, addAt]
      have : ¬ (slotOf i).rank = 8 := by rw [← hr]; exact h8
      simp only [this, if_false]
      exact nodup_upsert i (h.nodup _ this)
    · simp only [Prog.add, hr, if_false]
      exact h.nodup r h8

theorem wf_foldl {p : Prog} (h : WF p) (is : List Instruction) : WF (is.foldl Prog.add p) := by
  induction is generalizing p with
  | nil => exact h
  | cons i is ih => exact ih (wf_add h i)

theorem wf_build (is : List Instruction) : WF (build is) := wf_foldl wf_empty is

/-! ### membership: the listing only contains added instructions -/

theorem mem_add {p : Prog} {i x : Instruction} {r : Nat} (h : x ∈ (p.add i) r) : x = i ∨ x ∈ p r := by
  by_cases hr : r = (slotOf i).rank
  · simp only [Prog.add, hr, if_true, addAt] at h
    split at h
    · simp at h
      rcases h with h | h
      · exact Or.inr (hr ▸ h)
      · exact Or.inl h
    · rcases mem_upsert h with h | h
      · exact Or.inl h
      · exact Or.inr (hr ▸ h)
  · simp only [Prog.add, hr, if_false] at h
    exact Or.inr h

theorem mem_foldl {is : List Instruction} {p : Prog} {x : Instruction} {r : Nat}
    (h : x ∈ (is.foldl Prog.add p) r) : x ∈ is ∨ x ∈ p r := by
  induction is generalizing p with
  | nil => exact Or.inr h
  | cons i is ih =>
    rcases ih h with h | h
    · exact Or.inl (by simp [h])
    · rcases mem_add h with h | h
      · exact Or.inl (by simp [h])
      · exact Or.inr h

theorem mem_listing {p : Prog} {x : Instruction} : x ∈ p.listing ↔ ∃ r, r ≤ 8 ∧ x ∈ p r := by
  simp only [Prog.listing, List.mem_append]
  constructor
  · intro h
    rcases h with h | h | h | h | h | h | h | h | h <;> exact ⟨_, by omega, h⟩
  · rintro ⟨r, hr, h⟩
    have : r = 0 ∨ r = 1 ∨ r = 2 ∨ r = 3 ∨ r = 4 ∨ r = 5 ∨ r = 6 ∨ r = 7 ∨ r = 8 := by omega
    rcases this with rfl | rfl | rfl | rfl | rfl | rfl | rfl | rfl | rfl <;> simp [h]

/-- every instruction of the listing of a built program is one of the instructions it was built from -/
theorem mem_listing_build {is : List Instruction} {x : Instruction} (h : x ∈ (build is).listing) : x ∈ is := by
  obtain ⟨r, _, hx⟩ := mem_listing.mp h
  rcases mem_foldl hx with h | h
  · exact h
  · simp [Prog.empty] at h

/-! ### re-adding the listing -/

theorem foldl_add_at (is : List Instruction) (p : Prog) (r : Nat) :
    (is.foldl Prog.add p) r = (is.filter fun x => (slotOf x).rank = r).foldl (addAt r) (p r) := by
  induction is generalizing p with
  | nil => rfl
  | cons i is ih =>
    simp only [List.foldl_cons, ih, List.filter_cons]
    by_cases hr : (slotOf i).rank = r
    · simp [hr, Prog.add]
    · have hr' : ¬ r = (slotOf i).rank := fun h => hr h.symm
      simp [hr, hr', Prog.add]

theorem foldl_upsert_of_nodup (xs l : List Instruction) (h : ((l ++ xs).map slotOf).Nodup) :
    xs.foldl upsert l = l ++ xs := by
  induction xs generalizing l with
  | nil => simp
  | cons x xs ih =>
    have hx : ∀ y ∈ l, slotOf y ≠ slotOf x := by
      intro y hy hxy
      have := List.nodup_append.mp (by simpa using h : (l.map slotOf ++ (slotOf x :: xs.map slotOf)).Nodup)
      exact this.2.2 _ (List.mem_map_of_mem hy) _ (by simp) hxy
    rw [List.foldl_cons, upsert_of_not_mem hx, ih (l ++ [x]) (by simpa using h)]
    simp

theorem foldl_push (xs l : List Instruction) : xs.foldl (fun a i => a ++ [i]) l = l ++ xs := by
  induction xs generalizing l with
  | nil => simp
  | cons x xs ih => simp [ih]

theorem filter_rank_container {p : Prog} (h : WF p) (r s : Nat) :
    (p s).filter (fun x => (slotOf x).rank = r) = if s = r then p s else [] := by
  split
  · rename_i hs
    subst hs
    exact List.filter_eq_self.mpr (fun x hx => by simpa using h.ranks s x hx)
  · rename_i hs
    exact List.filter_eq_nil_iff.mpr (fun x hx => by
      have := h.ranks s x hx
      simp
      omega)

theorem filter_rank_listing {p : Prog} (h : WF p) (r : Nat) (hr : r ≤ 8) :
    p.listing.filter (fun x => (slotOf x).rank = r) = p r := by
  simp only [Prog.listing, List.filter_append, filter_rank_container h]
  have : r = 0 ∨ r = 1 ∨ r = 2 ∨ r = 3 ∨ r = 4 ∨ r = 5 ∨ r = 6 ∨ r = 7 ∨ r = 8 := by omega
  rcases this with rfl | rfl | rfl | rfl | rfl | rfl | rfl | rfl | rfl <;> simp

/-- containers of ranks above 8 stay empty -/
theorem build_high (is : List Instruction) (r : Nat) (hr : 8 < r) : (build is) r = [] := by
  rw [build, foldl_add_at]
  have : (is.filter fun x => (slotOf x).rank = r) = [] :=
    List.filter_eq_nil_iff.mpr (fun x _ => by have := rank_lt (slotOf x); simp; omega)
  simp [this, Prog.empty]

/-- **`from_instructions(to_instructions(P)) = P`** for every program built by `add_instruction`s -/
theorem build_listing_build (is : List Instruction) : build (build is).listing = build is := by
  funext r
  by_cases hr : r ≤ 8
  · have hwf := wf_build is
    rw [build, foldl_add_at, filter_rank_listing hwf r hr]
    by_cases h8 : r = 8
    · subst h8
      have : addAt 8 = fun a i => a ++ [i] := by funext a i; simp [addAt]
      rw [this, foldl_push]; simp [Prog.empty]
    · have : addAt r = upsert := by funext a i; simp [addAt, h8]
      rw [this, foldl_upsert_of_nodup _ _ (by simpa [Prog.empty] using hwf.nodup r h8)]
      simp [Prog.empty]
  · rw [build_high _ r (by omega), build_high _ r (by omega)]

/-! ## re-adding a slot-preserving image of a listing -/

theorem upsert_map (f : Instruction → Instruction) (hf : ∀ i, slotOf (f i) = slotOf i)
    (l : List Instruction) (i : Instruction) : upsert (l.map f) (f i) = (upsert l i).map f := by
  induction l with
  | nil => rfl
  | cons x xs ih =>
    simp only [List.map_cons, upsert, hf]
    split <;> simp [ih]

/-- the image of every container -/
def mapProg (f : Instruction → Instruction) (p : Prog) : Prog := fun r => (p r).map f

theorem add_map (f : Instruction → Instruction) (hf : ∀ i, slotOf (f i) = slotOf i) (p : Prog) (i : Instruction) :
    (mapProg f p).add (f i) = mapProg f (p.add i) := by
  funext r
  simp only [Prog.add, mapProg, hf]
  split
  · simp only [addAt]
    split
    · simp
    · exact upsert_map f hf _ _
  · rfl

theorem foldl_add_map (f : Instruction → Instruction) (hf : ∀ i, slotOf (f i) = slotOf i)
    (xs : List Instruction) (p : Prog) :
    (xs.map f).foldl Prog.add (mapProg f p) = mapProg f (xs.foldl Prog.add p) := by
  induction xs generalizing p with
  | nil => rfl
  | cons x xs ih =>
    simp only [List.map_cons, List.foldl_cons]
    rw [add_map f hf p x]
    exact ih (p.add x)

/-- building from a slot-preserving image of a list = the image of the built containers -/
theorem build_map (f : Instruction → Instruction) (hf : ∀ i, slotOf (f i) = slotOf i) (xs : List Instruction) :
    build (xs.map f) = mapProg f (build xs) := by
  have := foldl_add_map f hf xs Prog.empty
  have he : mapProg f Prog.empty = Prog.empty := by funext r; simp [mapProg, Prog.empty]
  rw [he] at this
  exact this

theorem listing_mapProg (f : Instruction → Instruction) (p : Prog) :
    (mapProg f p).listing = p.listing.map f := by
  simp [Prog.listing, mapProg]


theorem slotOf_canonInstr (i : Instruction) : slotOf (canonInstr i) = slotOf i := by
  cases i <;> simp [canonInstr, slotOf]

theorem mem_build {is : List Instruction} {x : Instruction} {r : Nat} (h : x ∈ (build is) r) : x ∈ is := by
  rcases mem_foldl h with h | h
  · exact h
  · simp [Prog.empty] at h

/-- a map that fixes every added instruction fixes the built program -/
theorem mapProg_eq_self (f : Instruction → Instruction) (is : List Instruction) (h : ∀ i ∈ is, f i = i) :
    mapProg f (build is) = build is := by
  funext r
  simp only [mapProg]
  have : ∀ l : List Instruction, (∀ x ∈ l, f x = x) → l.map f = l := by
    intro l hl
    induction l with
    | nil => rfl
    | cons x xs ih => simp [hl x (by simp), ih (fun y hy => hl y (by simp [hy]))]
  exact this _ (fun x hx => h x (mem_build hx))

end QV.C02
