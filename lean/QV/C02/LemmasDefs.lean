import QV.C02.LemmasWave
import QV.C02.LemmasDelay
import QV.C02.LemmasTop
/-!
C02 lemmas, part 12 (core Lean only): the definition kinds that do not end in a newline — DEFWAVEFORM, DEFFRAME,
DEFCAL.  Their printed form spans several lines (`joinNL`); what follows their last line must not be an indented
line (`RTtop`).
-/
set_option maxRecDepth 4000
namespace QV.C02
open QV QV.Tok QV.Ast QV.Parse QV.Print QV.ExprPrint QV.ExprRoundTrip

/-! ## multi-line blocks -/

/-- lines joined by single newlines -/
def joinNL : List (List Token) → List Token
  | [] => []
  | [l] => l
  | l :: m :: rest => l ++ .newLine :: joinNL (m :: rest)

theorem joinNL_cons (l : List Token) (ls : List (List Token)) (h : ls ≠ []) :
    joinNL (l :: ls) = l ++ .newLine :: joinNL ls := by
  cases ls with
  | nil => exact absurd rfl h
  | cons m rest => rfl

/-- good blocks joined by newlines form a good block -/
theorem blockOk_joinNL' (ls : List (List Token)) (hne : ls ≠ [])
    (h : ∀ l ∈ ls, blockOk l = true) : blockOk (joinNL ls) = true := by
  induction ls with
  | nil => exact absurd rfl hne
  | cons l ls ih =>
    have hbl : blockOk l = true := h l (by simp)
    have hl : l ≠ [] := by intro e; subst e; simp [blockOk] at hbl
    cases ls with
    | nil => simpa [joinNL] using hbl
    | cons m rest =>
      have ihm := ih (by simp) (fun x hx => h x (by simp [hx]))
      rw [joinNL_cons l (m :: rest) (by simp)]
      have hM : blockOk (joinNL (m :: rest)) = true := ihm
      simp only [blockOk, Bool.and_eq_true] at hM hbl ⊢
      constructor
      · cases hl' : l with
        | nil => exact absurd hl' hl
        | cons a b => rw [hl'] at hbl; simpa using hbl.1
      · rw [List.append_assoc, List.cons_append]
        apply noAdjNL_append_block l _ (by simp only [blockOk, Bool.and_eq_true]; exact hbl) hM.2
        intro t r htr
        cases hj : joinNL (m :: rest) with
        | nil => rw [hj] at hM; simp at hM
        | cons a b =>
          rw [hj] at htr hM
          simp only [List.cons_append, List.cons.injEq] at htr
          have := hM.1
          simp only [decide_eq_true_eq] at this
          rw [← htr.1]; exact this

/-- non-empty newline-free lines joined by newlines form a good block -/
theorem blockOk_joinNL (ls : List (List Token)) (hne : ls ≠ [])
    (h : ∀ l ∈ ls, l ≠ [] ∧ Token.newLine ∉ l) : blockOk (joinNL ls) = true :=
  blockOk_joinNL' ls hne (fun l hl =>
    blockOk_of_noNL l (h l hl).1 (fun t ht hnl => (h l hl).2 (hnl ▸ ht)))

/-! ## more list combinators on printed items -/

theorem separatedList1_items {α β : Type} (p : Parser β) (enc : α → List Token) (g : α → β)
    (okTail : List Token → Bool) (x : α) (xs : List α) (rest : List Token)
    (hp : ∀ y ∈ x :: xs, ∀ r, okTail r = true → p (enc y ++ r) = .ok (g y) r)
    (hcomma : ∀ r, okTail (.comma :: r) = true)
    (hc : notComma rest = true) (he : okTail rest = true) :
    separatedList1 (tok .comma) p (sepBy [.comma] ((x :: xs).map enc) ++ rest) = .ok ((x :: xs).map g) rest := by
  have h0 := separatedList0_items p enc g okTail x xs rest hp hcomma hc he
  have hnext : okTail (xs.flatMap (fun x => [Token.comma] ++ enc x) ++ rest) = true := by
    cases xs with
    | nil => simpa using he
    | cons x' xs' => simpa using hcomma _
  have h1 := hp x (by simp) _ hnext
  have hflat : (xs.map enc).flatMap (fun y => [Token.comma] ++ y) =
      xs.flatMap (fun x => [Token.comma] ++ enc x) := by
    simp [List.flatMap_map]
  simp only [List.map_cons, sepBy_cons, hflat, List.append_assoc, separatedList0, separatedList1, h1] at h0 ⊢
  exact h0

/-- `many0` over printed items whose parser needs to see an admissible continuation -/
theorem many0Fuel_items_ok {α β : Type} (p : Parser β) (enc : α → List Token) (g : α → β)
    (okTail : List Token → Bool) (xs : List α) (rest : List Token)
    (hp : ∀ x ∈ xs, ∀ r, okTail r = true → p (enc x ++ r) = .ok (g x) r)
    (hne : ∀ x ∈ xs, enc x ≠ []) (henc : ∀ x ∈ xs, ∀ r, okTail (enc x ++ r) = true)
    (hrest : okTail rest = true) (hstop : p rest = .err) (k : Nat) (hk : xs.length < k) :
    many0Fuel p k (xs.flatMap enc ++ rest) = .ok (xs.map g) rest := by
  induction xs generalizing k with
  | nil =>
    cases k with
    | zero => omega
    | succ k => simp [many0Fuel, hstop]
  | cons x xs ih =>
    cases k with
    | zero => omega
    | succ k =>
      have hnext : okTail (xs.flatMap enc ++ rest) = true := by
        cases xs with
        | nil => simpa using hrest
        | cons y ys => simpa [List.flatMap_cons, List.append_assoc] using henc y (by simp) _
      have hx := hp x (by simp) (xs.flatMap enc ++ rest) hnext
      have hlen : 0 < (enc x).length := List.length_pos_iff.mpr (hne x (by simp))
      simp only [List.flatMap_cons, List.append_assoc, many0Fuel, hx]
      have : ¬ ((xs.flatMap enc ++ rest).length == (enc x ++ (xs.flatMap enc ++ rest)).length) = true := by
        simp only [List.length_append, beq_iff_eq]; omega
      simp only [this, if_false]
      rw [ih (fun y hy => hp y (by simp [hy])) (fun y hy => hne y (by simp [hy]))
        (fun y hy => henc y (by simp [hy])) k (by simp at hk; omega)]
      rfl

theorem many1_items_ok {α β : Type} (p : Parser β) (enc : α → List Token) (g : α → β)
    (okTail : List Token → Bool) (x : α) (xs : List α) (rest : List Token)
    (hp : ∀ y ∈ x :: xs, ∀ r, okTail r = true → p (enc y ++ r) = .ok (g y) r)
    (hne : ∀ y ∈ x :: xs, enc y ≠ []) (henc : ∀ y ∈ x :: xs, ∀ r, okTail (enc y ++ r) = true)
    (hrest : okTail rest = true) (hstop : p rest = .err) :
    many1 p (enc x ++ (xs.flatMap enc ++ rest)) = .ok ((x :: xs).map g) rest := by
  have hnext : okTail (xs.flatMap enc ++ rest) = true := by
    cases xs with
    | nil => simpa using hrest
    | cons y ys => simpa [List.flatMap_cons, List.append_assoc] using henc y (by simp) _
  unfold many1
  rw [hp x (by simp) _ hnext]
  simp only []
  rw [many0Fuel_items_ok p enc g okTail xs rest (fun y hy => hp y (by simp [hy]))
    (fun y hy => hne y (by simp [hy])) (fun y hy => henc y (by simp [hy])) hrest hstop]
  · rfl
  · have := length_flatMap_ge enc xs (fun y hy => hne y (by simp [hy]))
    simp only [List.length_append]; omega

/-- `many0` over printed items of which the LAST has its own read-back fact (it needs a stronger continuation
than the others: a definition at the end of a body) -/
theorem many0Fuel_items_last {α β : Type} (p : Parser β) (enc : α → List Token) (g : α → β)
    (okTail : List Token → Bool) (xs : List α) (z : α) (rest : List Token)
    (hp : ∀ x ∈ xs, ∀ r, okTail r = true → p (enc x ++ r) = .ok (g x) r)
    (hne : ∀ x ∈ xs, enc x ≠ []) (hzne : enc z ≠ []) (henc : ∀ x r, okTail (enc x ++ r) = true)
    (hz : p (enc z ++ rest) = .ok (g z) rest) (hstop : p rest = .err) (k : Nat) (hk : xs.length + 1 < k) :
    many0Fuel p k (xs.flatMap enc ++ (enc z ++ rest)) = .ok (xs.map g ++ [g z]) rest := by
  induction xs generalizing k with
  | nil =>
    cases k with
    | zero => omega
    | succ k =>
      cases k with
      | zero => simp at hk
      | succ k =>
        have hlen : 0 < (enc z).length := List.length_pos_iff.mpr hzne
        have : ¬ (rest.length == (enc z ++ rest).length) = true := by
          simp only [List.length_append, beq_iff_eq]; omega
        simp [many0Fuel, hz, hstop, Outcome.map, hzne]
  | cons x xs ih =>
    cases k with
    | zero => omega
    | succ k =>
      have hnext : okTail (xs.flatMap enc ++ (enc z ++ rest)) = true := by
        cases xs with
        | nil => simpa using henc z rest
        | cons y ys => simpa [List.flatMap_cons, List.append_assoc] using henc y _
      have hx := hp x (by simp) _ hnext
      have hlen : 0 < (enc x).length := List.length_pos_iff.mpr (hne x (by simp))
      simp only [List.flatMap_cons, List.append_assoc, many0Fuel, hx]
      have : ¬ ((xs.flatMap enc ++ (enc z ++ rest)).length ==
          (enc x ++ (xs.flatMap enc ++ (enc z ++ rest))).length) = true := by
        simp only [List.length_append, beq_iff_eq]; omega
      simp only [this, if_false]
      rw [ih (fun y hy => hp y (by simp [hy])) (fun y hy => hne y (by simp [hy])) k (by simp at hk; omega)]
      rfl

theorem many1_items_last {α β : Type} (p : Parser β) (enc : α → List Token) (g : α → β)
    (okTail : List Token → Bool) (xs : List α) (z : α) (rest : List Token)
    (hp : ∀ x ∈ xs, ∀ r, okTail r = true → p (enc x ++ r) = .ok (g x) r)
    (hne : ∀ x ∈ xs, enc x ≠ []) (hzne : enc z ≠ []) (henc : ∀ x r, okTail (enc x ++ r) = true)
    (hz : p (enc z ++ rest) = .ok (g z) rest) (hstop : p rest = .err) :
    many1 p ((xs ++ [z]).flatMap enc ++ rest) = .ok ((xs ++ [z]).map g) rest := by
  cases xs with
  | nil =>
    have hlen : 0 < (enc z).length := List.length_pos_iff.mpr hzne
    simp [many1, hz, many0Fuel, hstop, Outcome.map, hzne]
  | cons x xs =>
    have hnext : okTail (xs.flatMap enc ++ (enc z ++ rest)) = true := by
      cases xs with
      | nil => simpa using henc z rest
      | cons y ys => simpa [List.flatMap_cons, List.append_assoc] using henc y _
    have hx := hp x (by simp) _ hnext
    have h0 := many0Fuel_items_last p enc g okTail xs z rest (fun y hy => hp y (by simp [hy]))
      (fun y hy => hne y (by simp [hy])) hzne henc hz hstop
      ((xs.flatMap enc ++ (enc z ++ rest)).length + 1) (by
        have := length_flatMap_ge enc xs (fun y hy => hne y (by simp [hy]))
        have hlen : 0 < (enc z).length := List.length_pos_iff.mpr hzne
        simp only [List.length_append]; omega)
    simp only [List.cons_append, List.flatMap_cons, List.flatMap_append, List.flatMap_nil, List.append_nil,
      List.append_assoc, many1, hx, h0, Outcome.map, List.map_cons, List.map_append, List.map_nil]

/-! ## `%variable` parameter lists -/

theorem parseVariableList_toks (ps : List String) (rest : List Token) (hrest : tok .lParenthesis rest = .err) :
    parseVariableList (varParamsToks ps ++ rest) = .ok (if ps.isEmpty then none else some ps) rest := by
  cases ps with
  | nil =>
    simp [parseVariableList, varParamsToks, opt, delimited, Parser.bind, hrest, Parser.pure]
  | cons x xs =>
    have hl := separatedList0_items tokVariable (fun v : String => [Token.variable v.toList])
      (fun v : String => v.toList) (fun _ => true) x xs (.rParenthesis :: rest)
      (fun y _ r _ => rfl) (fun _ => rfl) rfl rfl
    simp only [parseVariableList, varParamsToks, List.isEmpty_cons, Bool.false_eq_true, if_false, bind_eq,
      Parser.bind, opt, delimited, List.cons_append, List.append_assoc, List.singleton_append, pure_eq, Parser.pure]
    simp only [tok, if_true]
    erw [hl]
    simp [List.map_map, Function.comp_def]

/-! ## DEFWAVEFORM -/

theorem tok_lparen_colon (r : List Token) : tok .lParenthesis (.colon :: r) = .err := rfl

theorem rt_waveformDefinition_norm (F : NumFmt) (d : Nat) (w : WaveformDefinition)
    (hname : wfNameOk w.name = true) (hne : w.definition.matrix ≠ [])
    (hf : ∀ e ∈ w.definition.matrix, finiteLits e = true) (hn : ∀ e ∈ w.definition.matrix, numTokOk F e = true)
    (hd : (toks F (.waveformDefinition w)).length ≤ d) :
    RT F d (.waveformDefinition w)
      (.waveformDefinition ⟨w.name, ⟨w.definition.matrix.map norm, w.definition.parameters⟩⟩) := by
  obtain ⟨name, ⟨matrix, params⟩⟩ := w
  simp only at hname hne hf hn
  cases hm : matrix with
  | nil => exact absurd hm hne
  | cons e es =>
    subst hm
    apply rt_of_command F d _ _ .defWaveform (slashNameToks name ++ (varParamsToks params ++
      (.colon :: .newLine :: .indentation :: sepBy [.comma] ((e :: es).map (printTop F)))))
    · simp [toks]
    · intro rest
      have hlen : ∀ x ∈ e :: es, (printTop F x).length < d + 1 := by
        intro x hx
        have h1 := length_sepBy_ge [.comma] (printTop F x) ((e :: es).map (printTop F)) (List.mem_map_of_mem hx)
        simp only [toks, List.length_cons, List.length_append] at hd
        omega
      have hlist := separatedList1_items (parseExpressionAt (d + 1)) (printTop F) norm endOk e es (.newLine :: rest)
        (fun y hy r hr => parseExpressionAt_printTop F y (hf y hy) (hn y hy) (d + 1) r (hlen y hy) hr)
        (fun _ => rfl) rfl rfl
      have hname' := parseWaveformName_toks name hname
        (varParamsToks params ++ (.colon :: .newLine :: .indentation ::
          (sepBy [.comma] ((e :: es).map (printTop F)) ++ .newLine :: rest)))
        (by cases params <;> simp [varParamsToks, notSlash])
      have hvars := parseVariableList_toks params
        (.colon :: .newLine :: .indentation :: (sepBy [.comma] ((e :: es).map (printTop F)) ++ .newLine :: rest))
        (tok_lparen_colon _)
      simp only [parseCommand, parseDefwaveform, bind_eq, Parser.bind, List.append_assoc, List.cons_append]
        at hname' hvars ⊢
      rw [hname']
      simp only
      rw [hvars]
      simp only [tok, if_true]
      erw [hlist]
      cases params <;> simp [Parser.pure]

theorem rt_waveformDefinition (F : NumFmt) (d : Nat) (w : WaveformDefinition)
    (hp : parsedInstr (.waveformDefinition w) = true) (hn : numTokInstr F (.waveformDefinition w) = true)
    (hd : (toks F (.waveformDefinition w)).length ≤ d) :
    RT F d (.waveformDefinition w) (.waveformDefinition w) := by
  simp only [parsedInstr, Bool.and_eq_true, Bool.not_eq_true', List.isEmpty_eq_false_iff] at hp
  simp only [numTokInstr] at hn
  have := rt_waveformDefinition_norm F d w hp.1.1 hp.1.2
    (fun e he => finiteLits_parsedExpr e (List.all_eq_true.mp hp.2 e he))
    (fun e he => List.all_eq_true.mp hn e he) hd
  rwa [map_norm_parsed _ hp.2] at this

/-! ## DEFFRAME -/

abbrev Attr := String × AttributeValue

def attrToks (F : NumFmt) (kv : Attr) : List Token :=
  .newLine :: .indentation :: identTok kv.1 :: .colon :: attributeToks F kv.2

def normAttr (kv : Attr) : Attr :=
  (kv.1, match kv.2 with | .string s => .string s | .expression e => .expression (norm e))

/-- the continuation begins with a newline -/
def startsNL : List Token → Bool
  | .newLine :: _ => true
  | _ => false

def attrFinite : AttributeValue → Bool
  | .string _ => true
  | .expression e => finiteLits e

def attrNumTok (F : NumFmt) : AttributeValue → Bool
  | .string _ => true
  | .expression e => numTokOk F e

theorem parseFrameAttribute_toks (F : NumFmt) (d : Nat) (kv : Attr) (hf : attrFinite kv.2 = true)
    (hn : attrNumTok F kv.2 = true)
    (hd : ∀ e, kv.2 = .expression e → (printTop F e).length < d + 1) (r : List Token) (hr : startsNL r = true) :
    parseFrameAttribute (parseExpressionAt (d + 1)) (attrToks F kv ++ r) = .ok (normAttr kv) r := by
  obtain ⟨k, v⟩ := kv
  cases v with
  | string s =>
    simp [attrToks, attributeToks, parseFrameAttribute, Parser.bind, Parser.pure, tok, tokIdentifier, identTok, alt,
      pmap, tokString, strTok, Outcome.map, normAttr]
  | expression e =>
    have hend : endOk r = true := by
      cases r with
      | nil => rfl
      | cons t r' => cases t <;> simp_all [startsNL, endOk]
    have hx := parseExpressionAt_printTop F e hf hn (d + 1) r (hd e rfl) hend
    have hns : tokString (printTop F e ++ r) = .err := by
      have := printTop_notString F e hn r
      cases h : printTop F e ++ r with
      | nil => rfl
      | cons t r' => rw [h] at this; cases t <;> simp_all [tokString, notString]
    simp only [attrToks, attributeToks, List.cons_append, parseFrameAttribute, bind_eq, Parser.bind, tok, if_true,
      identTok, tokIdentifier, alt, pmap, hns, Outcome.map, hx, pure_eq, Parser.pure, str_toList, normAttr]

theorem parseFrameAttribute_stop (pe : Parser PExpr) (rest : List Token) (hr : restOk rest = true) :
    parseFrameAttribute pe (.newLine :: rest) = .err := by
  cases rest with
  | nil => simp [parseFrameAttribute, Parser.bind, tok]
  | cons t r =>
    have : t ≠ .indentation := by intro h; subst h; simp [restOk, startTok] at hr
    simp [parseFrameAttribute, Parser.bind, tok, this]

theorem length_flatMap_mem {α : Type} (enc : α → List Token) (xs : List α) (x : α) (hx : x ∈ xs) :
    (enc x).length ≤ (xs.flatMap enc).length := by
  induction xs with
  | nil => simp at hx
  | cons y ys ih =>
    simp only [List.mem_cons] at hx
    simp only [List.flatMap_cons, List.length_append]
    rcases hx with rfl | hx
    · omega
    · have := ih hx; omega

theorem rt_frameDefinition_norm (F : NumFmt) (d : Nat) (f : FrameDefinition) (hfr : frameOk f.identifier = true)
    (hne : f.attributes ≠ []) (hkeys : (f.attributes.map (·.1)).Nodup)
    (hfin : ∀ kv ∈ f.attributes, attrFinite kv.2 = true) (hn : ∀ kv ∈ f.attributes, attrNumTok F kv.2 = true)
    (hd : (toks F (.frameDefinition f)).length ≤ d) :
    RTtop F d (.frameDefinition f) (.frameDefinition ⟨f.identifier, f.attributes.map normAttr⟩) := by
  obtain ⟨id, attrs⟩ := f
  simp only at hfr hne hkeys hfin hn
  cases ha : attrs with
  | nil => exact absurd ha hne
  | cons a as =>
    subst ha
    apply rttop_of_command F d _ _ .defFrame (frameToks id ++ .colon :: (a :: as).flatMap (attrToks F))
    · simp [toks, attrToks]; rfl
    · intro rest hrest
      have hlen : ∀ kv ∈ a :: as, ∀ e, kv.2 = .expression e → (printTop F e).length < d + 1 := by
        intro kv hkv e he
        have h1 := length_flatMap_mem (attrToks F) (a :: as) kv hkv
        have h2 : (printTop F e).length ≤ (attrToks F kv).length := by
          simp [attrToks, attributeToks, he]; omega
        have h3 : (toks F (.frameDefinition ⟨id, a :: as⟩)).length =
            1 + ((frameToks id).length + (1 + ((a :: as).flatMap (attrToks F)).length)) := by
          have : toks F (.frameDefinition ⟨id, a :: as⟩) =
              .command .defFrame :: (frameToks id ++ .colon :: (a :: as).flatMap (attrToks F)) := by
            simp only [toks, cmd]; rfl
          rw [this]; simp only [List.length_cons, List.length_append]; omega
        omega
      have hm := many1_items_ok (parseFrameAttribute (parseExpressionAt (d + 1))) (attrToks F) normAttr startsNL
        a as (.newLine :: rest)
        (fun kv hkv r hr => parseFrameAttribute_toks F d kv (hfin kv hkv) (hn kv hkv) (hlen kv hkv) r hr)
        (fun kv _ => by simp [attrToks]) (fun kv _ r => by simp [attrToks, startsNL]) rfl
        (parseFrameAttribute_stop _ rest hrest)
      have hnodup : (((a :: as).map normAttr).map (·.1)).Nodup := by
        simpa [normAttr, List.map_map, Function.comp_def] using hkeys
      simp only [parseCommand, parseDefframe, bind_eq, Parser.bind, List.append_assoc, List.cons_append,
        parseFrameIdentifier_toks id hfr, tok, if_true, List.flatMap_cons]
      erw [hm]
      simp only [pure_eq, Parser.pure, indexMapCollect_nodup _ hnodup]

theorem rt_frameDefinition (F : NumFmt) (d : Nat) (f : FrameDefinition)
    (hp : parsedInstr (.frameDefinition f) = true) (hn : numTokInstr F (.frameDefinition f) = true)
    (hd : (toks F (.frameDefinition f)).length ≤ d) :
    RTtop F d (.frameDefinition f) (.frameDefinition f) := by
  simp only [parsedInstr, Bool.and_eq_true, Bool.not_eq_true', List.isEmpty_eq_false_iff, distinctKeys,
    decide_eq_true_eq] at hp
  simp only [numTokInstr] at hn
  have hattr : ∀ kv ∈ f.attributes, attributeOk kv.2 = true := fun kv hkv => List.all_eq_true.mp hp.2 kv hkv
  have := rt_frameDefinition_norm F d f hp.1.1.1 hp.1.1.2 hp.1.2
    (fun kv hkv => by
      have := hattr kv hkv
      cases hv : kv.2 with
      | string s => rfl
      | expression e => rw [hv] at this; exact finiteLits_parsedExpr e this)
    (fun kv hkv => by
      have := List.all_eq_true.mp hn kv hkv
      cases hv : kv.2 with
      | string s => rfl
      | expression e => rw [hv] at this; exact this) hd
  have hmap : f.attributes.map normAttr = f.attributes := by
    have : ∀ l : List Attr, (∀ kv ∈ l, attributeOk kv.2 = true) → l.map normAttr = l := by
      intro l hl
      induction l with
      | nil => rfl
      | cons x xs ih =>
        have hx := hl x (by simp)
        obtain ⟨k, v⟩ := x
        cases v with
        | string s => simp [normAttr, ih (fun y hy => hl y (by simp [hy]))]
        | expression e =>
          simp only [attributeOk] at hx
          simp [normAttr, norm_parsedExpr e hx, ih (fun y hy => hl y (by simp [hy]))]
    exact this _ hattr
  rw [hmap] at this
  exact this

end QV.C02
