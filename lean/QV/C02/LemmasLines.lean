import QV.C02.LemmasTop
/-!
C02 lemmas, part 10 (core Lean only): programs whose instructions print with a TRAILING newline (DEFCAL MEASURE,
DEFCIRCUIT, DEFGATE end in `"\n"`, and the program writer adds its own `"\n"`): the lexer sees the run of
newlines as one token (`collapseNL`), so the printed program is the concatenation of the instructions' tokens
WITHOUT that trailing newline (`stripNL`), each followed by one newline.  Generic over the per-instruction
token function.
-/
namespace QV.C02
open QV QV.Tok QV.Ast QV.Parse QV.Print QV.ExprPrint

/-- drop one trailing `newLine` token, if any -/
def stripNL (ts : List Token) : List Token := if ts.getLast? = some .newLine then ts.dropLast else ts

/-- the tokens of an instruction's line(s), without the trailing newline some definition kinds print -/
def lineToks (F : NumFmt) (i : Instruction) : List Token := stripNL (toks F i)

/-- every instruction's tokens followed by a newline -/
def progOf (e : Instruction → List Token) (L : List Instruction) : List Token :=
  L.flatMap fun i => e i ++ [.newLine]

theorem progOf_cons (e : Instruction → List Token) (i : Instruction) (L : List Instruction) :
    progOf e (i :: L) = e i ++ .newLine :: progOf e L := by simp [progOf]

theorem programRaw_eq_progOf (F : NumFmt) (L : List Instruction) : programRaw F L = progOf (toks F) L := rfl

theorem stripNL_snoc (X : List Token) : stripNL (X ++ [.newLine]) = X := by simp [stripNL]

theorem eq_dropLast_snoc {α : Type} (l : List α) (a : α) (h : l.getLast? = some a) : l = l.dropLast ++ [a] := by
  induction l with
  | nil => simp at h
  | cons x l ih =>
    cases l with
    | nil => simp at h; simp [h]
    | cons y l =>
      rw [List.getLast?_cons_cons] at h
      simp only [List.dropLast_cons₂, List.cons_append]
      rw [← ih h]

theorem stripNL_cases (ts : List Token) : ts = stripNL ts ∨ ts = stripNL ts ++ [.newLine] := by
  unfold stripNL
  split
  · rename_i h
    right
    exact eq_dropLast_snoc _ _ h
  · left; rfl

theorem noAdjNL_snoc2 (d : List Token) : noAdjNL (d ++ [.newLine, .newLine]) = false := by
  induction d with
  | nil => rfl
  | cons a d ih =>
    cases d with
    | nil => simp [noAdjNL]
    | cons b d =>
      simp only [List.cons_append] at ih ⊢
      simp [noAdjNL, ih]

theorem stripNL_of_blockOk (ts : List Token) (h : blockOk ts = true) : stripNL ts = ts := by
  unfold stripNL
  split
  · rename_i hl
    have e := eq_dropLast_snoc _ _ hl
    simp only [blockOk, Bool.and_eq_true] at h
    have h2 := h.2
    rw [e] at h2
    simp only [List.append_assoc, List.cons_append, List.nil_append] at h2
    rw [noAdjNL_snoc2] at h2
    exact absurd h2 (by simp)
  · rfl

/-! ## `collapseNL` on blocks -/

theorem collapseNL_cons_ne (t : Token) (r : List Token) (h : t ≠ .newLine) :
    collapseNL (t :: r) = t :: collapseNL r := by
  cases r with
  | nil => rfl
  | cons u r => simp [collapseNL, h]

theorem collapseNL_nl_nl (r : List Token) :
    collapseNL (.newLine :: .newLine :: r) = collapseNL (.newLine :: r) := by simp [collapseNL]

theorem collapseNL_nl_ne (r : List Token) (h : ∀ t s, r = t :: s → t ≠ .newLine) :
    collapseNL (.newLine :: r) = .newLine :: collapseNL r := by
  cases r with
  | nil => rfl
  | cons u r => simp [collapseNL, h u r rfl]

theorem collapseNL_block (a : List Token) (hne : a ≠ []) (h : noAdjNL (a ++ [.newLine]) = true)
    (r : List Token) : collapseNL (a ++ .newLine :: r) = a ++ collapseNL (.newLine :: r) := by
  induction a with
  | nil => exact absurd rfl hne
  | cons t x ih =>
    cases x with
    | nil =>
      simp only [List.cons_append, List.nil_append] at h ⊢
      rw [noAdjNL_cons2] at h
      have ht : t ≠ .newLine := fun e => h.1 ⟨e, rfl⟩
      rw [collapseNL_cons_ne t _ ht]
    | cons u x =>
      simp only [List.cons_append] at h ih ⊢
      rw [noAdjNL_cons2] at h
      have : collapseNL (t :: u :: (x ++ .newLine :: r)) = t :: collapseNL (u :: (x ++ .newLine :: r)) := by
        simp only [collapseNL, h.1, if_false]
      rw [this, ih (by simp) h.2]

/-- the printed program: a run of newlines after a definition is one token -/
theorem collapse_progOf (e : Instruction → List Token) (L : List Instruction)
    (h : ∀ i ∈ L, blockOk (stripNL (e i)) = true) :
    collapseNL (progOf e L) = progOf (fun i => stripNL (e i)) L ∧
      ∀ t s, progOf e L = t :: s → t ≠ .newLine := by
  induction L with
  | nil => simp [progOf, collapseNL]
  | cons i L ih =>
    have ih' := ih (fun j hj => h j (by simp [hj]))
    have hb := h i (by simp)
    rw [progOf_cons, progOf_cons]
    have hc := stripNL_cases (e i)
    generalize stripNL (e i) = b at hb hc
    simp only [blockOk, Bool.and_eq_true] at hb
    have hne : b ≠ [] := by intro e0; subst e0; simp at hb
    have hhead : ∀ t s, b = t :: s → t ≠ .newLine := by
      intro t s e0; subst e0; simpa using hb.1
    have hcol : collapseNL (b ++ .newLine :: progOf e L) =
        b ++ .newLine :: progOf (fun i => stripNL (e i)) L := by
      rw [collapseNL_block b hne hb.2, collapseNL_nl_ne _ ih'.2, ih'.1]
    constructor
    · rcases hc with hc | hc
      · rw [hc]; exact hcol
      · rw [hc]
        simp only [List.append_assoc, List.cons_append, List.nil_append]
        rw [collapseNL_block b hne hb.2, collapseNL_nl_nl, ← collapseNL_block b hne hb.2]
        exact hcol
    · intro t s hts
      cases hbb : b with
      | nil => exact absurd hbb hne
      | cons t' s' =>
        have := hhead t' s' hbb
        rcases hc with hc | hc <;>
          (rw [hc, hbb] at hts; simp only [List.cons_append, List.cons.injEq] at hts; rw [← hts.1]; exact this)

/-! ## `parse_instructions` on `progOf` -/

/-- the top-level round trip of a token block -/
def RTtopL (ts : List Token) (d : Nat) (i' : Instruction) : Prop :=
  ∀ rest, restOk rest = true →
    parseInstructionAt (d + 1) (ts ++ .newLine :: rest) = .ok i' (.newLine :: rest) ∧
    parseInstructionAt (d + 1) (.newLine :: (ts ++ .newLine :: rest)) = .ok i' (.newLine :: rest)

theorem RTtop.toL {F : NumFmt} {d : Nat} {i i' : Instruction} (h : RTtop F d i i') : RTtopL (toks F i) d i' := h

theorem length_le_progOf (e : Instruction → List Token) (L : List Instruction) :
    L.length ≤ (progOf e L).length := by
  induction L with
  | nil => simp [progOf]
  | cons i L ih => rw [progOf_cons]; simp only [List.length_append, List.length_cons]; omega

theorem restOk_progOf (e : Instruction → List Token) (L : List Instruction)
    (hh : ∀ i ∈ L, ∃ t r, e i = t :: r ∧ startTok t = true) : restOk (progOf e L) = true := by
  cases L with
  | nil => rfl
  | cons i L =>
    obtain ⟨t, r, ht, hst⟩ := hh i (by simp)
    simp [progOf_cons, ht, restOk, hst]

theorem many0Fuel_tailL (e : Instruction → List Token) (d : Nat) (g : Instruction → Instruction)
    (L : List Instruction) (hh : ∀ i ∈ L, ∃ t r, e i = t :: r ∧ startTok t = true)
    (h : ∀ i ∈ L, RTtopL (e i) d (g i)) (k : Nat) (hk : L.length < k) :
    many0Fuel (parseInstructionAt (d + 1)) k (.newLine :: progOf e L) = .ok (L.map g) [.newLine] := by
  induction L generalizing k with
  | nil =>
    cases k with
    | zero => omega
    | succ k => simp [many0Fuel, progOf, parseInstructionAt, body_end]
  | cons i L ih =>
    cases k with
    | zero => omega
    | succ k =>
      have hh' : ∀ j ∈ L, ∃ t r, e j = t :: r ∧ startTok t = true := fun j hj => hh j (by simp [hj])
      have hi := (h i (by simp) (progOf e L) (restOk_progOf e L hh')).2
      rw [progOf_cons]
      simp only [many0Fuel, hi]
      have : ¬ ((Token.newLine :: progOf e L).length ==
          (Token.newLine :: (e i ++ Token.newLine :: progOf e L)).length) = true := by
        simp only [List.length_cons, List.length_append, beq_iff_eq]; omega
      simp only [this, if_false]
      rw [ih hh' (fun j hj => h j (by simp [hj])) k (by simp at hk; omega)]
      rfl

/-- **the program-level read-back**, generic in the per-instruction token function -/
theorem parseProgram_progOf (e : Instruction → List Token) (g : Instruction → Instruction)
    (L : List Instruction) (hh : ∀ i ∈ L, ∃ t r, e i = t :: r ∧ startTok t = true)
    (h : ∀ i ∈ L, RTtopL (e i) (progOf e L).length (g i)) :
    parseProgram (progOf e L) = .ok (L.map g) [] := by
  cases L with
  | nil =>
    have hb := body_nil (parseExpressionAt 1) (parseInstructionAt 0)
    simp [parseProgram, parseInstructions, parseInstructionsAt, budget, progOf, allConsuming, delimited,
      Parser.bind, Parser.pure, many0, many0Fuel, parseInstructionAt, disallowLeftover] at hb ⊢
    simp [hb]
  | cons i L =>
    have e0 := progOf_cons e i L
    obtain ⟨t, r, ht, hst⟩ := hh i (by simp)
    have hh' : ∀ j ∈ L, ∃ t r, e j = t :: r ∧ startTok t = true := fun j hj => hh j (by simp [hj])
    have hi := (h i (by simp) (progOf e L) (restOk_progOf e L hh')).1
    have hlen := length_le_progOf e L
    have htail := many0Fuel_tailL e (progOf e (i :: L)).length g L hh'
      (fun j hj => h j (by simp [hj])) (progOf e (i :: L)).length (by rw [e0]; simp; omega)
    simp only [parseProgram, parseInstructions, parseInstructionsAt, budget, allConsuming, delimited, bind_eq,
      Parser.bind, pure_eq, Parser.pure]
    have hskip : skipNewlinesAndComments (progOf e (i :: L)) = .ok () (progOf e (i :: L)) := by
      rw [e0, ht]; exact skip_start t _ hst
    rw [hskip]
    simp only [many0, many0Fuel]
    rw [show parseInstructionAt ((progOf e (i :: L)).length + 1) (progOf e (i :: L))
        = .ok (g i) (.newLine :: progOf e L) by rw [e0] at hi ⊢; exact hi]
    have : ¬ ((Token.newLine :: progOf e L).length == (progOf e (i :: L)).length) = true := by
      rw [e0]; simp only [List.length_cons, List.length_append, beq_iff_eq]
      have : 0 < (e i).length := by rw [ht]; simp
      omega
    have this' : ¬ ((progOf e L).length + 1 = (progOf e (i :: L)).length) := by
      simpa using this
    simp [this', htail, Outcome.map, disallowLeftover]

end QV.C02
