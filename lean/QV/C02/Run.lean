import QV.Wire
import QV.Shared.Lex
import QV.Shared.LexWire
import QV.Shared.Parse
import QV.Shared.AstWire
import QV.Shared.ParseWire
import QV.Shared.ExprPrint
import QV.Shared.Print
import QV.C02.Model
import QV.C02.Spec
/-! Driver side of the C02 correspondence check.  Input `(text STREAM "…")`; the implementation's output is
described in `harness/src/bin/c02.rs`.  Everything is recomputed from the text with the lexer, parser,
program and printer models and compared piece by piece; the Bool specification is evaluated on the
implementation's output. -/
namespace QV.C02
open QV QV.Tok QV.Ast QV.Parse QV.AstWire QV.ParseWire QV.Print QV.ExprPrint

def listingSexp (l : List Instruction) : Sexp := .list (.atom "listing" :: encodeInstructions l)

def toksSexp (ts : List Token) : Sexp := .list (.atom "ok" :: ts.map QV.LexWire.tokenSexp)

def errSexp : PrintError → Sexp
  | .unresolvedLabelPlaceholder => .list [.atom "err", .atom "label"]
  | .unresolvedQubitPlaceholder => .list [.atom "err", .atom "qubit"]

def printSexp (tag : String) : Except PrintError (List Token) → Sexp
  | .ok ts => .list [.atom tag, toksSexp ts]
  | .error e => .list [.atom tag, errSexp e]

def boolSexp (b : Bool) : Sexp := .atom (if b then "true" else "false")

/-- the model's whole pipeline on an accepted instruction list -/
structure Trip where
  listing1 : List Instruction
  print1 : Except PrintError (List Token)
  /-- `none` = the printed tokens do not parse -/
  reparsed : Option (List Instruction)
  listing2 : List Instruction
  eq : Bool
  print2 : Option (Except PrintError (List Token))
  textEq : Bool

def sameListing (a b : List Instruction) : Bool :=
  encodeInstructions (a.map canonInstr) == encodeInstructions (b.map canonInstr)

def subsetQ (a b : List Qubit) : Bool := a.all fun q => b.contains q

def trip (is : List Instruction) : Trip :=
  let l1 := (build is).listing
  let p1 := printProgramTokens stdFmt l1
  match p1 with
  | .error _ => { listing1 := l1, print1 := p1, reparsed := none, listing2 := [], eq := false, print2 := none,
                  textEq := false }
  | .ok ts =>
    match parseProgram ts with
    | .ok is2 _ =>
      let l2 := (build is2).listing
      let p2 := printProgramTokens stdFmt l2
      let u1 := usedQubits is
      let u2 := usedQubits is2
      { listing1 := l1, print1 := p1, reparsed := some is2, listing2 := l2,
        eq := sameListing l1 l2 && subsetQ u1 u2 && subsetQ u2 u1,
        print2 := some p2,
        textEq := match p2 with | .ok ts2 => ts2 == ts | .error _ => false }
    | _ => { listing1 := l1, print1 := p1, reparsed := none, listing2 := [], eq := false, print2 := none,
             textEq := false }

def tripSexp (t : Trip) : Sexp :=
  .list [.atom "ok", listingSexp t.listing1, printSexp "print" t.print1,
    (match t.reparsed with
     | some _ => .list [.atom "reparse", .list [.atom "ok", listingSexp t.listing2, boolSexp t.eq]]
     | none => .list [.atom "reparse", .list [.atom "err"]]),
    (match t.print2 with
     | some p => printSexp "print2" p
     | none => .list [.atom "print2", .list [.atom "none"]]),
    .list [.atom "texteq", boolSexp t.textEq],
    .list (.atom "debug" :: (printProgramDebugTokens stdFmt t.listing1).map QV.LexWire.tokenSexp)]

/-- the Bool specification on the implementation's output: printing succeeded, the text re-parsed to an
equal program, the second text is byte-identical -/
def siblingsOk : Sexp → Bool
  | .list (.atom "siblings" :: xs) => !xs.isEmpty && xs.all fun x =>
      match x with
      | .list [.atom _, .atom "true"] => true
      | _ => false
  | _ => false

/-- the sibling routes that disagree (for tags / detail) -/
def siblingsFailing : Sexp → List String
  | .list (.atom "siblings" :: xs) => xs.filterMap fun x =>
      match x with
      | .list [.atom n, .atom "true"] => if n == "" then some n else none
      | .list [.atom n, _] => some n
      | _ => some "?"
  | _ => ["missing"]

/-- printed, reparsed to an equal program, second text byte-identical, AND every other public print / parse /
build route agrees (`siblings` of harness/src/bin/c02.rs: per-instruction printing, debug printing, printing
twice, into_/to_instructions, from_instructions / add_instruction / add_instructions / From<Vec>, `+`,
Instruction::from_str, the third round trip) -/
def specOnOut (out : Sexp) : Bool :=
  match out with
  | .list [.atom "ok", _, .list [.atom "print", .list (.atom "ok" :: _)],
      .list [.atom "reparse", .list [.atom "ok", _, .atom "true"]],
      .list [.atom "print2", .list (.atom "ok" :: _)], .list [.atom "texteq", .atom "true"], _, sib] =>
    siblingsOk sib
  | .list [.atom "rejected"] => true
  | _ => false

def piece (out : Sexp) (k : Nat) : Sexp :=
  match out with
  | .list xs => xs.getD k (.atom "?")
  | _ => .atom "?"

mutual
def anyInstr (p : Instruction → Bool) : Instruction → Bool
  | .calibrationDefinition id body => p (.calibrationDefinition id body) || anyInstrs p body
  | .measureCalibrationDefinition id body => p (.measureCalibrationDefinition id body) || anyInstrs p body
  | .circuitDefinition n ps qs body => p (.circuitDefinition n ps qs body) || anyInstrs p body
  | i => p i
def anyInstrs (p : Instruction → Bool) : List Instruction → Bool
  | [] => false
  | i :: rest => anyInstr p i || anyInstrs p rest
end

/-- does a CALL argument list contain a real immediate (printed ending in a number token) directly followed
by an identifier or memory reference named `i`? -/
def callNumberThenI : List UnresolvedCallArgument → Bool
  | .immediate z :: b :: rest =>
    (fZero z.im && (match b with
      | .identifier s => s == "i"
      | .memoryReference r => r.name == "i"
      | _ => false)) || callNumberThenI (b :: rest)
  | _ :: rest => callNumberThenI rest
  | [] => false

/-- known finding C02/number-then-name-i: a printed number token directly followed by the name `i` — a
RAW-CAPTURE into a region named `i` whose printed duration ends with a number token, or a CALL with a real
immediate followed by an argument named `i` -/
def isRawCaptureI : Instruction → Bool
  | .rawCapture r =>
    r.memoryReference.name == "i" &&
      (match (printTop stdFmt r.duration).getLast? with
       | some (.integer _) => true
       | some (.float _) => true
       | _ => false)
  | .call c => callNumberThenI c.arguments
  | _ => false

/-- known finding C02/qubit-variable-named-like-keyword: a qubit variable (written `%NOT`) whose name is a
reserved word; printed without the `%` it lexes as that keyword -/
def qubitsOfInstr : Instruction → List Qubit
  | .circuitDefinition _ _ qvs _ => qvs.map Qubit.variable
  | .measureCalibrationDefinition id _ => [id.qubit]
  | .calibrationDefinition id _ => id.qubits
  | .frameDefinition f => f.identifier.qubits
  | .gateDefinition g => (match g.specification with
    | .sequence s => s.gates.flatMap (·.qubits)
    | _ => [])
  | i => getQubits i

def hasKeywordQubit (i : Instruction) : Bool :=
  (qubitsOfInstr i).any fun q => match q with
    | .variable s => isReservedWord s.toList
    | _ => false

def kfTags (is : List Instruction) (t : Trip) (out : Sexp) : List String :=
  if specOnOut out then []
  else
    let reparseErr := piece out 3 == .list [.atom "reparse", .list [.atom "err"]]
    (if (reparseErr || piece out 5 == .list [.atom "texteq", .atom "false"]) && anyInstrs isRawCaptureI t.listing1
      then ["kf:C02/number-then-name-i"] else []) ++
    (if anyInstrs hasKeywordQubit t.listing1 then ["kf:C02/qubit-variable-named-like-keyword"] else []) ++
    (if !reparseErr && piece out 5 == .list [.atom "texteq", .atom "true"] &&
        !(subsetQ (usedQubits is) (usedQubits t.listing1)) then
      ["kf:C02/reparsed-unequal-after-redefined-calibration"] else [])

def sizeTag (n : Nat) : String :=
  if n == 0 then "n0" else if n == 1 then "n1" else if n ≤ 3 then "n2-3" else if n ≤ 8 then "n4-8" else "n9+"

def handle (inp out : Sexp) : CaseResult :=
  match inp with
  | .list [.atom "text", .atom stream, .str text] =>
    let lexed := QV.Lex.lex text.toList
    match lexed with
    | none =>
      let mOut : Sexp := .list [.atom "rejected"]
      { agree := mOut == out, specOk := specOnOut out, nontrivial := false,
        tags := ["s-" ++ stream, "lex-rejected"], detail := s!"model={mOut} impl={out}" }
    | some ts =>
      match parseProgram ts with
      | .ok is _ =>
        let t := trip is
        let mOut := tripSexp t
        let agree := (List.range 7).all fun k => piece mOut k == piece out k
        let printed := match t.print1 with | .ok p => p | .error _ => []
        let strip (l : List Token) := l.filter fun x => x != .newLine && !(match x with | .comment _ => true | _ => false)
        let changed := strip printed != strip ts
        let tokensOk := tokensOkB ts
        let inDomain := t.listing1.all (fun i => parsedInstr i)
        let proved := t.listing1.all provedKind
        let diffs := (List.range 7).filter fun k => piece mOut k != piece out k
        { agree := agree, specOk := specOnOut out,
          nontrivial := !is.isEmpty && changed,
          tags := ["s-" ++ stream, "accepted", sizeTag is.length,
              (if changed then "text-changed" else "text-same"),
              (if tokensOk then "tokens-ok" else "TOKENS-NOT-OK"),
              (if inDomain then "parsed-pred-ok" else
                (if specOnOut out then "PARSED-PRED-FAILS-BUT-SPEC-OK" else "parsed-pred-fails-on-known-finding")),
              (if numTokInstrs stdFmt t.listing1 then "numtok-ok" else "NUMTOK-FAILS"),
              (if proved then "in-proved-subset" else "outside-proved-subset"),
              (if sameListing t.listing1 is then "listing-same-order" else "listing-reordered"),
              (if t.listing1.length < is.length then "redefinition" else "no-redefinition")] ++
            (t.listing1.map fun i => "v-" ++ i.variantName).eraseDups ++ kfTags is t out,
          detail := if agree then (if specOnOut out then "" else
              s!"text={repr text} siblings failing: {siblingsFailing (piece out 7)} impl={out}")
            else s!"text={repr text} differing pieces {diffs}: " ++
              String.intercalate " | " (diffs.map fun k => s!"[{k}] model={piece mOut k} impl={piece out k}") }
      | _ =>
        let mOut : Sexp := .list [.atom "rejected"]
        { agree := mOut == out, specOk := specOnOut out, nontrivial := false,
          tags := ["s-" ++ stream, "parse-rejected"], detail := s!"text={repr text} model={mOut} impl={out}" }
  | _ => .bad s!"undecodable input {inp}"

end QV.C02

def main : IO UInt32 := QV.runMain QV.C02.handle
