import QV.C02.LemmasKinds3
/-!
C02 lemmas, part 9 (core Lean only): DELAY.  `parse_delay` reads the qubits greedily (`many0(parse_qubit)`),
which may swallow the first token of the duration (an integer literal, a variable, `pi`, a memory region name);
it then gives qubits back one at a time until the rest parses as frame names and an expression.  The printer
parenthesises exactly the durations for which this would go wrong.  `delayShape_of` classifies what the printed
duration looks like to the qubit parser; `parseDelay_noNames` runs the back-tracking loop on the two shapes.
-/
set_option maxRecDepth 4000
namespace QV.C02
open QV QV.Tok QV.Ast QV.Parse QV.Print QV.ExprPrint QV.ExprRoundTrip

/-! ## DELAY -/

theorem many0Fuel_items_cont {α : Type} (p : Parser α) (enc : α → List Token) (xs : List α) (T : List Token)
    (hp : ∀ x ∈ xs, ∀ r, p (enc x ++ r) = .ok x r) (hne : ∀ x ∈ xs, enc x ≠ []) (k : Nat) :
    many0Fuel p (xs.length + k) (xs.flatMap enc ++ T) = (many0Fuel p k T).map (fun l => xs ++ l) := by
  induction xs with
  | nil =>
    simp only [List.length_nil, Nat.zero_add, List.flatMap_nil, List.nil_append]
    cases many0Fuel p k T <;> simp [Outcome.map]
  | cons x xs ih =>
    have hx := hp x (by simp) (xs.flatMap enc ++ T)
    have hlen : 0 < (enc x).length := List.length_pos_iff.mpr (hne x (by simp))
    have e : (x :: xs).length + k = (xs.length + k) + 1 := by simp; omega
    rw [e]
    simp only [List.flatMap_cons, List.append_assoc, many0Fuel, hx]
    have : ¬ ((xs.flatMap enc ++ T).length == (enc x ++ (xs.flatMap enc ++ T)).length) = true := by
      simp only [List.length_append, beq_iff_eq]; omega
    simp only [this, if_false]
    rw [ih (fun y hy => hp y (by simp [hy])) (fun y hy => hne y (by simp [hy]))]
    cases many0Fuel p k T <;> simp [Outcome.map]

theorem length_qubitsToks (qs : List Qubit) : (qubitsToks qs).length = qs.length := by
  induction qs with
  | nil => rfl
  | cons q qs ih =>
    have : (qubitToks q).length = 1 := by cases q <;> rfl
    simp [qubitsToks, List.flatMap_cons, this] at ih ⊢
    omega

/-- `many0 parse_qubit` on printed qubits followed by ONE more qubit-like token `t` and then something that is
not a qubit -/
theorem many0_parseQubit_extra (qs : List Qubit) (h : qs.all noPlaceholder = true) (t : Token) (q : Qubit)
    (tl : List Token) (ht : ∀ r, parseQubit (t :: r) = .ok q r) (htl : notQubit tl = true) :
    many0 parseQubit (qubitsToks qs ++ t :: tl) = .ok (qs ++ [q]) tl := by
  unfold many0
  have hl : (qubitsToks qs ++ t :: tl).length + 1 = qs.length + (tl.length + 2) := by
    simp [length_qubitsToks]; omega
  rw [hl]
  unfold qubitsToks
  rw [many0Fuel_items_cont parseQubit qubitToks qs (t :: tl)
    (fun q hq r => parseQubit_toks q (List.all_eq_true.mp h q hq) r) (fun q _ => qubitToks_ne_nil q)]
  simp only [many0Fuel, ht, parseQubit_stop tl htl]
  simp [Outcome.map]

/-- `parse_delay_frame_names_and_duration` without frame names, on something that does not begin with a string -/
def notString : List Token → Bool
  | .string _ :: _ => false
  | _ => true

theorem many0_tokString_stop (T : List Token) (h : notString T = true) : many0 tokString T = .ok [] T := by
  unfold many0
  cases T with
  | nil => simp [many0Fuel, tokString]
  | cons t r => cases t <;> simp_all [many0Fuel, tokString, notString]

theorem namesAndDuration_nil (pe : Parser PExpr) (T : List Token) (h : notString T = true) :
    parseDelayFrameNamesAndDuration pe T = (pe T).map (fun x => (([] : List String), x)) := by
  simp only [parseDelayFrameNamesAndDuration, bind_eq, Parser.bind, many0_tokString_stop T h, List.map_nil,
    pure_eq, Parser.pure]
  cases pe T <;> rfl

/-- the two shapes of a printed duration that directly follows the qubits -/
structure DelayShape (pe : Parser PExpr) (D : List Token) (e' : PExpr) (rest : List Token) : Prop where
  parses : pe (D ++ .newLine :: rest) = .ok e' (.newLine :: rest)
  notStr : notString (D ++ .newLine :: rest) = true
  shape : notQubit (D ++ .newLine :: rest) = true ∨
    ∃ t q tl, D = t :: tl ∧ (∀ r, parseQubit (t :: r) = .ok q r) ∧ notQubit (tl ++ .newLine :: rest) = true ∧
      notString (tl ++ .newLine :: rest) = true ∧ pe (tl ++ .newLine :: rest) = .err

/-- `parse_delay` without frame names, from the shape of the duration -/
theorem parseDelay_noNames (pe : Parser PExpr) (qs : List Qubit) (hq : qs.all noPlaceholder = true)
    (D : List Token) (e' : PExpr) (rest : List Token) (hs : DelayShape pe D e' rest) :
    parseDelay pe (qubitsToks qs ++ (D ++ .newLine :: rest)) = .ok (.delay ⟨e', [], qs⟩) (.newLine :: rest) := by
  have hdrop : (qubitsToks qs ++ (D ++ .newLine :: rest)).drop qs.length = D ++ .newLine :: rest := by
    rw [← length_qubitsToks qs, List.drop_left]
  have hp0 : parseDelayFrameNamesAndDuration pe (D ++ .newLine :: rest) = .ok ([], e') (.newLine :: rest) := by
    rw [namesAndDuration_nil pe _ hs.notStr, hs.parses]; rfl
  rcases hs.shape with h0 | ⟨t, q, tl, hD, ht, htl, htls, herr⟩
  · -- the duration does not look like a qubit
    have hm := many0_parseQubit qs hq (D ++ .newLine :: rest) h0
    have hle : qs.length ≤ (qubitsToks qs ++ (D ++ .newLine :: rest)).length := by
      simp [length_qubitsToks]
    simp only [parseDelay, hm, delayAttempts, sliceFrom, hle, if_true, hdrop, hp0, List.take_length]
  · -- its first token was taken for a qubit: one step of back-tracking
    subst hD
    have hm := many0_parseQubit_extra qs hq t q (tl ++ .newLine :: rest) ht htl
    have hle : qs.length + 1 ≤ (qubitsToks qs ++ (t :: tl ++ .newLine :: rest)).length := by
      simp [length_qubitsToks]
    have hle' : qs.length ≤ (qubitsToks qs ++ (t :: tl ++ .newLine :: rest)).length := by omega
    have hdrop1 : (qubitsToks qs ++ (t :: tl ++ .newLine :: rest)).drop (qs.length + 1) = tl ++ .newLine :: rest := by
      rw [← List.drop_drop, hdrop]; rfl
    have hp1 : parseDelayFrameNamesAndDuration pe (tl ++ .newLine :: rest) = .err := by
      rw [namesAndDuration_nil pe _ htls, herr]; rfl
    have hlenq : (qs ++ [q]).length = qs.length + 1 := by simp
    simp only [List.cons_append] at hle hle' hdrop1 hdrop hp0 ⊢
    simp only [parseDelay, hm, hlenq, delayAttempts, sliceFrom, hle, if_true, hdrop1, hp1, delayBacktrack,
      hle', hdrop, hp0]
    simp

/-- the `match` of `Delay::write`'s `is_ambiguous` (timing.rs:55) -/
def durAmb : PExpr → Bool
  | .call _ _ => true
  | .bin _ _ _ => true
  | .number z => isPrintedAsInfix z
  | .pre .plus _ => true
  | _ => false

theorem pe_err_newLine (d : Nat) (r : List Token) : parseExpressionAt (d + 1) (.newLine :: r) = .err := by
  simp [parseExpressionAt, parse, parseBody, opt, parsePrefix, parseImmediateValue, parseOperand]

theorem pe_err_lBracket (d : Nat) (r : List Token) : parseExpressionAt (d + 1) (.lBracket :: r) = .err := by
  simp [parseExpressionAt, parse, parseBody, opt, parsePrefix, parseImmediateValue, parseOperand]

/-- a parenthesised printed expression is read back by `parse_expression` -/
theorem parseExpr_wrapped (F : NumFmt) (e : PExpr) (hf : finiteLits e = true) (hn : numTokOk F e = true)
    (d : Nat) (rest : List Token) (hd : (printTop F e).length + 1 ≤ d) :
    parseExpressionAt (d + 1) (.lParenthesis :: (printTop F e ++ .rParenthesis :: .newLine :: rest)) =
      .ok (norm e) (.newLine :: rest) := by
  obtain ⟨d', rfl⟩ : ∃ d', d = d' + 1 := ⟨d - 1, by omega⟩
  have hin := parse_printTop F e hf hn d' (.rParenthesis :: .newLine :: rest) (by omega) rfl
  show parse (d' + 1 + 1) _ Prec.lowest = _
  rw [show parse (d' + 1 + 1) = parseBody (parse (d' + 1)) from rfl]
  rw [parseBody_eq, optPrefix_other _ _ (by simp)]
  simp only
  rw [primary_grouped (parse (d' + 1)) _ _ _ hin]
  simp only
  exact parseLoop_stop _ _ _ _ _ rfl

theorem delayShape_of (F : NumFmt) (d : Nat) (e : PExpr) (hf : finiteLits e = true) (hn : numTokOk F e = true)
    (hi : delayImagOk F e = true) (hd : (wrapIf (durAmb e) (printTop F e)).length ≤ d) (rest : List Token) :
    DelayShape (parseExpressionAt (d + 1)) (wrapIf (durAmb e) (printTop F e)) (norm e) rest := by
  have hplain : durAmb e = false →
      parseExpressionAt (d + 1) (printTop F e ++ .newLine :: rest) = .ok (norm e) (.newLine :: rest) := by
    intro ha
    rw [ha] at hd
    exact parseExpressionAt_printTop F e hf hn (d + 1) (.newLine :: rest) (by simp [wrapIf] at hd; omega) rfl
  have hwrapped : durAmb e = true → DelayShape (parseExpressionAt (d + 1)) (wrapIf (durAmb e) (printTop F e))
      (norm e) rest := by
    intro ha
    rw [ha] at hd ⊢
    simp only [wrapIf, if_true, List.length_cons, List.length_append, List.length_nil] at hd
    refine ⟨?_, rfl, Or.inl rfl⟩
    simp only [wrapIf, if_true, List.cons_append, List.append_assoc, List.singleton_append]
    exact parseExpr_wrapped F e hf hn d rest (by omega)
  cases e with
  | call f x => exact hwrapped rfl
  | bin l o r => exact hwrapped rfl
  | address r =>
    have hp := hplain rfl
    refine ⟨by simpa [wrapIf, durAmb] using hp, rfl, Or.inr ?_⟩
    refine ⟨identTok r.name, .variable r.name, [.lBracket, .integer r.index, .rBracket], by simp [wrapIf, durAmb, printTop, identTok],
      fun r' => by simp [parseQubit, identTok], rfl, rfl, pe_err_lBracket d _⟩
  | var x =>
    have hp := hplain rfl
    refine ⟨by simpa [wrapIf, durAmb] using hp, rfl, Or.inr ?_⟩
    exact ⟨.variable x.toList, .variable x, [], by simp [wrapIf, durAmb, printTop],
      fun r' => by simp [parseQubit], rfl, rfl, pe_err_newLine d _⟩
  | pi =>
    have hp := hplain rfl
    refine ⟨by simpa [wrapIf, durAmb] using hp, rfl, Or.inr ?_⟩
    exact ⟨tokPi, .variable "pi", [], by simp [wrapIf, durAmb, printTop],
      fun r' => by simp [parseQubit, tokPi, Parse.str], rfl, rfl, pe_err_newLine d _⟩
  | pre o x =>
    cases o with
    | plus => exact hwrapped rfl
    | minus =>
      have hp := hplain rfl
      refine ⟨by simpa [wrapIf, durAmb] using hp, ?_, Or.inl ?_⟩
      · simp [wrapIf, durAmb, printTop, prefixToks, notString]
      · simp [wrapIf, durAmb, printTop, prefixToks, notQubit]
  | number z =>
    by_cases ha : isPrintedAsInfix z = true
    · exact hwrapped (by simpa [durAmb] using ha)
    · have ha' : durAmb (.number z) = false := by simpa [durAmb] using ha
      have hp := hplain ha'
      simp only [numTokOk, allLits, numTokOkAt, Bool.and_eq_true, beq_iff_eq] at hn
      simp only [ha', wrapIf, Bool.false_eq_true, if_false] at hp ⊢
      simp only [printTop] at hp ⊢
      simp only [delayImagOk] at hi
      have hinf : (!fZero z.re && !fZero z.im) = false := by simpa [isPrintedAsInfix] using ha
      -- a token that denotes bits is an integer or a float
      have htok : ∀ (t : Token) (m : Nat), tokBits t = some m → (∃ n, t = .integer n) ∨ (∃ b, t = .float b) := by
        intro t m h
        cases t <;> simp_all [tokBits]
      unfold complexToks at hp ⊢
      by_cases h1 : (fZero z.re && fZero z.im) = true
      · simp only [h1, if_true] at hp ⊢
        refine ⟨hp, rfl, Or.inr ⟨.integer 0, .fixed 0, [], rfl, fun r' => by simp [parseQubit], rfl, rfl,
          pe_err_newLine d _⟩⟩
      · simp only [h1, Bool.false_eq_true, if_false] at hp ⊢
        by_cases h2 : fZero z.im = true
        · simp only [h2, if_true] at hp ⊢
          unfold signedToks at hp ⊢
          by_cases hs : fSign z.re = true
          · simp only [hs, if_true] at hp ⊢
            exact ⟨hp, rfl, Or.inl rfl⟩
          · simp only [hs, Bool.false_eq_true, if_false] at hp ⊢
            have habs : fAbs z.re = z.re := by
              unfold fAbs; simp only [fSign, decide_eq_true_eq] at hs; simp [hs]
            rw [habs] at hn
            rcases htok _ _ hn.1 with ⟨n, hn'⟩ | ⟨b, hb'⟩
            · rw [hn'] at hp ⊢
              exact ⟨hp, rfl, Or.inr ⟨.integer n, .fixed n, [], rfl, fun r' => by simp [parseQubit], rfl, rfl,
                pe_err_newLine d _⟩⟩
            · rw [hb'] at hp ⊢
              exact ⟨hp, rfl, Or.inl rfl⟩
        · simp only [h2, Bool.false_eq_true, if_false] at hp ⊢
          have h3 : fZero z.re = true := by
            cases hr : fZero z.re <;> simp_all
          simp only [h3, if_true] at hp ⊢
          unfold signedToks at hp ⊢
          by_cases hs : fSign z.im = true
          · simp only [hs, if_true] at hp ⊢
            exact ⟨hp, rfl, Or.inl rfl⟩
          · simp only [hs, Bool.false_eq_true, if_false] at hp ⊢
            have habs : fAbs z.im = z.im := by
              unfold fAbs; simp only [fSign, decide_eq_true_eq] at hs; simp [hs]
            rw [habs] at hi
            simp only [h3, h2, Bool.not_false, Bool.and_self, Bool.not_true, Bool.false_or] at hi
            cases hti : F.imag z.im with
            | float b =>
              rw [hti] at hp
              exact ⟨hp, rfl, Or.inl rfl⟩
            | _ => rw [hti] at hi; simp at hi


/-! ### with frame names -/

/-- a printed expression never begins with a string token -/
theorem printTop_notString (F : NumFmt) (e : PExpr) (hn : numTokOk F e = true) (r : List Token) :
    notString (printTop F e ++ r) = true := by
  unfold numTokOk at hn
  induction e generalizing r with
  | address m => rfl
  | call f x _ => rfl
  | bin l o x ihl _ =>
    simp only [allLits, Bool.and_eq_true] at hn
    simp only [printTop, wrapIf]
    split
    · rfl
    · simpa using ihl hn.1 _
  | number z =>
    simp only [allLits, numTokOkAt, Bool.and_eq_true, beq_iff_eq] at hn
    have htok : ∀ (t : Token) (m : Nat) (r' : List Token), tokBits t = some m → notString (t :: r') = true := by
      intro t m r' h
      cases t <;> simp_all [tokBits, notString]
    have hsigned : ∀ (f : Nat → Token) (b : Nat) (r' : List Token), tokBits (f (fAbs b)) = some (fAbs b) →
        notString (signedToks f b ++ r') = true := by
      intro f b r' h
      unfold signedToks
      by_cases hs : fSign b = true
      · simp [hs, notString]
      · have : fAbs b = b := by unfold fAbs; simp only [fSign, decide_eq_true_eq] at hs; simp [hs]
        rw [this] at h
        simpa [hs] using htok _ _ _ h
    simp only [printTop, complexToks]
    split
    · rfl
    · split
      · exact hsigned _ _ _ hn.1
      · split
        · simpa using hsigned F.imag z.im ([tokI] ++ r) hn.2
        · simpa using hsigned F.real z.re _ hn.1
  | pi => rfl
  | pre o x ih =>
    simp only [allLits] at hn
    cases o with
    | minus => rfl
    | plus =>
      have hw : wrapIf (PrefixOp.plus == PrefixOp.minus && startsWithMinus x) (wrapIf (needsParens x) (printTop F x)) =
          wrapIf (needsParens x) (printTop F x) := by
        have : (PrefixOp.plus == PrefixOp.minus) = false := by decide
        simp [this, wrapIf]
      simp only [printTop, prefixToks, List.nil_append, hw]
      unfold wrapIf
      split
      · rfl
      · exact ih hn _
  | var x => rfl

theorem map_str_toList (ns : List String) : (ns.map fun s => s.toList).map Parse.str = ns := by
  induction ns with
  | nil => rfl
  | cons n ns ih => simp [ih]

theorem many0_tokString_names (ns : List String) (T : List Token) (h : notString T = true) :
    many0 tokString (ns.map strTok ++ T) = .ok (ns.map fun s => s.toList) T := by
  have hflat : ns.map strTok = (ns.map fun s => s.toList).flatMap (fun s => [Token.string s]) := by
    induction ns with
    | nil => rfl
    | cons n ns ih => simp [strTok, List.flatMap_cons, ih]
  rw [hflat]
  apply many0_items tokString (fun s => [Token.string s])
  · intro s _ r; rfl
  · intro s _; simp
  · cases T with
    | nil => rfl
    | cons t r => cases t <;> simp_all [tokString, notString]

/-- API form: the duration is read back in normal form -/
theorem rt_delay_norm (F : NumFmt) (d : Nat) (dl : Delay) (hq : dl.qubits.all noPlaceholder = true)
    (hf : finiteLits dl.duration = true) (hn : numTokOk F dl.duration = true)
    (hi : delayImagOk F dl.duration = true) (hd : (toks F (.delay dl)).length ≤ d) :
    RT F d (.delay dl) (.delay { dl with duration := norm dl.duration }) := by
  obtain ⟨dur, names, qs⟩ := dl
  cases names with
  | nil =>
    have hamb : delayAmbiguous ⟨dur, [], qs⟩ = durAmb dur := by
      cases dur <;> simp [delayAmbiguous, durAmb]
      rename_i o _; cases o <;> simp
    apply rt_of_command F d _ _ .delay (qubitsToks qs ++ wrapIf (durAmb dur) (printTop F dur))
    · simp [toks, delayToks, hamb, cmd]
    · intro rest
      have hlen : (wrapIf (durAmb dur) (printTop F dur)).length ≤ d := by
        simp only [toks, delayToks, hamb, List.length_cons, List.length_append, List.map_nil,
          List.length_nil] at hd
        omega
      have hs := delayShape_of F d dur hf hn hi hlen rest
      have := parseDelay_noNames (parseExpressionAt (d + 1)) qs hq _ _ rest hs
      simpa [parseCommand] using this
  | cons n ns =>
    have hamb : delayAmbiguous ⟨dur, n :: ns, qs⟩ = false := by simp [delayAmbiguous]
    apply rt_of_command F d _ _ .delay (qubitsToks qs ++ (n :: ns).map strTok ++ printTop F dur)
    · simp [toks, delayToks, hamb, cmd, wrapIf]
    · intro rest
      have hlen : (printTop F dur).length < d + 1 := by
        simp only [toks, delayToks, hamb, wrapIf, List.length_cons, List.length_append, List.length_map,
          Bool.false_eq_true, if_false] at hd
        omega
      have hx := parseExpressionAt_printTop F dur hf hn (d + 1) (.newLine :: rest) hlen rfl
      have hm := many0_parseQubit qs hq ((n :: ns).map strTok ++ (printTop F dur ++ .newLine :: rest)) rfl
      have hdrop : (qubitsToks qs ++ ((n :: ns).map strTok ++ (printTop F dur ++ .newLine :: rest))).drop qs.length =
          (n :: ns).map strTok ++ (printTop F dur ++ .newLine :: rest) := by
        rw [← length_qubitsToks qs, List.drop_left]
      have hle : qs.length ≤ (qubitsToks qs ++ ((n :: ns).map strTok ++ (printTop F dur ++ .newLine :: rest))).length := by
        simp [length_qubitsToks]
      have hnames := many0_tokString_names (n :: ns) (printTop F dur ++ .newLine :: rest)
        (printTop_notString F dur hn _)
      have hp : parseDelayFrameNamesAndDuration (parseExpressionAt (d + 1))
          ((n :: ns).map strTok ++ (printTop F dur ++ .newLine :: rest)) =
            .ok (n :: ns, norm dur) (.newLine :: rest) := by
        simp only [parseDelayFrameNamesAndDuration, bind_eq, Parser.bind, hnames, hx, pure_eq, Parser.pure,
          map_str_toList]
      simp only [parseCommand, List.append_assoc]
      simp only [parseDelay, hm, delayAttempts, sliceFrom, hle, if_true, hdrop, hp, List.take_length]

theorem rt_delay (F : NumFmt) (d : Nat) (dl : Delay) (hp : parsedInstr (.delay dl) = true)
    (hn : numTokInstr F (.delay dl) = true) (hd : (toks F (.delay dl)).length ≤ d) :
    RT F d (.delay dl) (.delay dl) := by
  simp only [parsedInstr, Bool.and_eq_true] at hp
  simp only [numTokInstr, Bool.and_eq_true] at hn
  have := rt_delay_norm F d dl hp.2 (finiteLits_parsedExpr _ hp.1) hn.1 hn.2 hd
  rwa [norm_parsedExpr _ hp.1] at this

/-! ## RAW-CAPTURE -/

theorem body_nonblocking_rawCapture (pe : Parser PExpr) (pi : Parser Instruction) (r : List Token) :
    parseInstructionBody pe pi (.nonBlocking :: .command .rawCapture :: r) = parseRawCapture pe false r ∧
    parseInstructionBody pe pi (.newLine :: .nonBlocking :: .command .rawCapture :: r) =
      parseRawCapture pe false r := by
  exact ⟨by simp [parseInstructionBody, skip_start _ _ (show startTok .nonBlocking = true from rfl)],
    by simp [parseInstructionBody, skip_newLine_start _ _ (show startTok .nonBlocking = true from rfl)]⟩

theorem parseRawCapture_toks (F : NumFmt) (d : Nat) (b : Bool) (f : FrameIdentifier) (e : PExpr) (m : MemRef)
    (hf : frameOk f = true) (he : finiteLits e = true) (hn : numTokOk F e = true)
    (hm : m.name ≠ "i") (hd : (printTop F e).length < d + 1) (rest : List Token) :
    parseRawCapture (parseExpressionAt (d + 1)) b (frameToks f ++ (printTop F e ++ (memRefToks m ++ rest))) =
      .ok (.rawCapture ⟨b, f, norm e, m⟩) rest := by
  have hend : endOk (memRefToks m ++ rest) = true := by
    simp only [memRefToks, identTok, List.cons_append, endOk, bne_iff_ne, ne_eq]
    intro h
    apply hm
    have : m.name = String.ofList m.name.toList := by simp
    rw [this, h]
  have hx := parseExpressionAt_printTop F e he hn (d + 1) (memRefToks m ++ rest) hd hend
  simp only [parseRawCapture, bind_eq, Parser.bind, parseFrameIdentifier_toks f hf, hx,
    parseMemoryReference_toks, pure_eq, Parser.pure]

/-- API form -/
theorem rt_rawCapture_norm (F : NumFmt) (d : Nat) (r : RawCapture) (hf : frameOk r.frame = true)
    (he : finiteLits r.duration = true) (hn : numTokOk F r.duration = true)
    (hm : r.memoryReference.name ≠ "i") (hd : (toks F (.rawCapture r)).length ≤ d) :
    RT F d (.rawCapture r) (.rawCapture { r with duration := norm r.duration }) := by
  obtain ⟨b, f, e, m⟩ := r
  have hlen : (printTop F e).length < d + 1 := by
    simp only [toks, List.length_append] at hd; omega
  intro rest
  have hp := parseRawCapture_toks F d b f e m hf he hn hm hlen (.newLine :: rest)
  cases b with
  | true =>
    have ht : toks F (.rawCapture ⟨true, f, e, m⟩) ++ .newLine :: rest =
        .command .rawCapture :: (frameToks f ++ (printTop F e ++ (memRefToks m ++ .newLine :: rest))) := by
      simp [toks, cmd]
    rw [ht]
    simp only [parseInstructionAt]
    have hc : parseCommand (parseExpressionAt (d + 1)) (parseInstructionAt d) .rawCapture
        (frameToks f ++ (printTop F e ++ (memRefToks m ++ .newLine :: rest))) =
          .ok (.rawCapture ⟨true, f, norm e, m⟩) (.newLine :: rest) := by
      simpa [parseCommand] using hp
    exact ⟨body_command _ _ _ _ _ _ hc, body_command_nl _ _ _ _ _ _ hc⟩
  | false =>
    have ht : toks F (.rawCapture ⟨false, f, e, m⟩) ++ .newLine :: rest =
        .nonBlocking :: .command .rawCapture :: (frameToks f ++ (printTop F e ++ (memRefToks m ++ .newLine :: rest))) := by
      simp [toks, cmd]
    rw [ht]
    simp only [parseInstructionAt]
    have hb := body_nonblocking_rawCapture (parseExpressionAt (d + 1)) (parseInstructionAt d)
      (frameToks f ++ (printTop F e ++ (memRefToks m ++ .newLine :: rest)))
    exact ⟨hb.1.trans hp, hb.2.trans hp⟩

theorem rt_rawCapture (F : NumFmt) (d : Nat) (r : RawCapture) (hp : parsedInstr (.rawCapture r) = true)
    (hn : numTokInstr F (.rawCapture r) = true) (hm : r.memoryReference.name ≠ "i")
    (hd : (toks F (.rawCapture r)).length ≤ d) : RT F d (.rawCapture r) (.rawCapture r) := by
  simp only [parsedInstr, Bool.and_eq_true] at hp
  simp only [numTokInstr] at hn
  have := rt_rawCapture_norm F d r hp.1 (finiteLits_parsedExpr _ hp.2) hn hm hd
  rwa [norm_parsedExpr _ hp.2] at this

end QV.C02
