import QV.C02.LemmasKinds
import QV.C02.LemmasProg
/-!
C02 lemmas, part 5 (core Lean only): from per-instruction round trips (`RT`) to the whole program:
`collapseNL` is the identity on the raw tokens of single-line instructions, and `parse_instructions` reads the
concatenation back instruction by instruction.
-/
namespace QV.C02
open QV QV.Tok QV.Ast QV.Parse QV.Print QV.ExprPrint

/-! ## `collapseNL` -/

/-- no two adjacent `newLine` tokens -/
def noAdjNL : List Token → Bool
  | [] => true
  | [_] => true
  | t :: u :: rest => !(decide (t = .newLine) && decide (u = .newLine)) && noAdjNL (u :: rest)

theorem collapseNL_of_noAdj (ts : List Token) (h : noAdjNL ts = true) : collapseNL ts = ts := by
  induction ts with
  | nil => rfl
  | cons t rest ih =>
    cases rest with
    | nil => rfl
    | cons u rest =>
      simp only [noAdjNL, Bool.and_eq_true, Bool.not_eq_true', Bool.and_eq_false_iff, decide_eq_false_iff_not] at h
      have hnot : ¬ (t = .newLine ∧ u = .newLine) := by
        intro ⟨h1, h2⟩
        rcases h.1 with h' | h'
        · exact h' h1
        · exact h' h2
      simp only [collapseNL, hnot, if_false]
      rw [ih h.2]

/-- a block of raw tokens that can be followed by a newline and then by another such block without creating
a run of newlines: non-empty, does not begin with a newline, and `block ++ [newLine]` has no run -/
def blockOk (b : List Token) : Bool :=
  (match b with | [] => false | t :: _ => decide (t ≠ .newLine)) && noAdjNL (b ++ [.newLine])

theorem noAdjNL_cons2 (t u : Token) (rest : List Token) :
    noAdjNL (t :: u :: rest) = true ↔ ¬ (t = .newLine ∧ u = .newLine) ∧ noAdjNL (u :: rest) = true := by
  simp only [noAdjNL, Bool.and_eq_true, Bool.not_eq_true', Bool.and_eq_false_iff, decide_eq_false_iff_not]
  constructor
  · rintro ⟨h1, h2⟩
    refine ⟨fun ⟨a, b⟩ => ?_, h2⟩
    rcases h1 with h | h
    · exact h a
    · exact h b
  · rintro ⟨h1, h2⟩
    refine ⟨?_, h2⟩
    by_cases ht : t = .newLine
    · exact Or.inr (fun hu => h1 ⟨ht, hu⟩)
    · exact Or.inl ht

theorem noAdjNL_append_block (b rest : List Token) (hb : blockOk b = true)
    (hr : noAdjNL rest = true) (hh : ∀ t r, rest = t :: r → t ≠ .newLine) :
    noAdjNL (b ++ .newLine :: rest) = true := by
  have key : ∀ (x : List Token), noAdjNL (x ++ [.newLine]) = true → noAdjNL (x ++ .newLine :: rest) = true := by
    intro x
    induction x with
    | nil =>
      intro _
      cases rest with
      | nil => rfl
      | cons t r =>
        have := hh t r rfl
        simp only [List.nil_append]
        rw [noAdjNL_cons2]
        exact ⟨fun ⟨_, h⟩ => this h, hr⟩
    | cons a x ih =>
      intro hx
      cases x with
      | nil =>
        simp only [List.nil_append, List.cons_append] at hx ⊢
        rw [noAdjNL_cons2] at hx ⊢
        exact ⟨hx.1, ih (by simp [noAdjNL])⟩
      | cons a' x =>
        simp only [List.cons_append] at hx ⊢
        rw [noAdjNL_cons2] at hx ⊢
        exact ⟨hx.1, ih hx.2⟩
  simp only [blockOk, Bool.and_eq_true] at hb
  exact key b hb.2

theorem noAdjNL_programRaw (F : NumFmt) (L : List Instruction) (h : ∀ i ∈ L, blockOk (toks F i) = true) :
    noAdjNL (programRaw F L) = true ∧ ∀ t r, programRaw F L = t :: r → t ≠ .newLine := by
  induction L with
  | nil => simp [programRaw, noAdjNL]
  | cons i L ih =>
    have hi := h i (by simp)
    have ih' := ih (fun j hj => h j (by simp [hj]))
    have e : programRaw F (i :: L) = toks F i ++ .newLine :: programRaw F L := by
      simp [programRaw]
    rw [e]
    refine ⟨noAdjNL_append_block _ _ hi ih'.1 ih'.2, ?_⟩
    intro t r htr
    simp only [blockOk, Bool.and_eq_true] at hi
    cases hb : toks F i with
    | nil => simp [hb] at hi
    | cons a b =>
      rw [hb] at htr hi
      simp only [List.cons_append, List.cons.injEq] at htr
      have := hi.1
      simp only [decide_eq_true_eq] at this
      rw [← htr.1]; exact this

/-- a token list without any newline is a good block -/
theorem blockOk_of_noNL (b : List Token) (hne : b ≠ []) (h : ∀ t ∈ b, t ≠ .newLine) : blockOk b = true := by
  have key : ∀ (x : List Token), (∀ t ∈ x, t ≠ .newLine) → noAdjNL (x ++ [.newLine]) = true := by
    intro x
    induction x with
    | nil => intro _; rfl
    | cons a x ih =>
      intro hx
      have ha : a ≠ .newLine := hx a (by simp)
      cases x with
      | nil =>
        simp only [List.cons_append, List.nil_append]
        rw [noAdjNL_cons2]
        exact ⟨fun ⟨h1, _⟩ => ha h1, rfl⟩
      | cons a' x =>
        simp only [List.cons_append]
        rw [noAdjNL_cons2]
        exact ⟨fun ⟨h1, _⟩ => ha h1, ih (fun t ht => hx t (by simp [ht]))⟩
  cases b with
  | nil => exact absurd rfl hne
  | cons a b =>
    simp only [blockOk, Bool.and_eq_true, decide_eq_true_eq]
    exact ⟨h a (by simp), key _ h⟩

/-! ## `parse_instructions` on the raw tokens of a program -/

theorem length_le_programRaw (F : NumFmt) (L : List Instruction) : L.length ≤ (programRaw F L).length := by
  induction L with
  | nil => simp [programRaw]
  | cons i L ih =>
    have e : programRaw F (i :: L) = toks F i ++ .newLine :: programRaw F L := by simp [programRaw]
    rw [e]; simp only [List.length_append, List.length_cons]; omega

/-- every instruction's raw tokens begin with a token at which `skip_newlines_and_comments` stops -/
theorem toks_head' (F : NumFmt) (i : Instruction) :
    (match toks F i with | [] => False | t :: _ => startTok t = true) := by
  cases i with
  | gate g =>
    obtain ⟨n, ps, qs, ms⟩ := g
    cases ms with
    | nil => simp [toks, gateToks, identTok, startTok]
    | cons m ms => cases m <;> simp [toks, gateToks, modifierTok, startTok]
  | capture c => by_cases hb : c.blocking = true <;> simp [toks, hb, startTok, cmd]
  | pulse c => by_cases hb : c.blocking = true <;> simp [toks, hb, startTok, cmd]
  | rawCapture c => by_cases hb : c.blocking = true <;> simp [toks, hb, startTok, cmd]
  | delay d => simp [toks, delayToks, startTok, cmd]
  | gateDefinition g => simp [toks, gateDefToks, startTok, cmd]
  | _ => simp [toks, startTok, cmd]

theorem toks_head (F : NumFmt) (i : Instruction) : ∃ t r, toks F i = t :: r ∧ startTok t = true := by
  have := toks_head' F i
  cases h : toks F i with
  | nil => simp [h] at this
  | cons t r => rw [h] at this; exact ⟨t, r, rfl, this⟩

theorem restOk_programRaw (F : NumFmt) (L : List Instruction) : restOk (programRaw F L) = true := by
  cases L with
  | nil => rfl
  | cons i L =>
    obtain ⟨t, r, ht, hst⟩ := toks_head F i
    simp [programRaw, ht, restOk, hst]

theorem many0Fuel_tail (F : NumFmt) (d : Nat) (g : Instruction → Instruction) (L : List Instruction)
    (h : ∀ i ∈ L, RTtop F d i (g i)) (k : Nat) (hk : L.length < k) :
    many0Fuel (parseInstructionAt (d + 1)) k (.newLine :: programRaw F L) = .ok (L.map g) [.newLine] := by
  induction L generalizing k with
  | nil =>
    cases k with
    | zero => omega
    | succ k => simp [many0Fuel, programRaw, parseInstructionAt, body_end]
  | cons i L ih =>
    cases k with
    | zero => omega
    | succ k =>
      have e : programRaw F (i :: L) = toks F i ++ .newLine :: programRaw F L := by simp [programRaw]
      have hi := (h i (by simp) (programRaw F L) (restOk_programRaw F L)).2
      rw [e]
      simp only [many0Fuel, hi]
      have : ¬ ((Token.newLine :: programRaw F L).length ==
          (Token.newLine :: (toks F i ++ Token.newLine :: programRaw F L)).length) = true := by
        simp only [List.length_cons, List.length_append, beq_iff_eq]; omega
      simp only [this, if_false]
      rw [ih (fun j hj => h j (by simp [hj])) k (by simp at hk; omega)]
      rfl

/-- **the program-level read-back**: if every instruction of `L` round-trips (to `g i`), the raw tokens of
the program parse back to `L.map g` -/
theorem parseProgram_programRaw (F : NumFmt) (g : Instruction → Instruction) (L : List Instruction)
    (h : ∀ i ∈ L, RTtop F (programRaw F L).length i (g i)) :
    parseProgram (programRaw F L) = .ok (L.map g) [] := by
  cases L with
  | nil =>
    have hb := body_nil (parseExpressionAt 1) (parseInstructionAt 0)
    simp [parseProgram, parseInstructions, parseInstructionsAt, budget, programRaw, allConsuming, delimited,
      Parser.bind, Parser.pure, many0, many0Fuel, parseInstructionAt, disallowLeftover] at hb ⊢
    simp [hb]
  | cons i L =>
    have e : programRaw F (i :: L) = toks F i ++ .newLine :: programRaw F L := by simp [programRaw]
    obtain ⟨t, r, ht, hst⟩ := toks_head F i
    have hi := (h i (by simp) (programRaw F L) (restOk_programRaw F L)).1
    have hlen := length_le_programRaw F L
    have htail := many0Fuel_tail F (programRaw F (i :: L)).length g L
      (fun j hj => h j (by simp [hj])) (programRaw F (i :: L)).length (by rw [e]; simp; omega)
    simp only [parseProgram, parseInstructions, parseInstructionsAt, budget, allConsuming, delimited, bind_eq,
      Parser.bind, pure_eq, Parser.pure]
    have hskip : skipNewlinesAndComments (programRaw F (i :: L)) = .ok () (programRaw F (i :: L)) := by
      rw [e, ht]; exact skip_start t _ hst
    rw [hskip]
    simp only [many0, many0Fuel]
    rw [show parseInstructionAt ((programRaw F (i :: L)).length + 1) (programRaw F (i :: L))
        = .ok (g i) (.newLine :: programRaw F L) by rw [e] at hi ⊢; exact hi]
    have : ¬ ((Token.newLine :: programRaw F L).length == (programRaw F (i :: L)).length) = true := by
      rw [e]; simp only [List.length_cons, List.length_append, beq_iff_eq]
      have : 0 < (toks F i).length := by rw [ht]; simp
      omega
    have this' : ¬ ((programRaw F L).length + 1 = (programRaw F (i :: L)).length) := by
      simpa using this
    simp [this', htail, Outcome.map, disallowLeftover]

end QV.C02
