import QV.C02.LemmasKinds3
/-!
C02 lemmas, part 10 (core Lean only): waveform invocations.  The printer writes the parameters SORTED by key
(`sortKV`), the parser collects them into an `IndexMap` in textual order (`indexMapCollect`): the reparsed
invocation is the canonical form of the original one.
-/
set_option maxRecDepth 4000
namespace QV.C02
open QV QV.Tok QV.Ast QV.Parse QV.Print QV.ExprPrint QV.ExprRoundTrip


/-! ## `sortKV` (the printer's `sort_by_key`) and `indexMapCollect` (the parser's `collect`) -/

abbrev KV := String × PExpr

def SortedKV (l : List KV) : Prop := l.Pairwise (fun a b => a.1 < b.1)

theorem mem_insertKV {x a : KV} {l : List KV} : a ∈ insertKV x l ↔ a = x ∨ a ∈ l := by
  induction l with
  | nil => simp [insertKV]
  | cons y ys ih =>
    simp only [insertKV]
    split
    · simp
    · simp only [List.mem_cons, ih]
      constructor
      · rintro (h | h | h)
        · exact Or.inr (Or.inl h)
        · exact Or.inl h
        · exact Or.inr (Or.inr h)
      · rintro (h | h | h)
        · exact Or.inr (Or.inl h)
        · exact Or.inl h
        · exact Or.inr (Or.inr h)

theorem mem_sortKV {a : KV} {l : List KV} : a ∈ sortKV l ↔ a ∈ l := by
  induction l with
  | nil => simp [sortKV]
  | cons x xs ih => simp [sortKV, mem_insertKV, ih]

theorem insertKV_sorted {x : KV} {l : List KV} (hs : SortedKV l) (hx : ∀ a ∈ l, a.1 ≠ x.1) :
    SortedKV (insertKV x l) := by
  induction l with
  | nil => simp [insertKV, SortedKV]
  | cons y ys ih =>
    have hs' := List.pairwise_cons.mp hs
    simp only [insertKV]
    split
    · rename_i hlt
      refine List.pairwise_cons.mpr ⟨?_, hs⟩
      intro a ha
      simp only [List.mem_cons] at ha
      rcases ha with rfl | ha
      · exact hlt
      · exact String.lt_trans hlt (hs'.1 a ha)
    · rename_i hnlt
      have hyx : y.1 < x.1 := by
        by_cases h : y.1 < x.1
        · exact h
        · exact absurd (String.le_antisymm hnlt h) (hx y (by simp))
      refine List.pairwise_cons.mpr ⟨?_, ih hs'.2 (fun a ha => hx a (by simp [ha]))⟩
      intro a ha
      rcases mem_insertKV.mp ha with rfl | ha
      · exact hyx
      · exact hs'.1 a ha

theorem sortKV_sorted (l : List KV) (hd : (l.map (·.1)).Nodup) : SortedKV (sortKV l) := by
  induction l with
  | nil => simp [sortKV, SortedKV]
  | cons x xs ih =>
    simp only [List.map_cons, List.nodup_cons] at hd
    simp only [sortKV]
    apply insertKV_sorted (ih hd.2)
    intro a ha hax
    exact hd.1 (by rw [← hax]; exact List.mem_map_of_mem (mem_sortKV.mp ha))

theorem sortKV_of_sorted (l : List KV) (hs : SortedKV l) : sortKV l = l := by
  induction l with
  | nil => rfl
  | cons x xs ih =>
    have hs' := List.pairwise_cons.mp hs
    simp only [sortKV, ih hs'.2]
    cases xs with
    | nil => rfl
    | cons y ys => simp [insertKV, hs'.1 y (by simp)]

theorem sortKV_idem (l : List KV) (hd : (l.map (·.1)).Nodup) : sortKV (sortKV l) = sortKV l :=
  sortKV_of_sorted _ (sortKV_sorted l hd)

theorem sorted_nodup (l : List KV) (hs : SortedKV l) : (l.map (·.1)).Nodup := by
  induction l with
  | nil => simp
  | cons x xs ih =>
    have hs' := List.pairwise_cons.mp hs
    simp only [List.map_cons, List.nodup_cons]
    refine ⟨?_, ih hs'.2⟩
    intro hm
    obtain ⟨a, ha, hax⟩ := List.mem_map.mp hm
    have := hs'.1 a ha
    rw [hax] at this
    exact String.lt_irrefl _ this

theorem insertKV_map (f : PExpr → PExpr) (x : KV) (l : List KV) :
    insertKV (x.1, f x.2) (l.map fun kv => (kv.1, f kv.2)) = (insertKV x l).map fun kv => (kv.1, f kv.2) := by
  induction l with
  | nil => rfl
  | cons y ys ih =>
    simp only [List.map_cons, insertKV]
    split <;> simp [ih]

theorem sortKV_map (f : PExpr → PExpr) (l : List KV) :
    sortKV (l.map fun kv => (kv.1, f kv.2)) = (sortKV l).map fun kv => (kv.1, f kv.2) := by
  induction l with
  | nil => rfl
  | cons x xs ih => simp only [List.map_cons, sortKV, ih, insertKV_map]

theorem indexMapInsert_new {V : Type} (m : List (String × V)) (k : String) (v : V)
    (h : ∀ a ∈ m, a.1 ≠ k) : indexMapInsert m k v = m ++ [(k, v)] := by
  induction m with
  | nil => rfl
  | cons a as ih =>
    have ha : a.1 ≠ k := h a (by simp)
    obtain ⟨k', v'⟩ := a
    simp only [indexMapInsert]
    simp only [ne_eq] at ha
    simp [ha, ih (fun b hb => h b (by simp [hb]))]

theorem indexMapCollect_nodup {V : Type} (l : List (String × V)) (hd : (l.map (·.1)).Nodup) :
    indexMapCollect l = l := by
  unfold indexMapCollect
  have key : ∀ (acc l : List (String × V)), ((acc ++ l).map (·.1)).Nodup →
      l.foldl (fun m kv => indexMapInsert m kv.1 kv.2) acc = acc ++ l := by
    intro acc l
    induction l generalizing acc with
    | nil => intro _; simp
    | cons x xs ih =>
      intro hn
      have hx : ∀ a ∈ acc, a.1 ≠ x.1 := by
        intro a ha hax
        simp only [List.map_append, List.map_cons] at hn
        have := (List.nodup_append.mp hn).2.2 a.1 (List.mem_map_of_mem ha) x.1 (by simp)
        exact this hax
      rw [List.foldl_cons, indexMapInsert_new acc x.1 x.2 hx]
      have := ih (acc ++ [(x.1, x.2)]) (by simpa using hn)
      simpa using this
  simpa using key [] l (by simpa using hd)


theorem splitAtSlash_none (cs : List Char) (h : (splitAtSlash cs).2 = none) :
    (splitAtSlash cs).1 = cs ∧ ∀ c ∈ cs, c ≠ '/' := by
  induction cs with
  | nil => simp [splitAtSlash]
  | cons c cs ih =>
    by_cases hc : c = '/'
    · simp [splitAtSlash, hc] at h
    · simp only [splitAtSlash, hc, if_false] at h ⊢
      have := ih h
      exact ⟨by simp [this.1], by intro x hx; simp at hx; rcases hx with rfl | hx; exact hc; exact this.2 x hx⟩

theorem splitAtSlash_some (cs b : List Char) (h : (splitAtSlash cs).2 = some b) :
    cs = (splitAtSlash cs).1 ++ '/' :: b ∧ ∀ c ∈ (splitAtSlash cs).1, c ≠ '/' := by
  induction cs with
  | nil => simp [splitAtSlash] at h
  | cons c cs ih =>
    by_cases hc : c = '/'
    · simp only [splitAtSlash, hc, if_true, Option.some.injEq] at h ⊢
      subst h; simp
    · simp only [splitAtSlash, hc, if_false] at h ⊢
      have := ih h
      refine ⟨by simp; exact this.1, ?_⟩
      intro x hx; simp at hx; rcases hx with rfl | hx; exact hc; exact this.2 x hx

theorem slashNameAux_noSlash (acc cs : List Char) (h : ∀ c ∈ cs, c ≠ '/') :
    slashNameAux acc cs = [.identifier (acc.reverse ++ cs)] := by
  induction cs generalizing acc with
  | nil => simp [slashNameAux]
  | cons c cs ih =>
    have hc : c ≠ '/' := h c (by simp)
    simp only [slashNameAux, hc, if_false]
    rw [ih (c :: acc) (fun x hx => h x (by simp [hx]))]
    simp

theorem slashNameAux_slash (acc a b : List Char) (h : ∀ c ∈ a, c ≠ '/') :
    slashNameAux acc (a ++ '/' :: b) = .identifier (acc.reverse ++ a) :: .operator .slash :: slashNameAux [] b := by
  induction a generalizing acc with
  | nil => simp [slashNameAux]
  | cons c cs ih =>
    have hc : c ≠ '/' := h c (by simp)
    simp only [List.cons_append, slashNameAux, hc, if_false]
    rw [ih (c :: acc) (fun x hx => h x (by simp [hx]))]
    simp

/-- what may follow a waveform name: not a `/` -/
def notSlash : List Token → Bool
  | .operator .slash :: _ => false
  | _ => true

theorem parseWaveformName_toks (s : String) (h : wfNameOk s = true) (rest : List Token)
    (hr : notSlash rest = true) : parseWaveformName (slashNameToks s ++ rest) = .ok s rest := by
  have hrest : opt (pair (tok (.operator .slash)) tokIdentifier) rest = .ok none rest := by
    cases rest with
    | nil => simp [opt, pair, tok, Parser.bind]
    | cons t r =>
      have : t ≠ .operator .slash := by intro ht; subst ht; simp [notSlash] at hr
      simp [opt, pair, tok, Parser.bind, this]
  unfold wfNameOk at h
  unfold slashNameToks
  cases hs : (splitAtSlash s.toList).2 with
  | none =>
    have hsp := splitAtSlash_none _ hs
    rw [slashNameAux_noSlash [] _ hsp.2]
    simp only [List.reverse_nil, List.nil_append, List.singleton_append, parseWaveformName, bind_eq, Parser.bind,
      tokIdentifier, hrest, pure_eq, Parser.pure, str_toList]
  | some b =>
    have hsp := splitAtSlash_some _ b hs
    have hb : ∀ c ∈ b, c ≠ '/' := by
      have : (splitAtSlash s.toList) = ((splitAtSlash s.toList).1, some b) := by rw [← hs]
      rw [this] at h
      simp only [Bool.and_eq_true, Bool.not_eq_true', List.contains_eq_mem, decide_eq_false_iff_not] at h
      intro c hc hcs
      exact h.2 (hcs ▸ hc)
    rw [hsp.1, slashNameAux_slash [] _ b hsp.2, slashNameAux_noSlash [] b hb]
    simp only [List.reverse_nil, List.nil_append, List.cons_append, parseWaveformName, bind_eq, Parser.bind,
      tokIdentifier, opt, pair, tok, if_true, pure_eq, Parser.pure]
    simp only [Parse.str]
    congr 1
    rw [← hsp.1]; simp


/-! ## comma-separated items, generically -/

theorem sepLoop_items {α β : Type} (p : Parser β) (enc : α → List Token) (g : α → β) (okTail : List Token → Bool)
    (xs : List α) (rest : List Token)
    (hp : ∀ x ∈ xs, ∀ r, okTail r = true → p (enc x ++ r) = .ok (g x) r)
    (hcomma : ∀ r, okTail (.comma :: r) = true)
    (hc : notComma rest = true) (he : okTail rest = true) (k : Nat) (hk : xs.length < k) :
    sepLoopFuel (tok .comma) p k (xs.flatMap (fun x => [Token.comma] ++ enc x) ++ rest) = .ok (xs.map g) rest := by
  induction xs generalizing k with
  | nil =>
    cases k with
    | zero => omega
    | succ k =>
      cases rest with
      | nil => simp [sepLoopFuel, tok]
      | cons t r =>
        have : t ≠ .comma := by intro h; subst h; simp [notComma] at hc
        simp [sepLoopFuel, tok, this]
  | cons x xs ih =>
    cases k with
    | zero => omega
    | succ k =>
      have hnext : okTail (xs.flatMap (fun x => [Token.comma] ++ enc x) ++ rest) = true := by
        cases xs with
        | nil => simpa using he
        | cons x' xs' => simpa using hcomma _
      have h1 := hp x (by simp) _ hnext
      have ih' := ih (fun y hy => hp y (by simp [hy])) k (by simp at hk; omega)
      simp only [List.flatMap_cons, List.append_assoc, List.singleton_append, List.cons_append, List.nil_append]
        at h1 ih' ⊢
      simp only [sepLoopFuel, tok, if_true]
      simp only [List.length_cons, Nat.add_right_cancel_iff, beq_iff_eq]
      have hl : ¬ (enc x ++ (List.flatMap (fun x => Token.comma :: enc x) xs ++ rest)).length =
          (enc x ++ (List.flatMap (fun x => Token.comma :: enc x) xs ++ rest)).length + 1 := by omega
      simp only [hl, if_false, h1, ih', Outcome.map, List.map_cons]

theorem separatedList0_items {α β : Type} (p : Parser β) (enc : α → List Token) (g : α → β)
    (okTail : List Token → Bool) (x : α) (xs : List α) (rest : List Token)
    (hp : ∀ y ∈ x :: xs, ∀ r, okTail r = true → p (enc y ++ r) = .ok (g y) r)
    (hcomma : ∀ r, okTail (.comma :: r) = true)
    (hc : notComma rest = true) (he : okTail rest = true) :
    separatedList0 (tok .comma) p (sepBy [.comma] ((x :: xs).map enc) ++ rest) = .ok ((x :: xs).map g) rest := by
  have hnext : okTail (xs.flatMap (fun x => [Token.comma] ++ enc x) ++ rest) = true := by
    cases xs with
    | nil => simpa using he
    | cons x' xs' => simpa using hcomma _
  have h1 := hp x (by simp) _ hnext
  have hflat : (xs.map enc).flatMap (fun y => [Token.comma] ++ y) =
      xs.flatMap (fun x => [Token.comma] ++ enc x) := by
    simp [List.flatMap_map]
  simp only [List.map_cons, sepBy_cons, hflat, List.append_assoc, separatedList0, h1]
  rw [sepLoop_items p enc g okTail xs rest (fun y hy => hp y (by simp [hy])) hcomma hc he]
  · rfl
  · have : xs.length ≤ (xs.flatMap (fun x => [Token.comma] ++ enc x)).length :=
      length_flatMap_ge _ xs (fun _ _ => by simp)
    simp only [List.length_append]; omega

/-! ## waveform invocations -/

def namedArgToks (F : NumFmt) (kv : KV) : List Token := identTok kv.1 :: .colon :: printTop F kv.2

def normKV (kv : KV) : KV := (kv.1, norm kv.2)

theorem parseNamedArgument_toks (F : NumFmt) (d : Nat) (kv : KV) (hf : finiteLits kv.2 = true)
    (hn : numTokOk F kv.2 = true) (hd : (printTop F kv.2).length < d + 1) (r : List Token) (hr : endOk r = true) :
    parseNamedArgument (parseExpressionAt (d + 1)) (namedArgToks F kv ++ r) = .ok (normKV kv) r := by
  have hx := parseExpressionAt_printTop F kv.2 hf hn (d + 1) r hd hr
  simp only [namedArgToks, List.cons_append, parseNamedArgument, bind_eq, Parser.bind, identTok, tokIdentifier, tok,
    if_true, hx, pure_eq, Parser.pure, str_toList, normKV]

/-- what follows a waveform invocation: a memory reference (CAPTURE) or the end of the line (PULSE) -/
def afterInvocation : List Token → Bool
  | .identifier _ :: _ => true
  | .newLine :: _ => true
  | _ => false

theorem length_le_sepBy (sep : List Token) (x : List Token) (xs : List (List Token)) (hx : x ∈ xs) :
    x.length ≤ (sepBy sep xs).length := length_sepBy_ge sep x xs hx

/-- `parse_waveform_invocation` on a printed invocation: the name, and the parameters in the SORTED order the
printer writes them, each value in normal form -/
theorem parseWaveformInvocation_toks (F : NumFmt) (d : Nat) (w : WaveformInvocation)
    (hname : wfNameOk w.name = true) (hkeys : (w.parameters.map (·.1)).Nodup)
    (hf : ∀ kv ∈ w.parameters, finiteLits kv.2 = true) (hn : ∀ kv ∈ w.parameters, numTokOk F kv.2 = true)
    (hd : (invocationToks F w).length ≤ d) (rest : List Token) (hr : afterInvocation rest = true) :
    parseWaveformInvocation (parseExpressionAt (d + 1)) (invocationToks F w ++ rest) =
      .ok ⟨w.name, (sortKV w.parameters).map normKV⟩ rest := by
  obtain ⟨name, params⟩ := w
  have hrs : notSlash rest = true := by cases rest with
    | nil => rfl
    | cons t r => cases t <;> simp_all [afterInvocation, notSlash]
  have hrl : tok .lParenthesis rest = .err := by cases rest with
    | nil => rfl
    | cons t r => cases t <;> simp_all [afterInvocation, tok]
  cases hp : params with
  | nil =>
    simp only [invocationToks, List.isEmpty_nil, if_true, List.append_nil, parseWaveformInvocation, bind_eq,
      Parser.bind, parseWaveformName_toks name hname rest hrs, opt, delimited, hrl, pure_eq, Parser.pure,
      Option.getD_none, sortKV, List.map_nil, indexMapCollect, List.foldl_nil]
  | cons kv kvs =>
    subst hp
    have hne : (sortKV (kv :: kvs)) ≠ [] := by
      intro h
      have : kv ∈ sortKV (kv :: kvs) := mem_sortKV.mpr (by simp)
      rw [h] at this; simp at this
    obtain ⟨s0, ss, hs⟩ : ∃ s0 ss, sortKV (kv :: kvs) = s0 :: ss := by
      cases h : sortKV (kv :: kvs) with
      | nil => exact absurd h hne
      | cons a b => exact ⟨a, b, rfl⟩
    have henc : (fun kv : KV => identTok kv.1 :: .colon :: printTop F kv.2) = namedArgToks F := rfl
    have htoks : invocationToks F ⟨name, kv :: kvs⟩ ++ rest = slashNameToks name ++
        (.lParenthesis :: (sepBy [.comma] ((s0 :: ss).map (namedArgToks F)) ++ .rParenthesis :: rest)) := by
      simp [invocationToks, hs, henc]
    have hmem : ∀ y ∈ s0 :: ss, y ∈ kv :: kvs := fun y hy => mem_sortKV.mp (hs ▸ hy)
    have hlen : ∀ y ∈ s0 :: ss, (printTop F y.2).length < d + 1 := by
      intro y hy
      have h1 : (namedArgToks F y).length ≤ (sepBy [.comma] ((s0 :: ss).map (namedArgToks F))).length :=
        length_sepBy_ge _ _ _ (List.mem_map_of_mem hy)
      have h2 : (sepBy [.comma] ((s0 :: ss).map (namedArgToks F))).length < (invocationToks F ⟨name, kv :: kvs⟩).length := by
        simp [invocationToks, hs, henc]; omega
      simp only [namedArgToks, List.length_cons] at h1
      omega
    have hlist := separatedList0_items (parseNamedArgument (parseExpressionAt (d + 1))) (namedArgToks F) normKV endOk
      s0 ss (.rParenthesis :: rest)
      (fun y hy r hr' => parseNamedArgument_toks F d y (hf y (hmem y hy)) (hn y (hmem y hy)) (hlen y hy) r hr')
      (fun _ => rfl) rfl rfl
    have hsorted : SortedKV (s0 :: ss) := hs ▸ sortKV_sorted _ hkeys
    have hnodup : (((s0 :: ss).map normKV).map (·.1)).Nodup := by
      have := sorted_nodup _ hsorted
      simpa [normKV, List.map_map, Function.comp_def] using this
    rw [htoks]
    simp only [parseWaveformInvocation, bind_eq, Parser.bind,
      parseWaveformName_toks name hname _ (show notSlash (.lParenthesis :: _) = true from rfl), opt, delimited, tok,
      if_true, cut]
    erw [hlist]
    simp only [if_true, pure_eq, Parser.pure, Option.getD_some, indexMapCollect_nodup _ hnodup, hs]

/-- the invocation the parser returns for a printed one: parameters sorted by key, values in normal form -/
def normInvocation (w : WaveformInvocation) : WaveformInvocation := ⟨w.name, (sortKV w.parameters).map normKV⟩

/-- the hypotheses on an invocation, bundled -/
structure InvOk (F : NumFmt) (w : WaveformInvocation) : Prop where
  name : wfNameOk w.name = true
  keys : (w.parameters.map (·.1)).Nodup
  finite : ∀ kv ∈ w.parameters, finiteLits kv.2 = true
  numTok : ∀ kv ∈ w.parameters, numTokOk F kv.2 = true

/-! ## PULSE, CAPTURE -/

theorem body_nonblocking (pe : Parser PExpr) (pi : Parser Instruction) (r : List Token) :
    (parseInstructionBody pe pi (.nonBlocking :: .command .pulse :: r) = parsePulse pe false r ∧
      parseInstructionBody pe pi (.newLine :: .nonBlocking :: .command .pulse :: r) = parsePulse pe false r) ∧
    (parseInstructionBody pe pi (.nonBlocking :: .command .capture :: r) = parseCapture pe false r ∧
      parseInstructionBody pe pi (.newLine :: .nonBlocking :: .command .capture :: r) = parseCapture pe false r) := by
  refine ⟨⟨?_, ?_⟩, ⟨?_, ?_⟩⟩
  · simp [parseInstructionBody, skip_start _ _ (show startTok .nonBlocking = true from rfl)]
  · simp [parseInstructionBody, skip_newLine_start _ _ (show startTok .nonBlocking = true from rfl)]
  · simp [parseInstructionBody, skip_start _ _ (show startTok .nonBlocking = true from rfl)]
  · simp [parseInstructionBody, skip_newLine_start _ _ (show startTok .nonBlocking = true from rfl)]

theorem rt_pulse_norm (F : NumFmt) (d : Nat) (p : Pulse) (hf : frameOk p.frame = true) (hw : InvOk F p.waveform)
    (hd : (toks F (.pulse p)).length ≤ d) :
    RT F d (.pulse p) (.pulse { p with waveform := normInvocation p.waveform }) := by
  obtain ⟨b, f, w⟩ := p
  have hlen : (invocationToks F w).length ≤ d := by
    simp only [toks, List.length_append] at hd; omega
  intro rest
  have hp : parsePulse (parseExpressionAt (d + 1)) b (frameToks f ++ (invocationToks F w ++ .newLine :: rest)) =
      .ok (.pulse ⟨b, f, normInvocation w⟩) (.newLine :: rest) := by
    simp only [parsePulse, bind_eq, Parser.bind, parseFrameIdentifier_toks f hf,
      parseWaveformInvocation_toks F d w hw.name hw.keys hw.finite hw.numTok hlen (.newLine :: rest) rfl,
      pure_eq, Parser.pure, normInvocation]
  cases b with
  | true =>
    have ht : toks F (.pulse ⟨true, f, w⟩) ++ .newLine :: rest =
        .command .pulse :: (frameToks f ++ (invocationToks F w ++ .newLine :: rest)) := by simp [toks, cmd]
    rw [ht]
    simp only [parseInstructionAt]
    have hc : parseCommand (parseExpressionAt (d + 1)) (parseInstructionAt d) .pulse
        (frameToks f ++ (invocationToks F w ++ .newLine :: rest)) =
          .ok (.pulse ⟨true, f, normInvocation w⟩) (.newLine :: rest) := by simpa [parseCommand] using hp
    exact ⟨body_command _ _ _ _ _ _ hc, body_command_nl _ _ _ _ _ _ hc⟩
  | false =>
    have ht : toks F (.pulse ⟨false, f, w⟩) ++ .newLine :: rest =
        .nonBlocking :: .command .pulse :: (frameToks f ++ (invocationToks F w ++ .newLine :: rest)) := by
      simp [toks, cmd]
    rw [ht]
    simp only [parseInstructionAt]
    have hb := (body_nonblocking (parseExpressionAt (d + 1)) (parseInstructionAt d)
      (frameToks f ++ (invocationToks F w ++ .newLine :: rest))).1
    exact ⟨hb.1.trans hp, hb.2.trans hp⟩

theorem rt_capture_norm (F : NumFmt) (d : Nat) (c : Capture) (hf : frameOk c.frame = true) (hw : InvOk F c.waveform)
    (hd : (toks F (.capture c)).length ≤ d) :
    RT F d (.capture c) (.capture { c with waveform := normInvocation c.waveform }) := by
  obtain ⟨b, f, m, w⟩ := c
  have hlen : (invocationToks F w).length ≤ d := by
    simp only [toks, List.length_append] at hd; omega
  intro rest
  have hp : parseCapture (parseExpressionAt (d + 1)) b
      (frameToks f ++ (invocationToks F w ++ (memRefToks m ++ .newLine :: rest))) =
      .ok (.capture ⟨b, f, m, normInvocation w⟩) (.newLine :: rest) := by
    simp only [parseCapture, bind_eq, Parser.bind, parseFrameIdentifier_toks f hf,
      parseWaveformInvocation_toks F d w hw.name hw.keys hw.finite hw.numTok hlen
        (memRefToks m ++ .newLine :: rest) (by simp [memRefToks, identTok, afterInvocation]),
      parseMemoryReference_toks, pure_eq, Parser.pure, normInvocation]
  cases b with
  | true =>
    have ht : toks F (.capture ⟨true, f, m, w⟩) ++ .newLine :: rest =
        .command .capture :: (frameToks f ++ (invocationToks F w ++ (memRefToks m ++ .newLine :: rest))) := by
      simp [toks, cmd]
    rw [ht]
    simp only [parseInstructionAt]
    have hc : parseCommand (parseExpressionAt (d + 1)) (parseInstructionAt d) .capture
        (frameToks f ++ (invocationToks F w ++ (memRefToks m ++ .newLine :: rest))) =
          .ok (.capture ⟨true, f, m, normInvocation w⟩) (.newLine :: rest) := by simpa [parseCommand] using hp
    exact ⟨body_command _ _ _ _ _ _ hc, body_command_nl _ _ _ _ _ _ hc⟩
  | false =>
    have ht : toks F (.capture ⟨false, f, m, w⟩) ++ .newLine :: rest =
        .nonBlocking :: .command .capture ::
          (frameToks f ++ (invocationToks F w ++ (memRefToks m ++ .newLine :: rest))) := by
      simp [toks, cmd]
    rw [ht]
    simp only [parseInstructionAt]
    have hb := (body_nonblocking (parseExpressionAt (d + 1)) (parseInstructionAt d)
      (frameToks f ++ (invocationToks F w ++ (memRefToks m ++ .newLine :: rest)))).2
    exact ⟨hb.1.trans hp, hb.2.trans hp⟩

/-- for a parser-produced invocation the normal form is the canonical form: parameters sorted, values kept -/
theorem normInvocation_parsed (w : WaveformInvocation) (h : w.parameters.all (fun kv => parsedExpr kv.2) = true) :
    normInvocation w = canonInvocation w := by
  have : ∀ l : List KV, (l.all fun kv => parsedExpr kv.2) = true → l.map normKV = l := by
    intro l hl
    induction l with
    | nil => rfl
    | cons x xs ih =>
      simp only [List.all_cons, Bool.and_eq_true] at hl
      simp [normKV, norm_parsedExpr x.2 hl.1, ih hl.2]
  have hs : ((sortKV w.parameters).all fun kv => parsedExpr kv.2) = true := by
    rw [List.all_eq_true] at h ⊢
    intro kv hkv
    exact h kv (mem_sortKV.mp hkv)
  simp [normInvocation, canonInvocation, this _ hs]

theorem invOk_of_parsed (F : NumFmt) (w : WaveformInvocation) (h : invocationOk w = true)
    (hn : (w.parameters.all fun kv => numTokOk F kv.2) = true) : InvOk F w := by
  simp only [invocationOk, Bool.and_eq_true, distinctKeys, decide_eq_true_eq] at h
  exact ⟨h.1.1, h.1.2, fun kv hkv => finiteLits_parsedExpr _ (List.all_eq_true.mp h.2 kv hkv),
    fun kv hkv => List.all_eq_true.mp hn kv hkv⟩

theorem rt_pulse (F : NumFmt) (d : Nat) (p : Pulse) (hp : parsedInstr (.pulse p) = true)
    (hn : numTokInstr F (.pulse p) = true) (hd : (toks F (.pulse p)).length ≤ d) :
    RT F d (.pulse p) (canonInstr (.pulse p)) := by
  simp only [parsedInstr, Bool.and_eq_true] at hp
  simp only [numTokInstr] at hn
  have := rt_pulse_norm F d p hp.1 (invOk_of_parsed F _ hp.2 hn) hd
  have hinv : invocationOk p.waveform = true := hp.2
  simp only [invocationOk, Bool.and_eq_true] at hinv
  rw [normInvocation_parsed _ hinv.2] at this
  simpa [canonInstr] using this

theorem rt_capture (F : NumFmt) (d : Nat) (c : Capture) (hp : parsedInstr (.capture c) = true)
    (hn : numTokInstr F (.capture c) = true) (hd : (toks F (.capture c)).length ≤ d) :
    RT F d (.capture c) (canonInstr (.capture c)) := by
  simp only [parsedInstr, Bool.and_eq_true] at hp
  simp only [numTokInstr] at hn
  have := rt_capture_norm F d c hp.1 (invOk_of_parsed F _ hp.2 hn) hd
  have hinv : invocationOk c.waveform = true := hp.2
  simp only [invocationOk, Bool.and_eq_true] at hinv
  rw [normInvocation_parsed _ hinv.2] at this
  simpa [canonInstr] using this

end QV.C02
