import QV.C02.LemmasCal2
/-!
C02 lemmas, part 13 (core Lean only): DEFGATE — header, and the four specification bodies (every line is
`INDENT … "\n"`; the last newline is the one `lineToks` strips).
-/
namespace QV.C02
open QV QV.Tok QV.Ast QV.Parse QV.Print QV.ExprPrint QV.ExprRoundTrip

/-! ## generic separated lists -/

/-- the loop of `separated_list`: separator tokens `st`, items `enc x`; it stops at `rest` because the separator
fails there, or because the item after the separator fails -/
theorem sepLoop_gen {α β γ : Type} (sep : Parser γ) (sv : γ) (st : List Token) (p : Parser β)
    (enc : α → List Token) (g : α → β) (okTail : List Token → Bool) (xs : List α) (rest : List Token)
    (hst : st ≠ [])
    (hsep : ∀ x ∈ xs, ∀ r, sep (st ++ (enc x ++ r)) = .ok sv (enc x ++ r))
    (hp : ∀ x ∈ xs, ∀ r, okTail r = true → p (enc x ++ r) = .ok (g x) r)
    (hmid : ∀ r, okTail (st ++ r) = true) (he : okTail rest = true)
    (hstop : sep rest = .err ∨ ∃ v r1, sep rest = .ok v r1 ∧ r1.length ≠ rest.length ∧ p r1 = .err)
    (k : Nat) (hk : xs.length < k) :
    sepLoopFuel sep p k (xs.flatMap (fun x => st ++ enc x) ++ rest) = .ok (xs.map g) rest := by
  induction xs generalizing k with
  | nil =>
    cases k with
    | zero => omega
    | succ k =>
      rcases hstop with h | ⟨v, r1, h1, h2, h3⟩
      · simp [sepLoopFuel, h]
      · simp [sepLoopFuel, h1, h2, h3]
  | cons x xs ih =>
    cases k with
    | zero => omega
    | succ k =>
      have hnext : okTail (xs.flatMap (fun x => st ++ enc x) ++ rest) = true := by
        cases xs with
        | nil => simpa using he
        | cons x' xs' => simp only [List.flatMap_cons, List.append_assoc]; exact hmid _
      have h1 := hp x (by simp) _ hnext
      have hs := hsep x (by simp) (xs.flatMap (fun x => st ++ enc x) ++ rest)
      have ih' := ih (fun y hy => hsep y (by simp [hy])) (fun y hy => hp y (by simp [hy])) k
        (by simp at hk; omega)
      simp only [List.flatMap_cons, List.append_assoc]
      simp only [sepLoopFuel, hs]
      have hl : ¬ ((enc x ++ (List.flatMap (fun x => st ++ enc x) xs ++ rest)).length ==
          (st ++ (enc x ++ (List.flatMap (fun x => st ++ enc x) xs ++ rest))).length) = true := by
        have : 0 < st.length := List.length_pos_iff.mpr hst
        simp only [List.length_append, beq_iff_eq]; omega
      simp only [hl, h1, ih', Outcome.map, List.map_cons]
      simp

theorem length_flatMap_ge' {α : Type} (st : List Token) (enc : α → List Token) (xs : List α) (hst : st ≠ []) :
    xs.length ≤ (xs.flatMap (fun x => st ++ enc x)).length := by
  induction xs with
  | nil => simp
  | cons x xs ih =>
    have : 0 < st.length := List.length_pos_iff.mpr hst
    simp only [List.flatMap_cons, List.length_append, List.length_cons]; omega

theorem separatedList1_gen {α β γ : Type} (sep : Parser γ) (sv : γ) (st : List Token) (p : Parser β)
    (enc : α → List Token) (g : α → β) (okTail : List Token → Bool) (x : α) (xs : List α) (rest : List Token)
    (hst : st ≠ [])
    (hsep : ∀ y ∈ xs, ∀ r, sep (st ++ (enc y ++ r)) = .ok sv (enc y ++ r))
    (hp : ∀ y ∈ x :: xs, ∀ r, okTail r = true → p (enc y ++ r) = .ok (g y) r)
    (hmid : ∀ r, okTail (st ++ r) = true) (he : okTail rest = true)
    (hstop : sep rest = .err ∨ ∃ v r1, sep rest = .ok v r1 ∧ r1.length ≠ rest.length ∧ p r1 = .err) :
    separatedList1 sep p (enc x ++ (xs.flatMap (fun y => st ++ enc y) ++ rest)) = .ok ((x :: xs).map g) rest ∧
    separatedList0 sep p (enc x ++ (xs.flatMap (fun y => st ++ enc y) ++ rest)) = .ok ((x :: xs).map g) rest := by
  have hnext : okTail (xs.flatMap (fun x => st ++ enc x) ++ rest) = true := by
    cases xs with
    | nil => simpa using he
    | cons x' xs' => simp only [List.flatMap_cons, List.append_assoc]; exact hmid _
  have h1 := hp x (by simp) _ hnext
  have hloop := sepLoop_gen sep sv st p enc g okTail xs rest hst hsep (fun y hy => hp y (by simp [hy])) hmid he hstop
    ((xs.flatMap (fun y => st ++ enc y) ++ rest).length + 1) (by
      have := length_flatMap_ge' st enc xs hst
      simp only [List.length_append]; omega)
  simp only [separatedList1, separatedList0, h1, hloop, Outcome.map, List.map_cons, and_self]

/-! ## the lines of a specification -/

theorem lines_eq {α : Type} (f : α → List Token) (x : α) (xs : List α) :
    .newLine :: (x :: xs).flatMap (fun y => .indentation :: (f y ++ [.newLine])) =
      (x :: xs).flatMap (fun y => [Token.newLine] ++ (.indentation :: f y)) ++ [.newLine] := by
  induction xs generalizing x with
  | nil => simp
  | cons c cs ih =>
    have := ih c
    simp only [List.flatMap_cons, List.cons_append, List.append_assoc, List.nil_append] at this ⊢
    rw [this]

/-- `preceded(NewLine, separated_list1(NewLine, preceded(Indentation, q)))` on printed lines -/
theorem parseLines {α β : Type} (q : Parser β) (f : α → List Token) (g : α → β) (x : α) (xs : List α)
    (rest : List Token) (hrest : restOk rest = true)
    (hq : ∀ y ∈ x :: xs, ∀ r, startsNL r = true → q (f y ++ r) = .ok (g y) r) :
    preceded (tok .newLine) (separatedList1 (tok .newLine) (preceded (tok .indentation) q))
      ((x :: xs).flatMap (fun y => [Token.newLine] ++ (.indentation :: f y)) ++ .newLine :: rest) =
        .ok ((x :: xs).map g) (.newLine :: rest) := by
  have hstop : tok .newLine (.newLine :: rest) = .err ∨ ∃ v r1, tok .newLine (.newLine :: rest) = .ok v r1 ∧
      r1.length ≠ (Token.newLine :: rest).length ∧ preceded (tok .indentation) q r1 = .err := by
    right
    refine ⟨(), rest, by simp [tok], by simp, ?_⟩
    cases rest with
    | nil => simp [preceded, Parser.bind, tok]
    | cons t r =>
      have : t ≠ .indentation := by intro h; subst h; simp [restOk, startTok] at hrest
      simp [preceded, Parser.bind, tok, this]
  have h := (separatedList1_gen (tok .newLine) () [.newLine] (preceded (tok .indentation) q)
    (fun y => .indentation :: f y) g startsNL x xs (.newLine :: rest) (by simp)
    (fun y _ r => by simp [tok])
    (fun y hy r hr => by
      have := hq y hy r hr
      simp only [preceded, bind_eq, Parser.bind, List.cons_append, tok, if_true, this])
    (fun r => by simp [startsNL]) rfl hstop).1
  simp only [preceded, bind_eq, Parser.bind, List.flatMap_cons, List.append_assoc, List.cons_append,
    List.nil_append, tok, if_true] at h ⊢
  exact h

/-! ## the header -/

def specParser (pe : Parser PExpr) (arguments : List String) : GateType → Parser GateSpecification
  | .matrix => pmap GateSpecification.matrix (parseMatrix pe)
  | .permutation => pmap GateSpecification.permutation parsePermutation
  | .pauliSum => mapRes (parsePauliTerms pe) fun terms => (pauliSumNew arguments terms).map .pauliSum
  | .sequence => mapRes (parseSequenceElements pe) fun gates =>
      (defGateSequenceTryNew arguments gates).map .sequence

def typeOf : GateSpecification → GateType
  | .matrix _ => .matrix | .permutation _ => .permutation | .pauliSum _ => .pauliSum | .sequence _ => .sequence

theorem many0_idents (args : List String) (r : List Token) :
    many0 tokIdentifier (args.map identTok ++ .as :: r) = .ok (args.map (·.toList)) (.as :: r) := by
  have hflat : args.map identTok = (args.map (·.toList)).flatMap (fun s => [Token.identifier s]) := by
    induction args with
    | nil => rfl
    | cons x xs ih => simp [identTok, ih]
  rw [hflat]
  exact many0_items tokIdentifier (fun s => [Token.identifier s]) _ _
    (fun s _ r => by simp [tokIdentifier]) (fun _ _ => by simp) (by simp [tokIdentifier])

theorem lparen_idents (args : List String) (r : List Token) :
    tok .lParenthesis (args.map identTok ++ .as :: r) = .err := by
  cases args <;> simp [tok, identTok]

theorem parseDefgate_of (pe : Parser PExpr) (name : String) (ps args : List String) (spec : GateSpecification)
    (body rest' : List Token) (hspec : specParser pe args (typeOf spec) body = .ok spec rest') :
    parseDefgate pe (identTok name :: (varParamsToks ps ++ (args.map identTok ++
      .as :: gateTypeTok spec :: .colon :: body))) = .ok (.gateDefinition ⟨name, ps, spec⟩) rest' := by
  have hty : opt (preceded (tok .as) parseGateType) (.as :: gateTypeTok spec :: .colon :: body) =
      .ok (some (typeOf spec)) (.colon :: body) := by
    cases spec <;>
      simp [opt, preceded, parseGateType, alt, pmap, tok, Parser.bind, Outcome.map, gateTypeTok, typeOf]
  simp only [parseDefgate, bind_eq, Parser.bind, identTok, tokIdentifier, str_toList]
  rw [parseVariableList_toks ps _ (lparen_idents args _)]
  have hids : opt (many0 tokIdentifier) (args.map identTok ++ .as :: gateTypeTok spec :: .colon :: body) =
      .ok (some (args.map (·.toList))) (.as :: gateTypeTok spec :: .colon :: body) := by
    simp [opt, many0_idents]
  simp only [hids, hty]
  simp only [Option.getD_some, tok, if_true, map_str_toList]
  cases spec <;> simp only [typeOf, specParser] at hspec ⊢ <;> rw [hspec] <;> cases ps <;> simp [Parser.pure]

/-! ## PERMUTATION -/

theorem spec_permutation (pe : Parser PExpr) (args : List String) (p : List Nat) (hne : p ≠ [])
    (rest : List Token) :
    specParser pe args .permutation (.newLine :: .indentation ::
      (sepBy [.comma] (p.map fun n => [Token.integer n]) ++ .newLine :: rest)) =
        .ok (.permutation p) (.newLine :: rest) := by
  cases hp : p with
  | nil => exact absurd hp hne
  | cons n ns =>
    have h := separatedList1_items tokInteger (fun n : Nat => [Token.integer n]) id (fun _ => true) n ns
      (.newLine :: rest) (fun y _ r _ => by simp [tokInteger]) (fun _ => rfl) rfl rfl
    simp only [List.map_id] at h
    simp only [specParser, pmap, parsePermutation, preceded, bind_eq, Parser.bind, tok, if_true, h, Outcome.map]

/-! ## MATRIX -/

def notIndent : List Token → Bool
  | .indentation :: _ => false
  | _ => true

theorem many0_indent_stop (T : List Token) (h : notIndent T = true) :
    many0 (tok .indentation) T = .ok [] T := by
  unfold many0
  cases T with
  | nil => simp [many0Fuel, tok]
  | cons t r => cases t <;> simp_all [many0Fuel, tok, notIndent]

/-- a printed expression never begins with an indentation token -/
theorem printTop_notIndent (F : NumFmt) (e : PExpr) (hn : numTokOk F e = true) (r : List Token) :
    notIndent (printTop F e ++ r) = true := by
  unfold numTokOk at hn
  induction e generalizing r with
  | address m => rfl
  | call f x _ => rfl
  | bin l o x ihl _ =>
    simp only [allLits, Bool.and_eq_true] at hn
    simp only [printTop, wrapIf]
    split
    · rfl
    · simpa using ihl hn.1 _
  | number z =>
    simp only [allLits, numTokOkAt, Bool.and_eq_true, beq_iff_eq] at hn
    have htok : ∀ (t : Token) (m : Nat) (r' : List Token), tokBits t = some m → notIndent (t :: r') = true := by
      intro t m r' h
      cases t <;> simp_all [tokBits, notIndent]
    have hsigned : ∀ (f : Nat → Token) (b : Nat) (r' : List Token), tokBits (f (fAbs b)) = some (fAbs b) →
        notIndent (signedToks f b ++ r') = true := by
      intro f b r' h
      unfold signedToks
      by_cases hs : fSign b = true
      · simp [hs, notIndent]
      · have : fAbs b = b := by unfold fAbs; simp only [fSign, decide_eq_true_eq] at hs; simp [hs]
        rw [this] at h
        simpa [hs] using htok _ _ _ h
    simp only [printTop, complexToks]
    split
    · rfl
    · split
      · exact hsigned _ _ _ hn.1
      · split
        · simpa using hsigned F.imag z.im ([tokI] ++ r) hn.2
        · simpa using hsigned F.real z.re _ hn.1
  | pi => rfl
  | pre o x ih =>
    simp only [allLits] at hn
    cases o with
    | minus => rfl
    | plus =>
      have hw : wrapIf (PrefixOp.plus == PrefixOp.minus && startsWithMinus x) (wrapIf (needsParens x) (printTop F x)) =
          wrapIf (needsParens x) (printTop F x) := by
        have : (PrefixOp.plus == PrefixOp.minus) = false := by decide
        simp [this, wrapIf]
      simp only [printTop, prefixToks, List.nil_append, hw]
      unfold wrapIf
      split
      · rfl
      · exact ih hn _
  | var x => rfl

theorem endOk_of_startsNL {r : List Token} (h : startsNL r = true) : endOk r = true := by
  cases r with
  | nil => rfl
  | cons t r => cases t <;> simp_all [startsNL, endOk]

/-- one printed row -/
theorem parseRow (F : NumFmt) (nf : PExpr → PExpr) (pe : Parser PExpr) (row : List PExpr)
    (hnl : ∀ r', pe (.newLine :: r') = .err)
    (hn : ∀ e ∈ row, numTokOk F e = true)
    (hpe : ∀ e ∈ row, ∀ r, endOk r = true → pe (printTop F e ++ r) = .ok (nf e) r)
    (r : List Token) (hr : startsNL r = true) :
    separatedList0 (pair (tok .comma) (many0 (tok .indentation))) pe
      (sepBy [.comma] (row.map (printTop F)) ++ r) = .ok (row.map nf) r := by
  cases hrow : row with
  | nil =>
    cases r with
    | nil => simp [startsNL] at hr
    | cons t r' =>
      cases t <;> simp [startsNL] at hr
      simp [sepBy, separatedList0, hnl]
  | cons e es =>
    subst hrow
    have hstop : pair (tok .comma) (many0 (tok .indentation)) r = .err ∨ ∃ v r1,
        pair (tok .comma) (many0 (tok .indentation)) r = .ok v r1 ∧ r1.length ≠ r.length ∧ pe r1 = .err := by
      left
      cases r with
      | nil => simp [startsNL] at hr
      | cons t r' => cases t <;> simp_all [startsNL, pair, Parser.bind, tok]
    have h := (separatedList1_gen (pair (tok .comma) (many0 (tok .indentation))) ((), []) [.comma] pe
      (printTop F) nf endOk e es r (by simp)
      (fun y hy r' => by
        have := many0_indent_stop _ (printTop_notIndent F y (hn y (by simp [hy])) r')
        simp [pair, Parser.bind, tok, this, Parser.pure])
      (fun y hy r' hr' => hpe y hy r' hr') (fun r' => rfl) (endOk_of_startsNL hr) hstop).2
    have hflat : (es.map (printTop F)).flatMap (fun y => [Token.comma] ++ y) =
        es.flatMap (fun x => [Token.comma] ++ printTop F x) := by
      simp [List.flatMap_map]
    simp only [List.map_cons, sepBy_cons, hflat, List.append_assoc] at h ⊢
    exact h

theorem spec_matrix (F : NumFmt) (nf : PExpr → PExpr) (pe : Parser PExpr) (args : List String) (x : List PExpr)
    (xs : List (List PExpr)) (hnl : ∀ r', pe (.newLine :: r') = .err)
    (hn : ∀ row ∈ x :: xs, ∀ e ∈ row, numTokOk F e = true)
    (hpe : ∀ row ∈ x :: xs, ∀ e ∈ row, ∀ r, endOk r = true → pe (printTop F e ++ r) = .ok (nf e) r)
    (rest : List Token) (hrest : restOk rest = true) :
    specParser pe args .matrix
      ((x :: xs).flatMap (fun row => [Token.newLine] ++ (.indentation :: sepBy [.comma] (row.map (printTop F))))
        ++ .newLine :: rest) = .ok (.matrix ((x :: xs).map (·.map nf))) (.newLine :: rest) := by
  have h := parseLines (separatedList0 (pair (tok .comma) (many0 (tok .indentation))) pe)
    (fun row : List PExpr => sepBy [.comma] (row.map (printTop F))) (·.map nf) x xs rest hrest
    (fun row hrow r hr => parseRow F nf pe row hnl (hn row hrow) (hpe row hrow) r hr)
  simp only [specParser, pmap, parseMatrix]
  erw [h]
  rfl

/-! ## PAULI-SUM -/

theorem pauliWord_chars (gs : List PauliGate) : pauliWordOfChars (gs.map pauliGateChar) = some gs := by
  induction gs with
  | nil => rfl
  | cons g gs ih => cases g <;> simp [pauliWordOfChars, pauliGateChar, pauliGateOfChar, ih]

theorem zip_fst_snd {α β : Type} (l : List (α × β)) : (l.map (·.1)).zip (l.map (·.2)) = l := by
  induction l with
  | nil => rfl
  | cons x xs ih => simp [ih]

/-- the tokens of a PAULI-SUM term's line, without indentation and newline -/
def pauliLine (F : NumFmt) (t : PauliTerm) : List Token :=
  .identifier (t.arguments.map fun ga => pauliGateChar ga.1) :: .lParenthesis ::
    (printTop F t.expression ++ .rParenthesis :: (t.arguments.map fun ga => identTok ga.2))

theorem parsePauliTerm_line (F : NumFmt) (nf : PExpr → PExpr) (pe : Parser PExpr) (t : PauliTerm)
    (hne : t.arguments ≠ [])
    (hpe : ∀ r, endOk r = true → pe (printTop F t.expression ++ r) = .ok (nf t.expression) r)
    (r : List Token) (hr : startsNL r = true) :
    parsePauliTerm pe (pauliLine F t ++ r) = .ok ⟨t.arguments, nf t.expression⟩ r := by
  obtain ⟨targs, e⟩ := t
  simp only at hne hpe
  cases hargs : targs with
  | nil => exact absurd hargs hne
  | cons a as =>
    have hstop : tokIdentifier r = .err := by
      cases r with
      | nil => rfl
      | cons t r' => cases t <;> simp_all [startsNL, tokIdentifier]
    have hm := many1_items_ok tokIdentifier (fun ga : PauliGate × String => [identTok ga.2])
      (fun ga => ga.2.toList) (fun _ => true) a as r
      (fun y _ r' _ => by simp [identTok, tokIdentifier]) (fun _ _ => by simp) (fun _ _ _ => rfl) rfl hstop
    have hflat : ∀ l : List (PauliGate × String),
        l.flatMap (fun ga => [identTok ga.2]) = l.map (fun ga => identTok ga.2) := by
      intro l
      induction l with
      | nil => rfl
      | cons x xs ih => simp [ih]
    have hx := hpe (.rParenthesis :: ((a :: as).map (fun ga => identTok ga.2) ++ r)) rfl
    have hword := pauliWord_chars ((a :: as).map (·.1))
    simp only [List.map_map] at hword
    have hw' : pauliWordOfChars (List.map (fun ga => pauliGateChar ga.1) (a :: as)) =
        some ((a :: as).map (·.1)) := by
      simpa [Function.comp_def] using hword
    simp only [parsePauliTerm, mapRes, pauliLine, bind_eq, Parser.bind, parsePauliWord, tokIdentifier,
      List.cons_append, List.append_assoc, hw', delimited, tok, if_true, hx, pure_eq, Parser.pure]
    rw [← hflat]
    simp only [List.flatMap_cons, List.append_assoc]
    erw [hm]
    have hz := zip_fst_snd (a :: as)
    have hstr : ((a :: as).map fun ga => ga.2.toList).map str = (a :: as).map (·.2) := by
      simp [List.map_map, Function.comp_def]
    simp only [hstr, List.length_map, bne_self_eq_false, Bool.false_eq_true, if_false, hz]

theorem spec_pauliSum (F : NumFmt) (nf : PExpr → PExpr) (pe : Parser PExpr) (args : List String) (x : PauliTerm)
    (xs : List PauliTerm) (hok : ∀ t ∈ x :: xs, t.arguments ≠ [] ∧ t.arguments.all (fun ga => args.contains ga.2) = true)
    (hpe : ∀ t ∈ x :: xs, ∀ r, endOk r = true → pe (printTop F t.expression ++ r) = .ok (nf t.expression) r)
    (rest : List Token) (hrest : restOk rest = true) :
    specParser pe args .pauliSum
      ((x :: xs).flatMap (fun t => [Token.newLine] ++ (.indentation :: pauliLine F t)) ++ .newLine :: rest) =
        .ok (.pauliSum ⟨args, (x :: xs).map fun t => ⟨t.arguments, nf t.expression⟩⟩) (.newLine :: rest) := by
  have h := parseLines (parsePauliTerm pe) (pauliLine F) (fun t : PauliTerm => (⟨t.arguments, nf t.expression⟩ : PauliTerm))
    x xs rest hrest
    (fun t ht r hr => parsePauliTerm_line F nf pe t (hok t ht).1 (hpe t ht) r hr)
  have hall : (((x :: xs).map fun t : PauliTerm => (⟨t.arguments, nf t.expression⟩ : PauliTerm)).all
      fun t => t.arguments.all fun ga => args.contains ga.2) = true := by
    rw [List.all_eq_true]
    intro t' ht'
    obtain ⟨t, ht, rfl⟩ := List.mem_map.mp ht'
    exact (hok t ht).2
  simp only [specParser, mapRes, parsePauliTerms]
  erw [h]
  simp only [pauliSumNew, hall, if_true, Option.map_some]

/-! ## SEQUENCE -/

theorem parseSequenceElement_toks (F : NumFmt) (nf : PExpr → PExpr) (pe : Parser PExpr) (g : Gate)
    (hq : g.qubits.all noPlaceholder = true)
    (hpe : ∀ e ∈ g.parameters, ∀ r, endOk r = true → pe (printTop F e ++ r) = .ok (nf e) r)
    (r : List Token) (hr : startsNL r = true) :
    parseSequenceElement pe (gateToks F g ++ r) = .ok { g with parameters := g.parameters.map nf } r := by
  obtain ⟨name, ps, qs, ms⟩ := g
  cases r with
  | nil => simp [startsNL] at hr
  | cons t r' =>
    cases t <;> simp [startsNL] at hr
    have hp := parseParameters_toks F nf pe ps _ hpe (lparen_qubits qs r')
    simp only [gateToks, List.append_assoc, List.cons_append, parseSequenceElement, bind_eq, Parser.bind,
      many0_modifiers]
    simp only [identTok, tokIdentifier, str_toList, hp,
      many0_parseQubit qs hq _ (show notQubit (.newLine :: r') = true from rfl), pure_eq, Parser.pure]

theorem tryNew_ok (args : List String) (hargs : args ≠ []) (gs : List Gate)
    (hvars : ∀ g ∈ gs, (g.qubits.all fun q => match q with | .variable a => args.contains a | _ => false) = true) :
    defGateSequenceTryNew args gs = some ⟨args, gs⟩ := by
  have hemp : args.isEmpty = false := by cases args <;> simp_all
  unfold defGateSequenceTryNew
  simp only [hemp, Bool.false_eq_true, if_false]
  rw [if_pos]
  rw [List.all_eq_true]
  intro g hg
  exact hvars g hg

theorem spec_sequence (F : NumFmt) (nf : PExpr → PExpr) (pe : Parser PExpr) (args : List String) (hargs : args ≠ [])
    (x : Gate)
    (xs : List Gate) (hq : ∀ g ∈ x :: xs, g.qubits.all noPlaceholder = true)
    (hvars : ∀ g ∈ x :: xs, (g.qubits.all fun q => match q with | .variable a => args.contains a | _ => false) = true)
    (hpe : ∀ g ∈ x :: xs, ∀ e ∈ g.parameters, ∀ r, endOk r = true → pe (printTop F e ++ r) = .ok (nf e) r)
    (rest : List Token) (hrest : restOk rest = true) :
    specParser pe args .sequence
      ((x :: xs).flatMap (fun g => [Token.newLine] ++ (.indentation :: gateToks F g)) ++ .newLine :: rest) =
        .ok (.sequence ⟨args, (x :: xs).map fun g => { g with parameters := g.parameters.map nf }⟩)
          (.newLine :: rest) := by
  have h := parseLines (parseSequenceElement pe) (gateToks F)
    (fun g : Gate => ({ g with parameters := g.parameters.map nf } : Gate)) x xs rest hrest
    (fun g hg r hr => parseSequenceElement_toks F nf pe g (hq g hg) (hpe g hg) r hr)
  have hvars' : ∀ g' ∈ (x :: xs).map (fun g : Gate => ({ g with parameters := g.parameters.map nf } : Gate)),
      (g'.qubits.all fun q => match q with | .variable a => args.contains a | _ => false) = true := by
    intro g' hg'
    obtain ⟨g, hg, rfl⟩ := List.mem_map.mp hg'
    exact hvars g hg
  simp only [specParser, mapRes, parseSequenceElements]
  erw [h]
  simp only [tryNew_ok args hargs _ hvars', Option.map_some]

end QV.C02
