import QV.C02.LemmasKinds
/-!
C02 lemmas, part 4b (core Lean only): `rt_declaration` (DECLARE with SHARING / OFFSET) and `rt_pragma`.
-/
namespace QV.C02
open QV QV.Tok QV.Ast QV.Parse QV.Print QV.ExprPrint

theorem matchDataTypeToken_scalar (t : ScalarType) :
    (match scalarTok t with | .dataType x => matchDataTypeToken x | _ => .bit) = t := by
  cases t <;> rfl

theorem tokDataType_scalar (t : ScalarType) (r : List Token) :
    tokDataType (scalarTok t :: r) = .ok (match t with | .bit => .bit | .integer => .integer | .octet => .octet | .real => .real) r := by
  cases t <;> rfl

def offsetToks (o : Offset) : List Token := [Token.integer o.offset, scalarTok o.dataType]

def offsetParser : Parser Offset :=
  pmap (fun (o, t) => (⟨o, matchDataTypeToken t⟩ : Offset)) (pair tokInteger tokDataType)

theorem offsetParser_toks (o : Offset) (r : List Token) : offsetParser (offsetToks o ++ r) = .ok o r := by
  obtain ⟨n, t⟩ := o
  cases t <;> simp [offsetParser, offsetToks, pmap, pair, Parser.bind, Parser.pure, tokInteger, tokDataType,
    scalarTok, Outcome.map, matchDataTypeToken]

theorem many1_items {α : Type} (p : Parser α) (enc : α → List Token) (x : α) (xs : List α) (rest : List Token)
    (hp : ∀ y ∈ x :: xs, ∀ r, p (enc y ++ r) = .ok y r) (hne : ∀ y ∈ xs, enc y ≠ []) (hstop : p rest = .err) :
    many1 p (enc x ++ (xs.flatMap enc ++ rest)) = .ok (x :: xs) rest := by
  unfold many1
  rw [hp x (by simp)]
  simp only []
  rw [many0Fuel_items p enc xs rest (fun y hy => hp y (by simp [hy])) hne hstop]
  · rfl
  · have := length_flatMap_ge enc xs hne
    simp only [List.length_append]; omega

theorem rt_declaration (F : NumFmt) (d : Nat) (a : Declaration) : RT F d (.declaration a) (.declaration a) := by
  obtain ⟨name, ⟨ty, len⟩, sharing⟩ := a
  cases sharing with
  | none =>
    apply rt_of_command F d _ _ .declare (identTok name :: vectorToks ⟨ty, len⟩)
    · simp [toks]
    · intro rest
      cases ty <;> simp [parseCommand, parseDeclare, Parser.bind, Parser.pure, tokIdentifier, identTok, vectorToks, parseVector,
        tokDataType, scalarTok, opt, delimited, tok, tokInteger, parseSharing, preceded, matchDataTypeToken]
  | some s =>
    obtain ⟨sname, offs⟩ := s
    cases offs with
    | nil =>
      apply rt_of_command F d _ _ .declare (identTok name :: (vectorToks ⟨ty, len⟩ ++ [.sharing, identTok sname]))
      · simp [toks]
      · intro rest
        cases ty <;> simp [parseCommand, parseDeclare, Parser.bind, Parser.pure, tokIdentifier, identTok, vectorToks, parseVector,
          tokDataType, scalarTok, opt, delimited, tok, tokInteger, parseSharing, preceded, matchDataTypeToken, pair]
    | cons o os =>
      apply rt_of_command F d _ _ .declare (identTok name :: (vectorToks ⟨ty, len⟩ ++
        .sharing :: identTok sname :: .offset :: (offsetToks o ++ os.flatMap offsetToks)))
      · simp [toks]; rfl
      · intro rest
        have hm := many1_items offsetParser offsetToks o os (.newLine :: rest)
          (fun y _ r => offsetParser_toks y r) (fun y _ => by simp [offsetToks])
          (by simp [offsetParser, pmap, pair, Parser.bind, tokInteger, Outcome.map])
        unfold offsetParser at hm
        cases ty <;> (
          simp [parseCommand, parseDeclare, Parser.bind, Parser.pure, tokIdentifier, identTok, vectorToks, parseVector,
            tokDataType, scalarTok, opt, delimited, tok, tokInteger, parseSharing, preceded, matchDataTypeToken, pair] at hm ⊢
          simp [hm])


def pragmaArgParser : Parser PragmaArgument :=
  alt (pmap (fun s => PragmaArgument.identifier (str s)) tokIdentifier) (pmap PragmaArgument.integer tokInteger)

theorem pragmaArg_toks (a : PragmaArgument) (r : List Token) :
    pragmaArgParser ([pragmaArgTok a] ++ r) = .ok a r := by
  cases a <;> simp [pragmaArgParser, pragmaArgTok, alt, pmap, tokIdentifier, tokInteger, Outcome.map, identTok]

theorem rt_pragma (F : NumFmt) (d : Nat) (a : Pragma) : RT F d (.pragma a) (.pragma a) := by
  obtain ⟨name, args, data⟩ := a
  have hargs : ∀ rest, pragmaArgParser rest = .err →
      many0 pragmaArgParser (args.flatMap (fun a => [pragmaArgTok a]) ++ rest) = .ok args rest := by
    intro rest hr
    exact many0_items pragmaArgParser (fun a => [pragmaArgTok a]) args rest
      (fun y _ r => pragmaArg_toks y r) (fun y _ => by simp) hr
  have hflat : ∀ (l : List PragmaArgument), l.flatMap (fun a => [pragmaArgTok a]) = l.map pragmaArgTok := by
    intro l
    induction l with
    | nil => rfl
    | cons x xs ih => simp [List.flatMap_cons, ih]
  rw [hflat args] at hargs
  unfold pragmaArgParser at hargs
  cases data with
  | none =>
    apply rt_of_command F d _ _ .pragma (identTok name :: args.map pragmaArgTok)
    · simp [toks]
    · intro rest
      have h1 := hargs (.newLine :: rest) (by simp [alt, pmap, tokIdentifier, tokInteger, Outcome.map])
      simp only [parseCommand, parsePragma, bind_eq, Parser.bind, identTok, tokIdentifier, List.cons_append, h1]
      simp [opt, tokString, Parser.pure]
  | some s =>
    apply rt_of_command F d _ _ .pragma (identTok name :: (args.map pragmaArgTok ++ [strTok s]))
    · simp [toks]
    · intro rest
      have h1 := hargs (strTok s :: .newLine :: rest) (by simp [alt, pmap, tokIdentifier, tokInteger, Outcome.map, strTok])
      simp only [strTok] at h1
      simp only [parseCommand, parsePragma, bind_eq, Parser.bind, identTok, tokIdentifier, List.cons_append,
        List.append_assoc, List.singleton_append, strTok]
      erw [h1]
      simp [opt, tokString, Parser.pure]

end QV.C02
