import QV.C02.LemmasParse

/-!
C02 lemmas, part 3 (core Lean only): `parse_instruction` on a printed instruction followed by a newline.
-/
namespace QV.C02
open QV QV.Tok QV.Ast QV.Parse QV.Print QV.ExprPrint

/-! ## `skip_newlines_and_comments` -/

/-- a token at which `skip_newlines_and_comments` stops -/
def startTok : Token → Bool
  | .indentation | .comment _ | .newLine | .semicolon => false
  | _ => true

theorem skipItem_err (t : Token) (r : List Token) (h : startTok t = true) :
    alt (preceded (many0 (tok .indentation)) (pmap (fun _ => ()) tokComment))
      (alt (tok .newLine) (tok .semicolon)) (t :: r) = .err := by
  cases t <;> simp_all [startTok, alt, preceded, many0, many0Fuel, tok, pmap, tokComment, Parser.bind, Outcome.map]

theorem skipItem_err_nil :
    alt (preceded (many0 (tok .indentation)) (pmap (fun _ => ()) tokComment))
      (alt (tok .newLine) (tok .semicolon)) [] = .err := by
  simp [alt, preceded, many0, many0Fuel, tok, pmap, tokComment, Parser.bind, Outcome.map]

theorem skipItem_newLine (r : List Token) :
    alt (preceded (many0 (tok .indentation)) (pmap (fun _ => ()) tokComment))
      (alt (tok .newLine) (tok .semicolon)) (.newLine :: r) = .ok () r := by
  simp [alt, preceded, many0, many0Fuel, tok, pmap, tokComment, Parser.bind, Outcome.map]

@[simp] theorem skip_start (t : Token) (r : List Token) (h : startTok t = true) :
    skipNewlinesAndComments (t :: r) = .ok () (t :: r) := by
  simp only [skipNewlinesAndComments, bind_eq, Parser.bind, many0, List.length_cons, many0Fuel,
    skipItem_err t r h, pure_eq, Parser.pure]

@[simp] theorem skip_nil : skipNewlinesAndComments [] = .ok () [] := by
  simp only [skipNewlinesAndComments, bind_eq, Parser.bind, many0, List.length_nil, many0Fuel,
    skipItem_err_nil, pure_eq, Parser.pure]

@[simp] theorem skip_newLine_start (t : Token) (r : List Token) (h : startTok t = true) :
    skipNewlinesAndComments (.newLine :: t :: r) = .ok () (t :: r) := by
  simp only [skipNewlinesAndComments, bind_eq, Parser.bind, many0, List.length_cons, many0Fuel,
    skipItem_newLine, skipItem_err t r h, pure_eq, Parser.pure, Outcome.map]
  simp

@[simp] theorem skip_newLine_nil : skipNewlinesAndComments [.newLine] = .ok () [] := by
  simp only [skipNewlinesAndComments, bind_eq, Parser.bind, many0, List.length_cons, List.length_nil, many0Fuel,
    skipItem_newLine, skipItem_err_nil, pure_eq, Parser.pure, Outcome.map]
  simp

/-! ## dispatch -/

theorem body_command (pe : Parser PExpr) (pi : Parser Instruction) (c : Command) (r r' : List Token)
    (v : Instruction) (h : parseCommand pe pi c r = .ok v r') :
    parseInstructionBody pe pi (.command c :: r) = .ok v r' := by
  simp [parseInstructionBody, skip_start _ _ (show startTok (.command c) = true from rfl), h]

theorem body_command_nl (pe : Parser PExpr) (pi : Parser Instruction) (c : Command) (r r' : List Token)
    (v : Instruction) (h : parseCommand pe pi c r = .ok v r') :
    parseInstructionBody pe pi (.newLine :: .command c :: r) = .ok v r' := by
  simp [parseInstructionBody, skip_newLine_start _ _ (show startTok (.command c) = true from rfl), h]

theorem body_end (pe : Parser PExpr) (pi : Parser Instruction) :
    parseInstructionBody pe pi [.newLine] = .err := by
  simp [parseInstructionBody]

theorem body_nil (pe : Parser PExpr) (pi : Parser Instruction) :
    parseInstructionBody pe pi [] = .err := by
  simp [parseInstructionBody]

end QV.C02
