import QV.C02.LemmasCal
import QV.C02.LemmasLines
/-!
C02 lemmas, part 11 (core Lean only): DEFCAL MEASURE and DEFCIRCUIT — their text ends in a newline; the round
trip is stated for `lineToks` (the tokens without that newline, `QV.C02.LemmasLines`).
-/
namespace QV.C02
open QV QV.Tok QV.Ast QV.Parse QV.Print QV.ExprPrint QV.ExprRoundTrip

theorem rttopL_of_command (d : Nat) (ts : List Token) (i' : Instruction) (c : Command) (payload : List Token)
    (ht : ts = cmd c :: payload)
    (h : ∀ rest, restOk rest = true →
      parseCommand (parseExpressionAt (d + 1)) (parseInstructionAt d) c (payload ++ .newLine :: rest)
        = .ok i' (.newLine :: rest)) : RTtopL ts d i' := by
  intro rest hr
  simp only [parseInstructionAt, ht, cmd, List.cons_append]
  exact ⟨body_command _ _ _ _ _ _ (h rest hr), body_command_nl _ _ _ _ _ _ (h rest hr)⟩

theorem mcalBody_eq (F : NumFmt) (b : Instruction) (bs : List Instruction) :
    .newLine :: mcalBodyToks F (b :: bs) = (b :: bs).flatMap (calItemToks F) := by
  induction bs generalizing b with
  | nil => simp [mcalBodyToks, calItemToks]
  | cons c cs ih =>
    have := ih c
    simp only [mcalBodyToks, List.flatMap_cons, calItemToks, List.cons_append, List.append_assoc] at this ⊢
    rw [this]

theorem circuitBody_eq (F : NumFmt) (b : Instruction) (bs : List Instruction) :
    .newLine :: circuitBodyToks F (b :: bs) = (b :: bs).flatMap (calItemToks F) ++ [.newLine] := by
  induction bs generalizing b with
  | nil => simp [circuitBodyToks, calItemToks]
  | cons c cs ih =>
    have := ih c
    simp only [circuitBodyToks, List.flatMap_cons, calItemToks, List.cons_append, List.append_assoc] at this ⊢
    rw [this]

def targetToks' : Option String → List Token
  | some t => [identTok t]
  | none => []

theorem lineToks_measureCal (F : NumFmt) (id : MeasureCalibrationIdentifier) (b : Instruction)
    (bs : List Instruction) :
    lineToks F (.measureCalibrationDefinition id (b :: bs)) =
      cmd .defCal :: cmd .measure :: (measureNameToks id.name ++ qubitToks id.qubit ++
        (targetToks' id.target ++ .colon :: (b :: bs).flatMap (calItemToks F))) := by
  have e : toks F (.measureCalibrationDefinition id (b :: bs)) =
      (cmd .defCal :: cmd .measure :: (measureNameToks id.name ++ qubitToks id.qubit ++
        (targetToks' id.target ++ .colon :: (b :: bs).flatMap (calItemToks F)))) ++ [.newLine] := by
    rw [← mcalBody_eq]
    cases ht : id.target <;> simp [toks, targetToks', ht]
  unfold lineToks
  rw [e, stripNL_snoc]

theorem lineToks_circuit (F : NumFmt) (name : String) (ps qvs : List String) (b : Instruction)
    (bs : List Instruction) :
    lineToks F (.circuitDefinition name ps qvs (b :: bs)) =
      cmd .defCircuit :: identTok name :: (varParamsToks ps ++ (qvs.map nameTok ++
        .colon :: (b :: bs).flatMap (calItemToks F))) := by
  have e : toks F (.circuitDefinition name ps qvs (b :: bs)) =
      (cmd .defCircuit :: identTok name :: (varParamsToks ps ++ (qvs.map nameTok ++
        .colon :: (b :: bs).flatMap (calItemToks F)))) ++ [.newLine] := by
    simp only [toks, circuitBody_eq, List.append_assoc, List.cons_append]
  unfold lineToks
  rw [e, stripNL_snoc]

theorem rt_measureCal_blk (F : NumFmt) (d : Nat) (id : MeasureCalibrationIdentifier)
    (body : List Instruction) (g : Instruction → Instruction) (hq : noPlaceholder id.qubit = true)
    (hne : body ≠ []) (hbody : BlockRT F d body g) :
    RTtopL (lineToks F (.measureCalibrationDefinition id body)) (d + 1)
      (.measureCalibrationDefinition id (body.map g)) := by
  obtain ⟨name, q, target⟩ := id
  cases hb : body with
  | nil => exact absurd hb hne
  | cons b bs =>
    subst hb
    apply rttopL_of_command (d + 1) _ _ .defCal _ (lineToks_measureCal F _ b bs)
    intro rest hrest
    have hblock := hbody rest hrest
    simp only [parseCommand, parseDefcal, bind_eq, Parser.bind, List.append_assoc, List.cons_append, cmd, opt,
      tok, if_true, parseDefcalMeasure]
    rw [← List.append_assoc (measureNameToks name)]
    rw [parseMeasureName_toks]
    simp only [parseQubit_toks q hq]
    cases target with
    | none =>
      simp only [targetToks', List.nil_append, tokIdentifier, tok, if_true]
      erw [hblock]
      simp [Parser.pure]
    | some t =>
      simp only [targetToks', List.cons_append, List.nil_append, identTok, tokIdentifier, tok, if_true]
      erw [hblock]
      simp [Parser.pure]

theorem many0_variableQubits (qvs : List String) (h : qvs.all (fun s => !isReservedWord s.toList) = true)
    (r : List Token) :
    many0 parseVariableQubit (qvs.map nameTok ++ .colon :: r) = .ok qvs (.colon :: r) := by
  have hflat : ∀ l : List String, l.flatMap (fun s => [nameTok s]) = l.map nameTok := by
    intro l
    induction l with
    | nil => rfl
    | cons x xs ih => simp [List.flatMap_cons, ih]
  rw [← hflat]
  apply many0_items parseVariableQubit (fun s => [nameTok s]) qvs _
  · intro s hs r
    have := List.all_eq_true.mp h s hs
    simp only [Bool.not_eq_true'] at this
    simp [nameTok, keywordOrIdentifier_of_not_reserved _ this, parseVariableQubit]
  · intro _ _; simp
  · rfl

theorem lparen_names (qvs : List String) (h : qvs.all (fun s => !isReservedWord s.toList) = true)
    (r : List Token) : tok .lParenthesis (qvs.map nameTok ++ .colon :: r) = .err := by
  cases qvs with
  | nil => simp [tok]
  | cons s qs => simp [tok, (nameTok_not_punct s).2.1]

theorem rt_circuit_blk (F : NumFmt) (d : Nat) (name : String) (ps qvs : List String)
    (body : List Instruction) (g : Instruction → Instruction)
    (hqv : qvs.all (fun s => !isReservedWord s.toList) = true)
    (hne : body ≠ []) (hbody : BlockRT F d body g) :
    RTtopL (lineToks F (.circuitDefinition name ps qvs body)) (d + 1)
      (.circuitDefinition name ps qvs (body.map g)) := by
  cases hb : body with
  | nil => exact absurd hb hne
  | cons b bs =>
    subst hb
    apply rttopL_of_command (d + 1) _ _ .defCircuit _ (lineToks_circuit F name ps qvs b bs)
    intro rest hrest
    have hblock := hbody rest hrest
    simp only [parseCommand, parseDefcircuit, bind_eq, Parser.bind, List.append_assoc, List.cons_append, identTok,
      tokIdentifier, str_toList]
    rw [parseVariableList_toks ps _ (lparen_names qvs hqv _)]
    simp only [many0_variableQubits qvs hqv, tok, if_true]
    erw [hblock]
    cases ps <;> simp [Parser.pure]

theorem rt_measureCal_gen (F : NumFmt) (d : Nat) (id : MeasureCalibrationIdentifier)
    (body : List Instruction) (g : Instruction → Instruction) (hq : noPlaceholder id.qubit = true)
    (hne : body ≠ []) (hbody : ∀ i ∈ body, RT F d i (g i)) :
    RTtopL (lineToks F (.measureCalibrationDefinition id body)) (d + 1)
      (.measureCalibrationDefinition id (body.map g)) :=
  rt_measureCal_blk F d id body g hq hne (blockRT_of_RT F d body g hne hbody)

theorem rt_circuit_gen (F : NumFmt) (d : Nat) (name : String) (ps qvs : List String)
    (body : List Instruction) (g : Instruction → Instruction)
    (hqv : qvs.all (fun s => !isReservedWord s.toList) = true)
    (hne : body ≠ []) (hbody : ∀ i ∈ body, RT F d i (g i)) :
    RTtopL (lineToks F (.circuitDefinition name ps qvs body)) (d + 1)
      (.circuitDefinition name ps qvs (body.map g)) :=
  rt_circuit_blk F d name ps qvs body g hqv hne (blockRT_of_RT F d body g hne hbody)

end QV.C02
