import QV.C02.LemmasSubset
import QV.C02.LemmasDefs
import QV.C02.LemmasCal
/-!
C02 lemmas, part 8 (core Lean only): the subset `blockKind` = the one-line kinds (`lineKind`) and the
definition kinds DEFWAVEFORM / DEFFRAME (`defKind`) — dispatch, "prints as a well-formed block", "prints without
error", "canonical form is the instruction itself".
-/
namespace QV.C02
open QV QV.Tok QV.Ast QV.Parse QV.Print QV.ExprPrint QV.ExprRoundTrip

theorem blockKind_of_lineKind {i : Instruction} (h : lineKind i = true) : blockKind i = true := by
  simp [blockKind, h]

theorem blockKind_cases {i : Instruction} (h : blockKind i = true) : lineKind i = true ∨ defKind i = true := by
  simpa [blockKind] using h

theorem nl_varParams (ps : List String) : Token.newLine ∉ varParamsToks ps := by
  unfold varParamsToks
  split
  · simp
  · simp only [List.mem_cons, List.mem_append, not_or]
    refine ⟨by simp, nl_sepBy _ ?_, by simp⟩
    intro x hx
    simp only [List.mem_map] at hx
    obtain ⟨p, _, rfl⟩ := hx
    simp

theorem nl_attribute (F : NumFmt) (v : AttributeValue) (h : attrNumTok F v = true) :
    Token.newLine ∉ attributeToks F v := by
  cases v with
  | string s => simp [attributeToks, strTok]
  | expression e => exact nl_printTop F e h

theorem flatMap_joinNL {α : Type} (f : α → List Token) (l : List Token) (xs : List α) :
    l ++ xs.flatMap (fun x => Token.newLine :: f x) = joinNL (l :: xs.map f) := by
  induction xs generalizing l with
  | nil => simp [joinNL]
  | cons x xs ih =>
    rw [List.map_cons, joinNL_cons _ _ (by simp), ← ih]
    simp

theorem blockOk_of_defKind (F : NumFmt) (i : Instruction) (hk : defKind i = true)
    (hn : numTokInstr F i = true) : blockOk (toks F i) = true := by
  cases i with
  | waveformDefinition w =>
    simp only [numTokInstr] at hn
    have e : toks F (.waveformDefinition w) = joinNL
        [cmd .defWaveform :: (slashNameToks w.name ++ varParamsToks w.definition.parameters ++ [.colon]),
         .indentation :: sepBy [.comma] (w.definition.matrix.map (printTop F))] := by
      simp [toks, joinNL]
    rw [e]
    apply blockOk_joinNL _ (by simp)
    intro l hl
    simp only [List.mem_cons, List.not_mem_nil, or_false] at hl
    rcases hl with rfl | rfl
    · refine ⟨by simp, ?_⟩
      simp only [List.mem_cons, List.mem_append, not_or, List.not_mem_nil, or_false]
      exact ⟨by simp [cmd], ⟨nl_slashNameAux _ _, nl_varParams _⟩, by simp⟩
    · refine ⟨by simp, ?_⟩
      simp only [List.mem_cons, not_or]
      refine ⟨by simp, nl_sepBy _ ?_⟩
      intro x hx
      simp only [List.mem_map] at hx
      obtain ⟨e, he, rfl⟩ := hx
      exact nl_printTop F e (List.all_eq_true.mp hn e he)
  | frameDefinition f =>
    simp only [numTokInstr] at hn
    have e : toks F (.frameDefinition f) = joinNL
        ((cmd .defFrame :: (frameToks f.identifier ++ [.colon])) ::
          f.attributes.map (fun kv => .indentation :: identTok kv.1 :: .colon :: attributeToks F kv.2)) := by
      rw [← flatMap_joinNL]
      simp [toks]
    rw [e]
    apply blockOk_joinNL _ (by simp)
    intro l hl
    simp only [List.mem_cons, List.mem_map] at hl
    rcases hl with rfl | ⟨kv, hkv, rfl⟩
    · refine ⟨by simp, ?_⟩
      simp only [List.mem_cons, List.mem_append, not_or, List.not_mem_nil, or_false]
      exact ⟨by simp [cmd], nl_frame _, by simp⟩
    · refine ⟨by simp, ?_⟩
      simp only [List.mem_cons, not_or]
      exact ⟨by simp, by simp [identTok], by simp, nl_attribute F kv.2 (by
        have := List.all_eq_true.mp hn kv hkv
        cases hv : kv.2 with
        | string s => rfl
        | expression e => rw [hv] at this; exact this)⟩
  | calibrationDefinition id body =>
    simp only [numTokInstr, Bool.and_eq_true, numTokInstrs_eq_all] at hn
    simp only [defKind] at hk
    have e : toks F (.calibrationDefinition id body) = joinNL
        ((cmd .defCal :: (id.modifiers.map modifierTok ++ identTok id.name ::
            (paramsToks F id.parameters ++ qubitsToks id.qubits ++ [.colon]))) ::
          body.map (fun i => .indentation :: toks F i)) := by
      rw [← flatMap_joinNL]
      simp [toks, calBodyToks_eq]
      rfl
    rw [e]
    apply blockOk_joinNL _ (by simp)
    intro l hl
    simp only [List.mem_cons, List.mem_map] at hl
    rcases hl with rfl | ⟨i, hi, rfl⟩
    · refine ⟨by simp, ?_⟩
      simp only [List.mem_cons, List.mem_append, List.mem_map, not_or, List.not_mem_nil, or_false, not_exists,
        not_and]
      exact ⟨by simp [cmd], fun m _ => by cases m <;> simp [modifierTok], by simp [identTok],
        ⟨nl_params F _ hn.1, nl_qubits _⟩, by simp⟩
    · refine ⟨by simp, ?_⟩
      simp only [List.mem_cons, not_or]
      exact ⟨by simp, noNL_of_lineKind F i (List.all_eq_true.mp hk i hi) (List.all_eq_true.mp hn.2 i hi)⟩
  | _ => simp [defKind] at hk

theorem blockOk_of_blockKind (F : NumFmt) (i : Instruction) (hk : blockKind i = true)
    (hn : numTokInstr F i = true) : blockOk (toks F i) = true := by
  rcases blockKind_cases hk with h | h
  · exact blockOk_of_lineKind F i h hn
  · exact blockOk_of_defKind F i h hn

theorem firstErr_none_of_blockKind (i : Instruction) (hp : parsedInstr i = true) (hk : blockKind i = true) :
    firstErr i = none := by
  rcases blockKind_cases hk with h | h
  · exact firstErr_none_of_lineKind i hp h
  · cases i with
    | waveformDefinition w => rfl
    | frameDefinition f =>
      simp only [parsedInstr, frameOk, Bool.and_eq_true] at hp
      simp [firstErr, frameErr, qubitsErr_none _ hp.1.1.1.2]
    | calibrationDefinition id body =>
      simp only [parsedInstr, Bool.and_eq_true, parsedInstrs_eq_all] at hp
      simp only [defKind] at h
      have hb : firstErrList body = none := firstErrList_none _ (fun i hi =>
        firstErr_none_of_lineKind i (List.all_eq_true.mp hp.2 i hi) (List.all_eq_true.mp h i hi))
      simp [firstErr, firstSome, qubitsErr_none _ hp.1.1.2, hb]
    | _ => simp [defKind] at h

theorem calBodyToks_map_canon (F : NumFmt) (body : List Instruction) (hp : ∀ i ∈ body, parsedInstr i = true)
    (hk : ∀ i ∈ body, lineKind i = true) : calBodyToks F (body.map canonInstr) = calBodyToks F body := by
  induction body with
  | nil => rfl
  | cons i l ih =>
    simp only [List.map_cons, calBodyToks]
    rw [toks_canonInstr F i (hp i (by simp)) (hk i (by simp)),
      ih (fun j hj => hp j (by simp [hj])) (fun j hj => hk j (by simp [hj]))]

theorem firstErrList_map_canon (body : List Instruction) (hk : ∀ i ∈ body, lineKind i = true) :
    firstErrList (body.map canonInstr) = firstErrList body := by
  induction body with
  | nil => rfl
  | cons i l ih =>
    simp only [List.map_cons, firstErrList]
    rw [firstErr_canonInstr i (hk i (by simp)), ih (fun j hj => hk j (by simp [hj]))]

theorem toks_canonInstr' (F : NumFmt) (i : Instruction) (hp : parsedInstr i = true) (hk : blockKind i = true) :
    toks F (canonInstr i) = toks F i := by
  rcases blockKind_cases hk with h | h
  · exact toks_canonInstr F i hp h
  · cases i with
    | calibrationDefinition id body =>
      simp only [parsedInstr, Bool.and_eq_true, parsedInstrs_eq_all] at hp
      simp only [defKind] at h
      simp only [canonInstr, canonInstrs_eq_map, toks]
      rw [calBodyToks_map_canon F body (fun i hi => List.all_eq_true.mp hp.2 i hi)
        (fun i hi => List.all_eq_true.mp h i hi)]
    | waveformDefinition w => rfl
    | frameDefinition f => rfl
    | _ => simp [defKind] at h

theorem firstErr_canonInstr' (i : Instruction) (hk : blockKind i = true) :
    firstErr (canonInstr i) = firstErr i := by
  rcases blockKind_cases hk with h | h
  · exact firstErr_canonInstr i h
  · cases i with
    | calibrationDefinition id body =>
      simp only [defKind] at h
      simp only [canonInstr, canonInstrs_eq_map, firstErr]
      rw [firstErrList_map_canon body (fun i hi => List.all_eq_true.mp h i hi)]
    | waveformDefinition w => rfl
    | frameDefinition f => rfl
    | _ => simp [defKind] at h

theorem programRaw_map_canon' (F : NumFmt) (L : List Instruction) (hp : ∀ i ∈ L, parsedInstr i = true)
    (hk : ∀ i ∈ L, blockKind i = true) : programRaw F (L.map canonInstr) = programRaw F L := by
  induction L with
  | nil => rfl
  | cons i L ih =>
    simp only [programRaw, List.map_cons, List.flatMap_cons] at ih ⊢
    rw [toks_canonInstr' F i (hp i (by simp)) (hk i (by simp)),
      ih (fun j hj => hp j (by simp [hj])) (fun j hj => hk j (by simp [hj]))]

/-- the per-kind lemmas for every proved kind, in the top-level form -/
theorem rt_of_blockKind (F : NumFmt) (d : Nat) (i : Instruction) (hp : parsedInstr i = true)
    (hk : blockKind i = true) (hn : numTokInstr F i = true) (hd : (toks F i).length ≤ d) :
    RTtop F d i (canonInstr i) := by
  rcases blockKind_cases hk with h | h
  · exact (rt_of_lineKind F d i hp h hn hd).top
  · cases i with
    | waveformDefinition w => exact (rt_waveformDefinition F d w hp hn hd).top
    | frameDefinition f => exact rt_frameDefinition F d f hp hn hd
    | calibrationDefinition id body =>
      simp only [defKind] at h
      simp only [canonInstr, canonInstrs_eq_map]
      exact rt_calibrationDefinition F d id body hp h hn hd
    | _ => simp [defKind] at h

end QV.C02
