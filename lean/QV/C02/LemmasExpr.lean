import QV.C02.LemmasKinds
import QV.Shared.ExprRoundTrip
/-!
C02 lemmas, part 7 (core Lean only): expressions.  A parser-produced expression (`parsedExpr`) has finite
literals and is its own normal form, so C03's token-level round trip (`QV.ExprRoundTrip.parse_printTop`,
by the C03 builder) reads it back EXACTLY; the lemmas for parenthesised / comma-separated parameter lists
and for the instruction kinds that end in an expression are built on it.
-/
namespace QV.C02
open QV QV.Tok QV.Ast QV.Parse QV.Print QV.ExprPrint QV.ExprRoundTrip

theorem finiteNonneg_lt {b : Nat} (h : finiteNonneg b = true) : b < 0x7FF0000000000000 := by
  have : b < infBits := by simpa [finiteNonneg] using h
  simpa [infBits] using this

theorem plain_of_finiteNonneg {b : Nat} (h : finiteNonneg b = true) : plainBits b = true := by
  have hb := finiteNonneg_lt h
  have h1 : b < two64 := by simp only [two64]; omega
  have h2 : b % two63 < infBits := by
    simp only [two63, infBits]; omega
  have h3 : b ≠ two63 := by simp only [two63]; omega
  simp [plainBits, h1, h2, h3]

theorem plain_zero : plainBits 0 = true := by decide

theorem fSign_false {b : Nat} (h : b < 0x7FF0000000000000) : fSign b = false := by
  unfold fSign
  have : ¬ two63 ≤ b := by simp only [two63]; omega
  simp [this]

theorem fZero_false {b : Nat} (h : b < 0x7FF0000000000000) (hz : b ≠ 0) : fZero b = false := by
  unfold fZero
  have : b ≠ two63 := by simp only [two63]; omega
  simp [hz, this]

theorem fZero_zero : fZero 0 = true := by decide

theorem numTree_parsedLit (z : CBits) (h : parsedLit z = true) : numTree z = .number z := by
  obtain ⟨re, im⟩ := z
  simp only [parsedLit, Bool.or_eq_true, Bool.and_eq_true, beq_iff_eq] at h
  rcases h with ⟨h0, hf⟩ | ⟨h0, hf⟩
  · have hlt := finiteNonneg_lt hf
    have h0' : im = 0 := h0
    subst h0'
    by_cases hz : re = 0
    · subst hz; simp [numTree, fZero_zero]
    · simp [numTree, fZero_false hlt hz, fSign_false hlt, fZero_zero]
  · have hlt := finiteNonneg_lt hf
    have h0' : re = 0 := h0
    subst h0'
    by_cases hz : im = 0
    · subst hz; simp [numTree, fZero_zero]
    · simp [numTree, fZero_false hlt hz, fSign_false hlt, fZero_zero]

theorem norm_parsedExpr (e : PExpr) (h : parsedExpr e = true) : norm e = e := by
  induction e with
  | address r => rfl
  | call f e ih => simp only [parsedExpr] at h; simp [norm, ih h]
  | bin l o r ihl ihr =>
    simp only [parsedExpr, Bool.and_eq_true] at h
    simp [norm, ihl h.1, ihr h.2]
  | number z => simp only [parsedExpr] at h; simp [norm, numTree_parsedLit z h]
  | pi => rfl
  | pre o e ih =>
    cases o with
    | plus => simp [parsedExpr] at h
    | minus => simp only [parsedExpr] at h; simp [norm, ih h]
  | var x => rfl

theorem finiteLits_parsedExpr (e : PExpr) (h : parsedExpr e = true) : finiteLits e = true := by
  unfold finiteLits
  induction e with
  | address r => rfl
  | call f e ih => simp only [parsedExpr] at h; simp [allLits, ih h]
  | bin l o r ihl ihr =>
    simp only [parsedExpr, Bool.and_eq_true] at h
    simp [allLits, ihl h.1, ihr h.2]
  | number z =>
    simp only [parsedExpr, parsedLit, Bool.or_eq_true, Bool.and_eq_true, beq_iff_eq] at h
    simp only [allLits, Bool.and_eq_true]
    rcases h with ⟨h0, hf⟩ | ⟨h0, hf⟩
    · exact ⟨plain_of_finiteNonneg hf, by rw [h0]; exact plain_zero⟩
    · exact ⟨by rw [h0]; exact plain_zero, plain_of_finiteNonneg hf⟩
  | pi => rfl
  | pre o e ih =>
    cases o with
    | plus => simp [parsedExpr] at h
    | minus => simp only [parsedExpr] at h; simp [allLits, ih h]
  | var x => rfl

/-- **the expression round trip in the form the instruction lemmas use**: a parser-produced expression whose
literals satisfy the NumTok hypothesis is read back exactly by `parse_expression` at any budget larger than
its printed length, whatever admissible tokens follow -/
theorem parseExpr_toks (F : NumFmt) (e : PExpr) (h : parsedExpr e = true) (hn : numTokOk F e = true)
    (d : Nat) (rest : List Token) (hd : (printTop F e).length < d) (he : endOk rest = true) :
    parseExpressionAt d (printTop F e ++ rest) = .ok e rest := by
  have := parseExpressionAt_printTop F e (finiteLits_parsedExpr e h) hn d rest hd he
  rwa [norm_parsedExpr e h] at this

end QV.C02
