import QV.C02.LemmasGate
import QV.C02.LemmasSubset2
/-!
C02 lemmas, part 14 (core Lean only): DEFGATE as a whole — its line tokens, their round trip, "is a block",
"prints without error".
-/
namespace QV.C02
open QV QV.Tok QV.Ast QV.Parse QV.Print QV.ExprPrint QV.ExprRoundTrip

/-- the lines of a specification (without indentation and newline) -/
def specLineList (F : NumFmt) : GateSpecification → List (List Token)
  | .matrix rows => rows.map fun row => sepBy [.comma] (row.map (printTop F))
  | .permutation p => [sepBy [.comma] (p.map fun n => [Token.integer n])]
  | .pauliSum s => s.terms.map (pauliLine F)
  | .sequence s => s.gates.map (gateToks F)

def specLines (F : NumFmt) (spec : GateSpecification) : List Token :=
  (specLineList F spec).flatMap fun l => [Token.newLine] ++ (.indentation :: l)

theorem specToks_eq (F : NumFmt) (spec : GateSpecification) :
    specToks F spec = (specLineList F spec).flatMap fun l => .indentation :: (l ++ [.newLine]) := by
  cases spec with
  | matrix rows => simp [specToks, specLineList, List.flatMap_map]
  | permutation p => simp [specToks, specLineList]
  | pauliSum s =>
    simp only [specToks, specLineList, List.flatMap_map]
    rfl
  | sequence s => simp [specToks, specLineList, List.flatMap_map]

theorem specLineList_ne (F : NumFmt) (spec : GateSpecification) (h : specOk spec = true) :
    specLineList F spec ≠ [] := by
  cases spec with
  | matrix rows => simp only [specOk, Bool.and_eq_true, Bool.not_eq_true', List.isEmpty_eq_false_iff] at h; simp [specLineList, h.1]
  | permutation p => simp [specLineList]
  | pauliSum s => simp only [specOk, Bool.and_eq_true, Bool.not_eq_true', List.isEmpty_eq_false_iff] at h; simp [specLineList, h.1]
  | sequence s => simp only [specOk, Bool.and_eq_true, Bool.not_eq_true', List.isEmpty_eq_false_iff] at h; simp [specLineList, h.1.2]

def gateDefHeader (g : GateDefinition) : List Token :=
  cmd .defGate :: identTok g.name :: (varParamsToks g.parameters ++
    ((specQubitParams g.specification).map identTok ++ [.as, gateTypeTok g.specification, .colon]))

theorem lineToks_gateDefinition (F : NumFmt) (g : GateDefinition) (h : specOk g.specification = true) :
    lineToks F (.gateDefinition g) = gateDefHeader g ++ specLines F g.specification := by
  have hne := specLineList_ne F g.specification h
  have e : toks F (.gateDefinition g) = (gateDefHeader g ++ specLines F g.specification) ++ [.newLine] := by
    cases hl : specLineList F g.specification with
    | nil => exact absurd hl hne
    | cons x xs =>
      have := lines_eq (fun l : List Token => l) x xs
      simp only [toks, gateDefToks, gateDefHeader, specLines, specToks_eq, hl, List.append_assoc, List.cons_append,
        List.nil_append] at this ⊢
      rw [this]
  unfold lineToks
  rw [e, stripNL_snoc]

/-! ## lengths -/

theorem length_line_le (F : NumFmt) (spec : GateSpecification) (l : List Token) (hl : l ∈ specLineList F spec) :
    l.length ≤ (specLines F spec).length := by
  have := length_flatMap_mem (fun l : List Token => [Token.newLine] ++ (.indentation :: l)) _ l hl
  simp only [List.length_append, List.length_cons, List.length_nil] at this
  unfold specLines
  omega

theorem length_header_lines (F : NumFmt) (g : GateDefinition) :
    (specLines F g.specification).length ≤ (gateDefHeader g ++ specLines F g.specification).length := by
  simp only [List.length_append]; omega

/-! ## the round trip -/

theorem rt_gateDefinition (F : NumFmt) (d : Nat) (g : GateDefinition)
    (hp : parsedInstr (.gateDefinition g) = true) (hk : gateSpecKind g.specification = true)
    (hn : numTokInstr F (.gateDefinition g) = true) (hd : (lineToks F (.gateDefinition g)).length ≤ d) :
    RTtopL (lineToks F (.gateDefinition g)) d (.gateDefinition g) := by
  obtain ⟨name, ps, spec⟩ := g
  simp only [parsedInstr] at hp
  simp only [numTokInstr] at hn
  simp only at hk
  rw [lineToks_gateDefinition F _ hp] at hd ⊢
  have hlen : ∀ l ∈ specLineList F spec, l.length ≤ d := by
    intro l hl
    have h1 := length_line_le F spec l hl
    change (gateDefHeader ⟨name, ps, spec⟩ ++ specLines F spec).length ≤ d at hd
    simp only [List.length_append] at hd
    omega
  have hexpr : ∀ e, parsedExpr e = true → numTokOk F e = true → (printTop F e).length ≤ d →
      ∀ r, endOk r = true → parseExpressionAt (d + 1) (printTop F e ++ r) = .ok e r := by
    intro e he hne hl r hr
    have := parseExpressionAt_printTop F e (finiteLits_parsedExpr e he) hne (d + 1) r (by omega) hr
    rwa [norm_parsedExpr e he] at this
  apply rttopL_of_command d _ _ .defGate
    (identTok name :: (varParamsToks ps ++ ((specQubitParams spec).map identTok ++
      .as :: gateTypeTok spec :: .colon :: specLines F spec)))
  · simp [gateDefHeader]
  · intro rest hrest
    simp only [parseCommand, List.append_assoc, List.cons_append]
    apply parseDefgate_of
    cases spec with
    | permutation p =>
      simp only [specOk, Bool.not_eq_true', List.isEmpty_eq_false_iff] at hp
      have := spec_permutation (parseExpressionAt (d + 1)) [] p hp rest
      simpa [specLines, specLineList, typeOf, specQubitParams] using this
    | matrix rows =>
      simp only [specOk, Bool.and_eq_true, Bool.not_eq_true', List.isEmpty_eq_false_iff] at hp
      simp only [gateSpecKind] at hk
      simp only [numTokSpec] at hn
      cases hrows : rows with
      | nil => exact absurd hrows hp.1
      | cons x xs =>
        subst hrows
        have hnum : ∀ row ∈ x :: xs, ∀ e ∈ row, numTokOk F e = true :=
          fun row hrow e he => List.all_eq_true.mp (List.all_eq_true.mp hn row hrow) e he
        have := spec_matrix F (parseExpressionAt (d + 1)) [] x xs
          (fun row hrow => by
            have := List.all_eq_true.mp hk row hrow
            simpa using this)
          hnum
          (fun row hrow e he => hexpr e (List.all_eq_true.mp (List.all_eq_true.mp hp.2 row hrow) e he)
            (hnum row hrow e he) (by
              have h1 := length_sepBy_ge [.comma] (printTop F e) (row.map (printTop F)) (List.mem_map_of_mem he)
              have h2 := hlen (sepBy [.comma] (row.map (printTop F)))
                (by simp only [specLineList, List.mem_map]; exact ⟨row, hrow, rfl⟩)
              omega))
          rest hrest
        simpa [specLines, specLineList, typeOf, specQubitParams, List.flatMap_map] using this
    | pauliSum s =>
      obtain ⟨pargs, terms⟩ := s
      simp only [specOk, Bool.and_eq_true, Bool.not_eq_true', List.isEmpty_eq_false_iff] at hp
      simp only [numTokSpec] at hn
      cases hterms : terms with
      | nil => exact absurd hterms hp.1
      | cons x xs =>
        subst hterms
        have hterm : ∀ t ∈ x :: xs, pauliTermOk pargs t = true := fun t ht => List.all_eq_true.mp hp.2 t ht
        have := spec_pauliSum F (parseExpressionAt (d + 1)) pargs x xs
          (fun t ht => by
            have := hterm t ht
            simp only [pauliTermOk, Bool.and_eq_true, Bool.not_eq_true', List.isEmpty_eq_false_iff] at this
            exact ⟨this.1.1, this.2⟩)
          (fun t ht => by
            have h0 := hterm t ht
            simp only [pauliTermOk, Bool.and_eq_true] at h0
            apply hexpr t.expression h0.1.2 (List.all_eq_true.mp hn t ht)
            have h2 := hlen (pauliLine F t) (by simp only [specLineList, List.mem_map]; exact ⟨t, ht, rfl⟩)
            simp only [pauliLine, List.length_cons, List.length_append] at h2
            omega)
          rest hrest
        simpa [specLines, specLineList, typeOf, specQubitParams, List.flatMap_map] using this
    | sequence s =>
      obtain ⟨sq, gates⟩ := s
      simp only [specOk, Bool.and_eq_true, Bool.not_eq_true', List.isEmpty_eq_false_iff] at hp
      simp only [gateSpecKind] at hk
      simp only [numTokSpec] at hn
      cases hgates : gates with
      | nil => exact absurd hgates hp.1.2
      | cons x xs =>
        subst hgates
        have hg1 : ∀ g ∈ x :: xs, g.parameters.all parsedExpr = true := fun g hg => by
          have := List.all_eq_true.mp hp.2 g hg
          rw [Bool.and_eq_true] at this
          exact this.1
        have hg2 : ∀ g ∈ x :: xs,
            (g.qubits.all fun q => match q with | .variable a => sq.contains a | _ => false) = true :=
          fun g hg => by
            have := List.all_eq_true.mp hp.2 g hg
            rw [Bool.and_eq_true] at this
            exact this.2
        have := spec_sequence F (parseExpressionAt (d + 1)) sq hp.1.1 x xs
          (fun g hg => List.all_eq_true.mp hk g hg) hg2
          (fun g hgm e he => hexpr e (List.all_eq_true.mp (hg1 g hgm) e he)
            (List.all_eq_true.mp (List.all_eq_true.mp hn g hgm) e he) (by
              have h1 := length_paramsToks_ge F g.parameters e he
              have h2 := hlen (gateToks F g) (by simp only [specLineList, List.mem_map]; exact ⟨g, hgm, rfl⟩)
              simp only [gateToks, List.length_append, List.length_cons] at h2
              omega))
          rest hrest
        simpa [specLines, specLineList, typeOf, specQubitParams, List.flatMap_map] using this

/-! ## block shape, errors -/

theorem nl_specLine (F : NumFmt) (spec : GateSpecification) (hn : numTokSpec F spec = true) (l : List Token)
    (hl : l ∈ specLineList F spec) : Token.newLine ∉ l := by
  cases spec with
  | matrix rows =>
    simp only [specLineList, List.mem_map] at hl
    obtain ⟨row, hrow, rfl⟩ := hl
    simp only [numTokSpec] at hn
    apply nl_sepBy
    intro x hx
    simp only [List.mem_map] at hx
    obtain ⟨e, he, rfl⟩ := hx
    exact nl_printTop F e (List.all_eq_true.mp (List.all_eq_true.mp hn row hrow) e he)
  | permutation p =>
    simp only [specLineList, List.mem_cons, List.not_mem_nil, or_false] at hl
    subst hl
    apply nl_sepBy
    intro x hx
    simp only [List.mem_map] at hx
    obtain ⟨n, _, rfl⟩ := hx
    simp
  | pauliSum s =>
    simp only [specLineList, List.mem_map] at hl
    obtain ⟨t, ht, rfl⟩ := hl
    simp only [numTokSpec] at hn
    have := nl_printTop F t.expression (List.all_eq_true.mp hn t ht)
    simp [pauliLine, this, identTok]
  | sequence s =>
    simp only [specLineList, List.mem_map] at hl
    obtain ⟨g, hg, rfl⟩ := hl
    simp only [numTokSpec] at hn
    exact noNL_of_lineKind F (.gate g) rfl (List.all_eq_true.mp hn g hg)

theorem blockOk_gateDefinition (F : NumFmt) (g : GateDefinition) (hp : specOk g.specification = true)
    (hn : numTokSpec F g.specification = true) : blockOk (lineToks F (.gateDefinition g)) = true := by
  rw [lineToks_gateDefinition F g hp]
  have e : gateDefHeader g ++ specLines F g.specification =
      joinNL (gateDefHeader g :: (specLineList F g.specification).map (fun l => .indentation :: l)) := by
    rw [← flatMap_joinNL]; rfl
  rw [e]
  apply blockOk_joinNL _ (by simp)
  intro l hl
  simp only [List.mem_cons, List.mem_map] at hl
  rcases hl with rfl | ⟨l', hl', rfl⟩
  · refine ⟨by simp [gateDefHeader], ?_⟩
    simp only [gateDefHeader, List.mem_cons, List.mem_append, List.mem_map, not_or, List.not_mem_nil, or_false,
      not_exists, not_and]
    refine ⟨by simp [cmd], by simp [identTok], nl_varParams _, fun s _ => by simp [identTok], by simp, ?_, by simp⟩
    cases g.specification <;> simp [gateTypeTok]
  · refine ⟨by simp, ?_⟩
    simp only [List.mem_cons, not_or]
    exact ⟨by simp, nl_specLine F _ hn l' hl'⟩

theorem firstErr_gateDefinition (g : GateDefinition) (hk : gateSpecKind g.specification = true) :
    firstErr (.gateDefinition g) = none := by
  obtain ⟨name, ps, spec⟩ := g
  cases spec with
  | sequence s =>
    simp only [gateSpecKind] at hk
    simp only [firstErr, specErr]
    apply firstSome_none
    intro x hx
    simp only [List.mem_map] at hx
    obtain ⟨g, hg, rfl⟩ := hx
    exact qubitsErr_none _ (List.all_eq_true.mp hk g hg)
  | _ => rfl

theorem lineToks_gateDefinition_head (F : NumFmt) (g : GateDefinition) (hp : specOk g.specification = true) :
    ∃ t r, lineToks F (.gateDefinition g) = t :: r ∧ startTok t = true := by
  rw [lineToks_gateDefinition F g hp]
  exact ⟨_, _, rfl, rfl⟩

end QV.C02
