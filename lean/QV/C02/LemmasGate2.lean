import QV.C02.LemmasGate
import QV.C02.LemmasSubset2
/-!
C02 lemmas, part 14 (core Lean only): DEFGATE as a whole — its line tokens, their round trip, "is a block",
"prints without error".
-/
namespace QV.C02
open QV QV.Tok QV.Ast QV.Parse QV.Print QV.ExprPrint QV.ExprRoundTrip

/-- the lines of a specification (without indentation and newline) -/
def specLineList (F : NumFmt) : GateSpecification → List (List Token)
  | .matrix rows => rows.map fun row => sepBy [.comma] (row.map (printTop F))
  | .permutation p => [sepBy [.comma] (p.map fun n => [Token.integer n])]
  | .pauliSum s => s.terms.map (pauliLine F)
  | .sequence s => s.gates.map (gateToks F)

def specLines (F : NumFmt) (spec : GateSpecification) : List Token :=
  (specLineList F spec).flatMap fun l => [Token.newLine] ++ (.indentation :: l)

theorem specToks_eq (F : NumFmt) (spec : GateSpecification) :
    specToks F spec = (specLineList F spec).flatMap fun l => .indentation :: (l ++ [.newLine]) := by
  cases spec with
  | matrix rows => simp [specToks, specLineList, List.flatMap_map]
  | permutation p => simp [specToks, specLineList]
  | pauliSum s =>
    simp only [specToks, specLineList, List.flatMap_map]
    rfl
  | sequence s => simp [specToks, specLineList, List.flatMap_map]

theorem specLineList_ne (F : NumFmt) (spec : GateSpecification) (h : specOk spec = true) :
    specLineList F spec ≠ [] := by
  cases spec with
  | matrix rows => simp only [specOk, Bool.and_eq_true, Bool.not_eq_true', List.isEmpty_eq_false_iff] at h; simp [specLineList, h.1]
  | permutation p => simp [specLineList]
  | pauliSum s => simp only [specOk, Bool.and_eq_true, Bool.not_eq_true', List.isEmpty_eq_false_iff] at h; simp [specLineList, h.1]
  | sequence s => simp only [specOk, Bool.and_eq_true, Bool.not_eq_true', List.isEmpty_eq_false_iff] at h; simp [specLineList, h.1.2]

def gateDefHeader (g : GateDefinition) : List Token :=
  cmd .defGate :: identTok g.name :: (varParamsToks g.parameters ++
    ((specQubitParams g.specification).map identTok ++ [.as, gateTypeTok g.specification, .colon]))

theorem lineToks_gateDefinition' (F : NumFmt) (g : GateDefinition)
    (hne : specLineList F g.specification ≠ []) :
    lineToks F (.gateDefinition g) = gateDefHeader g ++ specLines F g.specification := by
  have e : toks F (.gateDefinition g) = (gateDefHeader g ++ specLines F g.specification) ++ [.newLine] := by
    cases hl : specLineList F g.specification with
    | nil => exact absurd hl hne
    | cons x xs =>
      have := lines_eq (fun l : List Token => l) x xs
      simp only [toks, gateDefToks, gateDefHeader, specLines, specToks_eq, hl, List.append_assoc, List.cons_append,
        List.nil_append] at this ⊢
      rw [this]
  unfold lineToks
  rw [e, stripNL_snoc]

theorem lineToks_gateDefinition (F : NumFmt) (g : GateDefinition) (h : specOk g.specification = true) :
    lineToks F (.gateDefinition g) = gateDefHeader g ++ specLines F g.specification :=
  lineToks_gateDefinition' F g (specLineList_ne F g.specification h)

/-! ## lengths -/

theorem length_line_le (F : NumFmt) (spec : GateSpecification) (l : List Token) (hl : l ∈ specLineList F spec) :
    l.length ≤ (specLines F spec).length := by
  have := length_flatMap_mem (fun l : List Token => [Token.newLine] ++ (.indentation :: l)) _ l hl
  simp only [List.length_append, List.length_cons, List.length_nil] at this
  unfold specLines
  omega

theorem length_header_lines (F : NumFmt) (g : GateDefinition) :
    (specLines F g.specification).length ≤ (gateDefHeader g ++ specLines F g.specification).length := by
  simp only [List.length_append]; omega

/-! ## the round trip -/

/-- every expression of a specification replaced by its normal form -/
def normSpec : GateSpecification → GateSpecification
  | .matrix rows => .matrix (rows.map (·.map norm))
  | .permutation p => .permutation p
  | .pauliSum s => .pauliSum ⟨s.arguments, s.terms.map fun t => ⟨t.arguments, norm t.expression⟩⟩
  | .sequence s => .sequence ⟨s.qubits, s.gates.map fun g => { g with parameters := g.parameters.map norm }⟩

/-- what the DEFGATE round trip needs of a specification (parsed or API-built): non-empty lists, finite literals,
the constructors' argument checks, no placeholder / reserved-word qubit variables -/
def specApiOk : GateSpecification → Bool
  | .matrix rows => !rows.isEmpty && rows.all fun r => r.all finiteLits
  | .permutation p => !p.isEmpty
  | .pauliSum s =>
    !s.terms.isEmpty && s.terms.all fun t =>
      !t.arguments.isEmpty && finiteLits t.expression && t.arguments.all fun ga => s.arguments.contains ga.2
  | .sequence s =>
    !s.qubits.isEmpty && !s.gates.isEmpty && s.gates.all fun g =>
      g.parameters.all finiteLits && g.qubits.all noPlaceholder && g.qubits.all fun q =>
        match q with
        | .variable a => s.qubits.contains a
        | _ => false

theorem specLineList_ne' (F : NumFmt) (spec : GateSpecification) (h : specApiOk spec = true) :
    specLineList F spec ≠ [] := by
  cases spec with
  | matrix rows => simp only [specApiOk, Bool.and_eq_true, Bool.not_eq_true', List.isEmpty_eq_false_iff] at h; simp [specLineList, h.1]
  | permutation p => simp [specLineList]
  | pauliSum s => simp only [specApiOk, Bool.and_eq_true, Bool.not_eq_true', List.isEmpty_eq_false_iff] at h; simp [specLineList, h.1]
  | sequence s => simp only [specApiOk, Bool.and_eq_true, Bool.not_eq_true', List.isEmpty_eq_false_iff] at h; simp [specLineList, h.1.2]

/-- DEFGATE, API form: every expression is read back as its normal form -/
theorem rt_gateDefinition_norm (F : NumFmt) (d : Nat) (g : GateDefinition)
    (hp : specApiOk g.specification = true)
    (hn : numTokSpec F g.specification = true) (hd : (lineToks F (.gateDefinition g)).length ≤ d) :
    RTtopL (lineToks F (.gateDefinition g)) d (.gateDefinition ⟨g.name, g.parameters, normSpec g.specification⟩) := by
  obtain ⟨name, ps, spec⟩ := g
  simp only at hp hn
  rw [lineToks_gateDefinition' F _ (specLineList_ne' F spec hp)] at hd ⊢
  have hlen : ∀ l ∈ specLineList F spec, l.length ≤ d := by
    intro l hl
    have h1 := length_line_le F spec l hl
    change (gateDefHeader ⟨name, ps, spec⟩ ++ specLines F spec).length ≤ d at hd
    simp only [List.length_append] at hd
    omega
  have hexpr : ∀ e, finiteLits e = true → numTokOk F e = true → (printTop F e).length ≤ d →
      ∀ r, endOk r = true → parseExpressionAt (d + 1) (printTop F e ++ r) = .ok (norm e) r := by
    intro e he hne hl r hr
    exact parseExpressionAt_printTop F e he hne (d + 1) r (by omega) hr
  apply rttopL_of_command d _ _ .defGate
    (identTok name :: (varParamsToks ps ++ ((specQubitParams spec).map identTok ++
      .as :: gateTypeTok spec :: .colon :: specLines F spec)))
  · simp [gateDefHeader]
  · intro rest hrest
    simp only [parseCommand, List.append_assoc, List.cons_append]
    have key : specParser (parseExpressionAt (d + 1)) (specQubitParams spec) (typeOf spec)
        (specLines F spec ++ .newLine :: rest) = .ok (normSpec spec) (.newLine :: rest) := by
      cases spec with
      | permutation p =>
        simp only [specApiOk, Bool.not_eq_true', List.isEmpty_eq_false_iff] at hp
        have := spec_permutation (parseExpressionAt (d + 1)) [] p hp rest
        simpa [specLines, specLineList, typeOf, specQubitParams, normSpec] using this
      | matrix rows =>
        simp only [specApiOk, Bool.and_eq_true, Bool.not_eq_true', List.isEmpty_eq_false_iff] at hp
        simp only [numTokSpec] at hn
        cases hrows : rows with
        | nil => exact absurd hrows hp.1
        | cons x xs =>
          subst hrows
          have hrow : ∀ row ∈ x :: xs, row.all finiteLits = true :=
            fun row hrow => List.all_eq_true.mp hp.2 row hrow
          have hnum : ∀ row ∈ x :: xs, ∀ e ∈ row, numTokOk F e = true :=
            fun row hrow e he => List.all_eq_true.mp (List.all_eq_true.mp hn row hrow) e he
          have := spec_matrix F norm (parseExpressionAt (d + 1)) [] x xs
            (fun r' => by
              simp [parseExpressionAt, parse, parseBody, opt, parsePrefix, parseImmediateValue, parseOperand])
            hnum
            (fun row hrow' e he => hexpr e (List.all_eq_true.mp (hrow row hrow') e he)
              (hnum row hrow' e he) (by
                have h1 := length_sepBy_ge [.comma] (printTop F e) (row.map (printTop F)) (List.mem_map_of_mem he)
                have h2 := hlen (sepBy [.comma] (row.map (printTop F)))
                  (by simp only [specLineList, List.mem_map]; exact ⟨row, hrow', rfl⟩)
                omega))
            rest hrest
          simpa [specLines, specLineList, typeOf, specQubitParams, List.flatMap_map, normSpec] using this
      | pauliSum s =>
        obtain ⟨pargs, terms⟩ := s
        simp only [specApiOk, Bool.and_eq_true, Bool.not_eq_true', List.isEmpty_eq_false_iff] at hp
        simp only [numTokSpec] at hn
        cases hterms : terms with
        | nil => exact absurd hterms hp.1
        | cons x xs =>
          subst hterms
          have hterm : ∀ t ∈ x :: xs, (t.arguments ≠ [] ∧ finiteLits t.expression = true) ∧
              t.arguments.all (fun ga => pargs.contains ga.2) = true := by
            intro t ht
            have := List.all_eq_true.mp hp.2 t ht
            simpa only [Bool.and_eq_true, Bool.not_eq_true', List.isEmpty_eq_false_iff] using this
          have := spec_pauliSum F norm (parseExpressionAt (d + 1)) pargs x xs
            (fun t ht => ⟨(hterm t ht).1.1, (hterm t ht).2⟩)
            (fun t ht => by
              apply hexpr t.expression (hterm t ht).1.2 (List.all_eq_true.mp hn t ht)
              have h2 := hlen (pauliLine F t) (by simp only [specLineList, List.mem_map]; exact ⟨t, ht, rfl⟩)
              simp only [pauliLine, List.length_cons, List.length_append] at h2
              omega)
            rest hrest
          simpa [specLines, specLineList, typeOf, specQubitParams, List.flatMap_map, normSpec] using this
      | sequence s =>
        obtain ⟨sq, gates⟩ := s
        simp only [specApiOk, Bool.and_eq_true, Bool.not_eq_true', List.isEmpty_eq_false_iff] at hp
        simp only [numTokSpec] at hn
        cases hgates : gates with
        | nil => exact absurd hgates hp.1.2
        | cons x xs =>
          subst hgates
          have hg1 : ∀ g ∈ x :: xs, g.parameters.all finiteLits = true := fun g hg => by
            have := List.all_eq_true.mp hp.2 g hg
            rw [Bool.and_eq_true, Bool.and_eq_true] at this
            exact this.1.1
          have hg3 : ∀ g ∈ x :: xs, g.qubits.all noPlaceholder = true := fun g hg => by
            have := List.all_eq_true.mp hp.2 g hg
            rw [Bool.and_eq_true, Bool.and_eq_true] at this
            exact this.1.2
          have hg2 : ∀ g ∈ x :: xs,
              (g.qubits.all fun q => match q with | .variable a => sq.contains a | _ => false) = true :=
            fun g hg => by
              have := List.all_eq_true.mp hp.2 g hg
              rw [Bool.and_eq_true, Bool.and_eq_true] at this
              exact this.2
          have := spec_sequence F norm (parseExpressionAt (d + 1)) sq hp.1.1 x xs hg3 hg2
            (fun g hgm e he => hexpr e (List.all_eq_true.mp (hg1 g hgm) e he)
              (List.all_eq_true.mp (List.all_eq_true.mp hn g hgm) e he) (by
                have h1 := length_paramsToks_ge F g.parameters e he
                have h2 := hlen (gateToks F g) (by simp only [specLineList, List.mem_map]; exact ⟨g, hgm, rfl⟩)
                simp only [gateToks, List.length_append, List.length_cons] at h2
                omega))
            rest hrest
          simpa [specLines, specLineList, typeOf, specQubitParams, List.flatMap_map, normSpec] using this
    have e1 : typeOf (normSpec spec) = typeOf spec := by cases spec <;> rfl
    have e2 : gateTypeTok (normSpec spec) = gateTypeTok spec := by cases spec <;> rfl
    have h := parseDefgate_of (parseExpressionAt (d + 1)) name ps (specQubitParams spec) (normSpec spec)
      (specLines F spec ++ .newLine :: rest) (.newLine :: rest) (by rw [e1]; exact key)
    rw [e2] at h
    exact h

theorem specApiOk_of_parsed (spec : GateSpecification) (hp : specOk spec = true) (hk : gateSpecKind spec = true) :
    specApiOk spec = true := by
  cases spec with
  | matrix rows =>
    simp only [specOk, Bool.and_eq_true] at hp
    simp only [specApiOk, Bool.and_eq_true]
    refine ⟨hp.1, ?_⟩
    rw [List.all_eq_true]
    intro r hr
    rw [List.all_eq_true]
    intro e he
    exact finiteLits_parsedExpr e (List.all_eq_true.mp (List.all_eq_true.mp hp.2 r hr) e he)
  | permutation p => exact hp
  | pauliSum s =>
    simp only [specOk, Bool.and_eq_true] at hp
    simp only [specApiOk, Bool.and_eq_true]
    refine ⟨hp.1, ?_⟩
    rw [List.all_eq_true]
    intro t ht
    have := List.all_eq_true.mp hp.2 t ht
    simp only [pauliTermOk, Bool.and_eq_true] at this
    simp only [Bool.and_eq_true]
    exact ⟨⟨this.1.1, finiteLits_parsedExpr _ this.1.2⟩, this.2⟩
  | sequence s =>
    simp only [specOk, Bool.and_eq_true] at hp
    simp only [gateSpecKind] at hk
    simp only [specApiOk, Bool.and_eq_true]
    refine ⟨hp.1, ?_⟩
    rw [List.all_eq_true]
    intro g hg
    have h1 := List.all_eq_true.mp hp.2 g hg
    rw [Bool.and_eq_true] at h1
    rw [Bool.and_eq_true, Bool.and_eq_true]
    refine ⟨⟨?_, List.all_eq_true.mp hk g hg⟩, h1.2⟩
    rw [List.all_eq_true]
    intro e he
    exact finiteLits_parsedExpr e (List.all_eq_true.mp h1.1 e he)

theorem normSpec_parsed (spec : GateSpecification) (hp : specOk spec = true) : normSpec spec = spec := by
  cases spec with
  | matrix rows =>
    simp only [specOk, Bool.and_eq_true] at hp
    have : rows.map (·.map norm) = rows := by
      have : ∀ l : List (List PExpr), (l.all fun r => r.all parsedExpr) = true → l.map (·.map norm) = l := by
        intro l hl
        induction l with
        | nil => rfl
        | cons r l ih =>
          simp only [List.all_cons, Bool.and_eq_true] at hl
          simp [map_norm_parsed r hl.1, ih hl.2]
      exact this rows hp.2
    simp [normSpec, this]
  | permutation p => rfl
  | pauliSum s =>
    obtain ⟨args, terms⟩ := s
    simp only [specOk, Bool.and_eq_true] at hp
    have : ∀ l : List PauliTerm, (l.all (pauliTermOk args)) = true →
        l.map (fun t => (⟨t.arguments, norm t.expression⟩ : PauliTerm)) = l := by
      intro l hl
      induction l with
      | nil => rfl
      | cons t l ih =>
        simp only [List.all_cons, Bool.and_eq_true] at hl
        have ht := hl.1
        simp only [pauliTermOk, Bool.and_eq_true] at ht
        simp [norm_parsedExpr _ ht.1.2, ih hl.2]
    simp [normSpec, this terms hp.2]
  | sequence s =>
    obtain ⟨sq, gates⟩ := s
    simp only [specOk, Bool.and_eq_true] at hp
    have : ∀ l : List Gate, (∀ g ∈ l, g.parameters.all parsedExpr = true) →
        l.map (fun g => ({ g with parameters := g.parameters.map norm } : Gate)) = l := by
      intro l hl
      induction l with
      | nil => rfl
      | cons g l ih =>
        simp [map_norm_parsed _ (hl g (by simp)), ih (fun g' hg' => hl g' (by simp [hg']))]
    have hall : ∀ g ∈ gates, g.parameters.all parsedExpr = true := fun g hg => by
      have := List.all_eq_true.mp hp.2 g hg
      rw [Bool.and_eq_true] at this
      exact this.1
    simp [normSpec, this gates hall]

theorem rt_gateDefinition (F : NumFmt) (d : Nat) (g : GateDefinition)
    (hp : parsedInstr (.gateDefinition g) = true) (hk : gateSpecKind g.specification = true)
    (hn : numTokInstr F (.gateDefinition g) = true) (hd : (lineToks F (.gateDefinition g)).length ≤ d) :
    RTtopL (lineToks F (.gateDefinition g)) d (.gateDefinition g) := by
  simp only [parsedInstr] at hp
  simp only [numTokInstr] at hn
  have := rt_gateDefinition_norm F d g (specApiOk_of_parsed _ hp hk) hn hd
  rwa [normSpec_parsed _ hp] at this

/-! ## block shape, errors -/

theorem nl_specLine (F : NumFmt) (spec : GateSpecification) (hn : numTokSpec F spec = true) (l : List Token)
    (hl : l ∈ specLineList F spec) : Token.newLine ∉ l := by
  cases spec with
  | matrix rows =>
    simp only [specLineList, List.mem_map] at hl
    obtain ⟨row, hrow, rfl⟩ := hl
    simp only [numTokSpec] at hn
    apply nl_sepBy
    intro x hx
    simp only [List.mem_map] at hx
    obtain ⟨e, he, rfl⟩ := hx
    exact nl_printTop F e (List.all_eq_true.mp (List.all_eq_true.mp hn row hrow) e he)
  | permutation p =>
    simp only [specLineList, List.mem_cons, List.not_mem_nil, or_false] at hl
    subst hl
    apply nl_sepBy
    intro x hx
    simp only [List.mem_map] at hx
    obtain ⟨n, _, rfl⟩ := hx
    simp
  | pauliSum s =>
    simp only [specLineList, List.mem_map] at hl
    obtain ⟨t, ht, rfl⟩ := hl
    simp only [numTokSpec] at hn
    have := nl_printTop F t.expression (List.all_eq_true.mp hn t ht)
    simp [pauliLine, this, identTok]
  | sequence s =>
    simp only [specLineList, List.mem_map] at hl
    obtain ⟨g, hg, rfl⟩ := hl
    simp only [numTokSpec] at hn
    exact noNL_of_lineKind F (.gate g) rfl (List.all_eq_true.mp hn g hg)

theorem blockOk_gateDefinition' (F : NumFmt) (g : GateDefinition) (hp : specLineList F g.specification ≠ [])
    (hn : numTokSpec F g.specification = true) : blockOk (lineToks F (.gateDefinition g)) = true := by
  rw [lineToks_gateDefinition' F g hp]
  have e : gateDefHeader g ++ specLines F g.specification =
      joinNL (gateDefHeader g :: (specLineList F g.specification).map (fun l => .indentation :: l)) := by
    rw [← flatMap_joinNL]; rfl
  rw [e]
  apply blockOk_joinNL _ (by simp)
  intro l hl
  simp only [List.mem_cons, List.mem_map] at hl
  rcases hl with rfl | ⟨l', hl', rfl⟩
  · refine ⟨by simp [gateDefHeader], ?_⟩
    simp only [gateDefHeader, List.mem_cons, List.mem_append, List.mem_map, not_or, List.not_mem_nil, or_false,
      not_exists, not_and]
    refine ⟨by simp [cmd], by simp [identTok], nl_varParams _, fun s _ => by simp [identTok], by simp, ?_, by simp⟩
    cases g.specification <;> simp [gateTypeTok]
  · refine ⟨by simp, ?_⟩
    simp only [List.mem_cons, not_or]
    exact ⟨by simp, nl_specLine F _ hn l' hl'⟩

theorem blockOk_gateDefinition (F : NumFmt) (g : GateDefinition) (hp : specOk g.specification = true)
    (hn : numTokSpec F g.specification = true) : blockOk (lineToks F (.gateDefinition g)) = true :=
  blockOk_gateDefinition' F g (specLineList_ne F _ hp) hn

theorem firstErr_gateDefinition (g : GateDefinition) (hk : gateSpecKind g.specification = true) :
    firstErr (.gateDefinition g) = none := by
  obtain ⟨name, ps, spec⟩ := g
  cases spec with
  | sequence s =>
    simp only [gateSpecKind] at hk
    simp only [firstErr, specErr]
    apply firstSome_none
    intro x hx
    simp only [List.mem_map] at hx
    obtain ⟨g, hg, rfl⟩ := hx
    exact qubitsErr_none _ (List.all_eq_true.mp hk g hg)
  | _ => rfl

theorem lineToks_gateDefinition_head' (F : NumFmt) (g : GateDefinition)
    (hp : specLineList F g.specification ≠ []) :
    ∃ t r, lineToks F (.gateDefinition g) = t :: r ∧ startTok t = true := by
  rw [lineToks_gateDefinition' F g hp]
  exact ⟨_, _, rfl, rfl⟩

theorem lineToks_gateDefinition_head (F : NumFmt) (g : GateDefinition) (hp : specOk g.specification = true) :
    ∃ t r, lineToks F (.gateDefinition g) = t :: r ∧ startTok t = true :=
  lineToks_gateDefinition_head' F g (specLineList_ne F _ hp)

end QV.C02
