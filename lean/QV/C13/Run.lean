import QV.Wire
import QV.Shared.ExprWire
import QV.C13.Model
import QV.C13.Spec
/-! Driver side of the C13 correspondence check.

input  `(c13 e ρ μ σ)`   e: expression, ρ: `(("x" (c re im)) …)`, μ: `(("a" (x… …)) …)`, σ: `(("x" e') …)`
output `(out eval subst evalAfterSubst evalBound refs)` with `eval… = (ok (c re im)) | (err kind)`.
-/
namespace QV.C13
open QV QV.ExprWire

inductive EvalOut where
  | ok : CFloat → EvalOut
  | err : String → EvalOut

def decodeEvalOut : Sexp → Option EvalOut
  | .list [.atom "ok", z] => (decodeC z).map .ok
  | .list [.atom "err", .atom k] => some (.err k)
  | _ => none

def ofExcept : Except EvalError CFloat → EvalOut
  | .ok v => .ok v
  | .error .incomplete => .err "incomplete"
  | .error .numberNotReal => .err "number_not_real"
  | .error .notANumber => .err "not_a_number"

def EvalOut.render : EvalOut → String
  | .ok v => s!"(ok {encodeC v})"
  | .err k => s!"(err {k})"

/-- model value vs implementation value: 0 = different, 1 = within tolerance, 2 = bit-identical -/
def EvalOut.cmp : EvalOut → EvalOut → Nat
  | .ok a, .ok b => if CFloat.bitEq a b then 2 else if CFloat.close CFloat.tolLibm a b then 1 else 0
  | .err _, .err _ => 2   -- which error is reported is not constrained by the property (only success iff supplied)
  | _, _ => 0

/-- two implementation results that must be *the same* (same operations in the same order): equal bits,
NaN matching NaN -/
def EvalOut.same : EvalOut → EvalOut → Bool
  | .ok a, .ok b => CFloat.closeF 0.0 a.1 b.1 && CFloat.closeF 0.0 a.2 b.2
  | .err _, .err _ => true
  | _, _ => false

/-- numeric leaves that `Expression`'s own `PartialEq` (floating_point_eq) identifies: equal bits, both NaN,
or equal as numbers (`+0.0 == -0.0`), per component -/
def leafEquiv (a b : CFloat) : Bool := CFloat.closeF 0.0 a.1 b.1 && CFloat.closeF 0.0 a.2 b.2

/-- "the same numeric leaf" as far as this driver can observe: identical bits per component, or both NaN
(Lean's `Float.toBits` canonicalises NaNs, so NaN payloads/signs are not observable here); the sign of a
zero IS distinguished. -/
def leafSame (a b : CFloat) : Bool :=
  (a.1.toBits == b.1.toBits || (a.1.isNaN && b.1.isNaN)) && (a.2.toBits == b.2.toBits || (a.2.isNaN && b.2.isNaN))

/-- exact tree comparison of a model tree with an implementation tree (as s-expression) -/
def sameTreeS (m : Expr CFloat) (iS : Sexp) : Bool :=
  match decodeExpr iS with
  | some i => m.beqWith leafSame i
  | none => false

def EvalOut.isOk : EvalOut → Bool
  | .ok _ => true
  | .err _ => false

/-! ### `(c13iter e)`: the iterator consumed through every std route -/

/-- the three primitive ways of getting at the references after `j` calls of `next` -/
structure View where
  len : Nat
  /-- the items the first `j` calls of `next` yield -/
  firstN : Nat → List MemRef
  /-- the rest, consumed by repeated `next` -/
  restCollect : Nat → List MemRef
  /-- the rest, consumed by `fold` -/
  restFold : Nat → List MemRef

/-- the model's stack machine -/
def modelView (e : Expr CFloat) : View :=
  { len := (memoryReferences e).length
    firstN := fun j => (nextN j [e]).1
    restCollect := fun j => drain (nextN j [e]).2
    restFold := fun j => (foldFrom (fun acc r => r :: acc) [] (nextN j [e]).2).reverse }

/-- the specification: the recursive listing -/
def specView (e : Expr CFloat) : View :=
  let l := e.addrs
  { len := l.length, firstN := l.take, restCollect := l.drop, restFold := l.drop }

def refsS (l : List MemRef) : Sexp := .list (l.map encodeMemRef)
def optRefS : Option MemRef → Sexp
  | some r => .list [.atom "some", encodeMemRef r]
  | none => .list [.atom "none"]
def optNatS : Option Nat → Sexp
  | some n => .list [.atom "some", .atom (toString n)]
  | none => .list [.atom "none"]
def natS (n : Nat) : Sexp := .atom (toString n)

/-- `max_by_key(index)`: the LAST maximal element; `min_by_key(index)`: the FIRST minimal element -/
def maxByIndex (l : List MemRef) : Option MemRef :=
  l.foldl (fun acc r => match acc with
    | none => some r
    | some a => if a.index > r.index then some a else some r) none
def minByIndex (l : List MemRef) : Option MemRef :=
  l.foldl (fun acc r => match acc with
    | none => some r
    | some a => if a.index > r.index then some r else some a) none
def maxIndex (l : List MemRef) : Option Nat := (maxByIndex l).map (·.index)

def everyOther : List MemRef → List MemRef
  | a :: _ :: rest => a :: everyOther rest
  | l => l

/-- same k's as `route_ks` in the harness -/
def routeKs (len : Nat) : List Nat :=
  let base := List.range (min (len + 1) 10 + 1)
  [len - 1, len, len + 1].foldl (fun ks k => if ks.contains k then ks else ks ++ [k]) base

/-- the expected routes, in the harness's order; payload `none` = "checked by a predicate" (size_hint) -/
def expectedRoutes (v : View) : List (String × Nat × Option Sexp) :=
  let nf (j : Nat) := (v.restCollect j).take 1 ++ v.restFold (j + 1)   -- one `next`, then `fold`
  let all := v.restCollect 0
  [("collect", 0, some (refsS all)),
   ("nextloop", 0, some (refsS all)),
   ("fused", 0, some (.atom "true")),
   ("for_each", 0, some (refsS (v.restFold 0))),
   ("fold", 0, some (refsS (v.restFold 0))),
   ("count", 0, some (natS (v.restFold 0).length)),
   ("last", 0, some (optRefS (v.restFold 0).getLast?)),
   ("step_by", 0, some (refsS (everyOther all))),
   ("max_by_key", 0, some (optRefS (maxByIndex (nf 0)))),
   ("min_by_key", 0, some (optRefS (minByIndex (nf 0)))),
   ("reduce", 0, some (optRefS (nf 0).getLast?)),
   ("max_index", 0, some (optNatS (maxIndex (nf 0)))),
   ("sum_index", 0, some (natS ((v.restFold 0).foldl (fun s r => s + r.index % 1000) 0))),
   ("peek_pairs", 0, some (.list (all.map (fun r => .list [optRefS (some r), optRefS (some r)]) ++
      [.list [optRefS none, optRefS none]])))] ++
  (routeKs v.len).flatMap fun k =>
    [("nth", k, some (optRefS (v.firstN (k + 1))[k]?)),
     ("skip", k, some (refsS (v.restCollect k))),
     ("take_rest", k, some (.list [refsS (v.firstN k), refsS (v.restCollect k)])),
     ("after_for_each", k, some (refsS (v.restFold k))),
     ("after_fold", k, some (refsS (v.restFold k))),
     ("after_count", k, some (natS (v.restFold k).length)),
     ("after_collect", k, some (refsS (v.restCollect k))),
     ("after_last", k, some (optRefS (v.restFold k).getLast?)),
     ("after_peek_fold", k, some (.list [optRefS (v.restCollect k).head?, refsS (nf k)])),
     ("after_clone", k, some (.list [refsS (v.restCollect k), refsS (v.restFold k)])),
     ("after_max_index", k, some (optNatS (maxIndex (nf k)))),
     ("after_skip1", k, some (refsS (v.restCollect (k + 1)))),
     ("size_hint", k, none)]

/-- names of the routes on which the implementation's output differs from the expectation -/
def routeMismatches (v : View) (impl : List Sexp) : List String :=
  let exp := expectedRoutes v
  let rec go : List (String × Nat × Option Sexp) → List Sexp → List String
    | [], [] => []
    | (n, k, p) :: es, i :: is =>
      let ok := match i, p with
        | .list [.atom n', .atom k', payload], some p => n' == n && k' == toString k && payload == p
        | .list [.atom n', .atom k', .list [.atom lo, hi]], none =>
          -- size_hint: lower ≤ remaining ≤ upper (if any)
          n' == n && k' == toString k &&
          (match lo.toNat? with
           | some lo => decide (lo ≤ v.len - k) &&
              (match hi with
               | .list [.atom "some", .atom h] => (match h.toNat? with | some h => decide (v.len - k ≤ h) | none => false)
               | .list [.atom "none"] => true
               | _ => false)
           | none => false)
        | _, _ => false
      (if ok then [] else [s!"{n}@{k}"]) ++ go es is
    | es, is => [s!"route-count(expected {es.length} more, got {is.length} more)"]
  go exp impl

def handleIter (inp out : Sexp) (eS : Sexp) : CaseResult :=
  match decodeExpr eS with
  | none => .bad s!"undecodable input {inp}"
  | some e =>
    match out with
    | .list (.atom "routes" :: impl) =>
      let mm := routeMismatches (modelView e) impl
      let sm := routeMismatches (specView e) impl
      { agree := mm.isEmpty, specOk := sm.isEmpty, nontrivial := !e.addrs.isEmpty,
        tags := ["iter", s!"iter-refs{min e.addrs.length 6}"] ++ shapeTags e ++
          (sm.map fun m => "iter-miss-" ++ ((m.splitOn "@").headD m)).eraseDups,
        detail := s!"routes differing from the model: {mm}; from the recursive listing: {sm}; listing={refsS e.addrs}" }
    | _ => { agree := false, specOk := false, nontrivial := true, tags := ["impl-crash-or-undecodable"],
             detail := s!"impl={out}" }

/-! ### `(c13seq …)`, `(c13instr …)`, `(c13text …)`: sequences, instruction-level and text routes -/

def exprEqS (m : Expr CFloat) (i : Sexp) : Bool := sameTreeS m i

/-- differs from the model only in what `ArcIntern`'s coarse equality can merge (known finding) -/
def onlyInternDiff (m : Expr CFloat) (iS : Sexp) : Bool :=
  match decodeExpr iS with
  | some i => !(exprEqS m iS) && m.beqWith leafEquiv i
  | none => false

def handleSeq (inp out : Sexp) : CaseResult :=
  match inp with
  | .list [.atom "c13seq", eS, ρS, μS, σ1S, σ2S] =>
    match decodeExpr eS, decodeVarEnv ρS, decodeMemEnv μS, decodeAssoc decodeExpr σ1S, decodeAssoc decodeExpr σ2S with
    | some e, some ρl, some μl, some σ1l, some σ2l =>
      match out with
      | .list [.atom "seq", twiceS, twiceValS, beforeS, afterS, eAgainS, simpS, simpSubstS, firstAgainS, firstS] =>
        match decodeEvalOut twiceValS, decodeEvalOut beforeS, decodeEvalOut afterS, decodeExpr simpS, decodeExpr twiceS with
        | some iTwiceVal, some iBefore, some iAfter, some iSimp, some iTwice =>
          let ρ : VarEnv CFloat := lookupFn ρl
          let μ : MemEnv CFloat := lookupFn μl
          let σ1 : String → Option (Expr CFloat) := lookupFn σ1l
          let σ2 : String → Option (Expr CFloat) := lookupFn σ2l
          let mFirst := subst σ1 e
          let mTwice := subst σ2 mFirst
          let mTwiceVal := ofExcept (eval ρ μ mTwice)
          let mEval := ofExcept (eval ρ μ e)
          let mSimpSubst := subst σ1 iSimp      -- substitution into the implementation's simplified tree
          let a1 := exprEqS mTwice twiceS
          let a2 : Bool := decide (mTwiceVal.cmp iTwiceVal > 0)
          let a3 : Bool := decide (mEval.cmp iBefore > 0) && decide (mEval.cmp iAfter > 0)
          let a4 := exprEqS e eAgainS
          let a5 := exprEqS mSimpSubst simpSubstS
          let a6 := exprEqS mFirst firstS && exprEqS mFirst firstAgainS
          let agree := a1 && a2 && a3 && a4 && a5 && a6
          let kf := !agree && a3 && a4 &&
            (a1 || onlyInternDiff mTwice twiceS) && (a5 || onlyInternDiff mSimpSubst simpSubstS) &&
            (a6 || (onlyInternDiff mFirst firstS && onlyInternDiff mFirst firstAgainS)) &&
            (ofExcept (eval ρ μ iTwice)).cmp iTwiceVal > 0
          -- spec on the implementation's outputs
          let numeric (l : List (String × Expr CFloat)) := l.all fun (_, t) => match t with | .number _ => true | _ => false
          let s1 := iBefore.same iAfter                         -- evaluation does not depend on the calls in between
          let s2 := eAgainS == eS                               -- the expression itself is never changed
          let s3 := firstS == firstAgainS                       -- substituting twice with the same map: same tree
          let s4 := !(numeric σ1l && numeric σ2l) ||
            (iTwice.vars == e.vars.filter (fun x => (σ1 x).isNone && (σ2 x).isNone) && iTwice.addrs == e.addrs)
          let specOk := s1 && s2 && s3 && s4
          { agree := agree, specOk := specOk, nontrivial := !e.vars.isEmpty,
            tags := ["seq", if numeric σ1l && numeric σ2l then "seq-num" else "seq-expr"] ++
              (if kf then ["kf:C13/interning-merges-signed-zero"] else []),
            detail := s!"agree[twice={a1} twiceVal={a2} evals={a3} unchanged={a4} simpSubst={a5} first={a6}] " ++
              s!"spec[stable-eval={s1} unchanged={s2} deterministic={s3} leftover={s4}] model twice={encodeExpr mTwice} " ++
              s!"val={mTwiceVal.render} | impl={out}" }
        | _, _, _, _, _ => { agree := false, specOk := false, nontrivial := true, tags := ["impl-crash-or-undecodable"], detail := s!"impl={out}" }
      | _ => { agree := false, specOk := false, nontrivial := true, tags := ["impl-crash-or-undecodable"], detail := s!"impl={out}" }
    | _, _, _, _, _ => .bad s!"undecodable input {inp}"
  | _ => .bad s!"undecodable input {inp}"

/-- sorted, duplicate-free (what a `HashSet<String>` is after the harness sorted it) -/
def sortedNames (l : List String) : List String :=
  let ins (acc : List String) (x : String) : List String :=
    let rec go : List String → List String
      | [] => [x]
      | y :: ys => if x == y then y :: ys else if x < y then x :: y :: ys else y :: go ys
    go acc
  l.foldl ins []

def handleInstr (inp out : Sexp) (e1S e2S : Sexp) : CaseResult :=
  match decodeExpr e1S, decodeExpr e2S with
  | some e1, some e2 =>
    match out with
    | .list (.atom "instr" :: items) =>
      let namesS (l : List MemRef) : Sexp := .list ((sortedNames (l.map (·.name))).map .str)
      let check (one both : List MemRef) : List String :=
        items.filterMap fun it => match it with
          | .list [.atom "single", .atom n, got] => if got == namesS one then none else some n
          | .list [.atom "double", .atom n, got] => if got == namesS both then none else some n
          | .list [.atom "wf_collect", got] => if got == refsS both then none else some "wf_collect"
          | .list [.atom "wf_count", got] => if got == natS both.length then none else some "wf_count"
          | .list [.atom "wf_for_each", got] => if got == refsS both then none else some "wf_for_each"
          | .list [.atom "wf_next_for_each", got] => if got == refsS both then none else some "wf_next_for_each"
          | _ => some "undecodable"
      let mm := check (memoryReferences e1) (memoryReferences e1 ++ memoryReferences e2)
      let sm := check e1.addrs (e1.addrs ++ e2.addrs)
      { agree := mm.isEmpty && items.length == 14, specOk := sm.isEmpty && items.length == 14,
        nontrivial := !e1.addrs.isEmpty || !e2.addrs.isEmpty,
        tags := ["instr", s!"instr-refs{min (e1.addrs.length + e2.addrs.length) 6}"] ++ sm.map ("instr-miss-" ++ ·),
        detail := s!"instruction-level routes differing from the model: {mm}; from the listing: {sm}; impl={out}" }
    | _ => { agree := false, specOk := false, nontrivial := true, tags := ["impl-crash-or-undecodable"], detail := s!"impl={out}" }
  | _, _ => .bad s!"undecodable input {inp}"

/-- region names the API accepts but the text syntax reserves (data-type keywords): `MemoryReference::from_str`
may reject their printed form -/
def reservedRegionName (n : String) : Bool := ["BIT", "OCTET", "INTEGER", "REAL"].contains n

def handleText (inp out : Sexp) (eS : Sexp) : CaseResult :=
  match decodeExpr eS with
  | none => .bad s!"undecodable input {inp}"
  | some e =>
    match out with
    | .list [.atom "text", .list rounds, reparsed] =>
      let refs := e.addrs
      let roundOk := rounds.length == refs.length &&
        (rounds.zip refs).all fun (got, r) => match got with
          | .list [.atom "ok", back, .atom same] => back == encodeMemRef r && same == "true"
          | .list [.atom "err", _] => reservedRegionName r.name
          | _ => false
      let reparseOk := match reparsed with
        | .list [.atom "refs", got] => got == refsS refs
        | .list [.atom "na", _] => true
        | _ => false
      let ok := roundOk && reparseOk
      { agree := ok && memoryReferences e == refs, specOk := ok, nontrivial := !refs.isEmpty,
        tags := ["text", match reparsed with | .list [.atom "refs", _] => "text-reparsed" | _ => "text-na"] ++
          (if rounds.any (fun g => match g with | .list [.atom "err", _] => true | _ => false) then ["text-reserved-name"] else []),
        detail := s!"round-trip ok={roundOk} reparse ok={reparseOk} listing={refsS refs} impl={out}" }
    | _ => { agree := false, specOk := false, nontrivial := true, tags := ["impl-crash-or-undecodable"], detail := s!"impl={out}" }

def handle (inp out : Sexp) : CaseResult :=
  match inp with
  | .list [.atom "c13iter", eS] => handleIter inp out eS
  | .list (.atom "c13seq" :: _) => handleSeq inp out
  | .list [.atom "c13instr", e1S, e2S] => handleInstr inp out e1S e2S
  | .list [.atom "c13text", eS] => handleText inp out eS
  | .list [.atom "c13", eS, ρS, μS, σS] =>
    match decodeExpr eS, decodeVarEnv ρS, decodeMemEnv μS, decodeAssoc decodeExpr σS with
    | some e, some ρl, some μl, some σl =>
      match out with
      | .list [.atom "out", o1, o2, o3, o4, .list refsS] =>
        match decodeEvalOut o1, decodeExpr o2, decodeEvalOut o3, decodeEvalOut o4, decodeAll decodeMemRef refsS with
        | some iEval, some iSubst, some iAfter, some iBound, some iRefs =>
          let ρ : VarEnv CFloat := lookupFn ρl
          let μ : MemEnv CFloat := lookupFn μl
          let σ : String → Option (Expr CFloat) := lookupFn σl
          -- the model
          let mEval := ofExcept (eval ρ μ e)
          let mSubst := subst σ e
          let mAfter := ofExcept (eval ρ μ mSubst)
          let bound : VarEnv CFloat := fun x => match σ x with
            | some t => (eval ρ μ t).toOption
            | none => ρ x
          let mBound := ofExcept (eval bound μ e)
          let mRefs := memoryReferences e
          let c1 := mEval.cmp iEval
          let c3 := mAfter.cmp iAfter
          let c4 := mBound.cmp iBound
          let substAgree := mSubst.beqWith leafSame iSubst
          let refsAgree := mRefs == iRefs
          let agree := c1 > 0 && c3 > 0 && c4 > 0 && substAgree && refsAgree
          -- known-finding classifier `C13/interning-merges-signed-zero` (as narrow as the cause): the
          -- implementation's substituted tree differs from the model's ONLY in the sign of zero components /
          -- NaN payloads of numeric leaves (what `ArcIntern`'s coarse equality can merge), and the
          -- implementation's evaluation is exactly the model's evaluation of that altered tree.
          let kfIntern := !substAgree && mSubst.beqWith leafEquiv iSubst &&
            (ofExcept (eval ρ μ iSubst)).cmp iAfter > 0 && c1 > 0 && c4 > 0 && refsAgree
          -- the specification, evaluated on the implementation's outputs
          let numeric := σl.all fun (_, t) => match t with | .number _ => true | _ => false
          let s1 := iAfter.same iBound                                   -- substitute-then-evaluate = evaluate bound
          let s2 := iRefs == e.addrs                                     -- reported = occurring, in order
          let s3 := iEval.isOk == suppliedB (fun x => (ρ x).isSome) (fun n => (μ n).map List.length) e
          let s4 := !numeric ||                                          -- what substitution leaves
            (iSubst.vars == e.vars.filter (fun x => (σ x).isNone) && iSubst.addrs == e.addrs)
          -- the KIND of a reported error is not constrained by the property (s3 fixes when an error occurs);
          -- it is only recorded as a tag
          let s5 := [iEval, iAfter, iBound].all fun r => match r with
            | .err k => k == "incomplete"
            | .ok _ => true
          let specOk := s1 && s2 && s3 && s4
          let missing : List String :=
            (if e.vars.any (fun x => (ρ x).isNone) then ["miss-var"] else []) ++
            (if e.addrs.any (fun a => (μ a.name).isNone) then ["miss-region"] else []) ++
            (if e.addrs.any (fun a => match μ a.name with | some vs => decide (vs.length ≤ a.index) | none => false)
              then ["miss-index"] else [])
          let tags :=
            shapeTags e ++ missing ++
            [if iEval.isOk then "eval-ok" else "eval-err",
             if iAfter.isOk then "after-ok" else "after-err",
             if σl.isEmpty then "sigma-empty" else if numeric then "sigma-num" else "sigma-expr",
             if e.vars.any (fun x => (σ x).isSome) then "subst-hit" else "subst-miss",
             s!"refs{min iRefs.length 4}",
             if c1 == 2 && c3 == 2 && c4 == 2 then "val-bitexact" else "val-close"] ++
            (if kfIntern then ["kf:C13/interning-merges-signed-zero"] else [])
          { agree := agree, specOk := specOk,
            nontrivial := !e.vars.isEmpty || !e.addrs.isEmpty,
            tags := tags,
            detail := s!"spec[subst-eval={s1} refs={s2} ok-iff-supplied={s3} leftover={s4} errkind={s5}] " ++
              s!"model: eval={mEval.render} subst={encodeExpr mSubst} after={mAfter.render} bound={mBound.render} " ++
              s!"refs={mRefs.map encodeMemRef} | impl={out}" }
        | _, _, _, _, _ =>
          -- a crash or an undecodable output: the model never crashes
          { agree := false, specOk := false, nontrivial := true, tags := ["impl-crash-or-undecodable"],
            detail := s!"impl={out}" }
      | _ => { agree := false, specOk := false, nontrivial := true, tags := ["impl-crash-or-undecodable"],
               detail := s!"impl={out}" }
    | _, _, _, _ => .bad s!"undecodable input {inp}"
  | _ => .bad s!"undecodable input {inp}"

end QV.C13

def main : IO UInt32 := QV.runMain QV.C13.handle
