import QV.Wire
import QV.Shared.ExprWire
import QV.C13.Model
import QV.C13.Spec
/-! Driver side of the C13 correspondence check.

input  `(c13 e ρ μ σ)`   e: expression, ρ: `(("x" (c re im)) …)`, μ: `(("a" (x… …)) …)`, σ: `(("x" e') …)`
output `(out eval subst evalAfterSubst evalBound refs)` with `eval… = (ok (c re im)) | (err kind)`.
-/
namespace QV.C13
open QV QV.ExprWire

inductive EvalOut where
  | ok : CFloat → EvalOut
  | err : String → EvalOut

def decodeEvalOut : Sexp → Option EvalOut
  | .list [.atom "ok", z] => (decodeC z).map .ok
  | .list [.atom "err", .atom k] => some (.err k)
  | _ => none

def ofExcept : Except EvalError CFloat → EvalOut
  | .ok v => .ok v
  | .error .incomplete => .err "incomplete"
  | .error .numberNotReal => .err "number_not_real"
  | .error .notANumber => .err "not_a_number"

def EvalOut.render : EvalOut → String
  | .ok v => s!"(ok {encodeC v})"
  | .err k => s!"(err {k})"

/-- model value vs implementation value: 0 = different, 1 = within tolerance, 2 = bit-identical -/
def EvalOut.cmp : EvalOut → EvalOut → Nat
  | .ok a, .ok b => if CFloat.bitEq a b then 2 else if CFloat.close CFloat.tolLibm a b then 1 else 0
  | .err a, .err b => if a == b then 2 else 0
  | _, _ => 0

/-- two implementation results that must be *the same* (same operations in the same order): equal bits,
NaN matching NaN -/
def EvalOut.same : EvalOut → EvalOut → Bool
  | .ok a, .ok b => CFloat.closeF 0.0 a.1 b.1 && CFloat.closeF 0.0 a.2 b.2
  | .err a, .err b => a == b
  | _, _ => false

/-- numeric leaves that `Expression`'s own `PartialEq` (floating_point_eq) identifies: equal bits, both NaN,
or equal as numbers (`+0.0 == -0.0`), per component -/
def leafEquiv (a b : CFloat) : Bool := CFloat.closeF 0.0 a.1 b.1 && CFloat.closeF 0.0 a.2 b.2

def EvalOut.isOk : EvalOut → Bool
  | .ok _ => true
  | .err _ => false

/-! ### `(c13iter e)`: the iterator consumed through every std route -/

/-- the three primitive ways of getting at the references after `j` calls of `next` -/
structure View where
  len : Nat
  /-- the items the first `j` calls of `next` yield -/
  firstN : Nat → List MemRef
  /-- the rest, consumed by repeated `next` -/
  restCollect : Nat → List MemRef
  /-- the rest, consumed by `fold` -/
  restFold : Nat → List MemRef

/-- the model's stack machine -/
def modelView (e : Expr CFloat) : View :=
  { len := (memoryReferences e).length
    firstN := fun j => (nextN j [e]).1
    restCollect := fun j => drain (nextN j [e]).2
    restFold := fun j => (foldFrom (fun acc r => r :: acc) [] (nextN j [e]).2).reverse }

/-- the specification: the recursive listing -/
def specView (e : Expr CFloat) : View :=
  let l := e.addrs
  { len := l.length, firstN := l.take, restCollect := l.drop, restFold := l.drop }

def refsS (l : List MemRef) : Sexp := .list (l.map encodeMemRef)
def optRefS : Option MemRef → Sexp
  | some r => .list [.atom "some", encodeMemRef r]
  | none => .list [.atom "none"]
def optNatS : Option Nat → Sexp
  | some n => .list [.atom "some", .atom (toString n)]
  | none => .list [.atom "none"]
def natS (n : Nat) : Sexp := .atom (toString n)

/-- `max_by_key(index)`: the LAST maximal element; `min_by_key(index)`: the FIRST minimal element -/
def maxByIndex (l : List MemRef) : Option MemRef :=
  l.foldl (fun acc r => match acc with
    | none => some r
    | some a => if a.index > r.index then some a else some r) none
def minByIndex (l : List MemRef) : Option MemRef :=
  l.foldl (fun acc r => match acc with
    | none => some r
    | some a => if a.index > r.index then some r else some a) none
def maxIndex (l : List MemRef) : Option Nat := (maxByIndex l).map (·.index)

def everyOther : List MemRef → List MemRef
  | a :: _ :: rest => a :: everyOther rest
  | l => l

/-- same k's as `route_ks` in the harness -/
def routeKs (len : Nat) : List Nat :=
  let base := List.range (min (len + 1) 10 + 1)
  [len - 1, len, len + 1].foldl (fun ks k => if ks.contains k then ks else ks ++ [k]) base

/-- the expected routes, in the harness's order; payload `none` = "checked by a predicate" (size_hint) -/
def expectedRoutes (v : View) : List (String × Nat × Option Sexp) :=
  let nf (j : Nat) := (v.restCollect j).take 1 ++ v.restFold (j + 1)   -- one `next`, then `fold`
  let all := v.restCollect 0
  [("collect", 0, some (refsS all)),
   ("nextloop", 0, some (refsS all)),
   ("fused", 0, some (.atom "true")),
   ("for_each", 0, some (refsS (v.restFold 0))),
   ("fold", 0, some (refsS (v.restFold 0))),
   ("count", 0, some (natS (v.restFold 0).length)),
   ("last", 0, some (optRefS (v.restFold 0).getLast?)),
   ("step_by", 0, some (refsS (everyOther all))),
   ("max_by_key", 0, some (optRefS (maxByIndex (nf 0)))),
   ("min_by_key", 0, some (optRefS (minByIndex (nf 0)))),
   ("reduce", 0, some (optRefS (nf 0).getLast?)),
   ("max_index", 0, some (optNatS (maxIndex (nf 0)))),
   ("sum_index", 0, some (natS ((v.restFold 0).foldl (fun s r => s + r.index % 1000) 0))),
   ("peek_pairs", 0, some (.list (all.map (fun r => .list [optRefS (some r), optRefS (some r)]) ++
      [.list [optRefS none, optRefS none]])))] ++
  (routeKs v.len).flatMap fun k =>
    [("nth", k, some (optRefS (v.firstN (k + 1))[k]?)),
     ("skip", k, some (refsS (v.restCollect k))),
     ("take_rest", k, some (.list [refsS (v.firstN k), refsS (v.restCollect k)])),
     ("after_for_each", k, some (refsS (v.restFold k))),
     ("after_fold", k, some (refsS (v.restFold k))),
     ("after_count", k, some (natS (v.restFold k).length)),
     ("after_collect", k, some (refsS (v.restCollect k))),
     ("after_last", k, some (optRefS (v.restFold k).getLast?)),
     ("after_peek_fold", k, some (.list [optRefS (v.restCollect k).head?, refsS (nf k)])),
     ("after_clone", k, some (.list [refsS (v.restCollect k), refsS (v.restFold k)])),
     ("after_max_index", k, some (optNatS (maxIndex (nf k)))),
     ("after_skip1", k, some (refsS (v.restCollect (k + 1)))),
     ("size_hint", k, none)]

/-- names of the routes on which the implementation's output differs from the expectation -/
def routeMismatches (v : View) (impl : List Sexp) : List String :=
  let exp := expectedRoutes v
  let rec go : List (String × Nat × Option Sexp) → List Sexp → List String
    | [], [] => []
    | (n, k, p) :: es, i :: is =>
      let ok := match i, p with
        | .list [.atom n', .atom k', payload], some p => n' == n && k' == toString k && payload == p
        | .list [.atom n', .atom k', .list [.atom lo, hi]], none =>
          -- size_hint: lower ≤ remaining ≤ upper (if any)
          n' == n && k' == toString k &&
          (match lo.toNat? with
           | some lo => decide (lo ≤ v.len - k) &&
              (match hi with
               | .list [.atom "some", .atom h] => (match h.toNat? with | some h => decide (v.len - k ≤ h) | none => false)
               | .list [.atom "none"] => true
               | _ => false)
           | none => false)
        | _, _ => false
      (if ok then [] else [s!"{n}@{k}"]) ++ go es is
    | es, is => [s!"route-count(expected {es.length} more, got {is.length} more)"]
  go exp impl

def handleIter (inp out : Sexp) (eS : Sexp) : CaseResult :=
  match decodeExpr eS with
  | none => .bad s!"undecodable input {inp}"
  | some e =>
    match out with
    | .list (.atom "routes" :: impl) =>
      let mm := routeMismatches (modelView e) impl
      let sm := routeMismatches (specView e) impl
      { agree := mm.isEmpty, specOk := sm.isEmpty, nontrivial := !e.addrs.isEmpty,
        tags := ["iter", s!"iter-refs{min e.addrs.length 6}"] ++ shapeTags e ++
          (sm.map fun m => "iter-miss-" ++ ((m.splitOn "@").headD m)).eraseDups,
        detail := s!"routes differing from the model: {mm}; from the recursive listing: {sm}; listing={refsS e.addrs}" }
    | _ => { agree := false, specOk := false, nontrivial := true, tags := ["impl-crash-or-undecodable"],
             detail := s!"impl={out}" }

def handle (inp out : Sexp) : CaseResult :=
  match inp with
  | .list [.atom "c13iter", eS] => handleIter inp out eS
  | .list [.atom "c13", eS, ρS, μS, σS] =>
    match decodeExpr eS, decodeVarEnv ρS, decodeMemEnv μS, decodeAssoc decodeExpr σS with
    | some e, some ρl, some μl, some σl =>
      match out with
      | .list [.atom "out", o1, o2, o3, o4, .list refsS] =>
        match decodeEvalOut o1, decodeExpr o2, decodeEvalOut o3, decodeEvalOut o4, decodeAll decodeMemRef refsS with
        | some iEval, some iSubst, some iAfter, some iBound, some iRefs =>
          let ρ : VarEnv CFloat := lookupFn ρl
          let μ : MemEnv CFloat := lookupFn μl
          let σ : String → Option (Expr CFloat) := lookupFn σl
          -- the model
          let mEval := ofExcept (eval ρ μ e)
          let mSubst := subst σ e
          let mAfter := ofExcept (eval ρ μ mSubst)
          let bound : VarEnv CFloat := fun x => match σ x with
            | some t => (eval ρ μ t).toOption
            | none => ρ x
          let mBound := ofExcept (eval bound μ e)
          let mRefs := memoryReferences e
          let c1 := mEval.cmp iEval
          let c3 := mAfter.cmp iAfter
          let c4 := mBound.cmp iBound
          let substAgree := encodeExpr mSubst == o2
          let refsAgree := mRefs == iRefs
          let agree := c1 > 0 && c3 > 0 && c4 > 0 && substAgree && refsAgree
          -- known-finding classifier `C13/interning-merges-signed-zero` (as narrow as the cause): the
          -- implementation's substituted tree differs from the model's ONLY in the sign of zero components /
          -- NaN payloads of numeric leaves (what `ArcIntern`'s coarse equality can merge), and the
          -- implementation's evaluation is exactly the model's evaluation of that altered tree.
          let kfIntern := !substAgree && mSubst.beqWith leafEquiv iSubst &&
            (ofExcept (eval ρ μ iSubst)).cmp iAfter > 0 && c1 > 0 && c4 > 0 && refsAgree
          -- the specification, evaluated on the implementation's outputs
          let numeric := σl.all fun (_, t) => match t with | .number _ => true | _ => false
          let s1 := iAfter.same iBound                                   -- substitute-then-evaluate = evaluate bound
          let s2 := iRefs == e.addrs                                     -- reported = occurring, in order
          let s3 := iEval.isOk == suppliedB (fun x => (ρ x).isSome) (fun n => (μ n).map List.length) e
          let s4 := !numeric ||                                          -- what substitution leaves
            (iSubst.vars == e.vars.filter (fun x => (σ x).isNone) && iSubst.addrs == e.addrs)
          let s5 := [iEval, iAfter, iBound].all fun r => match r with
            | .err k => k == "incomplete"
            | .ok _ => true
          let specOk := s1 && s2 && s3 && s4 && s5
          let missing : List String :=
            (if e.vars.any (fun x => (ρ x).isNone) then ["miss-var"] else []) ++
            (if e.addrs.any (fun a => (μ a.name).isNone) then ["miss-region"] else []) ++
            (if e.addrs.any (fun a => match μ a.name with | some vs => decide (vs.length ≤ a.index) | none => false)
              then ["miss-index"] else [])
          let tags :=
            shapeTags e ++ missing ++
            [if iEval.isOk then "eval-ok" else "eval-err",
             if iAfter.isOk then "after-ok" else "after-err",
             if σl.isEmpty then "sigma-empty" else if numeric then "sigma-num" else "sigma-expr",
             if e.vars.any (fun x => (σ x).isSome) then "subst-hit" else "subst-miss",
             s!"refs{min iRefs.length 4}",
             if c1 == 2 && c3 == 2 && c4 == 2 then "val-bitexact" else "val-close"] ++
            (if kfIntern then ["kf:C13/interning-merges-signed-zero"] else [])
          { agree := agree, specOk := specOk,
            nontrivial := !e.vars.isEmpty || !e.addrs.isEmpty,
            tags := tags,
            detail := s!"spec[subst-eval={s1} refs={s2} ok-iff-supplied={s3} leftover={s4} errkind={s5}] " ++
              s!"model: eval={mEval.render} subst={encodeExpr mSubst} after={mAfter.render} bound={mBound.render} " ++
              s!"refs={mRefs.map encodeMemRef} | impl={out}" }
        | _, _, _, _, _ =>
          -- a crash or an undecodable output: the model never crashes
          { agree := false, specOk := false, nontrivial := true, tags := ["impl-crash-or-undecodable"],
            detail := s!"impl={out}" }
      | _ => { agree := false, specOk := false, nontrivial := true, tags := ["impl-crash-or-undecodable"],
               detail := s!"impl={out}" }
    | _, _, _, _ => .bad s!"undecodable input {inp}"
  | _ => .bad s!"undecodable input {inp}"

end QV.C13

def main : IO UInt32 := QV.runMain QV.C13.handle
