import QV.C13.Model
import QV.C13.Spec
/-
C13 — Substitution, evaluation and memory-reference listing agree.

  "Substituting variables by numbers and then evaluating gives the same value as evaluating with those
   numbers bound to the variables.  The memory references an expression reports are exactly the memory
   addresses occurring in it, and evaluation succeeds iff every variable and referenced memory cell is
   supplied."

All theorems are for EVERY expression (any depth, any size), EVERY scalar type `K` with the operations of
`Scalar K` (no laws assumed — so they also hold for the rounding `CFloat` the driver runs), EVERY
environment.  Proofs are by structural induction on the expression; the iterator theorem is by
well-founded induction on the number of nodes on the stack with the stack generalised.
-/
namespace QV.C13
open QV

variable {K : Type}

/-! ## 1. The explicit-stack iterator = the recursive pre-order listing -/

/-- what a stack still has to deliver: the pre-order listings of its entries, top first -/
def pending (st : List (Expr K)) : List MemRef := st.flatMap Expr.addrs

/-- what a `Step` delivers -/
def Step.out : Step K → List MemRef
  | .found r st => r :: pending st
  | .exhausted st => pending st

/-- The inner loop neither loses nor invents nor reorders anything. -/
theorem descend_out (e : Expr K) (st : List (Expr K)) :
    (descend e st).out = e.addrs ++ pending st := by
  induction e generalizing st with
  | address r => simp [descend, Step.out, Expr.addrs]
  | call f e ih => simpa [descend, Expr.addrs] using ih st
  | bin l o r ihl ihr =>
    have := ihl (r :: st)
    simpa [descend, Expr.addrs, pending, List.flatMap_cons, List.append_assoc] using this
  | number z => simp [descend, Step.out, Expr.addrs]
  | pi => simp [descend, Step.out, Expr.addrs]
  | pre o e ih => simpa [descend, Expr.addrs] using ih st
  | var x => simp [descend, Step.out, Expr.addrs]

/-- One call of `next`, for ANY stack: it returns `Some(r)` exactly when `r` is the first pending
reference, and leaves a stack whose pending references are the remaining ones; it returns `None` exactly
when nothing is pending, and then the stack is empty (fused). -/
theorem next_spec (st : List (Expr K)) :
    (∀ r st', next st = (some r, st') → pending st = r :: pending st') ∧
    (∀ st', next st = (none, st') → pending st = [] ∧ st' = []) := by
  induction st using next.induct with
  | case1 => simp [next, pending]
  | case2 e st r0 st0 hd =>
    have ho := descend_out e st
    rw [hd] at ho
    have hn : next (e :: st) = (some r0, st0) := by rw [next]; split <;> simp_all
    constructor
    · intro r st' h
      rw [hn] at h
      cases h
      simpa [pending, Step.out, List.flatMap_cons] using ho.symm
    · intro st' h; rw [hn] at h; cases h
  | case3 e st st0 hd ih =>
    have ho := descend_out e st
    rw [hd] at ho
    have hn : next (e :: st) = next st0 := by rw [next]; split <;> simp_all
    have hp : pending (e :: st) = pending st0 := by
      simpa [pending, Step.out, List.flatMap_cons] using ho.symm
    rw [hn, hp]
    exact ih

/-- Draining the iterator from any stack yields exactly the pending references, in order. -/
theorem drain_eq_pending (st : List (Expr K)) : drain st = pending st := by
  induction st using drain.induct with
  | case1 st r st' h ih =>
    rw [drain]
    split
    · rename_i r1 st1 h1
      rw [h] at h1; cases h1
      rw [ih, (next_spec st).1 r st' h]
    · rename_i st1 h1
      rw [h] at h1; cases h1
  | case2 st st' h =>
    rw [drain]
    split
    · rename_i r1 st1 h1
      rw [h] at h1; cases h1
    · exact ((next_spec st).2 st' h).1.symm

/-- **C13 (memory references, order and multiplicity).**  For every expression, what
`e.memory_references()` yields — the explicit-stack machine of program/memory.rs — is exactly the
recursive left-to-right listing of the `Address` nodes of `e`. -/
theorem C13_iterator_eq_preorder (e : Expr K) : memoryReferences e = e.addrs := by
  simp [memoryReferences, drain_eq_pending, pending]

/-- **C13 (memory references, membership).**  A reference is reported iff it occurs in the expression,
`Occurs` being the independent inductive definition of "occurs in" (Spec.lean). -/
theorem C13_reported_iff_occurs (e : Expr K) (r : MemRef) : r ∈ memoryReferences e ↔ Occurs r e := by
  rw [C13_iterator_eq_preorder]
  exact (occurs_iff_mem_addrs r e).symm

/-- The number of reported references is the number of `Address` nodes. -/
theorem C13_reported_count (e : Expr K) : (memoryReferences e).length = countAddr e := by
  rw [C13_iterator_eq_preorder]
  induction e <;> simp_all [Expr.addrs, countAddr]

/-- The iterator is fused: once exhausted it stays exhausted. -/
theorem C13_iterator_fused : next ([] : List (Expr K)) = (none, []) := by simp [next]

example : memoryReferences (K := Nat)
    (.bin (.call .sin (.address ⟨"a", 1⟩)) .plus (.bin (.var "x") .star (.pre .minus (.address ⟨"b", 0⟩))))
    = [⟨"a", 1⟩, ⟨"b", 0⟩] := by
  rw [C13_iterator_eq_preorder]; rfl


/-! ### Every way of consuming the iterator, from ANY state (fresh or mid-iteration)

std's adaptors and provided methods (`for_each count last nth skip step_by take peekable max_by_key …`) are
compositions of `next` and `fold`; the two theorems below say what those two do on the model's stack machine
from an arbitrary stack, in terms of `pending st` only.  (That std's default implementations are such
compositions is trusted; that the REAL iterator agrees on every route is what the `c13iter` cases check.) -/

/-- `fold` from any stack state is the left fold over the pending references. -/
theorem C13_foldFrom_eq_foldl {β : Type} (f : β → MemRef → β) (init : β) (st : List (Expr K)) :
    foldFrom f init st = (pending st).foldl f init := by
  induction init, st using foldFrom.induct (f := f) with
  | case1 init st r st' h ih =>
    rw [foldFrom]
    split
    · rename_i r1 st1 h1
      rw [h] at h1; cases h1
      rw [ih, (next_spec st).1 r st' h, List.foldl_cons]
    · rename_i st1 h1
      rw [h] at h1; cases h1
  | case2 init st st' h =>
    rw [foldFrom]
    split
    · rename_i r1 st1 h1
      rw [h] at h1; cases h1
    · rw [((next_spec st).2 st' h).1]; rfl

/-- `j` calls of `next` from any stack state yield the first `j` pending references and leave exactly the
others pending. -/
theorem C13_nextN_spec (j : Nat) (st : List (Expr K)) :
    (nextN j st).1 = (pending st).take j ∧ pending (nextN j st).2 = (pending st).drop j := by
  induction j generalizing st with
  | zero => simp [nextN]
  | succ j ih =>
    rw [nextN]
    rcases hn : next st with ⟨o, st'⟩
    cases o with
    | none =>
      obtain ⟨hp, hs⟩ := (next_spec st).2 st' hn
      subst hs
      rw [hp]
      exact ⟨by simp, by simp [pending]⟩
    | some r =>
      have hp := (next_spec st).1 r st' hn
      obtain ⟨h1, h2⟩ := ih st'
      simp [hp, h1, h2]

/-- Mid-iteration, fold-based consumption: after `j` calls of `next` on a fresh iterator over `e`, folding
the rest is folding `e.addrs.drop j`. -/
theorem C13_fold_after_nexts {β : Type} (e : Expr K) (j : Nat) (f : β → MemRef → β) (init : β) :
    foldFrom f init (nextN j [e]).2 = (e.addrs.drop j).foldl f init := by
  rw [C13_foldFrom_eq_foldl, (C13_nextN_spec j [e]).2]; simp [pending]

/-- Mid-iteration, `next`-based consumption (`collect`, `for` loops). -/
theorem C13_drain_after_nexts (e : Expr K) (j : Nat) :
    (nextN j [e]).1 = e.addrs.take j ∧ drain (nextN j [e]).2 = e.addrs.drop j := by
  rw [drain_eq_pending, (C13_nextN_spec j [e]).2, (C13_nextN_spec j [e]).1]; simp [pending]

/-- `count()` from any state. -/
theorem C13_count_from (st : List (Expr K)) :
    foldFrom (fun n _ => n + 1) 0 st = (pending st).length := by
  rw [C13_foldFrom_eq_foldl]
  have : ∀ (l : List MemRef) (k : Nat), l.foldl (fun n _ => n + 1) k = k + l.length := by
    intro l; induction l with
    | nil => simp
    | cons a as ih => intro k; simp [ih]; omega
  simpa using this (pending st) 0

example : foldFrom (K := Nat) (fun acc r => r.index :: acc) []
    (nextN 1 [.bin (.bin (.bin (.address ⟨"a", 0⟩) .plus (.address ⟨"a", 1⟩)) .star (.address ⟨"b", 2⟩)) .minus
      (.call .sin (.address ⟨"c", 7⟩))]).2 = [7, 2, 1] := by
  rw [C13_fold_after_nexts]; rfl

/-! ## 2. Evaluation: errors, success criterion -/

section
variable [Scalar K]

/-- `evaluate` only ever fails with `Incomplete` (never `NumberNotReal` / `NotANumber`). -/
theorem C13_eval_error_is_incomplete (ρ : VarEnv K) (μ : MemEnv K) (e : Expr K) (err : EvalError) :
    eval ρ μ e = .error err → err = .incomplete := by
  induction e with
  | address r =>
    simp only [eval]
    split
    · intro h; cases h; rfl
    · split
      · intro h; cases h
      · intro h; cases h; rfl
  | call f e ih =>
    simp only [eval]
    cases h : eval ρ μ e with
    | error e' => simp; intro h2; subst h2; exact ih h
    | ok v => simp
  | bin l o r ihl ihr =>
    simp only [eval]
    cases hl : eval ρ μ l with
    | error e' => simp; intro h2; subst h2; exact ihl hl
    | ok a =>
      cases hr : eval ρ μ r with
      | error e' => simp; intro h2; subst h2; exact ihr hr
      | ok b => simp
  | number z => simp [eval]
  | pi => simp [eval]
  | pre o e ih =>
    simp only [eval]
    cases h : eval ρ μ e with
    | error e' => simp; intro h2; subst h2; exact ih h
    | ok v => cases o <;> simp
  | var x =>
    simp only [eval]
    cases ρ x with
    | none => simp; exact fun h => h.symm
    | some v => simp

/-- **C13 (success criterion).**  Evaluation returns a value iff every variable of the expression is
assigned and every memory reference names a supplied region and an index inside it. -/
theorem C13_eval_ok_iff_supplied (ρ : VarEnv K) (μ : MemEnv K) (e : Expr K) :
    (∃ v, eval ρ μ e = .ok v) ↔ Supplied ρ μ e := by
  induction e with
  | address r =>
    simp only [eval, Supplied, Expr.vars, Expr.addrs, List.mem_singleton, forall_eq, CellSupplied]
    cases μ r.name with
    | none => simp
    | some vs =>
      cases h : vs[r.index]? with
      | none =>
        have : vs.length ≤ r.index := by simpa using h
        simp [h]; omega
      | some v =>
        have : r.index < vs.length := by
          rcases List.getElem?_eq_some_iff.mp h with ⟨hlt, _⟩; exact hlt
        simp [h, this]
  | call f e ih =>
    simp only [eval]
    rw [show Supplied ρ μ (.call f e) = Supplied ρ μ e from rfl, ← ih]
    cases eval ρ μ e <;> simp
  | bin l o r ihl ihr =>
    have hs : Supplied ρ μ (.bin l o r) ↔ Supplied ρ μ l ∧ Supplied ρ μ r := by
      simp only [Supplied, Expr.vars, Expr.addrs, List.mem_append]
      constructor
      · rintro ⟨h1, h2⟩
        exact ⟨⟨fun x hx => h1 x (Or.inl hx), fun a ha => h2 a (Or.inl ha)⟩,
               ⟨fun x hx => h1 x (Or.inr hx), fun a ha => h2 a (Or.inr ha)⟩⟩
      · rintro ⟨⟨h1, h2⟩, ⟨h3, h4⟩⟩
        exact ⟨fun x hx => hx.elim (h1 x) (h3 x), fun a ha => ha.elim (h2 a) (h4 a)⟩
    rw [hs, ← ihl, ← ihr]
    simp only [eval]
    cases eval ρ μ l <;> cases eval ρ μ r <;> simp
  | number z => simp [eval, Supplied, Expr.vars, Expr.addrs]
  | pi => simp [eval, Supplied, Expr.vars, Expr.addrs]
  | pre o e ih =>
    simp only [eval]
    rw [show Supplied ρ μ (.pre o e) = Supplied ρ μ e from rfl, ← ih]
    cases eval ρ μ e <;> cases o <;> simp
  | var x =>
    simp only [eval, Supplied, Expr.vars, Expr.addrs, List.mem_singleton, forall_eq]
    cases ρ x <;> simp

/-- Equivalent form: evaluation fails (necessarily with `Incomplete`) iff something is missing. -/
theorem C13_eval_incomplete_iff (ρ : VarEnv K) (μ : MemEnv K) (e : Expr K) :
    eval ρ μ e = .error .incomplete ↔ ¬ Supplied ρ μ e := by
  rw [← C13_eval_ok_iff_supplied]
  cases h : eval ρ μ e with
  | ok v => simp
  | error err =>
    have := C13_eval_error_is_incomplete ρ μ e err h
    subst this; simp

omit [Scalar K] in
/-- The Bool checker the driver evaluates is the Prop. -/
theorem C13_suppliedB_iff (dom : String → Bool) (len : String → Option Nat) (ρ : VarEnv K) (μ : MemEnv K)
    (hd : ∀ x, dom x = (ρ x).isSome) (hl : ∀ n, len n = (μ n).map List.length) (e : Expr K) :
    suppliedB dom len e = true ↔ Supplied ρ μ e := by
  simp only [suppliedB, Supplied, Bool.and_eq_true, List.all_eq_true, CellSupplied]
  constructor
  · rintro ⟨h1, h2⟩
    refine ⟨fun x hx => by simpa [hd] using h1 x hx, fun a ha => ?_⟩
    have := h2 a ha
    rw [hl] at this
    cases hm : μ a.name with
    | none => simp [hm] at this
    | some vs => simp [hm] at this; exact ⟨vs, rfl, this⟩
  · rintro ⟨h1, h2⟩
    refine ⟨fun x hx => by simpa [hd] using h1 x hx, fun a ha => ?_⟩
    obtain ⟨vs, hm, hlt⟩ := h2 a ha
    simp [hl, hm, hlt]

/-! ## 3. Substitution -/

/-- **C13 (substitute then evaluate), general form** for substitution by arbitrary expressions (what
`substitute_variables` accepts): evaluating the substituted expression is evaluating the original one in
the environment that binds each substituted variable to the value of its replacement (unbound if the
replacement itself cannot be evaluated) and leaves the other variables to ρ. -/
theorem C13_subst_eval_general (σ : String → Option (Expr K)) (ρ : VarEnv K) (μ : MemEnv K) (e : Expr K) :
    eval ρ μ (subst σ e) =
      eval (fun x => match σ x with
              | some t => (eval ρ μ t).toOption
              | none => ρ x) μ e := by
  induction e with
  | address r => simp [subst, eval]
  | call f e ih => simp only [subst, eval, ih]
  | bin l o r ihl ihr => simp only [subst, eval, ihl, ihr]
  | number z => simp [subst, eval]
  | pi => simp [subst, eval]
  | pre o e ih => simp only [subst, eval, ih]
  | var x =>
    simp only [subst, eval]
    cases hσ : σ x with
    | none => simp [eval]
    | some t =>
      simp only
      cases ht : eval ρ μ t with
      | ok v => simp [Except.toOption]
      | error err =>
        have := C13_eval_error_is_incomplete ρ μ t err ht
        subst this; simp [Except.toOption]

/-- **C13 (substitute then evaluate = evaluate with the numbers bound).**  For every expression, every
numeric substitution σ, every environment ρ and memory μ:
`evaluate(substitute_variables(e, σ), ρ, μ) = evaluate(e, σ overriding ρ, μ)` — the same value, or the same
error. -/
theorem C13_subst_eval (σ ρ : VarEnv K) (μ : MemEnv K) (e : Expr K) :
    eval ρ μ (subst (numSubst σ) e) = eval (override σ ρ) μ e := by
  rw [C13_subst_eval_general]
  congr 1
  funext x
  simp only [numSubst, override]
  cases σ x <;> simp [eval, Except.toOption]

/-- Substituting every variable of `e` makes the variable environment irrelevant. -/
theorem C13_subst_all_closed (σ ρ ρ' : VarEnv K) (μ : MemEnv K) (e : Expr K)
    (h : ∀ x ∈ e.vars, (σ x).isSome) :
    eval ρ μ (subst (numSubst σ) e) = eval ρ' μ (subst (numSubst σ) e) := by
  rw [C13_subst_eval, C13_subst_eval]
  induction e with
  | address r => simp [eval]
  | call f e ih => simp only [eval]; rw [ih (by simpa [Expr.vars] using h)]
  | bin l o r ihl ihr =>
    simp only [eval]
    rw [ihl (fun x hx => h x (by simp [Expr.vars, hx])), ihr (fun x hx => h x (by simp [Expr.vars, hx]))]
  | number z => simp [eval]
  | pi => simp [eval]
  | pre o e ih => simp only [eval]; rw [ih (by simpa [Expr.vars] using h)]
  | var x =>
    have := h x (by simp [Expr.vars])
    simp only [eval, override]
    cases hσ : σ x with
    | none => simp [hσ] at this
    | some v => simp

omit [Scalar K] in
/-- **C13 (what substitution leaves).**  The variables of `substitute_variables(e, σ)` for numeric σ are
exactly the variables of `e` that σ does not assign — same order, same multiplicity. -/
theorem C13_subst_leaves_unassigned (σ : VarEnv K) (e : Expr K) :
    (subst (numSubst σ) e).vars = e.vars.filter (fun x => (σ x).isNone) := by
  induction e with
  | address r => simp [subst, Expr.vars]
  | call f e ih => simpa [subst, Expr.vars] using ih
  | bin l o r ihl ihr => simp [subst, Expr.vars, ihl, ihr]
  | number z => simp [subst, Expr.vars]
  | pi => simp [subst, Expr.vars]
  | pre o e ih => simpa [subst, Expr.vars] using ih
  | var x =>
    simp only [subst, numSubst, Expr.vars]
    cases h : σ x <;> simp [Expr.vars, h]

omit [Scalar K] in
/-- General form: a substituted variable contributes the variables of its replacement. -/
theorem C13_subst_vars_general (σ : String → Option (Expr K)) (e : Expr K) :
    (subst σ e).vars = e.vars.flatMap (fun x => match σ x with | some t => t.vars | none => [x]) := by
  induction e with
  | address r => simp [subst, Expr.vars]
  | call f e ih => simpa [subst, Expr.vars] using ih
  | bin l o r ihl ihr => simp [subst, Expr.vars, ihl, ihr]
  | number z => simp [subst, Expr.vars]
  | pi => simp [subst, Expr.vars]
  | pre o e ih => simpa [subst, Expr.vars] using ih
  | var x =>
    simp only [subst, Expr.vars]
    cases h : σ x <;> simp [Expr.vars, h]

omit [Scalar K] in
/-- Numeric substitution neither adds nor removes memory references. -/
theorem C13_subst_keeps_addresses (σ : VarEnv K) (e : Expr K) :
    memoryReferences (subst (numSubst σ) e) = memoryReferences e := by
  rw [C13_iterator_eq_preorder, C13_iterator_eq_preorder]
  induction e with
  | address r => simp [subst]
  | call f e ih => simpa [subst, Expr.addrs] using ih
  | bin l o r ihl ihr => simp [subst, Expr.addrs, ihl, ihr]
  | number z => simp [subst]
  | pi => simp [subst]
  | pre o e ih => simpa [subst, Expr.addrs] using ih
  | var x =>
    simp only [subst, numSubst]
    cases h : σ x <;> simp [Expr.addrs]

/-- Corollary tying the three clauses together: after a numeric substitution, evaluation succeeds iff the
variables σ left are assigned by ρ and every reported memory reference is supplied. -/
theorem C13_subst_eval_ok_iff (σ ρ : VarEnv K) (μ : MemEnv K) (e : Expr K) :
    (∃ v, eval ρ μ (subst (numSubst σ) e) = .ok v) ↔
      (∀ x ∈ e.vars, (σ x).isNone → (ρ x).isSome) ∧
      (∀ a ∈ memoryReferences e, CellSupplied μ a) := by
  rw [C13_eval_ok_iff_supplied, Supplied, C13_subst_leaves_unassigned,
    ← C13_iterator_eq_preorder, C13_subst_keeps_addresses]
  simp [List.mem_filter]

end

/-! ## Non-vacuity: the hypotheses/objects above exist in non-trivial form (K := Nat with toy operations) -/

private instance toy : Scalar Nat where
  add := (· + ·)
  sub := (· - ·)
  mul := (· * ·)
  div := (· / ·)
  pow := (· ^ ·)
  neg := id
  sin := id
  cos := id
  exp := id
  sqrt := id
  cis := id
  pi := 3
  zero := 0
  one := 1

private def exE : Expr Nat := .bin (.var "x") .plus (.bin (.address ⟨"a", 1⟩) .star (.var "y"))
private def exρ : VarEnv Nat := fun x => if x = "y" then some 5 else none
private def exσ : VarEnv Nat := fun x => if x = "x" then some 2 else none
private def exμ : MemEnv Nat := fun n => if n = "a" then some [7, 4] else none

example : eval exρ exμ (subst (numSubst exσ) exE) = .ok 22 := by rfl
example : eval (override exσ exρ) exμ exE = .ok 22 := by rfl
example : eval exρ exμ exE = .error .incomplete := by rfl
example : (subst (numSubst exσ) exE).vars = ["y"] := by decide
example : Supplied (override exσ exρ) exμ exE := by
  rw [← C13_eval_ok_iff_supplied]; exact ⟨22, by rfl⟩
example : ¬ Supplied exρ exμ exE := by
  rw [← C13_eval_incomplete_iff]; rfl

end QV.C13
