import QV.Shared.Expr
/-
C13 — specification side (import-free; the driver evaluates the Bool checkers on the IMPLEMENTATION's
outputs, Props.lean proves them equivalent to the Props).

Written without reference to how `evaluate` / the iterator / `substitute_variables` compute.
-/
namespace QV.C13
open QV

variable {K : Type}

/-- "the memory address `r` occurs in the expression" — one rule per way of containing a subexpression -/
inductive Occurs (r : MemRef) : Expr K → Prop where
  | here : Occurs r (.address r)
  | call {f e} : Occurs r e → Occurs r (.call f e)
  | binL {l o r'} : Occurs r l → Occurs r (.bin l o r')
  | binR {l o r'} : Occurs r r' → Occurs r (.bin l o r')
  | pre {o e} : Occurs r e → Occurs r (.pre o e)

theorem occurs_iff_mem_addrs (r : MemRef) (e : Expr K) : Occurs r e ↔ r ∈ e.addrs := by
  constructor
  · intro h
    induction h with
    | here => simp [Expr.addrs]
    | call _ ih => simpa [Expr.addrs] using ih
    | binL _ ih => simp [Expr.addrs, ih]
    | binR _ ih => simp [Expr.addrs, ih]
    | pre _ ih => simpa [Expr.addrs] using ih
  · intro h
    induction e with
    | address a => simp [Expr.addrs] at h; subst h; exact .here
    | call f e ih => exact .call (ih (by simpa [Expr.addrs] using h))
    | bin l o r' ihl ihr =>
      simp only [Expr.addrs, List.mem_append] at h
      exact h.elim (fun h => .binL (ihl h)) (fun h => .binR (ihr h))
    | number z => simp [Expr.addrs] at h
    | pi => simp [Expr.addrs] at h
    | pre o e ih => exact .pre (ih (by simpa [Expr.addrs] using h))
    | var x => simp [Expr.addrs] at h

/-- number of `Address` nodes -/
def countAddr : Expr K → Nat
  | .address _ => 1
  | .call _ e => countAddr e
  | .bin l _ r => countAddr l + countAddr r
  | .pre _ e => countAddr e
  | _ => 0

/-- the memory cell `a` is supplied: its region is present and the index is inside the vector -/
def CellSupplied (μ : MemEnv K) (a : MemRef) : Prop :=
  ∃ vs, μ a.name = some vs ∧ a.index < vs.length

/-- "every variable and referenced memory cell is supplied" -/
def Supplied (ρ : VarEnv K) (μ : MemEnv K) (e : Expr K) : Prop :=
  (∀ x ∈ e.vars, (ρ x).isSome) ∧ (∀ a ∈ e.addrs, CellSupplied μ a)

/-- Bool form of `Supplied`, from the domain of the variable map and the lengths of the memory vectors. -/
def suppliedB (dom : String → Bool) (len : String → Option Nat) (e : Expr K) : Bool :=
  e.vars.all dom && e.addrs.all fun a =>
    match len a.name with
    | some n => decide (a.index < n)
    | none => false

end QV.C13
