import QV.Shared.Expr
/-
C13 — model of the three functions the property is about.

* `Expression::evaluate`            = `QV.eval`   (QV/Shared/Expr.lean, shared with C12/C03)
* `Expression::substitute_variables` = `QV.subst`  (QV/Shared/Expr.lean)
* `Expression::memory_references()` = the explicit-stack iterator `MemoryReferences`
  (quil-rs/src/program/memory.rs:223 ff.), modelled here as the stack machine it is.

Plus the two `HashMap`s of `evaluate` / the one of `substitute_variables` as association lists with
first-match lookup (the harness sends duplicate-free lists, a `HashMap` has unique keys).
-/
namespace QV.C13
open QV

variable {K : Type}

/-! ### The `MemoryReferences` iterator (program/memory.rs:139-214)

State: `stack : Vec<&Expression>`; the model's list has the *top of the stack at its head*
(`stack.push(x)` = `x :: stack`, `stack.pop()` = head). -/

/-- Result of the inner `loop` on one popped expression. -/
inductive Step (K : Type) where
  /-- `return Some(reference)`; the rest of the stack is the iterator's new state -/
  | found : MemRef → List (Expr K) → Step K
  /-- `continue 'stack_search` with this stack -/
  | exhausted : List (Expr K) → Step K

/--
The inner `loop { match expr { … } }` (memory.rs:172-209) started on `expr` with the given stack:
`Number | PiConstant | Variable` ⇒ `continue 'stack_search`; `Address(r)` ⇒ `return Some(r)`;
`FunctionCall | Prefix` ⇒ `expr = expression` (tail call); `Infix` ⇒ `stack.push(right); expr = left`.
-/
def descend : Expr K → List (Expr K) → Step K
  | .number _, st => .exhausted st
  | .pi, st => .exhausted st
  | .var _, st => .exhausted st
  | .address r, st => .found r st
  | .call _ e, st => descend e st
  | .pre _ e, st => descend e st
  | .bin l _ r, st => descend l (r :: st)

/-- total number of nodes on the stack: the termination measure of `next` -/
def stackSize : List (Expr K) → Nat
  | [] => 0
  | e :: st => e.size + stackSize st

theorem descend_size (e : Expr K) (st : List (Expr K)) :
    (match descend e st with
      | .found _ st' => stackSize st'
      | .exhausted st' => stackSize st') < e.size + stackSize st := by
  induction e generalizing st with
  | address r => simp [descend, Expr.size]
  | call f e ih => have := ih st; simp only [descend, Expr.size]; omega
  | bin l o r ihl ihr =>
    have := ihl (r :: st); simp only [descend, Expr.size, stackSize] at *; omega
  | number z => simp [descend, Expr.size]
  | pi => simp [descend, Expr.size]
  | pre o e ih => have := ih st; simp only [descend, Expr.size]; omega
  | var x => simp [descend, Expr.size]

/--
`Iterator::next` (memory.rs:139-214): `'stack_search: while let Some(expr) = stack.pop() { loop … }`, then
`None`.  Returns the item and the iterator's new state (after `None` the stack is empty, which makes the
iterator fused).  Terminates because every round strictly decreases the number of nodes on the stack.
-/
def next : List (Expr K) → Option MemRef × List (Expr K)
  | [] => (none, [])
  | e :: st =>
    match h : descend e st with
    | .found r st' => (some r, st')
    | .exhausted st' => next st'
termination_by st => stackSize st
decreasing_by
  have := descend_size e st
  rw [h] at this
  simpa [stackSize] using this

theorem next_size (st : List (Expr K)) : ∀ r st', next st = (some r, st') → stackSize st' < stackSize st := by
  induction st using next.induct with
  | case1 => intro r st' h; simp [next] at h
  | case2 e st r0 st0 hd =>
    intro r st' h
    have := descend_size e st
    rw [hd] at this
    rw [next, ] at h
    split at h
    · rename_i r1 st1 hd1
      rw [hd] at hd1
      cases hd1
      cases h
      simpa [stackSize] using this
    · rename_i st1 hd1
      rw [hd] at hd1; cases hd1
  | case3 e st st0 hd ih =>
    intro r st' h
    have := descend_size e st
    rw [hd] at this
    rw [next] at h
    split at h
    · rename_i r1 st1 hd1
      rw [hd] at hd1; cases hd1
    · rename_i st1 hd1
      rw [hd] at hd1; cases hd1
      have := ih r st' h
      simp only [stackSize] at *
      omega

/-- Drain the iterator (`.collect()`): call `next` until it returns `None`. -/
def drain (st : List (Expr K)) : List MemRef :=
  match h : next st with
  | (some r, st') => r :: drain st'
  | (none, _) => []
termination_by stackSize st
decreasing_by exact next_size st r st' h

/-- `expr.memory_references().collect()`: the iterator is created with `stack: vec![self]` (memory.rs:219). -/
def memoryReferences (e : Expr K) : List MemRef := drain [e]

/-- `j` calls of `next` (what `advance_by(j)` / the first `j` steps of any adaptor do): the items yielded and
the iterator's state afterwards.  Every mid-iteration state of the real iterator is `(nextN j [e]).2`. -/
def nextN : Nat → List (Expr K) → List MemRef × List (Expr K)
  | 0, st => ([], st)
  | j + 1, st =>
    match next st with
    | (some r, st') => (r :: (nextN j st').1, (nextN j st').2)
    | (none, st') => ([], st')

/-- std's default `Iterator::fold` (`while let Some(x) = self.next() { acc = f(acc, x) }`) — and therefore
`for_each`, `count`, `last`, `sum`, `max*`/`min*`/`reduce` (one `next` + `fold`) — run on the stack machine
from an arbitrary state. -/
def foldFrom {β : Type} (f : β → MemRef → β) (init : β) (st : List (Expr K)) : β :=
  match h : next st with
  | (some r, st') => foldFrom f (f init r) st'
  | (none, _) => init
termination_by stackSize st
decreasing_by exact next_size st r st' h

/-! ### `HashMap`s as association lists -/

/-- `&HashMap<_, Complex64>` / `&HashMap<_, Vec<f64>>` / `&HashMap<_, Expression>` → the partial function -/
def lookupFn {α : Type} (m : List (String × α)) : String → Option α := fun k => m.lookup k

/-- The environment "σ's numbers bound to the variables, on top of ρ" (σ wins). -/
def override (σ ρ : VarEnv K) : VarEnv K := fun x =>
  match σ x with
  | some v => some v
  | none => ρ x

/-- A numeric substitution as the `HashMap<_, Expression>` `substitute_variables` takes. -/
def numSubst (σ : VarEnv K) : String → Option (Expr K) := fun x => (σ x).map Expr.number

end QV.C13
