import QV.C31.Lemmas
/-
C31 — Extern signatures round-trip and CALL resolution follows the rules.
Property theorems (unbounded: any signature of any arity, any call, any set of declared regions).
-/
namespace QV.C31

/-! ## Signatures -/

/-- whatever `from_str` accepts is a valid signature -/
theorem sigFromTokens_ok_valid (isUser : String → Bool) (toks : List Token) (s : Signature)
    (h : sigFromTokens isUser toks = .ok s) : ValidSig isUser s := by
  unfold sigFromTokens at h
  cases hp : parseSignature toks with
  | none => simp [hp] at h
  | some r =>
    obtain ⟨s', rest⟩ := r
    simp only [hp] at h
    by_cases h1 : rest.isEmpty = true
    · by_cases h2 : (s'.ret.isNone && s'.params.isEmpty) = true
      · simp [h1, h2] at h
      · by_cases h3 : s'.params.all (fun p => isUser p.name) = true
        · simp [h1, h2, h3] at h
          subst h
          refine ⟨?_, by simpa using h3⟩
          cases hr : s'.ret with
          | some t => simp
          | none =>
            right
            intro he
            simp [hr, he] at h2
        · simp [h1, h2, h3] at h
    · simp [h1] at h

/-- **C31 (round trip)**: for every signature `s` (any arity, any parameter types): the token sequence its
printed form lexes to parses back — through `parse_extern_signature`, the left-over check, the emptiness
check and the name validation of `from_str` — to exactly `s`, if and only if `s` is valid (has a return
type or a parameter, and all parameter names are user identifiers).  Assumption `hlex`: a valid user
identifier lexes to an identifier token carrying itself. -/
theorem C31_roundtrip (isUser : String → Bool) (lexName : String → Token) (s : Signature)
    (hlex : ∀ n, isUser n = true → lexName n = .identifier n) :
    sigFromTokens isUser (printSig lexName s) = .ok s ↔ ValidSig isUser s := by
  constructor
  · exact sigFromTokens_ok_valid isUser _ s
  · rintro ⟨hne, hnames⟩
    have hl : ∀ p ∈ s.params, lexName p.name = .identifier p.name := fun p hp => hlex _ (hnames p hp)
    unfold sigFromTokens
    rw [parseSignature_print lexName s hl]
    have h2 : (s.ret.isNone && s.params.isEmpty) = false := by
      rcases hne with h | h
      · cases hr : s.ret <;> simp [hr] at h ⊢
      · cases hp : s.params with
        | nil => exact absurd hp h
        | cons _ _ => simp
    have h3 : s.params.all (fun p => isUser p.name) = true := by simpa using hnames
    simp [h2, h3]

/-- the one constructible-but-invalid shape, `ExternSignature::new(None, vec![])`, prints to the empty
text, which `from_str` rejects with `NoReturnOrParameters` -/
theorem C31_empty_signature (isUser : String → Bool) (lexName : String → Token) :
    sigFromTokens isUser (printSig lexName ⟨none, []⟩) = .error .noReturnOrParameters := by
  simp [printSig, sigFromTokens, parseSignature]

/-- valid signatures print to distinct token sequences -/
theorem C31_print_injective (isUser : String → Bool) (lexName : String → Token) (s s' : Signature)
    (hlex : ∀ n, isUser n = true → lexName n = .identifier n)
    (hs : ValidSig isUser s) (hs' : ValidSig isUser s') (h : printSig lexName s = printSig lexName s') :
    s = s' := by
  have h1 := (C31_roundtrip isUser lexName s hlex).mpr hs
  have h2 := (C31_roundtrip isUser lexName s' hlex).mpr hs'
  rw [h] at h1
  rw [h1] at h2
  exact Except.ok.inj h2

/-- `validSigB` (evaluated by the driver) decides validity -/
theorem validSigB_iff (isUser : String → Bool) (s : Signature) :
    validSigB isUser s = true ↔ ValidSig isUser s := by
  unfold validSigB ValidSig
  cases hp : s.params <;> simp

/-- non-vacuity: `INTEGER (bar : INTEGER, baz : mut BIT[2], v : REAL[])` -/
example : sigFromTokens (fun _ => true)
    (printSig Token.identifier ⟨some .integer, [⟨"bar", false, .scalar .integer⟩,
      ⟨"baz", true, .fixed ⟨.bit, 2⟩⟩, ⟨"v", false, .varlen .real⟩]⟩)
    = .ok ⟨some .integer, [⟨"bar", false, .scalar .integer⟩, ⟨"baz", true, .fixed ⟨.bit, 2⟩⟩,
      ⟨"v", false, .varlen .real⟩]⟩ :=
  (C31_roundtrip _ _ _ (fun _ _ => rfl)).mpr ⟨Or.inl rfl, by simp⟩

/-! ## CALL resolution: one slot -/

/-- **C31 (slot rules)**: `resolve` succeeds with `r` exactly when the argument fits the slot per the
statement's rules, and fails with error `e` exactly in the listed failure situations -/
theorem C31_slot (rs : Regions) (p : ExtParam) (a : Arg) :
    (∀ r, resolve rs p a = .ok r ↔ SlotFits rs p a r) ∧
    (∀ e, resolve rs p a = .error e ↔ SlotFails rs p a e) :=
  ⟨resolve_ok_iff rs p a, resolve_error_iff rs p a⟩

/-- **C31 (return slot rules)** -/
theorem C31_return_slot (rs : Regions) (t : ScalarType) (a : Arg) :
    (∀ r, resolveReturn rs t a = .ok r ↔ ReturnFits rs t a r) ∧
    (∀ e, resolveReturn rs t a = .error e ↔ ReturnFails rs t a e) :=
  ⟨resolveReturn_ok_iff rs t a, resolveReturn_error_iff rs t a⟩

/-- the statement's wording (`slotTakesB`) is the existence of a fitting resolution -/
theorem slotTakesB_iff (rs : Regions) (p : ExtParam) (a : Arg) :
    slotTakesB rs p a = true ↔ ∃ r, resolve rs p a = .ok r := by
  cases a with
  | identifier n =>
    cases hty : p.ty <;> cases hg : rs.get n <;>
      simp [slotTakesB, declaredOfTypeB, resolve, resolveMemRef, hty, hg] <;>
      (try (split <;> simp_all))
  | memRef n i =>
    cases hty : p.ty <;> cases hg : rs.get n <;>
      simp [slotTakesB, declaredOfTypeB, resolve, resolveMemRef, hty, hg] <;>
      (try (split <;> simp_all))
  | immediate x =>
    cases hty : p.ty <;> cases hm : p.mutable <;> simp [slotTakesB, resolve, hty, hm]

theorem returnTakesB_iff (rs : Regions) (t : ScalarType) (a : Arg) :
    returnTakesB rs t a = true ↔ ∃ r, resolveReturn rs t a = .ok r := by
  cases a with
  | identifier n =>
    cases hg : rs.get n <;> simp [returnTakesB, declaredOfTypeB, resolveReturn, hg] <;>
      (try (split <;> simp_all))
  | memRef n i =>
    cases hg : rs.get n <;> simp [returnTakesB, declaredOfTypeB, resolveReturn, hg] <;>
      (try (split <;> simp_all))
  | immediate x => simp [returnTakesB, resolveReturn]

/-! ## CALL resolution: the whole call -/

theorem slotOutcomes_functional (rs : Regions) (s : Signature) (args : List Arg)
    (os os' : List (Except CallArgErr Resolved))
    (h : SlotOutcomes rs s args os) (h' : SlotOutcomes rs s args os') : os = os' := by
  cases h with
  | noReturn _ _ hr hp =>
    cases h' with
    | noReturn _ _ _ hp' => exact paramOutcomes_functional rs 0 _ _ _ _ hp hp'
    | withReturn t a as o os'' hr' _ _ => rw [hr] at hr'; cases hr'
  | withReturn t a as o os1 hr ho hp =>
    cases h' with
    | noReturn _ _ hr' _ => rw [hr] at hr'; cases hr'
    | withReturn t' _ _ o' os2 hr' ho' hp' =>
      rw [hr] at hr'; cases hr'
      rw [(returnOutcome_iff rs t a o).mp ho, (returnOutcome_iff rs t a o').mp ho',
        paramOutcomes_functional rs 0 _ _ _ _ hp hp']

/-- **C31 (CALL resolution)**: for every signature, region declaration and argument list,
`resolve_to_signature` returns `ParameterCount` iff the count is wrong, and otherwise the resolved arguments
in order if every slot's outcome is a fit, else the errors of exactly the failing slots, in slot order, each
tagged `Return` or `Argument{index}` -/
theorem resolveToSignature_spec (rs : Regions) (s : Signature) (args : List Arg) :
    CallSpec rs s args (resolveToSignature rs s args) := by
  unfold CallSpec resolveToSignature
  by_cases hlen : args.length = arity s
  · right
    refine ⟨hlen, ?_⟩
    have hlen' : ¬ args.length ≠ s.params.length + (if s.ret.isSome then 1 else 0) := by
      simpa [arity] using hlen
    simp only [hlen', if_false]
    cases hr : s.ret with
    | none =>
      have hl : args.length + 0 = s.params.length := by simpa [arity, hr] using hlen
      obtain ⟨os, hos, hloop⟩ := convertLoop_params rs s 0 (by simp [hr]) args 0 (.ok []) hl
      simp only [List.drop_zero, Nat.add_zero] at hos hloop
      refine ⟨os, .noReturn args os hr hos, ?_⟩
      rw [hloop, foldl_collect_ok]
      by_cases he : errs os = [] <;> simp [he]
    | some t =>
      cases args with
      | nil => simp [arity, hr] at hlen
      | cons a as =>
        have hl : as.length + 0 = s.params.length := by simpa [arity, hr] using hlen
        have hat : resolveAt rs s 0 a =
            some (match resolveReturn rs t a with | .ok r => .ok r | .error e => .error (.ret e)) := by
          simp [resolveAt, hr]
          cases resolveReturn rs t a <;> rfl
        obtain ⟨os, hos, hloop⟩ := convertLoop_params rs s 1 (by simp [hr]) as 0
          (collectStep (.ok []) (match resolveReturn rs t a with | .ok r => .ok r | .error e => .error (.ret e))) hl
        simp only [List.drop_zero, Nat.zero_add] at hos hloop
        refine ⟨_ :: os, .withReturn t a as (resolveReturn rs t a) os hr
          ((returnOutcome_iff _ _ _ _).mpr rfl) hos, ?_⟩
        simp only [convertLoop, hat, Nat.zero_add, hloop]
        cases hres : resolveReturn rs t a with
        | ok r =>
          simp only [collectStep, List.nil_append, foldl_collect_ok, errs, oks]
          by_cases he : errs os = [] <;> simp [he]
        | error e =>
          have herr : ∀ (os : List (Except CallArgErr Resolved)) (es : List CallArgErr),
              os.foldl collectStep (.error es) = .error (es ++ errs os) := by
            intro os
            induction os with
            | nil => intro es; simp [errs]
            | cons o os ih =>
              intro es
              cases o with
              | ok x => simp [collectStep, errs, ih]
              | error e => simp [collectStep, errs, ih]
          simp [collectStep, herr, errs]
  · left
    refine ⟨hlen, ?_⟩
    have : args.length ≠ s.params.length + (if s.ret.isSome then 1 else 0) := by
      simpa [arity] using hlen
    simp [this, arity]

/-- the specification determines the outcome -/
theorem callSpec_functional (rs : Regions) (s : Signature) (args : List Arg) (o o' : Outcome)
    (h : CallSpec rs s args o) (h' : CallSpec rs s args o') : o = o' := by
  rcases h with ⟨hn, rfl⟩ | ⟨hl, os, hos, hcase⟩
  · rcases h' with ⟨_, rfl⟩ | ⟨hl', _⟩
    · rfl
    · exact absurd hl' hn
  · rcases h' with ⟨hn', _⟩ | ⟨_, os', hos', hcase'⟩
    · exact absurd hl hn'
    · have := slotOutcomes_functional rs s args os os' hos hos'
      subst this
      rcases hcase with ⟨he, rfl⟩ | ⟨he, rfl⟩ <;> rcases hcase' with ⟨he', rfl⟩ | ⟨he', rfl⟩
      · rfl
      · exact absurd he he'
      · exact absurd he' he
      · rfl

/-- **C31 (CALL resolution, as an equivalence)**: an outcome satisfies the declarative specification iff
it is what `resolve_to_signature` returns -/
theorem C31_call_iff (rs : Regions) (s : Signature) (args : List Arg) (o : Outcome) :
    CallSpec rs s args o ↔ resolveToSignature rs s args = o :=
  ⟨fun h => callSpec_functional rs s args _ _ (resolveToSignature_spec rs s args) h,
   fun h => h ▸ resolveToSignature_spec rs s args⟩

/-- the index `signature.parameters[parameter_index]` is never out of bounds: no panic -/
theorem C31_no_crash (rs : Regions) (s : Signature) (args : List Arg) :
    resolveToSignature rs s args ≠ .crash := by
  intro h
  have := resolveToSignature_spec rs s args
  rw [h] at this
  rcases this with ⟨_, h⟩ | ⟨_, os, _, ⟨_, h⟩ | ⟨_, h⟩⟩ <;> cases h

theorem paramOutcomes_errs_nil_iff (rs : Regions) (i : Nat) (ps : List ExtParam) (as : List Arg)
    (os : List (Except CallArgErr Resolved)) (h : ParamOutcomes rs i ps as os) :
    errs os = [] ↔ allTakeB rs ps as = true := by
  induction h with
  | nil i => simp [errs, allTakeB]
  | cons i p ps a as o os ho _ ih =>
    have ho' := (paramOutcome_iff rs p a o).mp ho
    subst ho'
    cases hr : resolve rs p a with
    | ok r =>
      have : slotTakesB rs p a = true := (slotTakesB_iff rs p a).mpr ⟨r, hr⟩
      simp [errs, allTakeB, this, ih]
    | error e =>
      have : slotTakesB rs p a = false := by
        cases hb : slotTakesB rs p a with
        | false => rfl
        | true =>
          obtain ⟨r, hr'⟩ := (slotTakesB_iff rs p a).mp hb
          rw [hr] at hr'; cases hr'
      simp [errs, allTakeB, this]

theorem allTakeB_length (rs : Regions) (ps : List ExtParam) (as : List Arg)
    (h : allTakeB rs ps as = true) : as.length = ps.length := by
  induction ps generalizing as with
  | nil => cases as <;> simp [allTakeB] at h ⊢
  | cons p ps ih =>
    cases as with
    | nil => simp [allTakeB] at h
    | cons a as => simp [allTakeB] at h; simp [ih as h.2]

/-- **C31 (headline)**: "A CALL resolves iff its argument count matches and each argument fits its slot"
— with the slot rules exactly as the statement words them (`callTakesB`). -/
theorem C31_resolves_iff (rs : Regions) (s : Signature) (args : List Arg) :
    (∃ r, resolveToSignature rs s args = .ok r) ↔ callTakesB rs s args = true := by
  have hspec := resolveToSignature_spec rs s args
  constructor
  · rintro ⟨r, hr⟩
    rw [hr] at hspec
    rcases hspec with ⟨_, h⟩ | ⟨hl, os, hos, ⟨he, _⟩ | ⟨_, h⟩⟩
    · cases h
    · cases hos with
      | noReturn _ _ hret hp =>
        simp [callTakesB, hret, ← paramOutcomes_errs_nil_iff rs 0 _ _ _ hp, he]
      | withReturn t a as o os' hret ho hp =>
        have ho' := (returnOutcome_iff rs t a o).mp ho
        subst ho'
        cases hres : resolveReturn rs t a with
        | ok r' =>
          simp only [hres, errs] at he
          have : returnTakesB rs t a = true := (returnTakesB_iff rs t a).mpr ⟨r', hres⟩
          simp [callTakesB, hret, this, ← paramOutcomes_errs_nil_iff rs 0 _ _ _ hp, he]
        | error e => simp [hres, errs] at he
    · cases h
  · intro h
    rcases hspec with ⟨hn, _⟩ | ⟨hl, os, hos, ⟨_, ho⟩ | ⟨he, _⟩⟩
    · exfalso
      apply hn
      unfold callTakesB at h
      cases hret : s.ret with
      | none => simp [hret] at h; simp [arity, hret, allTakeB_length rs _ _ h]
      | some t =>
        cases args with
        | nil => simp [hret] at h
        | cons a as => simp [hret] at h; simp [arity, hret, allTakeB_length rs _ _ h.2]
    · exact ⟨_, ho⟩
    · exfalso
      apply he
      cases hos with
      | noReturn _ _ hret hp =>
        simp [callTakesB, hret] at h
        exact (paramOutcomes_errs_nil_iff rs 0 _ _ _ hp).mpr h
      | withReturn t a as o os' hret ho hp =>
        simp [callTakesB, hret] at h
        have ho' := (returnOutcome_iff rs t a o).mp ho
        subst ho'
        obtain ⟨r', hr'⟩ := (returnTakesB_iff rs t a).mp h.1
        simp [hr', errs, (paramOutcomes_errs_nil_iff rs 0 _ _ _ hp).mpr h.2]

/-- `Call::resolve_arguments`: no extern of that name gives `NoMatchingExternInstruction`; otherwise the call
is resolved against the (first, and in an `IndexMap` only) signature registered under the name -/
theorem C31_resolveArguments (rs : Regions) (externs : List (String × Signature)) (name : String)
    (args : List Arg) :
    ((∀ e ∈ externs, e.1 ≠ name) ∧ resolveArguments rs externs name args = .err .noMatchingExtern) ∨
    (∃ s, (name, s) ∈ externs ∧ CallSpec rs s args (resolveArguments rs externs name args)) := by
  unfold resolveArguments
  cases hf : externs.find? (fun e => decide (e.1 = name)) with
  | none =>
    left
    refine ⟨?_, rfl⟩
    intro e he
    have := List.find?_eq_none.mp hf e he
    simpa using this
  | some e =>
    right
    obtain ⟨n, s⟩ := e
    have hm := List.mem_of_find?_eq_some hf
    have hn : n = name := by simpa using List.find?_some hf
    subst hn
    exact ⟨s, hm, resolveToSignature_spec rs s args⟩

/-- non-vacuity: `CALL foo ro x[1] 2.5 v` against `INTEGER (a : mut REAL, b : REAL, c : BIT[])` with `ro`
INTEGER[1], `x` REAL[2], `v` BIT[3] resolves; passing the immediate for the mutable parameter does not -/
example : resolveToSignature [("ro", ⟨.integer, 1⟩), ("x", ⟨.real, 2⟩), ("v", ⟨.bit, 3⟩)]
    ⟨some .integer, [⟨"a", true, .scalar .real⟩, ⟨"b", false, .scalar .real⟩, ⟨"c", false, .varlen .bit⟩]⟩
    [.identifier "ro", .memRef "x" 1, .immediate 0, .identifier "v"]
    = .ok [.memRef "ro" 0 .integer true, .memRef "x" 1 .real true, .immediate 0 .real, .vector "v" ⟨.bit, 3⟩ false] := by
  decide

example : resolveToSignature [("ro", ⟨.integer, 1⟩), ("x", ⟨.real, 2⟩), ("v", ⟨.bit, 3⟩)]
    ⟨some .integer, [⟨"a", true, .scalar .real⟩, ⟨"b", false, .scalar .real⟩, ⟨"c", false, .varlen .bit⟩]⟩
    [.immediate 1, .immediate 0, .memRef "ro" 0, .identifier "nope"]
    = .err (.arguments [.ret .returnArgument, .arg 0 (.immediateForMutable "a"),
        .arg 1 (.mismatchedScalar .real .integer), .arg 2 (.undeclared "nope")]) := by
  decide

/-! ## The PRAGMA EXTERN route -/

theorem sigOfPragma_ok_valid (isUser : String → Bool) (p : ExtPragma) (s : Signature)
    (h : sigOfPragma isUser p = .ok s) : ValidSig isUser s := by
  unfold sigOfPragma at h
  split at h
  · cases h
  · split at h
    · cases h
    · cases h
    · cases h
    · split at h
      · cases h
      · cases h
      · rename_i toks _
        cases hs : sigFromTokens isUser toks with
        | ok s' =>
          simp [hs] at h; subst h
          exact sigFromTokens_ok_valid isUser toks s' hs
        | error e => cases e <;> simp [hs] at h

/-- **C31 (PRAGMA EXTERN route)**: every entry of a successfully converted extern map has a user-identifier
name and a valid signature -/
theorem convertMap_ok_valid (isUser : String → Bool) (m : List (Option String × ExtPragma))
    (l : List (String × Signature)) (h : convertMap isUser m = .ok l) :
    ∀ e ∈ l, isUser e.1 = true ∧ ValidSig isUser e.2 := by
  induction m generalizing l with
  | nil => simp [convertMap] at h; subst h; simp
  | cons x xs ih =>
    obtain ⟨k, p⟩ := x
    cases k with
    | none => simp [convertMap] at h
    | some n =>
      unfold convertMap at h
      by_cases hu : isUser n = true
      · simp only [hu, Bool.not_true, Bool.false_eq_true, if_false] at h
        cases hp : sigOfPragma isUser p with
        | error e => simp [hp] at h
        | ok s =>
          simp only [hp] at h
          cases hr : convertMap isUser xs with
          | error e => simp [hr] at h
          | ok l' =>
            simp [hr] at h; subst h
            intro e he
            simp at he
            rcases he with rfl | he
            · exact ⟨hu, sigOfPragma_ok_valid isUser p s hp⟩
            · exact ih l' hr e he
      · simp [hu] at h

/-! ## Resolution and memory accesses agree -/

/-- region named by a resolved argument / by a resolved argument that may be written -/
def Resolved.region : Resolved → Option String
  | .vector n _ _ => some n
  | .memRef n _ _ _ => some n
  | .immediate _ _ => none

def Resolved.written : Resolved → Option String
  | .vector n _ true => some n
  | .memRef n _ _ true => some n
  | _ => none

theorem slotFits_access (rs : Regions) (p : ExtParam) (a : Arg) (r : Resolved) (h : SlotFits rs p a r) :
    r.region = a.region ∧ r.written = (if p.mutable then a.region else none) := by
  cases h <;> cases hm : p.mutable <;> simp_all [Resolved.region, Resolved.written, Arg.region]

theorem paramOutcomes_access (rs : Regions) (i : Nat) (ps : List ExtParam) (as : List Arg)
    (os : List (Except CallArgErr Resolved)) (h : ParamOutcomes rs i ps as os) (he : errs os = []) :
    (oks os).filterMap Resolved.region = (accessLoop as ps).1 ∧
    (oks os).filterMap Resolved.written = (accessLoop as ps).2 := by
  induction h with
  | nil i => simp [oks, accessLoop]
  | cons i p ps a as o os ho _ ih =>
    cases ho with
    | fails e _ => simp [errs] at he
    | fits r hr =>
      simp only [errs] at he
      obtain ⟨h1, h2⟩ := ih he
      obtain ⟨g1, g2⟩ := slotFits_access rs p a r hr
      simp only [oks, accessLoop, List.head?_cons, List.tail_cons, List.filterMap_cons, g1, g2, h1, h2]
      cases ha : a.region with
      | none => simp
      | some n => by_cases hm : p.mutable = true <;> simp [hm]

/-- **C31 (resolution vs memory accesses)**: for a CALL that resolves, the regions `default_memory_accesses`
reports as read are exactly the regions of the resolved arguments, and the ones it reports as written are
exactly those of the resolved arguments marked mutable (the return slot and the `mut` parameters). -/
theorem C31_accesses_of_resolved (rs : Regions) (s : Signature) (args : List Arg) (out : List Resolved)
    (h : resolveToSignature rs s args = .ok out) :
    out.filterMap Resolved.region = (callAccesses s args).1 ∧
    out.filterMap Resolved.written = (callAccesses s args).2 := by
  have hspec := resolveToSignature_spec rs s args
  rw [h] at hspec
  rcases hspec with ⟨_, h'⟩ | ⟨_, os, hos, ⟨he, ho⟩ | ⟨_, h'⟩⟩
  · cases h'
  · have : out = oks os := by injection ho
    subst this
    cases hos with
    | noReturn _ _ hret hp =>
      simp only [callAccesses, hret]
      exact paramOutcomes_access rs 0 _ _ _ hp he
    | withReturn t a as o os' hret ho' hp =>
      cases ho' with
      | fails e _ => simp [errs] at he
      | fits r hr =>
        simp only [errs] at he
        obtain ⟨h1, h2⟩ := paramOutcomes_access rs 0 _ _ _ hp he
        simp only [callAccesses, hret, oks]
        cases hr <;> simp [Resolved.region, Resolved.written, Arg.region, h1, h2]
  · cases h'

/-! ## Applicable error kinds (robustness to the order in which a doubly-wrong argument is diagnosed) -/

/-- the error the model reports is always one that applies -/
theorem resolve_error_mem (rs : Regions) (p : ExtParam) (a : Arg) (e : ArgErr)
    (h : resolve rs p a = .error e) : e ∈ slotErrs rs p a := by
  cases a with
  | identifier n =>
    cases hty : p.ty <;> cases hg : rs.get n <;>
      simp [resolve, resolveMemRef, slotErrs, hty, hg] at h ⊢ <;> (first | (subst h; simp) | (split at h <;> simp_all) | simp_all)
  | memRef n i =>
    cases hty : p.ty <;> cases hg : rs.get n <;>
      simp [resolve, resolveMemRef, slotErrs, hty, hg] at h ⊢ <;> (first | (subst h; simp) | (split at h <;> simp_all) | simp_all)
  | immediate x =>
    cases hty : p.ty <;> cases hm : p.mutable <;>
      simp [resolve, slotErrs, hty, hm, ParamType.isVector] at h ⊢ <;> (first | (subst h; simp) | simp_all)

/-- some error applies exactly when the model rejects the argument -/
theorem slotErrs_ne_nil_iff (rs : Regions) (p : ExtParam) (a : Arg) :
    slotErrs rs p a ≠ [] ↔ ∃ e, resolve rs p a = .error e := by
  cases a with
  | identifier n =>
    cases hty : p.ty <;> cases hg : rs.get n <;>
      simp [resolve, resolveMemRef, slotErrs, hty, hg] <;> (try (split <;> simp_all))
  | memRef n i =>
    cases hty : p.ty <;> cases hg : rs.get n <;>
      simp [resolve, resolveMemRef, slotErrs, hty, hg] <;> (try (split <;> simp_all))
  | immediate x =>
    cases hty : p.ty <;> cases hm : p.mutable <;>
      simp [resolve, slotErrs, hty, hm, ParamType.isVector]

theorem resolveReturn_error_mem (rs : Regions) (t : ScalarType) (a : Arg) (e : ArgErr)
    (h : resolveReturn rs t a = .error e) : e ∈ returnErrs rs t a := by
  cases a with
  | identifier n =>
    cases hg : rs.get n <;> simp [resolveReturn, returnErrs, hg] at h ⊢ <;> (first | (subst h; simp) | (split at h <;> simp_all) | simp_all)
  | memRef n i =>
    cases hg : rs.get n <;> simp [resolveReturn, returnErrs, hg] at h ⊢ <;> (first | (subst h; simp) | (split at h <;> simp_all) | simp_all)
  | immediate x => simp [resolveReturn, returnErrs] at h ⊢; exact h.symm

theorem returnErrs_ne_nil_iff (rs : Regions) (t : ScalarType) (a : Arg) :
    returnErrs rs t a ≠ [] ↔ ∃ e, resolveReturn rs t a = .error e := by
  cases a with
  | identifier n =>
    cases hg : rs.get n <;> simp [resolveReturn, returnErrs, hg] <;> (try (split <;> simp_all))
  | memRef n i =>
    cases hg : rs.get n <;> simp [resolveReturn, returnErrs, hg] <;> (try (split <;> simp_all))
  | immediate x => simp [resolveReturn, returnErrs]

theorem entryCheck_error_mem (isUser : String → Bool) (n : String) (p : ExtPragma) (e : MapErr)
    (h : entryCheck isUser n p = .error e) : e ∈ entryErrs isUser n p := by
  unfold entryCheck at h
  unfold entryErrs
  by_cases hu : isUser n = true
  · simp [hu] at h ⊢; simp [h]
  · simp [hu] at h ⊢; left; exact h.symm

theorem entryErrs_ne_nil_iff (isUser : String → Bool) (n : String) (p : ExtPragma) :
    entryErrs isUser n p ≠ [] ↔ ∃ e, entryCheck isUser n p = .error e := by
  unfold entryCheck entryErrs
  by_cases hu : isUser n = true <;> cases hs : sigOfPragma isUser p <;> simp [hu]

/-- `convertMap` applies `entryCheck` to each named entry -/
theorem convertMap_cons_named (isUser : String → Bool) (n : String) (p : ExtPragma)
    (rest : List (Option String × ExtPragma)) :
    convertMap isUser ((some n, p) :: rest) =
      match entryCheck isUser n p with
      | .error e => .error (some n, e)
      | .ok s => match convertMap isUser rest with
        | .ok l => .ok ((n, s) :: l)
        | .error e => .error e := by
  unfold entryCheck
  by_cases hu : isUser n = true <;> simp [convertMap, hu]
  cases sigOfPragma isUser p <;> rfl

theorem paramOutcomes_errs (rs : Regions) (i : Nat) (ps : List ExtParam) (as : List Arg)
    (os : List (Except CallArgErr Resolved)) (h : ParamOutcomes rs i ps as os) :
    ∀ x ∈ errs os, ∃ j e p a, x = .arg (i + j) e ∧ ps[j]? = some p ∧ as[j]? = some a ∧ e ∈ slotErrs rs p a := by
  induction h with
  | nil i => simp [errs]
  | cons i p ps a as o os ho _ ih =>
    intro x hx
    cases ho with
    | fits r _ =>
      simp only [errs] at hx
      obtain ⟨j, e, p', a', rfl, h1, h2, h3⟩ := ih x hx
      exact ⟨j + 1, e, p', a', by congr 1; omega, by simpa using h1, by simpa using h2, h3⟩
    | fails e he =>
      simp only [errs, List.mem_cons] at hx
      rcases hx with rfl | hx
      · exact ⟨0, e, p, a, rfl, rfl, rfl, resolve_error_mem rs p a e ((resolve_error_iff rs p a e).mpr he)⟩
      · obtain ⟨j, e', p', a', rfl, h1, h2, h3⟩ := ih x hx
        exact ⟨j + 1, e', p', a', by congr 1; omega, by simpa using h1, by simpa using h2, h3⟩

/-- **the model's own outcome is always acceptable**: every error it reports applies at the slot it names -/
theorem outcomeAccepts_model (rs : Regions) (s : Signature) (args : List Arg) :
    outcomeAccepts rs s args (resolveToSignature rs s args) (resolveToSignature rs s args) = true := by
  have hspec := resolveToSignature_spec rs s args
  generalize resolveToSignature rs s args = o at hspec
  rcases hspec with ⟨_, rfl⟩ | ⟨_, os, hos, ⟨_, rfl⟩ | ⟨_, rfl⟩⟩
  · simp [outcomeAccepts]
  · simp [outcomeAccepts]
  · simp only [outcomeAccepts, beq_self_eq_true, Bool.true_and, List.all_eq_true]
    intro mi hmi
    obtain ⟨m, i⟩ := mi
    have hmi' : m = i ∧ m ∈ errs os := by
      have := List.of_mem_zip hmi
      refine ⟨?_, this.1⟩
      clear this
      generalize errs os = l at hmi
      induction l with
      | nil => simp at hmi
      | cons x xs ih => simp at hmi; rcases hmi with ⟨rfl, rfl⟩ | h; rfl; exact ih h
    obtain ⟨rfl, hm⟩ := hmi'
    cases hos with
    | noReturn _ _ hret hp =>
      obtain ⟨j, e, p, a, rfl, h1, h2, h3⟩ := paramOutcomes_errs rs 0 _ _ _ hp m hm
      simp [CallArgErr.samePos, errsAt, hret, h1, h2, CallArgErr.err, h3]
    | withReturn t a as o os' hret ho hp =>
      cases ho with
      | fits r _ =>
        simp only [errs] at hm
        obtain ⟨j, e, p, a', rfl, h1, h2, h3⟩ := paramOutcomes_errs rs 0 _ _ _ hp m hm
        simp [CallArgErr.samePos, errsAt, hret, h1, h2, CallArgErr.err, h3]
      | fails e he =>
        simp only [errs, List.mem_cons] at hm
        rcases hm with rfl | hm
        · have := resolveReturn_error_mem rs t a e ((resolveReturn_error_iff rs t a e).mpr he)
          simp [CallArgErr.samePos, errsAt, hret, CallArgErr.err, this]
        · obtain ⟨j, e', p, a', rfl, h1, h2, h3⟩ := paramOutcomes_errs rs 0 _ _ _ hp m hm
          simp [CallArgErr.samePos, errsAt, hret, h1, h2, CallArgErr.err, h3]
end QV.C31
