import QV.C31.Model
/-
C31 specification, from the property text:

  "Every valid extern signature prints to text that parses back to the same signature.  A CALL resolves iff
   its argument count matches and each argument fits its slot.  The return slot takes a declared memory
   reference or name of the return type, a scalar slot takes a declared reference of its type or (if
   immutable) an immediate, and a vector slot takes the name of a region whose type and, for fixed length,
   size match."
-/
namespace QV.C31

/-- valid = what `ExternSignature::from_str` and `ExternParameter::try_new` accept: a return type or at
least one parameter, and every parameter name a valid user identifier -/
def ValidSig (isUser : String → Bool) (s : Signature) : Prop :=
  (s.ret.isSome ∨ s.params ≠ []) ∧ ∀ p ∈ s.params, isUser p.name = true

def validSigB (isUser : String → Bool) (s : Signature) : Bool :=
  (s.ret.isSome || !s.params.isEmpty) && s.params.all (fun p => isUser p.name)

/-- the region `name` is declared with element type `t` -/
def DeclaredOfType (rs : Regions) (name : String) (t : ScalarType) : Prop :=
  ∃ v, rs.get name = some v ∧ v.ty = t

/-- "The return slot takes a declared memory reference or name of the return type" (a bare name means
index 0); the resolved argument is that reference, typed and mutable. -/
inductive ReturnFits (rs : Regions) (t : ScalarType) : Arg → Resolved → Prop
  | memRef (name : String) (index : Nat) : DeclaredOfType rs name t →
      ReturnFits rs t (.memRef name index) (.memRef name index t true)
  | identifier (name : String) : DeclaredOfType rs name t →
      ReturnFits rs t (.identifier name) (.memRef name 0 t true)

/-- "a scalar slot takes a declared reference of its type or (if immutable) an immediate, and a vector slot
takes the name of a region whose type and, for fixed length, size match" -/
inductive SlotFits (rs : Regions) (p : ExtParam) : Arg → Resolved → Prop
  | scalarRef (t : ScalarType) (name : String) (index : Nat) : p.ty = .scalar t → DeclaredOfType rs name t →
      SlotFits rs p (.memRef name index) (.memRef name index t p.mutable)
  | scalarName (t : ScalarType) (name : String) : p.ty = .scalar t → DeclaredOfType rs name t →
      SlotFits rs p (.identifier name) (.memRef name 0 t p.mutable)
  | scalarImmediate (t : ScalarType) (x : Nat) : p.ty = .scalar t → p.mutable = false →
      SlotFits rs p (.immediate x) (.immediate x t)
  | fixedVector (v : Vector) (name : String) : p.ty = .fixed v → rs.get name = some v →
      SlotFits rs p (.identifier name) (.vector name v p.mutable)
  | variableVector (t : ScalarType) (v : Vector) (name : String) : p.ty = .varlen t →
      rs.get name = some v → v.ty = t →
      SlotFits rs p (.identifier name) (.vector name v p.mutable)

/-- why the return argument does not fit, with the error class reported -/
inductive ReturnFails (rs : Regions) (t : ScalarType) : Arg → ArgErr → Prop
  | immediate (x : Nat) : ReturnFails rs t (.immediate x) .returnArgument
  | undeclaredRef (name : String) (index : Nat) : rs.get name = none →
      ReturnFails rs t (.memRef name index) (.undeclared name)
  | undeclaredName (name : String) : rs.get name = none →
      ReturnFails rs t (.identifier name) (.undeclared name)
  | wrongTypeRef (name : String) (index : Nat) (v : Vector) : rs.get name = some v → v.ty ≠ t →
      ReturnFails rs t (.memRef name index) (.mismatchedScalar t v.ty)
  | wrongTypeName (name : String) (v : Vector) : rs.get name = some v → v.ty ≠ t →
      ReturnFails rs t (.identifier name) (.mismatchedScalar t v.ty)

def ParamType.isVector : ParamType → Bool
  | .scalar _ => false
  | _ => true

/-- why an argument does not fit a parameter slot, with the error class reported -/
inductive SlotFails (rs : Regions) (p : ExtParam) : Arg → ArgErr → Prop
  | immediateMutable (x : Nat) : p.mutable = true →
      SlotFails rs p (.immediate x) (.immediateForMutable p.name)
  | immediateVector (x : Nat) : p.mutable = false → p.ty.isVector = true →
      SlotFails rs p (.immediate x) .invalidVectorArgument
  | refVector (name : String) (index : Nat) : p.ty.isVector = true →
      SlotFails rs p (.memRef name index) .invalidVectorArgument
  | undeclaredRef (t : ScalarType) (name : String) (index : Nat) : p.ty = .scalar t → rs.get name = none →
      SlotFails rs p (.memRef name index) (.undeclared name)
  | undeclaredName (name : String) : rs.get name = none →
      SlotFails rs p (.identifier name) (.undeclared name)
  | scalarWrongTypeRef (t : ScalarType) (name : String) (index : Nat) (v : Vector) : p.ty = .scalar t →
      rs.get name = some v → v.ty ≠ t →
      SlotFails rs p (.memRef name index) (.mismatchedScalar t v.ty)
  | scalarWrongTypeName (t : ScalarType) (name : String) (v : Vector) : p.ty = .scalar t →
      rs.get name = some v → v.ty ≠ t →
      SlotFails rs p (.identifier name) (.mismatchedScalar t v.ty)
  | fixedMismatch (e : Vector) (name : String) (v : Vector) : p.ty = .fixed e →
      rs.get name = some v → v ≠ e →
      SlotFails rs p (.identifier name) (.mismatchedVector e v)
  | variableWrongType (t : ScalarType) (name : String) (v : Vector) : p.ty = .varlen t →
      rs.get name = some v → v.ty ≠ t →
      SlotFails rs p (.identifier name) (.mismatchedScalar t v.ty)

/-- the outcome of one slot: the resolved argument, or the slot's error -/
inductive ParamOutcome (rs : Regions) (p : ExtParam) (a : Arg) : Except ArgErr Resolved → Prop
  | fits (r : Resolved) : SlotFits rs p a r → ParamOutcome rs p a (.ok r)
  | fails (e : ArgErr) : SlotFails rs p a e → ParamOutcome rs p a (.error e)

inductive ReturnOutcome (rs : Regions) (t : ScalarType) (a : Arg) : Except ArgErr Resolved → Prop
  | fits (r : Resolved) : ReturnFits rs t a r → ReturnOutcome rs t a (.ok r)
  | fails (e : ArgErr) : ReturnFails rs t a e → ReturnOutcome rs t a (.error e)

/-- slot-by-slot outcomes of the parameter slots, numbered from `i` -/
inductive ParamOutcomes (rs : Regions) : Nat → List ExtParam → List Arg → List (Except CallArgErr Resolved) → Prop
  | nil (i : Nat) : ParamOutcomes rs i [] [] []
  | cons (i : Nat) (p : ExtParam) (ps : List ExtParam) (a : Arg) (as : List Arg)
      (o : Except ArgErr Resolved) (os : List (Except CallArgErr Resolved)) :
      ParamOutcome rs p a o → ParamOutcomes rs (i + 1) ps as os →
      ParamOutcomes rs i (p :: ps) (a :: as)
        ((match o with | .ok r => .ok r | .error e => .error (.arg i e)) :: os)

/-- slot-by-slot outcomes of a call against a signature: the return slot first (if the signature has a
return type), then the parameters numbered from 0 -/
inductive SlotOutcomes (rs : Regions) (s : Signature) : List Arg → List (Except CallArgErr Resolved) → Prop
  | noReturn (args : List Arg) (os : List (Except CallArgErr Resolved)) : s.ret = none →
      ParamOutcomes rs 0 s.params args os → SlotOutcomes rs s args os
  | withReturn (t : ScalarType) (a : Arg) (as : List Arg) (o : Except ArgErr Resolved)
      (os : List (Except CallArgErr Resolved)) : s.ret = some t →
      ReturnOutcome rs t a o → ParamOutcomes rs 0 s.params as os →
      SlotOutcomes rs s (a :: as)
        ((match o with | .ok r => .ok r | .error e => .error (.ret e)) :: os)

def oks {ε α : Type} : List (Except ε α) → List α
  | [] => []
  | .ok x :: r => x :: oks r
  | .error _ :: r => oks r

def errs {ε α : Type} : List (Except ε α) → List ε
  | [] => []
  | .ok _ :: r => errs r
  | .error e :: r => e :: errs r

/-- number of arguments a call against `s` must have -/
def arity (s : Signature) : Nat := s.params.length + (if s.ret.isSome then 1 else 0)

/-- **The CALL-resolution specification.**  Against signature `s`: a wrong argument count gives
`ParameterCount`; otherwise every slot has an outcome, the call resolves to the resolved arguments in order
iff every argument fits its slot, and else fails with the errors of exactly the failing slots, in order. -/
def CallSpec (rs : Regions) (s : Signature) (args : List Arg) (out : Outcome) : Prop :=
  (args.length ≠ arity s ∧ out = .err (.parameterCount (arity s) args.length)) ∨
  (args.length = arity s ∧ ∃ os, SlotOutcomes rs s args os ∧
    ((errs os = [] ∧ out = .ok (oks os)) ∨ (errs os ≠ [] ∧ out = .err (.arguments (errs os)))))


/-! The statement's own wording as Bool predicates: which argument a slot *takes*. -/

def declaredOfTypeB (rs : Regions) (name : String) (t : ScalarType) : Bool :=
  match rs.get name with
  | some v => v.ty == t
  | none => false

/-- "The return slot takes a declared memory reference or name of the return type" -/
def returnTakesB (rs : Regions) (t : ScalarType) : Arg → Bool
  | .memRef n _ => declaredOfTypeB rs n t
  | .identifier n => declaredOfTypeB rs n t
  | .immediate _ => false

/-- "a scalar slot takes a declared reference of its type or (if immutable) an immediate, and a vector slot
takes the name of a region whose type and, for fixed length, size match" -/
def slotTakesB (rs : Regions) (p : ExtParam) : Arg → Bool
  | .memRef n _ => (match p.ty with | .scalar t => declaredOfTypeB rs n t | _ => false)
  | .identifier n =>
    (match p.ty with
     | .scalar t => declaredOfTypeB rs n t
     | .fixed v => rs.get n == some v
     | .varlen t => declaredOfTypeB rs n t)
  | .immediate _ => (match p.ty with | .scalar _ => !p.mutable | _ => false)

/-- as many arguments as slots, and each slot takes its argument -/
def allTakeB (rs : Regions) : List ExtParam → List Arg → Bool
  | [], [] => true
  | p :: ps, a :: as => slotTakesB rs p a && allTakeB rs ps as
  | _, _ => false

/-- "its argument count matches and each argument fits its slot" -/
def callTakesB (rs : Regions) (s : Signature) (args : List Arg) : Bool :=
  match s.ret with
  | none => allTakeB rs s.params args
  | some t =>
    match args with
    | a :: as => returnTakesB rs t a && allTakeB rs s.params as
    | [] => false


/-! ### Which error kinds APPLY to a rejected argument

The property fixes when resolution succeeds and what it yields; for an argument that is wrong in two ways it
does not fix which of the two complaints is raised.  `slotErrs` / `returnErrs` list every error that applies;
an implementation may report any member (the model reports the one the current code tests first). -/

/-- every error applicable to argument `a` in parameter slot `p` (empty iff the argument fits) -/
def slotErrs (rs : Regions) (p : ExtParam) : Arg → List ArgErr
  | .immediate _ =>
    (if p.mutable then [.immediateForMutable p.name] else []) ++
    (if p.ty.isVector then [.invalidVectorArgument] else [])
  | .memRef n _ =>
    match p.ty with
    | .scalar t =>
      (match rs.get n with
       | none => [.undeclared n]
       | some v => if v.ty ≠ t then [.mismatchedScalar t v.ty] else [])
    | _ => .invalidVectorArgument :: (match rs.get n with | none => [.undeclared n] | some _ => [])
  | .identifier n =>
    match rs.get n with
    | none => [.undeclared n]
    | some v =>
      match p.ty with
      | .scalar t => if v.ty ≠ t then [.mismatchedScalar t v.ty] else []
      | .fixed e => if v ≠ e then [.mismatchedVector e v] else []
      | .varlen t => if v.ty ≠ t then [.mismatchedScalar t v.ty] else []

/-- every error applicable to the return argument -/
def returnErrs (rs : Regions) (t : ScalarType) : Arg → List ArgErr
  | .immediate _ => [.returnArgument]
  | .memRef n _ =>
    (match rs.get n with
     | none => [.undeclared n]
     | some v => if v.ty ≠ t then [.mismatchedScalar t v.ty] else [])
  | .identifier n =>
    (match rs.get n with
     | none => [.undeclared n]
     | some v => if v.ty ≠ t then [.mismatchedScalar t v.ty] else [])

/-- the errors applicable at the slot a `CallArgErr` points to (`none`: no such slot) -/
def errsAt (rs : Regions) (s : Signature) (args : List Arg) : CallArgErr → Option (List ArgErr)
  | .ret _ =>
    match s.ret, args.head? with
    | some t, some a => some (returnErrs rs t a)
    | _, _ => none
  | .arg i _ =>
    match s.params[i]?, args[i + (if s.ret.isSome then 1 else 0)]? with
    | some p, some a => some (slotErrs rs p a)
    | _, _ => none

def CallArgErr.err : CallArgErr → ArgErr
  | .ret e => e
  | .arg _ e => e

def CallArgErr.samePos : CallArgErr → CallArgErr → Bool
  | .ret _, .ret _ => true
  | .arg i _, .arg j _ => i == j
  | _, _ => false

/-- an implementation outcome is acceptable against the model's: successes, count errors and missing externs
exactly; argument errors at the same slots, in the same order, each with an error that applies at its slot -/
def outcomeAccepts (rs : Regions) (s : Signature) (args : List Arg) (model impl : Outcome) : Bool :=
  match model, impl with
  | .err (.arguments mes), .err (.arguments ies) =>
    mes.length == ies.length &&
    (mes.zip ies).all (fun (m, i) => m.samePos i &&
      (match errsAt rs s args i with | some l => l.contains i.err | none => false))
  | m, i => m == i

end QV.C31
